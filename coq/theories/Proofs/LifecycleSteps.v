(* What one step of Model/Lifecycle.v does to a single consumer, to the id counter, the clock and the removal queue. *)
From Coq Require Import ZArith List Bool Lia Permutation.
From ICS Require Import Base.Tree Model.Lifecycle Proofs.LifecycleBase Proofs.LifecycleInv.
Import ListNotations.
Open Scope Z_scope.

(* ------------------------------------------------------------------ the loops of BeginBlock *)

Lemma launch_consumer_spec : forall r o, c_phase r = 2 ->
  launch_consumer r o = if lora_good o then Some (launched r o) else None.
Proof.
  intros r o Hp. unfold launch_consumer, lora_good. rewrite Hp. rewrite andb_false_r.
  destruct (lo_size o =? 0); [reflexivity|]. simpl.
  destruct (lo_active o); [|reflexivity]. simpl.
  destruct (lo_extfail o); reflexivity.
Qed.

Lemma launch_loop_spec : forall ora ids s, NoDup ids ->
  (forall c, In c ids -> exists r, get s c = Some r /\ c_phase r = 2 /\ d_rev (c_desc r) = d_hrev (c_desc r)) ->
  exists s', launch_loop s ora ids = Some s' /\
    (forall c, ~ In c ids -> get s' c = get s c) /\
    (forall c r, In c ids -> get s c = Some r -> get s' c = Some (attempt r (lookup no_lora ora c))) /\
    s_next s' = s_next s /\ s_now s' = s_now s /\ s_spawnq s' = s_spawnq s /\ s_remq s' = s_remq s.
Proof.
  intros ora. induction ids as [|c rest IH]; intros s Hnd Hp.
  - exists s. simpl. split; [reflexivity|]. split; [reflexivity|]. split; [intros c r []|]. repeat split.
  - inversion Hnd as [|? ? Hnotin Hnd']; subst.
    destruct (Hp c (or_introl eq_refl)) as (r & Hg & Hph & Hrev).
    assert (Hid := get_id _ _ _ Hg).
    simpl. rewrite Hg. rewrite (launch_consumer_spec _ _ Hph).
    set (o := lookup no_lora ora c).
    assert (Hnext : forall f, (forall r0, c_id r0 = c -> c_id (f r0) = c) ->
      exists s', launch_loop (upd s c f) ora rest = Some s' /\
        (forall c', ~ In c' (c :: rest) -> get s' c' = get s c') /\
        (forall c' r', In c' (c :: rest) -> get s c' = Some r' ->
           get s' c' = Some (if c' =? c then f r' else attempt r' (lookup no_lora ora c'))) /\
        s_next s' = s_next s /\ s_now s' = s_now s /\ s_spawnq s' = s_spawnq s /\ s_remq s' = s_remq s).
    { intros f Hf.
      destruct (IH (upd s c f) Hnd') as (s' & Hs' & H1 & H2 & H3).
      - intros c' Hc'. destruct (Hp c' (or_intror Hc')) as (r' & Hg' & Hr').
        exists r'. split; [|exact Hr']. rewrite get_upd_other; [exact Hg' | exact Hf | intros ->; contradiction].
      - exists s'. split; [exact Hs'|]. split; [|split; [|exact H3]].
        + intros c' Hc'. rewrite H1 by (intros Hin; apply Hc'; now right).
          apply get_upd_other; [exact Hf | intros ->; apply Hc'; now left].
        + intros c' r' Hc' Hg'. destruct (c' =? c) eqn:E.
          * apply Z.eqb_eq in E. subst c'. rewrite H1 by exact Hnotin.
            apply get_upd_same; assumption.
          * apply Z.eqb_neq in E. destruct Hc' as [Hc'|Hc']; [congruence|].
            apply H2; [exact Hc'|]. rewrite get_upd_other; [exact Hg' | exact Hf | congruence]. }
    assert (Hfin : forall f, (forall r0, c_id r0 = c -> c_id (f r0) = c) -> f r = attempt r o ->
      exists s', launch_loop (upd s c f) ora rest = Some s' /\
        (forall c', ~ In c' (c :: rest) -> get s' c' = get s c') /\
        (forall c' r', In c' (c :: rest) -> get s c' = Some r' -> get s' c' = Some (attempt r' (lookup no_lora ora c'))) /\
        s_next s' = s_next s /\ s_now s' = s_now s /\ s_spawnq s' = s_spawnq s /\ s_remq s' = s_remq s).
    { intros f Hf Hfr. destruct (Hnext f Hf) as (s' & Hs' & H1 & H2 & H3).
      exists s'. split; [exact Hs'|]. split; [exact H1|]. split; [|exact H3].
      intros c' r' Hc' Hg'. rewrite (H2 c' r' Hc' Hg').
      destruct (c' =? c) eqn:E; [|reflexivity]. apply Z.eqb_eq in E. subst c'.
      rewrite Hg in Hg'. inversion Hg'; subst r'. rewrite Hfr. reflexivity. }
    unfold attempt in Hfin. destruct (lora_good o) eqn:Eg.
    + apply (Hfin (fun _ => launched r o)); [intros; exact Hid | reflexivity].
    + assert (d_rev (c_desc r) =? d_hrev (c_desc r) = true) as -> by (apply Z.eqb_eq; exact Hrev).
      apply (Hfin fallback); [intros r0 Hr0; exact Hr0 | reflexivity].
Qed.

Lemma remove_loop_spec : forall ids s,
  (forall c, ~ In c ids -> get (remove_loop s ids) c = get s c) /\
  (forall c r, In c ids -> get s c = Some r ->
     get (remove_loop s ids) c = Some (if c_phase r =? 4 then delete_consumer r else r)) /\
  s_next (remove_loop s ids) = s_next s /\ s_now (remove_loop s ids) = s_now s /\
  s_spawnq (remove_loop s ids) = s_spawnq s /\ s_remq (remove_loop s ids) = s_remq s.
Proof.
  induction ids as [|c rest IH]; intros s.
  - simpl. split; [reflexivity|]. split; [intros c r []|]. repeat split.
  - simpl.
    set (s1 := if phase_of s c =? 4 then upd s c delete_consumer else s).
    assert (Hf : forall r0, c_id r0 = c -> c_id (delete_consumer r0) = c) by (intros r0 H; exact H).
    assert (Hother : forall c', c' <> c -> get s1 c' = get s c').
    { intros c' Hne. unfold s1. destruct (phase_of s c =? 4); [|reflexivity].
      apply get_upd_other; [exact Hf | congruence]. }
    assert (Hsame : forall r, get s c = Some r -> get s1 c = Some (if c_phase r =? 4 then delete_consumer r else r)).
    { intros r Hg. unfold s1. rewrite (phase_of_get _ _ _ Hg). destruct (c_phase r =? 4); [|exact Hg].
      apply get_upd_same; assumption. }
    assert (Hfields : s_next s1 = s_next s /\ s_now s1 = s_now s /\ s_spawnq s1 = s_spawnq s /\ s_remq s1 = s_remq s).
    { unfold s1. destruct (phase_of s c =? 4); repeat split. }
    destruct (IH s1) as (H1 & H2 & H3 & H4 & H5 & H6).
    split; [|split].
    + intros c' Hc'. rewrite H1 by (intros Hin; apply Hc'; now right).
      apply Hother. intros ->. apply Hc'. now left.
    + intros c' r Hc' Hg.
      destruct (in_dec Z.eq_dec c' rest) as [Hin|Hnin].
      * destruct (Z.eq_dec c' c) as [->|Hne].
        -- rewrite (H2 c _ Hin (Hsame r Hg)).
           destruct (c_phase r =? 4) eqn:E; [reflexivity|]. rewrite E. reflexivity.
        -- apply H2; [exact Hin|]. rewrite Hother by exact Hne. exact Hg.
      * destruct Hc' as [Hc'|Hc']; [subst c'|contradiction].
        rewrite H1 by exact Hnin. apply Hsame. exact Hg.
    + destruct Hfields as (F1 & F2 & F3 & F4). rewrite H3, H4, H5, H6. repeat split; assumption.
Qed.

(* ------------------------------------------------------------------ transitions of one consumer *)

Definition flags_eq (p q : proto) : Prop :=
  p_client q = p_client p /\ p_genesis q = p_genesis p /\ p_evmin q = p_evmin p /\ p_channel q = p_channel p /\
  p_optin q = p_optin p.

(* effect of EndBlockVSU on a launched consumer *)
Definition end_rel (U : Z) (s : state) (r r' : consumer) : Prop :=
  c_desc r' = c_desc r /\ flags_eq (c_proto r) (c_proto r') /\
  ((c_phase r' = 3 /\ p_removal (c_proto r') = p_removal (c_proto r)) \/
   (c_phase r' = 4 /\ p_removal (c_proto r') = s_now s + U)).

Definition stops (o : op) (c : Z) : Prop :=
  (exists sender, o = ORemove c sender) \/ o = OTimeout c \/ o = OErrAck c.

Inductive trans (U : Z) (s : state) (o : op) (r r' : consumer) : Prop :=
| t_same : r' = r -> trans U s o r r'
| t_update : (exists sender nc no ini, o = OUpdate (c_id r) sender nc no ini) ->
    c_proto r' = c_proto r -> c_sent r' = c_sent r ->
    ((1 <= c_phase r <= 2 /\ 1 <= c_phase r' <= 2) \/ (c_phase r = 3 /\ c_phase r' = 3)) -> trans U s o r r'
| t_optin : (exists v k, o = OOptIn (c_id r) v k) -> 1 <= c_phase r <= 3 -> c_phase r' = c_phase r ->
    c_desc r' = c_desc r -> c_sent r' = c_sent r -> core_eq (c_proto r) (c_proto r') -> trans U s o r r'
| t_decorate : (exists tag, o = ODecorate (c_id r) tag) ->
    (exists l, r' = set_proto (p_set_extra l (c_proto r)) r) -> trans U s o r r'
| t_channel : o = OChannel (c_id r) -> p_client (c_proto r) = true ->
    r' = set_proto (p_set_channel true (c_proto r)) r -> trans U s o r r'
| t_launch : forall now ora, o = OBegin now ora -> c_phase r = 2 ->
    r' = attempt r (lookup no_lora ora (c_id r)) -> trans U s o r r'
| t_delete : forall now ora, o = OBegin now ora -> c_phase r = 4 ->
    r' = delete_consumer r -> trans U s o r r'
| t_stop : stops o (c_id r) -> 3 <= c_phase r <= 4 ->
    r' = set_proto (p_set_removal (s_now s + U) (c_proto r)) (set_phase 4 r) -> trans U s o r r'
| t_end : (exists e order ora, o = OEnd e order ora) -> c_phase r = 3 -> end_rel U s r r' -> trans U s o r r'.

(* --- create --- *)
Lemma init_prepare_other : forall s c prev s' c', initialize_and_prepare s c prev = Some s' -> c' <> c ->
  get s' c' = get s c'.
Proof.
  intros s c prev s' c' H Hne. unfold initialize_and_prepare in H.
  destruct (get s c) as [r|]; [|inversion H; reflexivity].
  destruct (is_prelaunched (c_phase r) && negb (d_spawn (c_desc r) =? 0)); [|inversion H; reflexivity].
  assert (Hu : get (upd s c (set_phase 2)) c' = get s c').
  { apply get_upd_other; [intros r0 Hr0; exact Hr0 | congruence]. }
  destruct (prev =? 0); [inversion H; subst; exact Hu|].
  destruct (tq_remove (s_spawnq (upd s c (set_phase 2))) prev c); [|discriminate].
  inversion H; subst. exact Hu.
Qed.

(* the scheduled consumer keeps everything but its phase, which stays pre-launch *)
Lemma init_prepare_same : forall s c prev s' r, initialize_and_prepare s c prev = Some s' -> get s c = Some r ->
  get s' c = Some r \/ (1 <= c_phase r <= 2 /\ get s' c = Some (set_phase 2 r)).
Proof.
  intros s c prev s' r H Hg. unfold initialize_and_prepare in H. rewrite Hg in H.
  destruct (is_prelaunched (c_phase r) && negb (d_spawn (c_desc r) =? 0)) eqn:E; [|inversion H; subst; left; exact Hg].
  apply andb_true_iff in E. destruct E as [E _]. unfold is_prelaunched in E. apply orb_true_iff in E.
  rewrite !Z.eqb_eq in E.
  assert (Hu : get (upd s c (set_phase 2)) c = Some (set_phase 2 r)).
  { apply get_upd_same; [intros r0 Hr0; exact Hr0 | exact Hg]. }
  right. split; [lia|].
  destruct (prev =? 0); [inversion H; subst; exact Hu|].
  destruct (tq_remove (s_spawnq (upd s c (set_phase 2))) prev c); [|discriminate].
  inversion H; subst. exact Hu.
Qed.

Lemma init_prepare_fields : forall s c prev s', initialize_and_prepare s c prev = Some s' ->
  s_next s' = s_next s /\ s_now s' = s_now s /\ s_remq s' = s_remq s.
Proof.
  intros s c prev s' H. unfold initialize_and_prepare in H.
  destruct (get s c) as [r|]; [|inversion H; repeat split].
  destruct (is_prelaunched (c_phase r) && negb (d_spawn (c_desc r) =? 0)); [|inversion H; repeat split].
  destruct (prev =? 0); [inversion H; subst; repeat split|].
  destruct (tq_remove (s_spawnq (upd s c (set_phase 2))) prev c); [|discriminate].
  inversion H; subst. repeat split.
Qed.

Lemma create_existing : forall s owner chain rev ini c r, inv s -> get s c = Some r ->
  get (fst (do_create s owner chain rev ini)) c = Some r.
Proof.
  intros s owner chain rev ini c r Hi Hg. unfold do_create.
  destruct (match ini with Some x => x | None => (0, 1, 0) end) as [[spawn hrev] conn].
  destruct (negb (hrev =? rev)); [exact Hg|].
  set (rn := mkC (s_next s) 1 (mkD owner chain rev spawn hrev conn) empty_proto 0).
  set (s1 := mkS (s_next s + 1) (s_now s) (s_cons s ++ [rn]) (s_spawnq s) (s_remq s)).
  assert (Hg1 : get s1 c = Some r).
  { unfold get, s1. simpl. rewrite find_app_last. unfold get in Hg. rewrite Hg. reflexivity. }
  assert (Hne : c <> s_next s).
  { intros ->. rewrite (get_next_none [] s Hi) in Hg. discriminate. }
  destruct (initialize_and_prepare s1 (s_next s) 0) as [s2|] eqn:E; simpl fst; [|exact Hg].
  rewrite (init_prepare_other _ _ _ _ c E Hne). exact Hg1.
Qed.

Lemma create_new : forall s owner chain rev ini, inv s ->
  snd (do_create s owner chain rev ini) = r_ok ->
  exists r, get (fst (do_create s owner chain rev ini)) (s_next s) = Some r /\
            1 <= c_phase r <= 2 /\ c_proto r = empty_proto /\ c_sent r = 0 /\
            s_next (fst (do_create s owner chain rev ini)) = s_next s + 1.
Proof.
  intros s owner chain rev ini Hi. unfold do_create.
  destruct (match ini with Some x => x | None => (0, 1, 0) end) as [[spawn hrev] conn].
  destruct (negb (hrev =? rev)); [simpl; intros H; discriminate|].
  set (rn := mkC (s_next s) 1 (mkD owner chain rev spawn hrev conn) empty_proto 0).
  set (s1 := mkS (s_next s + 1) (s_now s) (s_cons s ++ [rn]) (s_spawnq s) (s_remq s)).
  assert (Hg1 : get s1 (s_next s) = Some rn).
  { unfold get, s1. simpl. rewrite find_app_last.
    assert (Hn := get_next_none [] s Hi). unfold get in Hn. rewrite Hn. simpl. rewrite Z.eqb_refl. reflexivity. }
  destruct (initialize_and_prepare s1 (s_next s) 0) as [s2|] eqn:E; simpl; [|intros H; discriminate].
  intros _. destruct (init_prepare_fields _ _ _ _ E) as (F1 & _).
  destruct (init_prepare_same _ _ _ _ _ E Hg1) as [H|[_ H]].
  - exists rn. split; [exact H|]. simpl. repeat split; try lia. exact F1.
  - exists (set_phase 2 rn). split; [exact H|]. simpl. repeat split; try lia. exact F1.
Qed.

Lemma create_fail : forall s owner chain rev ini,
  snd (do_create s owner chain rev ini) <> r_ok -> fst (do_create s owner chain rev ini) = s.
Proof.
  intros s owner chain rev ini. unfold do_create.
  destruct (match ini with Some x => x | None => (0, 1, 0) end) as [[spawn hrev] conn].
  destruct (negb (hrev =? rev)); [reflexivity|].
  destruct (initialize_and_prepare _ _ 0); simpl; [intros H; exfalso; apply H; reflexivity | reflexivity].
Qed.

(* --- update: only the addressed consumer changes; proto and sent stay; the phase stays or moves within pre-launch --- *)
Definition urel (c : Z) (s s' : state) : Prop :=
  (forall c', c' <> c -> get s' c' = get s c') /\
  (forall r, get s c = Some r -> exists r', get s' c = Some r' /\ c_id r' = c_id r /\ c_proto r' = c_proto r /\
      c_sent r' = c_sent r /\ (c_phase r' = c_phase r \/ (1 <= c_phase r <= 2 /\ 1 <= c_phase r' <= 2))) /\
  s_next s' = s_next s /\ s_now s' = s_now s /\ s_remq s' = s_remq s.

Lemma urel_refl : forall c s, urel c s s.
Proof.
  intros c s. split; [reflexivity|]. split; [|repeat split].
  intros r Hg. exists r. repeat split; try assumption. now left.
Qed.

Lemma urel_trans : forall c s1 s2 s3, urel c s1 s2 -> urel c s2 s3 -> urel c s1 s3.
Proof.
  intros c s1 s2 s3 (A1 & A2 & A3 & A4 & A5) (B1 & B2 & B3 & B4 & B5).
  split; [intros c' Hne; rewrite B1, A1 by exact Hne; reflexivity|].
  split; [|repeat split; congruence].
  intros r Hg. destruct (A2 r Hg) as (r2 & G2 & I2 & P2 & S2 & Q2).
  destruct (B2 r2 G2) as (r3 & G3 & I3 & P3 & S3 & Q3).
  exists r3. repeat split; try congruence. lia.
Qed.

Lemma urel_upd : forall c s f,
  (forall r, c_id (f r) = c_id r /\ c_proto (f r) = c_proto r /\ c_sent (f r) = c_sent r) ->
  (forall r, get s c = Some r -> c_phase (f r) = c_phase r \/ (1 <= c_phase r <= 2 /\ 1 <= c_phase (f r) <= 2)) ->
  urel c s (upd s c f).
Proof.
  intros c s f Hf Hp.
  assert (Hf' : forall r, c_id r = c -> c_id (f r) = c) by (intros r Hr; rewrite (proj1 (Hf r)); exact Hr).
  split; [intros c' Hne; apply get_upd_other; [exact Hf' | congruence]|].
  split; [|repeat split].
  intros r Hg. exists (f r). split; [apply get_upd_same; assumption|].
  destruct (Hf r) as (F1 & F2 & F3). repeat split; try assumption. apply Hp. exact Hg.
Qed.

Lemma urel_spawnq : forall c s q, urel c s (set_spawnq q s).
Proof.
  intros c s q. split; [reflexivity|]. split; [|repeat split].
  intros r Hg. exists r. repeat split; try assumption. now left.
Qed.

Lemma urel_init_prepare : forall s c prev s', initialize_and_prepare s c prev = Some s' -> urel c s s'.
Proof.
  intros s c prev s' H.
  destruct (init_prepare_fields _ _ _ _ H) as (F1 & F2 & F3).
  split; [intros c' Hne; eapply init_prepare_other; eassumption|].
  split; [|repeat split; assumption].
  intros r Hg. destruct (init_prepare_same _ _ _ _ _ H Hg) as [Hs|[Hp Hs]].
  - exists r. repeat split; try assumption. now left.
  - exists (set_phase 2 r). repeat split; try assumption. right. simpl. lia.
Qed.

Lemma urel_apply_ini : forall s2 c p0 prev ini s4,
  apply_ini s2 c p0 prev ini = inl s4 -> phase_of s2 c = p0 -> urel c s2 s4.
Proof.
  intros s2 c p0 prev ini s4 H Hp0. unfold apply_ini in H.
  destruct ini as [[[sp hr] cn]|].
  - destruct (negb (is_prelaunched p0)); [discriminate|].
    destruct ((sp =? 0) && (p0 =? 2)) eqn:Eun.
    + apply andb_true_iff in Eun. destruct Eun as [_ Ep]. apply Z.eqb_eq in Ep.
      destruct (tq_remove (s_spawnq s2) prev c) as [q|]; [|discriminate].
      destruct (negb (hr =? _)); [discriminate|]. inversion H; subst s4. clear H.
      eapply urel_trans; [apply urel_spawnq|]. eapply urel_trans.
      * apply urel_upd with (f := set_phase 1); [intros r; repeat split|].
        intros r Hg. right. simpl.
        change (get (set_spawnq q s2) c) with (get s2 c) in Hg.
        rewrite (phase_of_get _ _ _ Hg) in Hp0. lia.
      * apply urel_upd; [intros r; repeat split | intros r Hg; now left].
    + destruct (negb (hr =? _)); [discriminate|]. inversion H; subst s4.
      apply urel_upd; [intros r; repeat split | intros r Hg; now left].
  - destruct (get s2 c) as [r|]; [|inversion H; apply urel_refl].
    destruct (d_hrev (c_desc r) =? d_rev (c_desc r)); [inversion H; apply urel_refl | discriminate].
Qed.

Lemma update_urel : forall s c sender nc no ini, urel c s (fst (do_update s c sender nc no ini)).
Proof.
  intros s c sender nc no ini. unfold do_update.
  destruct (get s c) as [r0|] eqn:Hg0; [|apply urel_refl].
  destruct (negb (is_active (c_phase r0))); [apply urel_refl|].
  destruct (negb (d_owner (c_desc r0) =? sender)); [apply urel_refl|].
  set (chg := match nc with
              | Some (ch, rv) => negb ((ch =? d_chain (c_desc r0)) && (rv =? d_rev (c_desc r0)))
              | None => false end).
  destruct (chg && negb (is_prelaunched (c_phase r0))); [apply urel_refl|].
  set (s1 := match nc with
             | Some (ch, rv) => if chg then upd s c (fun r => set_desc (d_set_chain ch rv (c_desc r)) r) else s
             | None => s end).
  set (s2 := match no with
             | Some o => upd s1 c (fun r => set_desc (d_set_owner o (c_desc r)) r)
             | None => s1 end).
  assert (Hdesc : forall s0 (g : desc -> desc), urel c s0 (upd s0 c (fun r => set_desc (g (c_desc r)) r))).
  { intros s0 g. apply urel_upd; [intros r; repeat split | intros r Hg; now left]. }
  assert (U1 : urel c s s1).
  { unfold s1. destruct nc as [[ch rv]|]; [|apply urel_refl]. destruct chg; [apply Hdesc | apply urel_refl]. }
  assert (U2 : urel c s s2).
  { eapply urel_trans; [exact U1|]. unfold s2. destruct no; [apply Hdesc | apply urel_refl]. }
  assert (Hp2 : phase_of s2 c = c_phase r0).
  { destruct U2 as (_ & B & _). destruct (B r0 Hg0) as (r2 & G2 & _ & P2 & _ & Q2).
    rewrite (phase_of_get _ _ _ G2).
    assert (forall s0 (g : desc -> desc) r, get s0 c = Some r ->
            exists r', get (upd s0 c (fun r => set_desc (g (c_desc r)) r)) c = Some r' /\ c_phase r' = c_phase r) as Hd.
    { intros s0 g r Hg. eexists. split; [apply (get_upd_same s0 c (fun r => set_desc (g (c_desc r)) r) r); [intros r1 Hr1; exact Hr1 | exact Hg] | reflexivity]. }
    assert (exists r1, get s1 c = Some r1 /\ c_phase r1 = c_phase r0) as (r1 & G1 & P1).
    { unfold s1. destruct nc as [[ch rv]|]; [|eauto]. destruct chg; [apply Hd; exact Hg0 | eauto]. }
    assert (exists r2', get s2 c = Some r2' /\ c_phase r2' = c_phase r0) as (r2' & G2' & P2').
    { unfold s2. destruct no; [|eauto]. destruct (Hd s1 (d_set_owner z) r1 G1) as (x & X1 & X2). exists x. split; [exact X1 | congruence]. }
    congruence. }
  destruct (apply_ini s2 c (c_phase r0) (d_spawn (c_desc r0)) ini) as [s4|code] eqn:Ea; [|apply urel_refl].
  assert (U4 : urel c s s4) by (eapply urel_trans; [exact U2 | eapply urel_apply_ini; eassumption]).
  destruct (initialize_and_prepare s4 c (d_spawn (c_desc r0))) as [s5|] eqn:Ei; [|apply urel_refl].
  simpl fst. eapply urel_trans; [exact U4 | eapply urel_init_prepare; exact Ei].
Qed.

(* --- stop --- *)
Lemma stop_get : forall U s c c', get (stop_and_prepare U s c) c' =
  if c =? c' then option_map (fun r => set_proto (p_set_removal (s_now s + U) (c_proto r)) (set_phase 4 r)) (get s c')
  else get s c'.
Proof.
  intros U s c c'. unfold stop_and_prepare.
  change (get (set_remq ?q ?s0) c') with (get s0 c').
  apply get_upd. intros r Hr. exact Hr.
Qed.

Lemma stop_fields : forall U s c,
  s_next (stop_and_prepare U s c) = s_next s /\ s_now (stop_and_prepare U s c) = s_now s /\
  s_spawnq (stop_and_prepare U s c) = s_spawnq s /\
  s_remq (stop_and_prepare U s c) = tq_append (s_remq s) (s_now s + U) c.
Proof. intros. unfold stop_and_prepare. simpl. repeat split. Qed.

(* --- end block: relation for one consumer across the two folds --- *)
Definition erel (U now : Z) (r r' : consumer) : Prop :=
  r' = r \/
  (c_phase r = 3 /\ c_id r' = c_id r /\ c_desc r' = c_desc r /\ flags_eq (c_proto r) (c_proto r') /\
   ((c_phase r' = 3 /\ p_removal (c_proto r') = p_removal (c_proto r)) \/
    (c_phase r' = 4 /\ p_removal (c_proto r') = now + U))).

Lemma erel_trans : forall U now r1 r2 r3, erel U now r1 r2 -> erel U now r2 r3 -> erel U now r1 r3.
Proof.
  intros U now r1 r2 r3 [->|(A1 & A2 & A3 & (F1 & F2 & F3 & F4 & F5) & A5)] [->|(B1 & B2 & B3 & (G1 & G2 & G3 & G4 & G5) & B5)].
  - now left.
  - right. repeat split; assumption.
  - right. repeat split; assumption.
  - right. split; [exact A1|]. split; [congruence|]. split; [congruence|].
    split; [repeat split; congruence|].
    destruct A5 as [[A5 A6]|[A5 A6]]; [|lia].
    destruct B5 as [[B5 B6]|[B5 B6]]; [left; split; congruence | right; split; assumption].
Qed.

Definition estep (U : Z) (f : state -> Z -> state) : Prop :=
  forall s c0, s_now (f s c0) = s_now s /\ s_next (f s c0) = s_next s /\
    forall c r, get s c = Some r -> exists r', get (f s c0) c = Some r' /\ erel U (s_now s) r r'.

Lemma estep_queue_one : forall U ora, estep U (queue_one ora).
Proof.
  intros U ora s c0. unfold queue_one.
  destruct (get s c0) as [r0|] eqn:Hg0; [|repeat split; intros c r Hg; exists r; split; [exact Hg | now left]].
  destruct (p_client (c_proto r0) && (c_phase r0 =? 3)) eqn:E;
    [|repeat split; intros c r Hg; exists r; split; [exact Hg | now left]].
  apply andb_true_iff in E. destruct E as [_ E]. apply Z.eqb_eq in E.
  split; [reflexivity|]. split; [reflexivity|].
  intros c r Hg.
  set (f := fun r1 : consumer =>
      set_proto (if eo_changes (lookup no_eora ora c0)
                 then p_set_extra (set_del 15 (p_extra (p_set_valset (eo_size (lookup no_eora ora c0)) (c_proto r1))))
                        (p_set_pending (p_pending (p_set_valset (eo_size (lookup no_eora ora c0)) (c_proto r1)) + 1)
                           (p_set_valset (eo_size (lookup no_eora ora c0)) (c_proto r1)))
                 else p_set_valset (eo_size (lookup no_eora ora c0)) (c_proto r1)) r1).
  assert (Hf : forall r1, c_id r1 = c0 -> c_id (f r1) = c0) by (intros r1 H; exact H).
  destruct (Z.eq_dec c0 c) as [->|Hne].
  - rewrite Hg in Hg0. inversion Hg0; subst r0.
    exists (f r). split; [apply (get_upd_same s c f r Hf Hg)|].
    right. split; [exact E|]. unfold f. destruct (eo_changes (lookup no_eora ora c)); simpl;
      (split; [reflexivity|]; split; [reflexivity|]; split; [repeat split|]; left; split; [exact E | reflexivity]).
  - exists r. split; [|now left]. rewrite (get_upd_other s c0 c f Hf Hne). exact Hg.
Qed.

Lemma estep_send_one : forall U ora, estep U (send_one U ora).
Proof.
  intros U ora s c0. unfold send_one.
  assert (Hid : s_now s = s_now s /\ s_next s = s_next s /\
                forall c r, get s c = Some r -> exists r', get s c = Some r' /\ erel U (s_now s) r r').
  { repeat split. intros c r Hg. exists r. split; [exact Hg | now left]. }
  destruct (get s c0) as [r0|] eqn:Hg0; [|exact Hid].
  destruct (p_client (c_proto r0) && (c_phase r0 =? 3) && p_channel (c_proto r0)) eqn:E; [|exact Hid].
  apply andb_true_iff in E. destruct E as [E _]. apply andb_true_iff in E. destruct E as [_ E]. apply Z.eqb_eq in E.
  destruct (p_pending (c_proto r0) =? 0); [exact Hid|].
  destruct (eo_mode (lookup no_eora ora c0) =? 0).
  - split; [reflexivity|]. split; [reflexivity|]. intros c r Hg.
    set (f := fun r1 : consumer => set_sent (c_sent r1 + p_pending (c_proto r1)) (set_proto (p_set_pending 0 (c_proto r1)) r1)).
    assert (Hf : forall r1, c_id r1 = c0 -> c_id (f r1) = c0) by (intros r1 H; exact H).
    destruct (Z.eq_dec c0 c) as [->|Hne].
    + rewrite Hg in Hg0. inversion Hg0; subst r0. exists (f r). split; [apply (get_upd_same s c f r Hf Hg)|].
      right. split; [exact E|]. simpl. split; [reflexivity|]. split; [reflexivity|]. split; [repeat split|].
      left. split; [exact E | reflexivity].
    + exists r. split; [|now left]. rewrite (get_upd_other s c0 c f Hf Hne). exact Hg.
  - destruct (eo_mode (lookup no_eora ora c0) =? 1); [exact Hid|].
    destruct (p_pending (c_proto r0) <=? Z.max 0 (eo_mode (lookup no_eora ora c0) - 2)).
    + split; [reflexivity|]. split; [reflexivity|]. intros c r Hg.
      set (f := fun r1 : consumer => set_sent (c_sent r1 + p_pending (c_proto r1)) (set_proto (p_set_pending 0 (c_proto r1)) r1)).
      assert (Hf : forall r1, c_id r1 = c0 -> c_id (f r1) = c0) by (intros r1 H; exact H).
      destruct (Z.eq_dec c0 c) as [->|Hne].
      * rewrite Hg in Hg0. inversion Hg0; subst r0. exists (f r). split; [apply (get_upd_same s c f r Hf Hg)|].
        right. split; [exact E|]. simpl. split; [reflexivity|]. split; [reflexivity|]. split; [repeat split|].
        left. split; [exact E | reflexivity].
      * exists r. split; [|now left]. rewrite (get_upd_other s c0 c f Hf Hne). exact Hg.
    + set (j := Z.max 0 (eo_mode (lookup no_eora ora c0) - 2)).
      set (f := fun r1 : consumer => set_sent (c_sent r1 + j) r1).
      assert (Hf : forall r1, c_id r1 = c0 -> c_id (f r1) = c0) by (intros r1 H; exact H).
      destruct (eo_stopfail (lookup no_eora ora c0)).
      { split; [reflexivity|]. split; [reflexivity|]. intros c r Hg.
        destruct (Z.eq_dec c0 c) as [->|Hne].
        - rewrite Hg in Hg0. inversion Hg0; subst r0. exists (f r). split; [apply (get_upd_same s c f r Hf Hg)|].
          right. split; [exact E|]. simpl. split; [reflexivity|]. split; [reflexivity|]. split; [repeat split|].
          left. split; [exact E | reflexivity].
        - exists r. split; [|now left]. rewrite (get_upd_other s c0 c f Hf Hne). exact Hg. }
      destruct (stop_fields U (upd s c0 f) c0) as (F1 & F2 & _). split; [exact F2|]. split; [exact F1|].
      intros c r Hg. rewrite stop_get. destruct (c0 =? c) eqn:Ec.
      * apply Z.eqb_eq in Ec. subst c0. rewrite (get_upd_same s c f r Hf Hg). simpl. eexists. split; [reflexivity|].
        rewrite Hg in Hg0. inversion Hg0; subst r0.
        right. split; [exact E|]. simpl. split; [reflexivity|]. split; [reflexivity|]. split; [repeat split|].
        right. split; reflexivity.
      * apply Z.eqb_neq in Ec. rewrite (get_upd_other s c0 c f Hf Ec). exists r. split; [exact Hg | now left].
Qed.

Lemma estep_fold : forall U f, estep U f -> forall l s,
  s_now (fold_left f l s) = s_now s /\ s_next (fold_left f l s) = s_next s /\
  forall c r, get s c = Some r -> exists r', get (fold_left f l s) c = Some r' /\ erel U (s_now s) r r'.
Proof.
  intros U f Hf. induction l as [|x l IH]; intros s; simpl.
  - repeat split. intros c r Hg. exists r. split; [exact Hg | now left].
  - destruct (Hf s x) as (N1 & X1 & S1). destruct (IH (f s x)) as (N2 & X2 & S2).
    split; [congruence|]. split; [congruence|].
    intros c r Hg. destruct (S1 c r Hg) as (r1 & G1 & E1). destruct (S2 c r1 G1) as (r2 & G2 & E2).
    exists r2. split; [exact G2|]. rewrite N1 in E2. eapply erel_trans; eassumption.
Qed.

(* sent packets of a consumer whose end-block transition ends in phase 4 *)
Lemma end_get : forall U s epoch order ora c r, get s c = Some r ->
  exists r', get (fst (do_end U s epoch order ora)) c = Some r' /\ erel U (s_now s) r r'.
Proof.
  intros U s epoch order ora c r Hg. unfold do_end. destruct epoch; simpl fst; [|exists r; split; [exact Hg | now left]].
  destruct (estep_fold U _ (estep_queue_one U ora) order s) as (N1 & _ & S1).
  destruct (S1 c r Hg) as (r1 & G1 & E1).
  destruct (estep_fold U _ (estep_send_one U ora) order (fold_left (queue_one ora) order s)) as (N2 & _ & S2).
  destruct (S2 c r1 G1) as (r2 & G2 & E2).
  exists r2. split; [exact G2|]. rewrite N1 in E2. eapply erel_trans; eassumption.
Qed.

(* --- begin block --- *)
Lemma attempted_facts : forall s now c, inv s -> In c (attempted s now) ->
  exists r, get s c = Some r /\ c_phase r = 2 /\ d_rev (c_desc r) = d_hrev (c_desc r).
Proof.
  intros s now c Hi Hin. unfold attempted in Hin.
  assert (Hs := io_sq_sorted _ _ Hi).
  assert (Hall : In c (all_ids (s_spawnq s))).
  { destruct (due_prefix _ now Hs) as [rest Hr]. rewrite Hr. apply in_or_app. left.
    eapply in_firstn. exact Hin. }
  destruct (in_all_tq_get _ _ Hs Hall) as [ts Hts].
  destruct (io_sq_sound _ _ Hi ts c (fun H => H) Hts) as (r & Hg & Hph & _).
  exists r. split; [exact Hg|]. split; [exact Hph|].
  assert (Hc := io_cons _ _ Hi c r (fun H => H) Hg). cinv_destruct Hc. exact A2.
Qed.

Lemma begin_get : forall s now ora c r, inv s -> get s c = Some r ->
  get (fst (do_begin s now ora)) c =
  Some (if mem c (attempted s now) then attempt r (lookup no_lora ora c)
        else if mem c (removal_due s now) && (c_phase r =? 4) then delete_consumer r else r).
Proof.
  intros s now ora c r Hi Hg.
  destruct (begin_shape s now ora Hi) as (s1 & Hl & Hinv & Hr & Hq & Hn & Heq).
  rewrite Heq. simpl fst.
  assert (Hs := io_sq_sorted _ _ Hi). assert (Hrs := io_rq_sorted _ _ Hi).
  assert (Hids : fst (consume (s_spawnq s) now limit) = attempted s now) by (apply consume_firstn; exact Hs).
  assert (Hrids : fst (consume (s_remq s) now limit) = removal_due s now) by (apply consume_firstn; exact Hrs).
  rewrite Hids in Hl. rewrite Hrids.
  (* launch part *)
  assert (Hnd : NoDup (attempted s now)).
  { assert (Hnd := io_sq_nodup _ _ Hi).
    destruct (consume (s_spawnq s) now limit) as [ids q'] eqn:Ec. simpl in Hids. subst ids.
    rewrite (consume_split _ _ _ _ _ Ec) in Hnd. exact (proj1 (nodup_app_parts _ _ Hnd)). }
  destruct (launch_loop_spec ora (attempted s now)
              (set_spawnq (snd (consume (s_spawnq s) now limit)) (set_now now s)) Hnd) as (s1' & Hl' & L1 & L2 & _).
  { intros c' Hc'. apply (attempted_facts s now c' Hi Hc'). }
  rewrite Hl in Hl'. inversion Hl'; subst s1'. clear Hl'.
  destruct (remove_loop_spec (removal_due s now) (set_remq (snd (consume (s_remq s) now limit)) s1))
    as (R1 & R2 & _).
  change (forall c0, ~ In c0 (removal_due s now) -> get (remove_loop (set_remq (snd (consume (s_remq s) now limit)) s1) (removal_due s now)) c0 = get s1 c0) in R1.
  change (forall c0 r0, In c0 (removal_due s now) -> get s1 c0 = Some r0 ->
          get (remove_loop (set_remq (snd (consume (s_remq s) now limit)) s1) (removal_due s now)) c0 =
          Some (if c_phase r0 =? 4 then delete_consumer r0 else r0)) in R2.
  change (forall c0, ~ In c0 (attempted s now) -> get s1 c0 = get s c0) in L1.
  change (forall c0 r0, In c0 (attempted s now) -> get s c0 = Some r0 -> get s1 c0 = Some (attempt r0 (lookup no_lora ora c0))) in L2.
  destruct (mem c (attempted s now)) eqn:Ea.
  - apply mem_in in Ea. assert (G1 := L2 c r Ea Hg).
    destruct (attempted_facts s now c Hi Ea) as (r' & Hg' & Hph & _).
    rewrite Hg in Hg'. inversion Hg'; subst r'.
    assert (Hp1 : c_phase (attempt r (lookup no_lora ora c)) =? 4 = false).
    { unfold attempt. destruct (lora_good (lookup no_lora ora c)); reflexivity. }
    destruct (in_dec Z.eq_dec c (removal_due s now)) as [Hin|Hnin].
    + rewrite (R2 c _ Hin G1). rewrite Hp1. reflexivity.
    + rewrite (R1 c Hnin). exact G1.
  - assert (Hna : ~ In c (attempted s now)) by (intros H; apply mem_in in H; congruence).
    assert (G1 : get s1 c = Some r) by (rewrite (L1 c Hna); exact Hg).
    destruct (mem c (removal_due s now)) eqn:Er.
    + apply mem_in in Er. rewrite (R2 c r Er G1). simpl. reflexivity.
    + assert (Hnr : ~ In c (removal_due s now)) by (intros H; apply mem_in in H; congruence).
      rewrite (R1 c Hnr). simpl. exact G1.
Qed.

(* ------------------------------------------------------------------ one step, one existing consumer *)

Theorem step_trans : forall U s o c r, inv s -> get s c = Some r ->
  exists r', get (step U s o) c = Some r' /\ c_id r' = c /\ trans U s o r r'.
Proof.
  intros U s o c r Hi Hg. assert (Hid := get_id _ _ _ Hg). unfold step.
  assert (Hsame : forall s', get s' c = Some r -> exists r', get s' c = Some r' /\ c_id r' = c /\ trans U s o r r').
  { intros s' H. exists r. split; [exact H|]. split; [exact Hid | apply t_same; reflexivity]. }
  assert (Hcv := io_cons _ _ Hi c r (fun H => H) Hg).
  destruct o as [owner chain rev ini | c0 sender nc no ini | c0 sender | c0 v k | c0 tag | c0 | now ora
                | epoch order ora | c0 | c0 | ]; simpl exec.
  - (* create *) apply Hsame. apply create_existing; assumption.
  - (* update *)
    destruct (update_urel s c0 sender nc no ini) as (U1 & U2 & _).
    destruct (Z.eq_dec c c0) as [->|Hne]; [|apply Hsame; rewrite U1 by exact Hne; exact Hg].
    destruct (U2 r Hg) as (r' & G' & I' & P' & S' & Q').
    exists r'. split; [exact G'|]. split; [congruence|].
    cinv_destruct Hcv.
    destruct Q' as [Q'|Q'].
    + assert (c_phase r <= 2 \/ c_phase r = 3 \/ 4 <= c_phase r) as [H|[H|H]] by lia.
      * apply t_update; [rewrite Hid; eauto | exact P' | exact S' | left; lia].
      * apply t_update; [rewrite Hid; eauto | exact P' | exact S' | right; lia].
      * (* not active: the handler returns before changing anything *)
        assert (fst (do_update s c0 sender nc no ini) = s) as Hs.
        { unfold do_update. rewrite Hg.
          assert (is_active (c_phase r) = false) as ->.
          { unfold is_active. assert (c_phase r =? 1 = false) as -> by (apply Z.eqb_neq; lia).
            assert (c_phase r =? 2 = false) as -> by (apply Z.eqb_neq; lia).
            assert (c_phase r =? 3 = false) as -> by (apply Z.eqb_neq; lia). reflexivity. }
          reflexivity. }
        rewrite Hs in G'. rewrite Hg in G'. inversion G'. apply t_same. reflexivity.
    + apply t_update; [rewrite Hid; eauto | exact P' | exact S' | left; exact Q'].
  - (* remove *)
    unfold do_remove. destruct (get s c0) as [r0|] eqn:Hg0; [|apply Hsame; exact Hg].
    destruct (negb (d_owner (c_desc r0) =? sender)); [apply Hsame; exact Hg|].
    destruct (negb (c_phase r0 =? 3)) eqn:E; [apply Hsame; exact Hg|]. simpl fst.
    apply negb_false_iff, Z.eqb_eq in E.
    rewrite stop_get. destruct (c0 =? c) eqn:Ec; [|apply Hsame; exact Hg].
    apply Z.eqb_eq in Ec. subst c0. rewrite Hg. simpl. rewrite Hg in Hg0. inversion Hg0; subst r0.
    eexists. split; [reflexivity|]. split; [exact Hid|].
    apply t_stop; [left; rewrite Hid; eauto | lia | reflexivity].
  - (* opt in *)
    unfold do_optin. destruct (get s c0) as [r0|] eqn:Hg0; [|apply Hsame; exact Hg].
    destruct (negb (is_active (c_phase r0))) eqn:Ea; [apply Hsame; exact Hg|]. simpl fst.
    match goal with |- context [upd s c0 ?g] => set (f := g) end.
    assert (Hf : forall r1, c_id r1 = c0 -> c_id (f r1) = c0) by (intros r1 H; unfold f; destruct k; exact H).
    destruct (Z.eq_dec c0 c) as [->|Hne].
    + rewrite Hg in Hg0. inversion Hg0; subst r0.
      exists (f r). split; [apply (get_upd_same s c f r Hf Hg)|]. split; [unfold f; destruct k; exact Hid|].
      apply negb_false_iff in Ea. unfold is_active in Ea. rewrite !orb_true_iff, !Z.eqb_eq in Ea.
      apply t_optin; [rewrite Hid; eauto | lia | unfold f; destruct k; reflexivity | unfold f; destruct k; reflexivity
                     | unfold f; destruct k; reflexivity | unfold f; destruct k; simpl; repeat split].
    + apply Hsame. rewrite (get_upd_other s c0 c f Hf Hne). exact Hg.
  - (* decorate *)
    unfold do_decorate. destruct (get s c0) as [r0|] eqn:Hg0; [|apply Hsame; exact Hg]. simpl fst.
    match goal with |- context [upd s c0 ?g] => set (f := g) end.
    assert (Hf : forall r1, c_id r1 = c0 -> c_id (f r1) = c0) by (intros r1 H; exact H).
    destruct (Z.eq_dec c0 c) as [->|Hne].
    + exists (f r). split; [apply (get_upd_same s c f r Hf Hg)|]. split; [exact Hid|].
      apply t_decorate; [rewrite Hid; eauto | eexists; reflexivity].
    + apply Hsame. rewrite (get_upd_other s c0 c f Hf Hne). exact Hg.
  - (* channel *)
    unfold do_channel. destruct (get s c0) as [r0|] eqn:Hg0; [|apply Hsame; exact Hg].
    destruct (p_client (c_proto r0) && negb (p_channel (c_proto r0))) eqn:E; [|apply Hsame; exact Hg]. simpl fst.
    apply andb_true_iff in E. destruct E as [Ecl _].
    match goal with |- context [upd s c0 ?g] => set (f := g) end.
    assert (Hf : forall r1, c_id r1 = c0 -> c_id (f r1) = c0) by (intros r1 H; exact H).
    destruct (Z.eq_dec c0 c) as [->|Hne].
    + rewrite Hg in Hg0. inversion Hg0; subst r0.
      exists (f r). split; [apply (get_upd_same s c f r Hf Hg)|]. split; [exact Hid|].
      apply t_channel; [rewrite Hid; reflexivity | exact Ecl | reflexivity].
    + apply Hsame. rewrite (get_upd_other s c0 c f Hf Hne). exact Hg.
  - (* begin *)
    rewrite (begin_get s now ora c r Hi Hg).
    destruct (mem c (attempted s now)) eqn:Ea.
    + apply mem_in in Ea. destruct (attempted_facts s now c Hi Ea) as (r' & Hg' & Hph & _).
      rewrite Hg in Hg'. inversion Hg'; subst r'.
      eexists. split; [reflexivity|]. split; [unfold attempt; destruct (lora_good _); exact Hid|].
      apply (t_launch U s _ r _ now ora); [reflexivity | exact Hph | rewrite Hid; reflexivity].
    + destruct (mem c (removal_due s now) && (c_phase r =? 4)) eqn:Er.
      * apply andb_true_iff in Er. destruct Er as [_ Er]. apply Z.eqb_eq in Er.
        eexists. split; [reflexivity|]. split; [exact Hid|].
        apply (t_delete U s _ r _ now ora); [reflexivity | exact Er | reflexivity].
      * eexists. split; [reflexivity|]. split; [exact Hid | apply t_same; reflexivity].
  - (* end *)
    destruct (end_get U s epoch order ora c r Hg) as (r' & G' & [->|(E1 & E2 & E3 & E4 & E5)]).
    + apply Hsame. exact G'.
    + exists r'. split; [exact G'|]. split; [congruence|].
      apply t_end; [eauto | exact E1 | split; [exact E3 | split; [exact E4 | exact E5]]].
  - (* timeout *)
    unfold do_packet_failure. destruct (get s c0) as [r0|] eqn:Hg0; [|apply Hsame; exact Hg].
    destruct (p_channel (c_proto r0)) eqn:E; [|apply Hsame; exact Hg]. simpl fst.
    rewrite stop_get. destruct (c0 =? c) eqn:Ec; [|apply Hsame; exact Hg].
    apply Z.eqb_eq in Ec. subst c0. rewrite Hg. simpl. rewrite Hg in Hg0. inversion Hg0; subst r0.
    eexists. split; [reflexivity|]. split; [exact Hid|].
    apply t_stop; [right; left; rewrite Hid; reflexivity | eapply channel_phase; eassumption | reflexivity].
  - (* error ack *)
    unfold do_packet_failure. destruct (get s c0) as [r0|] eqn:Hg0; [|apply Hsame; exact Hg].
    destruct (p_channel (c_proto r0)) eqn:E; [|apply Hsame; exact Hg]. simpl fst.
    rewrite stop_get. destruct (c0 =? c) eqn:Ec; [|apply Hsame; exact Hg].
    apply Z.eqb_eq in Ec. subst c0. rewrite Hg. simpl. rewrite Hg in Hg0. inversion Hg0; subst r0.
    eexists. split; [reflexivity|]. split; [exact Hid|].
    apply t_stop; [right; right; rewrite Hid; reflexivity | eapply channel_phase; eassumption | reflexivity].
  - (* nop *) apply Hsame. exact Hg.
Qed.

(* ------------------------------------------------------------------ counter, clock, removal queue *)

Lemma update_fields : forall s c sender nc no ini,
  s_next (fst (do_update s c sender nc no ini)) = s_next s /\
  s_now (fst (do_update s c sender nc no ini)) = s_now s /\
  s_remq (fst (do_update s c sender nc no ini)) = s_remq s.
Proof. intros. destruct (update_urel s c sender nc no ini) as (_ & _ & H). exact H. Qed.

Lemma end_fields : forall U s epoch order ora,
  s_next (fst (do_end U s epoch order ora)) = s_next s /\ s_now (fst (do_end U s epoch order ora)) = s_now s.
Proof.
  intros. unfold do_end. destruct epoch; simpl fst; [|split; reflexivity].
  destruct (estep_fold U _ (estep_queue_one U ora) order s) as (N1 & X1 & _).
  destruct (estep_fold U _ (estep_send_one U ora) order (fold_left (queue_one ora) order s)) as (N2 & X2 & _).
  split; congruence.
Qed.

Theorem step_next : forall U s o, inv s ->
  s_next (step U s o) = s_next s + (if creates U s o then 1 else 0).
Proof.
  intros U s o Hi. unfold step, creates, result.
  destruct o as [owner chain rev ini | c0 sender nc no ini | c0 sender | c0 v k | c0 tag | c0 | now ora
                | epoch order ora | c0 | c0 | ]; simpl exec.
  - destruct (snd (do_create s owner chain rev ini) =? 0) eqn:E.
    + apply Z.eqb_eq in E. destruct (create_new s owner chain rev ini Hi E) as (r & _ & _ & _ & _ & H). exact H.
    + apply Z.eqb_neq in E. rewrite (create_fail _ _ _ _ _ E). lia.
  - rewrite (proj1 (update_fields s c0 sender nc no ini)). lia.
  - unfold do_remove. destruct (get s c0) as [r0|]; [|simpl; lia].
    destruct (negb _); [simpl; lia|]. destruct (negb _); simpl; lia.
  - unfold do_optin. destruct (get s c0) as [r0|]; [|simpl; lia]. destruct (negb _); simpl; lia.
  - unfold do_decorate. destruct (get s c0) as [r0|]; simpl; lia.
  - unfold do_channel. destruct (get s c0) as [r0|]; [|simpl; lia]. destruct (_ && _); simpl; lia.
  - destruct (begin_shape s now ora Hi) as (s1 & Hl & Hinv & Hr & Hq & Hn & Heq). rewrite Heq. simpl fst.
    destruct (remove_loop_spec (fst (consume (s_remq s) now limit)) (set_remq (snd (consume (s_remq s) now limit)) s1))
      as (_ & _ & N & _). rewrite N. simpl.
    assert (Hs := io_sq_sorted _ _ Hi).
    assert (Hnd : NoDup (fst (consume (s_spawnq s) now limit))).
    { assert (Hnd := io_sq_nodup _ _ Hi).
      destruct (consume (s_spawnq s) now limit) as [ids q'] eqn:Ec.
      rewrite (consume_split _ _ _ _ _ Ec) in Hnd. exact (proj1 (nodup_app_parts _ _ Hnd)). }
    destruct (launch_loop_spec ora _ (set_spawnq (snd (consume (s_spawnq s) now limit)) (set_now now s)) Hnd)
      as (s1' & Hl' & _ & _ & N' & _).
    { intros c' Hc'. rewrite (consume_firstn _ _ _ Hs) in Hc'. apply (attempted_facts s now c' Hi Hc'). }
    rewrite Hl in Hl'. inversion Hl'; subst s1'. rewrite N'. simpl. lia.
  - rewrite (proj1 (end_fields U s epoch order ora)). lia.
  - unfold do_packet_failure. destruct (get s c0) as [r0|]; [|simpl; lia]. destruct (p_channel _); simpl; lia.
  - unfold do_packet_failure. destruct (get s c0) as [r0|]; [|simpl; lia]. destruct (p_channel _); simpl; lia.
  - simpl. lia.
Qed.

(* consumers that do not exist yet *)
Theorem step_new : forall U s o c, inv s -> get s c = None ->
  get (step U s o) c = None \/
  (creates U s o = true /\ c = s_next s /\
   exists r, get (step U s o) c = Some r /\ 1 <= c_phase r <= 2 /\ c_proto r = empty_proto /\ c_sent r = 0).
Proof.
  intros U s o c Hi Hn.
  destruct (creates U s o) eqn:Ec.
  - destruct o; try discriminate. unfold creates, result in Ec. simpl exec in Ec. apply Z.eqb_eq in Ec.
    destruct (create_new s owner chain rev ini Hi Ec) as (r & G & P & Q & S & N).
    destruct (Z.eq_dec c (s_next s)) as [->|Hne].
    + right. split; [reflexivity|]. split; [reflexivity|]. exists r. unfold step. simpl exec. repeat split; try assumption; lia.
    + left. destruct (get (step U s (OCreate owner chain rev ini)) c) as [r'|] eqn:G'; [|reflexivity].
      exfalso. assert (Hinv := inv_step U s (OCreate owner chain rev ini) Hi).
      assert (0 <= c < s_next (step U s (OCreate owner chain rev ini))) as Hr by (apply (get_some_iff [] _ c Hinv); eauto).
      unfold step in Hr at 1. simpl exec in Hr. rewrite N in Hr.
      assert (~ (0 <= c < s_next s)) as Hnr.
      { intros H. apply (get_some_iff [] s c Hi) in H. destruct H as [x Hx]. congruence. }
      lia.
  - left. destruct (get (step U s o) c) as [r'|] eqn:G'; [|reflexivity].
    exfalso. assert (Hinv := inv_step U s o Hi).
    assert (0 <= c < s_next (step U s o)) as Hr by (apply (get_some_iff [] _ c Hinv); eauto).
    rewrite (step_next U s o Hi), Ec in Hr.
    assert (~ (0 <= c < s_next s)) as Hnr.
    { intros H. apply (get_some_iff [] s c Hi) in H. destruct H as [x Hx]. congruence. }
    lia.
Qed.

Theorem step_now : forall U s o, inv s ->
  s_now (step U s o) = match o with OBegin now _ => now | _ => s_now s end.
Proof.
  intros U s o Hi. unfold step.
  destruct o as [owner chain rev ini | c0 sender nc no ini | c0 sender | c0 v k | c0 tag | c0 | now ora
                | epoch order ora | c0 | c0 | ]; simpl exec.
  - unfold do_create. destruct (match ini with Some x => x | None => (0, 1, 0) end) as [[spawn hrev] conn].
    destruct (negb _); [reflexivity|].
    destruct (initialize_and_prepare _ _ 0) as [s2|] eqn:E; simpl fst; [|reflexivity].
    destruct (init_prepare_fields _ _ _ _ E) as (_ & F & _). rewrite F. reflexivity.
  - exact (proj1 (proj2 (update_fields s c0 sender nc no ini))).
  - unfold do_remove. destruct (get s c0) as [r0|]; [|reflexivity].
    destruct (negb _); [reflexivity|]. destruct (negb _); reflexivity.
  - unfold do_optin. destruct (get s c0) as [r0|]; [|reflexivity]. destruct (negb _); reflexivity.
  - unfold do_decorate. destruct (get s c0) as [r0|]; reflexivity.
  - unfold do_channel. destruct (get s c0) as [r0|]; [|reflexivity]. destruct (_ && _); reflexivity.
  - destruct (begin_shape s now ora Hi) as (s1 & Hl & Hinv & Hr & Hq & Hn & Heq). rewrite Heq. simpl fst.
    destruct (remove_loop_spec (fst (consume (s_remq s) now limit)) (set_remq (snd (consume (s_remq s) now limit)) s1))
      as (_ & _ & _ & N & _). rewrite N. exact Hn.
  - exact (proj2 (end_fields U s epoch order ora)).
  - unfold do_packet_failure. destruct (get s c0) as [r0|]; [|reflexivity]. destruct (p_channel _); reflexivity.
  - unfold do_packet_failure. destruct (get s c0) as [r0|]; [|reflexivity]. destruct (p_channel _); reflexivity.
  - reflexivity.
Qed.

(* entries of the removal queue: old ones, or new ones at (current time + U) *)
Lemma fold_remq : forall U (f : state -> Z -> state),
  (forall s c0, inv s -> inv (f s c0)) ->
  (forall s c0, inv s -> s_now (f s c0) = s_now s /\
     forall ts c, In c (tq_get (s_remq (f s c0)) ts) -> In c (tq_get (s_remq s) ts) \/ ts = s_now s + U) ->
  forall l s ts c, inv s ->
    In c (tq_get (s_remq (fold_left f l s)) ts) -> In c (tq_get (s_remq s) ts) \/ ts = s_now s + U.
Proof.
  intros U f Hinv Hf. induction l as [|x l IH]; intros s ts c Hi H; simpl in H; [now left|].
  destruct (Hf s x Hi) as (N & Q).
  destruct (IH (f s x) ts c (Hinv s x Hi) H) as [H'|H'].
  - apply Q. exact H'.
  - right. rewrite N in H'. exact H'.
Qed.

Lemma stop_remq : forall U s c ts c', inv s ->
  In c' (tq_get (s_remq (stop_and_prepare U s c)) ts) -> In c' (tq_get (s_remq s) ts) \/ ts = s_now s + U.
Proof.
  intros U s c ts c' Hi H. destruct (stop_fields U s c) as (_ & _ & _ & F). rewrite F in H.
  rewrite tq_append_get in H by (exact (io_rq_sorted _ _ Hi)).
  destruct (ts =? s_now s + U) eqn:E; [right; apply Z.eqb_eq; exact E | now left].
Qed.

Theorem step_remq : forall U s o ts c, inv s ->
  In c (tq_get (s_remq (step U s o)) ts) -> In c (tq_get (s_remq s) ts) \/ ts = s_now s + U.
Proof.
  intros U s o ts c Hi. unfold step.
  destruct o as [owner chain rev ini | c0 sender nc no ini | c0 sender | c0 v k | c0 tag | c0 | now ora
                | epoch order ora | c0 | c0 | ]; simpl exec.
  - unfold do_create. destruct (match ini with Some x => x | None => (0, 1, 0) end) as [[spawn hrev] conn].
    destruct (negb _); [tauto|].
    destruct (initialize_and_prepare _ _ 0) as [s2|] eqn:E; simpl fst; [|tauto].
    destruct (init_prepare_fields _ _ _ _ E) as (_ & _ & F). rewrite F. simpl. tauto.
  - rewrite (proj2 (proj2 (update_fields s c0 sender nc no ini))). tauto.
  - unfold do_remove. destruct (get s c0) as [r0|]; [|tauto].
    destruct (negb _); [tauto|]. destruct (negb _); [tauto|]. simpl fst. apply stop_remq. exact Hi.
  - unfold do_optin. destruct (get s c0) as [r0|]; [|tauto]. destruct (negb _); simpl; tauto.
  - unfold do_decorate. destruct (get s c0) as [r0|]; simpl; tauto.
  - unfold do_channel. destruct (get s c0) as [r0|]; [|tauto]. destruct (_ && _); simpl; tauto.
  - destruct (begin_shape s now ora Hi) as (s1 & Hl & Hinv & Hr & Hq & Hn & Heq). rewrite Heq. simpl fst.
    destruct (remove_loop_spec (fst (consume (s_remq s) now limit)) (set_remq (snd (consume (s_remq s) now limit)) s1))
      as (_ & _ & _ & _ & _ & N). rewrite N. simpl. intros H. left.
    eapply consume_get_sub; [exact (io_rq_sorted _ _ Hi) | exact H].
  - unfold do_end. destruct epoch; simpl fst; [|tauto]. intros H.
    assert (Hq : forall s0 c1, s_now (queue_one ora s0 c1) = s_now s0 /\
              forall ts0 c2, In c2 (tq_get (s_remq (queue_one ora s0 c1)) ts0) -> In c2 (tq_get (s_remq s0) ts0) \/ ts0 = s_now s0 + U).
    { intros s0 c1. unfold queue_one. destruct (get s0 c1) as [r1|]; [|split; [reflexivity | tauto]].
      destruct (_ && _); split; try reflexivity; simpl; tauto. }
    assert (Hsd : forall s0 c1, inv s0 -> s_now (send_one U ora s0 c1) = s_now s0 /\
              forall ts0 c2, In c2 (tq_get (s_remq (send_one U ora s0 c1)) ts0) -> In c2 (tq_get (s_remq s0) ts0) \/ ts0 = s_now s0 + U).
    { intros s0 c1 Hi0. unfold send_one. destruct (get s0 c1) as [r1|] eqn:Gx; [|split; [reflexivity | tauto]].
      destruct (_ && _ && _); [|split; [reflexivity | tauto]].
      destruct (_ =? 0); [split; [reflexivity | tauto]|].
      destruct (_ =? 0); [split; [reflexivity | simpl; tauto]|].
      destruct (_ =? 1); [split; [reflexivity | tauto]|].
      destruct (_ <=? _); [split; [reflexivity | simpl; tauto]|].
      destruct (eo_stopfail _); [split; [reflexivity | simpl; tauto]|].
      match goal with |- context [stop_and_prepare U ?sx c1] => set (s0' := sx) end.
      assert (Hi0' : inv s0').
      { unfold s0'. apply inv_upd_same with (r := r1);
          [exact Hi0 | intros [] | exact Gx | intros r'; reflexivity | reflexivity | reflexivity | intros Hc; exact Hc]. }
      split; [exact (proj1 (proj2 (stop_fields U s0' c1))) | intros ts0 c2; apply (stop_remq U s0' c1 ts0 c2 Hi0')]. }
    set (s1 := fold_left (queue_one ora) order s) in *.
    assert (Hi1 : inv s1) by (apply inv_fold; [intros; apply inv_queue_one; assumption | exact Hi]).
    assert (Hn1 : s_now s1 = s_now s) by (exact (proj1 (estep_fold U _ (estep_queue_one U ora) order s))).
    destruct (fold_remq U (send_one U ora) (inv_send_one U ora) Hsd order s1 ts c Hi1 H) as [H2|H2];
      [|right; rewrite Hn1 in H2; exact H2].
    apply (fold_remq U (queue_one ora) (inv_queue_one ora) (fun s0 c1 _ => Hq s0 c1) order s ts c Hi H2).
  - unfold do_packet_failure. destruct (get s c0) as [r0|]; [|tauto]. destruct (p_channel _); [|tauto].
    simpl fst. apply stop_remq. exact Hi.
  - unfold do_packet_failure. destruct (get s c0) as [r0|]; [|tauto]. destruct (p_channel _); [|tauto].
    simpl fst. apply stop_remq. exact Hi.
  - tauto.
Qed.
