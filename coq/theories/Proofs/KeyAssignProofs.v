(* Lemmas and invariants about Model/KeyAssign.v (properties C05, C06). *)
From Coq Require Import ZArith List Bool Lia Setoid.
From ICS Require Import Base.Tree Model.KeyAssign.
Import ListNotations.
Open Scope Z_scope.

(* ---------- association lists ---------- *)
Lemma lookup_remove_same : forall k l, lookup k (remove_key k l) = None.
Proof.
  intros k l. induction l as [|[a b] t IH]; simpl; auto.
  destruct (a =? k) eqn:E; simpl; auto. rewrite E. exact IH.
Qed.

Lemma lookup_remove_other : forall k k' l, k' <> k -> lookup k' (remove_key k l) = lookup k' l.
Proof.
  intros k k' l Hne. induction l as [|[a b] t IH]; simpl; auto.
  destruct (a =? k) eqn:E; simpl.
  - apply Z.eqb_eq in E. subst a. destruct (k =? k') eqn:E2; auto. apply Z.eqb_eq in E2. congruence.
  - destruct (a =? k'); auto.
Qed.

Lemma lookup_set_same : forall k v l, lookup k (set_key k v l) = Some v.
Proof. intros. unfold set_key. simpl. rewrite Z.eqb_refl. reflexivity. Qed.

Lemma lookup_set_other : forall k k' v l, k' <> k -> lookup k' (set_key k v l) = lookup k' l.
Proof.
  intros k k' v l Hne. unfold set_key. simpl.
  destruct (k =? k') eqn:E. { apply Z.eqb_eq in E. congruence. }
  apply lookup_remove_other; auto.
Qed.

Lemma mem_In : forall k l, mem k l = true <-> In k l.
Proof.
  intros k l. unfold mem. rewrite existsb_exists. split.
  - intros [x [Hin He]]. apply Z.eqb_eq in He. subst. auto.
  - intros H. exists k. split; auto. apply Z.eqb_refl.
Qed.

Lemma lookup_remove_keys_in : forall ks k l, In k ks -> lookup k (remove_keys ks l) = None.
Proof.
  intros ks k l Hin. induction l as [|[a b] t IH]; simpl; auto.
  destruct (mem a ks) eqn:E; simpl; auto.
  destruct (a =? k) eqn:E2; auto. apply Z.eqb_eq in E2. subst a.
  apply mem_In in Hin. congruence.
Qed.

Lemma lookup_remove_keys_notin : forall ks k l, ~ In k ks -> lookup k (remove_keys ks l) = lookup k l.
Proof.
  intros ks k l Hn. induction l as [|[a b] t IH]; simpl; auto.
  destruct (mem a ks) eqn:E; simpl.
  - destruct (a =? k) eqn:E2; auto. apply Z.eqb_eq in E2. subst a. apply mem_In in E. contradiction.
  - destruct (a =? k); auto.
Qed.

Lemma lookup_remove_some : forall k k' l v, lookup k' (remove_key k l) = Some v -> lookup k' l = Some v /\ k' <> k.
Proof.
  intros k k' l v H. destruct (Z.eq_dec k' k) as [->|Hne].
  - rewrite lookup_remove_same in H. discriminate.
  - rewrite lookup_remove_other in H; auto.
Qed.

(* ---------- the prune list ---------- *)
Lemma tp_insert_in : forall ts k l e, In e (tp_insert ts k l) <-> e = (ts, k) \/ In e l.
Proof.
  intros ts k l e. induction l as [|[t a] r IH]; simpl.
  - split; [intros [H|[]]; auto | intros [H|[]]; auto].
  - destruct (t <=? ts); simpl.
    + destruct IH as [I1 I2]. split.
      * intros [H|H]; auto. destruct (I1 H); auto.
      * intros [H|[H|H]]; auto.
    + split; (intros [H|H]; [left; symmetry; exact H | right; exact H]).
Qed.

Lemma tp_insert_keys_in : forall ts k l x, In x (map snd (tp_insert ts k l)) <-> x = k \/ In x (map snd l).
Proof.
  intros ts k l x. rewrite !in_map_iff. split.
  - intros [e [He Hin]]. apply tp_insert_in in Hin. destruct Hin as [->|Hin]; simpl in *; auto.
    right. exists e. auto.
  - intros [->|[e [He Hin]]].
    + exists (ts, k). split; auto. apply tp_insert_in. auto.
    + exists e. split; auto. apply tp_insert_in. auto.
Qed.

Lemma tp_insert_nodup : forall ts k l, NoDup (map snd l) -> ~ In k (map snd l) -> NoDup (map snd (tp_insert ts k l)).
Proof.
  intros ts k l. induction l as [|[t a] r IH]; simpl; intros Hnd Hni.
  - constructor; auto. constructor.
  - inversion Hnd as [|? ? Hna Hnd']; subst. destruct (t <=? ts); simpl.
    + constructor.
      * rewrite tp_insert_keys_in. intros [->|H]; auto.
      * apply IH; auto.
    + constructor; simpl; auto.
Qed.

Lemma in_keys : forall (l : kv) ts k, In (ts, k) l -> In k (map snd l).
Proof. intros l ts k H. apply in_map_iff. exists (ts, k). auto. Qed.

Lemma nodup_keys_unique : forall (l : kv) t1 t2 k, NoDup (map snd l) -> In (t1, k) l -> In (t2, k) l -> t1 = t2.
Proof.
  induction l as [|[t a] r IH]; simpl; intros t1 t2 k Hnd H1 H2; [contradiction|].
  inversion Hnd as [|? ? Hna Hnd']; subst.
  destruct H1 as [H1|H1], H2 as [H2|H2].
  - congruence.
  - inversion H1; subst. exfalso. apply Hna. eapply in_keys; eauto.
  - inversion H2; subst. exfalso. apply Hna. eapply in_keys; eauto.
  - eapply IH; eauto.
Qed.

(* ---------- consumers list ---------- *)
Lemma upd_length : forall n f l, length (upd n f l) = length l.
Proof. induction n; destruct l; simpl; auto. Qed.

Lemma nth_upd_same : forall n f l d, (n < length l)%nat -> nth n (upd n f l) d = f (nth n l d).
Proof. induction n; destruct l; simpl; intros; try lia; auto. apply IHn. lia. Qed.

Lemma nth_upd_other : forall n m f l d, n <> m -> nth m (upd n f l) d = nth m l d.
Proof.
  induction n; destruct l; simpl; intros; auto.
  - destruct m; auto. congruence.
  - destruct m; auto.
Qed.

Lemma Forall_upd : forall (P : consumer -> Prop) n f l,
  Forall P l -> (forall x, nth_error l n = Some x -> P x -> P (f x)) -> Forall P (upd n f l).
Proof.
  intros P. induction n; destruct l; simpl; intros f' HF Hf; auto.
  - inversion HF; subst. constructor; auto.
  - inversion HF; subst. constructor; auto.
Qed.

Lemma nth_error_nth_d : forall (l : list consumer) n x, nth_error l n = Some x -> nth n l cdefault = x.
Proof. intros. apply nth_error_nth. assumption. Qed.

Lemma phase_in_range : forall s c, c_phase (getc s c) <> 0 -> (c < length (s_cons s))%nat.
Proof.
  intros s c H. unfold getc in H. destruct (Nat.lt_ge_cases c (length (s_cons s))) as [|Hge]; auto.
  rewrite nth_overflow in H; auto. simpl in H. congruence.
Qed.

Lemma getc_setc_same : forall s c x, (c < length (s_cons s))%nat -> getc (setc s c x) c = x.
Proof. intros. unfold getc, setc. simpl. rewrite nth_upd_same; auto. Qed.

Lemma getc_setc_other : forall s c c' x, c <> c' -> getc (setc s c x) c' = getc s c'.
Proof. intros. unfold getc, setc. simpl. apply nth_upd_other. auto. Qed.

Lemma getc_map : forall s f l c, f cdefault = cdefault -> nth c (map f l) cdefault = f (nth c l cdefault).
Proof. intros s f l c Hd. rewrite <- Hd at 1. apply map_nth. Qed.

Lemma active_nonzero : forall p, is_active p = true -> p <> 0.
Proof. intros p H Hz. subst. discriminate. Qed.

Lemma active_cases : forall p, is_active p = true <-> (p = 1 \/ p = 2 \/ p = 3).
Proof.
  intros p. unfold is_active. rewrite !orb_true_iff, !Z.eqb_eq. tauto.
Qed.
