(* Lemmas and invariants about Model/KeyAssign.v (properties C05, C06). *)
From Coq Require Import ZArith List Bool Lia Setoid.
From ICS Require Import Base.Tree Model.KeyAssign.
Import ListNotations.
Open Scope Z_scope.

(* ---------- association lists ---------- *)
Lemma lookup_remove_same : forall k l, lookup k (remove_key k l) = None.
Proof.
  intros k l. induction l as [|[a b] t IH]; simpl; auto.
  destruct (a =? k) eqn:E; simpl; auto. rewrite E. exact IH.
Qed.

Lemma lookup_remove_other : forall k k' l, k' <> k -> lookup k' (remove_key k l) = lookup k' l.
Proof.
  intros k k' l Hne. induction l as [|[a b] t IH]; simpl; auto.
  destruct (a =? k) eqn:E; simpl.
  - apply Z.eqb_eq in E. subst a. destruct (k =? k') eqn:E2; auto. apply Z.eqb_eq in E2. congruence.
  - destruct (a =? k'); auto.
Qed.

Lemma lookup_set_same : forall k v l, lookup k (set_key k v l) = Some v.
Proof. intros. unfold set_key. simpl. rewrite Z.eqb_refl. reflexivity. Qed.

Lemma lookup_set_other : forall k k' v l, k' <> k -> lookup k' (set_key k v l) = lookup k' l.
Proof.
  intros k k' v l Hne. unfold set_key. simpl.
  destruct (k =? k') eqn:E. { apply Z.eqb_eq in E. congruence. }
  apply lookup_remove_other; auto.
Qed.

Lemma mem_In : forall k l, mem k l = true <-> In k l.
Proof.
  intros k l. unfold mem. rewrite existsb_exists. split.
  - intros [x [Hin He]]. apply Z.eqb_eq in He. subst. auto.
  - intros H. exists k. split; auto. apply Z.eqb_refl.
Qed.

Lemma lookup_remove_keys_in : forall ks k l, In k ks -> lookup k (remove_keys ks l) = None.
Proof.
  intros ks k l Hin. induction l as [|[a b] t IH]; simpl; auto.
  destruct (mem a ks) eqn:E; simpl; auto.
  destruct (a =? k) eqn:E2; auto. apply Z.eqb_eq in E2. subst a.
  apply mem_In in Hin. congruence.
Qed.

Lemma lookup_remove_keys_notin : forall ks k l, ~ In k ks -> lookup k (remove_keys ks l) = lookup k l.
Proof.
  intros ks k l Hn. induction l as [|[a b] t IH]; simpl; auto.
  destruct (mem a ks) eqn:E; simpl.
  - destruct (a =? k) eqn:E2; auto. apply Z.eqb_eq in E2. subst a. apply mem_In in E. contradiction.
  - destruct (a =? k); auto.
Qed.

Lemma lookup_remove_some : forall k k' l v, lookup k' (remove_key k l) = Some v -> lookup k' l = Some v /\ k' <> k.
Proof.
  intros k k' l v H. destruct (Z.eq_dec k' k) as [->|Hne].
  - rewrite lookup_remove_same in H. discriminate.
  - rewrite lookup_remove_other in H; auto.
Qed.

(* ---------- the prune list ---------- *)
Lemma tp_insert_in : forall ts k l e, In e (tp_insert ts k l) <-> e = (ts, k) \/ In e l.
Proof.
  intros ts k l e. induction l as [|[t a] r IH]; simpl.
  - split; [intros [H|[]]; auto | intros [H|[]]; auto].
  - destruct (t <=? ts); simpl.
    + destruct IH as [I1 I2]. split.
      * intros [H|H]; auto. destruct (I1 H); auto.
      * intros [H|[H|H]]; auto.
    + split; (intros [H|H]; [left; symmetry; exact H | right; exact H]).
Qed.

Lemma tp_insert_keys_in : forall ts k l x, In x (map snd (tp_insert ts k l)) <-> x = k \/ In x (map snd l).
Proof.
  intros ts k l x. rewrite !in_map_iff. split.
  - intros [e [He Hin]]. apply tp_insert_in in Hin. destruct Hin as [->|Hin]; simpl in *; auto.
    right. exists e. auto.
  - intros [->|[e [He Hin]]].
    + exists (ts, k). split; auto. apply tp_insert_in. auto.
    + exists e. split; auto. apply tp_insert_in. auto.
Qed.

Lemma tp_insert_nodup : forall ts k l, NoDup (map snd l) -> ~ In k (map snd l) -> NoDup (map snd (tp_insert ts k l)).
Proof.
  intros ts k l. induction l as [|[t a] r IH]; simpl; intros Hnd Hni.
  - constructor; [intros []|constructor].
  - inversion Hnd as [|? ? Hna Hnd']; subst. destruct (t <=? ts); simpl.
    + constructor.
      * rewrite tp_insert_keys_in. intros [->|H]; auto.
      * apply IH; auto.
    + constructor; simpl; auto.
Qed.

Lemma in_keys : forall (l : kv) ts k, In (ts, k) l -> In k (map snd l).
Proof. intros l ts k H. apply in_map_iff. exists (ts, k). auto. Qed.

Lemma nodup_keys_unique : forall (l : kv) t1 t2 k, NoDup (map snd l) -> In (t1, k) l -> In (t2, k) l -> t1 = t2.
Proof.
  induction l as [|[t a] r IH]; simpl; intros t1 t2 k Hnd H1 H2; [contradiction|].
  inversion Hnd as [|? ? Hna Hnd']; subst.
  destruct H1 as [H1|H1], H2 as [H2|H2].
  - congruence.
  - inversion H1; subst. exfalso. apply Hna. eapply in_keys; eauto.
  - inversion H2; subst. exfalso. apply Hna. eapply in_keys; eauto.
  - eapply IH; eauto.
Qed.

(* ---------- consumers list ---------- *)
Lemma upd_length : forall n f l, length (upd n f l) = length l.
Proof. induction n as [|n IH]; intros f [|x t]; simpl; auto. Qed.

Lemma nth_upd_same : forall n f l d, (n < length l)%nat -> nth n (upd n f l) d = f (nth n l d).
Proof.
  induction n as [|n IH]; intros f [|x t] d H; simpl in *; try lia; auto.
  apply IH. lia.
Qed.

Lemma nth_upd_other : forall n m f l d, n <> m -> nth m (upd n f l) d = nth m l d.
Proof.
  induction n as [|n IH]; intros m f [|x t] d H; simpl; auto.
  - destruct m; auto. congruence.
  - destruct m; auto.
Qed.

Lemma Forall_upd : forall (P : consumer -> Prop) n f l,
  Forall P l -> (forall x, nth_error l n = Some x -> P x -> P (f x)) -> Forall P (upd n f l).
Proof.
  intros P. induction n as [|n IH]; intros f [|x t] HF Hf; simpl; auto.
  - inversion HF; subst. constructor; auto.
  - inversion HF; subst. constructor; auto.
Qed.

Lemma nth_error_nth_d : forall (l : list consumer) n x, nth_error l n = Some x -> nth n l cdefault = x.
Proof. intros. apply nth_error_nth. assumption. Qed.

Lemma phase_in_range : forall s c, c_phase (getc s c) <> 0 -> (c < length (s_cons s))%nat.
Proof.
  intros s c H. unfold getc in H. destruct (Nat.lt_ge_cases c (length (s_cons s))) as [|Hge]; auto.
  rewrite nth_overflow in H; auto. simpl in H. congruence.
Qed.

Lemma getc_setc_same : forall s c x, (c < length (s_cons s))%nat -> getc (setc s c x) c = x.
Proof. intros. unfold getc, setc. simpl. rewrite nth_upd_same; auto. Qed.

Lemma getc_setc_other : forall s c c' x, c <> c' -> getc (setc s c x) c' = getc s c'.
Proof. intros. unfold getc, setc. simpl. apply nth_upd_other. auto. Qed.

Lemma getc_map : forall (f : consumer -> consumer) l c, f cdefault = cdefault -> nth c (map f l) cdefault = f (nth c l cdefault).
Proof. intros f l c Hd. rewrite <- Hd at 1. apply map_nth. Qed.

Lemma active_nonzero : forall p, is_active p = true -> p <> 0.
Proof. intros p H Hz. subst. discriminate. Qed.

Lemma active_cases : forall p, is_active p = true <-> (p = 1 \/ p = 2 \/ p = 3).
Proof.
  intros p. unfold is_active. rewrite !orb_true_iff, !Z.eqb_eq. tauto.
Qed.

(* ---------- the staking registry ---------- *)
Definition reg_ok (reg : kv) : Prop := NoDup (map fst reg) /\ NoDup (map snd reg).

Lemma rbk_in : forall k reg o, reg_by_key k reg = Some o -> In (o, k) reg.
Proof.
  intros k reg. induction reg as [|[o' p] t IH]; simpl; intros o H; [discriminate|].
  destruct (p =? k) eqn:E.
  - apply Z.eqb_eq in E. inversion H; subst. auto.
  - right. auto.
Qed.

Lemma in_rbk : forall k reg o, In (o, k) reg -> reg_by_key k reg <> None.
Proof.
  intros k reg. induction reg as [|[o' p] t IH]; simpl; intros o H; [contradiction|].
  destruct (p =? k) eqn:E; [discriminate|].
  destruct H as [H|H].
  - inversion H; subst. rewrite Z.eqb_refl in E. discriminate.
  - eapply IH; eauto.
Qed.

Lemma lookup_in : forall o (reg : kv) P, lookup o reg = Some P -> In (o, P) reg.
Proof.
  intros o reg. induction reg as [|[o' p] t IH]; simpl; intros P H; [discriminate|].
  destruct (o' =? o) eqn:E.
  - apply Z.eqb_eq in E. inversion H; subst. auto.
  - right. auto.
Qed.

Lemma in_lookup_nd : forall o (reg : kv) P, NoDup (map fst reg) -> In (o, P) reg -> lookup o reg = Some P.
Proof.
  intros o reg. induction reg as [|[o' p] t IH]; simpl; intros P Hnd H; [contradiction|].
  inversion Hnd as [|? ? Hni Hnd']; subst.
  destruct H as [H|H].
  - inversion H; subst. rewrite Z.eqb_refl. reflexivity.
  - destruct (o' =? o) eqn:E.
    + apply Z.eqb_eq in E. subst. exfalso. apply Hni. apply in_map_iff. exists (o, P). auto.
    + auto.
Qed.

Lemma lookup_none_notin : forall o (reg : kv), lookup o reg = None -> ~ In o (map fst reg).
Proof.
  intros o reg. induction reg as [|[o' p] t IH]; simpl; intros H; [tauto|].
  destruct (o' =? o) eqn:E; [discriminate|].
  intros [H1|H1].
  - subst. rewrite Z.eqb_refl in E. discriminate.
  - apply IH; auto.
Qed.

Lemma rbk_none_notin : forall k (reg : kv), reg_by_key k reg = None -> ~ In k (map snd reg).
Proof.
  intros k reg. induction reg as [|[o' p] t IH]; simpl; intros H; [tauto|].
  destruct (p =? k) eqn:E; [discriminate|].
  intros [H1|H1].
  - subst. rewrite Z.eqb_refl in E. discriminate.
  - apply IH; auto.
Qed.

Lemma NoDup_map_filter : forall (A : Type) (g : A -> Z) f (l : list A), NoDup (map g l) -> NoDup (map g (filter f l)).
Proof.
  intros A g f l. induction l as [|a t IH]; simpl; intros H; auto.
  inversion H as [|? ? Hni Hnd]; subst.
  destruct (f a); simpl; auto.
  constructor; auto.
  intros Hin. apply Hni. apply in_map_iff in Hin. destruct Hin as [y [Hy Hin]].
  apply filter_In in Hin. apply in_map_iff. exists y. tauto.
Qed.

Lemma reg_ok_remove : forall o reg, reg_ok reg -> reg_ok (remove_key o reg).
Proof. intros o reg [H1 H2]. split; apply NoDup_map_filter; auto. Qed.

Lemma reg_ok_cons : forall o key reg, reg_ok reg -> lookup o reg = None -> reg_by_key key reg = None -> reg_ok ((o, key) :: reg).
Proof.
  intros o key reg [H1 H2] Ho Hk. split; simpl; constructor; auto.
  - apply lookup_none_notin; auto.
  - apply rbk_none_notin; auto.
Qed.

Lemma rbk_remove_mono : forall o k reg, reg_by_key k (remove_key o reg) <> None -> reg_by_key k reg <> None.
Proof.
  intros o k reg H. destruct (reg_by_key k (remove_key o reg)) as [o'|] eqn:E; [|congruence].
  apply rbk_in in E. apply filter_In in E. destruct E as [E _]. eapply in_rbk; eauto.
Qed.

Lemma reg_own_key : forall reg o k P, reg_ok reg -> reg_by_key k reg = Some o -> lookup o reg = Some P -> k = P.
Proof.
  intros reg o k P [H1 _] Hk Ho. apply rbk_in in Hk. apply (in_lookup_nd _ _ _ H1) in Hk. congruence.
Qed.

(* ---------- the per-consumer invariant ---------- *)
Record cinv (reg : kv) (x : consumer) : Prop := {
  J1 : forall k, In k (map snd (c_toprune x)) -> lookup k (c_byaddr x) <> None;
  J2 : forall k P, In k (map snd (c_toprune x)) -> lookup P (c_assigned x) <> Some k;
  J3 : NoDup (map snd (c_toprune x));
  J4 : forall P k, lookup P (c_assigned x) = Some k -> lookup k (c_byaddr x) = Some P;
  J5 : forall k P, lookup k (c_byaddr x) = Some P ->
         lookup P (c_assigned x) = Some k \/ In k (map snd (c_toprune x));
  J6 : is_active (c_phase x) = true ->
       forall k P, lookup k (c_byaddr x) = Some P -> reg_by_key k reg <> None -> k = P;
  J8 : c_phase x = 3 \/ c_phase x = 4 -> c_client x = true
}.

Lemma cinv_default : forall reg, cinv reg cdefault.
Proof. intros reg. constructor; simpl; intros; try contradiction; try discriminate; try constructor; lia. Qed.

Lemma cinv_fresh : forall reg, cinv reg cfresh.
Proof. intros reg. constructor; simpl; intros; try contradiction; try discriminate; try constructor; lia. Qed.

Lemma cinv_delete : forall reg x, cinv reg (delete_c x).
Proof. intros reg x. constructor; simpl; intros; try contradiction; try discriminate; try constructor; lia. Qed.

Lemma cinv_reg_mono : forall reg reg' x,
  (forall k, reg_by_key k reg' <> None -> reg_by_key k reg <> None) -> cinv reg x -> cinv reg' x.
Proof.
  intros reg reg' x Hm [j1 j2 j3 j4 j5 j6 j8]. constructor; auto.
Qed.

(* same key-related fields and a phase that is not "more active" *)
Lemma cinv_ext : forall reg x y,
  c_assigned y = c_assigned x -> c_byaddr y = c_byaddr x -> c_toprune y = c_toprune x ->
  (is_active (c_phase y) = true -> is_active (c_phase x) = true) ->
  (c_phase y = 3 \/ c_phase y = 4 -> c_client y = true) ->
  cinv reg x -> cinv reg y.
Proof.
  intros reg x y Ha Hb Ht Hp Hc [j1 j2 j3 j4 j5 j6 j8].
  constructor; rewrite ?Ha, ?Hb, ?Ht; auto.
Qed.

Ltac lk_case a b H1 H2 :=
  destruct (Z.eq_dec a b) as [H1|H2]; [first [subst a | subst b | rewrite H1 in *]|].
Ltac lkh H :=
  let e := fresh "e" in let ne := fresh "ne" in
  match type of H with
  | context [lookup ?a (set_key ?b _ _)] =>
    lk_case a b e ne; [rewrite lookup_set_same in H | rewrite lookup_set_other in H by exact ne]
  | context [lookup ?a (remove_key ?b _)] =>
    lk_case a b e ne; [rewrite lookup_remove_same in H | rewrite lookup_remove_other in H by exact ne]
  end.
Ltac lkg :=
  let e := fresh "e" in let ne := fresh "ne" in
  match goal with
  | |- context [lookup ?a (set_key ?b _ _)] =>
    lk_case a b e ne; [rewrite lookup_set_same | rewrite lookup_set_other by exact ne]
  | |- context [lookup ?a (remove_key ?b _)] =>
    lk_case a b e ne; [rewrite lookup_remove_same | rewrite lookup_remove_other by exact ne]
  end.

(* ---------- AssignConsumerKey ---------- *)
Definition assign_b1 (P : Z) (x : consumer) : kv :=
  match lookup P (c_assigned x) with
  | Some old => if c_phase x =? 3 then c_byaddr x else remove_key old (c_byaddr x)
  | None => c_byaddr x
  end.
Definition assign_t1 (ts P : Z) (x : consumer) : kv :=
  match lookup P (c_assigned x) with
  | Some old => if c_phase x =? 3 then tp_insert ts old (c_toprune x) else c_toprune x
  | None => c_toprune x
  end.

Lemma assign_c_ok_inv : forall reg now unb o P k x x',
  assign_c reg now unb o P k x = (x', 0) ->
  is_active (c_phase x) = true /\
  (forall o', reg_by_key k reg = Some o' -> o' = o /\ lookup P (c_assigned x) <> None) /\
  lookup k (c_byaddr x) = None /\
  x' = set_keys x (set_key P k (c_assigned x)) (set_key k P (assign_b1 P x)) (assign_t1 (now + unb) P x).
Proof.
  intros reg now unb o P k x x' H. unfold assign_c in H.
  destruct (is_active (c_phase x)) eqn:Ha; simpl in H; [|inversion H].
  split; [reflexivity|].
  assert (Hchk : forall o', reg_by_key k reg = Some o' -> o' = o /\ lookup P (c_assigned x) <> None).
  { intros o' Ho'. rewrite Ho' in H.
    destruct (o' =? o) eqn:Eo; simpl in H; [|inversion H].
    apply Z.eqb_eq in Eo. split; auto.
    destruct (lookup P (c_assigned x)); [discriminate|]. simpl in H. inversion H. }
  split; [exact Hchk|].
  assert (H' : (match lookup k (c_byaddr x) with
                | Some _ => (x, E_INUSE)
                | None => (set_keys x (set_key P k (c_assigned x)) (set_key k P (assign_b1 P x)) (assign_t1 (now + unb) P x), 0)
                end) = (x', 0)).
  { destruct (reg_by_key k reg) as [o'|] eqn:Er.
    - destruct (Hchk o' eq_refl) as [-> Hl]. rewrite Z.eqb_refl in H. simpl in H.
      destruct (lookup P (c_assigned x)) as [old|] eqn:El; [|congruence]. simpl in H.
      unfold assign_b1, assign_t1. rewrite El.
      destruct (lookup k (c_byaddr x)); [exact H|].
      destruct (c_phase x =? 3); exact H.
    - simpl in H. unfold assign_b1, assign_t1.
      destruct (lookup k (c_byaddr x)); [exact H|].
      destruct (lookup P (c_assigned x)); [destruct (c_phase x =? 3)|]; exact H. }
  destruct (lookup k (c_byaddr x)); [inversion H'|].
  split; [reflexivity|]. inversion H'. reflexivity.
Qed.

Lemma cinv_assign : forall reg now unb o P k x x',
  reg_ok reg -> lookup o reg = Some P -> cinv reg x ->
  assign_c reg now unb o P k x = (x', 0) -> cinv reg x'.
Proof.
  intros reg now unb o P k x x' Hreg Ho [j1 j2 j3 j4 j5 j6 j8] H.
  apply assign_c_ok_inv in H. destruct H as [Ha [Hchk [Hk ->]]].
  assert (Hknt : ~ In k (map snd (c_toprune x))) by (intros Hin; apply (j1 _ Hin); exact Hk).
  assert (Hreg6 : reg_by_key k reg <> None -> k = P).
  { intros Hr. destruct (reg_by_key k reg) as [o'|] eqn:Er; [|congruence].
    destruct (Hchk o' eq_refl) as [-> _]. eapply reg_own_key; eauto. }
  unfold assign_b1, assign_t1.
  destruct (lookup P (c_assigned x)) as [old|] eqn:Eold.
  - assert (Hob : lookup old (c_byaddr x) = Some P) by (apply j4; exact Eold).
    assert (Hok : old <> k) by congruence.
    assert (Hont : ~ In old (map snd (c_toprune x))) by (intros Hin; apply (j2 _ P Hin); exact Eold).
    destruct (c_phase x =? 3) eqn:Eph.
    + (* launched: old key awaits pruning *)
      constructor; cbn [c_toprune c_byaddr c_assigned c_phase c_client set_keys].
      * intros k0 Hin. apply tp_insert_keys_in in Hin. lkg; [discriminate|].
        destruct Hin as [->|Hin]; [rewrite Hob; discriminate | apply j1; auto].
      * intros k0 P0 Hin. apply tp_insert_keys_in in Hin. lkg.
        -- intros Heq. inversion Heq; subst k0. destruct Hin as [Hin|Hin]; [congruence|contradiction].
        -- destruct Hin as [->|Hin]; [|apply j2; auto].
           intros Heq. apply j4 in Heq. congruence.
      * apply tp_insert_nodup; auto.
      * intros P0 k0 Hl. lkh Hl.
        -- inversion Hl; subst k0. apply lookup_set_same.
        -- apply j4 in Hl. rewrite lookup_set_other; [exact Hl|]. intros e'. rewrite e' in Hl. congruence.
      * intros k0 P0 Hl. lkh Hl.
        -- inversion Hl; subst P0. left. apply lookup_set_same.
        -- destruct (j5 _ _ Hl) as [Hc|Hc].
           ++ destruct (Z.eq_dec P0 P) as [->|Hne].
              ** right. apply tp_insert_keys_in. left. congruence.
              ** left. rewrite lookup_set_other; auto.
           ++ right. apply tp_insert_keys_in. auto.
      * intros _ k0 P0 Hl Hr. lkh Hl.
        -- inversion Hl; subst P0. auto.
        -- apply (j6 Ha k0 P0); auto.
      * exact j8.
    + (* not launched: old reverse entry dropped at once *)
      constructor; cbn [c_toprune c_byaddr c_assigned c_phase c_client set_keys].
      * intros k0 Hin. lkg; [discriminate|].
        rewrite lookup_remove_other; [apply j1; auto|]. intros ->. apply (j2 _ P Hin). exact Eold.
      * intros k0 P0 Hin. lkg.
        -- intros Heq. inversion Heq; subst k0. contradiction.
        -- apply j2; auto.
      * exact j3.
      * intros P0 k0 Hl. lkh Hl.
        -- inversion Hl; subst k0. apply lookup_set_same.
        -- apply j4 in Hl. rewrite lookup_set_other; [|intros e'; rewrite e' in Hl; congruence].
           rewrite lookup_remove_other; [exact Hl|]. intros e'. rewrite e' in Hl. congruence.
      * intros k0 P0 Hl. lkh Hl.
        -- inversion Hl; subst P0. left. apply lookup_set_same.
        -- apply lookup_remove_some in Hl. destruct Hl as [Hl Hne].
           destruct (j5 _ _ Hl) as [Hc|Hc]; [|right; exact Hc].
           left. rewrite lookup_set_other; [exact Hc|]. intros ->. congruence.
      * intros _ k0 P0 Hl Hr. lkh Hl.
        -- inversion Hl; subst P0. auto.
        -- apply lookup_remove_some in Hl. destruct Hl as [Hl _]. apply (j6 Ha k0 P0); auto.
      * exact j8.
  - constructor; cbn [c_toprune c_byaddr c_assigned c_phase c_client set_keys].
    + intros k0 Hin. lkg; [discriminate|]. apply j1; auto.
    + intros k0 P0 Hin. lkg.
      * intros Heq. inversion Heq; subst k0. contradiction.
      * apply j2; auto.
    + exact j3.
    + intros P0 k0 Hl. lkh Hl.
      * inversion Hl; subst k0. apply lookup_set_same.
      * apply j4 in Hl. rewrite lookup_set_other; [exact Hl|]. intros e'. rewrite e' in Hl. congruence.
    + intros k0 P0 Hl. lkh Hl.
      * inversion Hl; subst P0. left. apply lookup_set_same.
      * destruct (j5 _ _ Hl) as [Hc|Hc]; [|right; exact Hc].
        left. rewrite lookup_set_other; [exact Hc|]. intros ->. congruence.
    + intros _ k0 P0 Hl Hr. lkh Hl.
      * inversion Hl; subst P0. auto.
      * apply (j6 Ha k0 P0); auto.
    + exact j8.
Qed.

Lemma cinv_add_optin : forall reg P x, cinv reg x -> cinv reg (add_optin P x).
Proof.
  intros reg P x H. apply cinv_ext with (x := x); auto.
  simpl. destruct H; auto.
Qed.

Lemma cinv_optin : forall reg now unb o P k x x',
  reg_ok reg -> lookup o reg = Some P -> cinv reg x ->
  optin_c reg now unb o P k x = (x', 0) -> cinv reg x'.
Proof.
  intros reg now unb o P k x x' Hreg Ho Hc H. unfold optin_c in H.
  destruct (is_active (c_phase x)); simpl in H; [|inversion H].
  destruct k as [k|].
  - apply (cinv_assign reg now unb o P k (add_optin P x) x' Hreg Ho (cinv_add_optin reg P x Hc) H).
  - inversion H; subst. apply cinv_add_optin; auto.
Qed.

(* ---------- AfterValidatorRemoved ---------- *)
Lemma cinv_remove_val : forall reg P x, cinv reg x -> cinv reg (remove_val_c P x).
Proof.
  intros reg P x [j1 j2 j3 j4 j5 j6 j8]. unfold remove_val_c.
  destruct (lookup P (c_assigned x)) as [k|] eqn:Ek; [|constructor; auto].
  assert (Hkb : lookup k (c_byaddr x) = Some P) by (apply j4; exact Ek).
  constructor; cbn [c_toprune c_byaddr c_assigned c_phase c_client set_keys].
  - intros k0 Hin. rewrite lookup_remove_other; [apply j1; auto|].
    intros ->. apply (j2 _ P Hin). exact Ek.
  - intros k0 P0 Hin Hl. apply lookup_remove_some in Hl. destruct Hl as [Hl _]. apply (j2 _ _ Hin Hl).
  - exact j3.
  - intros P0 k0 Hl. apply lookup_remove_some in Hl. destruct Hl as [Hl Hne].
    apply j4 in Hl. rewrite lookup_remove_other; [exact Hl|]. intros e'. rewrite e' in Hl. congruence.
  - intros k0 P0 Hl. apply lookup_remove_some in Hl. destruct Hl as [Hl Hne].
    destruct (j5 _ _ Hl) as [Hc|Hc]; [|right; exact Hc].
    left. rewrite lookup_remove_other; [exact Hc|]. intros ->. congruence.
  - intros Ha k0 P0 Hl Hr. apply lookup_remove_some in Hl. destruct Hl as [Hl _]. apply (j6 Ha k0 P0); auto.
  - exact j8.
Qed.

(* ---------- PruneKeyAssignments ---------- *)
Lemma lookup_remove_keys_some : forall ks k l v,
  lookup k (remove_keys ks l) = Some v -> lookup k l = Some v /\ ~ In k ks.
Proof.
  intros ks k l v H. destruct (in_dec Z.eq_dec k ks) as [Hin|Hn].
  - rewrite lookup_remove_keys_in in H; auto. discriminate.
  - rewrite lookup_remove_keys_notin in H; auto.
Qed.

Lemma due_keys_in : forall now (tp : kv) k, In k (map snd (filter (due now) tp)) -> exists ts, In (ts, k) tp /\ ts <= now.
Proof.
  intros now tp k H. apply in_map_iff in H. destruct H as [[ts k'] [Hs Hin]]. simpl in Hs. subst k'.
  apply filter_In in Hin. destruct Hin as [Hin Hd]. unfold due in Hd. simpl in Hd. apply Z.leb_le in Hd.
  exists ts. auto.
Qed.

Lemma notdue_keys_in : forall now (tp : kv) k,
  In k (map snd (filter (fun e => negb (due now e)) tp)) -> exists ts, In (ts, k) tp /\ now < ts.
Proof.
  intros now tp k H. apply in_map_iff in H. destruct H as [[ts k'] [Hs Hin]]. simpl in Hs. subst k'.
  apply filter_In in Hin. destruct Hin as [Hin Hd]. unfold due in Hd. simpl in Hd.
  apply negb_true_iff in Hd. apply Z.leb_gt in Hd. exists ts. auto.
Qed.

Lemma cinv_prune : forall reg now x, cinv reg x -> cinv reg (prune_c now x).
Proof.
  intros reg now x [j1 j2 j3 j4 j5 j6 j8]. unfold prune_c.
  constructor; cbn [c_toprune c_byaddr c_assigned c_phase c_client set_keys].
  - intros k0 Hin. apply notdue_keys_in in Hin. destruct Hin as [ts [Hin Hlt]].
    rewrite lookup_remove_keys_notin.
    + apply j1. eapply in_keys; eauto.
    + intros Hd. apply due_keys_in in Hd. destruct Hd as [ts' [Hin' Hle]].
      assert (ts = ts') by (eapply nodup_keys_unique; eauto). lia.
  - intros k0 P0 Hin. apply notdue_keys_in in Hin. destruct Hin as [ts [Hin _]].
    apply j2. eapply in_keys; eauto.
  - apply NoDup_map_filter. exact j3.
  - intros P0 k0 Hl. rewrite lookup_remove_keys_notin; [apply j4; exact Hl|].
    intros Hd. apply due_keys_in in Hd. destruct Hd as [ts' [Hin' _]].
    apply (j2 k0 P0); [eapply in_keys; eauto | exact Hl].
  - intros k0 P0 Hl. apply lookup_remove_keys_some in Hl. destruct Hl as [Hl Hn].
    destruct (j5 _ _ Hl) as [Hc|Hc]; [left; exact Hc|]. right.
    apply in_map_iff in Hc. destruct Hc as [[ts k'] [Hs Hin]]. simpl in Hs. subst k'.
    apply in_map_iff. exists (ts, k0). split; auto. apply filter_In. split; auto.
    destruct (due now (ts, k0)) eqn:Ed; auto. exfalso. apply Hn.
    apply in_map_iff. exists (ts, k0). split; auto. apply filter_In. auto.
  - intros Ha k0 P0 Hl Hr. apply lookup_remove_keys_some in Hl. destruct Hl as [Hl _]. apply (j6 Ha k0 P0); auto.
  - exact j8.
Qed.

(* ---------- AfterValidatorCreated ---------- *)
Lemma key_in_use_false : forall key l x,
  key_in_use key l = false -> In x l -> is_active (c_phase x) = true -> lookup key (c_byaddr x) = None.
Proof.
  intros key l x H Hin Ha. unfold key_in_use in H.
  destruct (lookup key (c_byaddr x)) eqn:E; auto.
  assert (existsb (fun x => is_active (c_phase x) && match lookup key (c_byaddr x) with Some _ => true | None => false end) l = true).
  { apply existsb_exists. exists x. split; auto. rewrite Ha, E. reflexivity. }
  congruence.
Qed.

Lemma cinv_create : forall reg o key x,
  cinv reg x -> (is_active (c_phase x) = true -> lookup key (c_byaddr x) = None) -> cinv ((o, key) :: reg) x.
Proof.
  intros reg o key x [j1 j2 j3 j4 j5 j6 j8] Hk. constructor; auto.
  intros Ha k0 P0 Hl Hr. simpl in Hr. destruct (key =? k0) eqn:E.
  - apply Z.eqb_eq in E. subst k0. rewrite (Hk Ha) in Hl. discriminate.
  - apply (j6 Ha k0 P0); auto.
Qed.

(* ---------- the state invariant ---------- *)
Definition sinv (s : state) : Prop := reg_ok (s_reg s) /\ Forall (cinv (s_reg s)) (s_cons s).

Lemma sinv_getc : forall s c, sinv s -> cinv (s_reg s) (getc s c).
Proof.
  intros s c [_ HF]. unfold getc. destruct (nth_in_or_default c (s_cons s) cdefault) as [Hin|Hd].
  - rewrite Forall_forall in HF. auto.
  - rewrite Hd. apply cinv_default.
Qed.

Lemma sinv_setc : forall s c x, sinv s -> cinv (s_reg s) x -> sinv (setc s c x).
Proof.
  intros s c x [Hr HF] Hx. split; simpl; auto.
  apply Forall_upd; auto.
Qed.

Lemma sinv_init : forall unb, sinv (init unb).
Proof. intros. split; simpl; [split; constructor | constructor]. Qed.

Lemma step_sinv : forall s a, sinv s -> sinv (fst (step s a)).
Proof.
  intros s a Hs. pose proof Hs as [Hreg HF].
  destruct a as [c o k sok|c o k sok|o key|o| |c|c|c ok|c| | |dt|c k]; simpl.
  - (* assign *)
    destruct sok; simpl; auto.
    unfold reg_by_oper. destruct (lookup o (s_reg s)) as [P|] eqn:Eo; simpl; auto.
    destruct (assign_c (s_reg s) (s_now s) (s_unb s) o P k (getc s c)) as [x e] eqn:Ea.
    destruct (e =? 0) eqn:Ee; simpl; auto. apply Z.eqb_eq in Ee. subst e.
    apply sinv_setc; auto. eapply cinv_assign; eauto. apply sinv_getc; auto.
  - (* opt in *)
    destruct sok; simpl; auto.
    unfold reg_by_oper. destruct (lookup o (s_reg s)) as [P|] eqn:Eo; simpl; auto.
    destruct (optin_c (s_reg s) (s_now s) (s_unb s) o P k (getc s c)) as [x e] eqn:Ea.
    destruct (e =? 0) eqn:Ee; simpl; auto. apply Z.eqb_eq in Ee. subst e.
    apply sinv_setc; auto. eapply cinv_optin; eauto. apply sinv_getc; auto.
  - (* create validator *)
    unfold reg_by_oper. destruct (lookup o (s_reg s)) eqn:Eo; simpl; auto.
    destruct (reg_by_key key (s_reg s)) eqn:Ek; simpl; auto.
    destruct (key_in_use key (s_cons s)) eqn:Eu; simpl; auto.
    split; simpl.
    + apply reg_ok_cons; auto.
    + rewrite Forall_forall in *. intros x Hin. apply cinv_create; auto.
      intros Ha. eapply key_in_use_false; eauto.
  - (* remove validator *)
    unfold reg_by_oper. destruct (lookup o (s_reg s)) as [P|] eqn:Eo; simpl; auto.
    split; simpl.
    + apply reg_ok_remove; auto.
    + rewrite Forall_forall in *. intros x Hin. apply in_map_iff in Hin. destruct Hin as [y [<- Hin]].
      apply cinv_reg_mono with (reg := s_reg s); [intros k0; apply rbk_remove_mono|].
      apply cinv_remove_val. auto.
  - (* register *)
    split; simpl; auto. apply Forall_app. split; auto. constructor; [apply cinv_fresh|constructor].
  - (* initialize *)
    destruct (c_phase (getc s c) =? 1) eqn:E; simpl; auto. apply Z.eqb_eq in E.
    apply sinv_setc; auto. eapply cinv_ext; [..|apply (sinv_getc s c Hs)]; simpl; auto.
    + intros _. rewrite E. reflexivity.
    + intros [H|H]; discriminate.
  - (* launch *)
    destruct (c_phase (getc s c) =? 2) eqn:E; simpl; auto. apply Z.eqb_eq in E.
    apply sinv_setc; auto. eapply cinv_ext; [..|apply (sinv_getc s c Hs)]; simpl; auto.
    intros _. rewrite E. reflexivity.
  - (* stop *)
    destruct (c_phase (getc s c) =? 0) eqn:E0; simpl; auto.
    destruct ok; simpl; auto.
    destruct (c_phase (getc s c) =? 3) eqn:E; simpl; auto. apply Z.eqb_eq in E.
    apply sinv_setc; auto. pose proof (sinv_getc s c Hs) as Hc.
    eapply cinv_ext; [..|exact Hc]; simpl; auto.
    + intros H. discriminate.
    + intros _. destruct Hc. auto.
  - (* delete *)
    destruct (c_phase (getc s c) =? 4) eqn:E; simpl; auto.
    apply sinv_setc; auto. apply cinv_delete.
  - (* begin block *)
    split; simpl; auto. rewrite Forall_forall in *. intros x Hin.
    apply in_map_iff in Hin. destruct Hin as [y [<- Hin]].
    destruct (removal_due (s_now s) y); [apply cinv_delete|auto].
  - (* end block *)
    split; simpl; auto. rewrite Forall_forall in *. intros x Hin.
    apply in_map_iff in Hin. destruct Hin as [y [<- Hin]].
    destruct (c_client y); [apply cinv_prune|]; auto.
  - (* advance *) exact Hs.
  - (* slash *)
    destruct (c_phase (getc s c) =? 3); simpl; auto.
    destruct (reg_by_key (resolve s c k) (s_reg s)); simpl; auto.
    destruct (mem z (s_jailed s)); simpl; auto.
Qed.

Lemma exec_sinv : forall ops s, sinv s -> sinv (exec ops s).
Proof.
  induction ops as [|a r IH]; intros s Hs; simpl; auto.
  apply IH. apply step_sinv. exact Hs.
Qed.

Lemma reach_sinv : forall unb ops, sinv (exec ops (init unb)).
Proof. intros. apply exec_sinv. apply sinv_init. Qed.

(* ================= C05 ================= *)
Lemma in_rbk_nd : forall k reg o, NoDup (map snd reg) -> In (o, k) reg -> reg_by_key k reg = Some o.
Proof.
  intros k reg. induction reg as [|[o' p] t IH]; simpl; intros o Hnd H; [contradiction|].
  inversion Hnd as [|? ? Hni Hnd']; subst.
  destruct H as [H|H].
  - inversion H; subst. rewrite Z.eqb_refl. reflexivity.
  - destruct (p =? k) eqn:E.
    + apply Z.eqb_eq in E. subst. exfalso. apply Hni. apply in_map_iff. exists (o, k). auto.
    + auto.
Qed.

(* "key k is associated with the validator whose provider key is P, on consumer c" *)
Definition assoc (s : state) (c : nat) (k P : Z) : Prop :=
  lookup P (c_assigned (getc s c)) = Some k \/
  lookup k (c_byaddr (getc s c)) = Some P \/
  (k = P /\ reg_by_key P (s_reg s) <> None).
(* the part of the relation held in the consumer's own stores *)
Definition assoc_store (s : state) (c : nat) (k P : Z) : Prop :=
  lookup P (c_assigned (getc s c)) = Some k \/ lookup k (c_byaddr (getc s c)) = Some P.

Lemma injective_active : forall s c k P1 P2,
  sinv s -> is_active (c_phase (getc s c)) = true -> assoc s c k P1 -> assoc s c k P2 -> P1 = P2.
Proof.
  intros s c k P1 P2 Hs Ha H1 H2. pose proof (sinv_getc s c Hs) as [j1 j2 j3 j4 j5 j6 j8].
  assert (N : forall P, assoc s c k P -> lookup k (c_byaddr (getc s c)) = Some P \/ (k = P /\ reg_by_key P (s_reg s) <> None)).
  { intros P [H|[H|H]]; auto. }
  apply N in H1. apply N in H2.
  destruct H1 as [H1|[E1 R1]], H2 as [H2|[E2 R2]]; try congruence.
  - subst P2. symmetry. apply (j6 Ha k P1); auto.
  - subst P1. apply (j6 Ha k P2); auto.
Qed.

Lemma injective_store : forall s c k P1 P2,
  sinv s -> assoc_store s c k P1 -> assoc_store s c k P2 -> P1 = P2.
Proof.
  intros s c k P1 P2 Hs H1 H2. pose proof (sinv_getc s c Hs) as [j1 j2 j3 j4 j5 j6 j8].
  assert (N : forall P, assoc_store s c k P -> lookup k (c_byaddr (getc s c)) = Some P).
  { intros P [H|H]; auto. }
  apply N in H1. apply N in H2. congruence.
Qed.

Lemma injective_operators : forall s c k o1 o2 P1 P2,
  sinv s -> is_active (c_phase (getc s c)) = true ->
  reg_by_oper o1 (s_reg s) = Some P1 -> reg_by_oper o2 (s_reg s) = Some P2 ->
  assoc s c k P1 -> assoc s c k P2 -> o1 = o2.
Proof.
  intros s c k o1 o2 P1 P2 Hs Ha Ho1 Ho2 H1 H2.
  assert (P1 = P2) by (eapply injective_active; eauto). subst P2.
  destruct Hs as [[_ Hnd] _]. unfold reg_by_oper in *.
  apply lookup_in in Ho1. apply lookup_in in Ho2.
  apply (in_rbk_nd _ _ _ Hnd) in Ho1. apply (in_rbk_nd _ _ _ Hnd) in Ho2. congruence.
Qed.

(* a failing step changes nothing (SDK transaction rollback) *)
Lemma step_err_unchanged : forall s a, snd (step s a) <> 0 -> fst (step s a) = s.
Proof.
  intros s a. destruct a as [c o k sok|c o k sok|o key|o| |c|c|c ok|c| | |dt|c k]; simpl.
  - destruct sok; simpl; auto. destruct (reg_by_oper o (s_reg s)); simpl; auto.
    destruct (assign_c _ _ _ _ _ _ _) as [x e]. destruct (e =? 0) eqn:E; simpl; auto. congruence.
  - destruct sok; simpl; auto. destruct (reg_by_oper o (s_reg s)); simpl; auto.
    destruct (optin_c _ _ _ _ _ _ _) as [x e]. destruct (e =? 0) eqn:E; simpl; auto. congruence.
  - destruct (reg_by_oper o (s_reg s)); simpl; auto. destruct (reg_by_key key (s_reg s)); simpl; auto.
    destruct (key_in_use key (s_cons s)); simpl; auto. congruence.
  - destruct (reg_by_oper o (s_reg s)); simpl; auto. congruence.
  - congruence.
  - destruct (c_phase (getc s c) =? 1); simpl; auto. congruence.
  - destruct (c_phase (getc s c) =? 2); simpl; auto. congruence.
  - destruct (c_phase (getc s c) =? 0); simpl; auto. destruct ok; simpl; auto.
    destruct (c_phase (getc s c) =? 3); simpl; auto. congruence.
  - destruct (c_phase (getc s c) =? 4); simpl; auto. congruence.
  - congruence.
  - congruence.
  - congruence.
  - destruct (c_phase (getc s c) =? 3); simpl; auto.
    destruct (reg_by_key _ _); simpl; try congruence. destruct (mem _ _); simpl; congruence.
Qed.

Definition bad_c (reg : kv) (o P k : Z) (x : consumer) : Prop :=
  (exists o', reg_by_key k reg = Some o' /\ o' <> o) \/
  (exists P', lookup P' (c_assigned x) = Some k) \/
  In k (map snd (c_toprune x)) \/
  lookup k (c_byaddr x) <> None \/
  (reg_by_key k reg = Some o /\ lookup P (c_assigned x) = None).

Lemma assign_c_rejects : forall reg now unb o P k x,
  cinv reg x -> bad_c reg o P k x -> snd (assign_c reg now unb o P k x) <> 0.
Proof.
  intros reg now unb o P k x [j1 j2 j3 j4 j5 j6 j8] Hbad He.
  destruct (assign_c reg now unb o P k x) as [x' e] eqn:Ea. simpl in He. subst e.
  apply assign_c_ok_inv in Ea. destruct Ea as [Ha [Hchk [Hk _]]].
  destruct Hbad as [[o' [Hr Hne]]|[[P' Hl]|[Hin|[Hb|[Hr Hn]]]]].
  - destruct (Hchk o' Hr). congruence.
  - apply j4 in Hl. congruence.
  - apply (j1 _ Hin). exact Hk.
  - congruence.
  - destruct (Hchk o Hr). congruence.
Qed.

(* the conditions under which C05 demands a rejection, on state level *)
Definition must_reject (s : state) (c : nat) (o k : Z) : Prop :=
  (exists o', reg_by_key k (s_reg s) = Some o' /\ o' <> o) \/
  (exists P', lookup P' (c_assigned (getc s c)) = Some k) \/
  In k (map snd (c_toprune (getc s c))) \/
  lookup k (c_byaddr (getc s c)) <> None \/
  (reg_by_key k (s_reg s) = Some o /\
   forall P, reg_by_oper o (s_reg s) = Some P -> lookup P (c_assigned (getc s c)) = None).

Lemma must_reject_bad : forall s c o P k, must_reject s c o k -> reg_by_oper o (s_reg s) = Some P ->
  bad_c (s_reg s) o P k (getc s c).
Proof.
  intros s c o P k H Ho. unfold bad_c. destruct H as [H|[H|[H|[H|[H1 H2]]]]]; auto.
  right. right. right. right. auto.
Qed.

Lemma reject_assign : forall s c o k sok, sinv s -> must_reject s c o k ->
  fst (step s (OAssign c o k sok)) = s /\ snd (step s (OAssign c o k sok)) <> 0.
Proof.
  intros s c o k sok Hs Hb.
  assert (He : snd (step s (OAssign c o k sok)) <> 0).
  { simpl. destruct sok; simpl; [|discriminate].
    destruct (reg_by_oper o (s_reg s)) as [P|] eqn:Eo; simpl; [|discriminate].
    pose proof (assign_c_rejects (s_reg s) (s_now s) (s_unb s) o P k (getc s c) (sinv_getc s c Hs)
                  (must_reject_bad s c o P k Hb Eo)) as Hr.
    destruct (assign_c _ _ _ _ _ _ _) as [x e]. simpl in Hr.
    destruct (e =? 0) eqn:E; simpl; auto. apply Z.eqb_eq in E. congruence. }
  split; auto. apply step_err_unchanged; auto.
Qed.

Lemma reject_optin : forall s c o k sok, sinv s -> must_reject s c o k ->
  fst (step s (OOptIn c o (Some k) sok)) = s /\ snd (step s (OOptIn c o (Some k) sok)) <> 0.
Proof.
  intros s c o k sok Hs Hb.
  assert (He : snd (step s (OOptIn c o (Some k) sok)) <> 0).
  { simpl. destruct sok; simpl; [|discriminate].
    destruct (reg_by_oper o (s_reg s)) as [P|] eqn:Eo; simpl; [|discriminate].
    unfold optin_c. destruct (is_active (c_phase (getc s c))); simpl; [|discriminate].
    pose proof (assign_c_rejects (s_reg s) (s_now s) (s_unb s) o P k (add_optin P (getc s c))
                  (cinv_add_optin _ P _ (sinv_getc s c Hs))
                  (must_reject_bad s c o P k Hb Eo)) as Hr.
    destruct (assign_c _ _ _ _ _ _ _) as [x e]. simpl in Hr.
    destruct (e =? 0) eqn:E; simpl; auto. apply Z.eqb_eq in E. congruence. }
  split; auto. apply step_err_unchanged; auto.
Qed.

Definition known_on (x : consumer) (key : Z) : Prop :=
  lookup key (c_byaddr x) <> None \/ (exists P, lookup P (c_assigned x) = Some key) \/ In key (map snd (c_toprune x)).

Lemma reject_create : forall s o key c, sinv s ->
  is_active (c_phase (getc s c)) = true -> known_on (getc s c) key ->
  fst (step s (OCreateVal o key)) = s /\ snd (step s (OCreateVal o key)) <> 0.
Proof.
  intros s o key c Hs Ha Hk.
  assert (He : snd (step s (OCreateVal o key)) <> 0).
  { pose proof (sinv_getc s c Hs) as [j1 j2 j3 j4 j5 j6 j8].
    assert (Hb : lookup key (c_byaddr (getc s c)) <> None).
    { destruct Hk as [H|[[P H]|H]]; auto. apply j4 in H. congruence. }
    assert (Hu : key_in_use key (s_cons s) = true).
    { unfold key_in_use. apply existsb_exists. exists (getc s c). split.
      - unfold getc. apply nth_In. apply phase_in_range. apply active_nonzero. exact Ha.
      - rewrite Ha. destruct (lookup key (c_byaddr (getc s c))); [reflexivity|congruence]. }
    simpl. destruct (reg_by_oper o (s_reg s)); simpl; [discriminate|].
    destruct (reg_by_key key (s_reg s)); simpl; [discriminate|].
    rewrite Hu. simpl. discriminate. }
  split; auto. apply step_err_unchanged; auto.
Qed.

Lemma store_invariant : forall s c k P, sinv s ->
  lookup k (c_byaddr (getc s c)) = Some P ->
  lookup P (c_assigned (getc s c)) = Some k \/ In k (map snd (c_toprune (getc s c))).
Proof. intros s c k P Hs H. destruct (sinv_getc s c Hs). auto. Qed.

(* ================= C06 ================= *)
(* does action a name key k in an assignment on consumer c? *)
Definition names (a : op) (c : nat) (k : Z) : bool :=
  match a with
  | OAssign c' _ k' _ => Nat.eqb c' c && (k' =? k)
  | OOptIn c' _ (Some k') _ => Nat.eqb c' c && (k' =? k)
  | _ => false
  end.

Definition keyeq (x1 x : consumer) : Prop :=
  c_assigned x1 = c_assigned x /\ c_byaddr x1 = c_byaddr x /\ c_toprune x1 = c_toprune x /\
  c_client x1 = c_client x /\ c_phase x1 = c_phase x.

(* what one step can do to one consumer record *)
Inductive ctrans (s : state) (a : op) (c : nat) : consumer -> consumer -> Prop :=
| ct_same x : ctrans s a c x x
| ct_assign x x1 x' o P k : keyeq x1 x -> lookup o (s_reg s) = Some P -> names a c k = true ->
    assign_c (s_reg s) (s_now s) (s_unb s) o P k x1 = (x', 0) -> ctrans s a c x x'
| ct_remove x P : ctrans s a c x (remove_val_c P x)
| ct_fields x x' : c_assigned x' = c_assigned x -> c_byaddr x' = c_byaddr x -> c_toprune x' = c_toprune x ->
    (c_client x = true -> c_client x' = true) -> ctrans s a c x x'
| ct_delete x : ctrans s a c x (delete_c x)
| ct_prune x : a = OEndBlock -> c_client x = true -> ctrans s a c x (prune_c (s_now s) x)
| ct_fresh : ctrans s a c cdefault cfresh.

Lemma keyeq_refl : forall x, keyeq x x.
Proof. intros x. unfold keyeq. auto. Qed.

Lemma keyeq_optin : forall P x, keyeq (add_optin P x) x.
Proof. intros P x. unfold keyeq. simpl. auto. Qed.

Lemma step_ctrans : forall s a c, ctrans s a c (getc s c) (getc (fst (step s a)) c).
Proof.
  intros s a c.
  assert (SET : forall c' x', c_phase (getc s c') <> 0 ->
            (c' = c -> ctrans s a c (getc s c) x') -> ctrans s a c (getc s c) (getc (setc s c' x') c)).
  { intros c' x' Hph Hc. destruct (Nat.eq_dec c' c) as [->|Hne].
    - rewrite getc_setc_same; auto. apply phase_in_range; auto.
    - rewrite getc_setc_other; auto. apply ct_same. }
  destruct a as [c' o k sok|c' o k sok|o key|o| |c'|c'|c' ok|c'| | |dt|c' k]; simpl.
  - destruct sok; simpl; [|apply ct_same].
    unfold reg_by_oper. destruct (lookup o (s_reg s)) as [P|] eqn:Eo; simpl; [|apply ct_same].
    destruct (assign_c (s_reg s) (s_now s) (s_unb s) o P k (getc s c')) as [x e] eqn:Ea.
    destruct (e =? 0) eqn:Ee; simpl; [|apply ct_same]. apply Z.eqb_eq in Ee. subst e.
    pose proof (assign_c_ok_inv _ _ _ _ _ _ _ _ Ea) as [Ha _].
    apply SET; [apply active_nonzero; auto|]. intros ->.
    eapply ct_assign; [apply keyeq_refl|exact Eo| |exact Ea]. simpl. rewrite Nat.eqb_refl, Z.eqb_refl. reflexivity.
  - destruct sok; simpl; [|apply ct_same].
    unfold reg_by_oper. destruct (lookup o (s_reg s)) as [P|] eqn:Eo; simpl; [|apply ct_same].
    destruct (optin_c (s_reg s) (s_now s) (s_unb s) o P k (getc s c')) as [x e] eqn:Ea.
    destruct (e =? 0) eqn:Ee; simpl; [|apply ct_same]. apply Z.eqb_eq in Ee. subst e.
    unfold optin_c in Ea. destruct (is_active (c_phase (getc s c'))) eqn:Ha; simpl in Ea; [|inversion Ea].
    apply SET; [apply active_nonzero; auto|]. intros ->.
    destruct k as [k|].
    + eapply ct_assign; [apply (keyeq_optin P)|exact Eo| |exact Ea]. simpl. rewrite Nat.eqb_refl, Z.eqb_refl. reflexivity.
    + inversion Ea; subst. apply ct_fields; simpl; auto.
  - unfold reg_by_oper. destruct (lookup o (s_reg s)); simpl; [apply ct_same|].
    destruct (reg_by_key key (s_reg s)); simpl; [apply ct_same|].
    destruct (key_in_use key (s_cons s)); simpl; apply ct_same.
  - unfold reg_by_oper. destruct (lookup o (s_reg s)) as [P|]; simpl; [|apply ct_same].
    unfold getc. simpl. rewrite getc_map; [apply ct_remove|reflexivity].
  - unfold getc. simpl. destruct (Nat.lt_ge_cases c (length (s_cons s))) as [Hlt|Hge].
    + rewrite app_nth1; auto. apply ct_same.
    + rewrite (nth_overflow (s_cons s)); auto.
      destruct (Nat.eq_dec c (length (s_cons s))) as [->|Hne].
      * rewrite app_nth2; auto. rewrite Nat.sub_diag. simpl. apply ct_fresh.
      * rewrite nth_overflow; [apply ct_same|]. rewrite app_length. simpl. lia.
  - destruct (c_phase (getc s c') =? 1) eqn:E; simpl; [|apply ct_same]. apply Z.eqb_eq in E.
    apply SET; [lia|]. intros ->. apply ct_fields; simpl; auto.
  - destruct (c_phase (getc s c') =? 2) eqn:E; simpl; [|apply ct_same]. apply Z.eqb_eq in E.
    apply SET; [lia|]. intros ->. apply ct_fields; simpl; auto.
  - destruct (c_phase (getc s c') =? 0) eqn:E0; simpl; [apply ct_same|].
    destruct ok; simpl; [|apply ct_same].
    destruct (c_phase (getc s c') =? 3) eqn:E; simpl; [|apply ct_same]. apply Z.eqb_eq in E.
    apply SET; [lia|]. intros ->. apply ct_fields; simpl; auto.
  - destruct (c_phase (getc s c') =? 4) eqn:E; simpl; [|apply ct_same]. apply Z.eqb_eq in E.
    apply SET; [lia|]. intros ->. apply ct_delete.
  - unfold getc. simpl. rewrite getc_map; [|reflexivity].
    destruct (removal_due (s_now s) (nth c (s_cons s) cdefault)); [apply ct_delete|apply ct_same].
  - unfold getc. simpl. rewrite getc_map; [|reflexivity].
    destruct (c_client (nth c (s_cons s) cdefault)) eqn:Ec; [apply ct_prune; auto|apply ct_same].
  - apply ct_same.
  - destruct (c_phase (getc s c') =? 3); simpl; [|apply ct_same].
    destruct (reg_by_key (resolve s c' k) (s_reg s)); simpl; [|apply ct_same].
    destruct (mem z (s_jailed s)); simpl; apply ct_same.
Qed.

(* the replaced key k of validator P is held for pruning at dl *)
Definition Wc (k P dl : Z) (x : consumer) : Prop :=
  lookup k (c_byaddr x) = Some P /\ In (dl, k) (c_toprune x) /\ c_client x = true.

Lemma cinv_keyeq : forall reg x1 x, keyeq x1 x -> cinv reg x -> cinv reg x1.
Proof.
  intros reg x1 x [Ha [Hb [Ht [Hc Hp]]]] H. eapply cinv_ext; eauto.
  - rewrite Hp. auto.
  - rewrite Hp, Hc. destruct H; auto.
Qed.

Lemma Wc_ctrans : forall s a c k P dl x x',
  cinv (s_reg s) x -> ctrans s a c x x' -> Wc k P dl x ->
  c_phase x' <> 5 -> (a = OEndBlock -> s_now s < dl) -> Wc k P dl x'.
Proof.
  intros s a c k P dl x x' Hc Ht [Hb [Hin Hcl]] Hph Hend.
  assert (Hkt : In k (map snd (c_toprune x))) by (eapply in_keys; eauto).
  destruct Ht as [x|x x1 x' o P' k' Hke Ho Hn Ha|x P'|x x' Ea Eb Et Ecl|x|x He Hcl'|].
  - split; auto.
  - (* assignment on this consumer *)
    pose proof (cinv_keyeq _ _ _ Hke Hc) as [j1 j2 j3 j4 j5 j6 j8].
    destruct Hke as [Ka [Kb [Kt [Kc Kp]]]].
    apply assign_c_ok_inv in Ha. destruct Ha as [Hact [_ [Hk' ->]]].
    rewrite <- Kb in Hb. rewrite <- Kt in Hin, Hkt. rewrite <- Kc in Hcl.
    assert (Hne : k <> k') by congruence.
    split; [|split]; cbn [c_toprune c_byaddr c_client set_keys]; auto.
    + rewrite lookup_set_other; auto. unfold assign_b1.
      destruct (lookup P' (c_assigned x1)) as [old|] eqn:Eo; auto.
      destruct (c_phase x1 =? 3); auto.
      rewrite lookup_remove_other; auto. intros ->. apply (j2 _ P' Hkt). exact Eo.
    + unfold assign_t1. destruct (lookup P' (c_assigned x1)) as [old|]; auto.
      destruct (c_phase x1 =? 3); auto. apply tp_insert_in. auto.
  - (* validator removed *)
    destruct Hc as [j1 j2 j3 j4 j5 j6 j8]. unfold remove_val_c.
    destruct (lookup P' (c_assigned x)) as [k1|] eqn:E1; [|split; auto].
    split; [|split]; cbn [c_toprune c_byaddr c_client set_keys]; auto.
    rewrite lookup_remove_other; auto. intros ->. apply (j2 _ P' Hkt). exact E1.
  - split; [|split]; try rewrite Eb; try rewrite Et; auto.
  - simpl in Hph. congruence.
  - (* pruning before the deadline *)
    destruct Hc as [j1 j2 j3 j4 j5 j6 j8]. specialize (Hend He).
    split; [|split]; cbn [prune_c c_toprune c_byaddr c_client set_keys]; auto.
    + rewrite lookup_remove_keys_notin; auto.
      intros Hd. apply due_keys_in in Hd. destruct Hd as [ts [Hin' Hle]].
      assert (ts = dl) by (eapply nodup_keys_unique; eauto). lia.
    + apply filter_In. split; auto. unfold due. simpl. apply negb_true_iff. apply Z.leb_gt. exact Hend.
  - simpl in Hb. discriminate.
Qed.

(* no step deletes consumer c, and every EndBlock happens before dl *)
Fixpoint quiet (c : nat) (dl : Z) (ops : list op) (s : state) : Prop :=
  match ops with
  | [] => True
  | a :: r => let s' := fst (step s a) in
              c_phase (getc s' c) <> 5 /\ (a = OEndBlock -> s_now s < dl) /\ quiet c dl r s'
  end.

Lemma W_exec : forall c k P dl ops s,
  sinv s -> Wc k P dl (getc s c) -> quiet c dl ops s ->
  sinv (exec ops s) /\ Wc k P dl (getc (exec ops s) c).
Proof.
  intros c k P dl ops. induction ops as [|a r IH]; intros s Hs Hw Hq; simpl; auto.
  destruct Hq as [Hph [Hend Hq]].
  apply IH; auto.
  - apply step_sinv; auto.
  - eapply Wc_ctrans; eauto.
    + apply sinv_getc; auto.
    + apply step_ctrans.
Qed.

(* a successful replacement on a launched consumer opens the window *)
Lemma replace_opens : forall s c P k a s',
  sinv s -> c_phase (getc s c) = 3 -> lookup P (c_assigned (getc s c)) = Some k ->
  (exists o k' , (a = OAssign c o k' true \/ a = OOptIn c o (Some k') true) /\ reg_by_oper o (s_reg s) = Some P) ->
  step s a = (s', 0) ->
  sinv s' /\ Wc k P (s_now s + s_unb s) (getc s' c).
Proof.
  intros s c P k a s' Hs Hph Hl [o [k' [Ha Ho]]] Hstep.
  assert (Hs' : sinv s') by (replace s' with (fst (step s a)) by (rewrite Hstep; reflexivity); apply step_sinv; auto).
  split; auto.
  pose proof (sinv_getc s c Hs) as Hc. pose proof Hc as [j1 j2 j3 j4 j5 j6 j8].
  assert (Hin : (c < length (s_cons s))%nat) by (apply phase_in_range; lia).
  assert (G : forall x1, keyeq x1 (getc s c) ->
          forall x', assign_c (s_reg s) (s_now s) (s_unb s) o P k' x1 = (x', 0) -> Wc k P (s_now s + s_unb s) x').
  { intros x1 [Ka [Kb [Kt [Kc Kp]]]] x' Hac. apply assign_c_ok_inv in Hac. destruct Hac as [_ [_ [Hk' ->]]].
    unfold assign_b1, assign_t1. rewrite Ka, Kb, Kt, Kp, Hl, Hph. simpl.
    rewrite Kb in Hk'. assert (k <> k') by (intros ->; apply j4 in Hl; congruence).
    split; [|split]; cbn [c_toprune c_byaddr c_client set_keys].
    - rewrite lookup_set_other; auto.
    - apply tp_insert_in. auto.
    - rewrite Kc. apply j8. auto. }
  unfold reg_by_oper in Ho. destruct Ha as [-> | ->]; simpl in Hstep; unfold reg_by_oper in Hstep; rewrite Ho in Hstep.
  - destruct (assign_c _ _ _ _ _ _ _) as [x e] eqn:Ea. destruct (e =? 0) eqn:Ee.
    + apply Z.eqb_eq in Ee. subst e. inversion Hstep; subst s'. rewrite getc_setc_same; auto.
      eapply G; [apply keyeq_refl|exact Ea].
    + inversion Hstep; subst. rewrite Z.eqb_refl in Ee. discriminate.
  - unfold optin_c in Hstep. destruct (is_active (c_phase (getc s c))) eqn:Eact; simpl in Hstep;
      [|inversion Hstep].
    destruct (assign_c _ _ _ _ _ _ _) as [x e] eqn:Ea. destruct (e =? 0) eqn:Ee.
    + apply Z.eqb_eq in Ee. subst e. inversion Hstep; subst s'. rewrite getc_setc_same; auto.
      eapply G; [apply (keyeq_optin P)|exact Ea].
    + inversion Hstep; subst. rewrite Z.eqb_refl in Ee. discriminate.
Qed.

Lemma resolve_byaddr : forall s c k P, lookup k (c_byaddr (getc s c)) = Some P -> resolve s c k = P.
Proof. intros s c k P H. unfold resolve, resolve_c. rewrite H. reflexivity. Qed.

(* the first EndBlock at/after the deadline forgets the key *)
Lemma forgotten : forall s c k P dl, sinv s -> Wc k P dl (getc s c) -> dl <= s_now s ->
  let s' := fst (step s OEndBlock) in
  lookup k (c_byaddr (getc s' c)) = None /\ ~ In k (map snd (c_toprune (getc s' c))) /\ resolve s' c k = k.
Proof.
  intros s c k P dl Hs [Hb [Hin Hcl]] Hle. simpl.
  pose proof (sinv_getc s c Hs) as [j1 j2 j3 j4 j5 j6 j8].
  unfold getc in *. simpl. rewrite getc_map; [|reflexivity]. rewrite Hcl.
  assert (A : lookup k (c_byaddr (prune_c (s_now s) (nth c (s_cons s) cdefault))) = None).
  { cbn [prune_c c_byaddr set_keys]. apply lookup_remove_keys_in.
    apply in_map_iff. exists (dl, k). split; auto. apply filter_In. split; auto.
    unfold due. simpl. apply Z.leb_le. exact Hle. }
  split; [exact A|]. split.
  - cbn [prune_c c_toprune set_keys]. intros Hn. apply notdue_keys_in in Hn. destruct Hn as [ts [Hin' Hlt]].
    assert (ts = dl) by (eapply nodup_keys_unique; eauto). lia.
  - unfold resolve, resolve_c, getc. simpl. rewrite getc_map; [|reflexivity]. rewrite Hcl, A. reflexivity.
Qed.

(* a key that is unknown on an active consumer and is nobody's provider key can be assigned *)
Lemma assign_ok : forall s c o P k,
  is_active (c_phase (getc s c)) = true -> reg_by_oper o (s_reg s) = Some P ->
  lookup k (c_byaddr (getc s c)) = None -> reg_by_key k (s_reg s) = None ->
  snd (step s (OAssign c o k true)) = 0.
Proof.
  intros s c o P k Ha Ho Hk Hr. simpl. rewrite Ho. unfold assign_c. rewrite Ha, Hr, Hk. simpl.
  destruct (lookup P (c_assigned (getc s c))); [destruct (c_phase (getc s c) =? 3)|]; reflexivity.
Qed.

(* keys never named on c stay unknown there *)
Lemma lookup_remove_none : forall k a l, lookup k l = None -> lookup k (remove_key a l) = None.
Proof.
  intros k a l H. destruct (Z.eq_dec k a) as [->|Hne].
  - apply lookup_remove_same.
  - rewrite lookup_remove_other; auto.
Qed.

Lemma lookup_remove_keys_none : forall k ks l, lookup k l = None -> lookup k (remove_keys ks l) = None.
Proof.
  intros k ks l H. destruct (in_dec Z.eq_dec k ks).
  - apply lookup_remove_keys_in; auto.
  - rewrite lookup_remove_keys_notin; auto.
Qed.

Lemma unknown_ctrans : forall s a c k x x',
  ctrans s a c x x' -> names a c k = false -> lookup k (c_byaddr x) = None -> lookup k (c_byaddr x') = None.
Proof.
  intros s a c k x x' Ht Hn Hk.
  destruct Ht as [x|x x1 x' o P' k' Hke Ho Hn' Ha|x P'|x x' Ea Eb Et Ecl|x|x He Hcl'|]; auto.
  - destruct Hke as [Ka [Kb _]]. apply assign_c_ok_inv in Ha. destruct Ha as [_ [_ [_ ->]]].
    cbn [c_byaddr set_keys]. assert (k <> k') by (intros ->; congruence).
    rewrite lookup_set_other; auto. unfold assign_b1. rewrite Kb.
    destruct (lookup P' (c_assigned x1)); auto. destruct (c_phase x1 =? 3); auto.
    apply lookup_remove_none; auto.
  - unfold remove_val_c. destruct (lookup P' (c_assigned x)); auto.
    cbn [c_byaddr set_keys]. apply lookup_remove_none; auto.
  - rewrite Eb. auto.
  - cbn [prune_c c_byaddr set_keys]. apply lookup_remove_keys_none; auto.
Qed.

Lemma unknown_exec : forall c k ops s,
  (forall a, In a ops -> names a c k = false) -> lookup k (c_byaddr (getc s c)) = None ->
  lookup k (c_byaddr (getc (exec ops s) c)) = None.
Proof.
  intros c k ops. induction ops as [|a r IH]; intros s Hn Hk; simpl; auto.
  apply IH.
  - intros a' Hin. apply Hn. right. auto.
  - eapply unknown_ctrans; [apply step_ctrans| |exact Hk]. apply Hn. left. auto.
Qed.

Lemma identity_never_assigned : forall unb c k ops,
  (forall a, In a ops -> names a c k = false) -> resolve (exec ops (init unb)) c k = k.
Proof.
  intros unb c k ops Hn. unfold resolve, resolve_c.
  rewrite (unknown_exec c k ops (init unb) Hn); auto.
  unfold getc. simpl. destruct c; reflexivity.
Qed.

(* before launch the replaced key is dropped at once *)
Lemma prelaunch_dropped : forall s c o P k k' sok s',
  sinv s -> c_phase (getc s c) = 1 \/ c_phase (getc s c) = 2 ->
  reg_by_oper o (s_reg s) = Some P -> lookup P (c_assigned (getc s c)) = Some k ->
  step s (OAssign c o k' sok) = (s', 0) ->
  lookup k (c_byaddr (getc s' c)) = None /\ resolve s' c k = k.
Proof.
  intros s c o P k k' sok s' Hs Hph Ho Hl Hstep.
  pose proof (sinv_getc s c Hs) as [j1 j2 j3 j4 j5 j6 j8].
  assert (Hin : (c < length (s_cons s))%nat) by (apply phase_in_range; lia).
  simpl in Hstep. destruct sok; simpl in Hstep; [|inversion Hstep].
  rewrite Ho in Hstep. destruct (assign_c _ _ _ _ _ _ _) as [x e] eqn:Ea. destruct (e =? 0) eqn:Ee.
  - apply Z.eqb_eq in Ee. subst e. inversion Hstep; subst s'.
    apply assign_c_ok_inv in Ea. destruct Ea as [_ [_ [Hk' ->]]].
    assert (A : lookup k (c_byaddr (getc (setc s c (set_keys (getc s c) (set_key P k' (c_assigned (getc s c)))
                  (set_key k' P (assign_b1 P (getc s c))) (assign_t1 (s_now s + s_unb s) P (getc s c)))) c)) = None).
    { rewrite getc_setc_same; auto. cbn [c_byaddr set_keys].
      assert (k <> k') by (intros ->; apply j4 in Hl; congruence).
      rewrite lookup_set_other; auto. unfold assign_b1. rewrite Hl.
      replace (c_phase (getc s c) =? 3) with false by (symmetry; apply Z.eqb_neq; lia).
      apply lookup_remove_same. }
    split; [exact A|]. unfold resolve, resolve_c. rewrite A. reflexivity.
  - inversion Hstep; subst. rewrite Z.eqb_refl in Ee. discriminate.
Qed.

(* who is punished: a slash request for consumer address k jails the owner of resolve c k *)
Lemma slash_resolves : forall s c k o,
  c_phase (getc s c) = 3 -> reg_by_key (resolve s c k) (s_reg s) = Some o ->
  let s' := fst (step s (OSlash c k)) in
  In o (s_jailed s') /\ (forall j, In j (s_jailed s') -> j = o \/ In j (s_jailed s)) /\ s_cons s' = s_cons s.
Proof.
  intros s c k o Hph Hr. simpl. rewrite Hph, Hr. simpl.
  destruct (mem o (s_jailed s)) eqn:Em; simpl.
  - apply mem_In in Em. auto.
  - split; auto. split; auto. intros j [H|H]; auto.
Qed.

Lemma step_unb : forall s a, s_unb (fst (step s a)) = s_unb s.
Proof.
  intros s a. destruct a as [c o k sok|c o k sok|o key|o| |c|c|c ok|c| | |dt|c k]; simpl; auto.
  - destruct sok; simpl; auto. destruct (reg_by_oper o (s_reg s)); simpl; auto.
    destruct (assign_c _ _ _ _ _ _ _) as [x e]. destruct (e =? 0); reflexivity.
  - destruct sok; simpl; auto. destruct (reg_by_oper o (s_reg s)); simpl; auto.
    destruct (optin_c _ _ _ _ _ _ _) as [x e]. destruct (e =? 0); reflexivity.
  - destruct (reg_by_oper o (s_reg s)); simpl; auto. destruct (reg_by_key key (s_reg s)); simpl; auto.
    destruct (key_in_use key (s_cons s)); reflexivity.
  - destruct (reg_by_oper o (s_reg s)); reflexivity.
  - destruct (c_phase (getc s c) =? 1); reflexivity.
  - destruct (c_phase (getc s c) =? 2); reflexivity.
  - destruct (c_phase (getc s c) =? 0); simpl; auto. destruct ok; simpl; auto.
    destruct (c_phase (getc s c) =? 3); reflexivity.
  - destruct (c_phase (getc s c) =? 4); reflexivity.
  - destruct (c_phase (getc s c) =? 3); simpl; auto.
    destruct (reg_by_key _ _); simpl; auto. destruct (mem _ _); reflexivity.
Qed.

Lemma exec_unb : forall ops s, s_unb (exec ops s) = s_unb s.
Proof.
  induction ops as [|a r IH]; intros s; simpl; auto. rewrite IH. apply step_unb.
Qed.

(* ---------- statements in the form used by Props/C05.v and Props/C06.v ---------- *)
Definition replaces (s : state) (c : nat) (P : Z) (a : op) : Prop :=
  exists o k', (a = OAssign c o k' true \/ a = OOptIn c o (Some k') true) /\ reg_by_oper o (s_reg s) = Some P.

Lemma attributable : forall U ops0 c a P k s1 ops,
  let s0 := exec ops0 (init U) in
  c_phase (getc s0 c) = 3 -> lookup P (c_assigned (getc s0 c)) = Some k -> replaces s0 c P a ->
  step s0 a = (s1, 0) -> quiet c (s_now s0 + U) ops s1 ->
  lookup k (c_byaddr (getc (exec ops s1) c)) = Some P /\ resolve (exec ops s1) c k = P.
Proof.
  intros U ops0 c a P k s1 ops s0 Hph Hl Hr Hstep Hq.
  destruct (replace_opens s0 c P k a s1 (reach_sinv U ops0) Hph Hl Hr Hstep) as [Hs1 Hw].
  unfold s0 in Hw at 2. rewrite exec_unb in Hw. simpl in Hw.
  destruct (W_exec c k P _ ops s1 Hs1 Hw Hq) as [_ [Hb _]].
  split; auto. apply resolve_byaddr; auto.
Qed.

Lemma forgotten_after : forall U ops0 c a P k s1 ops,
  let s0 := exec ops0 (init U) in
  c_phase (getc s0 c) = 3 -> lookup P (c_assigned (getc s0 c)) = Some k -> replaces s0 c P a ->
  step s0 a = (s1, 0) -> quiet c (s_now s0 + U) ops s1 ->
  s_now s0 + U <= s_now (exec ops s1) ->
  let s3 := fst (step (exec ops s1) OEndBlock) in
  lookup k (c_byaddr (getc s3 c)) = None /\ ~ In k (map snd (c_toprune (getc s3 c))) /\ resolve s3 c k = k /\
  (forall o2 P2, is_active (c_phase (getc s3 c)) = true -> reg_by_oper o2 (s_reg s3) = Some P2 ->
                 reg_by_key k (s_reg s3) = None -> snd (step s3 (OAssign c o2 k true)) = 0).
Proof.
  intros U ops0 c a P k s1 ops s0 Hph Hl Hr Hstep Hq Hle s3.
  destruct (replace_opens s0 c P k a s1 (reach_sinv U ops0) Hph Hl Hr Hstep) as [Hs1 Hw].
  unfold s0 in Hw at 2. rewrite exec_unb in Hw. simpl in Hw.
  destruct (W_exec c k P _ ops s1 Hs1 Hw Hq) as [Hs2 Hw2].
  destruct (forgotten _ c k P _ Hs2 Hw2 Hle) as [A [B C]].
  split; [exact A|]. split; [exact B|]. split; [exact C|].
  intros o2 P2 Hact Ho Hk. eapply assign_ok; eauto.
Qed.

Definition witness_ops : list op :=
  [OCreateVal 0 0; ORegister; OInitialize 0; OLaunch 0; OAssign 0 0 5 true; OStop 0 true; OCreateVal 1 5].

(* on a STOPPED (not yet deleted) consumer the full association relation is not functional:
   ValidatorConsensusKeyInUse only looks at active consumers *)
Lemma stopped_witness :
  let s := exec witness_ops (init 1000) in
  c_phase (getc s 0) = 4 /\ assoc s 0 5 0 /\ assoc s 0 5 5 /\
  snd (step (exec (removelast witness_ops) (init 1000)) (OCreateVal 1 5)) = 0.
Proof.
  split; [reflexivity|]. split; [right; left; reflexivity|]. split; [|reflexivity].
  right. right. split; [reflexivity|]. vm_compute. discriminate.
Qed.

Lemma not_injective_incl_stopped :
  ~ (forall U ops c k P1 P2,
       let s := exec ops (init U) in
       is_active (c_phase (getc s c)) = true \/ c_phase (getc s c) = 4 ->
       assoc s c k P1 -> assoc s c k P2 -> P1 = P2).
Proof.
  intros H. destruct stopped_witness as [Hp [H1 [H2 _]]].
  specialize (H 1000 witness_ops 0%nat 5 0 5 (or_intror Hp) H1 H2). discriminate.
Qed.
