(* Lemmas about Model/PowerCap.v (property C04): the redistribution loop of
   NoMoreThanPercentOfTheSum, CapValidatorSet and PartitionBasedOnPriorityList.
   All statements are for lists of arbitrary length. *)
From Coq Require Import ZArith List Bool Lia Permutation Sorted.
From ICS Require Import Base.Dec Base.SortDesc Base.Tree Model.PowerCap.
Import ListNotations.
Open Scope Z_scope.

(* ------------------------------------------------------------------ *)
(* 1. LegacyDec expression of maxPower = mathematical floor             *)
(* ------------------------------------------------------------------ *)

Lemma P_pos : 0 < P.
Proof. reflexivity. Qed.

Lemma chop_round_exact x : 0 <= x -> chop_round (x * P) = x.
Proof.
  intros Hx. pose proof P_pos as HP.
  assert (HxP : 0 <= x * P) by (apply Z.mul_nonneg_nonneg; lia).
  unfold chop_round.
  destruct (Z.ltb_spec (x * P) 0) as [Hneg|_]; [lia|].
  unfold chop_round_nonneg.
  rewrite Z.rem_mul by lia. rewrite Z.quot_mul by lia.
  reflexivity.
Qed.

Lemma raw_max_power_floor s percent :
  0 <= s -> 0 <= percent -> raw_max_power s percent = (s * percent) / 100.
Proof.
  intros Hs Hp. pose proof P_pos as HP.
  assert (Hx : 0 <= s * percent) by (apply Z.mul_nonneg_nonneg; lia).
  unfold raw_max_power, dtrunc_int, dquo_int, dmul, dec_of_int, chop_trunc.
  replace (s * P * (percent * P)) with ((s * percent * P) * P) by ring.
  assert (HxP : 0 <= s * percent * P) by (apply Z.mul_nonneg_nonneg; lia).
  rewrite chop_round_exact by assumption.
  rewrite (Z.quot_div_nonneg (s * percent * P) 100) by lia.
  assert (Hq : 0 <= s * percent * P / 100) by (apply Z.div_pos; lia).
  rewrite Z.quot_div_nonneg by lia.
  rewrite Z.div_div by lia.
  rewrite Z.div_mul_cancel_r by lia.
  reflexivity.
Qed.

Lemma raw_max_power_nonneg s percent : 0 <= s -> 0 <= percent -> 0 <= raw_max_power s percent.
Proof.
  intros Hs Hp. rewrite raw_max_power_floor by assumption.
  apply Z.div_pos; [apply Z.mul_nonneg_nonneg; lia|lia].
Qed.

Lemma max_power_of_raw s percent :
  1 <= raw_max_power s percent -> max_power s percent = raw_max_power s percent.
Proof.
  intros HM. unfold max_power.
  destruct (Z.eqb_spec (raw_max_power s percent) 0) as [H0|_]; [lia|reflexivity].
Qed.

Lemma max_power_of_zero s percent :
  raw_max_power s percent = 0 -> max_power s percent = 1.
Proof. intros HM. unfold max_power. rewrite HM. reflexivity. Qed.

(* ------------------------------------------------------------------ *)
(* 2. Generic list facts                                                *)
(* ------------------------------------------------------------------ *)

Lemma sum_pow_cons v t : sum_pow (v :: t) = vpow v + sum_pow t.
Proof. reflexivity. Qed.

Lemma sum_pow_perm l l' : Permutation l l' -> sum_pow l = sum_pow l'.
Proof.
  induction 1 as [|x l l' _ IH|x y l|l l' l'' _ IH1 _ IH2].
  - reflexivity.
  - rewrite !sum_pow_cons, IH. reflexivity.
  - rewrite !sum_pow_cons. lia.
  - congruence.
Qed.

Lemma sum_pow_ge_len l :
  Forall (fun v => 1 <= vpow v) l -> Z.of_nat (length l) <= sum_pow l.
Proof.
  induction 1 as [|v t Hv _ IH]; [reflexivity|].
  rewrite sum_pow_cons. cbn [length]. rewrite Nat2Z.inj_succ. lia.
Qed.

Lemma Forall_combine_r {A B} (Q : B -> Prop) (l1 : list A) (l2 : list B) :
  Forall Q l2 -> Forall (fun x => Q (snd x)) (combine l1 l2).
Proof.
  intros H. revert l1. induction H as [|y t Hy _ IH]; intros [|x l1]; cbn [combine]; constructor.
  - exact Hy.
  - apply IH.
Qed.

Lemma SSorted_impl_in {A} (R R' : A -> A -> Prop) l :
  (forall a b, In a l -> In b l -> R a b -> R' a b) ->
  StronglySorted R l -> StronglySorted R' l.
Proof.
  induction l as [|x t IH]; intros Himp Hs; [constructor|].
  apply StronglySorted_inv in Hs. destruct Hs as [Hs Hall].
  constructor.
  - apply IH; [|assumption]. intros a b Ha Hb. apply Himp; right; assumption.
  - rewrite Forall_forall in *. intros y Hy.
    apply Himp; [left; reflexivity|right; assumption|apply Hall; assumption].
Qed.

Lemma SSorted_app {A} (R : A -> A -> Prop) l1 l2 :
  StronglySorted R l1 -> StronglySorted R l2 ->
  (forall x y, In x l1 -> In y l2 -> R x y) -> StronglySorted R (l1 ++ l2).
Proof.
  induction l1 as [|a l1 IH]; cbn [app]; intros H1 H2 Hc; [assumption|].
  apply StronglySorted_inv in H1. destruct H1 as [H1 Hall].
  constructor.
  - apply IH; [assumption|assumption|]. intros x y Hx Hy. apply Hc; [right; assumption|assumption].
  - apply Forall_app. split; [assumption|].
    rewrite Forall_forall. intros y Hy. apply Hc; [left; reflexivity|assumption].
Qed.

Lemma SSorted_app_cross {A} (R : A -> A -> Prop) l1 l2 :
  StronglySorted R (l1 ++ l2) -> forall x y, In x l1 -> In y l2 -> R x y.
Proof.
  induction l1 as [|a l1 IH]; cbn [app]; intros Hs x y Hx Hy; [contradiction|].
  apply StronglySorted_inv in Hs. destruct Hs as [Hs Hall].
  destruct Hx as [<-|Hx].
  - rewrite Forall_forall in Hall. apply Hall, in_or_app. right. assumption.
  - apply IH; assumption.
Qed.

Lemma SSorted_FOP {A} (R : A -> A -> Prop) l : StronglySorted R l -> ForallOrdPairs R l.
Proof. induction 1; constructor; assumption. Qed.

Lemma FOP_nth {A} (R : A -> A -> Prop) l (d : A) :
  ForallOrdPairs R l -> forall i j, (i < j)%nat -> (j < length l)%nat -> R (nth i l d) (nth j l d).
Proof.
  induction 1 as [|a l Hall _ IH]; intros i j Hij Hj; cbn [length] in Hj; [lia|].
  destruct j as [|j]; [lia|]. destruct i as [|i]; cbn [nth].
  - rewrite Forall_forall in Hall. apply Hall, nth_In. lia.
  - apply IH; lia.
Qed.

Lemma filter_split_perm {A} (f : A -> bool) l :
  Permutation (filter f l ++ filter (fun x => negb (f x)) l) l.
Proof.
  induction l as [|x t IH]; cbn [filter]; [constructor|].
  destruct (f x); cbn [negb app].
  - constructor. exact IH.
  - symmetry. apply Permutation_cons_app. symmetry. exact IH.
Qed.

Lemma prefix_skipn {A} (c rest l : list A) : l = c ++ rest -> skipn (length c) l = rest.
Proof.
  intros ->. induction c as [|x c IH]; [reflexivity|]. cbn [length app skipn]. exact IH.
Qed.

(* ------------------------------------------------------------------ *)
(* 3. The loop: unfolding, state invariant                              *)
(* ------------------------------------------------------------------ *)

(* room = total head-room below the cap = sum over below-cap elements of (maxp - power) *)
Fixpoint room (maxp : Z) (l : list val) : Z :=
  match l with
  | [] => 0
  | v :: t => (if maxp <=? vpow v then 0 else maxp - vpow v) + room maxp t
  end.

Lemma cap_loop_cons maxp v t rem rv ppv :
  cap_loop maxp (v :: t) rem rv ppv =
  if maxp <=? vpow v then
    (vid v, maxp) :: cap_loop maxp t rem rv (if rv =? 0 then ppv else Z.quot rem rv)
  else if maxp <=? vpow v + ppv then
    (vid v, maxp) :: cap_loop maxp t (rem - (maxp - vpow v)) (rv - 1)
       (if rv - 1 =? 0 then ppv else Z.quot (rem - (maxp - vpow v)) (rv - 1))
  else
    (vid v, vpow v + ppv) :: cap_loop maxp t (rem - ppv) (rv - 1)
       (if rv - 1 =? 0 then ppv else Z.quot (rem - ppv) (rv - 1)).
Proof.
  cbn [cap_loop]. destruct (maxp <=? vpow v); [reflexivity|].
  destruct (maxp <=? vpow v + ppv); reflexivity.
Qed.

Lemma vpow_pair (i p : Z) : vpow (i, p) = p.
Proof. reflexivity. Qed.
Lemma vid_pair (i p : Z) : vid (i, p) = i.
Proof. reflexivity. Qed.

Definition inv (maxp : Z) (l : list val) (rem rv ppv : Z) : Prop :=
  rv = count_below maxp l /\ 0 <= rem /\ (rv <> 0 -> ppv = Z.quot rem rv).

Lemma count_below_nonneg maxp l : 0 <= count_below maxp l.
Proof.
  induction l as [|v t IH]; cbn [count_below]; [lia|].
  destruct (maxp <=? vpow v); lia.
Qed.

Lemma excess_nonneg maxp l : 0 <= excess maxp l.
Proof.
  induction l as [|v t IH]; cbn [excess]; [lia|].
  destruct (Z.leb_spec maxp (vpow v)); lia.
Qed.

Lemma room_nonneg maxp l : 0 <= room maxp l.
Proof.
  induction l as [|v t IH]; cbn [room]; [lia|].
  destruct (Z.leb_spec maxp (vpow v)); lia.
Qed.

Lemma sum_len_excess_room maxp l :
  sum_pow l - Z.of_nat (length l) * maxp = excess maxp l - room maxp l.
Proof.
  induction l as [|v t IH]; [reflexivity|].
  rewrite sum_pow_cons. cbn [length excess room]. rewrite Nat2Z.inj_succ.
  destruct (Z.leb_spec maxp (vpow v)); lia.
Qed.

Lemma quot_spec rem rv :
  0 <= rem -> 0 < rv ->
  rv * Z.quot rem rv <= rem /\ rem < rv * (Z.quot rem rv + 1) /\ 0 <= Z.quot rem rv /\ Z.quot rem rv <= rem.
Proof.
  intros Hrem Hrv. rewrite Z.quot_div_nonneg by lia.
  pose proof (Z.div_mod rem rv ltac:(lia)) as Hdm.
  pose proof (Z.mod_pos_bound rem rv Hrv) as Hmb.
  assert (Hd : 0 <= rem / rv) by (apply Z.div_pos; lia).
  assert (Hle : rem / rv <= rv * (rem / rv)) by nia.
  lia.
Qed.

Lemma inv_init maxp l :
  inv maxp l (excess maxp l) (count_below maxp l)
      (if count_below maxp l =? 0 then 0 else Z.quot (excess maxp l) (count_below maxp l)).
Proof.
  split; [reflexivity|]. split; [apply excess_nonneg|].
  intros Hne. destruct (Z.eqb_spec (count_below maxp l) 0); [contradiction|reflexivity].
Qed.

Lemma inv_next maxp t rem' rv' ppv :
  rv' = count_below maxp t -> 0 <= rem' ->
  inv maxp t rem' rv' (if rv' =? 0 then ppv else Z.quot rem' rv').
Proof.
  intros Hrv Hrem. split; [assumption|]. split; [assumption|].
  intros Hne. destruct (Z.eqb_spec rv' 0); [contradiction|reflexivity].
Qed.

Lemma inv_ge maxp v t rem rv ppv :
  maxp <= vpow v -> inv maxp (v :: t) rem rv ppv -> rv = count_below maxp t /\ 0 <= rem.
Proof.
  intros Hge (Hrv & Hrem & _). cbn [count_below] in Hrv.
  destruct (Z.leb_spec maxp (vpow v)); lia.
Qed.

Lemma inv_below maxp v t rem rv ppv :
  vpow v < maxp -> inv maxp (v :: t) rem rv ppv ->
  rv - 1 = count_below maxp t /\ 0 < rv /\ 0 <= rem /\
  rv * ppv <= rem /\ rem < rv * (ppv + 1) /\ 0 <= ppv /\ ppv <= rem.
Proof.
  intros Hlt (Hrv & Hrem & Hppv). cbn [count_below] in Hrv.
  pose proof (count_below_nonneg maxp t) as Hc.
  destruct (Z.leb_spec maxp (vpow v)) as [Hge|_]; [lia|].
  assert (Hpos : 0 < rv) by lia.
  rewrite (Hppv ltac:(lia)).
  pose proof (quot_spec rem rv Hrem Hpos) as (H1 & H2 & H3 & H4).
  repeat split; lia.
Qed.

(* all elements of t are <= V < maxp: they are all counted, and each leaves a gap >= maxp - V *)
Lemma below_tail maxp V t :
  Forall (fun w => vpow w <= V) t -> V < maxp ->
  count_below maxp t = Z.of_nat (length t) /\ Z.of_nat (length t) * (maxp - V) <= room maxp t.
Proof.
  intros Hall HV. induction Hall as [|w t Hw _ IH]; [split; reflexivity|].
  destruct IH as [IH1 IH2]. cbn [count_below room length]. rewrite Nat2Z.inj_succ.
  destruct (Z.leb_spec maxp (vpow w)); [lia|]. split; lia.
Qed.

Lemma desc_inv (v : val) t :
  desc vpow (v :: t) -> desc vpow t /\ Forall (fun w => vpow w <= vpow v) t.
Proof. intros Hs. apply StronglySorted_inv in Hs. exact Hs. Qed.

(* ------------------------------------------------------------------ *)
(* 4. Unconditional facts about the loop                                *)
(* ------------------------------------------------------------------ *)

Lemma cap_loop_ids maxp l :
  forall rem rv ppv, map vid (cap_loop maxp l rem rv ppv) = map vid l.
Proof.
  induction l as [|v t IH]; intros rem rv ppv; [reflexivity|].
  rewrite cap_loop_cons.
  destruct (maxp <=? vpow v); [|destruct (maxp <=? vpow v + ppv)];
    cbn [map]; rewrite IH, vid_pair; reflexivity.
Qed.

Lemma cap_loop_length maxp l :
  forall rem rv ppv, length (cap_loop maxp l rem rv ppv) = length l.
Proof.
  intros rem rv ppv. rewrite <- (map_length vid), cap_loop_ids, map_length. reflexivity.
Qed.

Lemma cap_loop_le_maxp maxp l :
  forall rem rv ppv, Forall (fun o => vpow o <= maxp) (cap_loop maxp l rem rv ppv).
Proof.
  induction l as [|v t IH]; intros rem rv ppv; [constructor|].
  rewrite cap_loop_cons.
  destruct (Z.leb_spec maxp (vpow v)); [|destruct (Z.leb_spec maxp (vpow v + ppv))];
    (constructor; [rewrite vpow_pair; lia|apply IH]).
Qed.

Lemma cap_loop_all_ge maxp l :
  Forall (fun v => maxp <= vpow v) l ->
  forall rem rv ppv, Forall (fun o => vpow o = maxp) (cap_loop maxp l rem rv ppv).
Proof.
  induction 1 as [|v t Hv _ IH]; intros rem rv ppv; [constructor|].
  rewrite cap_loop_cons.
  destruct (Z.leb_spec maxp (vpow v)); [|lia].
  constructor; [reflexivity|apply IH].
Qed.

(* ------------------------------------------------------------------ *)
(* 5. Positivity                                                        *)
(* ------------------------------------------------------------------ *)

Lemma cap_loop_positive maxp l :
  1 <= maxp -> Forall (fun v => 1 <= vpow v) l ->
  forall rem rv ppv, inv maxp l rem rv ppv ->
  Forall (fun o => 1 <= vpow o) (cap_loop maxp l rem rv ppv).
Proof.
  intros Hmax Hall. induction Hall as [|v t Hv _ IH]; intros rem rv ppv Hinv; [constructor|].
  rewrite cap_loop_cons.
  destruct (Z.leb_spec maxp (vpow v)) as [Hge|Hlt].
  - destruct (inv_ge _ _ _ _ _ _ Hge Hinv) as [Hrv Hrem].
    constructor; [rewrite vpow_pair; lia|]. apply IH, inv_next; assumption.
  - destruct (inv_below _ _ _ _ _ _ Hlt Hinv) as (Hrv & Hpos & Hrem & Hlo & Hhi & Hp0 & Hple).
    destruct (Z.leb_spec maxp (vpow v + ppv)) as [Hcap|Hno].
    + constructor; [rewrite vpow_pair; lia|]. apply IH, inv_next; [assumption|lia].
    + constructor; [rewrite vpow_pair; lia|]. apply IH, inv_next; [assumption|lia].
Qed.

(* ------------------------------------------------------------------ *)
(* 6. Exact sum when the remaining power fits into the head-room        *)
(* ------------------------------------------------------------------ *)

Lemma nocap_room_step k g R rem ppv :
  0 <= k -> 0 < g -> k * g <= R -> 0 <= rem -> rem <= g + R ->
  (1 + k) * ppv <= rem -> rem < (1 + k) * (ppv + 1) -> 0 <= ppv -> ppv < g ->
  rem - ppv <= R.
Proof.
  intros Hk Hg HR Hrem Hle Hlo Hhi Hp0 Hpg.
  destruct (Z_le_gt_dec rem R) as [Hfit|Hover]; [lia|].
  assert (He : k * (rem - R) <= k * g) by (apply Z.mul_le_mono_nonneg_l; lia).
  destruct (Z_le_gt_dec (rem - R) ppv) as [Hok|Hbad]; [lia|].
  assert (Hm : (1 + k) * (ppv + 1) <= (1 + k) * (rem - R)) by (apply Z.mul_le_mono_nonneg_l; lia).
  lia.
Qed.

Lemma cap_loop_sum maxp l :
  desc vpow l ->
  forall rem rv ppv, inv maxp l rem rv ppv -> rem <= room maxp l ->
  sum_pow (cap_loop maxp l rem rv ppv) = sum_pow l - excess maxp l + rem.
Proof.
  induction l as [|v t IH]; intros Hdesc rem rv ppv Hinv Hroom.
  - destruct Hinv as (_ & Hrem & _). cbn [room] in Hroom. cbn. lia.
  - destruct (desc_inv _ _ Hdesc) as [Hdt Hall].
    rewrite cap_loop_cons. cbn [room] in Hroom.
    rewrite (sum_pow_cons v t). cbn [excess].
    destruct (Z.leb_spec maxp (vpow v)) as [Hge|Hlt].
    + destruct (inv_ge _ _ _ _ _ _ Hge Hinv) as [Hrv Hrem].
      rewrite sum_pow_cons, vpow_pair.
      rewrite IH; [lia|assumption|apply inv_next; assumption|lia].
    + destruct (inv_below _ _ _ _ _ _ Hlt Hinv) as (Hrv & Hpos & Hrem & Hlo & Hhi & Hp0 & Hple).
      destruct (below_tail maxp (vpow v) t Hall Hlt) as [Hcnt Hgap].
      destruct (Z.leb_spec maxp (vpow v + ppv)) as [Hcap|Hno].
      * rewrite sum_pow_cons, vpow_pair.
        rewrite IH; [lia|assumption|apply inv_next; [assumption|lia]|lia].
      * rewrite sum_pow_cons, vpow_pair.
        rewrite IH; [lia|assumption|apply inv_next; [assumption|lia]|].
        apply (nocap_room_step (Z.of_nat (length t)) (maxp - vpow v)); try lia;
          replace (1 + Z.of_nat (length t)) with rv by lia; assumption.
Qed.

(* ------------------------------------------------------------------ *)
(* 7. Infeasible cap: remaining power exceeds the head-room             *)
(* ------------------------------------------------------------------ *)

Lemma infeasible_step k g R rem ppv :
  0 <= k -> 0 < g -> k * g <= R -> g + R < rem ->
  rem < (1 + k) * (ppv + 1) -> g <= ppv.
Proof.
  intros Hk Hg HR Hrem Hhi.
  destruct (Z_le_gt_dec g ppv) as [Hok|Hbad]; [assumption|].
  assert (Hm : (1 + k) * (ppv + 1) <= (1 + k) * g) by (apply Z.mul_le_mono_nonneg_l; lia).
  lia.
Qed.

Lemma cap_loop_infeasible maxp l :
  desc vpow l ->
  forall rem rv ppv, inv maxp l rem rv ppv -> room maxp l < rem ->
  Forall (fun o => vpow o = maxp) (cap_loop maxp l rem rv ppv).
Proof.
  induction l as [|v t IH]; intros Hdesc rem rv ppv Hinv Hroom; [constructor|].
  destruct (desc_inv _ _ Hdesc) as [Hdt Hall].
  rewrite cap_loop_cons. cbn [room] in Hroom.
  destruct (Z.leb_spec maxp (vpow v)) as [Hge|Hlt].
  - destruct (inv_ge _ _ _ _ _ _ Hge Hinv) as [Hrv Hrem].
    constructor; [reflexivity|]. apply IH; [assumption|apply inv_next; assumption|lia].
  - destruct (inv_below _ _ _ _ _ _ Hlt Hinv) as (Hrv & Hpos & Hrem & Hlo & Hhi & Hp0 & Hple).
    destruct (below_tail maxp (vpow v) t Hall Hlt) as [Hcnt Hgap].
    assert (Hcapped : maxp - vpow v <= ppv).
    { apply (infeasible_step (Z.of_nat (length t)) (maxp - vpow v) (room maxp t) rem); try lia;
        replace (1 + Z.of_nat (length t)) with rv by lia; assumption. }
    destruct (Z.leb_spec maxp (vpow v + ppv)) as [Hcap|Hno]; [|lia].
    constructor; [reflexivity|]. apply IH; [assumption|apply inv_next; [assumption|lia]|lia].
Qed.

(* ------------------------------------------------------------------ *)
(* 8. Order: later (smaller) validators never overtake earlier ones     *)
(* ------------------------------------------------------------------ *)

Lemma incr_cap_step k q rem ppv c :
  0 <= k -> 1 <= q -> 0 <= rem -> rem <= q * (1 + k) ->
  (1 + k) * ppv <= rem -> q <= c -> c <= ppv ->
  ppv <= q /\ rem - c <= q * k.
Proof.
  intros Hk Hq Hrem Hle Hlo Hqc Hcp.
  assert (Hpq : ppv <= q).
  { destruct (Z_le_gt_dec ppv q) as [Hok|Hbad]; [assumption|].
    assert (Hm : (1 + k) * (q + 1) <= (1 + k) * ppv) by (apply Z.mul_le_mono_nonneg_l; lia).
    lia. }
  split; lia.
Qed.

Lemma incr_nocap_step k q rem ppv :
  0 <= k -> 1 <= q -> 0 <= rem -> rem <= q * (1 + k) ->
  (1 + k) * ppv <= rem -> rem < (1 + k) * (ppv + 1) -> 0 <= ppv ->
  ppv <= q /\ rem - ppv <= q * k.
Proof.
  intros Hk Hq Hrem Hle Hlo Hhi Hp0.
  assert (Hpq : ppv <= q).
  { destruct (Z_le_gt_dec ppv q) as [Hok|Hbad]; [assumption|].
    assert (Hm : (1 + k) * (q + 1) <= (1 + k) * ppv) by (apply Z.mul_le_mono_nonneg_l; lia).
    lia. }
  split; [assumption|].
  destruct (Z.eq_dec ppv q) as [->|Hne]; [lia|].
  assert (Hm : (ppv + 1) * k <= q * k) by (apply Z.mul_le_mono_nonneg_r; lia).
  lia.
Qed.

(* If at most q per remaining validator is left to distribute, and every remaining validator is
   at least q below the cap, nobody gains more than q. *)
Lemma cap_loop_incr_bound maxp q V :
  1 <= q -> V + q <= maxp ->
  forall t rem rv ppv,
    Forall (fun w => vpow w <= V) t -> inv maxp t rem rv ppv -> rem <= q * rv ->
    Forall (fun x => vpow (snd x) <= vpow (fst x) + q) (combine t (cap_loop maxp t rem rv ppv)).
Proof.
  intros Hq HV. induction t as [|w t IH]; intros rem rv ppv Hall Hinv Hle; [constructor|].
  apply Forall_cons_iff in Hall. destruct Hall as [Hw Hall].
  assert (Hlt : vpow w < maxp) by lia.
  assert (HVlt : V < maxp) by lia.
  destruct (inv_below _ _ _ _ _ _ Hlt Hinv) as (Hrv & Hpos & Hrem & Hlo & Hhi & Hp0 & Hple).
  destruct (below_tail maxp V t Hall HVlt) as [Hcnt _].
  assert (Hrvk : rv = 1 + Z.of_nat (length t)) by lia.
  rewrite cap_loop_cons.
  destruct (Z.leb_spec maxp (vpow w)) as [Hge|_]; [lia|].
  destruct (Z.leb_spec maxp (vpow w + ppv)) as [Hcap|Hno]; cbn [combine].
  - destruct (incr_cap_step (Z.of_nat (length t)) q rem ppv (maxp - vpow w)) as [Hpq Hrem'];
      try lia; try (rewrite <- Hrvk; assumption).
    constructor; [cbn [fst snd]; rewrite vpow_pair; lia|].
    apply IH; [assumption|apply inv_next; [assumption|lia]|].
    replace (rv - 1) with (Z.of_nat (length t)) by lia. assumption.
  - destruct (incr_nocap_step (Z.of_nat (length t)) q rem ppv) as [Hpq Hrem'];
      try lia; try (rewrite <- Hrvk; assumption).
    constructor; [cbn [fst snd]; rewrite vpow_pair; lia|].
    apply IH; [assumption|apply inv_next; [assumption|lia]|].
    replace (rv - 1) with (Z.of_nat (length t)) by lia. assumption.
Qed.

Lemma after_nocap_bound k rem ppv :
  0 <= k -> rem < (1 + k) * (ppv + 1) -> rem - ppv <= (ppv + 1) * k.
Proof. intros Hk Hhi. lia. Qed.

Definition ord_rel (x y : val * val) : Prop :=
  vpow (fst y) < vpow (fst x) -> vpow (snd y) <= vpow (snd x).

Lemma cap_loop_order maxp l :
  desc vpow l ->
  forall rem rv ppv, inv maxp l rem rv ppv ->
  ForallOrdPairs ord_rel (combine l (cap_loop maxp l rem rv ppv)).
Proof.
  induction l as [|v t IH]; intros Hdesc rem rv ppv Hinv; [constructor|].
  destruct (desc_inv _ _ Hdesc) as [Hdt Hall].
  rewrite cap_loop_cons.
  destruct (Z.leb_spec maxp (vpow v)) as [Hge|Hlt].
  - destruct (inv_ge _ _ _ _ _ _ Hge Hinv) as [Hrv Hrem].
    cbn [combine]. constructor; [|apply IH; [assumption|apply inv_next; assumption]].
    eapply Forall_impl; [|apply Forall_combine_r, cap_loop_le_maxp].
    intros [b ob] Hob _. cbn [fst snd] in *. rewrite vpow_pair. exact Hob.
  - destruct (inv_below _ _ _ _ _ _ Hlt Hinv) as (Hrv & Hpos & Hrem & Hlo & Hhi & Hp0 & Hple).
    destruct (below_tail maxp (vpow v) t Hall Hlt) as [Hcnt _].
    assert (Hrvk : rv = 1 + Z.of_nat (length t)) by lia.
    destruct (Z.leb_spec maxp (vpow v + ppv)) as [Hcap|Hno]; cbn [combine].
    + constructor; [|apply IH; [assumption|apply inv_next; [assumption|lia]]].
      eapply Forall_impl; [|apply Forall_combine_r, cap_loop_le_maxp].
      intros [b ob] Hob _. cbn [fst snd] in *. rewrite vpow_pair. exact Hob.
    + assert (Hinv' : inv maxp t (rem - ppv) (rv - 1)
                          (if rv - 1 =? 0 then ppv else Z.quot (rem - ppv) (rv - 1)))
        by (apply inv_next; [assumption|lia]).
      constructor; [|apply IH; assumption].
      eapply Forall_impl;
        [|apply (cap_loop_incr_bound maxp (ppv + 1) (vpow v)); [lia|lia|exact Hall|exact Hinv'|]].
      * intros [b ob] Hob Hb. cbn [fst snd] in *. rewrite vpow_pair. lia.
      * replace (rv - 1) with (Z.of_nat (length t)) by lia.
        apply after_nocap_bound; [lia|]. rewrite <- Hrvk. assumption.
Qed.

(* ------------------------------------------------------------------ *)
(* 9. Property statements for no_more_than_percent                      *)
(* ------------------------------------------------------------------ *)

Lemma nmp_unfold vals percent :
  no_more_than_percent vals percent =
  let maxp := max_power (sum_pow vals) percent in
  let sorted := sort_desc vpow vals in
  cap_loop maxp sorted (excess maxp sorted) (count_below maxp sorted)
    (if count_below maxp sorted =? 0 then 0
     else Z.quot (excess maxp sorted) (count_below maxp sorted)).
Proof. reflexivity. Qed.

Lemma sorted_sum vals : sum_pow (sort_desc vpow vals) = sum_pow vals.
Proof. apply sum_pow_perm, sort_desc_perm. Qed.

Lemma achievable_spec vals percent :
  achievable vals percent = true <->
  (1 <= raw_max_power (sum_pow vals) percent /\
   sum_pow vals <= Z.of_nat (length vals) * raw_max_power (sum_pow vals) percent).
Proof.
  unfold achievable. cbv zeta. rewrite andb_true_iff, Z.leb_le, Z.leb_le. reflexivity.
Qed.

Theorem pc_members vals percent :
  map vid (no_more_than_percent vals percent) = map vid (sort_desc vpow vals).
Proof. rewrite nmp_unfold. cbv zeta. apply cap_loop_ids. Qed.

Theorem pc_members_perm vals percent :
  Permutation (map vid (no_more_than_percent vals percent)) (map vid vals).
Proof. rewrite pc_members. apply Permutation_map, sort_desc_perm. Qed.

Theorem pc_length vals percent :
  length (no_more_than_percent vals percent) = length vals.
Proof. rewrite nmp_unfold. cbv zeta. rewrite cap_loop_length. apply sort_desc_length. Qed.

Theorem pc_bound vals percent :
  1 <= raw_max_power (sum_pow vals) percent /\
  sum_pow vals <= Z.of_nat (length vals) * raw_max_power (sum_pow vals) percent ->
  Forall (fun o => vpow o <= raw_max_power (sum_pow vals) percent) (no_more_than_percent vals percent).
Proof.
  intros [HM _]. rewrite nmp_unfold. cbv zeta.
  rewrite (max_power_of_raw _ _ HM). apply cap_loop_le_maxp.
Qed.

Theorem pc_sum vals percent :
  1 <= raw_max_power (sum_pow vals) percent /\
  sum_pow vals <= Z.of_nat (length vals) * raw_max_power (sum_pow vals) percent ->
  sum_pow (no_more_than_percent vals percent) = sum_pow vals.
Proof.
  intros [HM Hs]. rewrite nmp_unfold. cbv zeta.
  rewrite (max_power_of_raw _ _ HM).
  set (maxp := raw_max_power (sum_pow vals) percent) in *.
  set (sorted := sort_desc vpow vals).
  pose proof (sum_len_excess_room maxp sorted) as Hid.
  unfold sorted in Hid at 1 2. rewrite sorted_sum, sort_desc_length in Hid. fold sorted in Hid.
  rewrite cap_loop_sum.
  - unfold sorted at 1. rewrite sorted_sum. lia.
  - apply sort_desc_sorted.
  - apply inv_init.
  - lia.
Qed.

Theorem pc_positive vals percent :
  Forall (fun v => 1 <= vpow v) vals -> 1 <= percent ->
  Forall (fun o => 1 <= vpow o) (no_more_than_percent vals percent).
Proof.
  intros Hpos Hp. rewrite nmp_unfold. cbv zeta.
  pose proof (sum_pow_ge_len vals Hpos) as Hs.
  assert (Hs0 : 0 <= sum_pow vals) by lia.
  pose proof (raw_max_power_nonneg (sum_pow vals) percent Hs0 ltac:(lia)) as HM.
  apply cap_loop_positive.
  - unfold max_power. destruct (Z.eqb_spec (raw_max_power (sum_pow vals) percent) 0); lia.
  - eapply Permutation_Forall; [symmetry; apply sort_desc_perm|exact Hpos].
  - apply inv_init.
Qed.

Theorem pc_order vals percent :
  ForallOrdPairs
    (fun x y : val * val => vpow (fst y) < vpow (fst x) -> vpow (snd y) <= vpow (snd x))
    (combine (sort_desc vpow vals) (no_more_than_percent vals percent)).
Proof.
  rewrite nmp_unfold. cbv zeta.
  apply cap_loop_order; [apply sort_desc_sorted|apply inv_init].
Qed.

(* the same, by position and without an assumption on which position comes first *)
Theorem pc_order_nth vals percent (i j : nat) (d : val) :
  (i < length vals)%nat -> (j < length vals)%nat ->
  vpow (nth j (sort_desc vpow vals) d) < vpow (nth i (sort_desc vpow vals) d) ->
  vpow (nth j (no_more_than_percent vals percent) d) <= vpow (nth i (no_more_than_percent vals percent) d).
Proof.
  intros Hi Hj Hlt.
  pose proof (sort_desc_length vpow vals) as Hlen.
  pose proof (pc_length vals percent) as Hlen'.
  assert (Hij : (i < j)%nat).
  { destruct (Nat.lt_trichotomy i j) as [H|[H|H]]; [assumption|subst; lia|].
    pose proof (FOP_nth _ _ d (SSorted_FOP _ _ (sort_desc_sorted vpow vals)) j i H ltac:(lia)) as Hs.
    cbv beta in Hs. lia. }
  pose proof (FOP_nth _ _ (d, d) (pc_order vals percent) i j Hij) as Ho.
  rewrite combine_length, Hlen, Hlen', Nat.min_id in Ho. specialize (Ho Hj).
  rewrite !combine_nth in Ho by lia. cbn [fst snd] in Ho. apply Ho. exact Hlt.
Qed.

Theorem pc_infeasible vals percent :
  Forall (fun v => 1 <= vpow v) vals -> 1 <= percent ->
  ~ (1 <= raw_max_power (sum_pow vals) percent /\
     sum_pow vals <= Z.of_nat (length vals) * raw_max_power (sum_pow vals) percent) ->
  Forall (fun o => vpow o = Z.max (raw_max_power (sum_pow vals) percent) 1)
         (no_more_than_percent vals percent).
Proof.
  intros Hpos Hp Hna. rewrite nmp_unfold. cbv zeta.
  pose proof (sum_pow_ge_len vals Hpos) as Hs.
  assert (Hs0 : 0 <= sum_pow vals) by lia.
  pose proof (raw_max_power_nonneg (sum_pow vals) percent Hs0 ltac:(lia)) as HM.
  destruct (Z_le_gt_dec 1 (raw_max_power (sum_pow vals) percent)) as [HM1|HM0].
  - rewrite (max_power_of_raw _ _ HM1).
    set (maxp := raw_max_power (sum_pow vals) percent) in *.
    set (sorted := sort_desc vpow vals).
    pose proof (sum_len_excess_room maxp sorted) as Hid.
    unfold sorted in Hid at 1 2. rewrite sorted_sum, sort_desc_length in Hid. fold sorted in Hid.
    replace (Z.max maxp 1) with maxp by lia.
    apply cap_loop_infeasible; [apply sort_desc_sorted|apply inv_init|lia].
  - assert (HMz : raw_max_power (sum_pow vals) percent = 0) by lia.
    rewrite (max_power_of_zero _ _ HMz), HMz.
    change (Z.max 0 1) with 1.
    apply cap_loop_all_ge.
    eapply Permutation_Forall; [symmetry; apply sort_desc_perm|exact Hpos].
Qed.

(* ------------------------------------------------------------------ *)
(* 10. CapValidatorSet and PartitionBasedOnPriorityList                 *)
(* ------------------------------------------------------------------ *)

Theorem cap_len top_n set_cap l :
  top_n = 0 -> set_cap <> 0 -> 0 <= set_cap ->
  Z.of_nat (length (cap_validator_set top_n set_cap l)) <= set_cap.
Proof.
  intros -> Hne Hnn. unfold cap_validator_set.
  change (0 <? 0) with false. cbv iota.
  destruct (Z.eqb_spec set_cap 0) as [|_]; [contradiction|]. cbn [negb andb].
  destruct (Z.ltb_spec set_cap (Z.of_nat (length l))) as [Hlt|Hge].
  - rewrite firstn_length. lia.
  - assumption.
Qed.

Theorem cap_prefix top_n set_cap l :
  (exists k, cap_validator_set top_n set_cap l = firstn k l) /\
  (0 < top_n \/ set_cap = 0 -> cap_validator_set top_n set_cap l = l).
Proof.
  unfold cap_validator_set. split.
  - destruct (0 <? top_n); [exists (length l); symmetry; apply firstn_all|].
    destruct (negb (set_cap =? 0) && (set_cap <? Z.of_nat (length l))).
    + exists (Z.to_nat set_cap). reflexivity.
    + exists (length l). symmetry. apply firstn_all.
  - intros [Htop|Hcap].
    + destruct (Z.ltb_spec 0 top_n); [reflexivity|lia].
    + subst set_cap. destruct (0 <? top_n); reflexivity.
Qed.

Lemma in_sort_filter (f : val -> bool) l x :
  In x (sort_desc vpow (filter f l)) -> f x = true /\ In x l.
Proof.
  intros Hin. apply (Permutation_in _ (sort_desc_perm vpow (filter f l))) in Hin.
  apply filter_In in Hin. tauto.
Qed.

Theorem ranked_sorted prio eligible :
  StronglySorted (fun a b => outranks prio b a = false)
    (fst (partition_priority prio eligible) ++ snd (partition_priority prio eligible)).
Proof.
  unfold partition_priority. cbn [fst snd].
  apply SSorted_app.
  - eapply SSorted_impl_in; [|apply sort_desc_sorted].
    intros a b Ha Hb Hle. cbv beta in Hle.
    apply in_sort_filter in Ha. apply in_sort_filter in Hb.
    destruct Ha as [Ha _]. destruct Hb as [Hb _].
    unfold outranks. rewrite Ha, Hb. cbn [negb andb orb Bool.eqb].
    apply Z.ltb_ge. exact Hle.
  - eapply SSorted_impl_in; [|apply sort_desc_sorted].
    intros a b Ha Hb Hle. cbv beta in Hle.
    apply in_sort_filter in Ha. apply in_sort_filter in Hb.
    destruct Ha as [Ha _]. destruct Hb as [Hb _].
    apply negb_true_iff in Ha. apply negb_true_iff in Hb.
    unfold outranks. rewrite Ha, Hb. cbn [negb andb orb Bool.eqb].
    apply Z.ltb_ge. exact Hle.
  - intros x y Hx Hy.
    apply in_sort_filter in Hx. apply in_sort_filter in Hy.
    destruct Hx as [Hx _]. destruct Hy as [Hy _]. apply negb_true_iff in Hy.
    unfold outranks. rewrite Hx, Hy. reflexivity.
Qed.

Theorem ranked_perm prio eligible :
  Permutation (fst (partition_priority prio eligible) ++ snd (partition_priority prio eligible))
              eligible.
Proof.
  unfold partition_priority. cbn [fst snd].
  rewrite !sort_desc_perm. apply filter_split_perm.
Qed.

Theorem cap_rank prio k eligible :
  let ranked := fst (partition_priority prio eligible) ++ snd (partition_priority prio eligible) in
  let capped := cap_validator_set 0 k ranked in
  Permutation ranked eligible /\
  ranked = capped ++ skipn (length capped) ranked /\
  forall x y, In x capped -> In y (skipn (length capped) ranked) -> outranks prio y x = false.
Proof.
  intros ranked capped.
  split; [apply ranked_perm|].
  destruct (cap_prefix 0 k ranked) as [[j Hj] _]. fold capped in Hj.
  assert (Hsplit : ranked = capped ++ skipn j ranked)
    by (rewrite Hj; symmetry; apply firstn_skipn).
  rewrite (prefix_skipn _ _ _ Hsplit).
  split; [exact Hsplit|].
  intros x y Hx Hy.
  pose proof (ranked_sorted prio eligible) as Hs. fold ranked in Hs.
  rewrite Hsplit in Hs.
  exact (SSorted_app_cross _ _ _ Hs x y Hx Hy).
Qed.

Theorem shape_compose prio top_n set_cap power_cap eligible :
  shape prio top_n set_cap power_cap eligible =
  cap_validators_power power_cap
    (cap_validator_set top_n set_cap
       (fst (partition_priority prio eligible) ++ snd (partition_priority prio eligible))).
Proof. reflexivity. Qed.
