(* Lemmas about Model/ProviderConsensus.v (property C15). *)
From Coq Require Import ZArith List Bool Lia Permutation Sorted.
From ICS Require Import Base.Dec Base.SortDesc Base.Tree Model.ProviderConsensus.
Import ListNotations.
Open Scope Z_scope.

(* ------------------------------------------------------------------ vocabulary *)

(* what the staking module guarantees about its bonded-by-power list *)
Definition wf_oracle (oracle : list sval) : Prop :=
  NoDup (map s_addr oracle) /\ NoDup (map s_key oracle) /\ Forall (fun v => 0 < s_pow v) oracle.

(* a history: InitGenesis, then any number of blocks (each with its own oracle list and its own M) and view queries *)
Definition wf_op (o : op) : Prop :=
  match o with
  | Genesis _ _ => False
  | Block oracle _ => wf_oracle oracle
  | Views _ _ _ => True
  end.
Definition history (g : list sval) (M0 : Z) (rest : list op) : list op := Genesis g M0 :: rest.
Definition run_sys (ops : list op) : sys := fold_left sys_step ops init.

Definition addr_sorted (s : state) : Prop := StronglySorted (fun a b => p_addr a < p_addr b) s.
Definition sum_tok (l : list sval) : Z := fold_right (fun v a => s_tok v + a) 0 l.
(* the first min(M, number bonded) validators of the oracle list *)
Definition first_m (oracle : list sval) (M : Z) : list sval :=
  firstn (Z.to_nat (Z.min M (Z.of_nat (length oracle)))) oracle.

(* ------------------------------------------------------------------ lists *)

Lemma firstn_In {A} n (l : list A) x : In x (firstn n l) -> In x l.
Proof. intros H. rewrite <- (firstn_skipn n l). apply in_or_app. now left. Qed.

Lemma NoDup_firstn {A} n (l : list A) : NoDup l -> NoDup (firstn n l).
Proof.
  revert n. induction l as [|a t IH]; intros [|n] Hnd; simpl; try constructor.
  - inversion Hnd; subst. intros Hin. apply firstn_In in Hin. contradiction.
  - inversion Hnd; subst. now apply IH.
Qed.

Lemma firstn_min {A} (n : nat) (l : list A) : firstn n l = firstn (Nat.min n (length l)) l.
Proof.
  destruct (Nat.le_gt_cases n (length l)) as [H|H].
  - now rewrite Nat.min_l.
  - rewrite Nat.min_r by lia. rewrite firstn_all. apply firstn_all2. lia.
Qed.

Lemma top_m_first_m oracle M : top_m oracle M = map create_pcv (first_m oracle M).
Proof.
  unfold top_m, first_m. cbv zeta. f_equal. f_equal. f_equal.
  destruct (Z.ltb_spec (Z.of_nat (length oracle)) M); lia.
Qed.

Lemma genesis_set_top_m oracle M : genesis_set oracle M = top_m oracle M.
Proof.
  rewrite top_m_first_m. unfold genesis_set, first_m. f_equal.
  destruct (Z.ltb_spec M (Z.of_nat (length oracle))) as [Hlt|Hge].
  - now rewrite Z.min_l by lia.
  - rewrite Z.min_r by lia. rewrite Nat2Z.id. symmetry. apply firstn_all.
Qed.

Lemma top_m_addrs oracle M : map p_addr (top_m oracle M) = map s_addr (first_m oracle M).
Proof. rewrite top_m_first_m, map_map. reflexivity. Qed.
Lemma top_m_keys oracle M : map p_key (top_m oracle M) = map s_key (first_m oracle M).
Proof. rewrite top_m_first_m, map_map. reflexivity. Qed.

Lemma top_m_nodup_addr oracle M : NoDup (map s_addr oracle) -> NoDup (map p_addr (top_m oracle M)).
Proof. intros H. rewrite top_m_addrs. unfold first_m. rewrite <- firstn_map. now apply NoDup_firstn. Qed.
Lemma top_m_nodup_key oracle M : NoDup (map s_key oracle) -> NoDup (map p_key (top_m oracle M)).
Proof. intros H. rewrite top_m_keys. unfold first_m. rewrite <- firstn_map. now apply NoDup_firstn. Qed.
Lemma top_m_pos oracle M : Forall (fun v => 0 < s_pow v) oracle -> Forall (fun v => 0 < p_pow v) (top_m oracle M).
Proof.
  intros H. rewrite top_m_first_m. apply Forall_forall. intros x Hx.
  apply in_map_iff in Hx. destruct Hx as [v [<- Hv]]. apply firstn_In in Hv.
  rewrite Forall_forall in H. now apply H.
Qed.

Lemma top_m_length oracle M : 0 <= M -> Z.of_nat (length (top_m oracle M)) <= M.
Proof. intros HM. rewrite top_m_first_m, map_length. unfold first_m. rewrite firstn_length. lia. Qed.

(* ------------------------------------------------------------------ the store *)

Lemma store_put_in v l x : In x (store_put v l) -> x = v \/ In x l.
Proof.
  induction l as [|a t IH]; simpl; [intuition|].
  destruct (p_addr v <? p_addr a); [simpl; intuition|].
  destruct (p_addr v =? p_addr a); simpl; intuition.
Qed.

Lemma store_put_perm v l :
  ~ In (p_addr v) (map p_addr l) -> Permutation (store_put v l) (v :: l).
Proof.
  induction l as [|a t IH]; simpl; intros Hn; [reflexivity|].
  destruct (p_addr v <? p_addr a); [reflexivity|].
  destruct (Z.eqb_spec (p_addr v) (p_addr a)) as [He|Hne]; [exfalso; apply Hn; now left|].
  rewrite IH by tauto. apply perm_swap.
Qed.

Lemma store_put_sorted v l : addr_sorted l -> addr_sorted (store_put v l).
Proof.
  unfold addr_sorted. induction l as [|a t IH]; simpl; intros Hs; [repeat constructor|].
  inversion Hs as [|? ? Hst Hall]; subst.
  destruct (Z.ltb_spec (p_addr v) (p_addr a)) as [Hlt|Hge].
  - constructor; [assumption|]. constructor; [assumption|].
    rewrite Forall_forall in *. intros x Hx. specialize (Hall x Hx). lia.
  - destruct (Z.eqb_spec (p_addr v) (p_addr a)) as [He|Hne].
    + constructor; [assumption|]. rewrite Forall_forall in *. intros x Hx. specialize (Hall x Hx). lia.
    + constructor; [now apply IH|]. rewrite Forall_forall in *. intros x Hx.
      apply store_put_in in Hx. destruct Hx as [->|Hx]; [lia|now apply Hall].
Qed.

Lemma store_fold_perm : forall next acc,
  NoDup (map p_addr (acc ++ next)) ->
  Permutation (fold_left (fun st v => store_put v st) next acc) (acc ++ next).
Proof.
  induction next as [|a t IH]; intros acc Hnd; simpl; [now rewrite app_nil_r|].
  assert (Hna : ~ In (p_addr a) (map p_addr acc)).
  { rewrite map_app in Hnd. simpl in Hnd. apply NoDup_remove_2 in Hnd. intros H. apply Hnd. apply in_or_app. now left. }
  assert (HP : Permutation (store_put a acc ++ t) (acc ++ a :: t)).
  { rewrite (store_put_perm a acc Hna). simpl. apply Permutation_middle. }
  rewrite IH.
  - exact HP.
  - eapply Permutation_NoDup; [|exact Hnd]. apply Permutation_map. symmetry. exact HP.
Qed.

Lemma store_fold_sorted : forall next acc,
  addr_sorted acc -> addr_sorted (fold_left (fun st v => store_put v st) next acc).
Proof. induction next as [|a t IH]; intros acc Hs; simpl; [assumption|]. apply IH. now apply store_put_sorted. Qed.

Lemma store_set_perm next : NoDup (map p_addr next) -> Permutation (store_set next) next.
Proof. intros H. unfold store_set. now rewrite store_fold_perm. Qed.

Lemma store_set_sorted next : addr_sorted (store_set next).
Proof. apply store_fold_sorted. constructor. Qed.

(* ------------------------------------------------------------------ look-ups by key *)

Lemma find_key_in (l : list pval) v :
  NoDup (map p_key l) -> In v l -> find (fun x => p_key x =? p_key v) l = Some v.
Proof.
  induction l as [|a t IH]; simpl; intros Hnd Hin; [contradiction|].
  inversion Hnd as [|? ? Hna Hnt]; subst.
  destruct Hin as [->|Hin]; [now rewrite Z.eqb_refl|].
  destruct (Z.eqb_spec (p_key a) (p_key v)) as [He|Hne]; [|now apply IH].
  exfalso. apply Hna. rewrite He. now apply in_map.
Qed.

Lemma find_key_none (l : list pval) k :
  ~ In k (map p_key l) -> find (fun x => p_key x =? k) l = None.
Proof.
  intros Hn. destruct (find _ l) as [v|] eqn:Hf; [|reflexivity].
  apply find_some in Hf. destruct Hf as [Hv He]. apply Z.eqb_eq in He.
  exfalso. apply Hn. rewrite <- He. now apply in_map.
Qed.

Lemma by_key_in l v : NoDup (map p_key l) -> In v l -> by_key l (p_key v) = Some v.
Proof.
  intros Hnd Hin. unfold by_key. apply find_key_in.
  - rewrite map_rev. now apply NoDup_rev.
  - now apply in_rev in Hin.
Qed.

Lemma by_key_none l k : ~ In k (map p_key l) -> by_key l k = None.
Proof. intros Hn. unfold by_key. apply find_key_none. rewrite map_rev. now rewrite <- in_rev. Qed.

Lemma by_key_some l k v : by_key l k = Some v -> In v l /\ p_key v = k.
Proof.
  unfold by_key. intros H. apply find_some in H. destruct H as [Hin He].
  apply Z.eqb_eq in He. split; [now apply in_rev|assumption].
Qed.

Lemma rec_lookup_in s v : NoDup (map p_key s) -> In v s -> rec_lookup s (p_key v) = Some (p_pow v).
Proof. intros Hnd Hin. unfold rec_lookup. now rewrite find_key_in. Qed.

Lemma rec_lookup_none s k : ~ In k (map p_key s) -> rec_lookup s k = None.
Proof. intros Hn. unfold rec_lookup. now rewrite find_key_none. Qed.

Lemma rec_lookup_perm s s' k :
  NoDup (map p_key s) -> Permutation s s' -> rec_lookup s k = rec_lookup s' k.
Proof.
  intros Hnd HP.
  assert (Hnd' : NoDup (map p_key s')) by (eapply Permutation_NoDup; [apply Permutation_map; exact HP|exact Hnd]).
  destruct (in_dec Z.eq_dec k (map p_key s)) as [Hin|Hn].
  - apply in_map_iff in Hin. destruct Hin as [v [<- Hv]].
    rewrite (rec_lookup_in s v Hnd Hv). symmetry. apply rec_lookup_in; [assumption|].
    now apply (Permutation_in _ HP).
  - rewrite (rec_lookup_none s k Hn). symmetry. apply rec_lookup_none.
    intros H. apply Hn. apply (Permutation_in _ (Permutation_sym (Permutation_map p_key HP))). exact H.
Qed.

(* ------------------------------------------------------------------ the engine *)

Lemma find_filter_ne (e : engine) k k' :
  k' <> k -> find (fun x => fst x =? k') (filter (fun x => negb (fst x =? k)) e) = find (fun x => fst x =? k') e.
Proof.
  intros Hne. induction e as [|a t IH]; simpl; [reflexivity|].
  destruct (Z.eqb_spec (fst a) k) as [He|Hn]; simpl.
  - destruct (Z.eqb_spec (fst a) k'); [lia|exact IH].
  - destruct (fst a =? k'); [reflexivity|exact IH].
Qed.

Lemma find_filter_eq (e : engine) k :
  find (fun x => fst x =? k) (filter (fun x => negb (fst x =? k)) e) = None.
Proof.
  induction e as [|a t IH]; simpl; [reflexivity|].
  destruct (Z.eqb_spec (fst a) k) as [He|Hn]; simpl; [exact IH|].
  destruct (Z.eqb_spec (fst a) k); [contradiction|exact IH].
Qed.

Lemma lookup_apply_update e u k :
  eng_lookup (apply_update e u) k =
  if k =? fst u then (if snd u =? 0 then None else Some (snd u)) else eng_lookup e k.
Proof.
  unfold apply_update, eng_lookup. destruct (Z.eqb_spec k (fst u)) as [->|Hne].
  - destruct (snd u =? 0); simpl; [now rewrite find_filter_eq|]. now rewrite Z.eqb_refl.
  - destruct (snd u =? 0); simpl.
    + now rewrite find_filter_ne.
    + destruct (Z.eqb_spec (fst u) k); [lia|]. now rewrite find_filter_ne.
Qed.

Lemma apply_updates_cons e u t : apply_updates e (u :: t) = apply_updates (apply_update e u) t.
Proof. reflexivity. Qed.

Lemma lookup_untouched us : forall e k,
  (forall u, In u us -> fst u <> k) -> eng_lookup (apply_updates e us) k = eng_lookup e k.
Proof.
  induction us as [|u t IH]; intros e k Hn; [reflexivity|].
  rewrite apply_updates_cons. rewrite IH by (intros u' Hu'; apply Hn; now right).
  rewrite lookup_apply_update. destruct (Z.eqb_spec k (fst u)) as [He|_]; [|reflexivity].
  exfalso. apply (Hn u); [now left|congruence].
Qed.

Lemma lookup_updated us : forall e k p,
  NoDup (map fst us) -> In (k, p) us ->
  eng_lookup (apply_updates e us) k = if p =? 0 then None else Some p.
Proof.
  induction us as [|u t IH]; intros e k p Hnd Hin; [contradiction|].
  inversion Hnd as [|? ? Hna Hnt]; subst.
  rewrite apply_updates_cons. destruct Hin as [->|Hin].
  - rewrite (lookup_untouched t).
    + rewrite lookup_apply_update. cbn [fst snd]. now rewrite Z.eqb_refl.
    + intros u' Hu' He. apply Hna. cbn [fst]. rewrite <- He. now apply in_map.
  - now apply IH.
Qed.

Lemma nodup_apply_update e u : NoDup (map fst e) -> NoDup (map fst (apply_update e u)).
Proof.
  intros Hnd. unfold apply_update.
  assert (Hf : NoDup (map fst (filter (fun x => negb (fst x =? fst u)) e))).
  { clear -Hnd. induction e as [|a t IH]; simpl; [constructor|].
    inversion Hnd as [|? ? Hna Hnt]; subst.
    destruct (negb (fst a =? fst u)); simpl; [constructor|]; auto.
    intros Hin. apply Hna. apply in_map_iff in Hin. destruct Hin as [y [He Hy]].
    apply filter_In in Hy. apply in_map_iff. exists y. tauto. }
  destruct (snd u =? 0); [assumption|]. simpl. constructor; [|assumption].
  intros Hin. apply in_map_iff in Hin. destruct Hin as [y [He Hy]]. apply filter_In in Hy.
  destruct Hy as [_ Hy]. apply negb_true_iff in Hy. apply Z.eqb_neq in Hy. contradiction.
Qed.

Lemma nodup_apply_updates us : forall e, NoDup (map fst e) -> NoDup (map fst (apply_updates e us)).
Proof.
  induction us as [|u t IH]; intros e H; [assumption|].
  rewrite apply_updates_cons. apply IH. now apply nodup_apply_update.
Qed.

(* ------------------------------------------------------------------ DiffValidators *)

Definition diff_cur (next : list pval) (cur : pval) : list update :=
  match by_key next (p_key cur) with
  | None => [(p_key cur, 0)]
  | Some nv => if negb (p_pow cur =? p_pow nv) then [(p_key nv, p_pow nv)] else []
  end.
Definition diff_new (current : list pval) (nv : pval) : list update :=
  match by_key current (p_key nv) with None => [(p_key nv, p_pow nv)] | Some _ => [] end.

Lemma diff_unfold current next :
  diff_validators current next = flat_map (diff_cur next) current ++ flat_map (diff_new current) next.
Proof. reflexivity. Qed.

Lemma diff_cur_key next cur u : In u (diff_cur next cur) -> fst u = p_key cur.
Proof.
  unfold diff_cur. destruct (by_key next (p_key cur)) as [nv|] eqn:Hb.
  - apply by_key_some in Hb. destruct Hb as [_ Hk].
    destruct (negb _); [|contradiction]. intros [<-|[]]. exact Hk.
  - intros [<-|[]]. reflexivity.
Qed.

Lemma diff_new_key current nv u : In u (diff_new current nv) -> fst u = p_key nv /\ ~ In (p_key nv) (map p_key current).
Proof.
  unfold diff_new. destruct (by_key current (p_key nv)) as [c|] eqn:Hb; [contradiction|].
  intros [<-|[]]. split; [reflexivity|].
  intros Hin. apply in_map_iff in Hin. destruct Hin as [c [Hk Hc]].
  unfold by_key in Hb. apply in_rev in Hc. pose proof (find_none _ _ Hb c Hc) as Hf.
  cbv beta in Hf. rewrite Hk, Z.eqb_refl in Hf. discriminate.
Qed.

Lemma flat_map_keys_nodup {A} (f : A -> list update) (key : A -> Z) (l : list A) :
  (forall a u, In u (f a) -> fst u = key a) -> (forall a, (length (f a) <= 1)%nat) ->
  NoDup (map key l) -> NoDup (map fst (flat_map f l)).
Proof.
  intros Hk Hl. induction l as [|a t IH]; simpl; intros Hnd; [constructor|].
  inversion Hnd as [|? ? Hna Hnt]; subst.
  rewrite map_app. specialize (Hl a). specialize (IH Hnt).
  destruct (f a) as [|u [|u' r]] eqn:Hf; simpl in *; [assumption| |lia].
  constructor; [|assumption].
  intros Hin. apply in_map_iff in Hin. destruct Hin as [w [He Hw]].
  apply in_flat_map in Hw. destruct Hw as [b [Hb Hwb]].
  apply Hna. apply Hk in Hwb. assert (fst u = key a) by (apply Hk; rewrite Hf; now left).
  replace (key a) with (key b) by congruence. now apply in_map.
Qed.

Lemma diff_cur_len next cur : (length (diff_cur next cur) <= 1)%nat.
Proof. unfold diff_cur. destruct (by_key _ _); [destruct (negb _)|]; simpl; lia. Qed.
Lemma diff_new_len current nv : (length (diff_new current nv) <= 1)%nat.
Proof. unfold diff_new. destruct (by_key _ _); simpl; lia. Qed.

Lemma NoDup_app_intro {A} (l1 l2 : list A) :
  NoDup l1 -> NoDup l2 -> (forall x, In x l1 -> ~ In x l2) -> NoDup (l1 ++ l2).
Proof.
  induction l1 as [|a t IH]; simpl; intros H1 H2 Hd; [assumption|].
  inversion H1 as [|? ? Hna Hnt]; subst. constructor.
  - intros Hin. apply in_app_or in Hin. destruct Hin as [Hin|Hin]; [contradiction|].
    apply (Hd a); [now left|assumption].
  - apply IH; try assumption. intros x Hx. apply Hd. now right.
Qed.

Lemma diff_nodup current next :
  NoDup (map p_key current) -> NoDup (map p_key next) -> NoDup (map fst (diff_validators current next)).
Proof.
  intros Hc Hn. rewrite diff_unfold, map_app. apply NoDup_app_intro.
  - apply (flat_map_keys_nodup (diff_cur next) p_key); [apply diff_cur_key|apply diff_cur_len|assumption].
  - apply (flat_map_keys_nodup (diff_new current) p_key);
      [intros a u Hu; now apply diff_new_key in Hu|apply diff_new_len|assumption].
  - intros k H1 H2.
    apply in_map_iff in H1. destruct H1 as [u1 [He1 Hu1]]. apply in_flat_map in Hu1. destruct Hu1 as [c [Hc' Hu1]].
    apply in_map_iff in H2. destruct H2 as [u2 [He2 Hu2]]. apply in_flat_map in Hu2. destruct Hu2 as [nv [Hn' Hu2]].
    apply diff_cur_key in Hu1. apply diff_new_key in Hu2. destruct Hu2 as [Hk Hnot].
    apply Hnot. replace (p_key nv) with (p_key c) by congruence. now apply in_map.
Qed.

(* the engine follows the recorded set across one DiffValidators *)
Lemma diff_lookup e current next :
  NoDup (map p_key current) -> NoDup (map p_key next) -> Forall (fun v => 0 < p_pow v) next ->
  (forall k, eng_lookup e k = rec_lookup current k) ->
  forall k, eng_lookup (apply_updates e (diff_validators current next)) k = rec_lookup next k.
Proof.
  intros Hc Hn Hpos Hinv k.
  pose proof (diff_nodup current next Hc Hn) as Hnd.
  rewrite Forall_forall in Hpos.
  destruct (in_dec Z.eq_dec k (map p_key current)) as [Hkc|Hkc];
  destruct (in_dec Z.eq_dec k (map p_key next)) as [Hkn|Hkn].
  - (* in both *)
    apply in_map_iff in Hkc. destruct Hkc as [c [<- Hcin]].
    apply in_map_iff in Hkn. destruct Hkn as [nv [Hke Hnin]].
    assert (Hb : by_key next (p_key c) = Some nv) by (rewrite <- Hke; now apply by_key_in).
    rewrite <- Hke at 2. rewrite (rec_lookup_in next nv Hn Hnin).
    destruct (Z.eqb_spec (p_pow c) (p_pow nv)) as [Hpe|Hpne].
    + rewrite lookup_untouched.
      * rewrite Hinv. rewrite (rec_lookup_in current c Hc Hcin). congruence.
      * intros u Hu He. rewrite diff_unfold in Hu. apply in_app_or in Hu. destruct Hu as [Hu|Hu].
        -- apply in_flat_map in Hu. destruct Hu as [c' [Hc' Hu]].
           pose proof (diff_cur_key _ _ _ Hu) as Hk'.
           assert (c' = c).
           { clear -Hc Hc' Hcin Hk' He. induction current as [|a t IH]; [contradiction|].
             simpl in Hc. inversion Hc as [|? ? Hna Hnt]; subst.
             destruct Hc' as [->|Hc'], Hcin as [->|Hcin]; try reflexivity.
             - exfalso. apply Hna. replace (p_key c') with (p_key c) by congruence. now apply in_map.
             - exfalso. apply Hna. replace (p_key c) with (p_key c') by congruence. now apply in_map.
             - now apply IH. }
           subst c'. unfold diff_cur in Hu. rewrite Hb in Hu.
           destruct (Z.eqb_spec (p_pow c) (p_pow nv)); [contradiction|contradiction].
        -- apply in_flat_map in Hu. destruct Hu as [nv' [_ Hu]]. apply diff_new_key in Hu.
           destruct Hu as [Hk' Hnot]. apply Hnot. replace (p_key nv') with (p_key c) by congruence. now apply in_map.
    + rewrite (lookup_updated _ e (p_key c) (p_pow nv) Hnd).
      * specialize (Hpos nv Hnin). cbv beta in Hpos. destruct (Z.eqb_spec (p_pow nv) 0); [lia|reflexivity].
      * rewrite diff_unfold. apply in_or_app. left. apply in_flat_map. exists c. split; [assumption|].
        unfold diff_cur. rewrite Hb. destruct (Z.eqb_spec (p_pow c) (p_pow nv)); [contradiction|].
        simpl. left. now rewrite Hke.
  - (* only in current: removed *)
    apply in_map_iff in Hkc. destruct Hkc as [c [<- Hcin]].
    rewrite (rec_lookup_none next _ Hkn).
    rewrite (lookup_updated _ e (p_key c) 0 Hnd); [reflexivity|].
    rewrite diff_unfold. apply in_or_app. left. apply in_flat_map. exists c. split; [assumption|].
    unfold diff_cur. rewrite (by_key_none next _ Hkn). now left.
  - (* only in next: added *)
    apply in_map_iff in Hkn. destruct Hkn as [nv [<- Hnin]].
    rewrite (rec_lookup_in next nv Hn Hnin).
    rewrite (lookup_updated _ e (p_key nv) (p_pow nv) Hnd).
    + specialize (Hpos nv Hnin). cbv beta in Hpos. destruct (Z.eqb_spec (p_pow nv) 0); [lia|reflexivity].
    + rewrite diff_unfold. apply in_or_app. right. apply in_flat_map. exists nv. split; [assumption|].
      unfold diff_new. rewrite (by_key_none current _ Hkc). now left.
  - (* in neither *)
    rewrite (rec_lookup_none next _ Hkn). rewrite lookup_untouched.
    + rewrite Hinv. now apply rec_lookup_none.
    + intros u Hu He. rewrite diff_unfold in Hu. apply in_app_or in Hu. destruct Hu as [Hu|Hu].
      * apply in_flat_map in Hu. destruct Hu as [c' [Hc' Hu]]. apply diff_cur_key in Hu.
        apply Hkc. replace k with (p_key c') by congruence. now apply in_map.
      * apply in_flat_map in Hu. destruct Hu as [nv' [Hn' Hu]]. apply diff_new_key in Hu. destruct Hu as [Hk' _].
        apply Hkn. replace k with (p_key nv') by congruence. now apply in_map.
Qed.

Lemma genesis_updates_diff vs :
  map (fun v => (p_key v, p_pow v)) vs = diff_validators [] vs.
Proof.
  rewrite diff_unfold. simpl. induction vs as [|a t IH]; simpl; [reflexivity|]. now rewrite IH.
Qed.

(* ------------------------------------------------------------------ the invariant *)

Definition inv (x : sys) : Prop :=
  NoDup (map p_key (fst x)) /\ NoDup (map fst (snd x)) /\
  forall k, eng_lookup (snd x) k = rec_lookup (fst x) k.

Lemma inv_set_next (x : sys) next :
  inv x -> NoDup (map p_addr next) -> NoDup (map p_key next) -> Forall (fun v => 0 < p_pow v) next ->
  inv (store_set next, apply_updates (snd x) (diff_validators (fst x) next)).
Proof.
  intros [Hk [He Hl]] Ha Hn Hp.
  pose proof (store_set_perm next Ha) as HP.
  assert (Hk' : NoDup (map p_key (store_set next)))
    by (eapply Permutation_NoDup; [apply Permutation_map; symmetry; exact HP|exact Hn]).
  split; [exact Hk'|split; [now apply nodup_apply_updates|]].
  intros k. cbn [fst snd]. rewrite (diff_lookup _ _ _ Hk Hn Hp Hl).
  symmetry. now apply rec_lookup_perm.
Qed.

Lemma inv_genesis g M0 : wf_oracle g -> inv (sys_step init (Genesis g M0)).
Proof.
  intros [Ha [Hk Hp]]. unfold sys_step, init. cbn [step fst snd].
  rewrite genesis_updates_diff, genesis_set_top_m.
  apply (inv_set_next ([], []) (top_m g M0)).
  - repeat split; try constructor.
  - now apply top_m_nodup_addr.
  - now apply top_m_nodup_key.
  - now apply top_m_pos.
Qed.

Lemma inv_step x o : inv x -> wf_op o -> inv (sys_step x o).
Proof.
  intros Hi Hw. destruct o as [g M|oracle M|oracle M supply]; [contradiction| |].
  - destruct Hw as [Ha [Hk Hp]]. unfold sys_step. cbn [step fst snd].
    apply inv_set_next; [assumption|now apply top_m_nodup_addr|now apply top_m_nodup_key|now apply top_m_pos].
  - unfold sys_step. cbn [step fst snd]. unfold apply_updates. cbn [fold_left]. destruct x. exact Hi.
Qed.

Lemma inv_history g M0 rest :
  wf_oracle g -> Forall wf_op rest -> inv (run_sys (history g M0 rest)).
Proof.
  intros Hg Hr. unfold run_sys, history. cbn [fold_left].
  assert (H0 : inv (sys_step init (Genesis g M0))) by now apply inv_genesis.
  revert H0. generalize (sys_step init (Genesis g M0)).
  induction Hr as [|o t Ho Ht IH]; intros x Hx; [exact Hx|].
  cbn [fold_left]. apply IH. now apply inv_step.
Qed.

(* ---- C15_engine_eq_recorded ---- *)
Theorem engine_eq_recorded g M0 rest :
  wf_oracle g -> Forall wf_op rest ->
  let x := run_sys (history g M0 rest) in
  (forall k, eng_lookup (snd x) k = rec_lookup (fst x) k) /\
  Permutation (snd x) (map (fun v => (p_key v, p_pow v)) (fst x)).
Proof.
  intros Hg Hr x. destruct (inv_history g M0 rest Hg Hr) as [Hk [He Hl]]. fold x in Hk, He, Hl.
  split; [exact Hl|].
  apply NoDup_Permutation.
  - eapply NoDup_map_inv. exact He.
  - eapply NoDup_map_inv with (f := fst). rewrite map_map. exact Hk.
  - intros [k p]. split.
    + intros Hin.
      assert (Hf : eng_lookup (snd x) k = Some p).
      { unfold eng_lookup.
        assert (find (fun y => fst y =? k) (snd x) = Some (k, p)).
        { clear -He Hin. induction (snd x) as [|a t IH]; [contradiction|].
          simpl in He. inversion He as [|? ? Hna Hnt]; subst. simpl.
          destruct Hin as [->|Hin]; [cbn [fst]; now rewrite Z.eqb_refl|].
          destruct (Z.eqb_spec (fst a) k) as [Hek|_]; [|now apply IH].
          exfalso. apply Hna. rewrite Hek. change k with (fst (k, p)). now apply in_map. }
        now rewrite H. }
      rewrite Hl in Hf. unfold rec_lookup in Hf.
      destruct (find _ (fst x)) as [v|] eqn:Hfv; [|discriminate].
      apply find_some in Hfv. destruct Hfv as [Hv Hkv]. apply Z.eqb_eq in Hkv.
      apply in_map_iff. exists v. split; [|assumption]. congruence.
    + intros Hin. apply in_map_iff in Hin. destruct Hin as [v [Hv Hvin]].
      inversion Hv; subst k p.
      pose proof (rec_lookup_in _ v Hk Hvin) as Hr'. rewrite <- Hl in Hr'.
      unfold eng_lookup in Hr'. destruct (find _ (snd x)) as [y|] eqn:Hfy; [|discriminate].
      apply find_some in Hfy. destruct Hfy as [Hy Hky]. apply Z.eqb_eq in Hky.
      destruct y as [k' p']. cbn [fst snd] in *. inversion Hr'. subst. exact Hy.
Qed.

(* ---- C15_recorded_is_topM ---- *)
Theorem recorded_is_topM (s : state) oracle M :
  NoDup (map s_addr oracle) ->
  let s' := fst (step s (Block oracle M)) in
  Permutation s' (map create_pcv (first_m oracle M)) /\ addr_sorted s'.
Proof.
  intros Ha s'. unfold s'. cbn [step fst]. split.
  - rewrite <- top_m_first_m. apply store_set_perm. now apply top_m_nodup_addr.
  - apply store_set_sorted.
Qed.

Theorem genesis_is_topM (s : state) oracle M :
  NoDup (map s_addr oracle) ->
  let r := step s (Genesis oracle M) in
  Permutation (fst r) (map create_pcv (first_m oracle M)) /\ addr_sorted (fst r) /\
  snd r = map (fun v => (s_key v, s_pow v)) (first_m oracle M).
Proof.
  intros Ha r. unfold r. cbn [step fst snd]. rewrite genesis_set_top_m. split; [|split].
  - rewrite <- top_m_first_m. apply store_set_perm. now apply top_m_nodup_addr.
  - apply store_set_sorted.
  - rewrite top_m_first_m, map_map. reflexivity.
Qed.

(* the updates returned by a block are the DiffValidators of the previously recorded set and the new top-M *)
Theorem block_updates (s : state) oracle M :
  snd (step s (Block oracle M)) = diff_validators s (map create_pcv (first_m oracle M)).
Proof. cbn [step snd]. now rewrite top_m_first_m. Qed.

(* ---- C15_size ---- *)
Theorem size_recorded (s : state) oracle M :
  0 <= M -> NoDup (map s_addr oracle) ->
  Z.of_nat (length (fst (step s (Block oracle M)))) <= M /\
  Z.of_nat (length (fst (step s (Genesis oracle M)))) <= M.
Proof.
  intros HM Ha. cbn [step fst]. rewrite genesis_set_top_m.
  rewrite (Permutation_length (store_set_perm _ (top_m_nodup_addr oracle M Ha))).
  split; now apply top_m_length.
Qed.

(* a step is a Block/Genesis with parameter M *)
Definition last_M (M0 : Z) (rest : list op) : Z :=
  fold_left (fun m o => match o with Block _ M => M | Genesis _ M => M | Views _ _ _ => m end) rest M0.

Lemma recorded_len_history g M0 rest :
  NoDup (map s_addr g) -> Forall wf_op rest -> 0 <= M0 ->
  Forall (fun o => match o with Block _ M => 0 <= M | _ => True end) rest ->
  Z.of_nat (length (fst (run_sys (history g M0 rest)))) <= last_M M0 rest.
Proof.
  intros Hg Hr HM0 HMs. unfold run_sys, history. cbn [fold_left].
  assert (H0 : Z.of_nat (length (fst (sys_step init (Genesis g M0)))) <= M0).
  { unfold sys_step. cbn [step fst]. now apply (size_recorded [] g M0). }
  revert H0. generalize (sys_step init (Genesis g M0)). generalize M0.
  induction rest as [|o t IH]; intros m x Hx; [exact Hx|].
  inversion Hr as [|? ? Ho Ht]; subst. inversion HMs as [|? ? Hm Hmt]; subst.
  unfold last_M in *. cbn [fold_left]. apply IH; try assumption.
  destruct o as [g' M|oracle M|oracle M supply]; [contradiction| |].
  - unfold sys_step. cbn [step fst]. destruct Ho as [Ha _]. now apply (size_recorded (fst x) oracle M).
  - unfold sys_step. cbn [step fst]. exact Hx.
Qed.

Theorem size_history g M0 rest :
  wf_oracle g -> Forall wf_op rest -> 0 <= M0 ->
  Forall (fun o => match o with Block _ M => 0 <= M | _ => True end) rest ->
  let x := run_sys (history g M0 rest) in
  Z.of_nat (length (fst x)) <= last_M M0 rest /\ Z.of_nat (length (snd x)) <= last_M M0 rest.
Proof.
  intros Hg Hr HM0 HMs x.
  assert (H1 : Z.of_nat (length (fst x)) <= last_M M0 rest)
    by (apply recorded_len_history; try assumption; apply Hg).
  split; [exact H1|].
  destruct (engine_eq_recorded g M0 rest Hg Hr) as [_ HP]. fold x in HP.
  rewrite (Permutation_length HP), map_length. exact H1.
Qed.

(* ---- C15_views ---- *)
Lemma iterate_firstn M : forall l c, 0 <= c -> iterate_bonded M c l = firstn (Z.to_nat (M - c)) l.
Proof.
  induction l as [|v t IH]; intros c Hc; simpl; [now rewrite firstn_nil|].
  destruct (Z.leb_spec M c) as [Hle|Hgt].
  - replace (Z.to_nat (M - c)) with 0%nat by lia. reflexivity.
  - replace (Z.to_nat (M - c)) with (S (Z.to_nat (M - (c + 1)))) by lia.
    simpl. f_equal. apply IH. lia.
Qed.

Lemma iterate_first_m oracle M : iterate_bonded M 0 oracle = first_m oracle M.
Proof.
  rewrite iterate_firstn by lia. rewrite Z.sub_0_r. unfold first_m.
  rewrite firstn_min. f_equal. lia.
Qed.

Lemma fold_left_sum (l : list sval) : forall a, fold_left (fun a v => a + s_tok v) l a = a + sum_tok l.
Proof. induction l as [|v t IH]; intros a; simpl; [lia|]. rewrite IH. lia. Qed.

Theorem views oracle M supply :
  iterate_bonded M 0 oracle = first_m oracle M /\
  map s_addr (iterate_bonded M 0 oracle) = map p_addr (top_m oracle M) /\
  total_bonded oracle M = sum_tok (first_m oracle M) /\
  bonded_ratio oracle M supply = (if 0 <? supply then Z.quot (sum_tok (first_m oracle M) * P) supply else 0).
Proof.
  assert (Ht : total_bonded oracle M = sum_tok (first_m oracle M)).
  { unfold total_bonded. rewrite fold_left_sum, iterate_first_m. lia. }
  split; [apply iterate_first_m|split; [|split]].
  - rewrite iterate_first_m. symmetry. apply top_m_addrs.
  - exact Ht.
  - unfold bonded_ratio. rewrite Ht. reflexivity.
Qed.
