(* Lemmas and invariants about Model/Rewards.v (property C16). *)
From Coq Require Import ZArith List Bool Lia.
From ICS Require Import Base.Tree Base.Dec Model.Rewards.
Import ListNotations.
Open Scope Z_scope.

(* ================================================================== maps *)
Lemma keqb_true : forall a b, keqb a b = true <-> a = b.
Proof.
  intros [a1 a2] [b1 b2]; unfold keqb; cbn [fst snd].
  rewrite andb_true_iff, !Z.eqb_eq. split; [intros [-> ->]; reflexivity | intros H; inversion H; auto].
Qed.

Lemma keqb_refl : forall a, keqb a a = true.
Proof. intros; apply keqb_true; reflexivity. Qed.

Lemma keqb_false : forall a b, keqb a b = false <-> a <> b.
Proof.
  intros a b; split; intros H.
  - intros E; apply keqb_true in E; congruence.
  - destruct (keqb a b) eqn:E; [apply keqb_true in E; contradiction | reflexivity].
Qed.

Lemma keqb_pair : forall a b c d, keqb (a, b) (c, d) = (a =? c) && (b =? d).
Proof. reflexivity. Qed.

Lemma get_add : forall k k' x m, get k (add k' x m) = if keqb k k' then get k m + x else get k m.
Proof.
  intros k k' x m; induction m as [|[k0 v] r IH]; cbn [get add].
  - destruct (keqb k k'); lia.
  - destruct (keqb k' k0) eqn:E0; cbn [get].
    + apply keqb_true in E0; subst k0. destruct (keqb k k'); reflexivity.
    + destruct (keqb k k0) eqn:E1.
      * apply keqb_true in E1; subst k0.
        destruct (keqb k k') eqn:E2; [apply keqb_true in E2; subst; rewrite keqb_refl in E0; discriminate | reflexivity].
      * exact IH.
Qed.

Lemma get_add_same : forall k x m, get k (add k x m) = get k m + x.
Proof. intros; rewrite get_add, keqb_refl; reflexivity. Qed.

Lemma get_add_other : forall k k' x m, k <> k' -> get k (add k' x m) = get k m.
Proof. intros k k' x m H; rewrite get_add; apply keqb_false in H; rewrite H; reflexivity. Qed.

Lemma total_add : forall d a d' x m, total d (add (a, d') x m) = total d m + (if d' =? d then x else 0).
Proof.
  intros d a d' x m; induction m as [|[k0 v] r IH]; cbn [total add snd].
  - destruct (d' =? d); lia.
  - destruct (keqb (a, d') k0) eqn:E0; cbn [total].
    + apply keqb_true in E0; subst k0; cbn [snd]. destruct (d' =? d); lia.
    + rewrite IH; lia.
Qed.

Lemma get_move : forall a d a1 a2 d' x b,
  get (a, d) (move a1 a2 d' x b) =
  get (a, d) b + (if keqb (a, d) (a2, d') then x else 0) - (if keqb (a, d) (a1, d') then x else 0).
Proof.
  intros; unfold move; rewrite !get_add.
  destruct (keqb (a, d) (a2, d')), (keqb (a, d) (a1, d')); lia.
Qed.

Ltac keq :=
  repeat match goal with
  | |- context [keqb (?a, ?b) (?c, ?d)] => rewrite (keqb_pair a b c d)
  | H : context [keqb (?a, ?b) (?c, ?d)] |- _ => rewrite (keqb_pair a b c d) in H
  end.

(* ================================================================== decimal arithmetic *)
Lemma P_pos : 0 < P.
Proof. reflexivity. Qed.

Lemma chop_round_mulP : forall x, 0 <= x -> chop_round (x * P) = x.
Proof.
  intros x Hx; unfold chop_round.
  assert (Hn : (x * P <? 0) = false) by (apply Z.ltb_ge; pose proof P_pos; nia).
  rewrite Hn; unfold chop_round_nonneg.
  rewrite Z.rem_mul by (pose proof P_pos; lia). cbn [Z.eqb].
  apply Z.quot_mul; pose proof P_pos; lia.
Qed.

(* the consumer's share is exactly floor(fees * fraction) *)
Lemma cons_share_floor : forall fp frac, 0 <= fp -> 0 <= frac -> cons_share fp frac = (fp * frac) / P.
Proof.
  intros fp frac Hfp Hfr; unfold cons_share, dtrunc_int, chop_trunc, dmul, dec_of_int.
  replace (fp * P * frac) with (fp * frac * P) by ring.
  rewrite chop_round_mulP by nia.
  apply Z.quot_div_nonneg; [nia | apply P_pos].
Qed.

Lemma cons_share_bounds : forall fp frac, 0 <= fp -> 0 <= frac <= P -> 0 <= cons_share fp frac <= fp.
Proof.
  intros fp frac Hfp Hfr; rewrite cons_share_floor by lia. pose proof P_pos as HP. split.
  - apply Z.div_pos; nia.
  - apply Z.div_le_upper_bound; nia.
Qed.

Lemma dtrunc_bounds : forall a, 0 <= a -> 0 <= dtrunc_int a /\ 0 <= a - dec_of_int (dtrunc_int a) < P.
Proof.
  intros a Ha; unfold dtrunc_int, chop_trunc, dec_of_int. pose proof P_pos as HP.
  rewrite Z.quot_div_nonneg by lia.
  pose proof (Z.div_mod a P ltac:(lia)) as Hdm. pose proof (Z.mod_pos_bound a P HP) as Hm.
  split; [apply Z.div_pos; lia | lia].
Qed.

Lemma dmul_trunc_bounds : forall a m, 0 <= a -> 0 <= m <= P -> 0 <= dmul_trunc a m <= a.
Proof.
  intros a m Ha Hm; unfold dmul_trunc, chop_trunc. pose proof P_pos as HP.
  rewrite Z.quot_div_nonneg by nia. split.
  - apply Z.div_pos; nia.
  - apply Z.div_le_upper_bound; nia.
Qed.

(* tokensFraction of a validator: T * floor(power * 10^18 / total) in 10^-18 units *)
Lemma val_share_eq : forall T total pow, 0 <= T -> 0 <= pow -> 0 < total ->
  val_share T total pow = T * ((pow * P) / total).
Proof.
  intros T total pow HT Hp Ht; unfold val_share, dmul_trunc, dquo_trunc, chop_trunc, dec_of_int.
  pose proof P_pos as HP.
  replace (pow * P * P) with ((pow * P) * P) by ring.
  rewrite Z.quot_mul_cancel_r by lia.
  rewrite (Z.quot_div_nonneg (pow * P) total) by nia.
  replace (T * P * (pow * P / total)) with (T * (pow * P / total) * P) by ring.
  apply Z.quot_mul; lia.
Qed.

Lemma val_share_nonneg : forall T total pow, 0 <= T -> 0 <= pow -> 0 < total -> 0 <= val_share T total pow.
Proof.
  intros; rewrite val_share_eq by lia. pose proof P_pos.
  apply Z.mul_nonneg_nonneg; [lia | apply Z.div_pos; nia].
Qed.

(* ================================================================== shares of one allocation *)
Fixpoint fsum (g : cval -> Z) (l : list cval) : Z :=
  match l with [] => 0 | x :: r => g x + fsum g r end.

Definition elig_list (thr h : Z) (vs : list cval) : list cval := filter (eligible thr h) vs.

Lemma total_power_fsum : forall thr h vs, total_power thr h vs = fsum cv_pow (elig_list thr h vs).
Proof.
  intros thr h vs; induction vs as [|e r IH]; cbn [total_power elig_list filter fsum]; [reflexivity|].
  fold (elig_list thr h r). destruct (eligible thr h e); cbn [fsum]; lia.
Qed.

Definition frac_of (total : Z) (x : cval) : Z := (cv_pow x * P) / total.

Lemma fsum_frac_upper : forall total l, 0 < total -> Forall (fun x => 0 <= cv_pow x) l ->
  total * fsum (frac_of total) l <= P * fsum cv_pow l.
Proof.
  intros total l Ht Hl; induction Hl as [|x r Hx Hr IH]; cbn [fsum]; [lia|].
  unfold frac_of at 1. pose proof (Z.mul_div_le (cv_pow x * P) total Ht). lia.
Qed.

Lemma fsum_frac_lower : forall total l, 0 < total -> Forall (fun x => 0 <= cv_pow x) l ->
  P * fsum cv_pow l - total * Z.of_nat (length l) <= total * fsum (frac_of total) l
  /\ (l <> [] -> P * fsum cv_pow l - total * Z.of_nat (length l) < total * fsum (frac_of total) l).
Proof.
  intros total l Ht Hl; induction Hl as [|x r Hx Hr IH]; cbn [fsum length]; [split; [lia | congruence]|].
  unfold frac_of at 1 3.
  pose proof (Z.div_mod (cv_pow x * P) total ltac:(lia)) as Hdm.
  pose proof (Z.mod_pos_bound (cv_pow x * P) total Ht) as Hm.
  rewrite Nat2Z.inj_succ. destruct IH as [IH1 IH2]. split; [lia | intros _; lia].
Qed.

Lemma fsum_frac_nonneg : forall total l, 0 < total -> Forall (fun x => 0 <= cv_pow x) l -> 0 <= fsum (frac_of total) l.
Proof.
  intros total l Ht Hl; induction Hl as [|x r Hx Hr IH]; cbn [fsum]; [lia|].
  unfold frac_of at 1. pose proof P_pos. assert (0 <= cv_pow x * P / total) by (apply Z.div_pos; nia). lia.
Qed.

(* ---- events *)
Lemma mk_event_fields : forall env f c d thr total T x e, mk_event env f c d thr total T x = Some e ->
  ev_h e = b_h env /\ ev_c e = c /\ ev_d e = d /\ ev_v e = cv_id x /\ ev_pow e = cv_pow x /\ ev_join e = cv_join x /\
  ev_thr e = thr /\ ev_total e = total /\ ev_T e = T /\ ev_amt e = val_share T total (cv_pow x) /\
  ev_comm e = dmul (ev_amt e) (ev_rate e) /\
  (exists own, lookup (cv_id x) (b_staking env) = Some own /\
     ev_rate e = match crate (c, cv_id x) (crates f) with Some r => r | None => own end) /\
  memz (cv_id x) (b_fail_alloc env) = false.
Proof.
  intros env f c d thr total T x e H; unfold mk_event in H.
  destruct (lookup (cv_id x) (b_staking env)) as [own|] eqn:El; [|discriminate].
  destruct (memz (cv_id x) (b_fail_alloc env)) eqn:Em; [discriminate|].
  inversion H; subst e; cbn. repeat split; try reflexivity. exists own; split; reflexivity.
Qed.

Lemma events_spec : forall env f c d thr total T vs evs, events env f c d thr total T vs = Some evs ->
  Forall2 (fun x e => mk_event env f c d thr total T x = Some e) (elig_list thr (b_h env) vs) evs.
Proof.
  intros env f c d thr total T vs; induction vs as [|x r IH]; intros evs H; cbn [events] in H.
  - inversion H; constructor.
  - unfold elig_list; cbn [filter]; fold (elig_list thr (b_h env) r).
    destruct (eligible thr (b_h env) x) eqn:El.
    + destruct (mk_event env f c d thr total T x) as [e|] eqn:Em; [|discriminate].
      destruct (events env f c d thr total T r) as [l|] eqn:Er; [|discriminate].
      inversion H; subst evs. constructor; [exact Em | apply IH; reflexivity].
    + apply IH; exact H.
Qed.

Lemma sum_amt_events : forall env f c d thr total T l evs,
  Forall2 (fun x e => mk_event env f c d thr total T x = Some e) l evs ->
  0 <= T -> 0 < total -> Forall (fun x => 0 <= cv_pow x) l ->
  sum_amt evs = T * fsum (frac_of total) l /\ length evs = length l.
Proof.
  intros env f c d thr total T l evs H HT Ht; induction H as [|x e l evs Hxe Hr IH]; intros Hl.
  - cbn; split; [lia | reflexivity].
  - inversion Hl as [|? ? Hx Hl']; subst. destruct (IH Hl') as [IH1 IH2].
    apply mk_event_fields in Hxe. destruct Hxe as (_ & _ & _ & _ & _ & _ & _ & _ & _ & Ha & _).
    cbn [sum_amt fsum length]. rewrite Ha, IH1, IH2, val_share_eq by lia. unfold frac_of at 2. split; [ring | reflexivity].
Qed.

Lemma elig_list_pow : forall thr h vs, Forall (fun x => 0 <= cv_pow x) vs -> Forall (fun x => 0 <= cv_pow x) (elig_list thr h vs).
Proof.
  intros thr h vs H; unfold elig_list; rewrite Forall_forall in *; intros x Hx.
  apply filter_In in Hx; destruct Hx; auto.
Qed.

(* dust of one allocation: what moved to the distribution account minus what was recorded for validators *)
Lemma dust_bounds : forall env f c d thr T vs evs,
  let total := total_power thr (b_h env) vs in
  events env f c d thr total T vs = Some evs ->
  0 <= T -> 0 < total -> Forall (fun x => 0 <= cv_pow x) vs ->
  0 <= sum_amt evs /\ 0 <= dec_of_int T - sum_amt evs <= T * (Z.of_nat (length evs) - 1).
Proof.
  intros env f c d thr T vs evs total H HT Ht Hvs.
  apply events_spec in H. pose proof (elig_list_pow thr (b_h env) vs Hvs) as Hl.
  destruct (sum_amt_events _ _ _ _ _ _ _ _ _ H HT Ht Hl) as [Hs Hlen].
  pose proof (fsum_frac_upper total _ Ht Hl) as Hu.
  pose proof (fsum_frac_lower total _ Ht Hl) as [_ Hlo].
  pose proof (fsum_frac_nonneg total _ Ht Hl) as Hnn.
  assert (Htp : fsum cv_pow (elig_list thr (b_h env) vs) = total) by (symmetry; apply total_power_fsum).
  rewrite Htp in Hu, Hlo.
  assert (Hne : elig_list thr (b_h env) vs <> []).
  { intros E; rewrite E in Htp; cbn in Htp; lia. }
  specialize (Hlo Hne). rewrite Hs, Hlen. unfold dec_of_int.
  set (F := fsum (frac_of total) (elig_list thr (b_h env) vs)) in *.
  set (n := Z.of_nat (length (elig_list thr (b_h env) vs))) in *.
  assert (F <= P) by nia. assert (P - n < F) by nia.
  split; [nia | split; nia].
Qed.

(* ---- paying a list of events *)
Lemma get_pay_outst : forall evs m v d,
  get (v, d) (pay_outst evs m) =
  get (v, d) m + fold_right (fun e a => (if (ev_v e =? v) && (ev_d e =? d) then ev_amt e else 0) + a) 0 evs.
Proof.
  induction evs as [|e r IH]; intros m v d; cbn [pay_outst fold_right]; [lia|].
  rewrite IH, get_add; keq. rewrite (Z.eqb_sym v), (Z.eqb_sym d). destruct ((ev_v e =? v) && (ev_d e =? d)); lia.
Qed.

Lemma get_pay_comm : forall evs m v d,
  get (v, d) (pay_comm evs m) =
  get (v, d) m + fold_right (fun e a => (if (ev_v e =? v) && (ev_d e =? d) then ev_comm e else 0) + a) 0 evs.
Proof.
  induction evs as [|e r IH]; intros m v d; cbn [pay_comm fold_right]; [lia|].
  rewrite IH, get_add; keq. rewrite (Z.eqb_sym v), (Z.eqb_sym d). destruct ((ev_v e =? v) && (ev_d e =? d)); lia.
Qed.

Lemma total_pay_outst : forall evs m d0 d, Forall (fun e => ev_d e = d0) evs ->
  total d (pay_outst evs m) = total d m + (if d0 =? d then sum_amt evs else 0).
Proof.
  induction evs as [|e r IH]; intros m d0 d H; cbn [pay_outst sum_amt]; [destruct (d0 =? d); lia|].
  inversion H as [|? ? He Hr]; subst. rewrite (IH _ (ev_d e) d Hr), total_add. destruct (ev_d e =? d); lia.
Qed.

Lemma events_d : forall env f c d thr total T vs evs, events env f c d thr total T vs = Some evs ->
  Forall (fun e => ev_d e = d) evs.
Proof.
  intros. apply events_spec in H. induction H as [|x e l evs Hxe Hr IH]; constructor; auto.
  apply mk_event_fields in Hxe; tauto.
Qed.


(* ================================================================== one allocation *)
Definition m_zero_funded (c d A : Z) (m : money) : money :=
  let toSend := dtrunc_int A in
  mkM (move POOL DISTR d toSend (bank m)) (add (0, d) (dec_of_int toSend) (cpool m))
      (outst m) (comm m) (add (c, d) (A - dec_of_int toSend - A) (alloc m))
      (g_cred m) (g_pv m) (add (c, d) (dec_of_int toSend) (g_pc m)) (g_dust m) (g_forf m) (g_mint m) (log m).
Definition m_zero_forfeit (c d A : Z) (m : money) : money :=
  let toSend := dtrunc_int A in
  mkM (bank m) (cpool m) (outst m) (comm m) (add (c, d) (A - dec_of_int toSend - A) (alloc m))
      (g_cred m) (g_pv m) (g_pc m) (g_dust m) (add (c, d) (dec_of_int toSend) (g_forf m)) (g_mint m) (log m).
Definition m_paid (c d A tax : Z) (evs : list event) (m : money) : money :=
  let vr := dmul_trunc A (dsub (dec_of_int 1) tax) in
  let remaining := dsub A vr in
  let vrT := dtrunc_int vr in
  let remR := dtrunc_int remaining in
  mkM (move POOL DISTR d remR (move POOL DISTR d vrT (bank m)))
      (add (0, d) (dec_of_int remR) (cpool m))
      (pay_outst evs (outst m)) (pay_comm evs (comm m))
      (add (c, d) ((vr - dec_of_int vrT) + (remaining - dec_of_int remR) - A) (alloc m))
      (g_cred m) (add (c, d) (sum_amt evs) (g_pv m)) (add (c, d) (dec_of_int remR) (g_pc m))
      (add (c, d) (dec_of_int vrT - sum_amt evs) (g_dust m)) (g_forf m) (g_mint m) (log m ++ evs).

Lemma some_inj : forall {A} (x y : A), Some x = Some y -> x = y.
Proof. intros A x y H; congruence. Qed.

Lemma alloc_body_cases : forall env f c d m m', alloc_body env f c d m = Some m' ->
  let A := get (c, d) (alloc m) in
  let vs := lookup_list c (valsets f) in
  let thr := epochs f * bpe f in
  let total := total_power thr (b_h env) vs in
  A <> 0 /\ has_chain c f = true /\
  ((total = 0 /\ dtrunc_int A <= get (POOL, d) (bank m) /\
    (negb (dtrunc_int A =? 0) && memz d (b_fail_fund env)) = false /\ m' = m_zero_funded c d A m)
   \/
   (total <> 0 /\ b_fail_tax env = false /\
    let vr := dmul_trunc A (dsub (dec_of_int 1) (b_tax env)) in
    let vrT := dtrunc_int vr in
    let remR := dtrunc_int (dsub A vr) in
    exists evs, (if vrT =? 0 then Some [] else events env f c d thr total vrT vs) = Some evs /\
                vrT <= get (POOL, d) (bank m) /\ remR <= get (POOL, d) (bank m) - vrT /\
                m' = m_paid c d A (b_tax env) evs m)).
Proof.
  intros env f c d m m' H; unfold alloc_body in H; cbv zeta.
  destruct (get (c, d) (alloc m) =? 0) eqn:EA; [discriminate|]. apply Z.eqb_neq in EA.
  destruct (has_chain c f) eqn:Ech; cbn [negb] in H; [|discriminate].
  split; [exact EA | split; [reflexivity|]].
  destruct (total_power (epochs f * bpe f) (b_h env) (lookup_list c (valsets f)) =? 0) eqn:Et.
  - apply Z.eqb_eq in Et. left; split; [exact Et|].
    destruct (negb (negb (dtrunc_int (get (c, d) (alloc m)) =? 0) && memz d (b_fail_fund env)) &&
              (dtrunc_int (get (c, d) (alloc m)) <=? get (POOL, d) (bank m))) eqn:Ef.
    + apply andb_true_iff in Ef; destruct Ef as [Ef0 Ef]; apply Z.leb_le in Ef. apply negb_true_iff in Ef0.
      split; [exact Ef | split; [exact Ef0 | inversion H; reflexivity]].
    + discriminate.
  - apply Z.eqb_neq in Et. right; split; [exact Et|].
    destruct (b_fail_tax env); [discriminate|]. split; [reflexivity|].
    match type of H with (if ?b then _ else _) = _ => destruct b eqn:Es; [discriminate|] end.
    apply orb_false_iff in Es; destruct Es as [_ Es]; apply Z.ltb_ge in Es.
    match type of H with match ?x with _ => _ end = _ => destruct x as [evs|] eqn:Ee; [|discriminate] end.
    match type of H with (if ?b then _ else _) = _ => destruct b eqn:Er; [discriminate|] end.
    apply orb_false_iff in Er; destruct Er as [_ Er]; apply Z.ltb_ge in Er.
    exists evs. split. reflexivity. split. exact Es. split. exact Er. apply some_inj in H. rewrite <- H. reflexivity.
Qed.


(* ================================================================== provider invariants *)
Definition acct_ok (m : money) : Prop := forall c d,
  get (c, d) (g_cred m) =
  get (c, d) (alloc m) + get (c, d) (g_pv m) + get (c, d) (g_pc m) + get (c, d) (g_dust m) + get (c, d) (g_forf m).
Definition bank_ok (m : money) : Prop := forall d,
  get (POOL, d) (bank m) + get (DISTR, d) (bank m) + get (OTHER, d) (bank m) = get (0, d) (g_mint m).
Definition distr_ok (m : money) : Prop := forall d,
  dec_of_int (get (DISTR, d) (bank m)) = total d (outst m) + get (0, d) (cpool m) + total d (g_dust m).
Definition link_ok (m : money) : Prop := forall d,
  total d (outst m) = total d (g_pv m) /\ get (0, d) (cpool m) = total d (g_pc m).
Definition nonneg_ok (m : money) : Prop := forall c d,
  0 <= get (c, d) (alloc m) /\ 0 <= get (c, d) (g_pv m) /\ 0 <= get (c, d) (g_pc m) /\
  0 <= get (c, d) (g_dust m) /\ 0 <= get (c, d) (g_forf m).
Definition pool_ok (m : money) : Prop := forall d, 0 <= get (POOL, d) (bank m).

Definition pinv (m : money) : Prop := acct_ok m /\ bank_ok m /\ distr_ok m /\ link_ok m.
Definition ninv (m : money) : Prop := nonneg_ok m /\ pool_ok m.

Definition env_wf (env : benv) : Prop := 0 <= b_tax env <= P.
Definition conf_wf (f : conf) : Prop :=
  forall c, Forall (fun x => 0 <= cv_pow x) (lookup_list c (valsets f)).

Ltac getadd := rewrite ?get_add, ?get_move, ?total_add; keq.

Lemma pinv_zero_funded : forall c d A m, A = get (c, d) (alloc m) -> pinv m -> pinv (m_zero_funded c d A m).
Proof.
  intros c d A m HA (Ha & Hb & Hd & Hl). unfold m_zero_funded; cbv zeta.
  set (t := dtrunc_int A) in *; clearbody t. repeat split; unfold acct_ok, bank_ok, distr_ok, link_ok in *; cbn [bank cpool outst comm alloc g_cred g_pv g_pc g_dust g_forf g_mint log].
  - intros c' d'. getadd. specialize (Ha c' d'). destruct ((c' =? c) && (d' =? d)); lia.
  - intros d'. getadd. specialize (Hb d'). unfold POOL, DISTR, OTHER in *. cbn [Z.eqb Pos.eqb andb].
    destruct (d' =? d); cbn [andb]; lia.
  - intros d'. getadd. specialize (Hd d'). unfold POOL, DISTR, dec_of_int in *. cbn [Z.eqb Pos.eqb andb].
    rewrite ?(Z.eqb_sym d d'). destruct (d' =? d); cbn [andb]; lia.
  - getadd. destruct (Hl d0) as [H1 _]. exact H1.
  - getadd. destruct (Hl d0) as [_ H2]. cbn [Z.eqb Pos.eqb andb]. rewrite ?(Z.eqb_sym d d0). destruct (d0 =? d); lia.
Qed.

Lemma pinv_zero_forfeit : forall c d A m, pinv m -> pinv (m_zero_forfeit c d A m).
Proof.
  intros c d A m (Ha & Hb & Hd & Hl). unfold m_zero_forfeit; cbv zeta.
  set (t := dtrunc_int A) in *; clearbody t.
  repeat split; unfold acct_ok, bank_ok, distr_ok, link_ok in *; cbn [bank cpool outst comm alloc g_cred g_pv g_pc g_dust g_forf g_mint log]; auto.
  - intros c' d'. getadd. specialize (Ha c' d'). destruct ((c' =? c) && (d' =? d)); lia.
  - apply Hl.
  - apply Hl.
Qed.

Lemma pinv_paid : forall c d A tax evs m, Forall (fun e => ev_d e = d) evs -> pinv m -> pinv (m_paid c d A tax evs m).
Proof.
  intros c d A tax evs m Hev (Ha & Hb & Hd & Hl). unfold m_paid; cbv zeta.
  set (vr := dmul_trunc A (dsub (dec_of_int 1) tax)) in *; clearbody vr.
  set (vrT := dtrunc_int vr) in *; clearbody vrT.
  set (remR := dtrunc_int (dsub A vr)) in *; clearbody remR.
  set (S := sum_amt evs) in *.
  repeat split; unfold acct_ok, bank_ok, distr_ok, link_ok in *; cbn [bank cpool outst comm alloc g_cred g_pv g_pc g_dust g_forf g_mint log].
  - intros c' d'. getadd. specialize (Ha c' d'). unfold dsub. destruct ((c' =? c) && (d' =? d)); lia.
  - intros d'. getadd. specialize (Hb d'). unfold POOL, DISTR, OTHER in *. cbn [Z.eqb Pos.eqb andb].
    destruct (d' =? d); cbn [andb]; lia.
  - intros d'. getadd. rewrite (total_pay_outst evs _ d d' Hev). specialize (Hd d').
    unfold POOL, DISTR, dec_of_int in *. cbn [Z.eqb Pos.eqb andb]. fold S.
    rewrite ?(Z.eqb_sym d d'). destruct (d' =? d); cbn [andb]; lia.
  - rewrite (total_pay_outst evs _ d d0 Hev). getadd. destruct (Hl d0) as [H1 _]. fold S. destruct (d =? d0); lia.
  - getadd. destruct (Hl d0) as [_ H2]. cbn [Z.eqb Pos.eqb andb]. rewrite ?(Z.eqb_sym d d0). destruct (d0 =? d); lia.
Qed.

Lemma total_power_nonneg : forall thr h vs, Forall (fun x => 0 <= cv_pow x) vs -> 0 <= total_power thr h vs.
Proof.
  intros thr h vs H; induction H as [|x r Hx Hr IH]; cbn [total_power]; [lia|]. destruct (eligible thr h x); lia.
Qed.

Lemma paid_events_facts : forall env f c d thr T vs evs,
  let total := total_power thr (b_h env) vs in
  (if T =? 0 then Some [] else events env f c d thr total T vs) = Some evs ->
  0 <= T -> total <> 0 -> Forall (fun x => 0 <= cv_pow x) vs ->
  Forall (fun e => ev_d e = d) evs /\ 0 <= sum_amt evs /\
  0 <= dec_of_int T - sum_amt evs <= T * (Z.of_nat (length evs) - 1).
Proof.
  intros env f c d thr T vs evs total H HT Ht Hvs.
  destruct (T =? 0) eqn:ET.
  - apply Z.eqb_eq in ET; subst T. apply some_inj in H; subst evs. cbn. unfold dec_of_int. repeat split; try lia. constructor.
  - pose proof (total_power_nonneg thr (b_h env) vs Hvs) as Hnn. fold total in Hnn.
    split; [eapply events_d; exact H|]. eapply dust_bounds; eauto. fold total. lia.
Qed.

Lemma ninv_zero_funded : forall c d A m, A = get (c, d) (alloc m) -> dtrunc_int A <= get (POOL, d) (bank m) ->
  ninv m -> ninv (m_zero_funded c d A m).
Proof.
  intros c d A m HA Hle (Hn & Hp). unfold m_zero_funded; cbv zeta.
  assert (HA0 : 0 <= A) by (subst A; apply Hn).
  destruct (dtrunc_bounds A HA0) as [Ht Hc].
  set (t := dtrunc_int A) in *; clearbody t. unfold dec_of_int in *.
  split; unfold nonneg_ok, pool_ok in *; cbn [bank cpool outst comm alloc g_cred g_pv g_pc g_dust g_forf g_mint log].
  - intros c' d'. getadd. specialize (Hn c' d'). destruct ((c' =? c) && (d' =? d)) eqn:E.
    + apply andb_true_iff in E; destruct E as [E1 E2]; apply Z.eqb_eq in E1, E2; subst c' d'. rewrite <- HA in *. nia.
    + tauto.
  - intros d'. getadd. specialize (Hp d'). unfold POOL, DISTR in *. cbn [Z.eqb Pos.eqb andb].
    destruct (d' =? d) eqn:E; cbn [andb]; [apply Z.eqb_eq in E; subst d'|]; lia.
Qed.

Lemma ninv_zero_forfeit : forall c d A m, A = get (c, d) (alloc m) -> ninv m -> ninv (m_zero_forfeit c d A m).
Proof.
  intros c d A m HA (Hn & Hp). unfold m_zero_forfeit; cbv zeta.
  assert (HA0 : 0 <= A) by (subst A; apply Hn).
  destruct (dtrunc_bounds A HA0) as [Ht Hc].
  set (t := dtrunc_int A) in *; clearbody t. unfold dec_of_int in *.
  split; unfold nonneg_ok, pool_ok in *; cbn [bank cpool outst comm alloc g_cred g_pv g_pc g_dust g_forf g_mint log]; [|exact Hp].
  intros c' d'. getadd. specialize (Hn c' d'). destruct ((c' =? c) && (d' =? d)) eqn:E.
  - apply andb_true_iff in E; destruct E as [E1 E2]; apply Z.eqb_eq in E1, E2; subst c' d'. rewrite <- HA in *. nia.
  - tauto.
Qed.

Lemma ninv_paid : forall c d A tax evs m,
  A = get (c, d) (alloc m) -> 0 <= tax <= P ->
  let vr := dmul_trunc A (dsub (dec_of_int 1) tax) in
  let vrT := dtrunc_int vr in
  let remR := dtrunc_int (dsub A vr) in
  vrT <= get (POOL, d) (bank m) -> remR <= get (POOL, d) (bank m) - vrT ->
  0 <= sum_amt evs -> 0 <= dec_of_int vrT - sum_amt evs ->
  ninv m -> ninv (m_paid c d A tax evs m).
Proof.
  intros c d A tax evs m HA Htax vr vrT remR H1 H2 HS HD (Hn & Hp). unfold m_paid; cbv zeta.
  assert (HA0 : 0 <= A) by (subst A; apply Hn).
  assert (Hvr : 0 <= vr <= A).
  { apply dmul_trunc_bounds; [lia | unfold dsub, dec_of_int; lia]. }
  destruct (dtrunc_bounds vr ltac:(lia)) as [Hv1 Hv2].
  destruct (dtrunc_bounds (dsub A vr) ltac:(unfold dsub; lia)) as [Hr1 Hr2].
  fold vr vrT remR. fold vrT in Hv1, Hv2. fold remR in Hr1, Hr2.
  set (S := sum_amt evs) in *; clearbody S. clearbody remR. clearbody vrT. clearbody vr.
  unfold dsub, dec_of_int in *.
  split; unfold nonneg_ok, pool_ok in *; cbn [bank cpool outst comm alloc g_cred g_pv g_pc g_dust g_forf g_mint log].
  - intros c' d'. getadd. specialize (Hn c' d'). destruct ((c' =? c) && (d' =? d)) eqn:E.
    + apply andb_true_iff in E; destruct E as [E1 E2]; apply Z.eqb_eq in E1, E2; subst c' d'. rewrite <- HA in *. nia.
    + tauto.
  - intros d'. getadd. specialize (Hp d'). unfold POOL, DISTR in *. cbn [Z.eqb Pos.eqb andb].
    destruct (d' =? d) eqn:E; cbn [andb]; [apply Z.eqb_eq in E; subst d'|]; lia.
Qed.

(* ---- the log *)
Fixpoint log_amt (v d : Z) (l : list event) : Z :=
  match l with [] => 0 | e :: r => (if (ev_v e =? v) && (ev_d e =? d) then ev_amt e else 0) + log_amt v d r end.
Fixpoint log_comm (v d : Z) (l : list event) : Z :=
  match l with [] => 0 | e :: r => (if (ev_v e =? v) && (ev_d e =? d) then ev_comm e else 0) + log_comm v d r end.

Lemma log_amt_app : forall v d l1 l2, log_amt v d (l1 ++ l2) = log_amt v d l1 + log_amt v d l2.
Proof. intros v d l1 l2; induction l1 as [|e r IH]; cbn [app log_amt]; lia. Qed.
Lemma log_comm_app : forall v d l1 l2, log_comm v d (l1 ++ l2) = log_comm v d l1 + log_comm v d l2.
Proof. intros v d l1 l2; induction l1 as [|e r IH]; cbn [app log_comm]; lia. Qed.
Lemma log_amt_fold : forall v d l,
  fold_right (fun e a => (if (ev_v e =? v) && (ev_d e =? d) then ev_amt e else 0) + a) 0 l = log_amt v d l.
Proof. intros v d l; induction l as [|e r IH]; cbn [fold_right log_amt]; lia. Qed.
Lemma log_comm_fold : forall v d l,
  fold_right (fun e a => (if (ev_v e =? v) && (ev_d e =? d) then ev_comm e else 0) + a) 0 l = log_comm v d l.
Proof. intros v d l; induction l as [|e r IH]; cbn [fold_right log_comm]; lia. Qed.

Definition log_ok (m : money) : Prop := forall v d,
  get (v, d) (outst m) = log_amt v d (log m) /\ get (v, d) (comm m) = log_comm v d (log m).

(* an event is justified by the configuration f and the block environment env *)
Definition denom_listed (f : conf) (c d : Z) : Prop := In d (registered f ++ lookup_list c (allowl f)).
Definition justified (f : conf) (env : benv) (e : event) : Prop :=
  ev_h e = b_h env /\ ev_thr e = epochs f * bpe f /\
  In (mkV (ev_v e) (ev_pow e) (ev_join e)) (lookup_list (ev_c e) (valsets f)) /\
  ev_thr e <= ev_h e - ev_join e /\
  ev_total e = total_power (ev_thr e) (ev_h e) (lookup_list (ev_c e) (valsets f)) /\
  ev_amt e = val_share (ev_T e) (ev_total e) (ev_pow e) /\
  (exists own, lookup (ev_v e) (b_staking env) = Some own /\
     ev_rate e = match crate (ev_c e, ev_v e) (crates f) with Some r => r | None => own end) /\
  ev_comm e = dmul (ev_amt e) (ev_rate e).

Lemma Forall2_right : forall {A B} (R : A -> B -> Prop) l1 l2, Forall2 R l1 l2 ->
  Forall (fun b => exists a, In a l1 /\ R a b) l2.
Proof.
  intros A B R l1 l2 H; induction H as [|a b l1 l2 Hab Hr IH]; constructor.
  - exists a; split; [left; reflexivity | exact Hab].
  - eapply Forall_impl; [|exact IH]. intros b' (a' & Hin & HR); exists a'; split; [right; exact Hin | exact HR].
Qed.

Lemma events_justified : forall env f c d T evs,
  let vs := lookup_list c (valsets f) in
  let thr := epochs f * bpe f in
  let total := total_power thr (b_h env) vs in
  events env f c d thr total T vs = Some evs ->
  Forall (fun e => justified f env e /\ ev_c e = c /\ ev_d e = d /\ ev_T e = T) evs.
Proof.
  intros env f c d T evs vs thr total H. apply events_spec in H. apply Forall2_right in H.
  eapply Forall_impl; [|exact H]. intros e (x & Hin & Hm).
  unfold elig_list in Hin; apply filter_In in Hin; destruct Hin as [Hin Hel].
  apply mk_event_fields in Hm. destruct Hm as (Hh & Hc & Hd & Hv & Hp & Hj & Hthr & Htot & HT & Ha & Hco & Hr & _).
  unfold eligible in Hel; apply Z.leb_le in Hel.
  unfold justified. rewrite Hh, Hc, Hd, Hv, Hp, Hj, Hthr, Htot, HT. destruct x as [xi xp xj]; cbn [cv_id cv_pow cv_join] in *.
  repeat split; auto.
Qed.

(* ---- alloc_body / alloc_one / begin_block preserve the invariants *)
Lemma alloc_body_inv : forall env f c d m m', alloc_body env f c d m = Some m' ->
  (pinv m -> pinv m') /\
  (env_wf env -> conf_wf f -> ninv m -> ninv m') /\
  (log_ok m -> log_ok m') /\
  (exists new, log m' = log m ++ new /\ Forall (fun e => justified f env e /\ ev_c e = c /\ ev_d e = d) new).
Proof.
  intros env f c d m m' H. apply alloc_body_cases in H. cbv zeta in H.
  destruct H as (HA & Hch & [(Ht & Hle & _ & Hm) | (Ht & Hft & evs & Hev & H1 & H2 & Hm)]); subst m'.
  - split; [|split; [|split]].
    + intros Hp; apply pinv_zero_funded; [reflexivity | exact Hp].
    + intros _ _ Hn; apply ninv_zero_funded; [reflexivity | exact Hle | exact Hn].
    + intros Hl; exact Hl.
    + exists []; rewrite app_nil_r; split; [reflexivity | constructor].
  - set (A := get (c, d) (alloc m)) in *.
    set (vr := dmul_trunc A (dsub (dec_of_int 1) (b_tax env))) in *.
    set (vrT := dtrunc_int vr) in *.
    set (vs := lookup_list c (valsets f)) in *.
    set (thr := epochs f * bpe f) in *.
    set (total := total_power thr (b_h env) vs) in *.
    assert (Hjust : Forall (fun e => justified f env e /\ ev_c e = c /\ ev_d e = d) evs).
    { destruct (vrT =? 0); [apply some_inj in Hev; subst evs; constructor|].
      eapply Forall_impl; [|apply (events_justified env f c d vrT evs Hev)]. intros e (Hj1 & Hj2 & Hj3 & _); split; [exact Hj1 | split; [exact Hj2 | exact Hj3]]. }
    assert (Hd : Forall (fun e => ev_d e = d) evs) by (eapply Forall_impl; [|exact Hjust]; intros e (_ & _ & Hj3); exact Hj3).
    split; [|split; [|split]].
    + intros Hp; apply pinv_paid; [exact Hd | exact Hp].
    + intros Hew Hcw Hn.
      assert (HA0 : 0 <= A) by (destruct Hn as [Hn _]; apply Hn).
      assert (Hvr : 0 <= vr <= A) by (apply dmul_trunc_bounds; [lia | unfold env_wf in Hew; unfold dsub, dec_of_int; lia]).
      destruct (dtrunc_bounds vr ltac:(lia)) as [Hv1 _]. fold vrT in Hv1.
      destruct (paid_events_facts env f c d thr vrT vs evs Hev Hv1 Ht (Hcw c)) as (_ & HS & HD & _).
      apply ninv_paid; auto.
    + intros Hl v d'. unfold m_paid; cbv zeta; cbn [outst comm log].
      rewrite get_pay_outst, get_pay_comm, log_amt_fold, log_comm_fold, log_amt_app, log_comm_app.
      destruct (Hl v d') as [Ho Hc]. lia.
    + exists evs. split; [reflexivity | exact Hjust].
Qed.

Definition mstep (env : benv) (f : conf) (R : event -> Prop) (m m' : money) : Prop :=
  (pinv m -> pinv m') /\
  (env_wf env -> conf_wf f -> ninv m -> ninv m') /\
  (log_ok m -> log_ok m') /\
  (exists new, log m' = log m ++ new /\ Forall R new).

Lemma mstep_refl : forall env f R m, mstep env f R m m.
Proof.
  intros; unfold mstep; repeat (split; [tauto|]). exists []; rewrite app_nil_r; split; [reflexivity | constructor].
Qed.

Lemma mstep_trans : forall env f R m1 m2 m3, mstep env f R m1 m2 -> mstep env f R m2 m3 -> mstep env f R m1 m3.
Proof.
  intros env f R m1 m2 m3 (A1 & B1 & C1 & n1 & L1 & F1) (A2 & B2 & C2 & n2 & L2 & F2).
  unfold mstep; repeat (split; [tauto|]). exists (n1 ++ n2). rewrite L2, L1, app_assoc. split; [reflexivity|].
  apply Forall_app; split; assumption.
Qed.

Lemma mstep_weaken : forall env f (R R' : event -> Prop) m m', (forall e, R e -> R' e) -> mstep env f R m m' -> mstep env f R' m m'.
Proof.
  intros env f R R' m m' HR (A1 & B1 & C1 & n1 & L1 & F1). unfold mstep; repeat (split; [tauto|]).
  exists n1; split; [exact L1 | eapply Forall_impl; [exact HR | exact F1]].
Qed.

Lemma mstep_fold : forall {X} env f R (g : money -> X -> money) (l : list X),
  (forall x a, In x l -> mstep env f R a (g a x)) -> forall a, mstep env f R a (fold_left g l a).
Proof.
  intros X env f R g l; induction l as [|x r IH]; intros H a; cbn [fold_left]; [apply mstep_refl|].
  eapply mstep_trans; [apply H; left; reflexivity | apply IH; intros y b Hy; apply H; right; exact Hy].
Qed.

Definition listed (f : conf) (e : event) : Prop :=
  (exists i, In i (cons f) /\ ci_id i = ev_c e /\ ci_client i = true) /\ denom_listed f (ev_c e) (ev_d e).

Lemma alloc_one_mstep : forall env f c m d,
  mstep env f (fun e => justified f env e /\ ev_c e = c /\ ev_d e = d) m (alloc_one env f c m d).
Proof.
  intros env f c m d; unfold alloc_one. destruct (alloc_body env f c d m) as [m'|] eqn:E; [|apply mstep_refl].
  destruct (alloc_body_inv _ _ _ _ _ _ E) as (A & B & C & D). unfold mstep; tauto.
Qed.

Lemma begin_block_mstep : forall env f m,
  mstep env f (fun e => justified f env e /\ listed f e) m (begin_block env f m).
Proof.
  intros env f m; unfold begin_block. destruct (1 <? b_h env); [|apply mstep_refl].
  apply mstep_fold. intros i a Hi. unfold alloc_consumer. destruct (ci_client i) eqn:Ecl; [|apply mstep_refl].
  apply mstep_fold. intros d b Hd.
  eapply mstep_weaken; [|apply alloc_one_mstep]. cbv beta. intros e (Hj & Hc & Hdd). split; [exact Hj|].
  unfold listed, denom_listed. rewrite Hc, Hdd. split; [exists i; auto | exact Hd].
Qed.

(* ================================================================== consumer chain *)
Definition row4 (b : kmap) (d : Z) : Z := get (FC, d) b + get (CR, d) b + get (TS, d) b + get (ES, d) b.
Definition bank_nonneg (b : kmap) : Prop := forall a d, 0 <= get (a, d) b.

Lemma split_denom_get : forall frac b d a d',
  get (a, d') (split_denom frac b d) =
  if d' =? d then
    (if a =? FC then 0
     else if a =? CR then get (CR, d) b + cons_share (get (FC, d) b) frac
     else if a =? TS then get (TS, d) b + (get (FC, d) b - cons_share (get (FC, d) b) frac)
     else get (a, d) b)
  else get (a, d') b.
Proof.
  intros frac b d a d'; unfold split_denom; cbv zeta. rewrite !get_move; keq.
  unfold FC, CR, TS. destruct (d' =? d) eqn:Ed.
  - apply Z.eqb_eq in Ed; subst d'. rewrite !andb_true_r.
    destruct (a =? 0) eqn:E0; [apply Z.eqb_eq in E0; subst a; cbn; lia|].
    destruct (a =? 1) eqn:E1; [apply Z.eqb_eq in E1; subst a; cbn; lia|].
    destruct (a =? 2) eqn:E2; [apply Z.eqb_eq in E2; subst a; cbn; lia|]. lia.
  - rewrite !andb_false_r. lia.
Qed.

Lemma split_denom_nonneg : forall frac b d, 0 <= frac <= P -> bank_nonneg b -> bank_nonneg (split_denom frac b d).
Proof.
  intros frac b d Hf Hb a d'. rewrite split_denom_get.
  pose proof (cons_share_bounds (get (FC, d) b) frac (Hb FC d) Hf) as Hs.
  pose proof (Hb CR d); pose proof (Hb TS d); pose proof (Hb a d); pose proof (Hb a d').
  destruct (d' =? d); [|lia]. destruct (a =? FC); [lia|]. destruct (a =? CR); [lia|]. destruct (a =? TS); lia.
Qed.

Lemma split_denom_row4 : forall frac b d d', row4 (split_denom frac b d) d' = row4 b d'.
Proof.
  intros frac b d d'; unfold row4. rewrite !split_denom_get. unfold FC, CR, TS, ES; cbn [Z.eqb Pos.eqb].
  destruct (d' =? d) eqn:Ed; [apply Z.eqb_eq in Ed; subst d'|]; lia.
Qed.

Lemma dist_nonneg : forall frac denoms b, 0 <= frac <= P -> bank_nonneg b -> bank_nonneg (distribute_internally frac denoms b).
Proof.
  intros frac denoms; unfold distribute_internally; induction denoms as [|x r IH]; intros b Hf Hb; cbn [fold_left]; [exact Hb|].
  apply IH; [exact Hf | apply split_denom_nonneg; assumption].
Qed.

Lemma dist_row4 : forall frac denoms b d, row4 (distribute_internally frac denoms b) d = row4 b d.
Proof.
  intros frac denoms; unfold distribute_internally; induction denoms as [|x r IH]; intros b d; cbn [fold_left]; [reflexivity|].
  rewrite IH; apply split_denom_row4.
Qed.

Lemma dist_get_notin : forall frac denoms b a d, ~ In d denoms -> get (a, d) (distribute_internally frac denoms b) = get (a, d) b.
Proof.
  intros frac denoms; unfold distribute_internally; induction denoms as [|x r IH]; intros b a d Hn; cbn [fold_left]; [reflexivity|].
  rewrite IH by (intros H; apply Hn; right; exact H). rewrite split_denom_get.
  destruct (d =? x) eqn:E; [apply Z.eqb_eq in E; subst; exfalso; apply Hn; left; reflexivity | reflexivity].
Qed.

(* every denom of the fee collector is split exactly once *)
Lemma dist_get_in : forall frac denoms b a d, NoDup denoms -> In d denoms ->
  get (a, d) (distribute_internally frac denoms b) =
  if a =? FC then 0
  else if a =? CR then get (CR, d) b + cons_share (get (FC, d) b) frac
  else if a =? TS then get (TS, d) b + (get (FC, d) b - cons_share (get (FC, d) b) frac)
  else get (a, d) b.
Proof.
  intros frac denoms; induction denoms as [|x r IH]; intros b a d Hnd Hin; [contradiction|].
  inversion Hnd as [|? ? Hx Hr]; subst. change (distribute_internally frac (x :: r) b) with (distribute_internally frac r (split_denom frac b x)).
  destruct (Z.eq_dec d x) as [->|Hne].
  - rewrite dist_get_notin by exact Hx. rewrite split_denom_get, Z.eqb_refl. reflexivity.
  - destruct Hin as [->|Hin]; [congruence|]. rewrite (IH _ a d Hr Hin). rewrite !split_denom_get.
    assert (E : (d =? x) = false) by (apply Z.eqb_neq; exact Hne). rewrite E. reflexivity.
Qed.

(* ---- transmission *)
Fixpoint qsum (d : Z) (q : list (Z * Z)) : Z :=
  match q with [] => 0 | (d', a) :: r => (if d' =? d then a else 0) + qsum d r end.

Lemma qsum_app : forall d q1 q2, qsum d (q1 ++ q2) = qsum d q1 + qsum d q2.
Proof. intros d q1 q2; induction q1 as [|[d' a] r IH]; cbn [app qsum]; lia. Qed.

Lemma send_loop_spec : forall fail allowed b q b' q', send_loop fail allowed b q = Some (b', q') ->
  bank_nonneg b ->
  bank_nonneg b' /\
  (forall d, get (FC, d) b' = get (FC, d) b /\ get (CR, d) b' = get (CR, d) b /\
             get (TS, d) b' + get (ES, d) b' = get (TS, d) b + get (ES, d) b /\
             get (ES, d) b <= get (ES, d) b') /\
  (forall d, In d allowed -> get (TS, d) b' = 0 /\ get (ES, d) b' = get (ES, d) b + get (TS, d) b) /\
  (forall d, ~ In d allowed -> get (TS, d) b' = get (TS, d) b /\ get (ES, d) b' = get (ES, d) b) /\
  (exists sent, q' = q ++ sent /\ (forall d, qsum d sent = get (ES, d) b' - get (ES, d) b) /\
                Forall (fun s => In (fst s) allowed /\ 0 < snd s /\ memz (fst s) fail = false) sent).
Proof.
  intros fail allowed; induction allowed as [|x r IH]; intros b q b' q' H Hb; cbn [send_loop] in H.
  - apply some_inj in H. inversion H; subst b' q'. split; [exact Hb|]. split; [intros; repeat split; lia|].
    split; [intros d []|]. split; [intros; split; reflexivity|]. exists []; rewrite app_nil_r; split; [reflexivity|].
    split; [intros; cbn; lia | constructor].
  - destruct (get (TS, x) b =? 0) eqn:E0.
    + apply Z.eqb_eq in E0. destruct (IH _ _ _ _ H Hb) as (N & A & B & C & sent & Q & S & F).
      split; [exact N|]. split; [exact A|]. split.
      { intros d [->|Hin]; [|apply B; exact Hin].
        destruct (in_dec Z.eq_dec d r) as [Hi|Hi]; [apply B; exact Hi|]. destruct (C d Hi) as [C1 C2]. lia. }
      split; [intros d Hn; apply C; intros Hi; apply Hn; right; exact Hi|].
      exists sent; split; [exact Q|]. split; [exact S|]. eapply Forall_impl; [|exact F]. intros s (S1 & S2); split; [right; exact S1 | exact S2].
    + apply Z.eqb_neq in E0. destruct (memz x fail) eqn:Ef; [discriminate|].
      set (b1 := move TS ES x (get (TS, x) b) b) in *.
      assert (G : forall a d, get (a, d) b1 =
                 get (a, d) b + (if (a =? ES) && (d =? x) then get (TS, x) b else 0) - (if (a =? TS) && (d =? x) then get (TS, x) b else 0)).
      { intros a d; unfold b1; rewrite get_move; keq; reflexivity. }
      assert (Hb1 : bank_nonneg b1).
      { intros a d; rewrite G. pose proof (Hb a d); pose proof (Hb TS x).
        destruct ((a =? TS) && (d =? x)) eqn:E1.
        - apply andb_true_iff in E1; destruct E1 as [E1 E2]; apply Z.eqb_eq in E1, E2; subst a d.
          unfold TS, ES; cbn [Z.eqb Pos.eqb andb]. lia.
        - destruct ((a =? ES) && (d =? x)); lia. }
      destruct (IH _ _ _ _ H Hb1) as (N & A & B & C & sent & Q & S & F).
      assert (GF : forall d, get (FC, d) b1 = get (FC, d) b) by (intros d; rewrite G; unfold FC, ES, TS; cbn [Z.eqb Pos.eqb andb]; lia).
      assert (GC : forall d, get (CR, d) b1 = get (CR, d) b) by (intros d; rewrite G; unfold CR, ES, TS; cbn [Z.eqb Pos.eqb andb]; lia).
      assert (GT : forall d, get (TS, d) b1 = if d =? x then 0 else get (TS, d) b).
      { intros d; rewrite G; unfold ES, TS; cbn [Z.eqb Pos.eqb andb]. destruct (d =? x) eqn:E; [apply Z.eqb_eq in E; subst d|]; lia. }
      assert (GE : forall d, get (ES, d) b1 = if d =? x then get (ES, d) b + get (TS, x) b else get (ES, d) b).
      { intros d; rewrite G; unfold ES, TS; cbn [Z.eqb Pos.eqb andb]. destruct (d =? x) eqn:E; lia. }
      pose proof (Hb TS x) as Hx0.
      split; [exact N|]. split.
      { intros d. destruct (A d) as (A1 & A2 & A3 & A4). rewrite GF, GC, GT, GE in *.
        destruct (d =? x) eqn:E; [apply Z.eqb_eq in E; subst d|]; repeat split; lia. }
      split.
      { intros d Hin. destruct (in_dec Z.eq_dec d r) as [Hi|Hi].
        - destruct (B d Hi) as [B1 B2]. rewrite GT, GE in B2. split; [exact B1|].
          destruct (d =? x) eqn:E; [apply Z.eqb_eq in E; subst d|]; lia.
        - destruct (C d Hi) as [C1 C2]. destruct Hin as [->|Hin]; [|contradiction]. rewrite GT, GE, Z.eqb_refl in *. lia. }
      split.
      { intros d Hn. assert (Hi : ~ In d r) by (intros Hi; apply Hn; right; exact Hi). destruct (C d Hi) as [C1 C2].
        assert (E : (d =? x) = false) by (apply Z.eqb_neq; intros ->; apply Hn; left; reflexivity).
        rewrite GT, GE, E in *. split; assumption. }
      exists ((x, get (TS, x) b) :: sent). rewrite Q, <- app_assoc. split; [reflexivity|]. split.
      { intros d; cbn [qsum]. rewrite S, GE. rewrite (Z.eqb_sym x d). destruct (d =? x) eqn:E; [apply Z.eqb_eq in E; subst d|]; lia. }
      constructor; [cbn [fst snd]; split; [left; reflexivity | split; [lia | exact Ef]]|].
      eapply Forall_impl; [|exact F]. intros s (S1 & S2); split; [right; exact S1 | exact S2].
Qed.

Definition same_config (c c' : cstate) : Prop :=
  c_frac c' = c_frac c /\ c_bpdt c' = c_bpdt c /\ c_allowed c' = c_allowed c /\ c_denoms c' = c_denoms c /\
  c_memo c' = c_memo c /\ c_chan c' = c_chan c /\ c_to_pool c' = c_to_pool c /\ c_dmap c' = c_dmap c.

Lemma end_block_rd_spec : forall h open fail c,
  bank_nonneg (c_bank c) -> 0 <= c_frac c <= P ->
  let b1 := distribute_internally (c_frac c) (c_denoms c) (c_bank c) in
  let c' := end_block_rd h open fail c in
  same_config c c' /\ g_fees c' = g_fees c /\ g_deliv c' = g_deliv c /\
  bank_nonneg (c_bank c') /\
  (forall d, get (FC, d) (c_bank c') = get (FC, d) b1 /\ get (CR, d) (c_bank c') = get (CR, d) b1 /\
             get (TS, d) (c_bank c') + get (ES, d) (c_bank c') = get (TS, d) b1 + get (ES, d) b1 /\
             get (ES, d) b1 <= get (ES, d) (c_bank c')) /\
  c_ltbh c' = (if should_send h (c_ltbh c) (c_bpdt c) then h else c_ltbh c) /\
  ((c_bank c' = b1 /\ c_inflight c' = c_inflight c)
   \/
   (should_send h (c_ltbh c) (c_bpdt c) = true /\ open = true /\
    (forall d, In d (c_allowed c) -> get (TS, d) (c_bank c') = 0 /\ get (ES, d) (c_bank c') = get (ES, d) b1 + get (TS, d) b1) /\
    (forall d, ~ In d (c_allowed c) -> get (TS, d) (c_bank c') = get (TS, d) b1 /\ get (ES, d) (c_bank c') = get (ES, d) b1) /\
    exists sent, c_inflight c' = c_inflight c ++ sent /\
                 (forall d, qsum d sent = get (ES, d) (c_bank c') - get (ES, d) b1) /\
                 Forall (fun s => In (fst s) (c_allowed c) /\ 0 < snd s /\ memz (fst s) fail = false) sent)).
Proof.
  intros h open fail c Hb Hf b1 c'. pose proof (dist_nonneg _ (c_denoms c) _ Hf Hb) as Hb1. fold b1 in Hb1.
  unfold c', end_block_rd. fold b1.
  assert (Triv : forall d, get (FC, d) b1 = get (FC, d) b1 /\ get (CR, d) b1 = get (CR, d) b1 /\
                          get (TS, d) b1 + get (ES, d) b1 = get (TS, d) b1 + get (ES, d) b1 /\ get (ES, d) b1 <= get (ES, d) b1)
    by (intros; repeat split; lia).
  destruct (should_send h (c_ltbh c) (c_bpdt c)) eqn:Es; cbn [negb].
  - destruct open.
    + destruct (send_loop fail (c_allowed c) b1 (c_inflight c)) as [[b2 q2]|] eqn:El.
      * destruct (send_loop_spec _ _ _ _ _ _ El Hb1) as (N & A & B & C & S).
        cbn [c_bank c_ltbh c_frac c_bpdt c_allowed c_denoms c_inflight c_memo c_chan c_to_pool c_dmap g_fees g_deliv].
        split; [unfold same_config; cbn [c_bank c_ltbh c_frac c_bpdt c_allowed c_denoms c_inflight c_memo c_chan c_to_pool c_dmap g_fees g_deliv]; repeat split; reflexivity|].
        repeat (split; [reflexivity|]). split; [exact N|]. split; [exact A|]. split; [reflexivity|].
        right. repeat (split; [reflexivity|]). split; [exact B|]. split; [exact C|]. exact S.
      * cbn [c_bank c_ltbh c_frac c_bpdt c_allowed c_denoms c_inflight c_memo c_chan c_to_pool c_dmap g_fees g_deliv]. split; [unfold same_config; cbn [c_bank c_ltbh c_frac c_bpdt c_allowed c_denoms c_inflight c_memo c_chan c_to_pool c_dmap g_fees g_deliv]; repeat split; reflexivity|].
        repeat (split; [reflexivity|]). split; [exact Hb1|]. split; [exact Triv|]. split; [reflexivity|]. left; split; reflexivity.
    + cbn [c_bank c_ltbh c_frac c_bpdt c_allowed c_denoms c_inflight c_memo c_chan c_to_pool c_dmap g_fees g_deliv]. split; [unfold same_config; cbn [c_bank c_ltbh c_frac c_bpdt c_allowed c_denoms c_inflight c_memo c_chan c_to_pool c_dmap g_fees g_deliv]; repeat split; reflexivity|].
      repeat (split; [reflexivity|]). split; [exact Hb1|]. split; [exact Triv|]. split; [reflexivity|]. left; split; reflexivity.
  - unfold c_with_bank; cbn [c_bank c_ltbh c_frac c_bpdt c_allowed c_denoms c_inflight c_memo c_chan c_to_pool c_dmap g_fees g_deliv]. split; [unfold same_config; cbn [c_bank c_ltbh c_frac c_bpdt c_allowed c_denoms c_inflight c_memo c_chan c_to_pool c_dmap g_fees g_deliv]; repeat split; reflexivity|].
    repeat (split; [reflexivity|]). split; [exact Hb1|]. split; [exact Triv|]. split; [reflexivity|]. left; split; reflexivity.
Qed.

Lemma fund_fees_spec : forall fees c,
  let c' := fund_fees fees c in
  same_config c c' /\ c_ltbh c' = c_ltbh c /\ c_inflight c' = c_inflight c /\ g_deliv c' = g_deliv c /\
  (forall a d, get (a, d) (c_bank c') = get (a, d) (c_bank c) + (if a =? FC then qsum d fees else 0)) /\
  (forall d, get (0, d) (g_fees c') = get (0, d) (g_fees c) + qsum d fees).
Proof.
  intros fees; induction fees as [|[fd fa] r IH]; intros c; cbn [fund_fees fold_left].
  - split; [unfold same_config; repeat split; reflexivity|]. repeat (split; [reflexivity|]).
    split; [intros a d; cbn [qsum]; destruct (a =? FC); lia | intros d; cbn [qsum]; lia].
  - match goal with |- context [fold_left ?g r ?c0] => specialize (IH c0); change (fold_left g r c0) with (fund_fees r c0) in * end.
    cbv zeta in IH. destruct IH as (S & L & I & D & B & G).
    unfold same_config in *; cbn [c_bank c_ltbh c_frac c_bpdt c_allowed c_denoms c_inflight c_memo c_chan c_to_pool c_dmap g_fees g_deliv fst snd] in *.
    destruct S as (S1 & S2 & S3 & S4 & S5 & S6 & S7 & S8).
    split; [repeat split; assumption|]. repeat (split; [assumption|]). split.
    + intros a d. rewrite B, get_add; keq. cbn [qsum]. unfold FC. rewrite (Z.eqb_sym d fd).
      destruct (a =? 0); cbn [andb]; [destruct (fd =? d)|]; lia.
    + intros d. rewrite G, get_add; keq. cbn [qsum Z.eqb andb]. rewrite (Z.eqb_sym d fd). destruct (fd =? d); lia.
Qed.

Lemma dist_get_ES : forall frac denoms b d, get (ES, d) (distribute_internally frac denoms b) = get (ES, d) b.
Proof.
  intros frac denoms; unfold distribute_internally; induction denoms as [|x r IH]; intros b d; cbn [fold_left]; [reflexivity|].
  rewrite IH, split_denom_get. unfold ES, FC, CR, TS; cbn [Z.eqb Pos.eqb]. destruct (d =? x) eqn:E; [apply Z.eqb_eq in E; subst|]; reflexivity.
Qed.

Definition qnonneg (q : list (Z * Z)) : Prop := Forall (fun s => 0 <= snd s) q.

Lemma qsum_nonneg : forall d q, qnonneg q -> 0 <= qsum d q.
Proof.
  intros d q H; induction H as [|[d' a] r Ha Hr IH]; cbn [qsum]; [lia|]. cbn [snd] in Ha. destruct (d' =? d); lia.
Qed.

Definition cinv (c : cstate) : Prop :=
  bank_nonneg (c_bank c) /\ qnonneg (c_inflight c) /\ 0 <= c_frac c <= P /\
  (forall d, row4 (c_bank c) d = get (0, d) (g_fees c)) /\
  (forall d, get (ES, d) (c_bank c) = qsum d (c_inflight c) + get (0, d) (g_deliv c)) /\
  (forall d, 0 <= get (0, d) (g_deliv c)).

Lemma cblock_cinv : forall h fees open fail c, qnonneg fees -> cinv c -> cinv (cblock h fees open fail c).
Proof.
  intros h fees open fail c Hfees (Hb & Hq & Hf & Hr & He & Hd). unfold cblock.
  destruct (fund_fees_spec fees c) as (S & L & I & D & B & G). cbv zeta in *.
  set (c1 := fund_fees fees c) in *.
  destruct S as (S1 & S2 & S3 & S4 & _).
  assert (Hb1 : bank_nonneg (c_bank c1)).
  { intros a d; rewrite B. pose proof (Hb a d). pose proof (qsum_nonneg d fees Hfees). destruct (a =? FC); lia. }
  assert (Hf1 : 0 <= c_frac c1 <= P) by (rewrite S1; exact Hf).
  destruct (end_block_rd_spec h open fail c1 Hb1 Hf1) as (_ & GF & GD & N & A & _ & Alt). cbv zeta in *.
  set (c' := end_block_rd h open fail c1) in *.
  set (b1 := distribute_internally (c_frac c1) (c_denoms c1) (c_bank c1)) in *.
  assert (R1 : forall d, row4 (c_bank c1) d = get (0, d) (g_fees c1)).
  { intros d; unfold row4; rewrite !B, G. specialize (Hr d); unfold row4 in Hr. unfold FC, CR, TS, ES in *; cbn [Z.eqb Pos.eqb]. lia. }
  assert (E1 : forall d, get (ES, d) (c_bank c1) = qsum d (c_inflight c1) + get (0, d) (g_deliv c1)).
  { intros d; rewrite B, I, D. specialize (He d). unfold ES, FC in *; cbn [Z.eqb Pos.eqb]. lia. }
  unfold cinv. split; [exact N|].
  assert (HES : forall d, get (ES, d) b1 = get (ES, d) (c_bank c1)) by (intros d; apply dist_get_ES).
  split.
  { destruct Alt as [[_ Q]|(_ & _ & _ & _ & sent & Q & _ & F)]; rewrite Q, I.
    - exact Hq.
    - apply Forall_app; split; [exact Hq|]. eapply Forall_impl; [|exact F]. intros s (_ & s2 & _); lia. }
  split.
  { destruct (end_block_rd_spec h open fail c1 Hb1 Hf1) as ((T1 & _) & _). fold c' in T1. rewrite T1, S1. exact Hf. }
  split.
  { intros d. rewrite GF, <- R1. destruct (A d) as (A1 & A2 & A3 & _). unfold row4.
    pose proof (dist_row4 (c_frac c1) (c_denoms c1) (c_bank c1) d) as Hd4. fold b1 in Hd4. unfold row4 in Hd4. lia. }
  split.
  { intros d. rewrite GD. destruct Alt as [[Q1 Q2]|(_ & _ & _ & _ & sent & Q & Sq & _)].
    - rewrite Q1, Q2, HES. apply E1.
    - rewrite Q, qsum_app, Sq, HES. specialize (E1 d). lia. }
  intros d; rewrite GD, D; apply Hd.
Qed.

Lemma cset_params_cinv : forall frac bpdt allowed c, 0 <= frac <= P -> cinv c -> cinv (cset_params frac bpdt allowed c).
Proof.
  intros frac bpdt allowed c Hf (Hb & Hq & _ & Hr & He & Hd). unfold cinv, cset_params; cbn [c_bank c_inflight c_frac g_fees g_deliv]. tauto.
Qed.

Lemma crefund_cinv : forall c, cinv c -> cinv (crefund c).
Proof.
  intros c (Hb & Hq & Hf & Hr & He & Hd). unfold crefund. destruct (c_inflight c) as [|[d a] q] eqn:Eq; [unfold cinv; rewrite Eq; tauto|].
  inversion Hq as [|? ? Ha Hq']; subst. cbn [snd] in Ha.
  assert (G : forall x d', get (x, d') (move ES TS d a (c_bank c)) =
               get (x, d') (c_bank c) + (if (x =? TS) && (d' =? d) then a else 0) - (if (x =? ES) && (d' =? d) then a else 0))
    by (intros; rewrite get_move; keq; reflexivity).
  unfold cinv; cbn [c_bank c_inflight c_frac g_fees g_deliv].
  split.
  { intros x d'. rewrite G. pose proof (Hb x d'). specialize (He d'). cbn [qsum] in He.
    pose proof (qsum_nonneg d' q Hq'). pose proof (Hd d').
    destruct ((x =? ES) && (d' =? d)) eqn:E.
    - apply andb_true_iff in E; destruct E as [E1 E2]; apply Z.eqb_eq in E1, E2; subst x d'. rewrite Z.eqb_refl in He.
      unfold ES, TS in *; cbn [Z.eqb Pos.eqb andb]. lia.
    - destruct ((x =? TS) && (d' =? d)); lia. }
  split; [exact Hq'|]. split; [exact Hf|]. split.
  { intros d'. rewrite <- Hr. unfold row4. rewrite !G. unfold FC, CR, TS, ES; cbn [Z.eqb Pos.eqb andb]. destruct (d' =? d); lia. }
  split; [|exact Hd].
  intros d'. rewrite G. specialize (He d'). cbn [qsum] in He. unfold ES, TS in *; cbn [Z.eqb Pos.eqb andb].
  rewrite (Z.eqb_sym d d') in He. destruct (d' =? d); lia.
Qed.

Lemma cdelivered_cinv : forall c, cinv c -> cinv (cdelivered c).
Proof.
  intros c (Hb & Hq & Hf & Hr & He & Hd). unfold cdelivered. destruct (c_inflight c) as [|[d a] q] eqn:Eq; [unfold cinv; rewrite Eq; tauto|].
  inversion Hq as [|? ? Ha Hq']; subst. cbn [snd] in Ha.
  unfold cinv; cbn [c_bank c_inflight c_frac g_fees g_deliv].
  split; [exact Hb|]. split; [exact Hq'|]. split; [exact Hf|]. split; [exact Hr|]. split.
  - intros d'. rewrite get_add; keq. specialize (He d'). cbn [qsum Z.eqb andb] in *. rewrite (Z.eqb_sym d d') in He. destruct (d' =? d); lia.
  - intros d'. rewrite get_add; keq. specialize (Hd d'). cbn [Z.eqb andb]. destruct (d' =? d); lia.
Qed.

(* ================================================================== the other provider operations *)
Definition mstep0 (m m' : money) : Prop :=
  (pinv m -> pinv m') /\ (log_ok m -> log_ok m') /\ log m' = log m /\ outst m' = outst m /\ comm m' = comm m /\ cpool m' = cpool m.

Ltac mfields := cbn [bank cpool outst comm alloc g_cred g_pv g_pc g_dust g_forf g_mint log].

Lemma fund_mstep0 : forall d amt m, mstep0 m (fund d amt m).
Proof.
  intros d amt m; unfold mstep0, fund; mfields. split; [|split; [intros Hl; exact Hl | repeat split]].
  intros (Ha & Hb & Hd & Hl). unfold pinv, acct_ok, bank_ok, distr_ok, link_ok in *; mfields.
  split; [exact Ha|]. split; [|split; [|exact Hl]].
  - intros d'. getadd. specialize (Hb d'). unfold POOL, DISTR, OTHER in *; cbn [Z.eqb Pos.eqb andb]. destruct (d' =? d); lia.
  - intros d'. getadd. specialize (Hd d'). unfold POOL, DISTR in *; cbn [Z.eqb Pos.eqb andb]. lia.
Qed.

Lemma fund_ninv : forall d amt m, 0 <= amt -> ninv m -> ninv (fund d amt m).
Proof.
  intros d amt m Ha (Hn & Hp); unfold ninv, fund, nonneg_ok, pool_ok in *; mfields. split; [exact Hn|].
  intros d'. getadd. specialize (Hp d'). destruct ((POOL =? POOL) && (d' =? d)); lia.
Qed.

Lemma credit_mstep0 : forall c d raw m, mstep0 m (credit c d raw m).
Proof.
  intros c d raw m; unfold mstep0, credit; mfields. split; [|split; [intros Hl; exact Hl | repeat split]].
  intros (Ha & Hb & Hd & Hl). unfold pinv, acct_ok, bank_ok, distr_ok, link_ok in *; mfields.
  split; [|split; [exact Hb|split; [exact Hd|exact Hl]]].
  intros c' d'. getadd. specialize (Ha c' d'). destruct ((c' =? c) && (d' =? d)); lia.
Qed.

Lemma credit_ninv : forall c d raw m, 0 <= raw -> ninv m -> ninv (credit c d raw m).
Proof.
  intros c d raw m Hr (Hn & Hp); unfold ninv, credit, nonneg_ok, pool_ok in *; mfields. split; [|exact Hp].
  intros c' d'. getadd. specialize (Hn c' d'). destruct ((c' =? c) && (d' =? d)); lia.
Qed.

(* the three outcomes of the middleware *)
Definition m_recv1 (d amt : Z) (to_pool : bool) (m : money) : money :=
  mkM (add ((if to_pool then POOL else OTHER), d) amt (bank m)) (cpool m) (outst m) (comm m) (alloc m)
      (g_cred m) (g_pv m) (g_pc m) (g_dust m) (g_forf m) (add (0, d) amt (g_mint m)) (log m).
Definition m_recv2 (c db d amt : Z) (m : money) : money :=
  let m1 := m_recv1 db amt true m in
  mkM (bank m1) (cpool m1) (outst m1) (comm m1) (add (c, d) (dec_of_int amt) (alloc m1))
      (add (c, d) (dec_of_int amt) (g_cred m1)) (g_pv m1) (g_pc m1) (g_dust m1) (g_forf m1) (g_mint m1) (log m1).

(* the consumer the middleware credits *)
Definition credited_consumer (ch memo : Z) (ack_ok to_pool : bool) (f : conf) : option Z :=
  if ack_ok && to_pool then
    match (if 0 <=? memo then Some memo else if memo =? (-2) then None else identify ch f) with
    | Some c => if has_chain c f then Some c else None
    | None => None
    end
  else None.

Lemma receive_cases : forall ch memo db d amt ack_ok to_pool f m,
  receive ch memo db d amt ack_ok to_pool f m =
  if negb ack_ok then m
  else match credited_consumer ch memo ack_ok to_pool f with
       | Some c => m_recv2 c db d amt m
       | None => m_recv1 db amt to_pool m
       end.
Proof.
  intros. unfold receive, credited_consumer. destruct ack_ok; cbn [negb andb]; [|reflexivity].
  destruct to_pool; cbn [negb]; [|reflexivity].
  destruct (if 0 <=? memo then Some memo else if memo =? -2 then None else identify ch f) as [c|]; [|reflexivity].
  destruct (has_chain c f); reflexivity.
Qed.

Lemma recv1_mstep0 : forall d amt to_pool m, mstep0 m (m_recv1 d amt to_pool m).
Proof.
  intros d amt to_pool m; unfold mstep0, m_recv1; mfields. split; [|split; [intros Hl; exact Hl | repeat split]].
  intros (Ha & Hb & Hd & Hl). unfold pinv, acct_ok, bank_ok, distr_ok, link_ok in *; mfields.
  split; [exact Ha|]. split; [|split; [|exact Hl]].
  - intros d'. getadd. specialize (Hb d'). unfold POOL, DISTR, OTHER in *. destruct to_pool; cbn [Z.eqb Pos.eqb andb]; destruct (d' =? d); lia.
  - intros d'. getadd. specialize (Hd d'). unfold POOL, DISTR, OTHER in *. destruct to_pool; cbn [Z.eqb Pos.eqb andb]; lia.
Qed.

Lemma recv2_mstep0 : forall c db d amt m, mstep0 m (m_recv2 c db d amt m).
Proof.
  intros c db d amt m. destruct (recv1_mstep0 db amt true m) as (A1 & B1 & C1 & D1 & E1 & F1).
  unfold mstep0, m_recv2, m_recv1; cbv zeta; mfields. split; [|split; [intros Hl; exact Hl | repeat split]].
  intros Hp. destruct (A1 Hp) as (Ha & Hb & Hd & Hl). unfold m_recv1 in *.
  unfold pinv, acct_ok, bank_ok, distr_ok, link_ok in *; mfields; cbn [bank cpool outst comm alloc g_cred g_pv g_pc g_dust g_forf g_mint log] in *.
  split; [|split; [exact Hb|split; [exact Hd|exact Hl]]].
  intros c' d'. getadd. specialize (Ha c' d'). destruct ((c' =? c) && (d' =? d)); lia.
Qed.

Lemma receive_mstep0 : forall ch memo db d amt ack_ok to_pool f m, mstep0 m (receive ch memo db d amt ack_ok to_pool f m).
Proof.
  intros. rewrite receive_cases. destruct (negb ack_ok).
  - unfold mstep0; split; [tauto|]. split; [tauto|]. repeat split.
  - destruct (credited_consumer ch memo ack_ok to_pool f); [apply recv2_mstep0 | apply recv1_mstep0].
Qed.

Lemma receive_ninv : forall ch memo db d amt ack_ok to_pool f m, 0 <= amt -> ninv m -> ninv (receive ch memo db d amt ack_ok to_pool f m).
Proof.
  intros ch memo db d amt ack_ok to_pool f m Ha (Hn & Hp). rewrite receive_cases. destruct (negb ack_ok); [split; assumption|].
  assert (H1 : forall tp, ninv (m_recv1 db amt tp m)).
  { intros tp; unfold ninv, m_recv1, nonneg_ok, pool_ok in *; mfields. split; [exact Hn|].
    intros d'. getadd. specialize (Hp d'). unfold POOL, OTHER in *. destruct tp; cbn [Z.eqb Pos.eqb andb]; [destruct (d' =? db)|]; lia. }
  destruct (credited_consumer ch memo ack_ok to_pool f) as [c|]; [|apply H1].
  destruct (H1 true) as (Hn1 & Hp1). unfold ninv, m_recv2, nonneg_ok, pool_ok in *; cbv zeta; mfields. split; [|exact Hp1].
  intros c' d'. unfold m_recv1 in *; mfields. getadd. specialize (Hn1 c' d'). mfields. cbn [alloc g_pv g_pc g_dust g_forf] in Hn1. unfold dec_of_int.
  pose proof P_pos. destruct ((c' =? c) && (d' =? d)); [nia | lia].
Qed.

(* ================================================================== the whole system *)
Definition sinv (s : state) : Prop := pinv (pm (prov s)) /\ log_ok (pm (prov s)).
Definition swf (s : state) : Prop := ninv (pm (prov s)) /\ conf_wf (pf (prov s)) /\ Forall cinv (chains s).

Definition wf_op (o : op) : Prop :=
  match o with
  | PFund _ amt => 0 <= amt
  | PCredit _ _ raw => 0 <= raw
  | PReceive _ _ _ amt _ _ => 0 <= amt
  | PBegin env => env_wf env
  | PSetValset _ vs => Forall (fun x => 0 <= cv_pow x) vs
  | PEpoch _ _ vps => Forall (fun vp => 0 <= snd vp) vps
  | CBlock _ _ fees _ _ => qnonneg fees
  | CSetParams _ frac _ _ => 0 <= frac <= P
  | _ => True
  end.

Definition money_op (o : op) : bool :=
  match o with PFund _ _ | PCredit _ _ _ | PReceive _ _ _ _ _ _ | PBegin _ => true | _ => false end.

Lemma pstep_conf_op : forall p o, money_op o = false -> pm (pstep p o) = pm p.
Proof.
  intros [m f] o H; destruct o; cbn in H; try discriminate; cbn [pstep pm pf]; try reflexivity.
  - destruct (change_denoms_ok auth_ok adds rems); reflexivity.
  - destruct (set_commission_ok c rate known f); reflexivity.
Qed.

Lemma pstep_money_op : forall p o, money_op o = true -> pf (pstep p o) = pf p.
Proof. intros [m f] o H; destruct o; cbn in H; try discriminate; reflexivity. Qed.

(* what a step does to the provider's money: the log only grows, by justified payouts *)
Definition new_ok (s : state) (o : op) (e : event) : Prop :=
  exists env, o = PBegin env /\ justified (pf (prov s)) env e /\ listed (pf (prov s)) e.

Lemma step_sinv_log : forall s o,
  (sinv s -> sinv (step s o)) /\
  exists new, log (pm (prov (step s o))) = log (pm (prov s)) ++ new /\ Forall (new_ok s o) new.
Proof.
  intros s o.
  assert (Nil : forall m', (pinv (pm (prov s)) -> pinv m') -> (log_ok (pm (prov s)) -> log_ok m') -> log m' = log (pm (prov s)) ->
     forall s', pm (prov s') = m' ->
     (sinv s -> sinv s') /\ exists new, log (pm (prov s')) = log (pm (prov s)) ++ new /\ Forall (new_ok s o) new).
  { intros m' A B C s' E. split; [intros (I1 & I2); unfold sinv; rewrite E; split; auto|].
    exists []; rewrite E, C, app_nil_r; split; [reflexivity | constructor]. }
  assert (Same : forall s', pm (prov s') = pm (prov s) ->
     (sinv s -> sinv s') /\ exists new, log (pm (prov s')) = log (pm (prov s)) ++ new /\ Forall (new_ok s o) new).
  { intros s' E. apply (Nil (pm (prov s))); auto. }
  destruct s as [[m f] ch]. cbn [prov pm pf] in *.
  destruct o; cbn [step pstep prov pm pf chains];
    try (apply Same; cbn [prov pm pf]; reflexivity).
  - destruct (fund_mstep0 d amt m) as (A & B & C & _). eapply Nil; eauto.
  - destruct (credit_mstep0 c d raw m) as (A & B & C & _). eapply Nil; eauto.
  - destruct (receive_mstep0 ch0 memo (bank_denom f ch0 segs) (cred_denom f ch0 segs) amt ack_ok to_pool f m) as (A & B & C & _). eapply Nil; eauto.
  - destruct (begin_block_mstep env f m) as (A & _ & C & new & L & F).
    split; [intros (I1 & I2); split; cbn [prov pm]; auto|]. cbn [prov pm].
    exists new; split; [exact L|]. eapply Forall_impl; [|exact F]. intros e (J & Li). exists env; cbn [prov pf]; auto.
  - apply Same; cbn [prov pm pf]. destruct (change_denoms_ok auth_ok adds rems); reflexivity.
  - apply Same; cbn [prov pm pf]. destruct (set_commission_ok c rate known f); reflexivity.
  - destruct (nth_error ch (Z.to_nat k)) as [c|]; [|apply Same; reflexivity].
    destruct (c_inflight c) as [|[d a] q]; [apply Same; reflexivity|].
    destruct ack_ok; [|apply Same; reflexivity]. cbn [prov pm pf].
    destruct (receive_mstep0 (c_chan c) (c_memo c) (bank_denom f (c_chan c) (wire c d)) (cred_denom f (c_chan c) (wire c d)) a true (c_to_pool c) f m) as (A & B & C & _). eapply Nil; eauto.
Qed.

Lemma step_sinv : forall s o, sinv s -> sinv (step s o).
Proof. intros s o; apply step_sinv_log. Qed.

Lemma run_sinv : forall ops s, sinv s -> sinv (run_ops s ops).
Proof. induction ops as [|o r IH]; intros s H; cbn [run_ops fold_left]; [exact H | apply IH, step_sinv, H]. Qed.

(* ---- well-formedness *)
Lemma lookup_put : forall {A} c' c (x : A) l, lookup c' (put c x l) = if c' =? c then Some x else lookup c' l.
Proof.
  intros A c' c x l; induction l as [|[k a] r IH]; cbn [put lookup].
  - destruct (c' =? c); reflexivity.
  - destruct (c =? k) eqn:E; cbn [lookup].
    + apply Z.eqb_eq in E; subst k. destruct (c' =? c); reflexivity.
    + destruct (c' =? k) eqn:E2; [|exact IH]. apply Z.eqb_eq in E2; subst k.
      destruct (c' =? c) eqn:E3; [apply Z.eqb_eq in E3; subst; rewrite Z.eqb_refl in E; discriminate | reflexivity].
Qed.

Lemma lookup_list_put : forall {A} c' c (x : list A) l, lookup_list c' (put c x l) = if c' =? c then x else lookup_list c' l.
Proof. intros; unfold lookup_list; rewrite lookup_put; destruct (c' =? c); reflexivity. Qed.

Lemma Forall_upd_nth : forall {A} (Q : A -> Prop) g n l, (forall x, Q x -> Q (g x)) -> Forall Q l -> Forall Q (upd_nth n g l).
Proof.
  intros A Q g n l Hg H; revert n; induction H as [|x r Hx Hr IH]; intros n; cbn [upd_nth]; [destruct n; constructor|].
  destruct n; constructor; auto.
Qed.

Lemma Forall_nth_error : forall {A} (Q : A -> Prop) l n x, Forall Q l -> nth_error l n = Some x -> Q x.
Proof. intros A Q l n x H E; rewrite Forall_forall in H; apply H; eapply nth_error_In; exact E. Qed.

Lemma step_swf : forall s o, wf_op o -> swf s -> swf (step s o).
Proof.
  intros [[m f] ch] o Hw (Hn & Hc & Hch); cbn [prov pm pf chains] in *.
  destruct o; cbn [wf_op] in Hw; cbn [step pstep]; unfold swf; cbn [prov pm pf chains];
    try (split; [exact Hn | split; [exact Hc | exact Hch]]).
  - split; [apply fund_ninv; assumption | split; assumption].
  - split; [apply credit_ninv; assumption | split; assumption].
  - split; [apply receive_ninv; assumption | split; assumption].
  - destruct (begin_block_mstep env f m) as (_ & B & _). split; [apply B; assumption | split; assumption].
  - destruct (change_denoms_ok auth_ok adds rems); cbn [pm pf]; (split; [exact Hn | split; [exact Hc | exact Hch]]).
  - destruct (set_commission_ok c rate known f); cbn [pm pf]; (split; [exact Hn | split; [exact Hc | exact Hch]]).
  - split; [exact Hn | split; [|exact Hch]]. intros c'; unfold f_with_valsets; cbn [valsets]. rewrite lookup_list_put.
    destruct (c' =? c); [exact Hw | apply Hc].
  - split; [exact Hn | split; [|exact Hch]]. intros c'; unfold f_with_valsets; cbn [valsets]. rewrite lookup_list_put.
    destruct (c' =? c); [|apply Hc]. rewrite Forall_forall in *. intros x Hx. apply in_map_iff in Hx. destruct Hx as (vp & <- & Hvp).
    unfold epoch_val. destruct (find (fun e => cv_id e =? fst vp) (lookup_list c (valsets f))); cbn [cv_pow]; apply Hw; exact Hvp.
  - split; [exact Hn | split; [exact Hc|]]. apply Forall_upd_nth; [|exact Hch]. intros x; apply cblock_cinv; exact Hw.
  - split; [exact Hn | split; [exact Hc|]]. apply Forall_upd_nth; [|exact Hch]. intros x; apply cset_params_cinv; exact Hw.
  - destruct (nth_error ch (Z.to_nat k)) as [c|] eqn:En; [|split; [exact Hn | split; [exact Hc | exact Hch]]].
    pose proof (Forall_nth_error _ _ _ _ Hch En) as Hci.
    destruct (c_inflight c) as [|[d a] q] eqn:Eq; [split; [exact Hn | split; [exact Hc | exact Hch]]|].
    destruct ack_ok; cbn [prov pm pf chains].
    + split; [|split; [exact Hc | apply Forall_upd_nth; [apply cdelivered_cinv | exact Hch]]].
      apply receive_ninv; [|exact Hn]. destruct Hci as (_ & Hq & _). rewrite Eq in Hq. inversion Hq; subst; assumption.
    + split; [exact Hn | split; [exact Hc | apply Forall_upd_nth; [apply crefund_cinv | exact Hch]]].
  - split; [exact Hn | split; [exact Hc | apply Forall_upd_nth; [apply crefund_cinv | exact Hch]]].
Qed.

Lemma run_swf : forall ops s, Forall wf_op ops -> swf s -> swf (run_ops s ops).
Proof.
  induction ops as [|o r IH]; intros s Hw H; cbn [run_ops fold_left]; [exact H|].
  inversion Hw; subst. apply IH; [assumption | apply step_swf; assumption].
Qed.

(* ---- reachability, for the trace-level statement about payouts *)
Inductive reach (s0 : state) : state -> Prop :=
| reach_init : reach s0 s0
| reach_step : forall s o, reach s0 s -> reach s0 (step s o).

Lemma reach_run : forall ops s0 s, reach s0 s -> reach s0 (run_ops s ops).
Proof.
  induction ops as [|o r IH]; intros s0 s H; cbn [run_ops fold_left]; [exact H | apply IH, reach_step, H].
Qed.

Definition paid_from (s0 : state) (e : event) : Prop :=
  exists s env, reach s0 s /\ justified (pf (prov s)) env e /\ listed (pf (prov s)) e.

Lemma reach_log : forall s0 s, log (pm (prov s0)) = [] -> reach s0 s -> Forall (paid_from s0) (log (pm (prov s))).
Proof.
  intros s0 s H0 R; induction R as [|s o R IH]; [rewrite H0; constructor|].
  destruct (step_sinv_log s o) as (_ & new & L & F). rewrite L. apply Forall_app; split; [exact IH|].
  eapply Forall_impl; [|exact F]. intros e (env & _ & J & Li). exists s, env; auto.
Qed.

(* ================================================================== initial states *)
Definition initial (s : state) : Prop :=
  pm (prov s) = empty_money /\ valsets (pf (prov s)) = [] /\
  Forall (fun c => c_bank c = [] /\ c_inflight c = [] /\ g_fees c = [] /\ g_deliv c = [] /\ 0 <= c_frac c <= P) (chains s).

Lemma initial_sinv : forall s, initial s -> sinv s.
Proof.
  intros s (E & _ & _). unfold sinv, pinv, acct_ok, bank_ok, distr_ok, link_ok, log_ok. rewrite E. cbn.
  repeat split; reflexivity.
Qed.

Lemma initial_swf : forall s, initial s -> swf s.
Proof.
  intros s (E & V & C). unfold swf, ninv, nonneg_ok, pool_ok, conf_wf. rewrite E, V. cbn.
  split; [split; intros; repeat split; lia|]. split; [intros; constructor|].
  eapply Forall_impl; [|exact C]. intros c (B & Q & F & D & Fr). unfold cinv, bank_nonneg, qnonneg, row4. rewrite B, Q, F, D. cbn.
  repeat split; try lia; constructor.
Qed.

(* ================================================================== C16 statements *)
(* 1. split *)
Lemma split_exact : forall h fees open fail c d,
  bank_nonneg (c_bank c) -> qnonneg fees -> 0 <= c_frac c <= P -> NoDup (c_denoms c) -> In d (c_denoms c) ->
  let fp := get (FC, d) (c_bank c) + qsum d fees in
  let share := (fp * c_frac c) / P in
  let c' := cblock h fees open fail c in
  get (FC, d) (c_bank c') = 0 /\
  get (CR, d) (c_bank c') = get (CR, d) (c_bank c) + share /\
  get (TS, d) (c_bank c') + get (ES, d) (c_bank c') = get (TS, d) (c_bank c) + get (ES, d) (c_bank c) + (fp - share) /\
  0 <= share <= fp /\
  (forall d', row4 (c_bank c') d' = row4 (c_bank c) d' + qsum d' fees).
Proof.
  intros h fees open fail c d Hb Hfees Hf Hnd Hin fp share c'. unfold c', cblock.
  destruct (fund_fees_spec fees c) as (S & L & I & D & B & G). cbv zeta in *.
  set (c1 := fund_fees fees c) in *. destruct S as (S1 & S2 & S3 & S4 & _).
  assert (Hb1 : bank_nonneg (c_bank c1)).
  { intros a x; rewrite B. pose proof (Hb a x). pose proof (qsum_nonneg x fees Hfees). destruct (a =? FC); lia. }
  assert (Hf1 : 0 <= c_frac c1 <= P) by (rewrite S1; exact Hf).
  destruct (end_block_rd_spec h open fail c1 Hb1 Hf1) as (_ & _ & _ & _ & A & _). cbv zeta in A.
  assert (Hfp : get (FC, d) (c_bank c1) = fp) by (rewrite B; unfold fp, FC; cbn [Z.eqb]; reflexivity).
  assert (Hfp0 : 0 <= fp) by (rewrite <- Hfp; apply Hb1).
  destruct (A d) as (A1 & A2 & A3 & _).
  rewrite <- S4 in Hnd, Hin.
  rewrite (dist_get_in _ _ _ FC d Hnd Hin) in A1. rewrite (dist_get_in _ _ _ CR d Hnd Hin) in A2.
  rewrite (dist_get_in _ _ _ TS d Hnd Hin), (dist_get_in _ _ _ ES d Hnd Hin) in A3.
  unfold FC, CR, TS, ES in A1, A2, A3; cbn [Z.eqb Pos.eqb] in A1, A2, A3. fold FC CR TS ES in A1, A2, A3.
  rewrite Hfp, S1, cons_share_floor in A2, A3 by lia. fold share in A2, A3.
  rewrite !B in A2, A3. pose proof (B ES d) as BE. unfold FC, CR, TS, ES in *; cbn [Z.eqb Pos.eqb] in *.
  pose proof (cons_share_bounds fp (c_frac c) Hfp0 Hf) as Hsb. rewrite cons_share_floor in Hsb by lia. fold share in Hsb.
  split; [exact A1|]. split; [lia|]. split; [lia|]. split; [exact Hsb|].
  intros d'. destruct (A d') as (B1 & B2 & B3 & _).
  pose proof (dist_row4 (c_frac c1) (c_denoms c1) (c_bank c1) d') as R. unfold row4 in *. rewrite !B in R.
  unfold FC, CR, TS, ES in *; cbn [Z.eqb Pos.eqb] in *. lia.
Qed.

(* 2. transmission discipline *)
Lemma send_discipline : forall h fees open fail c,
  bank_nonneg (c_bank c) -> qnonneg fees -> 0 <= c_frac c <= P ->
  let c' := cblock h fees open fail c in
  let due := should_send h (c_ltbh c) (c_bpdt c) in
  (forall d, get (ES, d) (c_bank c') <> get (ES, d) (c_bank c) ->
             due = true /\ open = true /\ In d (c_allowed c) /\ get (TS, d) (c_bank c') = 0) /\
  ((forall d, get (ES, d) (c_bank c') = get (ES, d) (c_bank c)) \/
   (due = true /\ open = true /\ forall d, In d (c_allowed c) -> get (TS, d) (c_bank c') = 0)) /\
  c_ltbh c' = (if due then h else c_ltbh c) /\
  (exists sent, c_inflight c' = c_inflight c ++ sent /\
     (forall d, qsum d sent = get (ES, d) (c_bank c') - get (ES, d) (c_bank c)) /\
     Forall (fun s => In (fst s) (c_allowed c) /\ 0 < snd s /\ memz (fst s) fail = false) sent).
Proof.
  intros h fees open fail c Hb Hfees Hf c' due. unfold c', cblock.
  destruct (fund_fees_spec fees c) as (S & L & I & D & B & G). cbv zeta in *.
  set (c1 := fund_fees fees c) in *. destruct S as (S1 & S2 & S3 & S4 & _).
  assert (Hb1 : bank_nonneg (c_bank c1)).
  { intros a x; rewrite B. pose proof (Hb a x). pose proof (qsum_nonneg x fees Hfees). destruct (a =? FC); lia. }
  assert (Hf1 : 0 <= c_frac c1 <= P) by (rewrite S1; exact Hf).
  destruct (end_block_rd_spec h open fail c1 Hb1 Hf1) as (_ & _ & _ & _ & A & Lt & Alt). cbv zeta in *.
  rewrite L, S2, S3, I in *. fold due in Lt, Alt.
  assert (HES : forall d, get (ES, d) (distribute_internally (c_frac c1) (c_denoms c1) (c_bank c1)) = get (ES, d) (c_bank c)).
  { intros d; rewrite dist_get_ES, B. unfold ES, FC; cbn [Z.eqb Pos.eqb]. lia. }
  destruct Alt as [[Q1 Q2]|(Hd & Ho & Bx & Cx & sent & Q & Sq & F)].
  - assert (Same : forall d, get (ES, d) (c_bank (end_block_rd h open fail c1)) = get (ES, d) (c_bank c)) by (intros d; rewrite Q1; apply HES).
    split; [intros d Hne; rewrite Same in Hne; congruence|]. split; [left; exact Same|]. split; [exact Lt|].
    exists []; rewrite app_nil_r. split; [exact Q2|]. split; [intros d; rewrite Same; cbn; lia | constructor].
  - split.
    { intros d Hne. destruct (in_dec Z.eq_dec d (c_allowed c)) as [Hi|Hi].
      - destruct (Bx d Hi) as [B1 _]. auto.
      - destruct (Cx d Hi) as [_ C2]. rewrite C2, HES in Hne. congruence. }
    split; [right; split; [exact Hd | split; [exact Ho | intros d Hi; apply Bx; exact Hi]]|]. split; [exact Lt|].
    exists sent. split; [exact Q|]. split; [intros d; rewrite Sq, HES; reflexivity | exact F].
Qed.

(* 3. crediting *)
Lemma credit_sender : forall ch memo db d amt ack_ok to_pool f m,
  let m' := receive ch memo db d amt ack_ok to_pool f m in
  (forall c' d', get (c', d') (alloc m') =
     get (c', d') (alloc m) +
     match credited_consumer ch memo ack_ok to_pool f with
     | Some c => if (c' =? c) && (d' =? d) then dec_of_int amt else 0
     | None => 0
     end) /\
  (forall c' d', get (c', d') (g_cred m') - get (c', d') (g_cred m) = get (c', d') (alloc m') - get (c', d') (alloc m)) /\
  outst m' = outst m /\ comm m' = comm m /\ cpool m' = cpool m /\
  (ack_ok = false -> m' = m) /\
  (forall a d', get (a, d') (bank m') =
     get (a, d') (bank m) + if ack_ok && (a =? (if to_pool then POOL else OTHER)) && (d' =? db) then amt else 0).
Proof.
  intros ch memo db d amt ack_ok to_pool f m m'. unfold m'. rewrite receive_cases.
  unfold credited_consumer. destruct ack_ok; cbn [negb andb].
  - destruct to_pool; cbn [andb].
    + destruct (match (if 0 <=? memo then Some memo else if memo =? -2 then None else identify ch f) with
                | Some c => if has_chain c f then Some c else None | None => None end) as [c|].
      * unfold m_recv2, m_recv1; cbv zeta; cbn [bank cpool outst comm alloc g_cred g_pv g_pc g_dust g_forf g_mint log].
        split; [intros c' d'; getadd; destruct ((c' =? c) && (d' =? d)); lia|].
        split; [intros c' d'; getadd; destruct ((c' =? c) && (d' =? d)); lia|].
        repeat (split; [reflexivity|]). split; [discriminate|]. intros a d'; getadd; match goal with |- context [if ?b then _ else _] => destruct b end; lia.
      * unfold m_recv1; cbn [bank cpool outst comm alloc g_cred g_pv g_pc g_dust g_forf g_mint log].
        split; [intros; lia|]. split; [intros; lia|]. repeat (split; [reflexivity|]). split; [discriminate|]. intros a d'; getadd; match goal with |- context [if ?b then _ else _] => destruct b end; lia.
    + unfold m_recv1; cbn [bank cpool outst comm alloc g_cred g_pv g_pc g_dust g_forf g_mint log].
      split; [intros; lia|]. split; [intros; lia|]. repeat (split; [reflexivity|]). split; [discriminate|]. intros a d'; getadd; match goal with |- context [if ?b then _ else _] => destruct b end; lia.
  - split; [intros; destruct to_pool; cbn [andb]; lia|]. split; [intros; lia|]. repeat (split; [reflexivity|]). intros; lia.
Qed.

(* a transfer produced by a chain whose ConsumerId param is its own id credits that consumer *)
Lemma credited_own_memo : forall ch memo f, 0 <= memo -> has_chain memo f = true ->
  credited_consumer ch memo true true f = Some memo.
Proof.
  intros ch memo f H Hc; unfold credited_consumer; cbn [andb].
  assert (E : (0 <=? memo) = true) by (apply Z.leb_le; exact H). rewrite E, Hc. reflexivity.
Qed.

Lemma relay_step : forall s k c d a q, nth_error (chains s) (Z.to_nat k) = Some c -> c_inflight c = (d, a) :: q ->
  step s (Relay k true) =
  mkS (mkP (receive (c_chan c) (c_memo c) (bank_denom (pf (prov s)) (c_chan c) (wire c d)) (cred_denom (pf (prov s)) (c_chan c) (wire c d))
                    a true (c_to_pool c) (pf (prov s)) (pm (prov s))) (pf (prov s)))
      (upd_nth (Z.to_nat k) cdelivered (chains s)).
Proof. intros s k c d a q E Q; cbn [step]. rewrite E, Q. reflexivity. Qed.

(* 4. accounting of credits *)
Lemma no_overpay : forall s0 ops, initial s0 -> Forall wf_op ops -> forall c d,
  let m := pm (prov (run_ops s0 ops)) in
  get (c, d) (g_cred m) =
    get (c, d) (alloc m) + get (c, d) (g_pv m) + get (c, d) (g_pc m) + get (c, d) (g_dust m) + get (c, d) (g_forf m) /\
  0 <= get (c, d) (alloc m) /\ 0 <= get (c, d) (g_pv m) /\ 0 <= get (c, d) (g_pc m) /\
  0 <= get (c, d) (g_dust m) /\ 0 <= get (c, d) (g_forf m) /\
  get (c, d) (g_pv m) + get (c, d) (g_pc m) + get (c, d) (alloc m) <= get (c, d) (g_cred m).
Proof.
  intros s0 ops Hi Hw c d m.
  destruct (run_sinv ops s0 (initial_sinv s0 Hi)) as ((Ha & _) & _).
  destruct (run_swf ops s0 Hw (initial_swf s0 Hi)) as ((Hn & _) & _).
  fold m in Ha, Hn. specialize (Ha c d). destruct (Hn c d) as (N1 & N2 & N3 & N4 & N5).
  repeat split; try assumption. lia.
Qed.

(* the ghost totals are the real records of x/distribution *)
Lemma ghost_link : forall s0 ops, initial s0 -> forall d,
  let m := pm (prov (run_ops s0 ops)) in
  total d (outst m) = total d (g_pv m) /\ get (0, d) (cpool m) = total d (g_pc m).
Proof.
  intros s0 ops Hi d m. destruct (run_sinv ops s0 (initial_sinv s0 Hi)) as ((_ & _ & _ & Hl) & _). apply Hl.
Qed.

(* 5. payouts *)
Lemma only_eligible : forall s0 ops, initial s0 ->
  let m := pm (prov (run_ops s0 ops)) in
  Forall (paid_from s0) (log m) /\
  forall v d, get (v, d) (outst m) = log_amt v d (log m) /\ get (v, d) (comm m) = log_comm v d (log m).
Proof.
  intros s0 ops Hi m. split.
  - apply reach_log; [destruct Hi as (E & _); rewrite E; reflexivity | apply reach_run, reach_init].
  - destruct (run_sinv ops s0 (initial_sinv s0 Hi)) as (_ & Hl). exact Hl.
Qed.

(* 6. bank *)
Lemma bank_conservation : forall s0 ops, initial s0 -> Forall wf_op ops ->
  let s := run_ops s0 ops in
  (forall d, get (POOL, d) (bank (pm (prov s))) + get (DISTR, d) (bank (pm (prov s))) + get (OTHER, d) (bank (pm (prov s)))
             = get (0, d) (g_mint (pm (prov s)))) /\
  (forall d, 0 <= get (POOL, d) (bank (pm (prov s)))) /\
  Forall (fun c => (forall d, row4 (c_bank c) d = get (0, d) (g_fees c)) /\
                   (forall d, get (ES, d) (c_bank c) = qsum d (c_inflight c) + get (0, d) (g_deliv c)) /\
                   bank_nonneg (c_bank c)) (chains s).
Proof.
  intros s0 ops Hi Hw s.
  destruct (run_sinv ops s0 (initial_sinv s0 Hi)) as ((_ & Hb & _) & _).
  destruct (run_swf ops s0 Hw (initial_swf s0 Hi)) as ((_ & Hp) & _ & Hc).
  split; [exact Hb|]. split; [exact Hp|]. eapply Forall_impl; [|exact Hc]. intros c (B & _ & _ & R & E & _). auto.
Qed.

(* 7. remainders *)
Lemma remainder_bound : forall env f c d m m',
  env_wf env -> conf_wf f -> ninv m -> alloc_body env f c d m = Some m' ->
  exists T evs,
    log m' = log m ++ evs /\
    get (c, d) (g_pv m') - get (c, d) (g_pv m) = sum_amt evs /\
    get (c, d) (g_dust m') - get (c, d) (g_dust m) = dec_of_int T - sum_amt evs /\
    0 <= dec_of_int T - sum_amt evs <= T * (Z.of_nat (length evs) - 1) /\
    0 <= T /\ dec_of_int T <= get (c, d) (alloc m).
Proof.
  intros env f c d m m' Hew Hcw Hn H. apply alloc_body_cases in H. cbv zeta in H.
  destruct H as (HA & Hch & [(Ht & Hle & _ & Hm) | (Ht & Hft & evs & Hev & H1 & H2 & Hm)]); subst m'.
  - exists 0, []. unfold m_zero_funded; cbv zeta; cbn [log g_pv g_dust sum_amt length]. rewrite app_nil_r.
    destruct Hn as [Hn _]. pose proof (Hn c d). unfold dec_of_int. repeat split; lia.
  - set (A := get (c, d) (alloc m)) in *.
    set (vr := dmul_trunc A (dsub (dec_of_int 1) (b_tax env))) in *.
    assert (HA0 : 0 <= A) by (destruct Hn as [Hn _]; apply Hn).
    assert (Hvr : 0 <= vr <= A) by (apply dmul_trunc_bounds; [lia | unfold env_wf in Hew; unfold dsub, dec_of_int; lia]).
    destruct (dtrunc_bounds vr ltac:(lia)) as [Hv1 Hv2].
    destruct (paid_events_facts env f c d _ _ _ evs Hev Hv1 Ht (Hcw c)) as (_ & HS & HD).
    exists (dtrunc_int vr), evs. unfold m_paid; cbv zeta; cbn [log g_pv g_dust]. fold A vr.
    rewrite !get_add_same. repeat split; try lia.
Qed.

Lemma alloc_body_mint : forall env f c d m m', alloc_body env f c d m = Some m' -> g_mint m' = g_mint m /\ g_cred m' = g_cred m.
(* (the forfeited-credit ghost is handled by [alloc_body_forf] below) *)
Proof.
  intros env f c d m m' H. apply alloc_body_cases in H. cbv zeta in H.
  destruct H as (_ & _ & [(_ & _ & _ & Hm) | (_ & _ & evs & _ & _ & _ & Hm)]); subst m'; split; reflexivity.
Qed.

Lemma begin_block_mint : forall env f m, g_mint (begin_block env f m) = g_mint m /\ g_cred (begin_block env f m) = g_cred m.
Proof.
  intros env f m; unfold begin_block. destruct (1 <? b_h env); [|split; reflexivity].
  assert (F : forall {X} (g : money -> X -> money) (l : list X),
            (forall a x, g_mint (g a x) = g_mint a /\ g_cred (g a x) = g_cred a) ->
            forall a, g_mint (fold_left g l a) = g_mint a /\ g_cred (fold_left g l a) = g_cred a).
  { intros X g l Hg; induction l as [|x r IH]; intros a; cbn [fold_left]; [split; reflexivity|].
    destruct (IH (g a x)) as [I1 I2]. destruct (Hg a x) as [G1 G2]. split; congruence. }
  apply F. intros a i. unfold alloc_consumer. destruct (ci_client i); [|split; reflexivity].
  apply F. intros b d. unfold alloc_one. destruct (alloc_body env f (ci_id i) d b) eqn:E; [|split; reflexivity].
  eapply alloc_body_mint; exact E.
Qed.

(* every step changes the sum of the provider balances exactly by the coins entering from outside *)
Lemma step_bank : forall s o d, sinv s ->
  let tot := fun s => get (POOL, d) (bank (pm (prov s))) + get (DISTR, d) (bank (pm (prov s))) + get (OTHER, d) (bank (pm (prov s))) in
  tot (step s o) = tot s + (if fst (inflow_of s o) =? d then snd (inflow_of s o) else 0).
Proof.
  intros s o d Hs tot. pose proof (step_sinv s o Hs) as Hs'.
  destruct Hs as ((_ & Hb & _) & _). destruct Hs' as ((_ & Hb' & _) & _).
  unfold tot. rewrite (Hb d), (Hb' d). clear Hb Hb' tot.
  destruct s as [[m f] ch]. cbn [prov pm pf chains].
  assert (R : forall ch0 memo d0 dc amt (ack tp : bool),
    get (0, d) (g_mint (receive ch0 memo d0 dc amt ack tp f m)) = get (0, d) (g_mint m) + (if d0 =? d then (if ack then amt else 0) else 0)).
  { intros. rewrite receive_cases. destruct ack; cbn [negb]; [|destruct (d0 =? d); lia].
    destruct (credited_consumer ch0 memo true tp f); unfold m_recv2, m_recv1; cbv zeta; cbn [g_mint]; getadd; cbn [Z.eqb andb];
      rewrite (Z.eqb_sym d d0); destruct (d0 =? d); lia. }
  destruct o; cbn [step pstep prov pm pf chains inflow_of fst snd]; try (cbn [Z.eqb]; destruct (0 =? d); lia).
  all: try solve [match goal with |- context [change_denoms_ok ?a ?b ?c] => destruct (change_denoms_ok a b c) end; cbn [pm]; destruct (0 =? d); lia].
  all: try solve [match goal with |- context [set_commission_ok ?a ?b ?c ?e] => destruct (set_commission_ok a b c e) end; cbn [pm]; destruct (0 =? d); lia].
  all: try solve [unfold credit; cbn [g_mint]; destruct (0 =? d); lia].
  all: try solve [rewrite R; reflexivity].
  all: try solve [match goal with |- context [begin_block ?e ?ff ?mm] => destruct (begin_block_mint e ff mm) as [E _]; rewrite E end; destruct (0 =? d); lia].
  - unfold fund; cbn [g_mint]. getadd. cbn [Z.eqb andb]. rewrite (Z.eqb_sym d d0). destruct (d0 =? d); lia.
  - destruct (nth_error ch (Z.to_nat k)) as [c|]; cbn [prov pm fst snd]; [|destruct (0 =? d); lia].
    destruct (c_inflight c) as [|[d0 a] q]; cbn [prov pm fst snd]; [destruct (0 =? d); lia|].
    destruct ack_ok; cbn [prov pm]; [rewrite R; reflexivity | destruct (bank_denom f (c_chan c) (wire c d0) =? d); lia].
Qed.

(* ================================================================== full statements of the property text, refuted *)
(* "rounding remainders go to the community pool or stay credited": then everything the distribution module
   account holds would be recorded as outstanding rewards or community pool *)
Definition remainder_full : Prop := forall s0 ops, initial s0 -> Forall wf_op ops -> forall d,
  let m := pm (prov (run_ops s0 ops)) in
  dec_of_int (get (DISTR, d) (bank m)) = total d (outst m) + get (0, d) (cpool m).

(* "no tokens are lost on the way": every credit is either still credited or was paid to validators or
   the community pool *)
Definition lossless_full : Prop := forall s0 ops, initial s0 -> Forall wf_op ops -> forall c d,
  let m := pm (prov (run_ops s0 ops)) in
  get (c, d) (g_cred m) = get (c, d) (alloc m) + get (c, d) (g_pv m) + get (c, d) (g_pc m).

Definition w_conf : conf := mkF [] [] [0] [] 1 1 [mkI 0 true true true true] [(0, 0)] 0 [].
Definition w_init : state := mkS (mkP empty_money w_conf) [].
Definition w_env (h : Z) (fail_fund : list Z) : benv :=
  mkB h 0 [(0, 100000000000000000); (1, 100000000000000000); (2, 100000000000000000)] false [] fail_fund [].
(* three validators of equal power, 10^6 coins credited and funded, no community tax *)
Definition w_dust_ops : list op :=
  [PSetValset 0 [mkV 0 1 0; mkV 1 1 0; mkV 2 1 0]; PFund 0 1000000; PCredit 0 0 (1000000 * P); PBegin (w_env 5 [])].
(* no eligible validator (empty set) and FundCommunityPool failing *)
Definition w_forfeit_ops : list op := [PFund 0 1000; PCredit 0 0 (1000 * P); PBegin (w_env 5 [0])].

Lemma w_initial : initial w_init.
Proof. repeat split; constructor. Qed.

Lemma w_dust_wf : Forall wf_op w_dust_ops.
Proof.
  unfold w_dust_ops. repeat constructor; cbn [wf_op cv_pow]; try (vm_compute; congruence).
Qed.

Lemma w_forfeit_wf : Forall wf_op w_forfeit_ops.
Proof.
  unfold w_forfeit_ops. repeat constructor; cbn [wf_op]; try (vm_compute; congruence).
Qed.

Lemma w_dust_values :
  let m := pm (prov (run_ops w_init w_dust_ops)) in
  get (DISTR, 0) (bank m) = 1000000 /\ get (POOL, 0) (bank m) = 0 /\
  total 0 (outst m) = 999999999999999999000000 /\ get (0, 0) (cpool m) = 0 /\ get (0, 0) (alloc m) = 0 /\
  get (0, 0) (g_dust m) = 1000000.
Proof. vm_compute. repeat split; reflexivity. Qed.

Lemma remainder_refuted : ~ remainder_full.
Proof.
  intros H. specialize (H w_init w_dust_ops w_initial w_dust_wf 0). cbv zeta in H.
  destruct w_dust_values as (E1 & _ & E3 & E4 & _). cbv zeta in E1, E3, E4. rewrite E1, E3, E4 in H. vm_compute in H. discriminate.
Qed.

(* after the fix 2504227 the same history keeps the credit: nothing is paid, nothing is lost *)
Lemma w_forfeit_values :
  let m := pm (prov (run_ops w_init w_forfeit_ops)) in
  get (0, 0) (g_cred m) = 1000 * P /\ get (0, 0) (alloc m) = 1000 * P /\ get (0, 0) (g_pv m) = 0 /\ get (0, 0) (g_pc m) = 0 /\
  get (0, 0) (g_forf m) = 0 /\ get (POOL, 0) (bank m) = 1000 /\ get (DISTR, 0) (bank m) = 0.
Proof. vm_compute. repeat split; reflexivity. Qed.

(* the pre-fix code on the same state: the credit disappears although the 1000 coins stay in the pool *)
Definition w_forfeit_pre : money := pm (prov (run_ops w_init [PFund 0 1000; PCredit 0 0 (1000 * P)])).
Lemma w_forfeit_prefix_values :
  exists m', alloc_body_prefix (w_env 5 [0]) w_conf 0 0 w_forfeit_pre = Some m' /\
    get (0, 0) (alloc w_forfeit_pre) = 1000 * P /\ get (0, 0) (alloc m') = 0 /\ get (0, 0) (g_forf m') = 1000 * P /\
    get (POOL, 0) (bank m') = 1000 /\ cpool m' = cpool w_forfeit_pre /\ outst m' = outst w_forfeit_pre.
Proof. eexists. split; [vm_compute; reflexivity|]. vm_compute. repeat split; reflexivity. Qed.

(* ---- a failing community-pool funding changes nothing (fix 2504227) *)
Lemma fund_failure_keeps_credit : forall env f c d m,
  total_power (epochs f * bpe f) (b_h env) (lookup_list c (valsets f)) = 0 ->
  let toSend := dtrunc_int (get (c, d) (alloc m)) in
  (toSend <> 0 /\ memz d (b_fail_fund env) = true) \/ get (POOL, d) (bank m) < toSend ->
  alloc_body env f c d m = None /\ alloc_one env f c m d = m.
Proof.
  intros env f c d m Ht toSend Hf.
  assert (E : alloc_body env f c d m = None).
  { unfold alloc_body. destruct (get (c, d) (alloc m) =? 0); [reflexivity|].
    destruct (has_chain c f); cbn [negb]; [|reflexivity]. rewrite Ht. cbn [Z.eqb]. fold toSend.
    destruct Hf as [[H1 H2]|H1].
    - apply Z.eqb_neq in H1. rewrite H1, H2. reflexivity.
    - apply Z.leb_gt in H1. rewrite H1, andb_false_r. reflexivity. }
  split; [exact E | unfold alloc_one; rewrite E; reflexivity].
Qed.

(* no credit is ever dropped without a payment: the forfeit ghost stays empty *)
Lemma alloc_body_forf : forall env f c d m m', alloc_body env f c d m = Some m' -> g_forf m' = g_forf m.
Proof.
  intros env f c d m m' H. apply alloc_body_cases in H. cbv zeta in H.
  destruct H as (_ & _ & [(_ & _ & _ & Hm) | (_ & _ & evs & _ & _ & _ & Hm)]); subst m'; reflexivity.
Qed.

Lemma begin_block_forf : forall env f m, g_forf (begin_block env f m) = g_forf m.
Proof.
  intros env f m; unfold begin_block. destruct (1 <? b_h env); [|reflexivity].
  assert (F : forall {X} (g : money -> X -> money) (l : list X),
            (forall a x, g_forf (g a x) = g_forf a) -> forall a, g_forf (fold_left g l a) = g_forf a).
  { intros X g l Hg; induction l as [|x r IH]; intros a; cbn [fold_left]; [reflexivity|]. rewrite IH; apply Hg. }
  apply F. intros a i. unfold alloc_consumer. destruct (ci_client i); [|reflexivity].
  apply F. intros b d. unfold alloc_one. destruct (alloc_body env f (ci_id i) d b) eqn:E; [|reflexivity].
  eapply alloc_body_forf; exact E.
Qed.

Lemma step_forf : forall s o, g_forf (pm (prov (step s o))) = g_forf (pm (prov s)).
Proof.
  intros [[m f] ch] o. cbn [prov pm pf chains].
  assert (R : forall ch0 memo d0 dc amt (ack tp : bool), g_forf (receive ch0 memo d0 dc amt ack tp f m) = g_forf m).
  { intros. rewrite receive_cases. destruct (negb ack); [reflexivity|].
    destruct (credited_consumer ch0 memo ack tp f); reflexivity. }
  destruct o; cbn [step pstep prov pm pf chains]; try reflexivity.
  all: try solve [apply R].
  all: try solve [apply begin_block_forf].
  all: try solve [match goal with |- context [change_denoms_ok ?a ?b ?c] => destruct (change_denoms_ok a b c) end; reflexivity].
  all: try solve [match goal with |- context [set_commission_ok ?a ?b ?c ?e] => destruct (set_commission_ok a b c e) end; reflexivity].
  destruct (nth_error ch (Z.to_nat k)) as [c|]; [|reflexivity].
  destruct (c_inflight c) as [|[d0 a] q]; [reflexivity|]. destruct ack_ok; [apply R | reflexivity].
Qed.

Lemma no_forfeit : forall s0 ops, initial s0 -> forall c d,
  let m := pm (prov (run_ops s0 ops)) in
  get (c, d) (g_forf m) = 0 /\
  get (c, d) (g_cred m) = get (c, d) (alloc m) + get (c, d) (g_pv m) + get (c, d) (g_pc m) + get (c, d) (g_dust m).
Proof.
  intros s0 ops Hi c d m.
  assert (G : forall ops s, g_forf (pm (prov s)) = [] -> g_forf (pm (prov (run_ops s ops))) = []).
  { induction ops0 as [|o r IH]; intros s E; cbn [run_ops fold_left]; [exact E|].
    apply IH. rewrite step_forf. exact E. }
  assert (F : g_forf m = []).
  { apply G. destruct Hi as (E & _). rewrite E. reflexivity. }
  assert (Z0 : get (c, d) (g_forf m) = 0) by (rewrite F; reflexivity).
  split; [exact Z0|].
  destruct (run_sinv ops s0 (initial_sinv s0 Hi)) as ((Ha & _) & _). fold m in Ha. specialize (Ha c d). lia.
Qed.

Lemma lossless_refuted : ~ lossless_full.
Proof.
  intros H. specialize (H w_init w_dust_ops w_initial w_dust_wf 0 0). cbv zeta in H. revert H. vm_compute. discriminate.
Qed.

Lemma lossless_refuted_dust : exists s0 ops c d, initial s0 /\ Forall wf_op ops /\
  let m := pm (prov (run_ops s0 ops)) in
  get (c, d) (g_cred m) - (get (c, d) (alloc m) + get (c, d) (g_pv m) + get (c, d) (g_pc m)) = 1000000.
Proof.
  exists w_init, w_dust_ops, 0, 0. split; [exact w_initial|]. split; [exact w_dust_wf|]. vm_compute. reflexivity.
Qed.

(* what holds instead: the distribution account holds exactly the recorded amounts plus the accumulated dust *)
Lemma remainder_partial : forall s0 ops, initial s0 -> Forall wf_op ops -> forall d,
  let m := pm (prov (run_ops s0 ops)) in
  dec_of_int (get (DISTR, d) (bank m)) = total d (outst m) + get (0, d) (cpool m) + total d (g_dust m) /\
  (forall c, 0 <= get (c, d) (g_dust m)).
Proof.
  intros s0 ops Hi Hw d m.
  destruct (run_sinv ops s0 (initial_sinv s0 Hi)) as ((_ & _ & Hd & _) & _).
  destruct (run_swf ops s0 Hw (initial_swf s0 Hi)) as ((Hn & _) & _).
  split; [apply Hd|]. intros c. apply Hn.
Qed.

(* JoinHeight rule of CreateConsumerValidator *)
Lemma epoch_join : forall h old vp,
  cv_id (epoch_val h old vp) = fst vp /\ cv_pow (epoch_val h old vp) = snd vp /\
  cv_join (epoch_val h old vp) =
    match find (fun e => cv_id e =? fst vp) old with Some e => cv_join e | None => h end.
Proof. intros h old vp; unfold epoch_val. destruct (find (fun e => cv_id e =? fst vp) old); repeat split; reflexivity. Qed.

(* ================================================================== denominations *)
Lemma parse_split : forall isc g l pa b, parse_hops isc g l = (pa, b) -> pa ++ b = l.
Proof.
  intros isc g l; remember (length l) as n eqn:Hn. revert l Hn.
  induction n as [n IH] using lt_wf_ind. intros l Hn pa b H.
  destruct l as [|p [|c r]]; cbn [parse_hops] in H; try (inversion H; reflexivity).
  destruct (g && isc c); [|inversion H; reflexivity].
  destruct (parse_hops isc g r) as [pa' b'] eqn:E. inversion H; subst pa b.
  cbn [app]. f_equal. f_equal. eapply (IH (length r)); [subst n; cbn [length]; lia | reflexivity | exact E].
Qed.

Lemma parse_ext : forall isc1 isc2 g l, Forall (fun z => isc1 z = isc2 z) l -> parse_hops isc1 g l = parse_hops isc2 g l.
Proof.
  intros isc1 isc2 g l; remember (length l) as n eqn:Hn. revert l Hn.
  induction n as [n IH] using lt_wf_ind. intros l Hn H.
  destruct l as [|p [|c r]]; cbn [parse_hops]; try reflexivity.
  inversion H as [|? ? _ H1]; subst. inversion H1 as [|? ? Hc Hr]; subst. rewrite Hc.
  destruct (g && isc2 c); [|reflexivity].
  rewrite (IH (length r)) with (l := r); [reflexivity | cbn [length]; lia | reflexivity | exact Hr].
Qed.

Lemma parse_flag : forall isc l pa b, parse_hops isc true l = (pa, b) -> b <> [] ->
  parse_hops isc (2 <? Z.of_nat (length l)) l = (pa, b).
Proof.
  intros isc l pa b H Hb. destruct (2 <? Z.of_nat (length l)) eqn:E; [exact H|].
  apply Z.ltb_ge in E. destruct l as [|p [|c [|x r]]]; cbn [parse_hops andb] in *; try exact H.
  - destruct (isc c); [inversion H; subst; congruence | exact H].
  - cbn [length] in E. lia.
Qed.

Lemma parse_cons2 : forall isc g p c r,
  parse_hops isc g (p :: c :: r) =
  if g && isc c then let '(pa, b) := parse_hops isc g r in (p :: c :: pa, b) else ([], p :: c :: r).
Proof. reflexivity. Qed.

Definition no_client_ids (l : list Z) : Prop := Forall (fun z => is_chan_or_client z = is_chan z) l.

Lemma credit_denom_key : forall sp sc dp dc l,
  is_chan sc = true -> is_chan dc = true -> l <> [] -> no_client_ids l ->
  snd (denom_trace is_chan_or_client l) <> [] ->
  provider_denom_key sp sc dp dc l = ics20_key sp sc dp dc l.
Proof.
  intros sp sc dp dc l Hsc Hdc Hne Hnc Hbase.
  unfold ics20_key, provider_denom_key, denom_trace in *.
  rewrite (parse_ext is_chan_or_client is_chan _ l Hnc) in *.
  destruct (has_prefix sp sc l) eqn:Hp.
  - destruct l as [|p [|c [|x r]]]; cbn [has_prefix] in Hp; try discriminate.
    apply andb_true_iff in Hp; destruct Hp as [Hp1 Hp2]; apply Z.eqb_eq in Hp1, Hp2; subst p c.
    assert (Eg : (2 <? Z.of_nat (length (sp :: sc :: x :: r))) = true) by (apply Z.ltb_lt; cbn [length]; lia).
    rewrite Eg in *. rewrite parse_cons2 in *. rewrite Hsc in *. cbn [andb] in *. cbn [skipn].
    destruct (parse_hops is_chan true (x :: r)) as [pa b] eqn:E. cbn [snd] in Hbase.
    rewrite !Z.eqb_refl. cbn [andb skipn].
    rewrite (parse_flag is_chan (x :: r) pa b E Hbase).
    pose proof (parse_split _ _ _ _ _ E) as Hs.
    destruct pa as [|h t]; [cbn [app] in Hs; subst b; reflexivity | rewrite Hs; reflexivity].
  - destruct (parse_hops is_chan (2 <? Z.of_nat (length l)) l) as [tr b] eqn:E.
    pose proof (parse_split _ _ _ _ _ E) as Hs.
    assert (Hchk : (match tr with p :: c :: _ => (p =? sp) && (c =? sc) | _ => false end) = false).
    { destruct l as [|p [|c [|x r]]].
      - cbn [parse_hops] in E; inversion E; reflexivity.
      - cbn [parse_hops] in E; inversion E; reflexivity.
      - cbn in E. inversion E; reflexivity.
      - cbn [has_prefix] in Hp.
        assert (Eg : (2 <? Z.of_nat (length (p :: c :: x :: r))) = true) by (apply Z.ltb_lt; cbn [length]; lia).
        rewrite Eg in E. rewrite parse_cons2 in E. cbn [andb] in E. destruct (is_chan c); [|inversion E; reflexivity].
        destruct (parse_hops is_chan true (x :: r)) as [pa' b']. inversion E; subst tr b. exact Hp. }
    rewrite Hchk.
    assert (Eg : (2 <? Z.of_nat (length (dp :: dc :: l))) = true).
    { apply Z.ltb_lt. destruct l; [congruence | cbn [length]; lia]. }
    rewrite Eg. rewrite parse_cons2. rewrite Hdc. cbn [andb].
    destruct (parse_hops is_chan true l) as [pa b'] eqn:E2. pose proof (parse_split _ _ _ _ _ E2) as Hs2.
    cbn [app]. rewrite Hs, Hs2. reflexivity.
Qed.

(* the credited denom id is the id of the denom the ICS-20 application delivered *)
Lemma credit_denom_is_bank_denom : forall f ch l,
  l <> [] -> no_client_ids l -> snd (denom_trace is_chan_or_client l) <> [] -> 0 <= ch < 990 ->
  cred_denom f ch l = bank_denom f ch l.
Proof.
  intros f ch l H1 H2 H3 Hch. unfold cred_denom, bank_denom. rewrite credit_denom_key; auto.
  unfold is_chan, dst_chan. apply andb_true_iff; split; [apply Z.leb_le | apply Z.ltb_lt]; lia.
Qed.

(* without the no-client-id hypothesis the two differ: a voucher whose first remaining hop is a client id
   (ibc-go v10 accepts "07-tendermint-N" as a channel identifier, x/ccv/types/denom_helpers.go does not) *)
Lemma credit_denom_client_id_refuted :
  provider_denom_key PORT SRC_CHAN PORT (dst_chan 0) [1; 1001; 1; 2003; 14] = [0; 1; 2003; 14] /\
  ics20_key PORT SRC_CHAN PORT (dst_chan 0) [1; 1001; 1; 2003; 14] = [1; 1; 2003; 14].
Proof. split; reflexivity. Qed.

Definition credit_denom_full : Prop := forall sp sc dp dc l,
  is_chan sc = true -> is_chan dc = true -> l <> [] -> snd (denom_trace is_chan_or_client l) <> [] ->
  provider_denom_key sp sc dp dc l = ics20_key sp sc dp dc l.
Lemma credit_denom_full_refuted : ~ credit_denom_full.
Proof.
  intros H. specialize (H PORT SRC_CHAN PORT (dst_chan 0) [1; 1001; 1; 2003; 14]).
  destruct credit_denom_client_id_refuted as [E1 E2]. rewrite E1, E2 in H.
  assert (X : [0; 1; 2003; 14] = [1; 1; 2003; 14]) by (apply H; [reflexivity | reflexivity | discriminate | vm_compute; discriminate]).
  discriminate.
Qed.

(* consequence for a receive: the coins arrive in the pool under the very denom of the credit *)
Lemma receive_credit_matches_pool : forall f m ch memo l amt c,
  l <> [] -> no_client_ids l -> snd (denom_trace is_chan_or_client l) <> [] -> 0 <= ch < 990 ->
  credited_consumer ch memo true true f = Some c ->
  let d := cred_denom f ch l in
  let m' := pm (pstep (mkP m f) (PReceive ch memo l amt true true)) in
  get (c, d) (alloc m') = get (c, d) (alloc m) + dec_of_int amt /\
  get (POOL, d) (bank m') = get (POOL, d) (bank m) + amt.
Proof.
  intros f m ch memo l amt c H1 H2 H3 H4 Hc d m'. unfold m', d. cbn [pstep pm pf].
  rewrite <- (credit_denom_is_bank_denom f ch l H1 H2 H3 H4).
  destruct (credit_sender ch memo (cred_denom f ch l) (cred_denom f ch l) amt true true f m) as (A & _ & _ & _ & _ & _ & B).
  cbv zeta in A, B. rewrite A, B, Hc. unfold POOL. rewrite !Z.eqb_refl. cbn [andb]. split; reflexivity.
Qed.

(* ---- a concrete end-to-end history used by the non-vacuity examples of Props/C16.v *)
(* denom 1 = ibc/HASH(transfer/channel-10/ucons): the consumer's native denom (segment 12) as received on channel 0 *)
Definition x_conf : conf := mkF [] [] [1] [] 1 2 [mkI 0 true true true true] [(0, 0)] 0 [([1; 1; 1010; 12], 1)].
Definition x_chain : cstate := mkC [] 0 750000000000000000 2 [0; 2] [0; 1; 2] [] 0 0 true [(0, [12]); (1, [13]); (2, [1; 1001; 10])] [] [].
Definition x_init : state := mkS (mkP empty_money x_conf) [x_chain].
Definition x_env : benv := mkB 4 20000000000000000 [(0, 100000000000000000); (1, 100000000000000000); (2, 100000000000000000)] false [] [] [].
Definition x_ops : list op :=
  [PSetValset 0 [mkV 0 5 0; mkV 1 3 2; mkV 2 2 9]; CBlock 0 2 [(0, 1001); (1, 77)] true []; Relay 0 true;
   PSetCommission 0 1 500000000000000000 true; PBegin x_env].
Definition x_fin := run_ops x_init x_ops.
