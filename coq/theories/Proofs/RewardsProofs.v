(* Lemmas and invariants about Model/Rewards.v (property C16). *)
From Coq Require Import ZArith List Bool Lia.
From ICS Require Import Base.Tree Base.Dec Model.Rewards.
Import ListNotations.
Open Scope Z_scope.

(* ================================================================== maps *)
Lemma keqb_true : forall a b, keqb a b = true <-> a = b.
Proof.
  intros [a1 a2] [b1 b2]; unfold keqb; cbn [fst snd].
  rewrite andb_true_iff, !Z.eqb_eq. split; [intros [-> ->]; reflexivity | intros H; inversion H; auto].
Qed.

Lemma keqb_refl : forall a, keqb a a = true.
Proof. intros; apply keqb_true; reflexivity. Qed.

Lemma keqb_false : forall a b, keqb a b = false <-> a <> b.
Proof.
  intros a b; split; intros H.
  - intros E; apply keqb_true in E; congruence.
  - destruct (keqb a b) eqn:E; [apply keqb_true in E; contradiction | reflexivity].
Qed.

Lemma keqb_pair : forall a b c d, keqb (a, b) (c, d) = (a =? c) && (b =? d).
Proof. reflexivity. Qed.

Lemma get_add : forall k k' x m, get k (add k' x m) = if keqb k k' then get k m + x else get k m.
Proof.
  intros k k' x m; induction m as [|[k0 v] r IH]; cbn [get add].
  - destruct (keqb k k'); lia.
  - destruct (keqb k' k0) eqn:E0; cbn [get].
    + apply keqb_true in E0; subst k0. destruct (keqb k k'); reflexivity.
    + destruct (keqb k k0) eqn:E1.
      * apply keqb_true in E1; subst k0.
        destruct (keqb k k') eqn:E2; [apply keqb_true in E2; subst; rewrite keqb_refl in E0; discriminate | reflexivity].
      * exact IH.
Qed.

Lemma get_add_same : forall k x m, get k (add k x m) = get k m + x.
Proof. intros; rewrite get_add, keqb_refl; reflexivity. Qed.

Lemma get_add_other : forall k k' x m, k <> k' -> get k (add k' x m) = get k m.
Proof. intros k k' x m H; rewrite get_add; apply keqb_false in H; rewrite H; reflexivity. Qed.

Lemma total_add : forall d a d' x m, total d (add (a, d') x m) = total d m + (if d' =? d then x else 0).
Proof.
  intros d a d' x m; induction m as [|[k0 v] r IH]; cbn [total add snd].
  - destruct (d' =? d); lia.
  - destruct (keqb (a, d') k0) eqn:E0; cbn [total].
    + apply keqb_true in E0; subst k0; cbn [snd]. destruct (d' =? d); lia.
    + rewrite IH; lia.
Qed.

Lemma get_move : forall a d a1 a2 d' x b,
  get (a, d) (move a1 a2 d' x b) =
  get (a, d) b + (if keqb (a, d) (a2, d') then x else 0) - (if keqb (a, d) (a1, d') then x else 0).
Proof.
  intros; unfold move; rewrite !get_add.
  destruct (keqb (a, d) (a2, d')), (keqb (a, d) (a1, d')); lia.
Qed.

Ltac keq :=
  repeat match goal with
  | |- context [keqb (?a, ?b) (?c, ?d)] => rewrite (keqb_pair a b c d)
  | H : context [keqb (?a, ?b) (?c, ?d)] |- _ => rewrite (keqb_pair a b c d) in H
  end.

(* ================================================================== decimal arithmetic *)
Lemma P_pos : 0 < P.
Proof. reflexivity. Qed.

Lemma chop_round_mulP : forall x, 0 <= x -> chop_round (x * P) = x.
Proof.
  intros x Hx; unfold chop_round.
  assert (Hn : (x * P <? 0) = false) by (apply Z.ltb_ge; pose proof P_pos; nia).
  rewrite Hn; unfold chop_round_nonneg.
  rewrite Z.rem_mul by (pose proof P_pos; lia). cbn [Z.eqb].
  apply Z.quot_mul; pose proof P_pos; lia.
Qed.

(* the consumer's share is exactly floor(fees * fraction) *)
Lemma cons_share_floor : forall fp frac, 0 <= fp -> 0 <= frac -> cons_share fp frac = (fp * frac) / P.
Proof.
  intros fp frac Hfp Hfr; unfold cons_share, dtrunc_int, chop_trunc, dmul, dec_of_int.
  replace (fp * P * frac) with (fp * frac * P) by ring.
  rewrite chop_round_mulP by nia.
  apply Z.quot_div_nonneg; [nia | apply P_pos].
Qed.

Lemma cons_share_bounds : forall fp frac, 0 <= fp -> 0 <= frac <= P -> 0 <= cons_share fp frac <= fp.
Proof.
  intros fp frac Hfp Hfr; rewrite cons_share_floor by lia. pose proof P_pos as HP. split.
  - apply Z.div_pos; nia.
  - apply Z.div_le_upper_bound; nia.
Qed.

Lemma dtrunc_bounds : forall a, 0 <= a -> 0 <= dtrunc_int a /\ 0 <= a - dec_of_int (dtrunc_int a) < P.
Proof.
  intros a Ha; unfold dtrunc_int, chop_trunc, dec_of_int. pose proof P_pos as HP.
  rewrite Z.quot_div_nonneg by lia.
  pose proof (Z.div_mod a P ltac:(lia)) as Hdm. pose proof (Z.mod_pos_bound a P HP) as Hm.
  split; [apply Z.div_pos; lia | lia].
Qed.

Lemma dmul_trunc_bounds : forall a m, 0 <= a -> 0 <= m <= P -> 0 <= dmul_trunc a m <= a.
Proof.
  intros a m Ha Hm; unfold dmul_trunc, chop_trunc. pose proof P_pos as HP.
  rewrite Z.quot_div_nonneg by nia. split.
  - apply Z.div_pos; nia.
  - apply Z.div_le_upper_bound; nia.
Qed.

(* tokensFraction of a validator: T * floor(power * 10^18 / total) in 10^-18 units *)
Lemma val_share_eq : forall T total pow, 0 <= T -> 0 <= pow -> 0 < total ->
  val_share T total pow = T * ((pow * P) / total).
Proof.
  intros T total pow HT Hp Ht; unfold val_share, dmul_trunc, dquo_trunc, chop_trunc, dec_of_int.
  pose proof P_pos as HP.
  replace (pow * P * P) with ((pow * P) * P) by ring.
  rewrite Z.quot_mul_cancel_r by lia.
  rewrite (Z.quot_div_nonneg (pow * P) total) by nia.
  replace (T * P * (pow * P / total)) with (T * (pow * P / total) * P) by ring.
  apply Z.quot_mul; lia.
Qed.

Lemma val_share_nonneg : forall T total pow, 0 <= T -> 0 <= pow -> 0 < total -> 0 <= val_share T total pow.
Proof.
  intros; rewrite val_share_eq by lia. pose proof P_pos.
  apply Z.mul_nonneg_nonneg; [lia | apply Z.div_pos; nia].
Qed.
