From Coq Require Import ZArith List Bool Lia.
From ICS Require Import Base.Tree Model.Auth.
