(* Lemmas and invariants about Model/Auth.v (the model the C14 correspondence driver runs). *)
From Coq Require Import ZArith List Bool Lia.
From ICS Require Import Base.Tree Model.Auth.
Import ListNotations.
Open Scope Z_scope.

Ltac zb := repeat match goal with
  | H : (_ =? _) = true |- _ => apply Z.eqb_eq in H
  | H : (_ =? _) = false |- _ => apply Z.eqb_neq in H
  | H : (_ <? _) = true |- _ => apply Z.ltb_lt in H
  | H : (_ <? _) = false |- _ => apply Z.ltb_ge in H
  | H : (_ <=? _) = true |- _ => apply Z.leb_le in H
  | H : (_ <=? _) = false |- _ => apply Z.leb_gt in H
  | H : negb _ = true |- _ => apply negb_true_iff in H
  | H : negb _ = false |- _ => apply negb_false_iff in H
  | H : _ && _ = true |- _ => apply andb_true_iff in H; destruct H
  end.

(* ---------------------------------------------------------------- association lists *)
Lemma aget_aset_same : forall k v l, aget k (aset k v l) = Some v.
Proof.
  intros k v l; induction l as [|[k' v'] t IH]; simpl.
  - rewrite Z.eqb_refl; reflexivity.
  - destruct (k <? k') eqn:H1; [simpl; rewrite Z.eqb_refl; reflexivity|].
    destruct (k =? k') eqn:H2; simpl; [rewrite Z.eqb_refl; reflexivity|].
    rewrite H2; exact IH.
Qed.

Lemma aget_aset_other : forall k k' v l, k' <> k -> aget k' (aset k v l) = aget k' l.
Proof.
  intros k k' v l Hne; induction l as [|[k0 v0] t IH]; simpl.
  - destruct (k' =? k) eqn:E; zb; [lia|reflexivity].
  - destruct (k <? k0) eqn:H1.
    + simpl. destruct (k' =? k) eqn:E; zb; [lia|reflexivity].
    + destruct (k =? k0) eqn:H2; simpl.
      * zb; subst k0. destruct (k' =? k) eqn:E; zb; [lia|reflexivity].
      * destruct (k' =? k0); [reflexivity|exact IH].
Qed.

Lemma aget_adel_same : forall k l, aget k (adel k l) = None.
Proof.
  intros k l; induction l as [|[k0 v0] t IH]; simpl; [reflexivity|].
  destruct (k =? k0) eqn:E; [exact IH|simpl; rewrite E; exact IH].
Qed.

Lemma aget_adel_other : forall k k' l, k' <> k -> aget k' (adel k l) = aget k' l.
Proof.
  intros k k' l Hne; induction l as [|[k0 v0] t IH]; simpl; [reflexivity|].
  destruct (k =? k0) eqn:E.
  - zb; subst k0. destruct (k' =? k) eqn:E2; zb; [lia|exact IH].
  - simpl. destruct (k' =? k0); [reflexivity|exact IH].
Qed.

Lemma smem_sins_same : forall k l, smem k (sins k l) = true.
Proof.
  intros k l; induction l as [|k0 t IH]; simpl.
  - rewrite Z.eqb_refl; reflexivity.
  - destruct (k <? k0) eqn:H1; [simpl; rewrite Z.eqb_refl; reflexivity|].
    destruct (k =? k0) eqn:H2; simpl; [rewrite H2; reflexivity|].
    rewrite H2; exact IH.
Qed.

Lemma smem_sins_other : forall k k' l, k' <> k -> smem k' (sins k l) = smem k' l.
Proof.
  intros k k' l Hne; induction l as [|k0 t IH]; simpl.
  - destruct (k' =? k) eqn:E; zb; [lia|reflexivity].
  - destruct (k <? k0) eqn:H1.
    + simpl. destruct (k' =? k) eqn:E; zb; [lia|reflexivity].
    + destruct (k =? k0) eqn:H2; simpl; [reflexivity|].
      destruct (k' =? k0); [reflexivity|exact IH].
Qed.

Lemma smem_sdel_other : forall k k' l, k' <> k -> smem k' (sdel k l) = smem k' l.
Proof.
  intros k k' l Hne; induction l as [|k0 t IH]; simpl; [reflexivity|].
  destruct (k0 =? k) eqn:E; simpl.
  - zb; subst k0. destruct (k' =? k) eqn:E2; zb; [lia|exact IH].
  - destruct (k' =? k0); [reflexivity|exact IH].
Qed.

Lemma smem_fold_sins_other : forall auto l k', ~ In k' auto ->
  smem k' (fold_left (fun acc v => sins v acc) auto l) = smem k' l.
Proof.
  induction auto as [|a t IH]; intros l k' Hn; simpl; [reflexivity|].
  rewrite IH by (intro; apply Hn; right; assumption).
  apply smem_sins_other. intro; apply Hn; left; congruence.
Qed.

(* ---------------------------------------------------------------- the consumer list *)
Lemma nth_upd_same : forall n x l y, nth_error l n = Some y -> nth_error (upd_nth n x l) n = Some x.
Proof.
  induction n as [|n IH]; intros x l y H; destruct l as [|h t]; simpl in *; try discriminate; [reflexivity|].
  eapply IH; eassumption.
Qed.

Lemma nth_upd_other : forall n m x l, n <> m -> nth_error (upd_nth n x l) m = nth_error l m.
Proof.
  induction n as [|n IH]; intros m x l Hne; destruct l as [|h t]; simpl; try reflexivity.
  - destruct m; [congruence|reflexivity].
  - destruct m; [reflexivity|]. simpl. apply IH. congruence.
Qed.

Lemma length_upd : forall n x l, length (upd_nth n x l) = length l.
Proof.
  induction n as [|n IH]; intros x l; destruct l as [|h t]; simpl; try reflexivity.
  rewrite IH; reflexivity.
Qed.

Lemma get_cons_nonneg : forall s c cr, get_cons s c = Some cr -> 0 <= c.
Proof. intros s c cr H; unfold get_cons in H; destruct (c <? 0) eqn:E; [discriminate|zb; lia]. Qed.

Lemma get_put_same : forall s c x y, get_cons s c = Some y -> get_cons (put_cons s c x) c = Some x.
Proof.
  intros s c x y H; unfold get_cons in *; destruct (c <? 0); [discriminate|].
  simpl. eapply nth_upd_same; eassumption.
Qed.

Lemma get_put_other : forall s c c' x, 0 <= c -> c' <> c -> get_cons (put_cons s c x) c' = get_cons s c'.
Proof.
  intros s c c' x Hc Hne; unfold get_cons; destruct (c' <? 0) eqn:E; [reflexivity|].
  simpl. apply nth_upd_other. zb. intro Heq. apply Hne. apply Z2Nat.inj in Heq; lia.
Qed.

Lemma put_globals : forall s c x,
  s_nvals (put_cons s c x) = s_nvals s /\ s_minrate (put_cons s c x) = s_minrate s /\
  s_params (put_cons s c x) = s_params s /\ s_denoms (put_cons s c x) = s_denoms s /\
  s_cparams (put_cons s c x) = s_cparams s /\ length (s_cons (put_cons s c x)) = length (s_cons s).
Proof. intros; simpl; repeat split; apply length_upd. Qed.

Lemma get_app_old : forall s c cr x, get_cons s c = Some cr -> get_cons (set_cons s (s_cons s ++ [x])) c = Some cr.
Proof.
  intros s c cr x H; unfold get_cons in *; destruct (c <? 0); [discriminate|]. simpl.
  rewrite nth_error_app1; [assumption|]. apply nth_error_Some. congruence.
Qed.

(* ---------------------------------------------------------------- error classes are non-zero *)
Ltac break_if :=
  match goal with
  | H : context [if ?b then _ else _] |- _ => destruct b eqn:?
  | H : context [match ?x with _ => _ end] |- _ => destruct x eqn:?
  end.

Lemma err_codes : E_VB <> 0 /\ E_UNAUTH <> 0 /\ E_PHASE <> 0 /\ E_TOPN <> 0 /\ E_OTHER <> 0.
Proof. unfold E_VB, E_UNAUTH, E_PHASE, E_TOPN, E_OTHER; repeat split; lia. Qed.

Ltac solve_err :=
  repeat (first [discriminate | match goal with H : Err _ = Err _ |- _ => inversion H; subst; clear H end | break_if]);
  try (unfold E_VB, E_UNAUTH, E_PHASE, E_TOPN, E_OTHER; lia).

Lemma assign_key_err : forall nv c v k e, assign_key nv c v k = Err e -> e <> 0.
Proof. intros nv c v k e H; unfold assign_key, bind in H; solve_err. Qed.

Lemma update_consumer_err : forall c sd no tn ini e, update_consumer c sd no tn ini = Err e -> e <> 0.
Proof. intros c sd no tn ini e H; unfold update_consumer, bind in H; solve_err. Qed.

Lemma val_msg_err : forall s c v none f e,
  none <> 0 -> (forall cr e', f cr = Err e' -> e' <> 0) -> val_msg s c v none f = Err e -> e <> 0.
Proof.
  intros s c v none f e Hn Hf H; unfold val_msg, bind in H.
  destruct (negb (v <? s_nvals s)); [inversion H; unfold E_OTHER; lia|].
  destruct (get_cons s c) as [cr|]; [|inversion H; subst; assumption].
  destruct (f cr) eqn:E; [discriminate|]. inversion H; subst. eapply Hf; eassumption.
Qed.

Lemma handler_err : forall s o e, handler s o = Err e -> e <> 0.
Proof.
  intros s o e H; destruct o; cbn [handler] in H.
  - unfold create_consumer, bind in H; solve_err.
  - destruct (get_cons s c) as [cr|]; [|inversion H; unfold E_PHASE; lia].
    unfold bind in H. destruct (update_consumer cr sender no topn ini) eqn:E; [discriminate|].
    inversion H; subst. eapply update_consumer_err; eassumption.
  - destruct (get_cons s c) as [cr|]; [|inversion H; unfold E_OTHER; lia].
    unfold bind, remove_consumer in H; solve_err.
  - solve_err.
  - solve_err.
  - eapply val_msg_err; [| |eassumption]; [unfold E_PHASE; lia|].
    intros cr e' H'; unfold handle_opt_in in H'.
    destruct (negb (active (c_phase cr))); [inversion H'; unfold E_PHASE; lia|].
    destruct (key =? 0); [discriminate|]. eapply assign_key_err; eassumption.
  - eapply val_msg_err; [| |eassumption]; [unfold E_OTHER; lia|].
    intros cr e' H'; unfold handle_opt_out in H'; solve_err.
  - eapply val_msg_err; [| |eassumption]; [unfold E_PHASE; lia|].
    intros cr e' H'; cbv beta in H'; eapply assign_key_err; exact H'.
  - eapply val_msg_err; [| |eassumption]; [unfold E_PHASE; lia|].
    intros cr e' H'; unfold handle_commission in H'; solve_err.
  - discriminate.
  - solve_err.
Qed.

(* the three possible shapes of a step *)
Lemma step_cases : forall s o,
  (validate_basic o = false /\ step s o = (E_VB, s)) \/
  (validate_basic o = true /\ exists e, handler s o = Err e /\ e <> 0 /\ step s o = (e, s)) \/
  (validate_basic o = true /\ exists s', handler s o = Ok s' /\ step s o = (0, s')).
Proof.
  intros s o; unfold step. destruct (validate_basic o) eqn:V; simpl; [|left; auto].
  destruct (handler s o) as [s'|e] eqn:H.
  - right; right; split; [reflexivity|]. exists s'; auto.
  - right; left; split; [reflexivity|]. exists e; repeat split; auto. eapply handler_err; eassumption.
Qed.

Lemma step_reject_unchanged : forall s o, fst (step s o) <> 0 -> snd (step s o) = s.
Proof.
  intros s o H. destruct (step_cases s o) as [[_ E]|[[_ [e [_ [_ E]]]]|[_ [s' [_ E]]]]]; rewrite E in *; simpl in *;
    [reflexivity|reflexivity|congruence].
Qed.

Lemma step_ok_handler : forall s o, fst (step s o) = 0 ->
  validate_basic o = true /\ handler s o = Ok (snd (step s o)).
Proof.
  intros s o H. destruct (step_cases s o) as [[_ E]|[[_ [e [_ [Hne E]]]]|[V [s' [Hh E]]]]]; rewrite E in *; simpl in *.
  - unfold E_VB in H; lia.
  - congruence.
  - auto.
Qed.

(* ---------------------------------------------------------------- what the handlers do to a record *)
Lemma initialize_frame : forall c,
  c_owner (initialize c) = c_owner c /\ c_topn (initialize c) = c_topn c /\ c_opted (initialize c) = c_opted c /\
  c_keys (initialize c) = c_keys c /\ c_used (initialize c) = c_used c /\ c_comm (initialize c) = c_comm c.
Proof. intro c; unfold initialize; destruct (prelaunched (c_phase c) && c_spawn c); simpl; repeat split. Qed.

Definition new_owner_of (no : nown) (old : Z) : Z := match no with NewOwner a => a | _ => old end.
Definition new_topn_of (tn : option Z) (old : Z) : Z := match tn with Some n => n | None => old end.

Lemma update_consumer_ok : forall c sd no tn ini c',
  update_consumer c sd no tn ini = Ok c' ->
  sd = c_owner c /\ active (c_phase c) = true /\
  c_owner c' = new_owner_of no (c_owner c) /\
  c_topn c' = new_topn_of tn (c_topn c) /\
  (c_topn c' <> 0 -> c_owner c' = gov) /\
  (forall n, tn = Some n -> n <> 0 -> c_owner c = gov) /\
  c_opted c' = c_opted c /\ c_keys c' = c_keys c /\ c_used c' = c_used c /\ c_comm c' = c_comm c.
Proof.
  intros c sd no tn ini c' H. unfold update_consumer, bind in H.
  destruct (negb (active (c_phase c))) eqn:Ha; [discriminate|].
  destruct (negb (sd =? c_owner c)) eqn:Ho; [discriminate|].
  match type of H with match ?X with _ => _ end = _ => destruct X as [c1|] eqn:E1; [|discriminate] end.
  match type of H with match ?X with _ => _ end = _ => destruct X as [c2|] eqn:E2; [|discriminate] end.
  match type of H with match ?X with _ => _ end = _ => destruct X as [c3|] eqn:E3; [|discriminate] end.
  destruct (negb (c_topn c3 =? 0) && negb (c_owner c3 =? gov)) eqn:E4; [discriminate|].
  inversion H; subst c'; clear H.
  assert (F1 : c_owner c1 = new_owner_of no (c_owner c) /\ c_topn c1 = c_topn c /\ c_opted c1 = c_opted c /\
               c_keys c1 = c_keys c /\ c_used c1 = c_used c /\ c_comm c1 = c_comm c).
  { destruct no; inversion E1; subst; simpl; repeat split. }
  assert (F2 : c_owner c2 = c_owner c1 /\ c_topn c2 = c_topn c1 /\ c_opted c2 = c_opted c1 /\
               c_keys c2 = c_keys c1 /\ c_used c2 = c_used c1 /\ c_comm c2 = c_comm c1).
  { destruct ini.
    - inversion E2; subst; repeat split.
    - destruct (negb (prelaunched (c_phase c1))); [discriminate|]. inversion E2; subst; simpl; repeat split.
    - destruct (negb (prelaunched (c_phase c1))); [discriminate|]. inversion E2; subst.
      destruct (c_phase c1 =? 2); simpl; repeat split. }
  assert (F3 : c_owner c3 = c_owner c2 /\ c_topn c3 = new_topn_of tn (c_topn c2) /\ c_opted c3 = c_opted c2 /\
               c_keys c3 = c_keys c2 /\ c_used c3 = c_used c2 /\ c_comm c3 = c_comm c2 /\
               (forall n, tn = Some n -> n <> 0 -> c_owner c = gov)).
  { destruct tn as [n|].
    - destruct (negb (n =? 0) && negb (c_owner c =? gov)) eqn:E; [discriminate|].
      inversion E3; subst; simpl; repeat split.
      intros n0 Hn0 Hne; inversion Hn0; subst n0.
      apply andb_false_iff in E; destruct E as [E|E]; zb; [lia|assumption].
    - inversion E3; subst; simpl; repeat split. intros n0 Hn0; discriminate. }
  destruct (initialize_frame c3) as [I1 [I2 [I3 [I4 [I5 I6]]]]].
  destruct F1 as [A1 [A2 [A3 [A4 [A5 A6]]]]]. destruct F2 as [B1 [B2 [B3 [B4 [B5 B6]]]]].
  destruct F3 as [C1 [C2 [C3 [C4 [C5 [C6 C7]]]]]].
  zb.
  refine (conj _ (conj _ (conj _ (conj _ (conj _ (conj _ (conj _ (conj _ (conj _ _))))))))); try congruence.
  - rewrite I1, I2. intro Hne. apply andb_false_iff in E4; destruct E4 as [E|E]; zb; [lia|assumption].
  - exact C7.
Qed.

Lemma remove_consumer_ok : forall c sd c', remove_consumer c sd = Ok c' ->
  sd = c_owner c /\ c_phase c = 3 /\ c' = set_phase c 4.
Proof.
  intros c sd c' H; unfold remove_consumer in H.
  destruct (negb (sd =? c_owner c)) eqn:E1; [discriminate|].
  destruct (negb (c_phase c =? 3)) eqn:E2; [discriminate|]. inversion H; zb; auto.
Qed.

Lemma create_consumer_ok : forall sd tn ini c', create_consumer sd tn ini = Ok c' ->
  c_owner c' = sd /\ c_topn c' = 0 /\ c_opted c' = [] /\ c_keys c' = [] /\ c_used c' = [] /\ c_comm c' = [] /\
  (c_phase c' = 1 \/ c_phase c' = 2).
Proof.
  intros sd tn ini c' H; unfold create_consumer, bind in H.
  destruct tn as [n|].
  - destruct (negb (n =? 0)) eqn:E; [discriminate|]. zb; subst n. inversion H; subst.
    unfold initialize; destruct ini; simpl; repeat split; auto.
  - inversion H; subst. unfold initialize; destruct ini; simpl; repeat split; auto.
Qed.

(* ---- validator handlers: records of other validators are untouched ---- *)
(* key-assignment consistency of one consumer: the consumer-address index points back to the assigner *)
Definition kinv (c : cons) : Prop := forall v k, aget v (c_keys c) = Some k -> aget k (c_used c) = Some v.

Definition vframe (v : Z) (a b : cons) : Prop :=
  c_phase a = c_phase b /\ c_owner a = c_owner b /\ c_topn a = c_topn b /\ c_spawn a = c_spawn b /\
  (forall v', v' <> v -> smem v' (c_opted a) = smem v' (c_opted b)) /\
  (forall v', v' <> v -> aget v' (c_keys a) = aget v' (c_keys b)) /\
  (forall v', v' <> v -> aget v' (c_comm a) = aget v' (c_comm b)) /\
  (forall k v', v' <> v -> (aget k (c_used a) = Some v' <-> aget k (c_used b) = Some v')).

Lemma vframe_refl : forall v a, vframe v a a.
Proof. intros; unfold vframe; repeat split; auto. Qed.

Lemma vframe_trans : forall v a b c, vframe v a b -> vframe v b c -> vframe v a c.
Proof.
  intros v a b c [A1 [A2 [A3 [A4 [A5 [A6 [A7 A8]]]]]]] [B1 [B2 [B3 [B4 [B5 [B6 [B7 B8]]]]]]].
  unfold vframe; repeat split; try congruence.
  - intros; rewrite A5, B5; auto.
  - intros; rewrite A6, B6; auto.
  - intros; rewrite A7, B7; auto.
  - intro H0; apply B8; auto; apply A8; auto.
  - intro H0; apply A8; auto; apply B8; auto.
Qed.

Lemma assign_key_ok : forall nv c v k c', kinv c -> assign_key nv c v k = Ok c' -> vframe v c c' /\ kinv c'.
Proof.
  intros nv c v k c' HK H. unfold assign_key, bind in H.
  destruct (negb (active (c_phase c))); [discriminate|].
  match type of H with match ?X with _ => _ end = _ => destruct X as [[]|]; [|discriminate] end.
  destruct (aget k (c_used c)) eqn:Eu; [discriminate|]. inversion H; subst c'; clear H.
  set (used1 := match aget v (c_keys c) with
                | Some old => if c_phase c =? 3 then c_used c else adel old (c_used c)
                | None => c_used c end).
  (* lookups in used1 *)
  assert (U1 : forall k' v', v' <> v -> (aget k' (c_used c) = Some v' <-> aget k' used1 = Some v')).
  { intros k' v' Hne. unfold used1. destruct (aget v (c_keys c)) as [old|] eqn:Eo; [|tauto].
    destruct (c_phase c =? 3); [tauto|].
    destruct (Z.eq_dec k' old) as [->|Hko].
    - rewrite aget_adel_same. rewrite (HK v old Eo). split; [intro X; inversion X; congruence|discriminate].
    - rewrite aget_adel_other by assumption. tauto. }
  assert (U2 : aget k used1 = None).
  { unfold used1. destruct (aget v (c_keys c)) as [old|]; [|assumption].
    destruct (c_phase c =? 3); [assumption|].
    destruct (Z.eq_dec k old) as [->|Hko]; [apply aget_adel_same|rewrite aget_adel_other; assumption]. }
  split.
  - unfold vframe; simpl; repeat split; auto.
    + intros v' Hne; rewrite aget_aset_other; auto.
    + intro H0. destruct (Z.eq_dec k0 k) as [->|Hk]; [congruence|].
      rewrite aget_aset_other by assumption. apply U1; assumption.
    + intro H0. destruct (Z.eq_dec k0 k) as [->|Hk].
      * rewrite aget_aset_same in H0; congruence.
      * rewrite aget_aset_other in H0 by assumption. apply U1 in H0; assumption.
  - unfold kinv; simpl. intros v0 k0 H0.
    destruct (Z.eq_dec v0 v) as [->|Hv].
    + rewrite aget_aset_same in H0; inversion H0; subst k0. apply aget_aset_same.
    + rewrite aget_aset_other in H0 by assumption. pose proof (HK v0 k0 H0) as H1.
      destruct (Z.eq_dec k0 k) as [->|Hk]; [congruence|].
      rewrite aget_aset_other by assumption. apply U1; assumption.
Qed.

Lemma handle_opt_in_ok : forall nv c v k c', kinv c -> handle_opt_in nv c v k = Ok c' -> vframe v c c' /\ kinv c'.
Proof.
  intros nv c v k c' HK H. unfold handle_opt_in in H.
  destruct (negb (active (c_phase c))); [discriminate|].
  assert (F : vframe v c (set_opted c (sins v (c_opted c)))).
  { unfold vframe; simpl; repeat split; auto. intros v' Hne; rewrite smem_sins_other; auto. }
  destruct (k =? 0).
  - inversion H; subst. split; [exact F|exact HK].
  - apply assign_key_ok in H; [|exact HK]. destruct H as [F2 K2]. split; [eapply vframe_trans; eassumption|exact K2].
Qed.

Lemma handle_opt_out_ok : forall c v below c', kinv c -> handle_opt_out c v below = Ok c' -> vframe v c c' /\ kinv c'.
Proof.
  intros c v below c' HK H. unfold handle_opt_out in H.
  destruct (negb (c_phase c =? 3)); [discriminate|].
  destruct (negb (c_topn c =? 0) && negb below); [discriminate|]. inversion H; subst.
  split; [|exact HK]. unfold vframe; simpl; repeat split; auto. intros v' Hne; rewrite smem_sdel_other; auto.
Qed.

Lemma handle_commission_ok : forall mr c v r c', kinv c -> handle_commission mr c v r = Ok c' -> vframe v c c' /\ kinv c'.
Proof.
  intros mr c v r c' HK H. unfold handle_commission in H.
  destruct (negb (active (c_phase c))); [discriminate|].
  destruct (r <? mr); [discriminate|]. inversion H; subst.
  split; [|exact HK]. unfold vframe; simpl; repeat split; auto. intros v' Hne; rewrite aget_aset_other; auto.
Qed.

(* the part of the frame that needs no invariant *)
Definition bframe (a b : cons) : Prop :=
  c_phase a = c_phase b /\ c_owner a = c_owner b /\ c_topn a = c_topn b /\ c_spawn a = c_spawn b.

Lemma assign_key_basic : forall nv c v k c', assign_key nv c v k = Ok c' -> bframe c c'.
Proof.
  intros nv c v k c' H. unfold assign_key, bind in H.
  destruct (negb (active (c_phase c))); [discriminate|].
  match type of H with match ?X with _ => _ end = _ => destruct X as [[]|]; [|discriminate] end.
  destruct (aget k (c_used c)); [discriminate|]. inversion H; subst. unfold bframe; simpl; auto.
Qed.

Lemma handle_opt_in_basic : forall nv c v k c', handle_opt_in nv c v k = Ok c' -> bframe c c'.
Proof.
  intros nv c v k c' H. unfold handle_opt_in in H.
  destruct (negb (active (c_phase c))); [discriminate|].
  destruct (k =? 0); [inversion H; subst; unfold bframe; simpl; auto|].
  apply assign_key_basic in H. exact H.
Qed.

Lemma handle_opt_out_basic : forall c v below c', handle_opt_out c v below = Ok c' -> bframe c c'.
Proof.
  intros c v below c' H. unfold handle_opt_out in H.
  destruct (negb (c_phase c =? 3)); [discriminate|].
  destruct (negb (c_topn c =? 0) && negb below); [discriminate|]. inversion H; subst. unfold bframe; simpl; auto.
Qed.

Lemma handle_commission_basic : forall mr c v r c', handle_commission mr c v r = Ok c' -> bframe c c'.
Proof.
  intros mr c v r c' H. unfold handle_commission in H.
  destruct (negb (active (c_phase c))); [discriminate|].
  destruct (r <? mr); [discriminate|]. inversion H; subst. unfold bframe; simpl; auto.
Qed.

Lemma val_msg_ok : forall s c v none f s', val_msg s c v none f = Ok s' ->
  v < s_nvals s /\ exists cr cr', get_cons s c = Some cr /\ f cr = Ok cr' /\ s' = put_cons s c cr'.
Proof.
  intros s c v none f s' H. unfold val_msg, bind in H.
  destruct (negb (v <? s_nvals s)) eqn:E; [discriminate|].
  destruct (get_cons s c) as [cr|] eqn:G; [|discriminate].
  destruct (f cr) as [cr'|] eqn:F; [|discriminate]. inversion H; subst.
  zb. split; [assumption|]. exists cr, cr'; auto.
Qed.

(* ---------------------------------------------------------------- invariants of every consumer record *)
Lemma Forall_upd_nth : forall (P : cons -> Prop) n x l, Forall P l -> P x -> Forall P (upd_nth n x l).
Proof.
  intros P n; induction n as [|n IH]; intros x l HF Hx; destruct l as [|h t]; simpl; auto;
    inversion HF; subst; constructor; auto.
Qed.

Lemma get_cons_In : forall s c cr, get_cons s c = Some cr -> In cr (s_cons s).
Proof. intros s c cr H; unfold get_cons in H; destruct (c <? 0); [discriminate|]. eapply nth_error_In; eassumption. Qed.

Lemma In_get_cons : forall s cr, In cr (s_cons s) -> exists c, get_cons s c = Some cr.
Proof.
  intros s cr H. apply In_nth_error in H. destruct H as [n Hn]. exists (Z.of_nat n).
  unfold get_cons. destruct (Z.of_nat n <? 0) eqn:E; [zb; lia|]. rewrite Nat2Z.id. exact Hn.
Qed.

Lemma Forall_get : forall (P : cons -> Prop) s c cr, Forall P (s_cons s) -> get_cons s c = Some cr -> P cr.
Proof. intros P s c cr HF G. rewrite Forall_forall in HF. apply HF. eapply get_cons_In; eassumption. Qed.

Section Inv.
  Variable P : cons -> Prop.
  Hypothesis P_create : forall sd tn ini cr, create_consumer sd tn ini = Ok cr -> P cr.
  Hypothesis P_update : forall cr sd no tn ini cr',
    (forall n, tn = Some n -> vb_topn n = true) -> P cr -> update_consumer cr sd no tn ini = Ok cr' -> P cr'.
  Hypothesis P_phase : forall cr p, P cr -> P (set_phase cr p).
  Hypothesis P_optin : forall nv cr v k cr', P cr -> handle_opt_in nv cr v k = Ok cr' -> P cr'.
  Hypothesis P_optout : forall cr v b cr', P cr -> handle_opt_out cr v b = Ok cr' -> P cr'.
  Hypothesis P_assign : forall nv cr v k cr', P cr -> assign_key nv cr v k = Ok cr' -> P cr'.
  Hypothesis P_comm : forall mr cr v r cr', P cr -> handle_commission mr cr v r = Ok cr' -> P cr'.
  Hypothesis P_launched : forall cr auto, P cr -> P (launched_rec cr auto).
  Hypothesis P_unlaunched : forall cr, P cr -> P (unlaunched_rec cr).
  Hypothesis P_deleted : forall cr, P cr -> P (deleted_rec cr).

  Lemma env_step_preserves : forall e s, Forall P (s_cons s) -> Forall P (s_cons (env_step s e)).
  Proof.
    intros e s HF; destruct e as [c ok auto|c]; simpl.
    - destruct (get_cons s c) as [cr|] eqn:G; [|assumption].
      destruct (c_phase cr =? 2); [|assumption]. simpl. apply Forall_upd_nth; [assumption|].
      pose proof (Forall_get P s c cr HF G). destruct ok; auto.
    - destruct (get_cons s c) as [cr|] eqn:G; [|assumption].
      destruct (c_phase cr =? 4); [|assumption]. simpl. apply Forall_upd_nth; [assumption|].
      pose proof (Forall_get P s c cr HF G). auto.
  Qed.

  Lemma env_preserves : forall l s, Forall P (s_cons s) -> Forall P (s_cons (fold_left env_step l s)).
  Proof. induction l as [|e t IH]; intros s HF; simpl; [assumption|]. apply IH. apply env_step_preserves; assumption. Qed.

  Lemma val_msg_preserves : forall s c v none f s',
    (forall cr cr', P cr -> f cr = Ok cr' -> P cr') ->
    Forall P (s_cons s) -> val_msg s c v none f = Ok s' -> Forall P (s_cons s').
  Proof.
    intros s c v none f s' Hf HF H. apply val_msg_ok in H. destruct H as [_ [cr [cr' [G [F ->]]]]].
    simpl. apply Forall_upd_nth; [assumption|]. eapply Hf; [|eassumption]. eapply Forall_get; eassumption.
  Qed.

  Lemma step_preserves : forall s o, Forall P (s_cons s) -> Forall P (s_cons (snd (step s o))).
  Proof.
    intros s o HF.
    destruct (step_cases s o) as [[_ E]|[[_ [e [_ [_ E]]]]|[V [s' [Hh E]]]]]; rewrite E; simpl; auto.
    destruct o; cbn [handler] in Hh.
    - unfold bind in Hh. destruct (create_consumer sender topn ini) as [cr|] eqn:C; [|discriminate].
      inversion Hh; subst; simpl. apply Forall_app; split; [assumption|]. constructor; [|constructor]. eauto.
    - destruct (get_cons s c) as [cr|] eqn:G; [|discriminate]. unfold bind in Hh.
      destruct (update_consumer cr sender no topn ini) as [cr'|] eqn:U; [|discriminate].
      inversion Hh; subst; simpl. apply Forall_upd_nth; [assumption|].
      eapply P_update; [|eapply Forall_get; eassumption|exact U].
      intros n Hn; subst topn. simpl in V. zb. assumption.
    - destruct (get_cons s c) as [cr|] eqn:G; [|discriminate]. unfold bind in Hh.
      destruct (remove_consumer cr sender) as [cr'|] eqn:U; [|discriminate].
      inversion Hh; subst; simpl. apply Forall_upd_nth; [assumption|].
      apply remove_consumer_ok in U. destruct U as [_ [_ ->]]. apply P_phase. eapply Forall_get; eassumption.
    - destruct (negb (authority =? gov)); [discriminate|]. destruct (p <=? 0); [discriminate|]. inversion Hh; subst; assumption.
    - destruct (negb (authority =? gov)); [discriminate|]. inversion Hh; subst; assumption.
    - eapply val_msg_preserves; [|eassumption|eassumption]. intros; cbv beta in *; eapply P_optin; eassumption.
    - eapply val_msg_preserves; [|eassumption|eassumption]. intros; cbv beta in *; eapply P_optout; eassumption.
    - eapply val_msg_preserves; [|eassumption|eassumption]. intros; cbv beta in *; eapply P_assign; eassumption.
    - eapply val_msg_preserves; [|eassumption|eassumption]. intros; cbv beta in *; eapply P_comm; eassumption.
    - inversion Hh; subst. apply env_preserves; assumption.
    - destruct (negb (authority =? gov)); [discriminate|]. destruct (p <=? 0); [discriminate|]. inversion Hh; subst; assumption.
  Qed.

  Lemma run_ops_preserves : forall l s, Forall P (s_cons s) -> Forall P (s_cons (run_ops s l)).
  Proof.
    unfold run_ops. induction l as [|o t IH]; intros s HF; simpl; [assumption|]. apply IH. apply step_preserves; assumption.
  Qed.
End Inv.

(* ---- Top_N <> 0 -> owned by the authority and within 50..100 ---- *)
Definition topn_ok_rec (cr : cons) : Prop := c_topn cr <> 0 -> c_owner cr = gov /\ 50 <= c_topn cr <= 100.
Definition topn_inv (s : state) : Prop := Forall topn_ok_rec (s_cons s).

Lemma bframe_topn : forall a b, bframe a b -> topn_ok_rec a -> topn_ok_rec b.
Proof. intros a b [_ [H1 [H2 _]]] H; unfold topn_ok_rec in *; rewrite <- H1, <- H2; exact H. Qed.

Lemma topn_inv_step : forall s o, topn_inv s -> topn_inv (snd (step s o)).
Proof.
  unfold topn_inv. apply step_preserves.
  - intros sd tn ini cr H. apply create_consumer_ok in H. destruct H as [_ [H _]]. unfold topn_ok_rec; intro; congruence.
  - intros cr sd no tn ini cr' Hvb HP H. apply update_consumer_ok in H.
    destruct H as [_ [_ [_ [Ht [Hg _]]]]]. unfold topn_ok_rec in *. intro Hne. split; [auto|].
    rewrite Ht in *. destruct tn as [n|]; simpl in *.
    + specialize (Hvb n eq_refl). unfold vb_topn in Hvb. zb.
      apply andb_false_iff in Hvb. destruct Hvb as [Hvb|Hvb]; zb; [lia|].
      apply orb_false_iff in Hvb. destruct Hvb; zb; lia.
    + apply HP; assumption.
  - intros cr p H; exact H.
  - intros nv cr v k cr' HP H. eapply bframe_topn; [eapply handle_opt_in_basic; eassumption|assumption].
  - intros cr v b cr' HP H. eapply bframe_topn; [eapply handle_opt_out_basic; eassumption|assumption].
  - intros nv cr v k cr' HP H. eapply bframe_topn; [eapply assign_key_basic; eassumption|assumption].
  - intros mr cr v r cr' HP H. eapply bframe_topn; [eapply handle_commission_basic; eassumption|assumption].
  - intros cr auto H; exact H.
  - intros cr H; exact H.
  - intros cr H; exact H.
Qed.

Lemma topn_inv_init : forall nv mr p cp, topn_inv (init_state nv mr p cp).
Proof. intros; unfold topn_inv; simpl; constructor. Qed.

Lemma topn_inv_reachable : forall nv mr p cp ops, topn_inv (run_ops (init_state nv mr p cp) ops).
Proof.
  intros nv mr p cp ops. assert (G : forall l s, topn_inv s -> topn_inv (run_ops s l)).
  { unfold run_ops. induction l as [|o t IH]; intros s H; simpl; [assumption|]. apply IH. apply topn_inv_step; assumption. }
  apply G. apply topn_inv_init.
Qed.

Lemma topn_inv_get : forall s c cr, topn_inv s -> get_cons s c = Some cr -> c_topn cr <> 0 ->
  c_owner cr = gov /\ 50 <= c_topn cr <= 100.
Proof. intros s c cr HI G. exact (Forall_get topn_ok_rec s c cr HI G). Qed.

(* ---- key-assignment consistency ---- *)
Definition key_inv (s : state) : Prop := Forall kinv (s_cons s).

Lemma kinv_same_keys : forall a b, c_keys a = c_keys b -> c_used a = c_used b -> kinv a -> kinv b.
Proof. intros a b H1 H2 H; unfold kinv in *; rewrite <- H1, <- H2; exact H. Qed.

Lemma key_inv_step : forall s o, key_inv s -> key_inv (snd (step s o)).
Proof.
  unfold key_inv. apply step_preserves.
  - intros sd tn ini cr H. apply create_consumer_ok in H. destruct H as [_ [_ [_ [Hk _]]]].
    unfold kinv; rewrite Hk; simpl; discriminate.
  - intros cr sd no tn ini cr' _ HP H. apply update_consumer_ok in H.
    destruct H as [_ [_ [_ [_ [_ [_ [_ [Hk [Hu _]]]]]]]]]. eapply kinv_same_keys; [| |exact HP]; congruence.
  - intros cr p H; exact H.
  - intros nv cr v k cr' HP H. eapply handle_opt_in_ok; eassumption.
  - intros cr v b cr' HP H. eapply handle_opt_out_ok; eassumption.
  - intros nv cr v k cr' HP H. eapply assign_key_ok; eassumption.
  - intros mr cr v r cr' HP H. eapply handle_commission_ok; eassumption.
  - intros cr auto H; exact H.
  - intros cr H; exact H.
  - intros cr H; unfold kinv; simpl; discriminate.
Qed.

Lemma key_inv_reachable : forall nv mr p cp ops, key_inv (run_ops (init_state nv mr p cp) ops).
Proof.
  intros nv mr p cp ops. assert (G : forall l s, key_inv s -> key_inv (run_ops s l)).
  { unfold run_ops. induction l as [|o t IH]; intros s H; simpl; [assumption|]. apply IH. apply key_inv_step; assumption. }
  apply G. unfold key_inv; simpl; constructor.
Qed.

(* ---------------------------------------------------------------- classification of messages *)
Definition owner_msg (o : op) : option (Z * Z) :=
  match o with Update c sd _ _ _ => Some (c, sd) | Remove c sd => Some (c, sd) | _ => None end.
Definition authority_of (o : op) : option Z :=
  match o with UpdateParams a _ => Some a | ChangeDenoms a _ _ => Some a | CUpdateParams a _ => Some a | _ => None end.
Definition validator_msg (o : op) : option (Z * Z * Z) :=
  match o with
  | OptIn c v sg _ => Some (c, v, sg) | OptOut c v sg _ => Some (c, v, sg)
  | AssignKey c v sg _ => Some (c, v, sg) | SetCommission c v sg _ => Some (c, v, sg)
  | _ => None
  end.

(* ---------------------------------------------------------------- owner only *)
Lemma owner_only_success : forall s o c sd,
  owner_msg o = Some (c, sd) -> fst (step s o) = 0 -> owner_of s c = Some sd.
Proof.
  intros s o c sd Hm H0. apply step_ok_handler in H0. destruct H0 as [_ Hh].
  destruct o; try discriminate; simpl in Hm; inversion Hm; subst; cbn [handler] in Hh; unfold owner_of.
  - destruct (get_cons s c) as [cr|]; [|discriminate]. unfold bind in Hh.
    destruct (update_consumer cr sd no topn ini) as [cr'|] eqn:U; [|discriminate].
    apply update_consumer_ok in U. destruct U as [U _]. simpl; congruence.
  - destruct (get_cons s c) as [cr|]; [|discriminate]. unfold bind in Hh.
    destruct (remove_consumer cr sd) as [cr'|] eqn:U; [|discriminate].
    apply remove_consumer_ok in U. destruct U as [U _]. simpl; congruence.
Qed.

Lemma owner_only : forall s o c sd,
  owner_msg o = Some (c, sd) -> owner_of s c <> Some sd -> fst (step s o) <> 0 /\ snd (step s o) = s.
Proof.
  intros s o c sd Hm Hne. assert (H : fst (step s o) <> 0).
  { intro H0. apply Hne. eapply owner_only_success; eassumption. }
  split; [assumption|apply step_reject_unchanged; assumption].
Qed.

(* ---------------------------------------------------------------- evolution of one consumer *)
Lemma env_step_get : forall e s c cr, get_cons s c = Some cr ->
  exists cr', get_cons (env_step s e) c = Some cr' /\ c_owner cr' = c_owner cr /\ c_topn cr' = c_topn cr.
Proof.
  intros e s c cr G; destruct e as [c0 ok auto|c0]; simpl.
  - destruct (get_cons s c0) as [cr0|] eqn:G0; [|eauto]. destruct (c_phase cr0 =? 2); [|eauto].
    destruct (Z.eq_dec c c0) as [->|Hne].
    + rewrite G in G0; inversion G0; subst cr0. erewrite get_put_same by eassumption.
      eexists; split; [reflexivity|]. destruct ok; simpl; auto.
    + rewrite get_put_other; eauto using get_cons_nonneg.
  - destruct (get_cons s c0) as [cr0|] eqn:G0; [|eauto]. destruct (c_phase cr0 =? 4); [|eauto].
    destruct (Z.eq_dec c c0) as [->|Hne].
    + rewrite G in G0; inversion G0; subst cr0. erewrite get_put_same by eassumption.
      eexists; split; [reflexivity|]. simpl; auto.
    + rewrite get_put_other; eauto using get_cons_nonneg.
Qed.

Lemma env_fold_get : forall l s c cr, get_cons s c = Some cr ->
  exists cr', get_cons (fold_left env_step l s) c = Some cr' /\ c_owner cr' = c_owner cr /\ c_topn cr' = c_topn cr.
Proof.
  induction l as [|e t IH]; intros s c cr G; simpl; [eauto|].
  destruct (env_step_get e s c cr G) as [cr1 [G1 [O1 T1]]].
  destruct (IH _ c cr1 G1) as [cr2 [G2 [O2 T2]]]. exists cr2; repeat split; congruence.
Qed.

Lemma val_msg_get : forall s c0 v none f s' c cr,
  (forall x y, f x = Ok y -> bframe x y) -> val_msg s c0 v none f = Ok s' -> get_cons s c = Some cr ->
  exists cr', get_cons s' c = Some cr' /\ c_owner cr' = c_owner cr /\ c_topn cr' = c_topn cr.
Proof.
  intros s c0 v none f s' c cr Hf H G. apply val_msg_ok in H. destruct H as [_ [cr0 [cr0' [G0 [F ->]]]]].
  destruct (Z.eq_dec c c0) as [->|Hne].
  - rewrite G in G0; inversion G0; subst cr0. erewrite get_put_same by eassumption.
    eexists; split; [reflexivity|]. apply Hf in F. destruct F as [_ [F1 [F2 _]]]. auto.
  - rewrite get_put_other; eauto using get_cons_nonneg.
Qed.

Lemma step_evolution : forall s o c cr, get_cons s c = Some cr ->
  exists cr', get_cons (snd (step s o)) c = Some cr' /\
    ((c_owner cr' = c_owner cr /\ c_topn cr' = c_topn cr) \/
     (fst (step s o) = 0 /\ exists sd no tn ini, o = Update c sd no tn ini /\ update_consumer cr sd no tn ini = Ok cr')).
Proof.
  intros s o c cr G.
  destruct (step_cases s o) as [[_ E]|[[_ [e [_ [_ E]]]]|[V [s' [Hh E]]]]]; rewrite E; simpl; eauto.
  destruct o; cbn [handler] in Hh.
  - unfold bind in Hh. destruct (create_consumer sender topn ini) as [x|]; [|discriminate].
    inversion Hh; subst. exists cr; split; [apply get_app_old; assumption|auto].
  - destruct (get_cons s c0) as [cr0|] eqn:G0; [|discriminate]. unfold bind in Hh.
    destruct (update_consumer cr0 sender no topn ini) as [cr0'|] eqn:U; [|discriminate]. inversion Hh; subst.
    destruct (Z.eq_dec c c0) as [->|Hne].
    + rewrite G in G0; inversion G0; subst cr0. erewrite get_put_same by eassumption.
      eexists; split; [reflexivity|]. right. split; [reflexivity|]. exists sender, no, topn, ini; auto.
    + rewrite get_put_other; eauto using get_cons_nonneg.
  - destruct (get_cons s c0) as [cr0|] eqn:G0; [|discriminate]. unfold bind in Hh.
    destruct (remove_consumer cr0 sender) as [cr0'|] eqn:U; [|discriminate]. inversion Hh; subst.
    apply remove_consumer_ok in U. destruct U as [_ [_ ->]].
    destruct (Z.eq_dec c c0) as [->|Hne].
    + rewrite G in G0; inversion G0; subst cr0. erewrite get_put_same by eassumption.
      eexists; split; [reflexivity|]. left; simpl; auto.
    + rewrite get_put_other; eauto using get_cons_nonneg.
  - destruct (negb (authority =? gov)); [discriminate|]. destruct (p <=? 0); [discriminate|]. inversion Hh; subst. eauto.
  - destruct (negb (authority =? gov)); [discriminate|]. inversion Hh; subst. eauto.
  - destruct (val_msg_get _ _ _ _ _ _ c cr (fun x y => handle_opt_in_basic _ x _ _ y) Hh G) as [cr' [G' [O T]]]; eauto.
  - destruct (val_msg_get _ _ _ _ _ _ c cr (fun x y => handle_opt_out_basic x _ _ y) Hh G) as [cr' [G' [O T]]]; eauto.
  - destruct (val_msg_get _ _ _ _ _ _ c cr (fun x y => assign_key_basic _ x _ _ y) Hh G) as [cr' [G' [O T]]]; eauto.
  - destruct (val_msg_get _ _ _ _ _ _ c cr (fun x y => handle_commission_basic _ x _ _ y) Hh G) as [cr' [G' [O T]]]; eauto.
  - inversion Hh; subst. destruct (env_fold_get l s c cr G) as [cr' [G' [O T]]]; eauto.
  - destruct (negb (authority =? gov)); [discriminate|]. destruct (p <=? 0); [discriminate|]. inversion Hh; subst. eauto.
Qed.

Lemma owner_changes_only_by_transfer : forall s o c a, owner_of s c = Some a ->
  exists a', owner_of (snd (step s o)) c = Some a' /\
    (a' <> a -> fst (step s o) = 0 /\ exists tn ini, o = Update c a (NewOwner a') tn ini).
Proof.
  unfold owner_of. intros s o c a H. destruct (get_cons s c) as [cr|] eqn:G; [|discriminate].
  simpl in H; inversion H; subst a.
  destruct (step_evolution s o c cr G) as [cr' [G' [[Ho _]|[H0 [sd [no [tn [ini [-> U]]]]]]]]]; rewrite G'; simpl;
    eexists; (split; [reflexivity|]).
  - intro; congruence.
  - intro Hne. split; [assumption|]. apply update_consumer_ok in U. destruct U as [Hs [_ [Hown _]]]. subst sd.
    destruct no; simpl in Hown; try congruence. exists tn, ini. congruence.
Qed.

Lemma topn_changes_only_by_owner : forall s o c n, topn_of s c = Some n ->
  exists n', topn_of (snd (step s o)) c = Some n' /\
    (n' <> n -> fst (step s o) = 0 /\ exists a no ini, o = Update c a no (Some n') ini /\ owner_of s c = Some a).
Proof.
  unfold topn_of, owner_of. intros s o c n H. destruct (get_cons s c) as [cr|] eqn:G; [|discriminate].
  simpl in H; inversion H; subst n.
  destruct (step_evolution s o c cr G) as [cr' [G' [[_ Ht]|[H0 [sd [no [tn [ini [-> U]]]]]]]]]; rewrite G'; simpl;
    eexists; (split; [reflexivity|]).
  - intro; congruence.
  - intro Hne. split; [assumption|]. apply update_consumer_ok in U. destruct U as [Hs [_ [_ [Htn _]]]]. subst sd.
    destruct tn as [n0|]; simpl in Htn; [|congruence]. exists (c_owner cr), no, ini. split; congruence.
Qed.

(* a consumer's owner is stable over any sequence without an ownership-transfer message for it *)
Lemma owner_stable : forall ops s c a, owner_of s c = Some a ->
  (forall sd a' tn ini, ~ In (Update c sd (NewOwner a') tn ini) ops) ->
  owner_of (run_ops s ops) c = Some a.
Proof.
  unfold run_ops. induction ops as [|o t IH]; intros s c a H Hn; simpl; [assumption|].
  apply IH; [|intros sd a' tn ini Hin; eapply Hn; right; eassumption].
  destruct (owner_changes_only_by_transfer s o c a H) as [a' [H' Hc]].
  destruct (Z.eq_dec a' a) as [->|Hne]; [assumption|].
  destruct (Hc Hne) as [_ [tn [ini ->]]]. exfalso. eapply Hn; left; reflexivity.
Qed.

(* ---------------------------------------------------------------- create *)
Lemma create_optin_only : forall s sd tn ini,
  (forall n, tn = Some n -> n <> 0 -> fst (step s (Create sd tn ini)) = E_VB) /\
  (fst (step s (Create sd tn ini)) = 0 ->
   exists cr, s_cons (snd (step s (Create sd tn ini))) = s_cons s ++ [cr] /\
     c_owner cr = sd /\ c_topn cr = 0 /\ c_opted cr = [] /\ c_keys cr = [] /\ c_comm cr = [] /\
     (c_phase cr = 1 \/ c_phase cr = 2)).
Proof.
  intros s sd tn ini; split.
  - intros n -> Hne. unfold step. simpl. destruct (n =? 0) eqn:E; zb; [lia|reflexivity].
  - intro H0. apply step_ok_handler in H0. destruct H0 as [_ Hh]. cbn [handler] in Hh. unfold bind in Hh.
    destruct (create_consumer sd tn ini) as [cr|] eqn:C; [|discriminate].
    apply create_consumer_ok in C. destruct C as [C1 [C2 [C3 [C4 [_ [C6 C7]]]]]].
    exists cr. inversion Hh as [Hs]. simpl. auto 10.
Qed.

(* ---------------------------------------------------------------- governance only *)
Lemma env_fold_globals : forall l s,
  s_nvals (fold_left env_step l s) = s_nvals s /\ s_minrate (fold_left env_step l s) = s_minrate s /\
  s_params (fold_left env_step l s) = s_params s /\ s_denoms (fold_left env_step l s) = s_denoms s /\
  s_cparams (fold_left env_step l s) = s_cparams s /\ length (s_cons (fold_left env_step l s)) = length (s_cons s).
Proof.
  induction l as [|e t IH]; intro s; simpl; [repeat split|].
  destruct (IH (env_step s e)) as [A1 [A2 [A3 [A4 [A5 A6]]]]].
  assert (B : s_nvals (env_step s e) = s_nvals s /\ s_minrate (env_step s e) = s_minrate s /\
              s_params (env_step s e) = s_params s /\ s_denoms (env_step s e) = s_denoms s /\
              s_cparams (env_step s e) = s_cparams s /\ length (s_cons (env_step s e)) = length (s_cons s)).
  { destruct e as [c ok auto|c]; simpl.
    - destruct (get_cons s c) as [cr|]; [|repeat split]. destruct (c_phase cr =? 2); [apply put_globals|repeat split].
    - destruct (get_cons s c) as [cr|]; [|repeat split]. destruct (c_phase cr =? 4); [apply put_globals|repeat split]. }
  destruct B as [B1 [B2 [B3 [B4 [B5 B6]]]]]. repeat split; congruence.
Qed.

Lemma handler_globals : forall s o s', handler s o = Ok s' ->
  s_nvals s' = s_nvals s /\ s_minrate s' = s_minrate s /\
  ((s_params s' = s_params s /\ s_denoms s' = s_denoms s /\ s_cparams s' = s_cparams s) \/ authority_of o = Some gov).
Proof.
  intros s o s' Hh. destruct o; cbn [handler] in Hh.
  - unfold bind in Hh. destruct (create_consumer sender topn ini); [|discriminate]. inversion Hh; subst; simpl; auto 10.
  - destruct (get_cons s c); [|discriminate]. unfold bind in Hh.
    destruct (update_consumer c0 sender no topn ini); [|discriminate]. inversion Hh; subst; simpl; auto 10.
  - destruct (get_cons s c); [|discriminate]. unfold bind in Hh.
    destruct (remove_consumer c0 sender); [|discriminate]. inversion Hh; subst; simpl; auto 10.
  - destruct (negb (authority =? gov)) eqn:E; [discriminate|]. destruct (p <=? 0); [discriminate|].
    inversion Hh; subst; simpl. zb. subst. auto 10.
  - destruct (negb (authority =? gov)) eqn:E; [discriminate|]. inversion Hh; subst; simpl. zb. subst. auto 10.
  - apply val_msg_ok in Hh. destruct Hh as [_ [x [y [_ [_ ->]]]]]. simpl; auto 10.
  - apply val_msg_ok in Hh. destruct Hh as [_ [x [y [_ [_ ->]]]]]. simpl; auto 10.
  - apply val_msg_ok in Hh. destruct Hh as [_ [x [y [_ [_ ->]]]]]. simpl; auto 10.
  - apply val_msg_ok in Hh. destruct Hh as [_ [x [y [_ [_ ->]]]]]. simpl; auto 10.
  - inversion Hh; subst. destruct (env_fold_globals l s) as [A1 [A2 [A3 [A4 [A5 _]]]]]. auto 10.
  - destruct (negb (authority =? gov)) eqn:E; [discriminate|]. destruct (p <=? 0); [discriminate|].
    inversion Hh; subst; simpl. zb. subst. auto 10.
Qed.

Lemma gov_only : forall s o,
  (s_params (snd (step s o)) <> s_params s \/ s_denoms (snd (step s o)) <> s_denoms s \/
   s_cparams (snd (step s o)) <> s_cparams s) ->
  fst (step s o) = 0 /\ authority_of o = Some gov.
Proof.
  intros s o H.
  destruct (step_cases s o) as [[_ E]|[[_ [e [_ [_ E]]]]|[V [s' [Hh E]]]]]; rewrite E in *; simpl in *.
  - destruct H as [H|[H|H]]; congruence.
  - destruct H as [H|[H|H]]; congruence.
  - split; [reflexivity|]. apply handler_globals in Hh. destruct Hh as [_ [_ [[A [B C]]|Hg]]]; [|assumption].
    destruct H as [H|[H|H]]; congruence.
Qed.

(* provider params / reward denoms / consumer params over a sequence without successful authority messages *)
Lemma globals_stable : forall ops s,
  (forall o, In o ops -> authority_of o <> Some gov) ->
  s_params (run_ops s ops) = s_params s /\ s_denoms (run_ops s ops) = s_denoms s /\ s_cparams (run_ops s ops) = s_cparams s.
Proof.
  unfold run_ops. induction ops as [|o t IH]; intros s Hn; simpl; [auto|].
  destruct (IH (snd (step s o)) (fun o' Hin => Hn o' (or_intror Hin))) as [A [B C]].
  assert (G : s_params (snd (step s o)) = s_params s /\ s_denoms (snd (step s o)) = s_denoms s /\
              s_cparams (snd (step s o)) = s_cparams s).
  { destruct (Z.eq_dec (s_params (snd (step s o))) (s_params s)) as [E1|E1];
      [|exfalso; apply (Hn o (or_introl eq_refl)); refine (proj2 (gov_only s o _)); auto].
    destruct (list_eq_dec Z.eq_dec (s_denoms (snd (step s o))) (s_denoms s)) as [E2|E2];
      [|exfalso; apply (Hn o (or_introl eq_refl)); refine (proj2 (gov_only s o _)); auto].
    destruct (Z.eq_dec (s_cparams (snd (step s o))) (s_cparams s)) as [E3|E3];
      [|exfalso; apply (Hn o (or_introl eq_refl)); refine (proj2 (gov_only s o _)); auto].
    auto. }
  destruct G as [G1 [G2 G3]]. repeat split; congruence.
Qed.

(* ---------------------------------------------------------------- the validator itself *)
Lemma validator_only : forall s o c v sg, validator_msg o = Some (c, v, sg) ->
  (sg <> oper_acct v -> step s o = (E_VB, s)) /\
  (fst (step s o) = 0 -> sg = oper_acct v /\ 0 <= v < s_nvals s) /\
  s_params (snd (step s o)) = s_params s /\ s_denoms (snd (step s o)) = s_denoms s /\
  s_cparams (snd (step s o)) = s_cparams s /\ length (s_cons (snd (step s o))) = length (s_cons s) /\
  (forall c', c' <> c -> get_cons (snd (step s o)) c' = get_cons s c') /\
  (key_inv s -> forall cr, get_cons s c = Some cr ->
     exists cr', get_cons (snd (step s o)) c = Some cr' /\ vframe v cr cr').
Proof.
  intros s o c v sg Hm.
  assert (VB : validate_basic o = true -> sg = oper_acct v /\ 0 <= v).
  { intro V. destruct o; try discriminate; simpl in Hm; inversion Hm; subst; simpl in V; unfold vb_provider_addr in V; zb; auto. }
  assert (OK : forall s', handler s o = Ok s' ->
     v < s_nvals s /\ exists cr cr', get_cons s c = Some cr /\ s' = put_cons s c cr' /\ (kinv cr -> vframe v cr cr')).
  { intros s' Hh. destruct o; try discriminate; simpl in Hm; inversion Hm; subst; cbn [handler] in Hh;
      apply val_msg_ok in Hh; destruct Hh as [Hv [cr [cr' [G [F ->]]]]]; (split; [assumption|]);
      exists cr, cr'; (split; [assumption|]); (split; [reflexivity|]); intro K.
    - eapply handle_opt_in_ok; eassumption.
    - eapply handle_opt_out_ok; eassumption.
    - eapply assign_key_ok; eassumption.
    - eapply handle_commission_ok; eassumption. }
  destruct (step_cases s o) as [[V E]|[[V [e [_ [Hne E]]]]|[V [s' [Hh E]]]]]; rewrite E; simpl.
  - split; [reflexivity|]. split; [unfold E_VB; intro; lia|]. repeat split; auto.
    intros _ cr G; exists cr; split; [assumption|apply vframe_refl].
  - destruct (VB V) as [Hs Hv0]. split; [intro; contradiction|].
    split; [intro; contradiction|].
    repeat split; auto. intros _ cr G; exists cr; split; [assumption|apply vframe_refl].
  - destruct (VB V) as [Hs Hv0]. destruct (OK s' Hh) as [Hv [cr [cr' [G [-> F]]]]].
    split; [intro; contradiction|]. split; [intros _; split; [assumption|lia]|].
    simpl. repeat split; auto.
    + apply length_upd.
    + intros c' Hne. apply get_put_other; [eapply get_cons_nonneg; eassumption|assumption].
    + intros K cr0 G0. rewrite G in G0; inversion G0; subst cr0. exists cr'. split; [eapply get_put_same; eassumption|].
      apply F. eapply Forall_get; eassumption.
Qed.
