(* Lemmas about Model/EligibilityTopN.v: C02 (Proofs/EligibilityProofs.v) and C04 (Proofs/PowerCapProofs.v)
   instantiated with the threshold computed by Model/TopN.v, and C03_threshold (Proofs/TopNProofs.v). *)
From Coq Require Import ZArith List Bool Lia Permutation.
From ICS Require Import Base.SortDesc Base.Tree Model.PowerCap Proofs.PowerCapProofs.
From ICS Require Model.Eligibility Model.TopN.
From ICS Require Proofs.EligibilityProofs Proofs.TopNProofs.
From ICS Require Import Model.EligibilityTopN.
Import ListNotations.
Open Scope Z_scope.

Module EP := ICS.Proofs.EligibilityProofs.
Module TP := ICS.Proofs.TopNProofs.

(* ------------------------------------------------------------------ vocabulary *)

(* the provider's active validators: the first M of the staking list *)
Definition active (oracle : list E.sval) (M : Z) : list E.sval := firstn (Z.to_nat M) oracle.

(* o recomputes the consumer's set from the snapshot: an epoch of a launched consumer, or a launch *)
Definition recomputes (s : sys) (o : sop) (height : Z) (oracle : list E.sval) (maxv M : Z) : Prop :=
  (o = SEpoch height oracle maxv M /\ E.launched (cons s) = true) \/ o = SLaunch height oracle maxv M.

(* staking hypotheses: distinct validators with last power >= 1; the active validators are bonded ones *)
Definition wf_oracle (oracle : list E.sval) : Prop :=
  NoDup (map E.s_id oracle) /\ Forall (fun v => 1 <= E.s_pow v) oracle.
Definition active_bonded (oracle : list E.sval) (maxv M : Z) : Prop :=
  M <= maxv \/ Z.of_nat (length oracle) <= maxv.

Definition with_set_cap (k : Z) (c : E.consumer) : E.consumer :=
  E.mkCons (E.mkCfg (E.top_n (E.cfg c)) k (E.power_cap (E.cfg c)) (E.min_stake (E.cfg c))
                    (E.allow_inactive (E.cfg c)) (E.allowl (E.cfg c)) (E.denyl (E.cfg c)) (E.priol (E.cfg c)))
           (E.opted c) (E.keys c) (E.valset c) (E.launched c).

(* the eligible candidates at provider power, ranked (priority-listed first, then by power): what
   CapValidatorsPower receives for a Top-N consumer *)
Definition ranked_members (oracle : list E.sval) (maxv M height : Z) (c : E.consumer) (m : Z) : list val :=
  let c1 := EP.after_optin c (E.take_max M oracle) m in
  let filtered := E.filter_validators height c1 (EP.eff_mp c m)
                    (EP.cand_of M c1 (if E.allow_inactive (E.cfg c) then E.take_max maxv oracle else E.take_max M oracle)) in
  fst (partition_priority (E.priol (E.cfg c)) (map E.to_val filtered))
  ++ snd (partition_priority (E.priol (E.cfg c)) (map E.to_val filtered)).

(* ------------------------------------------------------------------ the computation *)

Lemma active_powers_eq oracle M : active_powers oracle M = map E.s_pow (active oracle M).
Proof. unfold active_powers, active. now rewrite EP.take_max_firstn. Qed.

Lemma compute_next_topn_spec oracle maxv M height s s' next :
  0 < E.top_n (E.cfg (cons s)) ->
  compute_next_topn oracle maxv M height s = Some (s', next) ->
  exists m,
    T.compute_min_power (active_powers oracle M) (E.top_n (E.cfg (cons s))) = Some m
    /\ thr s' = Some m
    /\ next = EP.next_set oracle maxv M height (cons s) m
    /\ cons s' = E.set_valset (EP.after_optin (cons s) (E.take_max M oracle) m) next.
Proof.
  intros Htop. unfold compute_next_topn.
  destruct (Z.ltb_spec 0 (E.top_n (E.cfg (cons s)))) as [_|?]; [|lia].
  destruct (T.compute_min_power _ _) as [m|]; [|discriminate].
  intros [= <- <-]. exists m. cbn [thr cons].
  split; [reflexivity|]. split; [reflexivity|]. split; [reflexivity|].
  rewrite EP.ccnv_consumer. reflexivity.
Qed.

Lemma recompute_spec s o height oracle maxv M s' :
  recomputes s o height oracle maxv M -> step s o = (s', 0) ->
  exists s1 next, compute_next_topn oracle maxv M height s = Some (s1, next)
    /\ thr s' = thr s1 /\ E.valset (cons s') = E.valset (cons s1) /\ E.opted (cons s') = E.opted (cons s1)
    /\ E.cfg (cons s') = E.cfg (cons s1) /\ E.keys (cons s') = E.keys (cons s1).
Proof.
  intros [[-> Hl] | ->]; cbn [step]; [unfold epoch|unfold launch].
  - rewrite Hl. cbn [negb].
    destruct (compute_next_topn oracle maxv M height s) as [[s1 next]|]; [|discriminate].
    intros [= <-]. exists s1, next. repeat split; reflexivity.
  - destruct (E.launched (cons s)); [discriminate|].
    destruct (compute_next_topn oracle maxv M height s) as [[s1 next]|]; [|discriminate].
    destruct (negb (E.is_nil next) && _); [|discriminate].
    intros [= <-]. exists s1, next. repeat split; reflexivity.
Qed.

Lemma compute_min_power_nonempty l n m : T.compute_min_power l n = Some m -> l <> [] /\ 1 <= n <= 100 \/ n < 0.
Proof.
  unfold T.compute_min_power.
  destruct (Z.eqb_spec n 0) as [->|Hn0]; [discriminate|].
  destruct (Z.ltb_spec 100 n) as [?|Hle]; [discriminate|]. cbn [orb].
  destruct l as [|x t]; [discriminate|]. intros _.
  destruct (Z.lt_ge_cases n 0); [right; assumption|left]. split; [discriminate|lia].
Qed.

(* ---- C03_system_threshold_is_computed ---- *)
Theorem threshold_is_computed s o height oracle maxv M s' :
  recomputes s o height oracle maxv M -> 0 < E.top_n (E.cfg (cons s)) ->
  step s o = (s', 0) ->
  let N := E.top_n (E.cfg (cons s)) in
  let powers := map E.s_pow (active oracle M) in
  exists m,
    T.compute_min_power powers N = Some m
    /\ thr s' = Some m
    /\ E.valset (cons s') = EP.next_set oracle maxv M height (cons s) m
    /\ (Forall (fun v => 1 <= E.s_pow v) oracle -> T.sum_z powers < 20000000000000000 ->
        In m powers
        /\ N * T.sum_z powers <= 100 * T.sum_ge m powers
        /\ 100 * T.sum_gt m powers < N * T.sum_z powers).
Proof.
  intros Hr Htop Hstep N powers.
  destruct (recompute_spec _ _ _ _ _ _ _ Hr Hstep) as (s1 & next & Hc & Ht & Hv & _).
  destruct (compute_next_topn_spec _ _ _ _ _ _ _ Htop Hc) as (m & Hm & Hthr & Hnext & Hcons).
  rewrite active_powers_eq in Hm. fold powers N in Hm.
  exists m. split; [assumption|]. split; [congruence|].
  split; [rewrite Hv, Hcons; cbn; assumption|].
  intros Hpos Hbound.
  destruct (compute_min_power_nonempty _ _ _ Hm) as [[Hne HN]|Hneg]; [|unfold N in Hneg; lia].
  assert (Hall : Forall (fun p => 1 <= p) powers).
  { unfold powers, active. apply Forall_forall. intros p Hp. apply in_map_iff in Hp.
    destruct Hp as (v & <- & Hin). apply EP.firstn_In in Hin. rewrite Forall_forall in Hpos. auto. }
  assert (Hsum : 0 < T.sum_z powers).
  { destruct powers as [|p t]; [congruence|]. inversion Hall as [|? ? Hp Ht']; subst.
    assert (0 <= T.sum_z t).
    { apply TP.sum_z_nonneg. eapply Forall_impl; [|exact Ht']. cbv beta. intros; lia. }
    cbn [T.sum_z fold_right]. fold (T.sum_z t). lia. }
  destruct (TP.threshold_correct powers N) as (m' & Hm' & Hin & Hge & Hgt); try assumption.
  { eapply Forall_impl; [|exact Hall]. cbv beta. intros; lia. }
  rewrite Hm in Hm'. injection Hm' as <-. auto.
Qed.

Lemma firstn_le_incl {A} (n k : nat) (l : list A) x : (n <= k)%nat -> In x (firstn n l) -> In x (firstn k l).
Proof.
  revert k l. induction n as [|n IH]; intros k l Hle Hin; [contradiction|].
  destruct l as [|a t]; [contradiction|]. destruct k as [|k]; [lia|].
  cbn [firstn] in *. destruct Hin as [->|Hin]; [left; reflexivity|right]. apply IH; [lia|assumption].
Qed.

Lemma active_in_candidates oracle maxv M c v :
  active_bonded oracle maxv M -> In v (active oracle M) -> In v (EP.candidates oracle maxv M c).
Proof.
  intros Hab Hv. unfold EP.candidates, active in *. destruct (E.allow_inactive (E.cfg c)); [|assumption].
  destruct Hab as [Hle|Hlen].
  - apply (firstn_le_incl (Z.to_nat M)); [lia|assumption].
  - rewrite firstn_all2 by lia. now apply EP.firstn_In in Hv.
Qed.

(* ---- C03_system_top_included ---- *)
Theorem top_included s o height oracle maxv M s' :
  recomputes s o height oracle maxv M -> 0 < E.top_n (E.cfg (cons s)) ->
  step s o = (s', 0) ->
  NoDup (map E.s_id oracle) -> active_bonded oracle maxv M ->
  exists m,
    T.compute_min_power (map E.s_pow (active oracle M)) (E.top_n (E.cfg (cons s))) = Some m /\
    forall v, In v (active oracle M) -> m <= E.s_pow v ->
      EP.lists_ok (cons s) v -> EP.stake_ok (cons s) v ->
      In (E.s_id v) (E.opted (cons s')) /\
      exists x, In x (E.valset (cons s')) /\ E.c_id x = E.s_id v
        /\ (E.power_cap (E.cfg (cons s)) = 0 -> E.c_pow x = E.s_pow v)
        /\ E.c_key x = EP.expected_key (cons s) v.
Proof.
  intros Hr Htop Hstep Hnd Hab.
  destruct (recompute_spec _ _ _ _ _ _ _ Hr Hstep) as (s1 & next & Hc & Ht & Hv & Ho & _).
  destruct (compute_next_topn_spec _ _ _ _ _ _ _ Htop Hc) as (m & Hm & Hthr & Hnext & Hcons).
  rewrite active_powers_eq in Hm.
  exists m. split; [assumption|]. intros v Hva Hpow Hlists Hstake. split.
  - rewrite Ho, Hcons. cbn [E.set_valset E.opted]. unfold EP.after_optin.
    destruct (Z.ltb_spec 0 (E.top_n (E.cfg (cons s)))) as [_|?]; [|lia].
    apply EP.mem_In. rewrite EP.mem_opt_in_topn. apply orb_true_iff. right.
    apply existsb_exists. exists v. split.
    + rewrite EP.take_max_firstn. exact Hva.
    + unfold EP.eff_mp. destruct (Z.ltb_spec 0 (E.top_n (E.cfg (cons s)))) as [_|?]; [|lia].
      apply andb_true_iff. split; [apply Z.leb_le, Hpow|apply Z.eqb_refl].
  - destruct (EP.complete oracle maxv M height (cons s) m v) as (x & Hx & Hid); auto.
    + apply active_in_candidates; assumption.
    + right. split; assumption.
    + exists x. rewrite Hv, Hcons. cbn [E.set_valset E.valset]. rewrite Hnext.
      split; [assumption|]. split; [assumption|].
      destruct (EP.sound oracle maxv M height (cons s) m x Hnd Hx)
        as (v' & Hv' & Hid' & _ & _ & _ & Hp & Hk & _).
      assert (v' = v).
      { apply (EP.NoDup_map_inj E.s_id oracle); auto.
        - unfold active in Hva. now apply EP.firstn_In in Hva.
        - congruence. }
      subst v'. auto.
Qed.

(* ---- C03_system_below_needs_optin (with the other conditions every member meets) ---- *)
Theorem below_needs_optin s o height oracle maxv M s' :
  recomputes s o height oracle maxv M -> 0 < E.top_n (E.cfg (cons s)) ->
  step s o = (s', 0) ->
  NoDup (map E.s_id oracle) ->
  exists m, thr s' = Some m /\
    forall x, In x (E.valset (cons s')) ->
      exists v, In v oracle /\ E.s_id v = E.c_id x
        /\ (E.s_pow v < m -> In (E.s_id v) (E.opted (cons s)))
        /\ EP.lists_ok (cons s) v /\ EP.stake_ok (cons s) v
        /\ (E.allow_inactive (E.cfg (cons s)) = false -> exists a, In a (active oracle M) /\ E.s_id a = E.c_id x).
Proof.
  intros Hr Htop Hstep Hnd.
  destruct (recompute_spec _ _ _ _ _ _ _ Hr Hstep) as (s1 & next & Hc & Ht & Hv & _).
  destruct (compute_next_topn_spec _ _ _ _ _ _ _ Htop Hc) as (m & Hm & Hthr & Hnext & Hcons).
  exists m. split; [congruence|]. intros x Hx.
  rewrite Hv, Hcons in Hx. cbn [E.set_valset E.valset] in Hx. rewrite Hnext in Hx.
  destruct (EP.sound oracle maxv M height (cons s) m x Hnd Hx)
    as (v & Hvo & Hid & Hopt & Hl & Hs & _).
  exists v. split; [assumption|]. split; [assumption|]. split.
  - intros Hlt. destruct Hopt as [Hin|[_ Hge]]; [assumption|lia].
  - split; [assumption|]. split; [assumption|].
    intros Hai. apply (EP.active_only oracle maxv M height (cons s) m x Hai Hx).
Qed.

(* ---- C03_system_set_cap_noop ---- *)

Lemma shape_topn prio tn sc pc el : 0 < tn -> shape prio tn sc pc el = shape prio tn 0 pc el.
Proof.
  intros Htn. rewrite !shape_compose.
  destruct (cap_prefix tn sc (fst (partition_priority prio el) ++ snd (partition_priority prio el))) as [_ H1].
  destruct (cap_prefix tn 0 (fst (partition_priority prio el) ++ snd (partition_priority prio el))) as [_ H2].
  rewrite H1, H2 by auto. reflexivity.
Qed.

Lemma after_optin_set_cap k c act m :
  EP.after_optin (with_set_cap k c) act m = with_set_cap k (EP.after_optin c act m).
Proof.
  unfold EP.after_optin, EP.eff_mp, with_set_cap, E.opt_in_topn. cbn [E.cfg E.top_n E.opted E.keys E.valset E.launched].
  destruct (0 <? E.top_n (E.cfg c)); reflexivity.
Qed.

Lemma cnv_set_cap M height c mp slice :
  0 < E.top_n (E.cfg c) ->
  fst (E.compute_next_validators M height c mp slice) =
  fst (E.compute_next_validators M height (with_set_cap 0 c) mp slice).
Proof.
  intros Htn. rewrite !EP.cnv_unfold. cbv zeta.
  assert (Hf : forall l, E.filter_validators height (with_set_cap 0 c) mp l = E.filter_validators height c mp l).
  { intros l. unfold E.filter_validators. f_equal. }
  assert (Hc : forall l, EP.cand_of M (with_set_cap 0 c) l = EP.cand_of M c l) by reflexivity.
  rewrite Hc, Hf. cbn [with_set_cap E.cfg E.priol E.top_n E.set_cap E.power_cap].
  rewrite (shape_topn _ _ (E.set_cap (E.cfg c))) by assumption. reflexivity.
Qed.

Theorem set_cap_noop oracle maxv M height c m :
  0 < E.top_n (E.cfg c) ->
  EP.next_set oracle maxv M height c m = EP.next_set oracle maxv M height (with_set_cap 0 c) m.
Proof.
  intros Htn. rewrite !EP.next_set_eq. rewrite after_optin_set_cap.
  unfold EP.eff_mp. cbn [with_set_cap E.cfg E.top_n E.allow_inactive].
  apply cnv_set_cap. now rewrite EP.after_optin_cfg.
Qed.

(* ... and the power cap still applies: the members' powers are CapValidatorsPower of the ranked eligible
   candidates at provider power *)
Theorem power_cap_applies oracle maxv M height c m :
  0 < E.top_n (E.cfg c) -> NoDup (map E.s_id oracle) ->
  let R := ranked_members oracle maxv M height c m in
  (forall x, In x (EP.next_set oracle maxv M height c m) ->
     In (E.c_id x, E.c_pow x) (cap_validators_power (E.power_cap (E.cfg c)) R)) /\
  (forall p, In p R -> exists v, In v oracle /\ p = (E.s_id v, E.s_pow v)).
Proof.
  intros Htn Hnd R. split.
  - intros x Hx. rewrite EP.next_set_eq, EP.cnv_unfold in Hx. cbv zeta in Hx.
    apply EP.reattach_in in Hx. destruct Hx as (v & y & Hv & Hf & ->).
    apply find_some in Hf. destruct Hf as [_ Hq]. apply Z.eqb_eq in Hq. cbn [E.c_id E.c_pow].
    rewrite Hq. rewrite EP.after_optin_cfg, shape_compose in Hv.
    destruct (cap_prefix (E.top_n (E.cfg c)) (E.set_cap (E.cfg c))
                (fst (partition_priority (E.priol (E.cfg c))
                   (map E.to_val (E.filter_validators height (EP.after_optin c (E.take_max M oracle) m) (EP.eff_mp c m)
                      (EP.cand_of M (EP.after_optin c (E.take_max M oracle) m)
                         (if E.allow_inactive (E.cfg c) then E.take_max maxv oracle else E.take_max M oracle))))) ++
                 snd (partition_priority (E.priol (E.cfg c))
                   (map E.to_val (E.filter_validators height (EP.after_optin c (E.take_max M oracle) m) (EP.eff_mp c m)
                      (EP.cand_of M (EP.after_optin c (E.take_max M oracle) m)
                         (if E.allow_inactive (E.cfg c) then E.take_max maxv oracle else E.take_max M oracle)))))))
      as [_ Hid].
    rewrite Hid in Hv by auto. destruct v as [i p]. exact Hv.
  - intros p Hp. unfold R, ranked_members in Hp. cbv zeta in Hp.
    apply (Permutation_in _ (ranked_perm _ _)) in Hp.
    apply in_map_iff in Hp. destruct Hp as (y & <- & Hy).
    apply EP.filtered_in in Hy. destruct Hy as (v & Hv & _ & ->).
    apply EP.cand_in in Hv. apply EP.slice_in_oracle in Hv.
    exists v. split; [assumption|reflexivity].
Qed.

(* ---- error path: a Top-N consumer without active validators ---- *)
Theorem no_active_fails s height oracle maxv M :
  0 < E.top_n (E.cfg (cons s)) -> active oracle M = [] ->
  (E.launched (cons s) = true -> step s (SEpoch height oracle maxv M) = (s, 3)) /\
  (E.launched (cons s) = false -> step s (SLaunch height oracle maxv M) = (s, 2)).
Proof.
  intros Htn Hact.
  assert (Hnone : compute_next_topn oracle maxv M height s = None).
  { unfold compute_next_topn. destruct (Z.ltb_spec 0 (E.top_n (E.cfg (cons s)))) as [_|?]; [|lia].
    rewrite active_powers_eq, Hact. unfold T.compute_min_power. cbn [map].
    destruct ((E.top_n (E.cfg (cons s)) =? 0) || (100 <? E.top_n (E.cfg (cons s)))); reflexivity. }
  split; intros Hl; cbn [step]; [unfold epoch|unfold launch]; rewrite Hl, Hnone; reflexivity.
Qed.

(* ---- the example of Props/C03System.v: N = 60, validator 1 denylisted above the threshold, validator 4 opted in below it ---- *)
Definition ex_oracle : list E.sval :=
  [E.mkS 0 40000000 40 1000; E.mkS 1 30000000 30 1001; E.mkS 2 15000000 15 1002; E.mkS 3 10000000 10 1003; E.mkS 4 5000000 5 1004].
Definition ex_ops : list sop :=
  [SOptIn 4; SConfig (E.mkCfg 60 0 0 0 false [] [1] []) ex_oracle 5; SLaunch 2 ex_oracle 100 5; SEpoch 2 ex_oracle 100 5].
