(* Lemmas and invariants about Model/Throttle.v (C09; consumer part also used by C08). *)
From Coq Require Import ZArith List Bool Lia.
From ICS Require Import Base.Dec Base.Tree Model.Throttle.
Import ListNotations.
Open Scope Z_scope.

(* ================================================================ provider slash meter *)

Lemma chop_round_nonneg_ge0 a : 0 <= a -> 0 <= chop_round_nonneg a.
Proof.
  intros Ha. unfold chop_round_nonneg.
  assert (Hq : 0 <= Z.quot a P) by (apply Z.quot_pos; [lia | unfold P; lia]).
  destruct (Z.rem a P =? 0); [lia|].
  destruct (Z.rem a P <? halfP); [lia|].
  destruct (halfP <? Z.rem a P); [lia|].
  destruct (Z.even (Z.quot a P)); lia.
Qed.

Lemma allowance_ge_1 frac total : 0 <= frac -> 0 <= total -> 1 <= allowance frac total.
Proof.
  intros Hf Ht. unfold allowance, dround_int, dmul_int, chop_round.
  assert (H0 : 0 <= frac * total) by nia.
  destruct (frac * total <? 0) eqn:E; [apply Z.ltb_lt in E; lia|].
  pose proof (chop_round_nonneg_ge0 _ H0) as Hc.
  destruct (chop_round_nonneg (frac * total) =? 0) eqn:E0; [lia|].
  apply Z.eqb_neq in E0. lia.
Qed.

Lemma begin_block_le_allowance frac period now total s :
  meter (begin_block frac period now total s) <= allowance frac total.
Proof.
  unfold begin_block.
  set (a := allowance frac total).
  set (s1 := if due now s then _ else s).
  destruct (a <=? meter s1) eqn:E; simpl.
  - lia.
  - apply Z.leb_gt in E. lia.
Qed.

(* a begin-block adds at most one allowance, and only when a replenishment is due *)
Lemma begin_block_increment frac period now total s :
  meter (begin_block frac period now total s) - meter s
  <= (if due now s then allowance frac total else 0).
Proof.
  unfold begin_block, replenish.
  set (a := allowance frac total).
  destruct (due now s) eqn:Ed; cbn [meter].
  - destruct (a <? meter s + a) eqn:E1.
    + apply Z.ltb_lt in E1. destruct (a <=? a) eqn:E2; cbn [meter]; lia.
    + apply Z.ltb_ge in E1.
      destruct (a <=? meter s + a) eqn:E2; cbn [meter]; [apply Z.leb_le in E2|]; lia.
  - destruct (a <=? meter s) eqn:E2; cbn [meter]; [apply Z.leb_le in E2|]; lia.
Qed.

(* without a due replenishment the meter can only be clamped down to the allowance *)
Lemma begin_block_not_due frac period now total s :
  due now s = false ->
  meter (begin_block frac period now total s) = Z.min (meter s) (allowance frac total).
Proof.
  intros Ed. unfold begin_block. rewrite Ed.
  destruct (allowance frac total <=? meter s) eqn:E; cbn [meter];
    [apply Z.leb_le in E | apply Z.leb_gt in E]; lia.
Qed.

Lemma begin_block_cand frac period now total s :
  cand (begin_block frac period now total s) = cand s \/
  cand (begin_block frac period now total s) = now + period.
Proof.
  unfold begin_block. destruct (due now s); cbn [meter cand];
    match goal with |- context [if ?c then _ else _] => destruct c end; cbn [cand]; auto.
Qed.

Lemma begin_block_cand_due frac period now total s :
  due now s = true -> cand (begin_block frac period now total s) = now + period.
Proof.
  intros Ed. unfold begin_block. rewrite Ed. cbn [meter cand].
  match goal with |- context [if ?c then _ else _] => destruct c end; reflexivity.
Qed.

Lemma meter_le_allowance_run frac period init ops now total :
  0 <= frac -> 0 <= total ->
  let s := fold_left (pstep frac period) (ops ++ [PBegin now total]) init in
  meter s <= allowance frac total /\ 1 <= allowance frac total.
Proof.
  intros Hf Ht. rewrite fold_left_app. cbn [fold_left pstep].
  split; [apply begin_block_le_allowance | now apply allowance_ge_1].
Qed.

(* --- handling only with a non-negative meter --- *)
Lemma handled_iff s reach pow :
  presult s (PRecv reach pow) = 2 <-> reach = true /\ 0 <= meter s.
Proof.
  unfold presult, recv_meter. destruct reach; [|split; [discriminate | intros [H _]; discriminate]].
  destruct (meter s <? 0) eqn:E; cbn [fst].
  - apply Z.ltb_lt in E. split; [discriminate | intros [_ H]; lia].
  - apply Z.ltb_ge in E. split; auto.
Qed.

Lemma bounced_iff s reach pow :
  presult s (PRecv reach pow) = 3 <-> reach = true /\ meter s < 0.
Proof.
  unfold presult, recv_meter. destruct reach; [|split; [discriminate | intros [H _]; discriminate]].
  destruct (meter s <? 0) eqn:E; cbn [fst].
  - apply Z.ltb_lt in E. split; auto.
  - apply Z.ltb_ge in E. split; [discriminate | intros [_ H]; lia].
Qed.

Lemma recv_effect frac period s reach pow :
  pstep frac period s (PRecv reach pow) =
  if presult s (PRecv reach pow) =? 2 then mkP (meter s - pow) (cand s) else s.
Proof.
  unfold pstep, presult, recv_meter. destruct reach; [|reflexivity].
  destruct (meter s <? 0); reflexivity.
Qed.

(* --- replenishment spacing --- *)
Fixpoint mono (lb : Z) (l : list Z) : Prop :=
  match l with [] => True | x :: t => lb <= x /\ mono x t end.
Fixpoint spaced_from (period lo : Z) (l : list Z) : Prop :=
  match l with [] => True | x :: t => lo <= x /\ spaced_from period (x + period) t end.

Lemma spacing_gen frac period : 0 <= period ->
  forall ops s lb lo,
    mono lb (ptimes ops) -> lo <= cand s -> lo <= lb + period ->
    spaced_from period lo (replenish_times frac period s ops).
Proof.
  intros Hp. induction ops as [|op t IH]; intros s lb lo Hm Hc Hl; cbn [replenish_times]; [exact I|].
  destruct op as [now total | reach pow].
  - cbn [ptimes mono] in Hm. destruct Hm as [Hlb Hm]. cbn [pstep].
    destruct (due now s) eqn:Ed.
    + unfold due in Ed. apply negb_true_iff, Z.ltb_ge in Ed.
      cbn [spaced_from]. split; [lia|].
      apply IH with (lb := now); auto.
      * rewrite begin_block_cand_due; [lia|]. unfold due. apply negb_true_iff, Z.ltb_ge. lia.
      * lia.
    + apply IH with (lb := now); auto.
      * destruct (begin_block_cand frac period now total s) as [E|E]; rewrite E; lia.
      * lia.
  - cbn [ptimes] in Hm. apply IH with (lb := lb); auto.
    cbn [pstep]. destruct reach; [|assumption].
    unfold recv_meter. destruct (meter s <? 0); cbn [snd cand]; assumption.
Qed.

(* --- window bound --- *)
Definition pop_ok (op : pop) : Prop :=
  match op with PBegin _ total => 0 <= total | PRecv _ pow => 0 <= pow end.

Definition winv (s0 : pstate) (a : pacc) : Prop :=
  meter (a_st a) <= meter s0 - a_D a + a_R a /\
  a_D a - a_L a <= Z.max 0 (meter s0 + a_R a) /\
  0 <= a_R a /\ 0 <= a_L a /\ 0 <= a_D a.

Lemma winv_step frac period s0 a op :
  0 <= frac -> pop_ok op -> winv s0 a -> winv s0 (pstep_acc frac period a op).
Proof.
  intros Hf Hok (HA & HB & HR & HL & HD). unfold pstep_acc.
  destruct op as [now total | reach pow]; cbn [pop_ok] in Hok.
  - cbn [pstep]. unfold winv. cbn [a_st a_D a_R a_L].
    pose proof (begin_block_increment frac period now total (a_st a)) as Hi.
    pose proof (allowance_ge_1 frac total Hf Hok) as Ha.
    destruct (due now (a_st a)); repeat split; lia.
  - cbn [pstep]. destruct reach; cbn [andb].
    + unfold recv_meter. destruct (meter (a_st a) <? 0) eqn:E; cbn [fst snd].
      * unfold winv; cbn [a_st a_D a_R a_L]. repeat split; lia.
      * apply Z.ltb_ge in E. unfold winv; cbn [a_st a_D a_R a_L meter]. repeat split; lia.
    + unfold winv; cbn [a_st a_D a_R a_L]. repeat split; lia.
Qed.

Lemma winv_run frac period s0 : 0 <= frac ->
  forall ops a, Forall pop_ok ops -> winv s0 a -> winv s0 (fold_left (pstep_acc frac period) ops a).
Proof.
  intros Hf. induction ops as [|op t IH]; intros a Hok Hi; cbn [fold_left]; [assumption|].
  inversion Hok; subst. apply IH; [assumption|]. now apply winv_step.
Qed.

Lemma pwindow_state frac period : forall ops a,
  a_st (fold_left (pstep_acc frac period) ops a) = fold_left (pstep frac period) ops (a_st a).
Proof.
  induction ops as [|op t IH]; intros a; cbn [fold_left]; [reflexivity|].
  rewrite IH. f_equal. unfold pstep_acc. destruct op as [now total | reach pow]; cbn [a_st]; [reflexivity|].
  destruct (reach && fst (recv_meter pow (a_st a))); reflexivity.
Qed.

Lemma window_bound frac period s ops :
  0 <= frac -> Forall pop_ok ops ->
  let w := pwindow frac period s ops in
  a_D w <= Z.max 0 (meter s + a_R w) + a_L w /\ a_st w = fold_left (pstep frac period) ops s.
Proof.
  intros Hf Hok w. split.
  - assert (Hw : winv s w).
    { apply winv_run; auto. unfold winv; cbn [a_st a_D a_R a_L]. repeat split; lia. }
    destruct Hw as (_ & HB & _). lia.
  - unfold w, pwindow. rewrite pwindow_state. reflexivity.
Qed.

(* ================================================================ consumer state machine *)

Lemma memz_In x l : memz x l = true <-> In x l.
Proof.
  unfold memz. rewrite existsb_exists. split.
  - intros (y & Hy & E). apply Z.eqb_eq in E. now subst.
  - intros H. exists x. split; [assumption | apply Z.eqb_refl].
Qed.

Lemma memz_false x l : memz x l = false <-> ~ In x l.
Proof.
  rewrite <- memz_In. destruct (memz x l); split; intros; congruence.
Qed.

Lemma In_remz a x l : In a (remz x l) <-> In a l /\ a <> x.
Proof.
  unfold remz. rewrite filter_In. rewrite negb_true_iff, Z.eqb_neq. reflexivity.
Qed.

Lemma In_addz a x l : In a (addz x l) <-> a = x \/ In a l.
Proof.
  unfold addz. destruct (memz x l) eqn:E.
  - apply memz_In in E. split; [auto | intros [->|H]; assumption].
  - cbn [In]. split; intros [H|H]; auto.
Qed.

Lemma In_fold_remz a : forall acks o,
  In a (fold_left (fun o x => remz x o) acks o) <-> In a o /\ ~ In a acks.
Proof.
  induction acks as [|x t IH]; intros o; cbn [fold_left].
  - cbn [In]. tauto.
  - rewrite IH, In_remz. cbn [In]. split.
    + intros [[H1 H2] H3]. split; [assumption|]. intros [E|E]; [congruence | contradiction].
    + intros [H1 H2]. repeat split; auto.
Qed.

Lemma In_apply_changes a : forall ch cc o,
  In a (snd (apply_changes ch cc o)) <-> In a o /\ ~ In a (created ch cc).
Proof.
  induction ch as [|[x p] t IH]; intros cc o; cbn [apply_changes created].
  - cbn [snd In]. tauto.
  - destruct (memz x cc).
    + destruct (p <? 1); apply IH.
    + destruct (0 <? p).
      * rewrite IH, In_remz. cbn [In]. split.
        -- intros [[H1 H2] H3]. split; [assumption|]. intros [E|E]; [congruence | contradiction].
        -- intros [H1 H2]. repeat split; auto.
      * apply IH.
Qed.

(* --- the send loop --- *)
Definition nonslash (l : list pkt) : Prop := Forall (fun p => is_slash p = false) l.

Lemma send_loop_blocked delay now sf fail r q :
  permitted delay now r = false -> send_loop delay now sf fail r q = ([], q, r).
Proof.
  intros Hp. destruct q as [|p t]; cbn [send_loop]; [reflexivity|]. rewrite Hp. reflexivity.
Qed.

Lemma send_loop_struct delay now sf : forall q fail r sent q' r',
  send_loop delay now sf fail r q = (sent, q', r') ->
  exists pre, q = pre ++ q' /\ nonslash pre /\
    ((sent = pre /\ r' = r) \/
     (exists p t, q' = p :: t /\ is_slash p = true /\ sent = pre ++ [p] /\ r' = Some (true, now)
                  /\ permitted delay now r = true)).
Proof.
  induction q as [|p t IH]; intros fail r sent q' r' H; cbn [send_loop] in H.
  - inversion H; subst. exists []. repeat split; [constructor | left; auto].
  - destruct (permitted delay now r) eqn:Hp; cbn [negb] in H.
    2:{ inversion H; subst. exists []. repeat split; [constructor | left; auto]. }
    destruct (sf || match fail with Some O => true | _ => false end).
    { inversion H; subst. exists []. repeat split; [constructor | left; auto]. }
    destruct (is_slash p) eqn:Hs.
    { inversion H; subst. exists []. repeat split; [constructor|].
      right. exists p, t. repeat split; auto. }
    destruct (send_loop delay now sf (option_map Nat.pred fail) r t) as [[s1 q1] r1] eqn:E.
    inversion H; subst.
    destruct (IH _ _ _ _ _ E) as (pre & Hq & Hns & Hcase).
    exists (p :: pre). split; [cbn; now rewrite Hq|]. split; [constructor; assumption|].
    destruct Hcase as [[-> ->] | (p' & t' & -> & Hs' & -> & -> & Hp')].
    + left; auto.
    + right. exists p', t'. repeat split; auto.
Qed.

(* --- invariant: a slash record exists only while a slash packet is at the head of the queue --- *)
Definition inv1 (s : cstate) : Prop :=
  match srec s with
  | None => True
  | Some _ => match queue s with p :: _ => is_slash p = true | [] => False end
  end.

Lemma nonslash_head_slash pre q' p t :
  pre ++ q' = p :: t -> is_slash p = true -> nonslash pre -> pre = [].
Proof.
  intros E Hs Hn. destruct pre as [|x pre']; [reflexivity|].
  cbn in E. inversion E; subst. inversion Hn; subst. congruence.
Qed.

Lemma inv1_step delay s op : inv1 s -> inv1 (cstep delay s op).
Proof.
  intros Hi. unfold cstep, cstep_out.
  destruct op as [a idv dt | idv | now fail | kind res | acks changes | ].
  - destruct (dt && memz a (outst s)); cbn [fst]; [assumption|].
    unfold inv1 in *; cbn [srec queue]. destruct (srec s) as [rr|]; [|exact I].
    destruct (queue s); [contradiction | assumption].
  - cbn [fst]. unfold inv1 in *; cbn [srec queue]. destruct (srec s) as [rr|]; [|exact I].
    destruct (queue s); [contradiction | assumption].
  - destruct (chan s); cbn [negb fst]; [|assumption].
    destruct (send_loop delay now (closed s) fail (srec s) (queue s)) as [[sent q'] r'] eqn:E.
    cbn [fst]. destruct (send_loop_struct _ _ _ _ _ _ _ _ _ E) as (pre & Hq & Hns & Hcase).
    unfold inv1 in *; cbn [srec queue].
    destruct Hcase as [[-> ->] | (p & t & -> & Hs & _ & -> & _)]; [|assumption].
    destruct (srec s) as [rr|]; [|exact I].
    destruct (queue s) as [|p t] eqn:Eq; [contradiction|].
    assert (pre = []) by (eapply nonslash_head_slash; eauto). subst pre. cbn in Hq. subst q'. assumption.
  - destruct (res =? 4).
    { destruct (chan s && negb (closed s)); cbn [fst]; assumption. }
    destruct (res =? 6); [assumption|].
    destruct (kind =? 2); [assumption|].
    destruct ((res =? 1) || (res =? 2)); [cbn [fst]; unfold inv1; cbn [srec]; exact I|].
    destruct (res =? 3); [|assumption].
    destruct (srec s) as [[w t]|] eqn:Er; cbn [fst]; [|assumption].
    unfold inv1 in *; cbn [srec queue]. rewrite Er in Hi. assumption.
  - cbn [fst]. unfold inv1 in *; cbn [srec queue]. assumption.
  - destruct (apply_changes (pend s) (ccvals s) (outst s)) as [cc o]. cbn [fst].
    unfold inv1 in *; cbn [srec queue]. assumption.
Qed.

Lemma inv1_run delay : forall ops s, inv1 s -> inv1 (fold_left (cstep delay) ops s).
Proof.
  induction ops as [|op t IH]; intros s Hi; cbn [fold_left]; [assumption|].
  apply IH. now apply inv1_step.
Qed.

Lemma inv1_init ch : inv1 (cinit ch).
Proof. exact I. Qed.

(* --- no send while waiting / before the retry delay has elapsed --- *)
Lemma no_send_while_blocked delay s now fail w t :
  srec s = Some (w, t) -> (w = true \/ now <= t + delay) ->
  csent delay s (CSend now fail) = [] /\ cstep delay s (CSend now fail) = s.
Proof.
  intros Hr Hb. unfold csent, cstep, cstep_out.
  destruct (chan s) eqn:Ec; cbn [negb]; [|split; reflexivity].
  assert (Hp : permitted delay now (srec s) = false).
  { rewrite Hr. unfold permitted. destruct w; [reflexivity|].
    destruct Hb as [Hb|Hb]; [discriminate|]. apply Z.ltb_ge. lia. }
  rewrite (send_loop_blocked _ _ _ _ _ _ Hp). cbn [fst snd]. split; [reflexivity|].
  destruct s as [q0 r0 c0 cl0 o0 cc0 p0]; cbn [queue srec chan closed outst ccvals pend] in *; subst; reflexivity.
Qed.

(* only CSend hands packets to IBC *)
Lemma csent_only_send delay s op :
  (forall now fail, op <> CSend now fail) -> csent delay s op = [].
Proof.
  intros Hn. unfold csent, cstep_out.
  destruct op as [a idv dt | idv | now fail | kind res | acks changes | ].
  - destruct (dt && memz a (outst s)); reflexivity.
  - reflexivity.
  - exfalso. eapply Hn. reflexivity.
  - destruct (res =? 4); [destruct (chan s && negb (closed s)); reflexivity|].
    destruct (res =? 6); [reflexivity|]. destruct (kind =? 2); [reflexivity|].
    destruct ((res =? 1) || (res =? 2)); [reflexivity|]. destruct (res =? 3); [|reflexivity].
    destruct (srec s) as [[w t]|]; reflexivity.
  - reflexivity.
  - destruct (apply_changes (pend s) (ccvals s) (outst s)); reflexivity.
Qed.

(* while a record exists, the only thing that can be sent is the slash packet at the head, as a retry *)
Lemma send_with_record delay s now fail w t :
  inv1 s -> srec s = Some (w, t) -> csent delay s (CSend now fail) <> [] ->
  w = false /\ t + delay < now /\
  exists p rest, queue s = p :: rest /\ is_slash p = true /\
    csent delay s (CSend now fail) = [p] /\
    queue (cstep delay s (CSend now fail)) = queue s /\
    srec (cstep delay s (CSend now fail)) = Some (true, now).
Proof.
  intros Hi Hr Hne.
  destruct w.
  { exfalso. apply Hne. eapply no_send_while_blocked; eauto. }
  destruct (Z_lt_le_dec (t + delay) now) as [Hlt|Hle].
  2:{ exfalso. apply Hne. eapply no_send_while_blocked; eauto. }
  split; [reflexivity|]. split; [assumption|].
  unfold csent, cstep, cstep_out in *.
  destruct (chan s); cbn [negb] in *; [|exfalso; apply Hne; reflexivity].
  destruct (send_loop delay now (closed s) fail (srec s) (queue s)) as [[sent q'] r'] eqn:E.
  cbn [fst snd] in *.
  destruct (send_loop_struct _ _ _ _ _ _ _ _ _ E) as (pre & Hq & Hns & Hcase).
  unfold inv1 in Hi. rewrite Hr in Hi.
  destruct (queue s) as [|p rest] eqn:Eq; [contradiction|].
  assert (pre = []) by (eapply nonslash_head_slash; eauto). subst pre. cbn in Hq. subst q'.
  destruct Hcase as [[-> _] | (p' & t' & Hq' & Hs & -> & -> & _)]; [exfalso; apply Hne; reflexivity|].
  inversion Hq'; subst p' t'. exists p, rest. repeat split; auto.
Qed.

(* slash packets leave the queue only through a v1/handled acknowledgement *)
Lemma slash_stays delay s op p :
  In p (queue s) -> is_slash p = true ->
  (forall kind res, op = CAck kind res -> kind = 2 \/ (res <> 1 /\ res <> 2) \/ res = 4 \/ res = 6) ->
  In p (queue (cstep delay s op)).
Proof.
  intros Hin Hs Hop. unfold cstep, cstep_out.
  destruct op as [a idv dt | idv | now fail | kind res | acks changes | ].
  - destruct (dt && memz a (outst s)); cbn [fst queue]; [assumption | apply in_or_app; auto].
  - cbn [fst queue]. apply in_or_app; auto.
  - destruct (chan s); cbn [negb fst]; [|assumption].
    destruct (send_loop delay now (closed s) fail (srec s) (queue s)) as [[sent q'] r'] eqn:E.
    cbn [fst queue]. destruct (send_loop_struct _ _ _ _ _ _ _ _ _ E) as (pre & Hq & Hns & _).
    rewrite Hq in Hin. apply in_app_or in Hin. destruct Hin as [Hin|Hin]; [|assumption].
    exfalso. unfold nonslash in Hns. rewrite Forall_forall in Hns. specialize (Hns _ Hin). congruence.
  - destruct (res =? 4) eqn:E4.
    { destruct (chan s && negb (closed s)); cbn [fst queue]; assumption. }
    destruct (res =? 6) eqn:E6; [assumption|].
    destruct (kind =? 2) eqn:Ek; [assumption|].
    destruct ((res =? 1) || (res =? 2)) eqn:E12.
    { exfalso. destruct (Hop kind res eq_refl) as [H|[[H1 H2]|[H|H]]].
      - apply Z.eqb_neq in Ek. contradiction.
      - apply orb_true_iff in E12. destruct E12 as [E|E]; apply Z.eqb_eq in E; contradiction.
      - apply Z.eqb_neq in E4. contradiction.
      - apply Z.eqb_neq in E6. contradiction. }
    destruct (res =? 3); [|assumption].
    destruct (srec s) as [[w t]|]; cbn [fst queue]; assumption.
  - cbn [fst queue]. assumption.
  - destruct (apply_changes (pend s) (ccvals s) (outst s)). cbn [fst queue]. assumption.
Qed.

(* --- FIFO / no drop / no duplicate --- *)
Definition ids (l : list pkt) : list Z := map p_id l.
Definition infl (s : cstate) : list Z :=
  match srec s with Some _ => firstn 1 (ids (queue s)) | None => [] end.

Lemma push_snoc acc x : push (acc ++ [x]) x = acc ++ [x].
Proof. unfold push. rewrite rev_app_distr. cbn. now rewrite Z.eqb_refl. Qed.

Lemma push_fresh acc x : ~ In x acc -> push acc x = acc ++ [x].
Proof.
  intros Hn. unfold push. destruct (rev acc) as [|y t] eqn:E.
  - assert (acc = []) by (destruct acc; [reflexivity | apply (f_equal (@length Z)) in E; rewrite rev_length in E; discriminate]).
    subst. reflexivity.
  - destruct (y =? x) eqn:Ey; [|reflexivity].
    apply Z.eqb_eq in Ey. subst y. exfalso. apply Hn. apply in_rev. rewrite E. left; reflexivity.
Qed.

Lemma fold_push_fresh : forall xs acc, NoDup (acc ++ xs) -> fold_left push xs acc = acc ++ xs.
Proof.
  induction xs as [|x t IH]; intros acc Hnd; cbn [fold_left]; [now rewrite app_nil_r|].
  rewrite push_fresh.
  - rewrite IH; rewrite <- app_assoc; [reflexivity | assumption].
  - intros Hin. apply NoDup_remove_2 in Hnd. apply Hnd. apply in_or_app; auto.
Qed.

Lemma collapse_app l l' : collapse (l ++ l') = fold_left push l' (collapse l).
Proof. unfold collapse. apply fold_left_app. Qed.

Definition ginv (g : ghost) : Prop :=
  exists consumed,
    g_enq g = consumed ++ queue (g_s g) /\
    collapse (g_sent g) = ids consumed ++ infl (g_s g) /\
    inv1 (g_s g).

Lemma NoDup_app_l {A} (l l' : list A) : NoDup (l ++ l') -> NoDup l.
Proof.
  induction l as [|x t IH]; intros H; [constructor|].
  cbn in H. inversion H; subst. constructor; [|auto].
  intros Hin. apply H2. apply in_or_app; auto.
Qed.

Lemma firstn1_app {A} (x : A) l l' : firstn 1 ((x :: l) ++ l') = firstn 1 (x :: l).
Proof. reflexivity. Qed.

Lemma infl_snoc s x :
  inv1 s ->
  infl (mkC (queue s ++ [x]) (srec s) (chan s) (closed s) (outst s) (ccvals s) (pend s)) = infl s.
Proof.
  intros Hi. unfold infl, inv1 in *. cbn [srec queue].
  destruct (srec s) as [rr|]; [|reflexivity]. destruct (queue s); [contradiction | reflexivity].
Qed.

Lemma ginv_step' delay s enq sent consumed op :
  enq = consumed ++ queue s -> collapse sent = ids consumed ++ infl s -> inv1 s ->
  ack_ok s op = true -> NoDup (ids (enq ++ cenq s op)) ->
  exists consumed',
    enq ++ cenq s op = consumed' ++ queue (cstep delay s op) /\
    collapse (sent ++ ids (csent delay s op)) = ids consumed' ++ infl (cstep delay s op).
Proof.
  intros Henq Hcol Hi Hok Hnd.
  assert (Hsame : cenq s op = [] -> csent delay s op = [] ->
                  queue (cstep delay s op) = queue s -> srec (cstep delay s op) = srec s ->
                  exists consumed',
                    enq ++ cenq s op = consumed' ++ queue (cstep delay s op) /\
                    collapse (sent ++ ids (csent delay s op)) = ids consumed' ++ infl (cstep delay s op)).
  { intros -> -> Hq Hr. exists consumed. cbn [ids map]. rewrite !app_nil_r, Hq. split; [assumption|].
    rewrite Hcol. unfold infl. now rewrite Hr, Hq. }
  destruct op as [a idv dt | idv | now fail | kind res | acks changes | ].
  - (* CQueueSlash *)
    unfold cstep, csent, cstep_out, cenq in *.
    destruct (dt && memz a (outst s)) eqn:Eg.
    + apply Hsame; reflexivity.
    + cbn [fst snd queue ids map]. exists consumed. rewrite app_nil_r.
      split; [now rewrite Henq, app_assoc|].
      rewrite Hcol. f_equal. unfold infl, inv1 in *. cbn [srec queue].
      destruct (srec s) as [rr|]; [|reflexivity]. destruct (queue s); [contradiction | reflexivity].
  - (* CQueueVsc *)
    unfold cstep, csent, cstep_out, cenq in *. cbn [fst snd queue ids map]. exists consumed. rewrite app_nil_r.
    split; [now rewrite Henq, app_assoc|].
    rewrite Hcol. f_equal. unfold infl, inv1 in *. cbn [srec queue].
    destruct (srec s) as [rr|]; [|reflexivity]. destruct (queue s); [contradiction | reflexivity].
  - (* CSend *)
    unfold cstep, csent, cstep_out, cenq in *. rewrite app_nil_r in *.
    destruct (chan s); cbn [negb].
    2:{ cbn [fst snd ids map]. exists consumed. rewrite app_nil_r. auto. }
    destruct (send_loop delay now (closed s) fail (srec s) (queue s)) as [[snt q'] r'] eqn:E.
    cbn [fst snd queue srec].
    destruct (send_loop_struct _ _ _ _ _ _ _ _ _ E) as (pre & Hq & Hns & Hcase).
    destruct (srec s) as [[w t]|] eqn:Er.
    + (* a record exists: only the head can be re-sent *)
      unfold inv1 in Hi. rewrite Er in Hi.
      destruct (queue s) as [|p rest] eqn:Eq; [contradiction|].
      assert (pre = []) by (eapply nonslash_head_slash; eauto). subst pre. cbn [app] in Hq. subst q'.
      exists consumed. split; [assumption|].
      unfold infl in Hcol. rewrite Er, Eq in Hcol. cbn [ids map firstn] in Hcol.
      destruct Hcase as [[-> ->] | (p' & t' & Hq' & Hs & -> & -> & _)].
      * cbn [ids map]. rewrite app_nil_r. rewrite Hcol. unfold infl. cbn [srec queue ids map firstn]. reflexivity.
      * inversion Hq'; subst p' t'. cbn [app ids map].
        rewrite collapse_app, Hcol. cbn [fold_left]. rewrite push_snoc.
        unfold infl. cbn [srec queue ids map firstn]. reflexivity.
    + (* no record: leading vsc-matured packets are consumed, then possibly the first slash packet is sent *)
      exists (consumed ++ pre). split; [rewrite Henq, Hq; now rewrite app_assoc|].
      unfold infl in Hcol. rewrite Er in Hcol. rewrite app_nil_r in Hcol.
      rewrite Henq, Hq in Hnd. unfold ids in *. rewrite !map_app in Hnd.
      destruct Hcase as [[-> ->] | (p' & t' & -> & Hs & -> & -> & _)].
      * rewrite collapse_app, Hcol. rewrite fold_push_fresh.
        -- unfold infl. cbn [srec]. now rewrite map_app, app_nil_r.
        -- rewrite app_assoc in Hnd. eapply NoDup_app_l; eauto.
      * rewrite collapse_app, Hcol. rewrite fold_push_fresh.
        -- unfold infl. cbn [srec queue map firstn]. rewrite !map_app. cbn [map]. now rewrite app_assoc.
        -- rewrite map_app. cbn [map] in *.
           replace (map p_id consumed ++ map p_id pre ++ p_id p' :: map p_id t')
             with ((map p_id consumed ++ map p_id pre ++ [p_id p']) ++ map p_id t') in Hnd
             by (rewrite <- !app_assoc; reflexivity).
           eapply NoDup_app_l; eauto.
  - (* CAck *)
    unfold cstep, csent, cstep_out, cenq in *.
    destruct (res =? 4) eqn:E4.
    { destruct (chan s && negb (closed s)); apply Hsame; reflexivity. }
    destruct (res =? 6) eqn:E6; [apply Hsame; reflexivity|].
    destruct (kind =? 2) eqn:Ek; [apply Hsame; reflexivity|].
    cbn [ack_ok] in Hok. rewrite Ek, E4, E6 in Hok. cbn [orb] in Hok.
    destruct ((res =? 1) || (res =? 2)) eqn:E12.
    { cbn [fst snd ids map queue]. rewrite !app_nil_r.
      destruct (res =? 5) eqn:E5.
      { exfalso. apply Z.eqb_eq in E5. subst res. discriminate. }
      destruct (srec s) as [[w t]|] eqn:Er; [|discriminate].
      unfold inv1 in Hi. rewrite Er in Hi.
      destruct (queue s) as [|p rest] eqn:Eq; [contradiction|].
      exists (consumed ++ [p]). cbn [delete_head tl]. split; [rewrite Henq; now rewrite <- app_assoc|].
      rewrite Hcol. unfold infl. cbn [srec]. rewrite Er, Eq. cbn [ids map firstn]. unfold ids.
      rewrite map_app. cbn [map]. now rewrite app_nil_r. }
    destruct (res =? 3) eqn:E3; [|apply Hsame; reflexivity].
    destruct (srec s) as [[w t]|] eqn:Er; [|apply Hsame; cbn [fst snd]; auto].
    cbn [fst snd ids map queue]. rewrite !app_nil_r. exists consumed. split; [assumption|].
    rewrite Hcol. unfold infl. cbn [srec queue]. rewrite Er. reflexivity.
  - (* CRecvVSC *)
    apply Hsame; reflexivity.
  - (* CApply *)
    unfold cstep, csent, cstep_out, cenq in *.
    destruct (apply_changes (pend s) (ccvals s) (outst s)) as [cc o] eqn:Ea.
    cbn [fst snd ids map queue]. rewrite !app_nil_r. exists consumed. split; [assumption|].
    rewrite Hcol. reflexivity.
Qed.

Lemma ginv_step delay g op :
  ginv g -> ack_ok (g_s g) op = true -> NoDup (ids (g_enq (gstep delay g op))) -> ginv (gstep delay g op).
Proof.
  intros (consumed & Henq & Hcol & Hi) Hok Hnd.
  destruct (ginv_step' delay _ _ _ _ op Henq Hcol Hi Hok Hnd) as (c' & H1 & H2).
  exists c'. unfold gstep. cbn [g_s g_enq g_sent]. repeat split; auto. now apply inv1_step.
Qed.

Lemma grun_enq_ext delay : forall ops g, exists ext, g_enq (grun delay g ops) = g_enq g ++ ext.
Proof.
  induction ops as [|op t IH]; intros g; cbn [grun fold_left].
  - exists []. now rewrite app_nil_r.
  - destruct (IH (gstep delay g op)) as (ext & E). unfold grun in E. rewrite E.
    unfold gstep at 1. cbn [g_enq]. rewrite <- app_assoc. eauto.
Qed.

Lemma ginv_run delay : forall ops g,
  ginv g -> wf_acks delay (g_s g) ops = true -> NoDup (ids (g_enq (grun delay g ops))) ->
  ginv (grun delay g ops).
Proof.
  induction ops as [|op t IH]; intros g Hg Hwf Hnd; cbn [grun fold_left]; [assumption|].
  cbn [wf_acks] in Hwf. apply andb_true_iff in Hwf. destruct Hwf as [Hok Hwf].
  apply IH.
  - apply ginv_step; auto.
    destruct (grun_enq_ext delay t (gstep delay g op)) as (ext & E).
    cbn [grun fold_left] in Hnd. unfold grun in E. rewrite E in Hnd.
    unfold ids in *. rewrite map_app in Hnd. eapply NoDup_app_l; eauto.
  - assumption.
  - assumption.
Qed.

Lemma ginv_init ch : ginv (mkG (cinit ch) [] []).
Proof. exists []. cbn. repeat split; auto. Qed.

(* --- outstanding-downtime flags --- *)
Lemma flag_kept delay s op a :
  In a (outst s) -> clearing_op s op a = false -> In a (outst (cstep delay s op)).
Proof.
  intros Hin Hc. unfold cstep, cstep_out.
  destruct op as [x idv dt | idv | now fail | kind res | acks changes | ].
  - destruct (dt && memz x (outst s)); cbn [fst outst]; [assumption|].
    destruct dt; [apply In_addz; auto | assumption].
  - assumption.
  - destruct (chan s); cbn [negb fst]; [|assumption].
    destruct (send_loop delay now (closed s) fail (srec s) (queue s)) as [[sent q'] r']. assumption.
  - destruct (res =? 4); [destruct (chan s && negb (closed s)); assumption|].
    destruct (res =? 6); [assumption|]. destruct (kind =? 2); [assumption|].
    destruct ((res =? 1) || (res =? 2)); [assumption|]. destruct (res =? 3); [|assumption].
    destruct (srec s) as [[w t]|]; assumption.
  - cbn [fst outst]. cbn [clearing_op] in Hc. apply In_fold_remz. split; [assumption|].
    now apply memz_false.
  - cbn [clearing_op] in Hc.
    pose proof (In_apply_changes a (pend s) (ccvals s) (outst s)) as H.
    destruct (apply_changes (pend s) (ccvals s) (outst s)) as [cc o]. cbn [fst snd outst] in *.
    apply H. split; [assumption | now apply memz_false].
Qed.

Lemma flag_cleared delay s op a :
  clearing_op s op a = true -> ~ In a (outst (cstep delay s op)).
Proof.
  intros Hc. unfold cstep, cstep_out.
  destruct op as [x idv dt | idv | now fail | kind res | acks changes | ]; cbn [clearing_op] in Hc; try discriminate.
  - cbn [fst outst]. rewrite In_fold_remz. intros [_ Hn]. apply Hn. now apply memz_In.
  - pose proof (In_apply_changes a (pend s) (ccvals s) (outst s)) as H.
    destruct (apply_changes (pend s) (ccvals s) (outst s)) as [cc o]. cbn [fst snd outst] in *.
    rewrite H. intros [_ Hn]. apply Hn. now apply memz_In.
Qed.

Lemma flag_clear_iff delay s op a :
  In a (outst s) -> (~ In a (outst (cstep delay s op)) <-> clearing_op s op a = true).
Proof.
  intros Hin. split.
  - intros Hn. destruct (clearing_op s op a) eqn:E; [reflexivity|].
    exfalso. apply Hn. now apply flag_kept.
  - apply flag_cleared.
Qed.

Lemma queue_guard delay s a idv :
  In a (outst s) -> cstep_out delay s (CQueueSlash a idv true) = (s, [], 0).
Proof.
  intros Hin. unfold cstep_out. apply memz_In in Hin. rewrite Hin. reflexivity.
Qed.

Lemma queue_sets_flag delay s a idv :
  ~ In a (outst s) ->
  cstep delay s (CQueueSlash a idv true) =
    mkC (queue s ++ [mkPkt 1 idv a]) (srec s) (chan s) (closed s) (a :: outst s) (ccvals s) (pend s).
Proof.
  intros Hn. unfold cstep, cstep_out. apply memz_false in Hn. unfold addz. rewrite Hn. reflexivity.
Qed.

Lemma cenq_count_other s op a :
  (forall idv, op <> CQueueSlash a idv true) -> filter (is_downtime_for a) (cenq s op) = [].
Proof.
  intros Hn. destruct op as [x idv dt | idv | now fail | kind res | acks changes | ]; cbn [cenq]; try reflexivity.
  destruct (dt && memz x (outst s)); [reflexivity|].
  cbn [filter]. unfold is_downtime_for. cbn [p_kind p_addr].
  destruct dt; cbn; [|reflexivity].
  destruct (x =? a) eqn:E; [|reflexivity].
  apply Z.eqb_eq in E. subst x. exfalso. eapply Hn. reflexivity.
Qed.

Lemma one_report delay a : forall ops s,
  no_clear delay a s ops = true ->
  enq_count delay a s ops <= (if memz a (outst s) then 0 else 1).
Proof.
  induction ops as [|op t IH]; intros s Hnc; cbn [enq_count no_clear] in *.
  - destruct (memz a (outst s)); lia.
  - apply andb_true_iff in Hnc. destruct Hnc as [Hc Hnc]. apply negb_true_iff in Hc.
    specialize (IH _ Hnc).
    destruct (memz a (outst s)) eqn:Ef.
    + (* flagged: nothing can be queued for a, and the flag stays *)
      apply memz_In in Ef.
      pose proof (flag_kept delay s op a Ef Hc) as Hk. apply memz_In in Hk. rewrite Hk in IH.
      assert (Hz : filter (is_downtime_for a) (cenq s op) = []).
      { destruct op as [x idv dt | idv | now fail | kind res | acks changes | ]; cbn [cenq]; try reflexivity.
        destruct (dt && memz x (outst s)) eqn:Eg; [reflexivity|].
        cbn [filter]. unfold is_downtime_for. cbn [p_kind p_addr].
        destruct dt; cbn; [|reflexivity].
        destruct (x =? a) eqn:E; [|reflexivity]. apply Z.eqb_eq in E. subst x.
        cbn [andb] in Eg. apply memz_In in Ef. congruence. }
      rewrite Hz. cbn [length]. lia.
    + destruct op as [x idv dt | idv | now fail | kind res | acks changes | ];
        try (rewrite cenq_count_other by (intros; discriminate); cbn [length];
             destruct (memz a (outst (cstep delay s _))); lia).
      destruct dt.
      2:{ rewrite cenq_count_other by (intros; discriminate). cbn [length].
          destruct (memz a (outst (cstep delay s _))); lia. }
      destruct (Z.eq_dec x a) as [->|Hne].
      * apply memz_false in Ef. rewrite (queue_sets_flag delay s a idv Ef) in *. cbn [outst] in IH.
        assert (Hm : memz a (a :: outst s) = true) by (apply memz_In; left; reflexivity).
        rewrite Hm in IH.
        cbn [cenq]. apply memz_false in Ef. rewrite Ef. cbn [andb filter]. unfold is_downtime_for. cbn [p_kind p_addr].
        rewrite !Z.eqb_refl. cbn [andb length]. lia.
      * rewrite cenq_count_other by (intros idv' E; inversion E; contradiction). cbn [length].
        destruct (memz a (outst (cstep delay s _))); lia.
Qed.

(* queue-level uniqueness under the ordering assumption *)
Lemma filter_len_app {A} (f : A -> bool) l l' :
  length (filter f (l ++ l')) = (length (filter f l) + length (filter f l'))%nat.
Proof. rewrite filter_app, app_length. reflexivity. Qed.

Lemma existsb_false_filter {A} (f : A -> bool) l : existsb f l = false -> filter f l = [].
Proof.
  induction l as [|x t IH]; cbn; [reflexivity|]. intros H. apply orb_false_iff in H. destruct H as [H1 H2].
  rewrite H1. auto.
Qed.

Definition qinv (a : Z) (s : cstate) : Prop := queued_for a s <= (if memz a (outst s) then 1 else 0).

Lemma qinv_step delay a s op :
  (clearing_op s op a = false \/ existsb (is_downtime_for a) (queue s) = false) ->
  qinv a s -> qinv a (cstep delay s op).
Proof.
  intros Hord Hq. unfold qinv, queued_for in *.
  assert (Hkeep : forall s', queue s' = queue s -> outst s' = outst s ->
            Z.of_nat (length (filter (is_downtime_for a) (queue s'))) <= (if memz a (outst s') then 1 else 0)).
  { intros s' -> ->. assumption. }
  assert (Hshrink : forall q' o', (length (filter (is_downtime_for a) q') <= length (filter (is_downtime_for a) (queue s)))%nat ->
            o' = outst s ->
            Z.of_nat (length (filter (is_downtime_for a) q')) <= (if memz a o' then 1 else 0)).
  { intros q' o' Hl ->. lia. }
  unfold cstep, cstep_out.
  destruct op as [x idv dt | idv | now fail | kind res | acks changes | ].
  - destruct (dt && memz x (outst s)) eqn:Eg; cbn [fst]; [assumption|]. cbn [queue outst].
    rewrite filter_len_app. cbn [filter]. unfold is_downtime_for at 2. cbn [p_kind p_addr].
    destruct dt; cbn [andb] in *.
    + destruct (x =? a) eqn:E.
      * apply Z.eqb_eq in E. subst x. rewrite Z.eqb_refl. cbn [andb length].
        unfold addz. rewrite Eg. rewrite Eg in Hq.
        assert (Hm : memz a (a :: outst s) = true) by (apply memz_In; left; reflexivity). rewrite Hm. lia.
      * rewrite Z.eqb_refl. cbn [andb length]. rewrite Nat.add_0_r.
        destruct (memz a (outst s)) eqn:Ef.
        -- assert (Hm : memz a (addz x (outst s)) = true) by (apply memz_In, In_addz; right; now apply memz_In).
           rewrite Hm. assumption.
        -- destruct (memz a (addz x (outst s))); lia.
    + cbn [Z.eqb andb length]. rewrite Nat.add_0_r. assumption.
  - cbn [fst queue outst]. rewrite filter_len_app. cbn [filter]. unfold is_downtime_for at 2. cbn [p_kind].
    cbn [Z.eqb andb length]. rewrite Nat.add_0_r. assumption.
  - destruct (chan s); cbn [negb fst]; [|assumption].
    destruct (send_loop delay now (closed s) fail (srec s) (queue s)) as [[sent q'] r'] eqn:E.
    cbn [fst queue outst]. destruct (send_loop_struct _ _ _ _ _ _ _ _ _ E) as (pre & Hqq & _).
    apply Hshrink; [|reflexivity]. rewrite Hqq, filter_len_app. lia.
  - destruct (res =? 4); [destruct (chan s && negb (closed s)); cbn [fst]; [apply Hkeep; reflexivity | assumption]|].
    destruct (res =? 6); [assumption|]. destruct (kind =? 2); [assumption|].
    destruct ((res =? 1) || (res =? 2)).
    { cbn [fst queue outst]. apply Hshrink; [|reflexivity]. unfold delete_head.
      destruct (queue s) as [|p t]; cbn [tl filter]; [lia|]. destruct (is_downtime_for a p); cbn [length]; lia. }
    destruct (res =? 3); [|assumption].
    destruct (srec s) as [[w t]|]; cbn [fst]; [apply Hkeep; reflexivity | assumption].
  - cbn [fst queue outst].
    destruct Hord as [Hc|He].
    + cbn [clearing_op] in Hc.
      destruct (memz a (outst s)) eqn:Ef.
      * assert (Hm : memz a (fold_left (fun o x => remz x o) acks (outst s)) = true).
        { apply memz_In, In_fold_remz. split; [now apply memz_In | now apply memz_false]. }
        rewrite Hm. assumption.
      * destruct (memz a (fold_left (fun o x => remz x o) acks (outst s))); lia.
    + rewrite (existsb_false_filter _ _ He) in *. cbn [length].
      destruct (memz a (fold_left (fun o x => remz x o) acks (outst s))); lia.
  - pose proof (In_apply_changes a (pend s) (ccvals s) (outst s)) as H.
    destruct (apply_changes (pend s) (ccvals s) (outst s)) as [cc o]. cbn [fst snd queue outst] in *.
    destruct Hord as [Hc|He].
    + cbn [clearing_op] in Hc.
      destruct (memz a (outst s)) eqn:Ef.
      * assert (Hm : memz a o = true).
        { apply memz_In, H. split; [now apply memz_In | now apply memz_false]. }
        rewrite Hm. assumption.
      * destruct (memz a o); lia.
    + rewrite (existsb_false_filter _ _ He) in *. cbn [length]. destruct (memz a o); lia.
Qed.

Lemma qinv_run delay a : forall ops s,
  ordered_clears delay a s ops = true -> qinv a s -> qinv a (fold_left (cstep delay) ops s).
Proof.
  induction ops as [|op t IH]; intros s Ho Hq; cbn [fold_left]; [assumption|].
  cbn [ordered_clears] in Ho. apply andb_true_iff in Ho. destruct Ho as [H1 H2].
  apply IH; [assumption|]. apply qinv_step; [|assumption].
  apply orb_true_iff in H1. destruct H1 as [H1|H1]; apply negb_true_iff in H1; auto.
Qed.

(* ================================================================ statements used by Props/C09.v and Props/C08.v *)
Lemma replenish_spacing_run frac period s ops t0 :
  0 <= period -> mono t0 (ptimes ops) ->
  spaced_from period (Z.min (cand s) (t0 + period)) (replenish_times frac period s ops).
Proof. intros Hp Hm. eapply spacing_gen; eauto; lia. Qed.

Lemma reach_inv1 delay ch ops : inv1 (fold_left (cstep delay) ops (cinit ch)).
Proof. apply inv1_run, inv1_init. Qed.

Lemma no_send_while_waiting_run delay ch ops op w t :
  let s := fold_left (cstep delay) ops (cinit ch) in
  srec s = Some (w, t) ->
  csent delay s op = [] \/
  (w = false /\ exists now fail p rest,
     op = CSend now fail /\ t + delay < now /\ queue s = p :: rest /\ is_slash p = true /\
     csent delay s op = [p] /\
     queue (cstep delay s op) = queue s /\ srec (cstep delay s op) = Some (true, now)).
Proof.
  intros s Hr.
  destruct (csent delay s op) as [|p0 l0] eqn:E; [left; reflexivity|]. right.
  assert (Hne : csent delay s op <> []) by (rewrite E; discriminate).
  destruct op as [a idv dt | idv | now fail | kind res | acks changes | ];
    try (exfalso; apply Hne; apply csent_only_send; intros; discriminate).
  destruct (send_with_record delay s now fail w t (reach_inv1 delay ch ops) Hr Hne)
    as (Hw & Hlt & p & rest & Hq & Hs & Hsent & Hq' & Hr').
  split; [assumption|]. exists now, fail, p, rest. rewrite E in Hsent. repeat split; auto.
Qed.

Lemma fifo_run delay ch ops :
  wf_acks delay (cinit ch) ops = true ->
  let g := grun delay (mkG (cinit ch) [] []) ops in
  NoDup (map p_id (g_enq g)) ->
  exists consumed,
    g_enq g = consumed ++ queue (g_s g) /\
    collapse (g_sent g) = map p_id consumed ++
                          (match srec (g_s g) with Some _ => firstn 1 (map p_id (queue (g_s g))) | None => [] end).
Proof.
  intros Hwf g Hnd.
  destruct (ginv_run delay ops (mkG (cinit ch) [] []) (ginv_init ch) Hwf Hnd) as (consumed & H1 & H2 & _).
  exists consumed. split; [exact H1 | exact H2].
Qed.

Lemma grun_state delay : forall ops g, g_s (grun delay g ops) = fold_left (cstep delay) ops (g_s g).
Proof.
  induction ops as [|op t IH]; intros g; cbn [grun fold_left]; [reflexivity|].
  unfold grun in IH. rewrite IH. reflexivity.
Qed.

Lemma outstanding_queue_partial delay ch ops a :
  ordered_clears delay a (cinit ch) ops = true ->
  let s := fold_left (cstep delay) ops (cinit ch) in
  queued_for a s <= 1 /\ (queued_for a s = 1 -> In a (outst s)).
Proof.
  intros Ho s.
  assert (Hq : qinv a s).
  { apply qinv_run; [assumption|]. unfold qinv, queued_for. cbn. lia. }
  unfold qinv in Hq. destruct (memz a (outst s)) eqn:E.
  - split; [lia|]. intros _. now apply memz_In.
  - unfold queued_for in *. split; [lia|]. intros H. lia.
Qed.
