(* Lemmas and invariants about Model/Infraction.v (property C20). *)
From Coq Require Import ZArith List Bool Lia Arith.
From ICS Require Import Base.Tree Model.Infraction.
Import ListNotations.
Open Scope Z_scope.

(* ------------------------------------------------------------------ association maps *)
Lemma aget_adel_eq {A} (k : Z) (m : amap A) : aget k (adel k m) = None.
Proof.
  induction m as [|[k' v] r IH]; cbn [adel aget]; [reflexivity|].
  destruct (k' =? k) eqn:E; [exact IH|]. cbn [aget]. rewrite E. exact IH.
Qed.

Lemma aget_adel_neq {A} (k k' : Z) (m : amap A) : k' <> k -> aget k' (adel k m) = aget k' m.
Proof.
  intros Hne. induction m as [|[k0 v] r IH]; cbn [adel aget]; [reflexivity|].
  destruct (k0 =? k) eqn:E.
  - apply Z.eqb_eq in E. subst k0. destruct (k =? k') eqn:E2; [apply Z.eqb_eq in E2; congruence|exact IH].
  - cbn [aget]. destruct (k0 =? k'); [reflexivity|exact IH].
Qed.

Lemma aget_aput_eq {A} (k : Z) (v : A) (m : amap A) : aget k (aput k v m) = Some v.
Proof. unfold aput. cbn [aget]. rewrite Z.eqb_refl. reflexivity. Qed.

Lemma aget_aput_neq {A} (k k' : Z) (v : A) (m : amap A) : k' <> k -> aget k' (aput k v m) = aget k' m.
Proof.
  intros Hne. unfold aput. cbn [aget].
  destruct (k =? k') eqn:E; [apply Z.eqb_eq in E; congruence|]. apply aget_adel_neq. exact Hne.
Qed.

(* ------------------------------------------------------------------ membership and counting *)
Lemma mem_true_iff (c : Z) (l : list Z) : mem c l = true <-> In c l.
Proof.
  unfold mem. rewrite existsb_exists. split.
  - intros [x [Hin Hx]]. apply Z.eqb_eq in Hx. subst. exact Hin.
  - intros Hin. exists c. split; [exact Hin|apply Z.eqb_refl].
Qed.

Lemma mem_false_iff (c : Z) (l : list Z) : mem c l = false <-> ~ In c l.
Proof. rewrite <- mem_true_iff. destruct (mem c l); split; congruence. Qed.

Lemma mem_count (c : Z) (l : list Z) : mem c l = true <-> (0 < count_occ Z.eq_dec l c)%nat.
Proof. rewrite mem_true_iff. apply count_occ_In. Qed.

Lemma mem_false_count (c : Z) (l : list Z) : mem c l = false <-> count_occ Z.eq_dec l c = 0%nat.
Proof. rewrite mem_false_iff. apply count_occ_not_In. Qed.

Lemma mem_app (c : Z) (a b : list Z) : mem c (a ++ b) = mem c a || mem c b.
Proof. unfold mem. apply existsb_app. Qed.

Lemma occ_cons (c t : Z) (ids : list Z) (r : sched) :
  occ c ((t, ids) :: r) = (count_occ Z.eq_dec ids c + occ c r)%nat.
Proof. unfold occ. cbn [flat_map snd]. apply count_occ_app. Qed.

Lemma occ_nil (c : Z) : occ c [] = 0%nat.
Proof. reflexivity. Qed.

Lemma count_single (c x : Z) : count_occ Z.eq_dec [x] c = if Z.eq_dec x c then 1%nat else 0%nat.
Proof. cbn. destruct (Z.eq_dec x c); reflexivity. Qed.

Lemma count_remove1_same (c : Z) (l : list Z) :
  mem c l = true -> S (count_occ Z.eq_dec (remove1 c l) c) = count_occ Z.eq_dec l c.
Proof.
  induction l as [|x r IH]; cbn [remove1 mem existsb]; [discriminate|].
  intros H. fold (mem c r) in H. rewrite Z.eqb_sym in H.
  destruct (x =? c) eqn:E.
  - apply Z.eqb_eq in E. subst x. rewrite count_occ_cons_eq by reflexivity. reflexivity.
  - apply Z.eqb_neq in E. cbn [orb] in H. rewrite !count_occ_cons_neq by exact E. apply IH. exact H.
Qed.

Lemma count_remove1_other (c c' : Z) (l : list Z) :
  c' <> c -> count_occ Z.eq_dec (remove1 c l) c' = count_occ Z.eq_dec l c'.
Proof.
  intros Hne. induction l as [|x r IH]; cbn [remove1]; [reflexivity|].
  destruct (x =? c) eqn:E.
  - apply Z.eqb_eq in E. subst x. rewrite count_occ_cons_neq by congruence. reflexivity.
  - destruct (Z.eq_dec x c') as [->|Hx].
    + rewrite !count_occ_cons_eq by reflexivity. rewrite IH. reflexivity.
    + rewrite !count_occ_cons_neq by exact Hx. exact IH.
Qed.

Lemma mem_remove1_other (c c' : Z) (l : list Z) : c' <> c -> mem c' (remove1 c l) = mem c' l.
Proof.
  intros Hne. destruct (mem c' l) eqn:E.
  - apply mem_count. apply mem_count in E. rewrite count_remove1_other by exact Hne. exact E.
  - apply mem_false_count. apply mem_false_count in E. rewrite count_remove1_other by exact Hne. exact E.
Qed.

Lemma length_remove1 (c : Z) (l : list Z) : mem c l = true -> S (length (remove1 c l)) = length l.
Proof.
  induction l as [|x r IH]; cbn [remove1 mem existsb]; [discriminate|].
  intros H. fold (mem c r) in H. rewrite Z.eqb_sym in H.
  destruct (x =? c) eqn:E; [reflexivity|]. cbn [orb] in H. cbn [length]. rewrite IH by exact H. reflexivity.
Qed.

Lemma due_of_none_occ (c : Z) (s : sched) : due_of c s = None <-> occ c s = 0%nat.
Proof.
  induction s as [|[t ids] r IH]; cbn [due_of]; [rewrite occ_nil; tauto|].
  rewrite occ_cons. destruct (mem c ids) eqn:E.
  - apply mem_count in E. split; [discriminate|lia].
  - apply mem_false_count in E. rewrite E. cbn [Nat.add]. exact IH.
Qed.

Lemma due_of_some_occ (c : Z) (s : sched) : (exists t, due_of c s = Some t) <-> (0 < occ c s)%nat.
Proof.
  pose proof (due_of_none_occ c s) as H. destruct (due_of c s) as [t|].
  - split; [intros _|intros _; eauto]. destruct (occ c s); [|lia]. destruct H as [_ H]. specialize (H eq_refl). discriminate.
  - split; [intros [t Ht]; discriminate|]. intros Hlt. destruct H as [H _]. rewrite (H eq_refl) in Hlt. lia.
Qed.

(* ------------------------------------------------------------------ sorted schedules *)
Inductive ssorted : sched -> Prop :=
| ss_nil : ssorted []
| ss_cons t ids r : ids <> [] -> (forall e, In e r -> t < fst e) -> ssorted r -> ssorted ((t, ids) :: r).

Lemma ssorted_tail e r : ssorted (e :: r) -> ssorted r.
Proof. intros H. inversion H; assumption. Qed.

(* ------------------------------------------------------------------ sched_append *)
Lemma occ_append (c c' ts : Z) (s : sched) :
  occ c' (sched_append c ts s) = (occ c' s + if Z.eq_dec c c' then 1 else 0)%nat.
Proof.
  induction s as [|[t ids] r IH]; cbn [sched_append].
  - rewrite occ_cons, !occ_nil, count_single. lia.
  - destruct (t =? ts) eqn:E1.
    + rewrite !occ_cons, count_occ_app, count_single. lia.
    + destruct (ts <? t) eqn:E2.
      * rewrite (occ_cons c' ts), count_single. lia.
      * rewrite !occ_cons, IH. lia.
Qed.

Lemma in_append_fst (c ts : Z) (s : sched) e :
  In e (sched_append c ts s) -> fst e = ts \/ exists e', In e' s /\ fst e = fst e'.
Proof.
  induction s as [|[t ids] r IH]; cbn [sched_append]; intros H.
  - destruct H as [<-|[]]. left. reflexivity.
  - destruct (t =? ts) eqn:E1.
    + destruct H as [<-|H].
      * right. exists (t, ids). split; [left; reflexivity|reflexivity].
      * right. exists e. split; [right; exact H|reflexivity].
    + destruct (ts <? t) eqn:E2.
      * destruct H as [<-|H]; [left; reflexivity|]. right. exists e. split; [exact H|reflexivity].
      * destruct H as [<-|H].
        -- right. exists (t, ids). split; [left; reflexivity|reflexivity].
        -- destruct (IH H) as [Hl|[e' [Hin Hf]]]; [left; exact Hl|]. right. exists e'. split; [right; exact Hin|exact Hf].
Qed.

Lemma ssorted_append (c ts : Z) (s : sched) : ssorted s -> ssorted (sched_append c ts s).
Proof.
  induction s as [|[t ids] r IH]; cbn [sched_append]; intros Hs.
  - constructor; [discriminate|intros e []|constructor].
  - inversion Hs as [|t0 ids0 r0 Hne Hlb Hr]; subst.
    destruct (t =? ts) eqn:E1.
    + constructor; [destruct ids; discriminate|exact Hlb|exact Hr].
    + apply Z.eqb_neq in E1. destruct (ts <? t) eqn:E2.
      * apply Z.ltb_lt in E2. constructor; [discriminate| |exact Hs].
        intros e [<-|Hin]; [exact E2|]. specialize (Hlb e Hin). lia.
      * apply Z.ltb_ge in E2. constructor; [exact Hne| |exact (IH Hr)].
        intros e Hin. destruct (in_append_fst _ _ _ _ Hin) as [Hf|[e' [Hin' Hf]]].
        -- lia.
        -- rewrite Hf. exact (Hlb e' Hin').
Qed.

Lemma due_of_append_same (c ts : Z) (s : sched) :
  occ c s = 0%nat -> due_of c (sched_append c ts s) = Some ts.
Proof.
  induction s as [|[t ids] r IH]; cbn [sched_append]; intros Ho.
  - cbn [due_of mem existsb]. rewrite Z.eqb_refl. reflexivity.
  - rewrite occ_cons in Ho. assert (Hm : mem c ids = false) by (apply mem_false_count; lia).
    destruct (t =? ts) eqn:E1.
    + apply Z.eqb_eq in E1. subst t. cbn [due_of]. rewrite mem_app. cbn [mem existsb]. rewrite Z.eqb_refl, orb_true_r. reflexivity.
    + destruct (ts <? t) eqn:E2.
      * cbn [due_of mem existsb]. rewrite Z.eqb_refl. reflexivity.
      * cbn [due_of]. rewrite Hm. apply IH. lia.
Qed.

Lemma due_of_append_other (c c' ts : Z) (s : sched) :
  c' <> c -> due_of c' (sched_append c ts s) = due_of c' s.
Proof.
  intros Hne. assert (Hs : mem c' [c] = false).
  { cbn [mem existsb]. destruct (c' =? c) eqn:E; [apply Z.eqb_eq in E; congruence|reflexivity]. }
  induction s as [|[t ids] r IH]; cbn [sched_append].
  - cbn [due_of]. rewrite Hs. reflexivity.
  - destruct (t =? ts) eqn:E1.
    + cbn [due_of]. rewrite mem_app, Hs, orb_false_r. reflexivity.
    + destruct (ts <? t) eqn:E2.
      * cbn [due_of]. rewrite Hs. reflexivity.
      * cbn [due_of]. rewrite IH. reflexivity.
Qed.

(* ------------------------------------------------------------------ entry_remove / sched_take / sched_remove *)
Lemma entry_remove_spec (c t : Z) (ids : list Z) (r : sched) :
  mem c ids = true -> ids <> [] ->
  exists s', entry_remove c t ids r = Some s' /\
    S (occ c s') = occ c ((t, ids) :: r) /\
    (forall c', c' <> c -> occ c' s' = occ c' ((t, ids) :: r)) /\
    (forall c', c' <> c -> due_of c' s' = due_of c' ((t, ids) :: r)) /\
    (ssorted ((t, ids) :: r) -> ssorted s').
Proof.
  intros Hm Hne. unfold entry_remove. rewrite Hm.
  destruct (length ids =? 1)%nat eqn:El.
  - apply Nat.eqb_eq in El. destruct ids as [|x [|y l]]; try discriminate.
    assert (x = c) as ->.
    { cbn [mem existsb] in Hm. rewrite orb_false_r in Hm. apply Z.eqb_eq in Hm. congruence. }
    exists r. split; [reflexivity|]. repeat split.
    + rewrite occ_cons, count_single. destruct (Z.eq_dec c c); [reflexivity|congruence].
    + intros c' Hc. rewrite occ_cons, count_single. destruct (Z.eq_dec c c'); [congruence|reflexivity].
    + intros c' Hc. cbn [due_of mem existsb]. destruct (c' =? c) eqn:E; [apply Z.eqb_eq in E; congruence|reflexivity].
    + apply ssorted_tail.
  - apply Nat.eqb_neq in El. exists ((t, remove1 c ids) :: r). split; [reflexivity|]. repeat split.
    + rewrite !occ_cons. pose proof (count_remove1_same c ids Hm). lia.
    + intros c' Hc. rewrite !occ_cons, count_remove1_other by exact Hc. reflexivity.
    + intros c' Hc. cbn [due_of]. rewrite mem_remove1_other by exact Hc. reflexivity.
    + intros Hs. inversion Hs; subst. constructor; try assumption.
      pose proof (length_remove1 c ids Hm) as Hl. destruct (remove1 c ids); [|discriminate].
      cbn [length] in Hl. destruct ids as [|x [|y l]]; cbn [length] in *; congruence.
Qed.

Lemma sched_take_none (c : Z) (s : sched) : occ c s = 0%nat -> sched_take c s = None.
Proof.
  induction s as [|[t ids] r IH]; cbn [sched_take]; [reflexivity|]. rewrite occ_cons. intros Ho.
  assert (Hm : mem c ids = false) by (apply mem_false_count; lia). rewrite Hm, IH by lia. reflexivity.
Qed.

Lemma sched_take_spec (c : Z) (s : sched) :
  ssorted s -> (0 < occ c s)%nat ->
  exists ts s', sched_take c s = Some (ts, s') /\ due_of c s = Some ts /\
    S (occ c s') = occ c s /\
    (forall c', c' <> c -> occ c' s' = occ c' s) /\
    (forall c', c' <> c -> due_of c' s' = due_of c' s) /\
    ssorted s' /\ (forall e, In e s' -> exists e', In e' s /\ fst e = fst e').
Proof.
  induction s as [|[t ids] r IH]; intros Hs Ho; [rewrite occ_nil in Ho; lia|].
  inversion Hs as [|t0 ids0 r0 Hne Hlb Hr]; subst. cbn [sched_take due_of].
  destruct (mem c ids) eqn:Hm.
  - destruct (entry_remove_spec c t ids r Hm Hne) as [s' [He [H1 [H2 [H3 H4]]]]]. rewrite He.
    exists t, s'. repeat split; try assumption; [exact (H4 Hs)|].
    intros e Hin. unfold entry_remove in He. rewrite Hm in He.
    destruct (length ids =? 1)%nat; inversion He; subst.
    + exists e. split; [right; exact Hin|reflexivity].
    + destruct Hin as [<-|Hin].
      * exists (t, ids). split; [left; reflexivity|reflexivity].
      * exists e. split; [right; exact Hin|reflexivity].
  - rewrite occ_cons in Ho. assert (Hc0 : count_occ Z.eq_dec ids c = 0%nat) by (apply mem_false_count; exact Hm).
    destruct (IH Hr) as [ts [r' [Ht [Hd [H1 [H2 [H3 [H4 H5]]]]]]]]; [lia|]. rewrite Ht.
    exists ts, ((t, ids) :: r'). repeat split.
    + exact Hd.
    + rewrite !occ_cons. lia.
    + intros c' Hc. rewrite !occ_cons, H2 by exact Hc. reflexivity.
    + intros c' Hc. cbn [due_of]. rewrite H3 by exact Hc. reflexivity.
    + constructor; [exact Hne| |exact H4]. intros e Hin. destruct (H5 e Hin) as [e' [Hin' Hf]]. rewrite Hf. exact (Hlb e' Hin').
    + intros e [<-|Hin].
      * exists (t, ids). split; [left; reflexivity|reflexivity].
      * destruct (H5 e Hin) as [e' [Hin' Hf]]. exists e'. split; [right; exact Hin'|exact Hf].
Qed.

Lemma sched_remove_none (c ts : Z) (s : sched) : occ c s = 0%nat -> sched_remove c ts s = None.
Proof.
  induction s as [|[t ids] r IH]; cbn [sched_remove]; [reflexivity|]. rewrite occ_cons. intros Ho.
  destruct (t =? ts).
  - unfold entry_remove. assert (Hm : mem c ids = false) by (apply mem_false_count; lia). rewrite Hm. reflexivity.
  - rewrite IH by lia. reflexivity.
Qed.

(* RemoveConsumerInfractionQueuedData under the consistency invariant *)
Lemma remove_queued_data_spec (c : Z) (q : amap params) (s : sched) :
  ssorted s ->
  (forall x, occ x s = if aget x q then 1%nat else 0%nat) ->
  forall q' s', remove_queued_data c q s = (q', s') ->
    aget c q' = None /\ occ c s' = 0%nat /\ ssorted s' /\
    (forall x, x <> c -> aget x q' = aget x q) /\
    (forall x, x <> c -> occ x s' = occ x s) /\
    (forall x, x <> c -> due_of x s' = due_of x s).
Proof.
  intros Hs Ho q' s' H. unfold remove_queued_data in H. pose proof (Ho c) as Hoc.
  destruct (aget c q) as [p|] eqn:Eq.
  - destruct (sched_take_spec c s Hs) as [ts [s1 [Ht [_ [H1 [H2 [H3 [H4 _]]]]]]]]; [lia|].
    rewrite Ht in H. assert (Hz : occ c s1 = 0%nat) by lia.
    rewrite (sched_remove_none c ts s1 Hz) in H. inversion H; subst.
    repeat split; try assumption.
    + apply aget_adel_eq.
    + intros x Hx. apply aget_adel_neq. exact Hx.
  - inversion H; subst. repeat split; try assumption; try reflexivity.
Qed.

(* ------------------------------------------------------------------ consume *)
(* the ids that are due at [now], in processing order *)
Fixpoint due_list (now : Z) (s : sched) : list Z :=
  match s with
  | [] => []
  | (t, ids) :: r => if now <? t then [] else ids ++ due_list now r
  end.

Lemma consume_fst (now : Z) (s : sched) : forall n, fst (consume now n s) = firstn n (due_list now s).
Proof.
  induction s as [|[t ids] r IH]; intros n; cbn [consume due_list].
  - rewrite firstn_nil. reflexivity.
  - destruct (n =? 0)%nat eqn:En.
    + apply Nat.eqb_eq in En. subst n. reflexivity.
    + destruct (now <? t) eqn:Et; [rewrite firstn_nil; reflexivity|].
      destruct (length ids <=? n)%nat eqn:El.
      * apply Nat.leb_le in El. specialize (IH (n - length ids)%nat).
        destruct (consume now (n - length ids) r) as [res r'] eqn:Ec. cbn [fst] in *.
        rewrite firstn_app, IH, (firstn_all2 ids El). reflexivity.
      * apply Nat.leb_gt in El. cbn [fst]. rewrite firstn_app.
        replace (n - length ids)%nat with 0%nat by lia. rewrite firstn_O, app_nil_r. reflexivity.
Qed.

Lemma count_firstn_skipn (c : Z) (n : nat) (l : list Z) :
  count_occ Z.eq_dec l c = (count_occ Z.eq_dec (firstn n l) c + count_occ Z.eq_dec (skipn n l) c)%nat.
Proof. rewrite <- count_occ_app, firstn_skipn. reflexivity. Qed.

Lemma consume_occ (now : Z) (c : Z) (s : sched) : forall n,
  occ c s = (count_occ Z.eq_dec (fst (consume now n s)) c + occ c (snd (consume now n s)))%nat.
Proof.
  induction s as [|[t ids] r IH]; intros n; cbn [consume]; [reflexivity|].
  destruct (n =? 0)%nat; [reflexivity|]. destruct (now <? t); [reflexivity|].
  destruct (length ids <=? n)%nat.
  - specialize (IH (n - length ids)%nat). destruct (consume now (n - length ids) r) as [res r'].
    cbn [fst snd] in *. rewrite occ_cons, count_occ_app, IH. lia.
  - cbn [fst snd]. rewrite !occ_cons, (count_firstn_skipn c n ids). lia.
Qed.

Lemma consume_sorted (now : Z) (s : sched) : forall n,
  ssorted s -> ssorted (snd (consume now n s)) /\
               (forall e, In e (snd (consume now n s)) -> exists e', In e' s /\ fst e = fst e').
Proof.
  induction s as [|[t ids] r IH]; intros n Hs; cbn [consume].
  - split; [constructor|intros e []].
  - assert (Hid : ssorted ((t, ids) :: r) /\
                  (forall e, In e ((t, ids) :: r) -> exists e', In e' ((t, ids) :: r) /\ fst e = fst e')).
    { split; [exact Hs|]. intros e Hin. exists e. split; [exact Hin|reflexivity]. }
    destruct (n =? 0)%nat; [exact Hid|]. destruct (now <? t); [exact Hid|].
    inversion Hs as [|t0 ids0 r0 Hne Hlb Hr]; subst.
    destruct (length ids <=? n)%nat eqn:El.
    + destruct (IH (n - length ids)%nat Hr) as [H1 H2]. destruct (consume now (n - length ids) r) as [res r'].
      cbn [snd] in *. split; [exact H1|]. intros e Hin. destruct (H2 e Hin) as [e' [Hin' Hf]].
      exists e'. split; [right; exact Hin'|exact Hf].
    + apply Nat.leb_gt in El. cbn [snd]. split.
      * constructor; [|exact Hlb|exact Hr]. intros Hnil.
        pose proof (firstn_skipn n ids) as Hfs. rewrite Hnil, app_nil_r in Hfs.
        pose proof (firstn_le_length n ids) as Hle. rewrite Hfs in Hle. lia.
      * intros e [<-|Hin].
        -- exists (t, ids). split; [left; reflexivity|reflexivity].
        -- exists e. split; [right; exact Hin|reflexivity].
Qed.

Lemma consume_due_of (now : Z) (c : Z) (s : sched) : forall n,
  count_occ Z.eq_dec (fst (consume now n s)) c = 0%nat ->
  due_of c (snd (consume now n s)) = due_of c s.
Proof.
  induction s as [|[t ids] r IH]; intros n; cbn [consume]; [reflexivity|].
  destruct (n =? 0)%nat; [reflexivity|]. destruct (now <? t); [reflexivity|].
  destruct (length ids <=? n)%nat.
  - specialize (IH (n - length ids)%nat). destruct (consume now (n - length ids) r) as [res r'].
    cbn [fst snd] in *. rewrite count_occ_app. intros H0. cbn [due_of].
    assert (Hm : mem c ids = false) by (apply mem_false_count; lia). rewrite Hm. apply IH. lia.
  - cbn [fst snd]. intros H0. cbn [due_of].
    assert (Hmm : mem c ids = mem c (skipn n ids)).
    { rewrite <- (firstn_skipn n ids) at 1. rewrite mem_app.
      assert (Hf : mem c (firstn n ids) = false) by (apply mem_false_count; exact H0). rewrite Hf. reflexivity. }
    rewrite Hmm. reflexivity.
Qed.

Lemma due_list_in_occ (now c : Z) (s : sched) : In c (due_list now s) -> (0 < occ c s)%nat.
Proof.
  induction s as [|[t ids] r IH]; cbn [due_list]; [intros []|].
  rewrite occ_cons. destruct (now <? t); [intros []|]. intros H. apply in_app_or in H. destruct H as [H|H].
  - apply (count_occ_In Z.eq_dec) in H. lia.
  - specialize (IH H). lia.
Qed.

(* "c is due at now": scheduled under a timestamp <= now *)
Lemma due_list_due (now c : Z) (s : sched) :
  In c (due_list now s) -> exists t, due_of c s = Some t /\ t <= now.
Proof.
  induction s as [|[t ids] r IH]; cbn [due_list due_of]; [intros []|].
  destruct (now <? t) eqn:Et; [intros []|]. apply Z.ltb_ge in Et. intros H.
  destruct (mem c ids) eqn:Hm; [exists t; split; [reflexivity|exact Et]|].
  apply in_app_or in H. destruct H as [H|H]; [apply mem_true_iff in H; congruence|]. exact (IH H).
Qed.

Lemma due_due_list (now c t : Z) (s : sched) :
  ssorted s -> due_of c s = Some t -> t <= now -> In c (due_list now s).
Proof.
  induction s as [|[t0 ids] r IH]; cbn [due_list due_of]; [discriminate|]. intros Hs Hd Hle.
  inversion Hs as [|t1 ids1 r1 Hne Hlb Hr]; subst.
  destruct (mem c ids) eqn:Hm.
  - inversion Hd; subst. destruct (now <? t) eqn:Et; [apply Z.ltb_lt in Et; lia|].
    apply in_or_app. left. apply mem_true_iff. exact Hm.
  - assert (Hlt : t0 < t).
    { clear IH. induction r as [|[t2 ids2] r2 IHr]; cbn [due_of] in Hd; [discriminate|].
      destruct (mem c ids2).
      - inversion Hd; subst. exact (Hlb (t, ids2) (or_introl eq_refl)).
      - inversion Hr; subst. apply IHr; try assumption.
        + constructor; try assumption. intros e Hin. apply Hlb. right. exact Hin.
        + intros e Hin. apply Hlb. right. exact Hin. }
    destruct (now <? t0) eqn:Et; [apply Z.ltb_lt in Et; lia|].
    apply in_or_app. right. exact (IH Hr Hd Hle).
Qed.

(* ------------------------------------------------------------------ apply_ids *)
Lemma apply_ids_spec (ids : list Z) : forall cu q,
  NoDup ids -> (forall c, In c ids -> aget c q <> None) ->
  exists cu' q', apply_ids ids cu q = (true, cu', q') /\
    (forall c, aget c cu' = if mem c ids then aget c q else aget c cu) /\
    (forall c, aget c q' = if mem c ids then None else aget c q).
Proof.
  induction ids as [|c t IH]; intros cu q Hnd Hq; cbn [apply_ids].
  - exists cu, q. repeat split.
  - inversion Hnd as [|c0 t0 Hnin Hnd']; subst.
    destruct (aget c q) as [p|] eqn:Ec; [|exfalso; apply (Hq c); [left; reflexivity|exact Ec]].
    destruct (IH (aput c p cu) (adel c q) Hnd') as [cu' [q' [Ha [H1 H2]]]].
    { intros x Hx. rewrite aget_adel_neq; [apply Hq; right; exact Hx|]. intros ->. exact (Hnin Hx). }
    exists cu', q'. split; [exact Ha|]. split; intros x; cbn [mem existsb]; fold (mem x t).
    + rewrite H1. destruct (x =? c) eqn:E.
      * apply Z.eqb_eq in E. subst x. cbn [orb].
        assert (Hm : mem c t = false) by (apply mem_false_iff; exact Hnin). rewrite Hm.
        rewrite aget_aput_eq. symmetry. exact Ec.
      * apply Z.eqb_neq in E. cbn [orb]. destruct (mem x t).
        -- apply aget_adel_neq. exact E.
        -- apply aget_aput_neq. exact E.
    + rewrite H2. destruct (x =? c) eqn:E.
      * apply Z.eqb_eq in E. subst x. cbn [orb]. destruct (mem c t); [reflexivity|apply aget_adel_eq].
      * apply Z.eqb_neq in E. cbn [orb]. destruct (mem x t); [reflexivity|apply aget_adel_neq; exact E].
Qed.

(* ------------------------------------------------------------------ the invariant *)
Record Inv (st : state) : Prop := {
  inv_sorted : ssorted (schedule st);
  inv_occ : forall c, occ c (schedule st) = if aget c (queued st) then 1%nat else 0%nat;
  inv_qphase : forall c, aget c (queued st) <> None ->
      aget c (phases st) = Some Launched \/ aget c (phases st) = Some Stopped;
  inv_cur : forall c, aget c (phases st) <> None -> aget c (cur st) <> None;
  inv_ids : forall c, aget c (phases st) <> None -> c < next_id st;
  inv_diff : forall c p q, aget c (cur st) = Some p -> aget c (queued st) = Some q -> params_eqb p q = false
}.

Lemma inv_init : Inv init.
Proof.
  constructor; cbn; try (intros; congruence); try (intros; reflexivity). constructor.
Qed.

Lemma occ_le_1 st c : Inv st -> (occ c (schedule st) <= 1)%nat.
Proof. intros H. rewrite (inv_occ st H). destruct (aget c (queued st)); lia. Qed.

Lemma occ_pos_queued st c : Inv st -> (0 < occ c (schedule st))%nat -> aget c (queued st) <> None.
Proof. intros H. rewrite (inv_occ st H). destruct (aget c (queued st)); [congruence|lia]. Qed.

Lemma queued_none_occ st c : Inv st -> aget c (queued st) = None -> occ c (schedule st) = 0%nat.
Proof. intros H Hq. rewrite (inv_occ st H), Hq. reflexivity. Qed.

Lemma is_prelaunch_true st c : is_prelaunch st c = true -> aget c (phases st) = Some Prelaunch.
Proof. unfold is_prelaunch. destruct (aget c (phases st)) as [[]|]; congruence. Qed.

Lemma is_launched_true st c : is_launched st c = true <-> aget c (phases st) = Some Launched.
Proof. unfold is_launched. destruct (aget c (phases st)) as [[]|]; split; congruence. Qed.

Lemma active_not_prelaunch st c : is_active st c = true -> is_prelaunch st c = false -> aget c (phases st) = Some Launched.
Proof. unfold is_active. intros H H0. rewrite H0 in H. cbn [orb] in H. apply is_launched_true. exact H. Qed.

(* UpdateQueuedInfractionParams on a launched consumer *)
Lemma update_queued_spec st c cp np u :
  Inv st -> aget c (phases st) = Some Launched -> aget c (cur st) = Some cp ->
  exists st', update_queued c np u st = Some st' /\ Inv st' /\
    clock st' = clock st /\ next_id st' = next_id st /\ phases st' = phases st /\ cur st' = cur st /\
    (if params_eqb cp np
     then aget c (queued st') = None /\ occ c (schedule st') = 0%nat
     else aget c (queued st') = Some np /\ due_of c (schedule st') = Some (clock st + u)) /\
    (forall x, x <> c -> aget x (queued st') = aget x (queued st) /\
                         due_of x (schedule st') = due_of x (schedule st)).
Proof.
  intros HI Hph Hcur. unfold update_queued.
  destruct (remove_queued_data c (queued st) (schedule st)) as [q1 s1] eqn:Er.
  destruct (remove_queued_data_spec c (queued st) (schedule st) (inv_sorted st HI) (inv_occ st HI) q1 s1 Er)
    as [Hq1 [Ho1 [Hs1 [Hqx [Hox Hdx]]]]].
  rewrite Hcur. destruct (params_eqb cp np) eqn:Eeq.
  - eexists. split; [reflexivity|]. cbn [clock next_id phases cur queued schedule].
    split; [|repeat split; try reflexivity; try assumption].
    + constructor; cbn [clock next_id phases cur queued schedule].
      * exact Hs1.
      * intros x. destruct (Z.eq_dec x c) as [->|Hx]; [rewrite Ho1, Hq1; reflexivity|].
        rewrite (Hox x Hx), (Hqx x Hx). apply (inv_occ st HI).
      * intros x Hx. destruct (Z.eq_dec x c) as [->|Hne]; [congruence|]. rewrite (Hqx x Hne) in Hx. exact (inv_qphase st HI x Hx).
      * exact (inv_cur st HI).
      * exact (inv_ids st HI).
      * intros x p q Hp Hq. destruct (Z.eq_dec x c) as [->|Hne]; [congruence|]. rewrite (Hqx x Hne) in Hq.
        exact (inv_diff st HI x p q Hp Hq).
    + exact (Hqx x H).
    + exact (Hdx x H).
  - eexists. split; [reflexivity|]. cbn [clock next_id phases cur queued schedule].
    split; [|repeat split; try reflexivity].
    + constructor; cbn [clock next_id phases cur queued schedule].
      * apply ssorted_append. exact Hs1.
      * intros x. rewrite occ_append. destruct (Z.eq_dec c x) as [<-|Hx].
        -- rewrite Ho1, aget_aput_eq. reflexivity.
        -- rewrite aget_aput_neq by congruence. rewrite (Hox x), (Hqx x) by congruence.
           rewrite (inv_occ st HI x). lia.
      * intros x Hx. destruct (Z.eq_dec x c) as [->|Hne]; [left; exact Hph|].
        rewrite aget_aput_neq in Hx by exact Hne. rewrite (Hqx x Hne) in Hx. exact (inv_qphase st HI x Hx).
      * exact (inv_cur st HI).
      * exact (inv_ids st HI).
      * intros x p q Hp Hq. destruct (Z.eq_dec x c) as [->|Hne].
        -- rewrite aget_aput_eq in Hq. congruence.
        -- rewrite aget_aput_neq in Hq by exact Hne. rewrite (Hqx x Hne) in Hq. exact (inv_diff st HI x p q Hp Hq).
    + apply aget_aput_eq.
    + apply due_of_append_same. exact Ho1.
    + rewrite aget_aput_neq by exact H. exact (Hqx x H).
    + rewrite due_of_append_other by exact H. exact (Hdx x H).
Qed.

(* BeginBlockUpdateInfractionParameters *)
Definition applied_now (c now : Z) (st : state) : bool := mem c (firstn limit (due_list now (schedule st))).

Lemma begin_block_spec st now :
  Inv st ->
  exists st', begin_block now st = (st', r_ok) /\ Inv st' /\
    clock st' = now /\ next_id st' = next_id st /\ phases st' = phases st /\
    (forall c, if applied_now c now st
               then aget c (cur st') = aget c (queued st) /\ aget c (queued st) <> None /\
                    aget c (queued st') = None /\ occ c (schedule st') = 0%nat
               else aget c (cur st') = aget c (cur st) /\ aget c (queued st') = aget c (queued st) /\
                    due_of c (schedule st') = due_of c (schedule st)).
Proof.
  intros HI. unfold begin_block, applied_now.
  pose proof (consume_fst now (schedule st) limit) as Hfst.
  pose proof (fun c => consume_occ now c (schedule st) limit) as Hocc.
  pose proof (consume_sorted now (schedule st) limit (inv_sorted st HI)) as [Hsrt _].
  pose proof (fun c => consume_due_of now c (schedule st) limit) as Hdue.
  destruct (consume now limit (schedule st)) as [ids s'] eqn:Ec. cbn [fst snd] in *.
  assert (Hcnt : forall c, (count_occ Z.eq_dec ids c <= 1)%nat).
  { intros c. pose proof (occ_le_1 st c HI). specialize (Hocc c). lia. }
  assert (Hnd : NoDup ids) by (apply (NoDup_count_occ Z.eq_dec); exact Hcnt).
  assert (Hq : forall c, In c ids -> aget c (queued st) <> None).
  { intros c Hin. apply occ_pos_queued; [exact HI|]. apply (count_occ_In Z.eq_dec) in Hin. specialize (Hocc c). lia. }
  destruct (apply_ids_spec ids (cur st) (queued st) Hnd Hq) as [cu' [q' [Ha [Hcu Hq']]]]. rewrite Ha.
  eexists. split; [reflexivity|]. cbn [clock next_id phases cur queued schedule].
  assert (Hper : forall c, if mem c ids
               then aget c cu' = aget c (queued st) /\ aget c (queued st) <> None /\
                    aget c q' = None /\ occ c s' = 0%nat
               else aget c cu' = aget c (cur st) /\ aget c q' = aget c (queued st) /\
                    due_of c s' = due_of c (schedule st)).
  { intros c. specialize (Hcu c). specialize (Hq' c). destruct (mem c ids) eqn:Hm.
    - assert (Hin : In c ids) by (apply mem_true_iff; exact Hm).
      repeat split; [exact Hcu|exact (Hq c Hin)|exact Hq'|].
      pose proof (occ_le_1 st c HI). specialize (Hocc c). apply (count_occ_In Z.eq_dec) in Hin. lia.
    - repeat split; [exact Hcu|exact Hq'|]. apply Hdue. apply mem_false_count. exact Hm. }
  split; [|repeat split; try reflexivity].
  - constructor; cbn [clock next_id phases cur queued schedule].
    + exact Hsrt.
    + intros c. specialize (Hper c). specialize (Hocc c). destruct (mem c ids) eqn:Hm.
      * destruct Hper as [_ [_ [Hn Hz]]]. rewrite Hn, Hz. reflexivity.
      * destruct Hper as [_ [Hs _]]. rewrite Hs. apply mem_false_count in Hm. rewrite <- (inv_occ st HI c). lia.
    + intros c Hc. specialize (Hper c). destruct (mem c ids).
      * destruct Hper as [_ [_ [Hn _]]]. congruence.
      * destruct Hper as [_ [Hs _]]. rewrite Hs in Hc. exact (inv_qphase st HI c Hc).
    + intros c Hc. specialize (Hper c). destruct (mem c ids).
      * destruct Hper as [H1 [H2 _]]. rewrite H1. exact H2.
      * destruct Hper as [H1 _]. rewrite H1. exact (inv_cur st HI c Hc).
    + exact (inv_ids st HI).
    + intros c p q Hp Hqq. specialize (Hper c). destruct (mem c ids).
      * destruct Hper as [_ [_ [Hn _]]]. congruence.
      * destruct Hper as [H1 [H2 _]]. rewrite H1 in Hp. rewrite H2 in Hqq. exact (inv_diff st HI c p q Hp Hqq).
  - intros c. rewrite <- Hfst. exact (Hper c).
Qed.

(* ------------------------------------------------------------------ every step preserves the invariant *)
Lemma fresh_id st : Inv st -> aget (next_id st) (phases st) = None /\ aget (next_id st) (queued st) = None.
Proof.
  intros HI. assert (Hp : aget (next_id st) (phases st) = None).
  { destruct (aget (next_id st) (phases st)) eqn:E; [|reflexivity].
    assert (Hne : aget (next_id st) (phases st) <> None) by congruence. pose proof (inv_ids st HI _ Hne). lia. }
  split; [exact Hp|]. destruct (aget (next_id st) (queued st)) eqn:E; [|reflexivity].
  assert (Hne : aget (next_id st) (queued st) <> None) by congruence.
  destruct (inv_qphase st HI _ Hne); congruence.
Qed.

Lemma inv_set_phase st c ph :
  Inv st -> aget c (phases st) <> None -> (ph = Launched \/ ph = Stopped \/ aget c (queued st) = None) ->
  Inv (set_phase c ph st).
Proof.
  intros HI Hex Hph. constructor; cbn [set_phase clock next_id phases cur queued schedule].
  - exact (inv_sorted st HI).
  - exact (inv_occ st HI).
  - intros x Hx. destruct (Z.eq_dec x c) as [->|Hne].
    + rewrite aget_aput_eq. destruct Hph as [->|[->|Hn]]; [left; reflexivity|right; reflexivity|congruence].
    + rewrite aget_aput_neq by exact Hne. exact (inv_qphase st HI x Hx).
  - intros x Hx. destruct (Z.eq_dec x c) as [->|Hne]; [exact (inv_cur st HI c Hex)|].
    rewrite aget_aput_neq in Hx by exact Hne. exact (inv_cur st HI x Hx).
  - intros x Hx. destruct (Z.eq_dec x c) as [->|Hne]; [exact (inv_ids st HI c Hex)|].
    rewrite aget_aput_neq in Hx by exact Hne. exact (inv_ids st HI x Hx).
  - exact (inv_diff st HI).
Qed.

Lemma inv_create st d r : Inv st -> Inv (fst (create d r st)).
Proof.
  intros HI. unfold create. destruct (negb (valid_req r)); [exact HI|]. cbn [fst].
  destruct (fresh_id st HI) as [Hfp Hfq].
  constructor; cbn [clock next_id phases cur queued schedule].
  - exact (inv_sorted st HI).
  - exact (inv_occ st HI).
  - intros x Hx. destruct (Z.eq_dec x (next_id st)) as [->|Hne]; [congruence|].
    rewrite aget_aput_neq by exact Hne. exact (inv_qphase st HI x Hx).
  - intros x Hx. destruct (Z.eq_dec x (next_id st)) as [->|Hne]; [rewrite aget_aput_eq; discriminate|].
    rewrite aget_aput_neq in Hx by exact Hne. rewrite aget_aput_neq by exact Hne. exact (inv_cur st HI x Hx).
  - intros x Hx. destruct (Z.eq_dec x (next_id st)) as [->|Hne]; [lia|].
    rewrite aget_aput_neq in Hx by exact Hne. pose proof (inv_ids st HI x Hx). lia.
  - intros x p q Hp Hq. destruct (Z.eq_dec x (next_id st)) as [->|Hne]; [congruence|].
    rewrite aget_aput_neq in Hp by exact Hne. exact (inv_diff st HI x p q Hp Hq).
Qed.

Lemma inv_update st c ow r u : Inv st -> Inv (fst (update c ow r u st)).
Proof.
  intros HI. unfold update. destruct (negb (valid_req r)); [exact HI|].
  destruct (is_active st c) eqn:Ea; cbn [negb]; [|exact HI]. destruct ow; cbn [negb]; [|exact HI].
  destruct r as [hv|]; [|exact HI]. destruct (aget c (cur st)) as [cp|] eqn:Ecur; [|exact HI].
  destruct (is_prelaunch st c) eqn:Ep.
  - cbn [fst]. apply is_prelaunch_true in Ep.
    assert (Hqn : aget c (queued st) = None).
    { destruct (aget c (queued st)) eqn:E; [|reflexivity].
      assert (Hne : aget c (queued st) <> None) by congruence. destruct (inv_qphase st HI c Hne); congruence. }
    constructor; cbn [clock next_id phases cur queued schedule].
    + exact (inv_sorted st HI).
    + exact (inv_occ st HI).
    + exact (inv_qphase st HI).
    + intros x Hx. destruct (Z.eq_dec x c) as [->|Hne]; [rewrite aget_aput_eq; discriminate|].
      rewrite aget_aput_neq by exact Hne. exact (inv_cur st HI x Hx).
    + exact (inv_ids st HI).
    + intros x p q Hp Hq. destruct (Z.eq_dec x c) as [->|Hne]; [congruence|].
      rewrite aget_aput_neq in Hp by exact Hne. exact (inv_diff st HI x p q Hp Hq).
  - pose proof (active_not_prelaunch st c Ea Ep) as Hl.
    destruct (update_queued_spec st c cp (merge cp hv) u HI Hl Ecur) as [st' [Hu [HI' _]]].
    rewrite Hu. exact HI'.
Qed.

Lemma inv_queue_direct st c p u : Inv st -> Inv (fst (queue_direct c p u st)).
Proof.
  intros HI. unfold queue_direct. destruct (is_launched st c) eqn:El; cbn [negb]; [|exact HI].
  apply is_launched_true in El.
  destruct (aget c (cur st)) as [cp|] eqn:Ecur.
  - destruct (update_queued_spec st c cp p u HI El Ecur) as [st' [Hu [HI' _]]]. rewrite Hu. exact HI'.
  - exfalso. apply (inv_cur st HI c); [congruence|exact Ecur].
Qed.

Lemma inv_launch st c : Inv st -> Inv (fst (launch c st)).
Proof.
  intros HI. unfold launch. destruct (is_prelaunch st c) eqn:Ep; [|exact HI]. cbn [fst].
  apply is_prelaunch_true in Ep. apply inv_set_phase; [exact HI|congruence|left; reflexivity].
Qed.

Lemma inv_stop st c ow : Inv st -> Inv (fst (stop c ow st)).
Proof.
  intros HI. unfold stop. destruct (aget c (phases st)) as [ph|] eqn:Eph; [|exact HI].
  destruct ow; cbn [negb]; [|exact HI]. destruct ph; try exact HI. cbn [fst].
  apply inv_set_phase; [exact HI|congruence|right; left; reflexivity].
Qed.

Lemma delete_spec st c :
  Inv st -> aget c (phases st) = Some Stopped ->
  exists st', delete c st = (st', r_ok) /\ Inv st' /\
    clock st' = clock st /\ cur st' = cur st /\ aget c (phases st') = Some Deleted /\
    (forall x, x <> c -> aget x (phases st') = aget x (phases st)) /\
    aget c (queued st') = None /\ occ c (schedule st') = 0%nat /\
    (forall x, x <> c -> aget x (queued st') = aget x (queued st) /\
                         due_of x (schedule st') = due_of x (schedule st)).
Proof.
  intros HI Hph. unfold delete. rewrite Hph.
  destruct (remove_queued_data c (queued st) (schedule st)) as [q1 s1] eqn:Er.
  destruct (remove_queued_data_spec c (queued st) (schedule st) (inv_sorted st HI) (inv_occ st HI) q1 s1 Er)
    as [Hq1 [Ho1 [Hs1 [Hqx [Hox Hdx]]]]].
  eexists. split; [reflexivity|]. cbn [clock next_id phases cur queued schedule].
  refine (conj _ (conj eq_refl (conj eq_refl (conj _ (conj _ (conj Hq1 (conj Ho1 _))))))).
  - constructor; cbn [clock next_id phases cur queued schedule].
    + exact Hs1.
    + intros x. destruct (Z.eq_dec x c) as [->|Hx]; [rewrite Ho1, Hq1; reflexivity|].
      rewrite (Hox x Hx), (Hqx x Hx). apply (inv_occ st HI).
    + intros x Hx. destruct (Z.eq_dec x c) as [->|Hne]; [congruence|]. rewrite (Hqx x Hne) in Hx.
      rewrite aget_aput_neq by exact Hne. exact (inv_qphase st HI x Hx).
    + intros x Hx. destruct (Z.eq_dec x c) as [->|Hne]; [apply (inv_cur st HI c); congruence|].
      rewrite aget_aput_neq in Hx by exact Hne. exact (inv_cur st HI x Hx).
    + intros x Hx. destruct (Z.eq_dec x c) as [->|Hne]; [apply (inv_ids st HI c); congruence|].
      rewrite aget_aput_neq in Hx by exact Hne. exact (inv_ids st HI x Hx).
    + intros x p q Hp Hq. destruct (Z.eq_dec x c) as [->|Hne]; [congruence|]. rewrite (Hqx x Hne) in Hq.
      exact (inv_diff st HI x p q Hp Hq).
  - apply aget_aput_eq.
  - intros x Hx. apply aget_aput_neq. exact Hx.
  - intros x Hx. split; [exact (Hqx x Hx)|exact (Hdx x Hx)].
Qed.

Lemma inv_delete st c : Inv st -> Inv (fst (delete c st)).
Proof.
  intros HI. destruct (aget c (phases st)) as [ph|] eqn:Eph.
  - destruct ph; try (unfold delete; rewrite Eph; exact HI).
    destruct (delete_spec st c HI Eph) as [st' [Hd [HI' _]]]. rewrite Hd. exact HI'.
  - unfold delete. rewrite Eph. exact HI.
Qed.

Lemma inv_step st o : Inv st -> Inv (step st o).
Proof.
  intros HI. unfold step. destruct o; cbn [step_res].
  - apply inv_create. exact HI.
  - apply inv_update. exact HI.
  - apply inv_queue_direct. exact HI.
  - apply inv_launch. exact HI.
  - apply inv_stop. exact HI.
  - apply inv_delete. exact HI.
  - destruct (begin_block_spec st now HI) as [st' [Hb [HI' _]]]. rewrite Hb. exact HI'.
  - exact HI.
Qed.

Lemma inv_exec ops : forall st, Inv st -> Inv (exec st ops).
Proof.
  induction ops as [|o t IH]; intros st HI; [exact HI|]. cbn [exec fold_left]. apply IH. apply inv_step. exact HI.
Qed.

Lemma inv_reachable ops : Inv (exec init ops).
Proof. apply inv_exec. exact inv_init. Qed.

(* ------------------------------------------------------------------ frames *)
Definition request_on (c : Z) (o : op) : bool :=
  match o with
  | OUpdate c' _ (Some _) _ => c' =? c
  | OQueue c' _ _ => c' =? c
  | _ => false
  end.
Definition delete_of (c : Z) (o : op) : bool := match o with ODelete c' => c' =? c | _ => false end.
Definition is_block (o : op) : bool := match o with OBeginBlock _ => true | _ => false end.
(* neither a request on c nor the deletion of c *)
Definition quiet_op (c : Z) (o : op) : bool := negb (request_on c o) && negb (delete_of c o).
Definition quiet (c : Z) (ops : list op) : bool := forallb (quiet_op c) ops.

Lemma update_queued_frame c p u st st' :
  update_queued c p u st = Some st' ->
  phases st' = phases st /\ cur st' = cur st /\ clock st' = clock st /\ next_id st' = next_id st.
Proof.
  unfold update_queued. destruct (remove_queued_data c (queued st) (schedule st)) as [q1 s1].
  destruct (aget c (cur st)); [|discriminate]. destruct (params_eqb p0 p); intros H; inversion H; subst; cbn; tauto.
Qed.

(* phases only move forward *)
Lemma phases_step st o x :
  Inv st ->
  aget x (phases (step st o)) = aget x (phases st) \/
  (aget x (phases st) = None /\ aget x (phases (step st o)) = Some Prelaunch) \/
  (aget x (phases st) = Some Prelaunch /\ aget x (phases (step st o)) = Some Launched) \/
  (aget x (phases st) = Some Launched /\ aget x (phases (step st o)) = Some Stopped) \/
  (aget x (phases st) = Some Stopped /\ aget x (phases (step st o)) = Some Deleted).
Proof.
  intros HI. unfold step. destruct o; cbn [step_res].
  - unfold create. destruct (negb (valid_req r)); [left; reflexivity|]. cbn [fst phases].
    destruct (Z.eq_dec x (next_id st)) as [->|Hne].
    + right. left. split; [exact (proj1 (fresh_id st HI))|apply aget_aput_eq].
    + left. apply aget_aput_neq. exact Hne.
  - left. unfold update. destruct (negb (valid_req r)); [reflexivity|].
    destruct (negb (is_active st c)); [reflexivity|]. destruct (negb owner); [reflexivity|].
    destruct r; [|reflexivity]. destruct (aget c (cur st)); [|reflexivity].
    destruct (is_prelaunch st c); [reflexivity|].
    destruct (update_queued c (merge p0 p) u st) eqn:E; [|reflexivity].
    cbn [fst]. rewrite (proj1 (update_queued_frame _ _ _ _ _ E)). reflexivity.
  - left. unfold queue_direct. destruct (negb (is_launched st c)); [reflexivity|].
    destruct (update_queued c p u st) eqn:E; [|reflexivity].
    cbn [fst]. rewrite (proj1 (update_queued_frame _ _ _ _ _ E)). reflexivity.
  - unfold launch. destruct (is_prelaunch st c) eqn:Ep; [|left; reflexivity]. cbn [fst set_phase phases].
    apply is_prelaunch_true in Ep. destruct (Z.eq_dec x c) as [->|Hne].
    + right. right. left. split; [exact Ep|apply aget_aput_eq].
    + left. apply aget_aput_neq. exact Hne.
  - unfold stop. destruct (aget c (phases st)) as [ph|] eqn:Eph; [|left; reflexivity].
    destruct (negb owner); [left; reflexivity|]. destruct ph; try (left; reflexivity). cbn [fst set_phase phases].
    destruct (Z.eq_dec x c) as [->|Hne].
    + right. right. right. left. split; [exact Eph|apply aget_aput_eq].
    + left. apply aget_aput_neq. exact Hne.
  - unfold delete. destruct (aget c (phases st)) as [ph|] eqn:Eph; [|left; reflexivity].
    destruct ph; try (left; reflexivity).
    destruct (remove_queued_data c (queued st) (schedule st)) as [q1 s1]. cbn [fst phases].
    destruct (Z.eq_dec x c) as [->|Hne].
    + right. right. right. right. split; [exact Eph|apply aget_aput_eq].
    + left. apply aget_aput_neq. exact Hne.
  - left. destruct (begin_block_spec st now HI) as [st' [Hb [_ [_ [_ [Hp _]]]]]]. rewrite Hb. cbn [fst]. rewrite Hp. reflexivity.
  - left. reflexivity.
Qed.

Lemma exists_step st o c : Inv st -> aget c (phases st) <> None -> aget c (phases (step st o)) <> None.
Proof.
  intros HI Hex. destruct (phases_step st o c HI) as [H|[[H _]|[[_ H]|[[_ H]|[_ H]]]]]; congruence.
Qed.

(* what a step that is not a begin-block and not a request on c does to c *)
Lemma frame st o c :
  Inv st -> request_on c o = false -> is_block o = false ->
  (aget c (phases st) <> None -> aget c (cur (step st o)) = aget c (cur st)) /\
  ((aget c (queued (step st o)) = aget c (queued st) /\ due_of c (schedule (step st o)) = due_of c (schedule st)) \/
   (delete_of c o = true /\ aget c (queued (step st o)) = None /\ occ c (schedule (step st o)) = 0%nat)).
Proof.
  intros HI Hreq Hblk. unfold step. destruct o; cbn [step_res]; cbn [request_on is_block] in *; try discriminate.
  - unfold create. destruct (negb (valid_req r)); [split; [reflexivity|left; split; reflexivity]|].
    cbn [fst cur queued schedule]. split; [|left; split; reflexivity].
    intros Hex. apply aget_aput_neq. pose proof (inv_ids st HI c Hex). lia.
  - unfold update. destruct (negb (valid_req r)); [split; [reflexivity|left; split; reflexivity]|].
    destruct (is_active st c0) eqn:Ea; cbn [negb]; [|split; [reflexivity|left; split; reflexivity]].
    destruct owner; cbn [negb]; [|split; [reflexivity|left; split; reflexivity]].
    destruct r as [hv|]; [|split; [reflexivity|left; split; reflexivity]].
    apply Z.eqb_neq in Hreq.
    destruct (aget c0 (cur st)) as [cp|] eqn:Ecur; [|split; [reflexivity|left; split; reflexivity]].
    destruct (is_prelaunch st c0) eqn:Ep.
    + cbn [fst cur queued schedule]. split; [|left; split; reflexivity].
      intros _. apply aget_aput_neq. congruence.
    + pose proof (active_not_prelaunch st c0 Ea Ep) as Hl.
      destruct (update_queued_spec st c0 cp (merge cp hv) u HI Hl Ecur) as [st' [Hu [_ [_ [_ [_ [Hc [_ Hx]]]]]]]].
      rewrite Hu. cbn [fst]. rewrite Hc. split; [reflexivity|]. left. apply Hx. congruence.
  - apply Z.eqb_neq in Hreq. unfold queue_direct.
    destruct (is_launched st c0) eqn:El; cbn [negb]; [|split; [reflexivity|left; split; reflexivity]].
    apply is_launched_true in El. destruct (aget c0 (cur st)) as [cp|] eqn:Ecur.
    + destruct (update_queued_spec st c0 cp p u HI El Ecur) as [st' [Hu [_ [_ [_ [_ [Hc [_ Hx]]]]]]]].
      rewrite Hu. cbn [fst]. rewrite Hc. split; [reflexivity|]. left. apply Hx. congruence.
    + exfalso. apply (inv_cur st HI c0); [congruence|exact Ecur].
  - unfold launch. destruct (is_prelaunch st c0); split; try reflexivity; left; split; reflexivity.
  - unfold stop. destruct (aget c0 (phases st)) as [ph|]; [|split; [reflexivity|left; split; reflexivity]].
    destruct (negb owner); [split; [reflexivity|left; split; reflexivity]|].
    destruct ph; split; try reflexivity; left; split; reflexivity.
  - destruct (aget c0 (phases st)) as [ph|] eqn:Eph.
    + destruct ph; try (unfold delete; rewrite Eph; split; [reflexivity|left; split; reflexivity]).
      destruct (delete_spec st c0 HI Eph) as [st' [Hd [_ [_ [Hc [_ [_ [Hq [Ho Hx]]]]]]]]].
      rewrite Hd. cbn [fst]. rewrite Hc. split; [reflexivity|].
      destruct (Z.eq_dec c c0) as [->|Hne].
      * right. cbn [delete_of]. rewrite Z.eqb_refl. repeat split; assumption.
      * left. apply Hx. exact Hne.
    + unfold delete. rewrite Eph. split; [reflexivity|left; split; reflexivity].
  - split; [reflexivity|left; split; reflexivity].
Qed.

Lemma in_firstn {A} (x : A) (n : nat) (l : list A) : In x (firstn n l) -> In x l.
Proof. intros H. rewrite <- (firstn_skipn n l). apply in_or_app. left. exact H. Qed.

Lemma not_queued_not_applied st c now : Inv st -> aget c (queued st) = None -> applied_now c now st = false.
Proof.
  intros HI Hq. unfold applied_now. apply mem_false_iff. intros Hin.
  apply in_firstn in Hin. apply due_list_in_occ in Hin. rewrite (queued_none_occ st c HI Hq) in Hin. lia.
Qed.

(* ------------------------------------------------------------------ requests *)
(* o is a request for the parameter set np on consumer c, made while the unbonding period is u *)
Definition is_request (st : state) (c : Z) (np : params) (u : Z) (o : op) : Prop :=
  o = OQueue c np u \/
  exists hv cp, o = OUpdate c true (Some hv) u /\ valid_req (Some hv) = true /\
                aget c (cur st) = Some cp /\ np = merge cp hv.

Lemma request_spec st c cp np u o :
  Inv st -> aget c (phases st) = Some Launched -> aget c (cur st) = Some cp -> is_request st c np u o ->
  snd (step_res st o) = r_ok /\
  aget c (cur (step st o)) = Some cp /\ clock (step st o) = clock st /\
  (if params_eqb cp np
   then aget c (queued (step st o)) = None /\ occ c (schedule (step st o)) = 0%nat
   else aget c (queued (step st o)) = Some np /\ due_of c (schedule (step st o)) = Some (clock st + u)).
Proof.
  intros HI Hph Hcur Hreq.
  destruct (update_queued_spec st c cp np u HI Hph Hcur) as [st' [Hu [_ [Hck [_ [_ [Hc [Hres _]]]]]]]].
  assert (Hl : is_launched st c = true) by (apply is_launched_true; exact Hph).
  assert (Hnp : is_prelaunch st c = false) by (unfold is_prelaunch; rewrite Hph; reflexivity).
  assert (Hstep : step_res st o = (st', r_ok)).
  { destruct Hreq as [->|[hv [cp' [-> [Hv [Hcur' ->]]]]]]; cbn [step_res].
    - unfold queue_direct. rewrite Hl. cbn [negb]. rewrite Hu. reflexivity.
    - unfold update. rewrite Hv. cbn [negb]. unfold is_active. rewrite Hl, orb_true_r. cbn [negb].
      rewrite Hcur, Hnp. assert (cp' = cp) by congruence. subst cp'. rewrite Hu. reflexivity. }
  unfold step. rewrite Hstep. cbn [fst snd]. rewrite Hc. repeat split; assumption.
Qed.

(* ------------------------------------------------------------------ timelines *)
Definition pending_at (st : state) (c : Z) (cp np : params) (d : Z) : Prop :=
  aget c (cur st) = Some cp /\ aget c (queued st) = Some np /\ due_of c (schedule st) = Some d.
Definition settled_at (st : state) (c : Z) (p : params) : Prop :=
  aget c (cur st) = Some p /\ aget c (queued st) = None.

(* some begin-block of ops, run from st, has c among the first [limit] due entries *)
Fixpoint applied_in (c : Z) (st : state) (ops : list op) : bool :=
  match ops with
  | [] => false
  | o :: t => (match o with OBeginBlock now => applied_now c now st | _ => false end) || applied_in c (step st o) t
  end.

Lemma quiet_cons c o t : quiet c (o :: t) = true -> request_on c o = false /\ delete_of c o = false /\ quiet c t = true.
Proof.
  unfold quiet. cbn [forallb]. unfold quiet_op. intros H. apply andb_prop in H. destruct H as [H1 H2].
  apply andb_prop in H1. destruct H1 as [Ha Hb]. apply negb_true_iff in Ha. apply negb_true_iff in Hb. tauto.
Qed.

Lemma step_block st now : step st (OBeginBlock now) = fst (begin_block now st).
Proof. reflexivity. Qed.

Lemma settled_stable ops : forall st c p,
  Inv st -> aget c (phases st) <> None -> settled_at st c p -> quiet c ops = true ->
  settled_at (exec st ops) c p /\ applied_in c st ops = false.
Proof.
  induction ops as [|o t IH]; intros st c p HI Hex [Hc Hq] Hqu; [split; [split; assumption|reflexivity]|].
  destruct (quiet_cons c o t Hqu) as [Hr [Hd Hqt]]. cbn [exec fold_left applied_in].
  assert (Hst : settled_at (step st o) c p /\
                (match o with OBeginBlock now => applied_now c now st | _ => false end) = false).
  { destruct (is_block o) eqn:Eb.
    - destruct o; try discriminate. rewrite step_block.
      destruct (begin_block_spec st now HI) as [st' [Hb [_ [_ [_ [_ Hper]]]]]]. rewrite Hb. cbn [fst].
      specialize (Hper c). rewrite (not_queued_not_applied st c now HI Hq) in *.
      destruct Hper as [H1 [H2 _]]. split; [split; congruence|reflexivity].
    - destruct (frame st o c HI Hr Eb) as [Hcu [[Hqq _]|[Hdel _]]]; [|congruence].
      split; [split; [rewrite (Hcu Hex); exact Hc|congruence]|]. destruct o; try reflexivity. discriminate. }
  destruct Hst as [Hs Hn]. rewrite Hn. cbn [orb].
  apply IH; [apply inv_step; exact HI|apply exists_step; assumption|exact Hs|exact Hqt].
Qed.

Lemma pending_run ops : forall st c cp np d,
  Inv st -> aget c (phases st) <> None -> pending_at st c cp np d -> quiet c ops = true ->
  if applied_in c st ops
  then settled_at (exec st ops) c np /\ occ c (schedule (exec st ops)) = 0%nat
  else pending_at (exec st ops) c cp np d.
Proof.
  induction ops as [|o t IH]; intros st c cp np d HI Hex [Hc [Hq Hd]] Hqu; [repeat split; assumption|].
  destruct (quiet_cons c o t Hqu) as [Hr [Hdl Hqt]]. cbn [exec fold_left applied_in].
  destruct (is_block o) eqn:Eb.
  - destruct o; try discriminate. rewrite step_block.
    destruct (begin_block_spec st now HI) as [st' [Hb [HI' [_ [_ [Hph Hper]]]]]]. rewrite Hb. cbn [fst].
    specialize (Hper c). destruct (applied_now c now st).
    + cbn [orb]. destruct Hper as [H1 [_ [H3 _]]].
      assert (Hs : settled_at st' c np) by (split; congruence).
      destruct (settled_stable t st' c np HI') as [Hfin _]; [rewrite Hph; exact Hex|exact Hs|exact Hqt|].
      split; [exact Hfin|]. apply queued_none_occ; [apply inv_exec; exact HI'|exact (proj2 Hfin)].
    + cbn [orb]. destruct Hper as [H1 [H2 H3]].
      apply IH; [exact HI'|rewrite Hph; exact Hex|repeat split; congruence|exact Hqt].
  - destruct (frame st o c HI Hr Eb) as [Hcu [[Hqq Hdd]|[Hdel _]]]; [|congruence].
    assert (Hn : (match o with OBeginBlock now => applied_now c now st | _ => false end) = false)
      by (destruct o; try reflexivity; discriminate).
    rewrite Hn. cbn [orb].
    apply IH; [apply inv_step; exact HI|apply exists_step; assumption| |exact Hqt].
    repeat split; [rewrite (Hcu Hex); exact Hc|congruence|congruence].
Qed.

(* a pending change can only be applied by a begin-block whose time has reached its due time *)
Lemma applied_now_due st c cp np d now :
  pending_at st c cp np d -> applied_now c now st = true -> d <= now.
Proof.
  intros [_ [_ Hd]] Ha. unfold applied_now in Ha. apply mem_true_iff in Ha. apply in_firstn in Ha.
  destruct (due_list_due now c (schedule st) Ha) as [t [Ht Hle]]. congruence.
Qed.

(* and it is applied by the begin-block when it is due and among the first [limit] due entries; when at most
   [limit] entries are due, being due suffices *)
Lemma applied_now_small st c cp np d now :
  Inv st -> pending_at st c cp np d -> d <= now ->
  (length (due_list now (schedule st)) <= limit)%nat -> applied_now c now st = true.
Proof.
  intros HI [_ [_ Hd]] Hle Hlen. unfold applied_now. rewrite firstn_all2 by exact Hlen.
  apply mem_true_iff. exact (due_due_list now c d (schedule st) (inv_sorted st HI) Hd Hle).
Qed.

Lemma applied_in_due ops : forall st c cp np d,
  Inv st -> aget c (phases st) <> None -> pending_at st c cp np d -> quiet c ops = true ->
  applied_in c st ops = true -> exists now, In (OBeginBlock now) ops /\ d <= now.
Proof.
  induction ops as [|o t IH]; intros st c cp np d HI Hex Hp Hqu Ha; [discriminate|].
  destruct (quiet_cons c o t Hqu) as [Hr [Hdl Hqt]]. cbn [applied_in] in Ha.
  destruct (match o with OBeginBlock now => applied_now c now st | _ => false end) eqn:E1.
  - destruct o; try discriminate. exists now. split; [left; reflexivity|exact (applied_now_due st c cp np d now Hp E1)].
  - cbn [orb] in Ha.
    assert (Hp' : pending_at (step st o) c cp np d).
    { pose proof (pending_run [o] st c cp np d HI Hex Hp) as H1. cbn [applied_in] in H1. rewrite E1 in H1.
      cbn [orb exec fold_left] in H1. apply H1. unfold quiet. cbn [forallb]. unfold quiet_op. rewrite Hr, Hdl. reflexivity. }
    destruct (IH (step st o) c cp np d (inv_step st o HI) (exists_step st o c HI Hex) Hp' Hqt Ha) as [now [Hin Hle]].
    exists now. split; [right; exact Hin|exact Hle].
Qed.

Lemma applied_in_app c a : forall st b, applied_in c st (a ++ b) = applied_in c st a || applied_in c (exec st a) b.
Proof.
  induction a as [|o t IH]; intros st b; [reflexivity|]. cbn [app applied_in exec fold_left]. rewrite IH, orb_assoc. reflexivity.
Qed.

(* ------------------------------------------------------------------ counting applications *)
Definition pend_n (st : state) (c : Z) : nat := if aget c (queued st) then 1%nat else 0%nat.
Definition app_one (c : Z) (st : state) (o : op) : nat :=
  match o with OBeginBlock now => if applied_now c now st then 1%nat else 0%nat | _ => 0%nat end.
(* o is a request on c that left a change queued *)
Definition req_one (c : Z) (st : state) (o : op) : nat :=
  if request_on c o && (match aget c (queued (step st o)) with Some _ => true | None => false end) then 1%nat else 0%nat.
Fixpoint app_count (c : Z) (st : state) (ops : list op) : nat :=
  match ops with [] => 0%nat | o :: t => (app_one c st o + app_count c (step st o) t)%nat end.
Fixpoint req_count (c : Z) (st : state) (ops : list op) : nat :=
  match ops with [] => 0%nat | o :: t => (req_one c st o + req_count c (step st o) t)%nat end.

Lemma count_step st o c : Inv st -> (app_one c st o + pend_n (step st o) c <= pend_n st c + req_one c st o)%nat.
Proof.
  intros HI. unfold pend_n, req_one. destruct (request_on c o) eqn:Er.
  - cbn [andb]. assert (Ha : app_one c st o = 0%nat) by (destruct o; try reflexivity; discriminate).
    rewrite Ha. destruct (aget c (queued (step st o))); destruct (aget c (queued st)); lia.
  - cbn [andb]. destruct (is_block o) eqn:Eb.
    + destruct o; try discriminate. cbn [app_one]. rewrite step_block.
      destruct (begin_block_spec st now HI) as [st' [Hb [_ [_ [_ [_ Hper]]]]]]. rewrite Hb. cbn [fst].
      specialize (Hper c). destruct (applied_now c now st).
      * destruct Hper as [_ [H2 [H3 _]]]. rewrite H3. destruct (aget c (queued st)); [lia|congruence].
      * destruct Hper as [_ [H2 _]]. rewrite H2. lia.
    + assert (Ha : app_one c st o = 0%nat) by (destruct o; try reflexivity; discriminate). rewrite Ha.
      destruct (frame st o c HI Er Eb) as [_ [[Hq _]|[_ [Hq _]]]]; rewrite Hq; destruct (aget c (queued st)); lia.
Qed.

Lemma count_exec ops : forall st c, Inv st ->
  (app_count c st ops + pend_n (exec st ops) c <= pend_n st c + req_count c st ops)%nat.
Proof.
  induction ops as [|o t IH]; intros st c HI; cbn [app_count req_count]; [cbn [exec fold_left]; lia|].
  change (exec st (o :: t)) with (exec (step st o) t).
  pose proof (count_step st o c HI). pose proof (IH (step st o) c (inv_step st o HI)). lia.
Qed.

(* ------------------------------------------------------------------ deleted consumers are frozen *)
Lemma step_deleted st o c :
  Inv st -> aget c (phases st) = Some Deleted ->
  aget c (phases (step st o)) = Some Deleted /\ aget c (cur (step st o)) = aget c (cur st) /\
  aget c (queued (step st o)) = None.
Proof.
  intros HI Hph.
  assert (Hq : aget c (queued st) = None).
  { destruct (aget c (queued st)) eqn:E; [|reflexivity].
    assert (Hne : aget c (queued st) <> None) by congruence. destruct (inv_qphase st HI c Hne); congruence. }
  assert (Hex : aget c (phases st) <> None) by congruence.
  split.
  { destruct (phases_step st o c HI) as [H|[[H _]|[[H _]|[[H _]|[H _]]]]]; congruence. }
  destruct (request_on c o) eqn:Er.
  - assert (Hna : is_active st c = false) by (unfold is_active, is_prelaunch, is_launched; rewrite Hph; reflexivity).
    assert (Hnl : is_launched st c = false) by (unfold is_launched; rewrite Hph; reflexivity).
    destruct o; cbn [request_on] in Er; try discriminate.
    + destruct r; [|discriminate]. apply Z.eqb_eq in Er. subst c0. unfold step. cbn [step_res]. unfold update.
      destruct (negb (valid_req (Some p))); [split; [reflexivity|exact Hq]|]. rewrite Hna. cbn [negb fst]. split; [reflexivity|exact Hq].
    + apply Z.eqb_eq in Er. subst c0. unfold step. cbn [step_res]. unfold queue_direct. rewrite Hnl. cbn [negb fst].
      split; [reflexivity|exact Hq].
  - destruct (is_block o) eqn:Eb.
    + destruct o; try discriminate. rewrite step_block.
      destruct (begin_block_spec st now HI) as [st' [Hb [_ [_ [_ [_ Hper]]]]]]. rewrite Hb. cbn [fst].
      specialize (Hper c). rewrite (not_queued_not_applied st c now HI Hq) in Hper.
      destruct Hper as [H1 [H2 _]]. split; congruence.
    + destruct (frame st o c HI Er Eb) as [Hcu [[Hqq _]|[_ [Hqq _]]]]; split; try (exact (Hcu Hex)); congruence.
Qed.

Lemma deleted_frozen ops : forall st c,
  Inv st -> aget c (phases st) = Some Deleted ->
  aget c (phases (exec st ops)) = Some Deleted /\ aget c (cur (exec st ops)) = aget c (cur st) /\
  aget c (queued (exec st ops)) = None /\ occ c (schedule (exec st ops)) = 0%nat.
Proof.
  induction ops as [|o t IH]; intros st c HI Hph.
  - cbn [exec fold_left]. assert (Hq : aget c (queued st) = None).
    { destruct (aget c (queued st)) eqn:E; [|reflexivity].
      assert (Hne : aget c (queued st) <> None) by congruence. destruct (inv_qphase st HI c Hne); congruence. }
    repeat split; try assumption. exact (queued_none_occ st c HI Hq).
  - change (exec st (o :: t)) with (exec (step st o) t).
    destruct (step_deleted st o c HI Hph) as [H1 [H2 _]].
    destruct (IH (step st o) c (inv_step st o HI) H1) as [H3 [H4 [H5 H6]]].
    repeat split; try assumption. congruence.
Qed.

(* ------------------------------------------------------------------ the clauses of C20 *)
Definition view_of (p : params) (kind : Z) : list Z :=
  if kind =? 0 then [h_frac (p_dt p); h_jail (p_dt p)] else [h_frac (p_ds p); h_jail (p_ds p); h_tomb (p_ds p)].

Lemma c20_consistency ops c :
  let st := exec init ops in
  occ c (schedule st) = (if aget c (queued st) then 1%nat else 0%nat) /\
  (aget c (queued st) <> None <-> exists d, due_of c (schedule st) = Some d) /\
  (aget c (queued st) <> None -> aget c (phases st) = Some Launched \/ aget c (phases st) = Some Stopped) /\
  (forall p q, aget c (cur st) = Some p -> aget c (queued st) = Some q -> params_eqb p q = false) /\
  ssorted (schedule st).
Proof.
  cbn zeta. pose proof (inv_reachable ops) as HI. split; [exact (inv_occ _ HI c)|]. split.
  - rewrite due_of_some_occ, (inv_occ _ HI c). destruct (aget c (queued (exec init ops))); split; try congruence; lia.
  - split; [exact (inv_qphase _ HI c)|]. split; [exact (inv_diff _ HI c)|exact (inv_sorted _ HI)].
Qed.

Lemma c20_create_immediate ops d r :
  let st := exec init ops in
  valid_req r = true ->
  snd (step_res st (OCreate d r)) = r_ok /\
  aget (next_id st) (cur (step st (OCreate d r))) = Some (match r with None => d | Some hv => merge d hv end) /\
  aget (next_id st) (queued (step st (OCreate d r))) = None /\
  aget (next_id st) (phases (step st (OCreate d r))) = Some Prelaunch.
Proof.
  cbn zeta. intros Hv. pose proof (inv_reachable ops) as HI. unfold step. cbn [step_res]. unfold create. rewrite Hv.
  cbn [negb fst snd cur queued phases]. rewrite !aget_aput_eq. repeat split. exact (proj2 (fresh_id _ HI)).
Qed.

Lemma c20_prelaunch_immediate ops c cp hv u :
  let st := exec init ops in
  aget c (phases st) = Some Prelaunch -> aget c (cur st) = Some cp -> valid_req (Some hv) = true ->
  snd (step_res st (OUpdate c true (Some hv) u)) = r_ok /\
  let st' := step st (OUpdate c true (Some hv) u) in
  aget c (cur st') = Some (merge cp hv) /\ aget c (queued st') = None /\
  schedule st' = schedule st /\ occ c (schedule st') = 0%nat.
Proof.
  cbn zeta. intros Hph Hcur Hv. pose proof (inv_reachable ops) as HI. set (st := exec init ops) in *.
  assert (Hq : aget c (queued st) = None).
  { destruct (aget c (queued st)) eqn:E; [|reflexivity].
    assert (Hne : aget c (queued st) <> None) by congruence. destruct (inv_qphase st HI c Hne); congruence. }
  assert (Hp : is_prelaunch st c = true) by (unfold is_prelaunch; rewrite Hph; reflexivity).
  unfold step. cbn [step_res]. unfold update. rewrite Hv. unfold is_active. rewrite Hp. cbn [negb orb].
  rewrite Hcur. cbn [fst snd cur queued schedule]. rewrite aget_aput_eq.
  repeat split; try assumption. exact (queued_none_occ st c HI Hq).
Qed.

Lemma c20_prelaunch_no_pending ops c :
  let st := exec init ops in aget c (phases st) = Some Prelaunch -> aget c (queued st) = None /\ occ c (schedule st) = 0%nat.
Proof.
  cbn zeta. intros Hph. pose proof (inv_reachable ops) as HI.
  assert (Hq : aget c (queued (exec init ops)) = None).
  { destruct (aget c (queued (exec init ops))) eqn:E; [|reflexivity].
    assert (Hne : aget c (queued (exec init ops)) <> None) by congruence. destruct (inv_qphase _ HI c Hne); congruence. }
  split; [exact Hq|exact (queued_none_occ _ c HI Hq)].
Qed.

(* the state right after a request that differs from the current values *)
Lemma request_pending st c cp np u o :
  Inv st -> aget c (phases st) = Some Launched -> aget c (cur st) = Some cp -> is_request st c np u o ->
  params_eqb cp np = false -> pending_at (step st o) c cp np (clock st + u).
Proof.
  intros HI Hph Hcur Hreq Hne. destruct (request_spec st c cp np u o HI Hph Hcur Hreq) as [_ [Hc [_ Hres]]].
  rewrite Hne in Hres. destruct Hres as [Hq Hd]. repeat split; assumption.
Qed.

Lemma c20_delay ops1 c cp np u o ops2 :
  let s1 := exec init ops1 in
  aget c (phases s1) = Some Launched -> aget c (cur s1) = Some cp ->
  is_request s1 c np u o -> params_eqb cp np = false -> quiet c ops2 = true ->
  let s3 := exec (step s1 o) ops2 in
  if applied_in c (step s1 o) ops2
  then aget c (cur s3) = Some np /\ aget c (queued s3) = None /\ occ c (schedule s3) = 0%nat
  else aget c (cur s3) = Some cp /\ aget c (queued s3) = Some np /\ due_of c (schedule s3) = Some (clock s1 + u).
Proof.
  cbn zeta. intros Hph Hcur Hreq Hne Hqu. pose proof (inv_reachable ops1) as HI. set (s1 := exec init ops1) in *.
  pose proof (request_pending s1 c cp np u o HI Hph Hcur Hreq Hne) as Hp.
  assert (Hex : aget c (phases (step s1 o)) <> None) by (apply exists_step; [exact HI|congruence]).
  pose proof (pending_run ops2 (step s1 o) c cp np (clock s1 + u) (inv_step s1 o HI) Hex Hp Hqu) as H.
  destruct (applied_in c (step s1 o) ops2).
  - destruct H as [[H1 H2] H3]. repeat split; assumption.
  - exact H.
Qed.

Lemma c20_delay_when ops1 c cp np u o ops2 :
  let s1 := exec init ops1 in
  aget c (phases s1) = Some Launched -> aget c (cur s1) = Some cp ->
  is_request s1 c np u o -> params_eqb cp np = false -> quiet c ops2 = true ->
  applied_in c (step s1 o) ops2 = true -> exists now, In (OBeginBlock now) ops2 /\ clock s1 + u <= now.
Proof.
  cbn zeta. intros Hph Hcur Hreq Hne Hqu Ha. pose proof (inv_reachable ops1) as HI. set (s1 := exec init ops1) in *.
  pose proof (request_pending s1 c cp np u o HI Hph Hcur Hreq Hne) as Hp.
  assert (Hex : aget c (phases (step s1 o)) <> None) by (apply exists_step; [exact HI|congruence]).
  exact (applied_in_due ops2 (step s1 o) c cp np (clock s1 + u) (inv_step s1 o HI) Hex Hp Hqu Ha).
Qed.

Lemma c20_not_before ops1 c cp np u o ops2 :
  let s1 := exec init ops1 in
  aget c (phases s1) = Some Launched -> aget c (cur s1) = Some cp ->
  is_request s1 c np u o -> params_eqb cp np = false -> quiet c ops2 = true ->
  (forall now, In (OBeginBlock now) ops2 -> now < clock s1 + u) ->
  let s3 := exec (step s1 o) ops2 in
  aget c (cur s3) = Some cp /\ aget c (queued s3) = Some np /\ due_of c (schedule s3) = Some (clock s1 + u).
Proof.
  cbn zeta. intros Hph Hcur Hreq Hne Hqu Hearly.
  pose proof (c20_delay ops1 c cp np u o ops2 Hph Hcur Hreq Hne Hqu) as H. cbn zeta in H.
  destruct (applied_in c (step (exec init ops1) o) ops2) eqn:Ea; [|exact H].
  destruct (c20_delay_when ops1 c cp np u o ops2 Hph Hcur Hreq Hne Hqu Ea) as [now [Hin Hle]].
  specialize (Hearly now Hin). lia.
Qed.

(* the first begin-block at or after the due time in which c is among the first [limit] due entries applies it *)
Lemma c20_in_force_from ops1 c cp np u o opsA now :
  let s1 := exec init ops1 in
  aget c (phases s1) = Some Launched -> aget c (cur s1) = Some cp ->
  is_request s1 c np u o -> params_eqb cp np = false -> quiet c opsA = true ->
  applied_in c (step s1 o) opsA = false ->
  let sA := exec (step s1 o) opsA in
  applied_now c now sA = true ->
  clock s1 + u <= now /\
  let sB := step sA (OBeginBlock now) in
  aget c (cur sB) = Some np /\ aget c (queued sB) = None /\ occ c (schedule sB) = 0%nat.
Proof.
  cbn zeta. intros Hph Hcur Hreq Hne Hqu HnA Hnow. pose proof (inv_reachable ops1) as HI. set (s1 := exec init ops1) in *.
  pose proof (request_pending s1 c cp np u o HI Hph Hcur Hreq Hne) as Hp.
  assert (Hex : aget c (phases (step s1 o)) <> None) by (apply exists_step; [exact HI|congruence]).
  pose proof (pending_run opsA (step s1 o) c cp np (clock s1 + u) (inv_step s1 o HI) Hex Hp Hqu) as H.
  rewrite HnA in H. split; [exact (applied_now_due _ c cp np _ now H Hnow)|].
  assert (HIA : Inv (exec (step s1 o) opsA)) by (apply inv_exec; apply inv_step; exact HI).
  rewrite step_block. destruct (begin_block_spec _ now HIA) as [st' [Hb [_ [_ [_ [_ Hper]]]]]]. rewrite Hb. cbn [fst].
  specialize (Hper c). rewrite Hnow in Hper. destruct H as [_ [Hq _]]. destruct Hper as [H1 [_ [H3 H4]]].
  repeat split; congruence.
Qed.

(* with at most [limit] entries due, being due is enough *)
Lemma c20_in_force_at_due ops1 c cp np u o opsA now :
  let s1 := exec init ops1 in
  aget c (phases s1) = Some Launched -> aget c (cur s1) = Some cp ->
  is_request s1 c np u o -> params_eqb cp np = false -> quiet c opsA = true ->
  applied_in c (step s1 o) opsA = false ->
  let sA := exec (step s1 o) opsA in
  clock s1 + u <= now -> (length (due_list now (schedule sA)) <= limit)%nat ->
  aget c (cur (step sA (OBeginBlock now))) = Some np.
Proof.
  cbn zeta. intros Hph Hcur Hreq Hne Hqu HnA Hle Hlen. pose proof (inv_reachable ops1) as HI. set (s1 := exec init ops1) in *.
  pose proof (request_pending s1 c cp np u o HI Hph Hcur Hreq Hne) as Hp.
  assert (Hex : aget c (phases (step s1 o)) <> None) by (apply exists_step; [exact HI|congruence]).
  pose proof (pending_run opsA (step s1 o) c cp np (clock s1 + u) (inv_step s1 o HI) Hex Hp Hqu) as H.
  rewrite HnA in H.
  assert (HIA : Inv (exec (step s1 o) opsA)) by (apply inv_exec; apply inv_step; exact HI).
  pose proof (applied_now_small _ c cp np _ now HIA H Hle Hlen) as Hnow.
  exact (proj1 (proj2 (c20_in_force_from ops1 c cp np u o opsA now Hph Hcur Hreq Hne Hqu HnA Hnow))).
Qed.

Lemma c20_replace ops c cp q0 np u o :
  let s := exec init ops in
  aget c (phases s) = Some Launched -> aget c (cur s) = Some cp -> aget c (queued s) = Some q0 ->
  is_request s c np u o -> params_eqb cp np = false ->
  snd (step_res s o) = r_ok /\
  aget c (cur (step s o)) = Some cp /\ aget c (queued (step s o)) = Some np /\
  due_of c (schedule (step s o)) = Some (clock s + u) /\ occ c (schedule (step s o)) = 1%nat.
Proof.
  cbn zeta. intros Hph Hcur _ Hreq Hne. pose proof (inv_reachable ops) as HI.
  destruct (request_spec _ c cp np u o HI Hph Hcur Hreq) as [Hok [Hc [_ Hres]]]. rewrite Hne in Hres.
  destruct Hres as [Hq Hd]. repeat split; try assumption.
  rewrite (inv_occ _ (inv_step _ o HI) c), Hq. reflexivity.
Qed.

Lemma c20_cancel_on_equal ops c cp np u o ops2 :
  let s := exec init ops in
  aget c (phases s) = Some Launched -> aget c (cur s) = Some cp ->
  is_request s c np u o -> params_eqb cp np = true -> quiet c ops2 = true ->
  snd (step_res s o) = r_ok /\
  aget c (queued (step s o)) = None /\ occ c (schedule (step s o)) = 0%nat /\ due_of c (schedule (step s o)) = None /\
  let s3 := exec (step s o) ops2 in
  aget c (cur s3) = Some cp /\ aget c (queued s3) = None /\ applied_in c (step s o) ops2 = false.
Proof.
  cbn zeta. intros Hph Hcur Hreq Heq Hqu. pose proof (inv_reachable ops) as HI. set (s := exec init ops) in *.
  destruct (request_spec s c cp np u o HI Hph Hcur Hreq) as [Hok [Hc [_ Hres]]]. rewrite Heq in Hres.
  destruct Hres as [Hq Ho]. split; [exact Hok|]. split; [exact Hq|]. split; [exact Ho|].
  split; [apply due_of_none_occ; exact Ho|].
  assert (Hex : aget c (phases (step s o)) <> None) by (apply exists_step; [exact HI|congruence]).
  destruct (settled_stable ops2 (step s o) c cp (inv_step s o HI) Hex (conj Hc Hq) Hqu) as [[H1 H2] H3].
  repeat split; assumption.
Qed.

Lemma c20_applied_once ops c :
  (app_count c init ops + pend_n (exec init ops) c <= req_count c init ops)%nat.
Proof. pose proof (count_exec ops init c inv_init) as H. exact H. Qed.

Lemma c20_discarded_on_delete ops c ops2 :
  let s := exec init ops in
  aget c (phases s) = Some Stopped ->
  snd (step_res s (ODelete c)) = r_ok /\
  let s' := step s (ODelete c) in
  aget c (queued s') = None /\ occ c (schedule s') = 0%nat /\
  let s'' := exec s' ops2 in
  aget c (phases s'') = Some Deleted /\ aget c (cur s'') = aget c (cur s) /\
  aget c (queued s'') = None /\ occ c (schedule s'') = 0%nat.
Proof.
  cbn zeta. intros Hph. pose proof (inv_reachable ops) as HI. set (s := exec init ops) in *.
  destruct (delete_spec s c HI Hph) as [st' [Hd [HI' [_ [Hc [Hp [_ [Hq [Ho _]]]]]]]]].
  unfold step. cbn [step_res]. rewrite Hd. cbn [fst snd]. split; [reflexivity|]. split; [exact Hq|]. split; [exact Ho|].
  destruct (deleted_frozen ops2 st' c HI' Hp) as [H1 [H2 [H3 H4]]]. repeat split; try assumption. congruence.
Qed.

Lemma c20_used ops c kind pre p :
  let st := exec init ops in
  aget c (cur st) = Some p ->
  slash_view st c kind = Some (view_of p kind) /\
  op_obs st (OSlash c kind true) = of_zs (1 :: view_of p kind) /\
  step st (OSlash c kind pre) = st.
Proof.
  cbn zeta. intros Hc. unfold op_obs, slash_view, view_of. rewrite Hc.
  destruct (kind =? 0); repeat split; reflexivity.
Qed.

(* which parameters an infraction handled after a request is punished with *)
Lemma c20_used_timeline ops1 c cp np u o ops2 kind :
  let s1 := exec init ops1 in
  aget c (phases s1) = Some Launched -> aget c (cur s1) = Some cp ->
  is_request s1 c np u o -> params_eqb cp np = false -> quiet c ops2 = true ->
  slash_view (exec (step s1 o) ops2) c kind =
    Some (view_of (if applied_in c (step s1 o) ops2 then np else cp) kind).
Proof.
  cbn zeta. intros Hph Hcur Hreq Hne Hqu.
  pose proof (c20_delay ops1 c cp np u o ops2 Hph Hcur Hreq Hne Hqu) as H. cbn zeta in H.
  destruct (applied_in c (step (exec init ops1) o) ops2); destruct H as [Hc _];
    unfold slash_view, view_of; rewrite Hc; destruct (kind =? 0); reflexivity.
Qed.

Lemma c20_beginblock_ok ops now : snd (step_res (exec init ops) (OBeginBlock now)) = r_ok.
Proof.
  cbn [step_res]. destruct (begin_block_spec _ now (inv_reachable ops)) as [st' [Hb _]]. rewrite Hb. reflexivity.
Qed.
