(* Lemmas and invariants about Model/Infraction.v (property C20). *)
From Coq Require Import ZArith List Bool Lia Arith.
From ICS Require Import Base.Tree Model.Infraction.
Import ListNotations.
Open Scope Z_scope.

(* ------------------------------------------------------------------ association maps *)
Lemma aget_adel_eq {A} (k : Z) (m : amap A) : aget k (adel k m) = None.
Proof.
  induction m as [|[k' v] r IH]; cbn [adel aget]; [reflexivity|].
  destruct (k' =? k) eqn:E; [exact IH|]. cbn [aget]. rewrite E. exact IH.
Qed.

Lemma aget_adel_neq {A} (k k' : Z) (m : amap A) : k' <> k -> aget k' (adel k m) = aget k' m.
Proof.
  intros Hne. induction m as [|[k0 v] r IH]; cbn [adel aget]; [reflexivity|].
  destruct (k0 =? k) eqn:E.
  - apply Z.eqb_eq in E. subst k0. destruct (k =? k') eqn:E2; [apply Z.eqb_eq in E2; congruence|exact IH].
  - cbn [aget]. destruct (k0 =? k'); [reflexivity|exact IH].
Qed.

Lemma aget_aput_eq {A} (k : Z) (v : A) (m : amap A) : aget k (aput k v m) = Some v.
Proof. unfold aput. cbn [aget]. rewrite Z.eqb_refl. reflexivity. Qed.

Lemma aget_aput_neq {A} (k k' : Z) (v : A) (m : amap A) : k' <> k -> aget k' (aput k v m) = aget k' m.
Proof.
  intros Hne. unfold aput. cbn [aget].
  destruct (k =? k') eqn:E; [apply Z.eqb_eq in E; congruence|]. apply aget_adel_neq. exact Hne.
Qed.

(* ------------------------------------------------------------------ membership and counting *)
Lemma mem_true_iff (c : Z) (l : list Z) : mem c l = true <-> In c l.
Proof.
  unfold mem. rewrite existsb_exists. split.
  - intros [x [Hin Hx]]. apply Z.eqb_eq in Hx. subst. exact Hin.
  - intros Hin. exists c. split; [exact Hin|apply Z.eqb_refl].
Qed.

Lemma mem_false_iff (c : Z) (l : list Z) : mem c l = false <-> ~ In c l.
Proof. rewrite <- mem_true_iff. destruct (mem c l); split; congruence. Qed.

Lemma mem_count (c : Z) (l : list Z) : mem c l = true <-> (0 < count_occ Z.eq_dec l c)%nat.
Proof. rewrite mem_true_iff. apply count_occ_In. Qed.

Lemma mem_false_count (c : Z) (l : list Z) : mem c l = false <-> count_occ Z.eq_dec l c = 0%nat.
Proof. rewrite mem_false_iff. apply count_occ_not_In. Qed.

Lemma mem_app (c : Z) (a b : list Z) : mem c (a ++ b) = mem c a || mem c b.
Proof. unfold mem. apply existsb_app. Qed.

Lemma occ_cons (c t : Z) (ids : list Z) (r : sched) :
  occ c ((t, ids) :: r) = (count_occ Z.eq_dec ids c + occ c r)%nat.
Proof. unfold occ. cbn [flat_map snd]. apply count_occ_app. Qed.

Lemma occ_nil (c : Z) : occ c [] = 0%nat.
Proof. reflexivity. Qed.

Lemma count_single (c x : Z) : count_occ Z.eq_dec [x] c = if Z.eq_dec x c then 1%nat else 0%nat.
Proof. cbn. destruct (Z.eq_dec x c); reflexivity. Qed.

Lemma count_remove1_same (c : Z) (l : list Z) :
  mem c l = true -> S (count_occ Z.eq_dec (remove1 c l) c) = count_occ Z.eq_dec l c.
Proof.
  induction l as [|x r IH]; cbn [remove1 mem existsb]; [discriminate|].
  intros H. fold (mem c r) in H. rewrite Z.eqb_sym in H.
  destruct (x =? c) eqn:E.
  - apply Z.eqb_eq in E. subst x. rewrite count_occ_cons_eq by reflexivity. reflexivity.
  - apply Z.eqb_neq in E. cbn [orb] in H. rewrite !count_occ_cons_neq by exact E. apply IH. exact H.
Qed.

Lemma count_remove1_other (c c' : Z) (l : list Z) :
  c' <> c -> count_occ Z.eq_dec (remove1 c l) c' = count_occ Z.eq_dec l c'.
Proof.
  intros Hne. induction l as [|x r IH]; cbn [remove1]; [reflexivity|].
  destruct (x =? c) eqn:E.
  - apply Z.eqb_eq in E. subst x. rewrite count_occ_cons_neq by congruence. reflexivity.
  - destruct (Z.eq_dec x c') as [->|Hx].
    + rewrite !count_occ_cons_eq by reflexivity. rewrite IH. reflexivity.
    + rewrite !count_occ_cons_neq by exact Hx. exact IH.
Qed.

Lemma mem_remove1_other (c c' : Z) (l : list Z) : c' <> c -> mem c' (remove1 c l) = mem c' l.
Proof.
  intros Hne. destruct (mem c' l) eqn:E.
  - apply mem_count. apply mem_count in E. rewrite count_remove1_other by exact Hne. exact E.
  - apply mem_false_count. apply mem_false_count in E. rewrite count_remove1_other by exact Hne. exact E.
Qed.

Lemma length_remove1 (c : Z) (l : list Z) : mem c l = true -> S (length (remove1 c l)) = length l.
Proof.
  induction l as [|x r IH]; cbn [remove1 mem existsb]; [discriminate|].
  intros H. fold (mem c r) in H. rewrite Z.eqb_sym in H.
  destruct (x =? c) eqn:E; [reflexivity|]. cbn [orb] in H. cbn [length]. rewrite IH by exact H. reflexivity.
Qed.

Lemma due_of_none_occ (c : Z) (s : sched) : due_of c s = None <-> occ c s = 0%nat.
Proof.
  induction s as [|[t ids] r IH]; cbn [due_of]; [rewrite occ_nil; tauto|].
  rewrite occ_cons. destruct (mem c ids) eqn:E.
  - apply mem_count in E. split; [discriminate|lia].
  - apply mem_false_count in E. rewrite E. cbn [Nat.add]. exact IH.
Qed.

Lemma due_of_some_occ (c : Z) (s : sched) : (exists t, due_of c s = Some t) <-> (0 < occ c s)%nat.
Proof.
  pose proof (due_of_none_occ c s) as H. destruct (due_of c s) as [t|].
  - split; [intros _|intros _; eauto]. destruct (occ c s); [|lia]. destruct H as [_ H]. specialize (H eq_refl). discriminate.
  - split; [intros [t Ht]; discriminate|]. intros Hlt. destruct H as [H _]. rewrite (H eq_refl) in Hlt. lia.
Qed.

(* ------------------------------------------------------------------ sorted schedules *)
Inductive ssorted : sched -> Prop :=
| ss_nil : ssorted []
| ss_cons t ids r : ids <> [] -> (forall e, In e r -> t < fst e) -> ssorted r -> ssorted ((t, ids) :: r).

Lemma ssorted_tail e r : ssorted (e :: r) -> ssorted r.
Proof. intros H. inversion H; assumption. Qed.

(* ------------------------------------------------------------------ sched_append *)
Lemma occ_append (c c' ts : Z) (s : sched) :
  occ c' (sched_append c ts s) = (occ c' s + if Z.eq_dec c c' then 1 else 0)%nat.
Proof.
  induction s as [|[t ids] r IH]; cbn [sched_append].
  - rewrite occ_cons, !occ_nil, count_single. lia.
  - destruct (t =? ts) eqn:E1.
    + rewrite !occ_cons, count_occ_app, count_single. lia.
    + destruct (ts <? t) eqn:E2.
      * rewrite (occ_cons c' ts), count_single. lia.
      * rewrite !occ_cons, IH. lia.
Qed.

Lemma in_append_fst (c ts : Z) (s : sched) e :
  In e (sched_append c ts s) -> fst e = ts \/ exists e', In e' s /\ fst e = fst e'.
Proof.
  induction s as [|[t ids] r IH]; cbn [sched_append]; intros H.
  - destruct H as [<-|[]]. left. reflexivity.
  - destruct (t =? ts) eqn:E1.
    + destruct H as [<-|H].
      * right. exists (t, ids). split; [left; reflexivity|reflexivity].
      * right. exists e. split; [right; exact H|reflexivity].
    + destruct (ts <? t) eqn:E2.
      * destruct H as [<-|H]; [left; reflexivity|]. right. exists e. split; [exact H|reflexivity].
      * destruct H as [<-|H].
        -- right. exists (t, ids). split; [left; reflexivity|reflexivity].
        -- destruct (IH H) as [Hl|[e' [Hin Hf]]]; [left; exact Hl|]. right. exists e'. split; [right; exact Hin|exact Hf].
Qed.

Lemma ssorted_append (c ts : Z) (s : sched) : ssorted s -> ssorted (sched_append c ts s).
Proof.
  induction s as [|[t ids] r IH]; cbn [sched_append]; intros Hs.
  - constructor; [discriminate|intros e []|constructor].
  - inversion Hs as [|t0 ids0 r0 Hne Hlb Hr]; subst.
    destruct (t =? ts) eqn:E1.
    + constructor; [destruct ids; discriminate|exact Hlb|exact Hr].
    + apply Z.eqb_neq in E1. destruct (ts <? t) eqn:E2.
      * apply Z.ltb_lt in E2. constructor; [discriminate| |exact Hs].
        intros e [<-|Hin]; [exact E2|]. specialize (Hlb e Hin). lia.
      * apply Z.ltb_ge in E2. constructor; [exact Hne| |exact (IH Hr)].
        intros e Hin. destruct (in_append_fst _ _ _ _ Hin) as [Hf|[e' [Hin' Hf]]].
        -- lia.
        -- rewrite Hf. exact (Hlb e' Hin').
Qed.

Lemma due_of_append_same (c ts : Z) (s : sched) :
  occ c s = 0%nat -> due_of c (sched_append c ts s) = Some ts.
Proof.
  induction s as [|[t ids] r IH]; cbn [sched_append]; intros Ho.
  - cbn [due_of mem existsb]. rewrite Z.eqb_refl. reflexivity.
  - rewrite occ_cons in Ho. assert (Hm : mem c ids = false) by (apply mem_false_count; lia).
    destruct (t =? ts) eqn:E1.
    + apply Z.eqb_eq in E1. subst t. cbn [due_of]. rewrite mem_app. cbn [mem existsb]. rewrite Z.eqb_refl, orb_true_r. reflexivity.
    + destruct (ts <? t) eqn:E2.
      * cbn [due_of mem existsb]. rewrite Z.eqb_refl. reflexivity.
      * cbn [due_of]. rewrite Hm. apply IH. lia.
Qed.

Lemma due_of_append_other (c c' ts : Z) (s : sched) :
  c' <> c -> due_of c' (sched_append c ts s) = due_of c' s.
Proof.
  intros Hne. assert (Hs : mem c' [c] = false).
  { cbn [mem existsb]. destruct (c' =? c) eqn:E; [apply Z.eqb_eq in E; congruence|reflexivity]. }
  induction s as [|[t ids] r IH]; cbn [sched_append].
  - cbn [due_of]. rewrite Hs. reflexivity.
  - destruct (t =? ts) eqn:E1.
    + cbn [due_of]. rewrite mem_app, Hs, orb_false_r. reflexivity.
    + destruct (ts <? t) eqn:E2.
      * cbn [due_of]. rewrite Hs. reflexivity.
      * cbn [due_of]. rewrite IH. reflexivity.
Qed.

(* ------------------------------------------------------------------ entry_remove / sched_take / sched_remove *)
Lemma entry_remove_spec (c t : Z) (ids : list Z) (r : sched) :
  mem c ids = true -> ids <> [] ->
  exists s', entry_remove c t ids r = Some s' /\
    S (occ c s') = occ c ((t, ids) :: r) /\
    (forall c', c' <> c -> occ c' s' = occ c' ((t, ids) :: r)) /\
    (forall c', c' <> c -> due_of c' s' = due_of c' ((t, ids) :: r)) /\
    (ssorted ((t, ids) :: r) -> ssorted s').
Proof.
  intros Hm Hne. unfold entry_remove. rewrite Hm.
  destruct (length ids =? 1)%nat eqn:El.
  - apply Nat.eqb_eq in El. destruct ids as [|x [|y l]]; try discriminate.
    assert (x = c) as ->.
    { cbn [mem existsb] in Hm. rewrite orb_false_r in Hm. apply Z.eqb_eq in Hm. congruence. }
    exists r. split; [reflexivity|]. repeat split.
    + rewrite occ_cons, count_single. destruct (Z.eq_dec c c); [reflexivity|congruence].
    + intros c' Hc. rewrite occ_cons, count_single. destruct (Z.eq_dec c c'); [congruence|reflexivity].
    + intros c' Hc. cbn [due_of mem existsb]. destruct (c' =? c) eqn:E; [apply Z.eqb_eq in E; congruence|reflexivity].
    + apply ssorted_tail.
  - apply Nat.eqb_neq in El. exists ((t, remove1 c ids) :: r). split; [reflexivity|]. repeat split.
    + rewrite !occ_cons. pose proof (count_remove1_same c ids Hm). lia.
    + intros c' Hc. rewrite !occ_cons, count_remove1_other by exact Hc. reflexivity.
    + intros c' Hc. cbn [due_of]. rewrite mem_remove1_other by exact Hc. reflexivity.
    + intros Hs. inversion Hs; subst. constructor; try assumption.
      pose proof (length_remove1 c ids Hm) as Hl. destruct (remove1 c ids); [|discriminate].
      cbn [length] in Hl. destruct ids as [|x [|y l]]; cbn [length] in *; congruence.
Qed.

Lemma sched_take_none (c : Z) (s : sched) : occ c s = 0%nat -> sched_take c s = None.
Proof.
  induction s as [|[t ids] r IH]; cbn [sched_take]; [reflexivity|]. rewrite occ_cons. intros Ho.
  assert (Hm : mem c ids = false) by (apply mem_false_count; lia). rewrite Hm, IH by lia. reflexivity.
Qed.

Lemma sched_take_spec (c : Z) (s : sched) :
  ssorted s -> (0 < occ c s)%nat ->
  exists ts s', sched_take c s = Some (ts, s') /\ due_of c s = Some ts /\
    S (occ c s') = occ c s /\
    (forall c', c' <> c -> occ c' s' = occ c' s) /\
    (forall c', c' <> c -> due_of c' s' = due_of c' s) /\
    ssorted s' /\ (forall e, In e s' -> exists e', In e' s /\ fst e = fst e').
Proof.
  induction s as [|[t ids] r IH]; intros Hs Ho; [rewrite occ_nil in Ho; lia|].
  inversion Hs as [|t0 ids0 r0 Hne Hlb Hr]; subst. cbn [sched_take due_of].
  destruct (mem c ids) eqn:Hm.
  - destruct (entry_remove_spec c t ids r Hm Hne) as [s' [He [H1 [H2 [H3 H4]]]]]. rewrite He.
    exists t, s'. repeat split; try assumption; [exact (H4 Hs)|].
    intros e Hin. unfold entry_remove in He. rewrite Hm in He.
    destruct (length ids =? 1)%nat; inversion He; subst.
    + exists e. split; [right; exact Hin|reflexivity].
    + destruct Hin as [<-|Hin].
      * exists (t, ids). split; [left; reflexivity|reflexivity].
      * exists e. split; [right; exact Hin|reflexivity].
  - rewrite occ_cons in Ho. assert (Hc0 : count_occ Z.eq_dec ids c = 0%nat) by (apply mem_false_count; exact Hm).
    destruct (IH Hr) as [ts [r' [Ht [Hd [H1 [H2 [H3 [H4 H5]]]]]]]]; [lia|]. rewrite Ht.
    exists ts, ((t, ids) :: r'). repeat split.
    + exact Hd.
    + rewrite !occ_cons. lia.
    + intros c' Hc. rewrite !occ_cons, H2 by exact Hc. reflexivity.
    + intros c' Hc. cbn [due_of]. rewrite H3 by exact Hc. reflexivity.
    + constructor; [exact Hne| |exact H4]. intros e Hin. destruct (H5 e Hin) as [e' [Hin' Hf]]. rewrite Hf. exact (Hlb e' Hin').
    + intros e [<-|Hin].
      * exists (t, ids). split; [left; reflexivity|reflexivity].
      * destruct (H5 e Hin) as [e' [Hin' Hf]]. exists e'. split; [right; exact Hin'|exact Hf].
Qed.

Lemma sched_remove_none (c ts : Z) (s : sched) : occ c s = 0%nat -> sched_remove c ts s = None.
Proof.
  induction s as [|[t ids] r IH]; cbn [sched_remove]; [reflexivity|]. rewrite occ_cons. intros Ho.
  destruct (t =? ts).
  - unfold entry_remove. assert (Hm : mem c ids = false) by (apply mem_false_count; lia). rewrite Hm. reflexivity.
  - rewrite IH by lia. reflexivity.
Qed.

(* RemoveConsumerInfractionQueuedData under the consistency invariant *)
Lemma remove_queued_data_spec (c : Z) (q : amap params) (s : sched) :
  ssorted s ->
  (forall x, occ x s = if aget x q then 1%nat else 0%nat) ->
  forall q' s', remove_queued_data c q s = (q', s') ->
    aget c q' = None /\ occ c s' = 0%nat /\ ssorted s' /\
    (forall x, x <> c -> aget x q' = aget x q) /\
    (forall x, x <> c -> occ x s' = occ x s) /\
    (forall x, x <> c -> due_of x s' = due_of x s).
Proof.
  intros Hs Ho q' s' H. unfold remove_queued_data in H. pose proof (Ho c) as Hoc.
  destruct (aget c q) as [p|] eqn:Eq.
  - destruct (sched_take_spec c s Hs) as [ts [s1 [Ht [_ [H1 [H2 [H3 [H4 _]]]]]]]]; [lia|].
    rewrite Ht in H. assert (Hz : occ c s1 = 0%nat) by lia.
    rewrite (sched_remove_none c ts s1 Hz) in H. inversion H; subst.
    repeat split; try assumption.
    + apply aget_adel_eq.
    + intros x Hx. apply aget_adel_neq. exact Hx.
  - inversion H; subst. repeat split; try assumption; try reflexivity.
Qed.

(* ------------------------------------------------------------------ consume *)
(* the ids that are due at [now], in processing order *)
Fixpoint due_list (now : Z) (s : sched) : list Z :=
  match s with
  | [] => []
  | (t, ids) :: r => if now <? t then [] else ids ++ due_list now r
  end.

Lemma consume_fst (now : Z) (s : sched) : forall n, fst (consume now n s) = firstn n (due_list now s).
Proof.
  induction s as [|[t ids] r IH]; intros n; cbn [consume due_list].
  - rewrite firstn_nil. reflexivity.
  - destruct (n =? 0)%nat eqn:En.
    + apply Nat.eqb_eq in En. subst n. reflexivity.
    + destruct (now <? t) eqn:Et; [rewrite firstn_nil; reflexivity|].
      destruct (length ids <=? n)%nat eqn:El.
      * apply Nat.leb_le in El. specialize (IH (n - length ids)%nat).
        destruct (consume now (n - length ids) r) as [res r'] eqn:Ec. cbn [fst] in *.
        rewrite firstn_app, IH, (firstn_all2 ids El). reflexivity.
      * apply Nat.leb_gt in El. cbn [fst]. rewrite firstn_app.
        replace (n - length ids)%nat with 0%nat by lia. rewrite firstn_O, app_nil_r. reflexivity.
Qed.

Lemma count_firstn_skipn (c : Z) (n : nat) (l : list Z) :
  count_occ Z.eq_dec l c = (count_occ Z.eq_dec (firstn n l) c + count_occ Z.eq_dec (skipn n l) c)%nat.
Proof. rewrite <- count_occ_app, firstn_skipn. reflexivity. Qed.

Lemma consume_occ (now : Z) (c : Z) (s : sched) : forall n,
  occ c s = (count_occ Z.eq_dec (fst (consume now n s)) c + occ c (snd (consume now n s)))%nat.
Proof.
  induction s as [|[t ids] r IH]; intros n; cbn [consume]; [reflexivity|].
  destruct (n =? 0)%nat; [reflexivity|]. destruct (now <? t); [reflexivity|].
  destruct (length ids <=? n)%nat.
  - specialize (IH (n - length ids)%nat). destruct (consume now (n - length ids) r) as [res r'].
    cbn [fst snd] in *. rewrite occ_cons, count_occ_app, IH. lia.
  - cbn [fst snd]. rewrite !occ_cons, (count_firstn_skipn c n ids). lia.
Qed.

Lemma consume_sorted (now : Z) (s : sched) : forall n,
  ssorted s -> ssorted (snd (consume now n s)) /\
               (forall e, In e (snd (consume now n s)) -> exists e', In e' s /\ fst e = fst e').
Proof.
  induction s as [|[t ids] r IH]; intros n Hs; cbn [consume].
  - split; [constructor|intros e []].
  - assert (Hid : ssorted ((t, ids) :: r) /\
                  (forall e, In e ((t, ids) :: r) -> exists e', In e' ((t, ids) :: r) /\ fst e = fst e')).
    { split; [exact Hs|]. intros e Hin. exists e. split; [exact Hin|reflexivity]. }
    destruct (n =? 0)%nat; [exact Hid|]. destruct (now <? t); [exact Hid|].
    inversion Hs as [|t0 ids0 r0 Hne Hlb Hr]; subst.
    destruct (length ids <=? n)%nat eqn:El.
    + destruct (IH (n - length ids)%nat Hr) as [H1 H2]. destruct (consume now (n - length ids) r) as [res r'].
      cbn [snd] in *. split; [exact H1|]. intros e Hin. destruct (H2 e Hin) as [e' [Hin' Hf]].
      exists e'. split; [right; exact Hin'|exact Hf].
    + apply Nat.leb_gt in El. cbn [snd]. split.
      * constructor; [|exact Hlb|exact Hr]. intros Hnil.
        pose proof (firstn_skipn n ids) as Hfs. rewrite Hnil, app_nil_r in Hfs.
        pose proof (firstn_le_length n ids) as Hle. rewrite Hfs in Hle. lia.
      * intros e [<-|Hin].
        -- exists (t, ids). split; [left; reflexivity|reflexivity].
        -- exists e. split; [right; exact Hin|reflexivity].
Qed.

Lemma consume_due_of (now : Z) (c : Z) (s : sched) : forall n,
  count_occ Z.eq_dec (fst (consume now n s)) c = 0%nat ->
  due_of c (snd (consume now n s)) = due_of c s.
Proof.
  induction s as [|[t ids] r IH]; intros n; cbn [consume]; [reflexivity|].
  destruct (n =? 0)%nat; [reflexivity|]. destruct (now <? t); [reflexivity|].
  destruct (length ids <=? n)%nat.
  - specialize (IH (n - length ids)%nat). destruct (consume now (n - length ids) r) as [res r'].
    cbn [fst snd] in *. rewrite count_occ_app. intros H0. cbn [due_of].
    assert (Hm : mem c ids = false) by (apply mem_false_count; lia). rewrite Hm. apply IH. lia.
  - cbn [fst snd]. intros H0. cbn [due_of].
    assert (Hmm : mem c ids = mem c (skipn n ids)).
    { rewrite <- (firstn_skipn n ids) at 1. rewrite mem_app.
      assert (Hf : mem c (firstn n ids) = false) by (apply mem_false_count; exact H0). rewrite Hf. reflexivity. }
    rewrite Hmm. reflexivity.
Qed.

Lemma due_list_in_occ (now c : Z) (s : sched) : In c (due_list now s) -> (0 < occ c s)%nat.
Proof.
  induction s as [|[t ids] r IH]; cbn [due_list]; [intros []|].
  rewrite occ_cons. destruct (now <? t); [intros []|]. intros H. apply in_app_or in H. destruct H as [H|H].
  - apply (count_occ_In Z.eq_dec) in H. lia.
  - specialize (IH H). lia.
Qed.

(* "c is due at now": scheduled under a timestamp <= now *)
Lemma due_list_due (now c : Z) (s : sched) :
  In c (due_list now s) -> exists t, due_of c s = Some t /\ t <= now.
Proof.
  induction s as [|[t ids] r IH]; cbn [due_list due_of]; [intros []|].
  destruct (now <? t) eqn:Et; [intros []|]. apply Z.ltb_ge in Et. intros H.
  destruct (mem c ids) eqn:Hm; [exists t; split; [reflexivity|exact Et]|].
  apply in_app_or in H. destruct H as [H|H]; [apply mem_true_iff in H; congruence|]. exact (IH H).
Qed.

Lemma due_due_list (now c t : Z) (s : sched) :
  ssorted s -> due_of c s = Some t -> t <= now -> In c (due_list now s).
Proof.
  induction s as [|[t0 ids] r IH]; cbn [due_list due_of]; [discriminate|]. intros Hs Hd Hle.
  inversion Hs as [|t1 ids1 r1 Hne Hlb Hr]; subst.
  destruct (mem c ids) eqn:Hm.
  - inversion Hd; subst. destruct (now <? t) eqn:Et; [apply Z.ltb_lt in Et; lia|].
    apply in_or_app. left. apply mem_true_iff. exact Hm.
  - assert (Hlt : t0 < t).
    { clear IH. induction r as [|[t2 ids2] r2 IHr]; cbn [due_of] in Hd; [discriminate|].
      destruct (mem c ids2).
      - inversion Hd; subst. exact (Hlb (t, ids2) (or_introl eq_refl)).
      - inversion Hr; subst. apply IHr; try assumption.
        + constructor; try assumption. intros e Hin. apply Hlb. right. exact Hin.
        + intros e Hin. apply Hlb. right. exact Hin. }
    destruct (now <? t0) eqn:Et; [apply Z.ltb_lt in Et; lia|].
    apply in_or_app. right. exact (IH Hr Hd Hle).
Qed.

(* ------------------------------------------------------------------ apply_ids *)
Lemma apply_ids_spec (ids : list Z) : forall cu q,
  NoDup ids -> (forall c, In c ids -> aget c q <> None) ->
  exists cu' q', apply_ids ids cu q = (true, cu', q') /\
    (forall c, aget c cu' = if mem c ids then aget c q else aget c cu) /\
    (forall c, aget c q' = if mem c ids then None else aget c q).
Proof.
  induction ids as [|c t IH]; intros cu q Hnd Hq; cbn [apply_ids].
  - exists cu, q. repeat split.
  - inversion Hnd as [|c0 t0 Hnin Hnd']; subst.
    destruct (aget c q) as [p|] eqn:Ec; [|exfalso; apply (Hq c); [left; reflexivity|exact Ec]].
    destruct (IH (aput c p cu) (adel c q) Hnd') as [cu' [q' [Ha [H1 H2]]]].
    { intros x Hx. rewrite aget_adel_neq; [apply Hq; right; exact Hx|]. intros ->. exact (Hnin Hx). }
    exists cu', q'. split; [exact Ha|]. split; intros x; cbn [mem existsb]; fold (mem x t).
    + rewrite H1. destruct (x =? c) eqn:E.
      * apply Z.eqb_eq in E. subst x. cbn [orb].
        assert (Hm : mem c t = false) by (apply mem_false_iff; exact Hnin). rewrite Hm.
        rewrite aget_aput_eq. symmetry. exact Ec.
      * apply Z.eqb_neq in E. cbn [orb]. destruct (mem x t).
        -- apply aget_adel_neq. exact E.
        -- apply aget_aput_neq. exact E.
    + rewrite H2. destruct (x =? c) eqn:E.
      * apply Z.eqb_eq in E. subst x. cbn [orb]. destruct (mem c t); [reflexivity|apply aget_adel_eq].
      * apply Z.eqb_neq in E. cbn [orb]. destruct (mem x t); [reflexivity|apply aget_adel_neq; exact E].
Qed.
