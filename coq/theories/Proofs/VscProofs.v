(* Invariants of the VSC state machine (Model/Vsc.v) used by property C01 (and by C12's round trip). *)
From Coq Require Import ZArith List Bool Lia Permutation Sorted.
From ICS Require Import Base.Tree Model.Vsc Proofs.VscMaps.
Import ListNotations.
Open Scope Z_scope.

(* well-formed oracle values: computed sets have positive powers; ErrClientNotActive can only be returned by
   the first SendPacket call of a loop (a client's status does not change inside one EndBlock) *)
Definition wf_res (r : sendres) : Prop := match r with SExpired n => n = 0%nat | _ => True end.
Definition wf_op (o : op) : Prop :=
  match o with
  | PEndBlock _ next r => pos_set next /\ wf_res r
  | _ => True
  end.

Definition pend_changes (s : state) : list upd := match c_pending s with Some l => l | None => [] end.
Definition dpk : packet := (0, []).

Record inv (s : state) : Prop := mk_inv {
  i_cc_sorted : msorted (c_ccvals s);
  i_engine : c_engine s = c_ccvals s;
  i_len : length (g_hist s) = S (length (g_prod s));
  i_stored : nth (length (g_prod s)) (g_hist s) [] = as_map (p_stored s);
  i_chain : forall j, (j < length (g_prod s))%nat ->
      apply_updates (pupd (nth j (g_prod s) dpk)) (nth j (g_hist s) []) = nth (S j) (g_hist s) [];
  i_flow : exists rest, g_prod s = g_deliv s ++ inflight s ++ rest /\ (p_launched s = true -> rest = p_pending s);
  i_cons : apply_updates (pend_changes s) (c_ccvals s) = nth (length (g_deliv s)) (g_hist s) [];
  i_ids : StronglySorted Z.lt (map pid (g_prod s));
  i_ids_hi : Forall (fun p => pid p < p_vscid s) (g_prod s);
  i_ids_lo : Forall (fun p => 1 <= pid p) (g_prod s);
  i_vid : 1 <= p_vscid s;
  i_noblock : c_inblock s = false -> c_pending s = None
}.

(* ---------- small list facts ---------- *)
Lemma ssorted_snoc (l : list Z) x : StronglySorted Z.lt l -> Forall (fun y => y < x) l -> StronglySorted Z.lt (l ++ [x]).
Proof.
  induction l as [|a t IH]; simpl; intros Hs Hall.
  - constructor; constructor.
  - inversion Hs as [|? ? Hst Ha]; subst. inversion Hall as [|? ? Hax Ht]; subst.
    constructor; [now apply IH|]. apply Forall_app. split; [assumption|]. constructor; [assumption|constructor].
Qed.

Lemma nth_snoc_last {A} (l : list A) x d : nth (length l) (l ++ [x]) d = x.
Proof. rewrite app_nth2 by lia. rewrite Nat.sub_diag. reflexivity. Qed.

Lemma nth_app_mid {A} (a b : list A) x d : nth (length a) (a ++ x :: b) d = x.
Proof. rewrite app_nth2 by lia. rewrite Nat.sub_diag. reflexivity. Qed.

(* ---------- the send loop ---------- *)
Lemma send_loop_split r i pend sent f :
  send_loop r i pend = (sent, f) -> exists tail, pend = sent ++ tail /\ (f = None -> tail = []).
Proof.
  revert i sent f. induction pend as [|p t IH]; simpl; intros i sent f H.
  - inversion H; subst. exists []. split; reflexivity.
  - destruct (fails_at r i) as [e|].
    + inversion H; subst. exists (p :: t). split; [reflexivity|discriminate].
    + destruct (send_loop r (S i) t) as [s' f'] eqn:E. inversion H; subst.
      destruct (IH _ _ _ E) as [tail [Ht Hn]]. exists tail. split; [simpl; now rewrite Ht at 1|assumption].
Qed.

Lemma send_loop_ok i pend : send_loop SOk i pend = (pend, None).
Proof. revert i. induction pend as [|p t IH]; intros i; simpl; [reflexivity|]. now rewrite IH. Qed.

Lemma send_loop_err_not_expired n i pend sent : send_loop (SErr n) i pend <> (sent, Some true).
Proof.
  revert i sent. induction pend as [|p t IH]; simpl; intros i sent H; [discriminate|].
  destruct (Nat.eqb n i); [discriminate|].
  destruct (send_loop (SErr n) (S i) t) as [s' f'] eqn:E. inversion H; subst. eapply IH; exact E.
Qed.

Lemma send_loop_expired r pend sent : wf_res r -> send_loop r 0 pend = (sent, Some true) -> sent = [].
Proof.
  destruct r as [|n|n]; simpl; intros Hw H.
  - rewrite send_loop_ok in H. discriminate.
  - subst n. destruct pend as [|p t]; simpl in H; inversion H; reflexivity.
  - exfalso. eapply send_loop_err_not_expired; exact H.
Qed.

(* ---------- preservation, function by function ---------- *)
Lemma inv_cis s : inv s -> inv (cis s).
Proof. intros [H1 H2 H3 H4 H5 H6 H7 H8 H9 H10 H11 H12]. constructor; simpl; assumption. Qed.

Lemma inv_next_pheight s : inv s -> inv (next_pheight s).
Proof. intros [H1 H2 H3 H4 H5 H6 H7 H8 H9 H10 H11 H12]. constructor; simpl; assumption. Qed.

Lemma inv_chan_open s : inv s -> inv (chan_open s).
Proof.
  intros H. unfold chan_open. destruct (p_chan s); [assumption|].
  destruct H as [H1 H2 H3 H4 H5 H6 H7 H8 H9 H10 H11 H12]. constructor; simpl; assumption.
Qed.

Lemma inv_stop s : inv s -> inv (stop s).
Proof.
  intros [H1 H2 H3 H4 H5 H6 H7 H8 H9 H10 H11 H12]. constructor; simpl; try assumption.
  destruct H6 as [rest [Hp _]]. exists rest. split; [assumption|discriminate].
Qed.

Lemma inv_c_begin_block s : inv s -> inv (c_begin_block s).
Proof.
  intros H. unfold c_begin_block. destruct (c_inblock s); [assumption|].
  destruct H as [H1 H2 H3 H4 H5 H6 H7 H8 H9 H10 H11 H12]. constructor; simpl; try assumption. discriminate.
Qed.

Lemma flow_len s : inv s -> (length (g_deliv s) <= length (g_prod s))%nat.
Proof. intros H. destruct (i_flow s H) as [rest [Hp _]]. rewrite Hp, app_length. lia. Qed.

Lemma inv_queue next s : pos_set next -> inv s -> inv (queue next s).
Proof.
  intros Hpos H. pose proof (flow_len s H) as Hfl.
  destruct H as [H1 H2 H3 H4 H5 H6 H7 H8 H9 H10 H11 H12].
  unfold queue. destruct (p_launched s) eqn:EL.
  - destruct (diff (p_stored s) next) as [|u us] eqn:ED.
    + constructor; simpl; try assumption.
      * rewrite H4. now apply diff_nil_same.
      * eapply Forall_impl; [|exact H9]. simpl. intros; lia.
      * lia.
    + set (pk := (p_vscid s, u :: us)).
      constructor; simpl; try assumption.
      * rewrite !app_length. simpl. lia.
      * rewrite app_length. simpl. replace (length (g_prod s) + 1)%nat with (length (g_hist s)) by lia.
        apply nth_snoc_last.
      * intros j Hj. rewrite app_length in Hj. simpl in Hj.
        destruct (Nat.eq_dec j (length (g_prod s))) as [->|Hne].
        -- rewrite nth_snoc_last. rewrite app_nth1 by lia. rewrite H4.
           replace (S (length (g_prod s))) with (length (g_hist s)) by lia. rewrite nth_snoc_last.
           unfold pk, pupd. cbn [snd]. rewrite <- ED. now apply diff_apply.
        -- rewrite !app_nth1 by lia. apply H5. lia.
      * destruct H6 as [rest [Hp Hl]]. exists (rest ++ [pk]). split.
        -- rewrite Hp. rewrite <- !app_assoc. reflexivity.
        -- intros _. now rewrite (Hl eq_refl).
      * rewrite app_nth1 by lia. assumption.
      * rewrite map_app. simpl. apply ssorted_snoc; [assumption|].
        rewrite Forall_map. exact H9.
      * apply Forall_app. split.
        -- eapply Forall_impl; [|exact H9]. simpl. intros; lia.
        -- constructor; [simpl; lia|constructor].
      * apply Forall_app. split; [assumption|]. constructor; [simpl; lia|constructor].
      * lia.
  - constructor; simpl; try assumption.
    + eapply Forall_impl; [|exact H9]. simpl. intros; lia.
    + lia.
Qed.

Lemma inv_send r s : wf_res r -> inv s -> inv (send r s).
Proof.
  intros Hw H. unfold send. destruct (p_launched s && p_chan s) eqn:EC; [|assumption].
  apply andb_true_iff in EC. destruct EC as [EL _].
  destruct (send_loop r 0 (p_pending s)) as [sent f] eqn:ES.
  destruct (send_loop_split _ _ _ _ _ ES) as [tail [Hpend Hnone]].
  destruct H as [H1 H2 H3 H4 H5 H6 H7 H8 H9 H10 H11 H12].
  constructor; simpl; try assumption.
  destruct H6 as [rest [Hp Hl]]. specialize (Hl EL). subst rest.
  destruct f as [[|]|].
  - (* expired client: nothing was handed to IBC, everything is kept *)
    pose proof (send_loop_expired _ _ _ Hw ES) as ->. rewrite app_nil_r.
    exists (p_pending s). split; [assumption|reflexivity].
  - (* other error: consumer stopped *)
    exists tail. split; [|discriminate]. rewrite Hp, Hpend. rewrite <- !app_assoc. reflexivity.
  - (* all sent, pending deleted *)
    rewrite (Hnone eq_refl) in Hpend. rewrite app_nil_r in Hpend.
    exists []. split; [|reflexivity]. rewrite Hp, <- Hpend, app_nil_r. reflexivity.
Qed.

Lemma inv_deliver s : inv s -> inv (deliver s).
Proof.
  intros H. unfold deliver. destruct (c_inblock s) eqn:EB; simpl; [|assumption].
  destruct (inflight s) as [|p fl] eqn:EF; [assumption|].
  pose proof H as [H1 H2 H3 H4 H5 H6 H7 H8 H9 H10 H11 H12].
  destruct H6 as [rest [Hp Hl]]. rewrite EF in Hp.
  assert (Hin : In p (g_prod s)). { rewrite Hp. apply in_or_app. right. now left. }
  assert (Hlo : 1 <= pid p). { rewrite Forall_forall in H10. now apply H10. }
  destruct (Z.eqb_spec (pid p) 0) as [E0|_]; [lia|].
  assert (Hj : (length (g_deliv s) < length (g_prod s))%nat).
  { rewrite Hp, !app_length. simpl. lia. }
  assert (Hnth : nth (length (g_deliv s)) (g_prod s) dpk = p).
  { rewrite Hp. apply nth_app_mid. }
  constructor; simpl; try assumption.
  - exists rest. split; [|assumption]. rewrite Hp. rewrite <- app_assoc. reflexivity.
  - unfold pend_changes. simpl. fold (pend_changes s).
    rewrite accumulate_apply by assumption. rewrite H7.
    rewrite app_length. simpl. rewrite Nat.add_1_r.
    specialize (H5 _ Hj). rewrite Hnth in H5. exact H5.
  - discriminate.
Qed.

Lemma inv_c_end_block s : inv s -> inv (c_end_block s).
Proof.
  intros H. unfold c_end_block. destruct (c_inblock s) eqn:EB; simpl; [|assumption].
  destruct H as [H1 H2 H3 H4 H5 H6 H7 H8 H9 H10 H11 H12].
  unfold pend_changes in H7.
  destruct (c_pending s) as [ch|] eqn:EP.
  - pose proof (apply_cc_fst ch _ H1) as Hf. pose proof (apply_cc_engine ch _ H1) as He.
    destruct (apply_cc ch (c_ccvals s)) as [cc ret]. simpl in Hf, He.
    constructor; simpl; try assumption.
    + rewrite Hf. now apply apply_sorted.
    + rewrite H2. exact He.
    + unfold pend_changes. simpl. rewrite Hf. exact H7.
    + reflexivity.
  - constructor; simpl; try assumption. reflexivity.
Qed.

Lemma inv_step s o : wf_op o -> inv s -> inv (step s o).
Proof.
  destruct o as [e next r| | | | | | h | id]; simpl; intros Hw H; try assumption.
  - destruct Hw as [Hpos Hres]. unfold p_end_block. apply inv_next_pheight.
    destruct e; [|now apply inv_cis]. apply inv_send; [assumption|]. apply inv_queue; [assumption|].
    now apply inv_cis.
  - now apply inv_chan_open.
  - now apply inv_deliver.
  - now apply inv_c_begin_block.
  - now apply inv_c_end_block.
  - now apply inv_stop.
Qed.

Lemma as_map_nil : as_map [] = [].
Proof. reflexivity. Qed.

Lemma init_ccvals ph vid m0 l0 ch : pos_set l0 ->
  c_ccvals (init_state ph vid m0 l0 ch) = as_map l0 /\ c_engine (init_state ph vid m0 l0 ch) = as_map l0.
Proof.
  intros Hpos. unfold init_state.
  pose proof (apply_cc_fst (diff [] l0) [] I) as Hf. pose proof (apply_cc_engine (diff [] l0) [] I) as He.
  destruct (apply_cc (diff [] l0) []) as [cc ret]. simpl in *.
  rewrite He, Hf. rewrite <- as_map_nil at 1 2. split; now apply diff_apply.
Qed.

Lemma inv_init ph vid m0 l0 ch : 1 <= vid -> pos_set l0 -> inv (init_state ph vid m0 l0 ch).
Proof.
  intros Hvid Hpos. destruct (init_ccvals ph vid m0 l0 ch Hpos) as [Hc He].
  constructor.
  - rewrite Hc. apply as_map_sorted.
  - now rewrite Hc, He.
  - unfold init_state. destruct (apply_cc (diff [] l0) []). reflexivity.
  - unfold init_state. destruct (apply_cc (diff [] l0) []). reflexivity.
  - unfold init_state. destruct (apply_cc (diff [] l0) []). simpl. intros j Hj. lia.
  - unfold init_state. destruct (apply_cc (diff [] l0) []). simpl. exists []. split; reflexivity.
  - rewrite Hc. unfold init_state. destruct (apply_cc (diff [] l0) []). reflexivity.
  - unfold init_state. destruct (apply_cc (diff [] l0) []). simpl. constructor.
  - unfold init_state. destruct (apply_cc (diff [] l0) []). simpl. constructor.
  - unfold init_state. destruct (apply_cc (diff [] l0) []). simpl. constructor.
  - unfold init_state. destruct (apply_cc (diff [] l0) []). simpl. assumption.
  - unfold init_state. destruct (apply_cc (diff [] l0) []). reflexivity.
Qed.

Lemma inv_run s ops : Forall wf_op ops -> inv s -> inv (run_ops s ops).
Proof.
  revert s. induction ops as [|o t IH]; intros s Hw H; [assumption|].
  inversion Hw; subst. simpl. apply IH; [assumption|]. now apply inv_step.
Qed.

Theorem inv_reach ph vid m0 l0 ch ops : 1 <= vid -> pos_set l0 -> Forall wf_op ops ->
  inv (run_ops (init_state ph vid m0 l0 ch) ops).
Proof. intros. apply inv_run; [assumption|]. now apply inv_init. Qed.

(* ---------- C01 statements ---------- *)

(* after a consumer EndBlock (more generally whenever no changes are pending) the stored set and the engine's
   set are the set carried by the last packet received, or the launch set *)
Theorem replication ph vid m0 l0 ch ops : 1 <= vid -> pos_set l0 -> Forall wf_op ops ->
  let s := run_ops (init_state ph vid m0 l0 ch) ops in
  c_engine s = c_ccvals s /\
  (c_pending s = None -> c_ccvals s = nth (g_recv s) (g_hist s) []) /\
  (c_inblock s = false -> c_pending s = None) /\
  c_pending (step s CEndBlock) = None.
Proof.
  intros Hv Hp Hw s. pose proof (inv_reach ph vid m0 l0 ch ops Hv Hp Hw) as H. fold s in H.
  split; [apply (i_engine s H)|]. split; [|split; [apply (i_noblock s H)|]].
  - intros Hn. pose proof (i_cons s H) as Hc. unfold pend_changes in Hc. rewrite Hn in Hc. exact Hc.
  - simpl. unfold c_end_block. destruct (c_inblock s) eqn:EB; simpl.
    + destruct (match c_pending s with Some ch0 => apply_cc ch0 (c_ccvals s) | None => (c_ccvals s, []) end). reflexivity.
    + now apply (i_noblock s H).
Qed.

(* what hist is: position 0 is the launch set, one more entry per produced packet, and the updates of packet j
   lead from entry j to entry j+1; the last entry is the provider's stored set *)
Theorem hist_meaning ph vid m0 l0 ch ops : 1 <= vid -> pos_set l0 -> Forall wf_op ops ->
  let s := run_ops (init_state ph vid m0 l0 ch) ops in
  length (g_hist s) = S (length (g_prod s)) /\
  nth (length (g_prod s)) (g_hist s) [] = as_map (p_stored s) /\
  forall j, (j < length (g_prod s))%nat ->
    apply_updates (pupd (nth j (g_prod s) dpk)) (nth j (g_hist s) []) = nth (S j) (g_hist s) [].
Proof.
  intros Hv Hp Hw s. pose proof (inv_reach ph vid m0 l0 ch ops Hv Hp Hw) as H. fold s in H.
  split; [apply (i_len s H)|]. split; [apply (i_stored s H)|apply (i_chain s H)].
Qed.

Lemma hist0_step s o : nth 0 (g_hist (step s o)) [] = nth 0 (g_hist s) [] \/ g_hist s = [].
Proof.
  destruct o as [e next r| | | | | | h | id]; simpl; try (now left).
  - unfold p_end_block. simpl. destruct e; [|now left].
    unfold send, queue. simpl.
    destruct (p_launched s) eqn:EL; simpl.
    + destruct (diff (p_stored s) next) eqn:ED; simpl.
      * destruct (p_chan s); simpl; [|now left]. destruct (send_loop r 0 (p_pending s)); simpl. now left.
      * destruct (g_hist s) eqn:EH; [now right|left].
        destruct (p_chan s); simpl; [|reflexivity].
        destruct (send_loop r 0 (p_pending s ++ [(p_vscid s, u :: l)])); reflexivity.
    + now left.
  - unfold chan_open. destruct (p_chan s); now left.
  - unfold deliver. destruct (c_inblock s); simpl; [|now left]. destruct (inflight s); [now left|].
    destruct (pid p =? 0); now left.
  - unfold c_begin_block. destruct (c_inblock s); now left.
  - unfold c_end_block. destruct (c_inblock s); simpl; [|now left].
    destruct (match c_pending s with Some ch0 => apply_cc ch0 (c_ccvals s) | None => (c_ccvals s, []) end). now left.
Qed.

Theorem hist_launch ph vid m0 l0 ch ops : 1 <= vid -> pos_set l0 -> Forall wf_op ops ->
  nth 0 (g_hist (run_ops (init_state ph vid m0 l0 ch) ops)) [] = as_map l0.
Proof.
  intros Hv Hp Hw.
  assert (H0 : nth 0 (g_hist (init_state ph vid m0 l0 ch)) [] = as_map l0).
  { unfold init_state. destruct (apply_cc (diff [] l0) []). reflexivity. }
  pose proof (inv_init ph vid m0 l0 ch Hv Hp) as Hi.
  revert H0 Hi Hw. generalize (init_state ph vid m0 l0 ch) as s.
  induction ops as [|o t IH]; intros s H0 Hi Hw; [assumption|].
  inversion Hw; subst. simpl. apply IH; [|now apply inv_step|assumption].
  destruct (hist0_step s o) as [E|E]; [congruence|].
  pose proof (i_len s Hi) as Hl. rewrite E in Hl. discriminate.
Qed.

(* order *)
Lemma deliv_send r s : g_deliv (send r s) = g_deliv s.
Proof.
  unfold send. destruct (p_launched s && p_chan s); [|reflexivity].
  destruct (send_loop r 0 (p_pending s)). reflexivity.
Qed.
Lemma deliv_queue next s : g_deliv (queue next s) = g_deliv s.
Proof. unfold queue. destruct (p_launched s); [destruct (diff (p_stored s) next)|]; reflexivity. Qed.

Lemma recv_mono_step s o : (g_recv s <= g_recv (step s o))%nat.
Proof.
  unfold g_recv. destruct o as [e next r| | | | | | h | id]; simpl; try lia.
  - unfold p_end_block. simpl. destruct e; simpl; [|lia]. rewrite deliv_send, deliv_queue. simpl. lia.
  - unfold chan_open. destruct (p_chan s); simpl; lia.
  - unfold deliver. destruct (c_inblock s); simpl; [|lia]. destruct (inflight s); [lia|].
    destruct (pid p =? 0); simpl; [lia|]. rewrite app_length. lia.
  - unfold c_begin_block. destruct (c_inblock s); simpl; lia.
  - unfold c_end_block. destruct (c_inblock s); simpl; [|lia].
    destruct (match c_pending s with Some ch0 => apply_cc ch0 (c_ccvals s) | None => (c_ccvals s, []) end). simpl. lia.
Qed.

Lemma firstn_app_exact {A} (a b : list A) : firstn (length a) (a ++ b) = a.
Proof. rewrite firstn_app, Nat.sub_diag, firstn_all. simpl. apply app_nil_r. Qed.

Theorem order ph vid m0 l0 ch ops : 1 <= vid -> pos_set l0 -> Forall wf_op ops ->
  let s := run_ops (init_state ph vid m0 l0 ch) ops in
  (forall o, (g_recv s <= g_recv (step s o))%nat) /\
  g_deliv s = firstn (g_recv s) (g_prod s) /\
  StronglySorted Z.lt (map pid (g_prod s)) /\
  incl (g_deliv s) (g_prod s).
Proof.
  intros Hv Hp Hw s. pose proof (inv_reach ph vid m0 l0 ch ops Hv Hp Hw) as H. fold s in H.
  destruct (i_flow s H) as [rest [Hpr _]].
  split; [intros o; apply recv_mono_step|]. split; [|split; [apply (i_ids s H)|]].
  - unfold g_recv. rewrite Hpr. symmetry. apply firstn_app_exact.
  - rewrite Hpr. intros x Hx. apply in_or_app. now left.
Qed.

(* no loss: every produced packet is in exactly one place *)
Theorem no_loss ph vid m0 l0 ch ops : 1 <= vid -> pos_set l0 -> Forall wf_op ops ->
  let s := run_ops (init_state ph vid m0 l0 ch) ops in
  exists rest, g_prod s = g_deliv s ++ inflight s ++ rest /\ (p_launched s = true -> rest = p_pending s).
Proof.
  intros Hv Hp Hw s. pose proof (inv_reach ph vid m0 l0 ch ops Hv Hp Hw) as H. exact (i_flow _ H).
Qed.

(* a failing send deletes nothing from the pending list *)
Theorem failed_send_keeps_pending s r sent e :
  p_launched s = true -> p_chan s = true -> send_loop r 0 (p_pending s) = (sent, Some e) ->
  p_pending (send r s) = p_pending s /\ inflight (send r s) = inflight s ++ sent /\
  exists tail, p_pending s = sent ++ tail.
Proof.
  intros EL EC ES. unfold send. rewrite EL, EC. simpl. rewrite ES. simpl.
  split; [reflexivity|]. split; [reflexivity|].
  destruct (send_loop_split _ _ _ _ _ ES) as [tail [Hp _]]. now exists tail.
Qed.

(* the refuted variant: if ErrClientNotActive could be returned by a later call of the loop, packets already
   handed to IBC stay pending and are sent again *)
Definition midloop_ops : list op :=
  [PEndBlock true [(1, 11)] SOk; PEndBlock true [(1, 12)] SOk; ChanOpen;
   PEndBlock true [(1, 12)] (SExpired 1); PEndBlock true [(1, 12)] SOk;
   CBeginBlock; Deliver; Deliver; Deliver; CEndBlock].

Lemma midloop_delivered :
  let s := run_ops (init_state 5 1 [] [(1, 10)] 1) midloop_ops in
  map pid (g_deliv s) = [1; 1; 2] /\ map pid (g_prod s) = [1; 2].
Proof. vm_compute. split; reflexivity. Qed.

Definition wf_op_sets (o : op) : Prop := match o with PEndBlock _ next _ => pos_set next | _ => True end.

(* the order clause WITHOUT the hypothesis on where ErrClientNotActive may occur *)
Definition order_any_send_failure : Prop :=
  forall ph vid m0 l0 ch ops, 1 <= vid -> pos_set l0 -> Forall wf_op_sets ops ->
  let s := run_ops (init_state ph vid m0 l0 ch) ops in g_deliv s = firstn (g_recv s) (g_prod s).

Theorem order_any_send_failure_refuted : ~ order_any_send_failure.
Proof.
  intros H. specialize (H 5 1 [] [(1, 10)] 1 midloop_ops).
  assert (P : forall k p, pos_set [(k, p)] <-> 1 <= p).
  { intros k p. unfold pos_set. split; intros Hx; [inversion Hx; assumption|constructor; [assumption|constructor]]. }
  assert (H1 : 1 <= 1) by lia.
  assert (H2 : pos_set [(1, 10)]) by (apply P; lia).
  assert (H3 : Forall wf_op_sets midloop_ops).
  { unfold midloop_ops. repeat constructor; simpl; lia. }
  specialize (H H1 H2 H3). vm_compute in H. discriminate.
Qed.

(* none is invented: every entry of hist is the launch set or a set computed in an epoch block *)
Lemma hist_send r s : g_hist (send r s) = g_hist s.
Proof.
  unfold send. destruct (p_launched s && p_chan s); [|reflexivity].
  destruct (send_loop r 0 (p_pending s)). reflexivity.
Qed.

Lemma hist_step s o :
  g_hist (step s o) = g_hist s \/
  exists next r, o = PEndBlock true next r /\ g_hist (step s o) = g_hist s ++ [as_map next].
Proof.
  destruct o as [e next r| | | | | | h | id]; simpl; try (now left).
  - unfold p_end_block. simpl. destruct e; [|now left]. rewrite hist_send.
    unfold queue. simpl. destruct (p_launched s); [|now left].
    destruct (diff (p_stored s) next); [now left|]. right. exists next, r. split; reflexivity.
  - unfold chan_open. destruct (p_chan s); now left.
  - unfold deliver. destruct (c_inblock s); simpl; [|now left]. destruct (inflight s); [now left|].
    destruct (pid p =? 0); now left.
  - unfold c_begin_block. destruct (c_inblock s); now left.
  - unfold c_end_block. destruct (c_inblock s); simpl; [|now left].
    destruct (match c_pending s with Some ch0 => apply_cc ch0 (c_ccvals s) | None => (c_ccvals s, []) end). now left.
Qed.

Lemma hist_forall (Q : kmap -> Prop) ops s :
  Forall Q (g_hist s) -> (forall next r, In (PEndBlock true next r) ops -> Q (as_map next)) ->
  Forall Q (g_hist (run_ops s ops)).
Proof.
  revert s. induction ops as [|o t IH]; intros s Hs Hq; [assumption|].
  simpl. apply IH.
  - destruct (hist_step s o) as [E|[next [r [Eo E]]]]; rewrite E; [assumption|].
    apply Forall_app. split; [assumption|]. constructor; [|constructor]. apply (Hq next r). left. now symmetry.
  - intros next r Hin. apply (Hq next r). now right.
Qed.

Theorem hist_sources ph vid m0 l0 ch ops :
  Forall (fun m => m = as_map l0 \/ exists next r, In (PEndBlock true next r) ops /\ m = as_map next)
         (g_hist (run_ops (init_state ph vid m0 l0 ch) ops)).
Proof.
  apply hist_forall.
  - unfold init_state. destruct (apply_cc (diff [] l0) []). simpl. constructor; [now left|constructor].
  - intros next r Hin. right. exists next, r. split; [assumption|reflexivity].
Qed.
