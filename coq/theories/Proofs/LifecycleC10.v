(* Lemmas behind the theorems of Props/C10.v. *)
From Coq Require Import ZArith List Bool Lia Permutation.
From ICS Require Import Base.Tree Model.Lifecycle Proofs.LifecycleBase Proofs.LifecycleInv Proofs.LifecycleSteps.
Import ListNotations.
Open Scope Z_scope.

Lemma reach_inv : forall U ops, inv (reach U ops).
Proof. intros. apply inv_reach. Qed.

Lemma reach_app : forall U ops ops', reach U (ops ++ ops') = fold_left (step U) ops' (reach U ops).
Proof. intros. unfold reach. apply fold_left_app. Qed.

Lemma reach_snoc : forall U ops o, reach U (ops ++ [o]) = step U (reach U ops) o.
Proof. intros. rewrite reach_app. reflexivity. Qed.

(* ------------------------------------------------------------------ ids *)

Lemma c10_ids : forall U ops, let s := reach U ops in
  0 <= s_next s /\ map c_id (s_cons s) = zseq 0 (Z.to_nat (s_next s)).
Proof.
  intros U ops s. assert (Hi := reach_inv U ops). fold s in Hi.
  rewrite (io_next _ _ Hi). split; [lia|]. rewrite Nat2Z.id. exact (io_ids _ _ Hi).
Qed.

Lemma c10_ids_step : forall U ops o, let s := reach U ops in
  s_next (step U s o) = s_next s + (if creates U s o then 1 else 0) /\
  (creates U s o = true ->
     get s (s_next s) = None /\ exists r, get (step U s o) (s_next s) = Some r /\ c_id r = s_next s) /\
  (forall c r, get s c = Some r -> exists r', get (step U s o) c = Some r' /\ c_id r' = c).
Proof.
  intros U ops o s. assert (Hi := reach_inv U ops). fold s in Hi.
  split; [apply step_next; exact Hi|]. split.
  - intros Hc. assert (Hn := get_next_none [] s Hi). split; [exact Hn|].
    destruct (step_new U s o (s_next s) Hi Hn) as [H|(_ & _ & r & G & _)].
    + exfalso. assert (Hi' := inv_step U s o Hi).
      assert (0 <= s_next s < s_next (step U s o)) as Hr.
      { rewrite (step_next U s o Hi), Hc. rewrite (io_next _ _ Hi). lia. }
      apply (get_some_iff [] _ _ Hi') in Hr. destruct Hr as [x Hx]. congruence.
    + exists r. split; [exact G | exact (get_id _ _ _ G)].
  - intros c r Hg. destruct (step_trans U s o c r Hi Hg) as (r' & G & I & _). eauto.
Qed.

(* ------------------------------------------------------------------ phase edges *)

Lemma trans_edge : forall U s o r r', c_phase r <= 5 -> trans U s o r r' -> edge_ok (c_phase r) (c_phase r') = true.
Proof.
  intros U s o r r' H5 T.
  assert (Hrefl : forall a, edge_ok a a = true) by (intros a; unfold edge_ok; rewrite Z.eqb_refl; reflexivity).
  destruct T as [-> | _ _ _ Q | _ _ P _ _ _ | _ [l ->] | _ _ -> | now ora _ P -> | now ora _ P -> | _ P -> | _ P (_ & _ & Q)].
  - apply Hrefl.
  - destruct Q as [[Q1 Q2]|[Q1 Q2]].
    + assert (c_phase r = 1 \/ c_phase r = 2) as [A|A] by lia;
      assert (c_phase r' = 1 \/ c_phase r' = 2) as [B|B] by lia; rewrite A, B; reflexivity.
    + rewrite Q1, Q2. reflexivity.
  - rewrite P. apply Hrefl.
  - apply Hrefl.
  - apply Hrefl.
  - rewrite P. unfold attempt. destruct (lora_good _); reflexivity.
  - rewrite P. reflexivity.
  - simpl. assert (c_phase r = 3 \/ c_phase r = 4) as [A|A] by lia; rewrite A; reflexivity.
  - rewrite P. destruct Q as [[Q _]|[Q _]]; rewrite Q; reflexivity.
Qed.

Lemma c10_phase_edges : forall U ops o c,
  edge_ok (phase_of (reach U ops) c) (phase_of (step U (reach U ops) o) c) = true.
Proof.
  intros U ops o c. set (s := reach U ops). assert (Hi := reach_inv U ops). fold s in Hi.
  destruct (get s c) as [r|] eqn:Hg.
  - destruct (step_trans U s o c r Hi Hg) as (r' & G & _ & T).
    rewrite (phase_of_get _ _ _ Hg), (phase_of_get _ _ _ G).
    eapply trans_edge; [|exact T].
    assert (Hc := io_cons _ _ Hi c r (fun H => H) Hg). cinv_destruct Hc. lia.
  - unfold phase_of at 1. rewrite Hg.
    destruct (step_new U s o c Hi Hg) as [H|(_ & _ & r & G & P & _)].
    + unfold phase_of. rewrite H. reflexivity.
    + rewrite (phase_of_get _ _ _ G). assert (c_phase r = 1 \/ c_phase r = 2) as [A|A] by lia; rewrite A; reflexivity.
Qed.

Lemma edge_mono : forall a b, edge_ok a b = true -> 3 <= a -> a <= b.
Proof.
  intros a b H Ha. unfold edge_ok in H. rewrite !orb_true_iff, !andb_true_iff, !orb_true_iff, !Z.eqb_eq in H. lia.
Qed.

Lemma c10_no_return : forall U ops ops' c,
  3 <= phase_of (reach U ops) c -> phase_of (reach U ops) c <= phase_of (reach U (ops ++ ops')) c.
Proof.
  intros U ops ops' c. revert ops. induction ops' as [|o ops' IH]; intros ops H.
  - rewrite app_nil_r. lia.
  - replace (ops ++ o :: ops') with ((ops ++ [o]) ++ ops') by (rewrite <- app_assoc; reflexivity).
    assert (Hstep : phase_of (reach U ops) c <= phase_of (reach U (ops ++ [o])) c).
    { rewrite reach_snoc. apply edge_mono; [apply c10_phase_edges | exact H]. }
    specialize (IH (ops ++ [o])). lia.
Qed.

Lemma phase_le5 : forall U ops c, phase_of (reach U ops) c <= 5.
Proof.
  intros U ops c. unfold phase_of. destruct (get (reach U ops) c) as [r|] eqn:Hg; [|lia].
  assert (Hc := io_cons _ _ (reach_inv U ops) c r (fun H => H) Hg). cinv_destruct Hc. lia.
Qed.

Lemma c10_deleted_forever : forall U ops ops' c,
  phase_of (reach U ops) c = 5 -> phase_of (reach U (ops ++ ops')) c = 5.
Proof.
  intros U ops ops' c H. assert (H1 := c10_no_return U ops ops' c). assert (H2 := phase_le5 U (ops ++ ops') c). lia.
Qed.

(* ------------------------------------------------------------------ queue consistency *)

Lemma c10_queue_consistent : forall U ops, let s := reach U ops in let q := s_spawnq s in
  NoDup (all_ids q) /\
  (forall c, In c (all_ids q) -> exists r, get s c = Some r) /\
  (forall c r, get s c = Some r ->
     (c_phase r = 2 <-> In c (all_ids q)) /\
     occ c (all_ids q) = (if c_phase r =? 2 then 1%nat else 0%nat) /\
     (c_phase r = 2 -> d_spawn (c_desc r) <> 0 /\ In c (tq_get q (d_spawn (c_desc r)))) /\
     (forall ts, In c (tq_get q ts) -> ts = d_spawn (c_desc r)) /\
     (c_phase r = 1 -> d_spawn (c_desc r) = 0)).
Proof.
  intros U ops s q. assert (Hi := reach_inv U ops). fold s in Hi.
  assert (Hnd := io_sq_nodup _ _ Hi). fold q in Hnd.
  assert (Hs := io_sq_sorted _ _ Hi). fold q in Hs.
  split; [exact Hnd|]. split.
  - intros c Hin. destruct (in_all_tq_get _ _ Hs Hin) as [ts Hts].
    destruct (io_sq_sound _ _ Hi ts c (fun H => H) Hts) as (r & Hg & _). eauto.
  - intros c r Hg. assert (Hc := io_cons _ _ Hi c r (fun H => H) Hg). cinv_destruct Hc.
    assert (Hid := get_id _ _ _ Hg).
    assert (Hiff : c_phase r = 2 <-> In c (all_ids q)).
    { split.
      - intros Hp. destruct (A4 Hp) as [_ B]. rewrite Hid in B. eapply tq_get_in_all. exact B.
      - intros Hin. destruct (in_all_tq_get _ _ Hs Hin) as [ts Hts].
        destruct (io_sq_sound _ _ Hi ts c (fun H => H) Hts) as (r' & Hg' & Hp & _). congruence. }
    split; [exact Hiff|]. split; [|split; [|split]].
    + destruct (c_phase r =? 2) eqn:E.
      * apply Z.eqb_eq in E. apply occ_nodup; [exact Hnd | apply Hiff; exact E].
      * apply Z.eqb_neq in E. apply occ_notin. intros Hin. apply E. apply Hiff. exact Hin.
    + intros Hp. destruct (A4 Hp) as [B1 B2]. rewrite Hid in B2. auto.
    + intros ts Hts. destruct (io_sq_sound _ _ Hi ts c (fun H => H) Hts) as (r' & Hg' & _ & Hsp). congruence.
    + exact A3.
Qed.

(* ------------------------------------------------------------------ launch schedule *)

Lemma c10_rev_invariant : forall U ops c r, get (reach U ops) c = Some r -> d_rev (c_desc r) = d_hrev (c_desc r).
Proof.
  intros U ops c r Hg. assert (Hc := io_cons _ _ (reach_inv U ops) c r (fun H => H) Hg). cinv_destruct Hc. exact A2.
Qed.

Lemma c10_begin_total : forall U ops now ora, result U (reach U ops) (OBegin now ora) = 0.
Proof. intros. unfold result. simpl exec. exact (proj2 (inv_begin _ now ora (reach_inv U ops))). Qed.

Lemma begin_spawnq : forall s now ora, inv s ->
  s_spawnq (fst (do_begin s now ora)) = snd (consume (s_spawnq s) now limit) /\
  s_remq (fst (do_begin s now ora)) = snd (consume (s_remq s) now limit).
Proof.
  intros s now ora Hi.
  destruct (begin_shape s now ora Hi) as (s1 & Hl & Hinv & Hr & Hq & Hn & Heq). rewrite Heq. simpl fst.
  destruct (remove_loop_spec (fst (consume (s_remq s) now limit)) (set_remq (snd (consume (s_remq s) now limit)) s1))
    as (_ & _ & _ & _ & Q & R). rewrite Q, R. simpl. split; [exact Hq | reflexivity].
Qed.

Lemma consume_rest : forall q now n, tq_sorted q ->
  all_ids (snd (consume q now n)) = skipn (length (firstn n (due q now))) (all_ids q).
Proof.
  intros q now n Hs. destruct (consume q now n) as [ids q'] eqn:Ec.
  assert (Hf := consume_firstn q now n Hs). rewrite Ec in Hf. simpl in Hf. subst ids.
  rewrite (consume_split _ _ _ _ _ Ec). simpl snd.
  rewrite skipn_app. rewrite skipn_all. rewrite Nat.sub_diag. reflexivity.
Qed.

Lemma attempt_outcome : forall r o, prelaunch_proto (c_proto r) ->
  (lora_good o = true ->
     c_phase (attempt r o) = 3 /\ p_genesis (c_proto (attempt r o)) = true /\ p_client (c_proto (attempt r o)) = true /\
     p_evmin (c_proto (attempt r o)) = true /\ p_valset (c_proto (attempt r o)) = lo_size o) /\
  (lora_good o = false ->
     c_phase (attempt r o) = 1 /\ d_spawn (c_desc (attempt r o)) = 0 /\ no_artefact (c_proto (attempt r o)) = true /\
     c_proto (attempt r o) = c_proto r).
Proof.
  intros r o (P1 & P2 & P3 & P4 & P5 & P6 & P7). unfold attempt. split; intros H; rewrite H; simpl.
  - repeat split.
  - repeat split. unfold no_artefact. rewrite P1, P2, P3, P5. reflexivity.
Qed.

Lemma c10_launch_when_due : forall U ops now ora,
  let s := reach U ops in let s' := step U s (OBegin now ora) in let att := attempted s now in
  all_ids (s_spawnq s') = skipn (length att) (all_ids (s_spawnq s)) /\
  (forall c, In c att -> exists r, get s c = Some r /\ c_phase r = 2 /\
     let r' := attempt r (lookup no_lora ora c) in
     get s' c = Some r' /\
     (lora_good (lookup no_lora ora c) = true ->
        c_phase r' = 3 /\ p_genesis (c_proto r') = true /\ p_client (c_proto r') = true /\
        p_evmin (c_proto r') = true /\ p_valset (c_proto r') = lo_size (lookup no_lora ora c)) /\
     (lora_good (lookup no_lora ora c) = false ->
        c_phase r' = 1 /\ d_spawn (c_desc r') = 0 /\ no_artefact (c_proto r') = true /\ c_proto r' = c_proto r)) /\
  (forall c r, ~ In c att -> get s c = Some r -> c_phase r = 2 -> get s' c = Some r /\ In c (all_ids (s_spawnq s'))).
Proof.
  intros U ops now ora s s' att. assert (Hi := reach_inv U ops). fold s in Hi.
  assert (Hs := io_sq_sorted _ _ Hi).
  assert (Hq : s_spawnq s' = snd (consume (s_spawnq s) now limit)) by (exact (proj1 (begin_spawnq s now ora Hi))).
  assert (Hall : all_ids (s_spawnq s') = skipn (length att) (all_ids (s_spawnq s))).
  { rewrite Hq. apply consume_rest. exact Hs. }
  split; [exact Hall|]. split.
  - intros c Hc. destruct (attempted_facts s now c Hi Hc) as (r & Hg & Hp & _).
    exists r. split; [exact Hg|]. split; [exact Hp|]. cbv zeta.
    split.
    + unfold s', step. simpl exec. rewrite (begin_get s now ora c r Hi Hg).
      assert (mem c (attempted s now) = true) as -> by (apply mem_in; exact Hc). reflexivity.
    + apply attempt_outcome. assert (Hcv := io_cons _ _ Hi c r (fun H => H) Hg). cinv_destruct Hcv. apply A5. lia.
  - intros c r Hc Hg Hp. split.
    + unfold s', step. simpl exec. rewrite (begin_get s now ora c r Hi Hg).
      assert (mem c (attempted s now) = false) as ->.
      { destruct (mem c (attempted s now)) eqn:E; [|reflexivity]. apply mem_in in E. contradiction. }
      assert (c_phase r =? 4 = false) as -> by (apply Z.eqb_neq; lia). rewrite andb_false_r. reflexivity.
    + assert (Hin : In c (all_ids (s_spawnq s))).
      { assert (Hcv := io_cons _ _ Hi c r (fun H => H) Hg). cinv_destruct Hcv. destruct (A4 Hp) as [_ B].
        rewrite (get_id _ _ _ Hg) in B. eapply tq_get_in_all. exact B. }
      rewrite Hq. destruct (consume (s_spawnq s) now limit) as [ids q'] eqn:Ec. simpl snd.
      rewrite (consume_split _ _ _ _ _ Ec) in Hin. apply in_app_or in Hin. destruct Hin as [Hin|Hin]; [|exact Hin].
      exfalso. apply Hc. unfold att, attempted. rewrite <- (consume_firstn _ now limit Hs). rewrite Ec. exact Hin.
Qed.

(* ------------------------------------------------------------------ all due consumers are processed *)

Definition begins (bl : list (Z * list (Z * lora))) : list op := map (fun b => OBegin (fst b) (snd b)) bl.

Lemma begins_inv_due : forall U (sel : state -> tq),
  (forall s now ora, inv s -> sel (step U s (OBegin now ora)) = snd (consume (sel s) now limit)) ->
  (forall s, inv s -> tq_sorted (sel s)) ->
  forall T bl s, inv s -> Forall (fun b => T <= fst b) bl ->
  length (due (sel (fold_left (step U) (begins bl) s)) T) = (length (due (sel s) T) - limit * length bl)%nat.
Proof.
  intros U sel Hsel Hsorted T. induction bl as [|[t ora] bl IH]; intros s Hi Hall.
  - simpl. lia.
  - inversion Hall as [|? ? Ht Hall']; subst. simpl in Ht. simpl fold_left.
    rewrite IH; [|apply inv_step; exact Hi | exact Hall'].
    rewrite (Hsel s t ora Hi). rewrite (consume_due _ t limit T (Hsorted s Hi) Ht).
    rewrite skipn_length. simpl length. lia.
Qed.

Lemma c10_all_due_processed : forall U ops T bl, Forall (fun b => T <= fst b) bl ->
  let s := reach U ops in let s' := fold_left (step U) (begins bl) s in
  length (due (s_spawnq s') T) = (length (due (s_spawnq s) T) - limit * length bl)%nat /\
  ((length (due (s_spawnq s) T) <= limit * length bl)%nat -> due (s_spawnq s') T = []).
Proof.
  intros U ops T bl Hall s s'.
  assert (H : length (due (s_spawnq s') T) = (length (due (s_spawnq s) T) - limit * length bl)%nat).
  { apply (begins_inv_due U s_spawnq).
    - intros s0 now ora Hi0. unfold step. simpl exec. exact (proj1 (begin_spawnq s0 now ora Hi0)).
    - intros s0 Hi0. exact (io_sq_sorted _ _ Hi0).
    - apply reach_inv.
    - exact Hall. }
  split; [exact H|]. intros Hle. apply length_zero_iff_nil. lia.
Qed.

(* ------------------------------------------------------------------ artefacts *)

Lemma c10_artefacts : forall U ops c r, get (reach U ops) c = Some r ->
  (c_phase r = 3 -> p_genesis (c_proto r) = true /\ p_client (c_proto r) = true /\ p_evmin (c_proto r) = true) /\
  (c_phase r <= 2 -> no_artefact (c_proto r) = true /\ p_channel (c_proto r) = false /\
                     p_pending (c_proto r) = 0 /\ p_removal (c_proto r) = 0).
Proof.
  intros U ops c r Hg. assert (Hc := io_cons _ _ (reach_inv U ops) c r (fun H => H) Hg). cinv_destruct Hc.
  split.
  - intros Hp. destruct (A6 Hp) as (B1 & B2 & B3). auto.
  - intros Hp. destruct (A5 Hp) as (P1 & P2 & P3 & P4 & P5 & P6 & P7).
    unfold no_artefact. rewrite P1, P2, P3, P5. auto.
Qed.
