(* Invariants and lemmas about Model/Handshake.v (property C17). *)
From Coq Require Import ZArith List Bool Lia.
From ICS Require Import Base.Tree Model.Handshake.
Import ListNotations.
Open Scope Z_scope.

(* ---------------------------------------------------------------- tactics *)

Ltac zeq :=
  repeat match goal with
  | H : context [?a =? ?b] |- _ =>
    let E := fresh "E" in destruct (a =? b) eqn:E; [apply Z.eqb_eq in E | apply Z.eqb_neq in E]
  | |- context [?a =? ?b] =>
    let E := fresh "E" in destruct (a =? b) eqn:E; [apply Z.eqb_eq in E | apply Z.eqb_neq in E]
  end.

Ltac inv_pair :=
  repeat match goal with
  | H : (_, _) = (_, _) |- _ => inversion H; subst; clear H
  | H : Some _ = Some _ |- _ => inversion H; subst; clear H
  | H : Some _ = None |- _ => discriminate H
  | H : None = Some _ |- _ => discriminate H
  end.

Lemma upd_same : forall m k v, upd m k v k = Some v.
Proof. intros. unfold upd. rewrite Z.eqb_refl. reflexivity. Qed.
Lemma upd_other : forall m k v x, x <> k -> upd m k v x = m x.
Proof. intros m k v x Hne. unfold upd. apply Z.eqb_neq in Hne. rewrite Hne. reflexivity. Qed.
Lemma del_same : forall m k, del m k k = None.
Proof. intros. unfold del. rewrite Z.eqb_refl. reflexivity. Qed.
Lemma del_other : forall m k x, x <> k -> del m k x = m x.
Proof. intros m k x Hne. unfold del. apply Z.eqb_neq in Hne. rewrite Hne. reflexivity. Qed.
Lemma del_some : forall m k x v, del m k x = Some v -> x <> k /\ m x = Some v.
Proof. intros m k x v H. unfold del in H. zeq; [discriminate | auto]. Qed.


(* ---------------------------------------------------------------- partial bijections between two maps *)

Definition bij (f r : zmap) : Prop := forall a b, f a = Some b <-> r b = Some a.

Lemma bij_upd : forall f r a0 b0, bij f r -> f a0 = None -> r b0 = None ->
  bij (upd f a0 b0) (upd r b0 a0).
Proof.
  intros f r a0 b0 HB Hf Hr a b. unfold upd.
  destruct (Z.eqb_spec a a0) as [E1|E1]; destruct (Z.eqb_spec b b0) as [E2|E2].
  - split; intros _; congruence.
  - split; intros H; [congruence|]. apply HB in H. congruence.
  - split; intros H; [|congruence]. apply HB in H. congruence.
  - apply HB.
Qed.

Lemma bij_del : forall f r a0, bij f r ->
  bij (del f a0) (match f a0 with Some b0 => del r b0 | None => r end).
Proof.
  intros f r a0 HB a b. split; intros H.
  - apply del_some in H. destruct H as [Hne H].
    pose proof H as Hr. apply HB in Hr.
    destruct (f a0) as [b0|] eqn:Hf; auto.
    rewrite del_other; auto. intros ->. apply HB in Hf. congruence.
  - destruct (f a0) as [b0|] eqn:Hf.
    + apply del_some in H. destruct H as [Hne H]. apply HB in H.
      rewrite del_other; auto. intros ->. congruence.
    + apply HB in H. rewrite del_other; auto. intros ->. congruence.
Qed.

(* ---------------------------------------------------------------- the invariant *)

Record Inv (s : pstate) : Prop := mkInv {
  inv_client : bij (fwd s) (rev s);
  inv_chan : bij (c2ch s) (ch2c s);
  inv_attr : forall ch c, ch2c s ch = Some c ->
             exists conn x, chans s ch = Some conn /\ conns s conn = Some x /\ fwd s c = Some x;
  inv_fresh : forall x, clients s x <> None -> x < next_client s;
  inv_exists : forall c x, fwd s c = Some x -> clients s x <> None;
  inv_log : forall c x, fwd s c = Some x -> In (c, x) (launch_log s);
  inv_phase : forall c x, fwd s c = Some x -> phase s c = PH_LAUNCHED \/ phase s c = PH_STOPPED
}.

Lemma inv_init : Inv pinit.
Proof.
  constructor; cbn; unfold bij, mempty; intros; try discriminate; try tauto.
  - split; discriminate.
  - split; discriminate.
Qed.

(* a consumer with a channel has a client *)
Lemma chan_has_client : forall s c ch, Inv s -> c2ch s c = Some ch -> exists x, fwd s c = Some x.
Proof.
  intros s c ch HI H. apply (inv_chan s HI) in H. destruct (inv_attr s HI _ _ H) as (conn & x & _ & _ & Hf). eauto.
Qed.

(* ---- world operations *)
Lemma inv_add_client : forall s chain, Inv s -> Inv (fst (pstep s (PAddClient chain))).
Proof.
  intros s chain HI. destruct HI. constructor; cbn; auto.
  - intros x H. unfold upd in H. zeq; [lia|]. specialize (inv_fresh0 x H). lia.
  - intros c x H. unfold upd. zeq; [discriminate|eauto].
Qed.

Lemma inv_add_conn : forall s conn x, Inv s -> Inv (fst (pstep s (PAddConn conn x))).
Proof.
  intros s conn x HI. cbn. destruct (has (conns s) conn) eqn:Hh; cbn; auto.
  destruct HI. constructor; cbn; auto.
  intros ch c H. destruct (inv_attr0 ch c H) as (k & y & Hc & Hk & Hf).
  exists k, y. repeat split; auto. unfold upd. zeq; auto.
  subst. unfold has in Hh. rewrite Hk in Hh. discriminate.
Qed.

Lemma inv_add_chan : forall s ch conn, Inv s -> Inv (fst (pstep s (PAddChan ch conn))).
Proof.
  intros s ch conn HI. cbn. destruct (has (chans s) ch) eqn:Hh; cbn; auto.
  destruct HI. constructor; cbn; auto.
  intros ch' c H. destruct (inv_attr0 ch' c H) as (k & y & Hc & Hk & Hf).
  exists k, y. repeat split; auto. unfold upd. zeq; auto.
  subst. unfold has in Hh. rewrite Hc in Hh. discriminate.
Qed.

(* ---- phases *)
Lemma inv_set_phase : forall s c p, Inv s ->
  (p = PH_LAUNCHED \/ p = PH_STOPPED \/ fwd s c = None) -> Inv (set_phase s c p).
Proof.
  intros s c p HI Hp. destruct HI. constructor; cbn; auto.
  intros c' x H. zeq; eauto. subst. destruct Hp as [Hp | [Hp | Hp]]; auto. rewrite Hp in H. discriminate.
Qed.

(* ---- launches: the consumer has no client yet *)
Lemma no_client_if_prelaunch : forall s c, Inv s ->
  (phase s c = PH_NONE \/ phase s c = PH_REGISTERED) -> fwd s c = None.
Proof.
  intros s c HI Hp. destruct (fwd s c) as [x|] eqn:Hf; auto.
  destruct (inv_phase s HI _ _ Hf) as [H | H]; rewrite H in Hp; destruct Hp; discriminate.
Qed.

Lemma inv_launch_fresh_phase : forall s c chain, Inv s -> fwd s c = None ->
  Inv (set_phase (launch_fresh s c chain) c PH_LAUNCHED).
Proof.
  intros s c chain HI Hnone.
  assert (Hrx : rev s (next_client s) = None).
  { destruct (rev s (next_client s)) as [c'|] eqn:Hr; auto. apply (inv_client s HI) in Hr.
    apply (inv_exists s HI) in Hr. apply (inv_fresh s HI) in Hr. lia. }
  unfold launch_fresh, set_consumer_client, set_phase. rewrite Hnone. constructor; cbn.
  - apply bij_upd; auto. apply (inv_client s HI).
  - apply (inv_chan s HI).
  - intros ch c' H. destruct (inv_attr s HI ch c' H) as (k & y & Hc & Hk & Hf).
    exists k, y. repeat split; auto. rewrite upd_other; auto. intros ->. congruence.
  - intros x H. unfold upd in H. destruct (x =? next_client s) eqn:E.
    + apply Z.eqb_eq in E. lia.
    + pose proof (inv_fresh s HI x H). lia.
  - intros c' x H. unfold upd in *. destruct (c' =? c) eqn:E1.
    + inv_pair. rewrite Z.eqb_refl. discriminate.
    + destruct (x =? next_client s); [discriminate|]. eapply (inv_exists s HI); eauto.
  - intros c' x H. unfold upd in H. destruct (c' =? c) eqn:E1.
    + apply Z.eqb_eq in E1. inv_pair. left. reflexivity.
    + right. apply (inv_log s HI). auto.
  - intros c' x H. unfold upd in H. destruct (c' =? c) eqn:E1; auto.
    eapply (inv_phase s HI); eauto.
Qed.

Lemma inv_launch_on_connection : forall s c chain conn s1, Inv s -> fwd s c = None ->
  launch_on_connection s c chain conn = Some s1 -> Inv (set_phase s1 c PH_LAUNCHED).
Proof.
  intros s c chain conn s1 HI Hnone HL. unfold launch_on_connection in HL.
  destruct (conns s conn) as [x|] eqn:Hconn; [|discriminate].
  destruct (clients s x) as [xc|] eqn:Hcl; [|discriminate].
  destruct (negb (xc =? chain)); [discriminate|].
  assert (Hrx : rev s x = None).
  { destruct (rev s x) as [o|] eqn:Hr; auto.
    destruct (negb (o =? c)) eqn:Ho; [discriminate|].
    apply negb_false_iff in Ho. apply Z.eqb_eq in Ho. subst o.
    apply (inv_client s HI) in Hr. congruence. }
  rewrite Hrx in HL. inv_pair.
  unfold set_consumer_client, set_phase. rewrite Hnone. constructor; cbn.
  - apply bij_upd; auto. apply (inv_client s HI).
  - apply (inv_chan s HI).
  - intros ch c' H. destruct (inv_attr s HI ch c' H) as (k & y & Hc & Hk & Hf).
    exists k, y. repeat split; auto. rewrite upd_other; auto. intros ->. congruence.
  - apply (inv_fresh s HI).
  - intros c' y H. unfold upd in H. destruct (c' =? c) eqn:E1.
    + inv_pair. congruence.
    + eapply (inv_exists s HI); eauto.
  - intros c' y H. unfold upd in H. destruct (c' =? c) eqn:E1.
    + apply Z.eqb_eq in E1. inv_pair. left. reflexivity.
    + right. apply (inv_log s HI). auto.
  - intros c' y H. unfold upd in H. destruct (c' =? c) eqn:E1; auto.
    eapply (inv_phase s HI); eauto.
Qed.

Lemma inv_launch : forall s c chain conn, Inv s -> Inv (fst (launch s c chain conn)).
Proof.
  intros s c chain conn HI. unfold launch.
  destruct ((phase s c =? PH_NONE) || (phase s c =? PH_REGISTERED)) eqn:Hp; cbn; auto.
  assert (Hnone : fwd s c = None).
  { apply no_client_if_prelaunch; auto. apply orb_true_iff in Hp.
    destruct Hp as [H | H]; apply Z.eqb_eq in H; auto. }
  destruct conn as [k|].
  - destruct (launch_on_connection s c chain k) as [s1|] eqn:HL; cbn.
    + eapply inv_launch_on_connection; eauto.
    + apply inv_set_phase; auto.
  - cbn. apply inv_launch_fresh_phase; auto.
Qed.

(* ---- confirm *)
Lemma inv_confirm : forall s ch, Inv s -> Inv (fst (chan_open_confirm s ch)).
Proof.
  intros s ch HI. unfold chan_open_confirm.
  destruct (chans s ch) as [conn|] eqn:Hch; cbn; auto.
  unfold underlying.
  destruct (conns s conn) as [x|] eqn:Hconn; cbn; auto.
  destruct (clients s x) as [xc|] eqn:Hcl; cbn; auto.
  destruct (rev s x) as [c|] eqn:Hr; cbn; auto.
  destruct (c2ch s c) as [p|] eqn:Hc; cbn; auto.
  assert (Hf : fwd s c = Some x) by (apply (inv_client s HI); auto).
  assert (Hn1 : ch2c s ch = None).
  { destruct (ch2c s ch) as [c'|] eqn:H; auto.
    destruct (inv_attr s HI _ _ H) as (k & y & Hk & Hy & Hfy).
    rewrite Hch in Hk. inv_pair. rewrite Hconn in Hy. inv_pair.
    apply (inv_client s HI) in Hfy. rewrite Hr in Hfy. inv_pair.
    apply (inv_chan s HI) in H. congruence. }
  constructor; cbn.
  - apply (inv_client s HI).
  - apply bij_upd; auto. apply (inv_chan s HI).
  - intros ch' c' H. unfold upd in H. destruct (ch' =? ch) eqn:E.
    + apply Z.eqb_eq in E. inv_pair. eauto.
    + apply (inv_attr s HI); auto.
  - apply (inv_fresh s HI).
  - apply (inv_exists s HI).
  - apply (inv_log s HI).
  - apply (inv_phase s HI).
Qed.

(* ---- stop *)
Lemma inv_stop : forall s c, Inv s -> Inv (stop_consumer s c).
Proof.
  intros s c HI. unfold stop_consumer.
  assert (HI2 : Inv (set_phase s c PH_STOPPED)) by (apply inv_set_phase; auto).
  destruct HI2. constructor; cbn in *; auto.
Qed.

(* ---- delete *)
Lemma inv_close : forall s ch, Inv s -> Inv (close_chan s ch).
Proof. intros s ch HI. destruct HI. constructor; cbn; auto. Qed.

Lemma inv_delete : forall s c, Inv s -> Inv (delete_consumer s c).
Proof.
  intros s c HI. unfold delete_consumer.
  destruct (negb (phase s c =? PH_STOPPED)); auto.
  apply inv_set_phase.
  2:{ right; right. unfold delete_consumer_client.
      destruct (c2ch _ c); [destruct (has _ _ && negb _)|]; cbn; apply del_same. }
  unfold delete_consumer_client.
  cbn [c2ch fwd rev ch2c phase to_remove clients conns chans closed next_client launch_log].
  pose proof (bij_del (fwd s) (rev s) c (inv_client s HI)) as Hstep1.
  destruct (c2ch s c) as [ch|] eqn:Hc.
  - destruct (has (chans s) ch && negb (closed s ch)); unfold close_chan; constructor; cbn.
    1,8: exact Hstep1.
    1,7: pose proof (bij_del (c2ch s) (ch2c s) c (inv_chan s HI)) as H2; rewrite Hc in H2; exact H2.
    1,6: intros ch' c' H; apply del_some in H; destruct H as [Hne H];
      destruct (inv_attr s HI _ _ H) as (k & y & Hk & Hy & Hf);
      exists k, y; repeat split; auto; rewrite del_other; auto;
      intros ->; apply (inv_chan s HI) in H; congruence.
    1,5: apply (inv_fresh s HI).
    1,4: intros c' x H; apply del_some in H; destruct H as [_ H]; eapply (inv_exists s HI); eauto.
    1,3: intros c' x H; apply del_some in H; destruct H as [_ H]; eapply (inv_log s HI); eauto.
    1,2: intros c' x H; apply del_some in H; destruct H as [_ H]; eapply (inv_phase s HI); eauto.
  - constructor; cbn.
    + exact Hstep1.
    + apply (inv_chan s HI).
    + intros ch' c' H.
      destruct (inv_attr s HI _ _ H) as (k & y & Hk & Hy & Hf).
      exists k, y. repeat split; auto. rewrite del_other; auto.
      intros ->. apply (inv_chan s HI) in H. congruence.
    + apply (inv_fresh s HI).
    + intros c' x H. apply del_some in H. destruct H as [_ H]. eapply (inv_exists s HI); eauto.
    + intros c' x H. apply del_some in H. destruct H as [_ H]. eapply (inv_log s HI); eauto.
    + intros c' x H. apply del_some in H. destruct H as [_ H]. eapply (inv_phase s HI); eauto.
Qed.

Lemma inv_fold_delete : forall l s, Inv s -> Inv (fold_left delete_consumer l s).
Proof. induction l as [|c l IH]; cbn; intros s HI; auto. apply IH. apply inv_delete. auto. Qed.

Lemma inv_purge : forall s, Inv s -> Inv (purge s).
Proof.
  intros s HI. unfold purge. pose proof (inv_fold_delete (to_remove s) s HI) as H.
  destruct H. constructor; cbn; auto.
Qed.

(* ---- every step *)
Lemma inv_step : forall s o, Inv s -> Inv (fst (pstep s o)).
Proof.
  intros s o HI. destruct o.
  - apply inv_add_client; auto.
  - apply inv_add_conn; auto.
  - apply inv_add_chan; auto.
  - cbn. pose proof (inv_launch s c chain conn HI) as H. destruct (launch s c chain conn). auto.
  - cbn. auto.
  - cbn. pose proof (inv_confirm s ch HI) as H. destruct (chan_open_confirm s ch). auto.
  - cbn. auto.
  - cbn. auto.
  - cbn. destruct (phase s c =? PH_LAUNCHED); cbn; auto. apply inv_stop; auto.
  - cbn. apply inv_purge; auto.
  - cbn. destruct (attribute s ch); cbn; auto. apply inv_close. apply inv_stop; auto.
  - cbn. destruct (attribute s ch); cbn; auto. apply inv_stop; auto.
  - cbn. destruct (attribute s ch); cbn; auto.
  - cbn. auto.
  - cbn. auto.
  - cbn. destruct (has (chans s) ch); cbn; auto. apply inv_close; auto.
Qed.

Lemma inv_fold : forall ops s, Inv s -> Inv (fold_left (fun s o => fst (pstep s o)) ops s).
Proof. induction ops as [|o ops IH]; cbn; intros s HI; auto. apply IH. apply inv_step. auto. Qed.

Lemma inv_reach : forall ops, Inv (prun ops).
Proof. intros. apply inv_fold. apply inv_init. Qed.

Lemma prun_app : forall ops o, prun (ops ++ [o]) = fst (pstep (prun ops) o).
Proof. intros. unfold prun. rewrite fold_left_app. reflexivity. Qed.

(* ---------------------------------------------------------------- OnChanOpenTry *)

Lemma try_accept_iff : forall s order port cpport version hops,
  chan_open_try s order port cpport version hops = OK <->
  (order = ORDERED /\ port = PORT_PROVIDER /\ cpport = PORT_CONSUMER /\ version = VERSION_OK /\
   exists conn x c, hops = [conn] /\ conns s conn = Some x /\ clients s x <> None /\
                    rev s x = Some c /\ fwd s c = Some x /\ c2ch s c = None).
Proof.
  intros s order port cpport version hops. unfold chan_open_try, verify_consumer_chain, underlying. split.
  - intros H.
    destruct (order =? ORDERED) eqn:E1; cbn in H; [|discriminate].
    destruct (port =? PORT_PROVIDER) eqn:E2; cbn in H; [|discriminate].
    destruct (cpport =? PORT_CONSUMER) eqn:E3; cbn in H; [|discriminate].
    destruct (version =? VERSION_OK) eqn:E4; cbn in H; [|discriminate].
    apply Z.eqb_eq in E1, E2, E3, E4. repeat (split; auto).
    destruct hops as [|conn [|h2 rest]]; try discriminate.
    destruct (conns s conn) as [x|] eqn:Hc; [|discriminate].
    destruct (clients s x) as [xc|] eqn:Hx; [|discriminate].
    destruct (rev s x) as [c|] eqn:Hr; [|discriminate].
    destruct (fwd s c) as [x'|] eqn:Hf; [|discriminate].
    destruct (x' =? x) eqn:E5; cbn in H; [|discriminate]. apply Z.eqb_eq in E5. subst x'.
    destruct (c2ch s c) eqn:Hcc; [discriminate|].
    exists conn, x, c. repeat split; auto. rewrite Hx. discriminate.
  - intros (-> & -> & -> & -> & conn & x & c & -> & Hc & Hx & Hr & Hf & Hcc). cbn.
    rewrite Hc. destruct (clients s x); [|congruence]. rewrite Hr, Hf, Z.eqb_refl, Hcc. reflexivity.
Qed.

Lemma try_pure : forall s order port cpport version hops,
  pstep s (PTry order port cpport version hops) = (s, (chan_open_try s order port cpport version hops, -1)).
Proof. reflexivity. Qed.

(* ---------------------------------------------------------------- OnChanOpenConfirm *)

Lemma confirm_accept_iff : forall s ch, Inv s ->
  (snd (chan_open_confirm s ch) = OK <->
   exists conn x c, chans s ch = Some conn /\ conns s conn = Some x /\ clients s x <> None /\
                    rev s x = Some c /\ fwd s c = Some x /\ c2ch s c = None).
Proof.
  intros s ch HI. unfold chan_open_confirm, underlying. split.
  - intros H.
    destruct (chans s ch) as [conn|] eqn:Hch; [|discriminate].
    destruct (conns s conn) as [x|] eqn:Hc; [|discriminate].
    destruct (clients s x) as [xc|] eqn:Hx; [|discriminate].
    destruct (rev s x) as [c|] eqn:Hr; [|discriminate].
    destruct (c2ch s c) eqn:Hcc; [discriminate|].
    exists conn, x, c. repeat split; auto. rewrite Hx; discriminate. apply (inv_client s HI). auto.
  - intros (conn & x & c & Hch & Hc & Hx & Hr & Hf & Hcc). rewrite Hch, Hc.
    destruct (clients s x); [|congruence]. rewrite Hr, Hcc. reflexivity.
Qed.

Lemma confirm_binds : forall s ch conn x c,
  chans s ch = Some conn -> conns s conn = Some x -> clients s x <> None -> rev s x = Some c -> c2ch s c = None ->
  snd (chan_open_confirm s ch) = OK /\
  c2ch (fst (chan_open_confirm s ch)) c = Some ch /\ ch2c (fst (chan_open_confirm s ch)) ch = Some c.
Proof.
  intros s ch conn x c Hch Hc Hx Hr Hcc. unfold chan_open_confirm, underlying.
  rewrite Hch, Hc. destruct (clients s x); [|congruence]. rewrite Hr, Hcc. cbn.
  rewrite !upd_same. auto.
Qed.

Lemma confirm_rejected_unchanged : forall s ch, snd (chan_open_confirm s ch) <> OK -> fst (chan_open_confirm s ch) = s.
Proof.
  intros s ch. unfold chan_open_confirm.
  destruct (chans s ch); cbn; auto. destruct (underlying s z); cbn; auto.
  destruct (rev s z0); cbn; auto. destruct (c2ch s z1); cbn; auto. intros H. exfalso. apply H. reflexivity.
Qed.

Lemma confirm_second_rejected : forall s ch conn x c ch0, Inv s ->
  chans s ch = Some conn -> conns s conn = Some x -> rev s x = Some c -> c2ch s c = Some ch0 ->
  chan_open_confirm s ch = (s, E_DUP).
Proof.
  intros s ch conn x c ch0 HI Hch Hc Hr Hcc. unfold chan_open_confirm, underlying. rewrite Hch, Hc.
  assert (Hx : clients s x <> None).
  { apply (inv_exists s HI c). apply (inv_client s HI). auto. }
  destruct (clients s x); [|congruence]. rewrite Hr, Hcc. reflexivity.
Qed.

(* deletion only removes channel bindings *)
Lemma c2ch_delete : forall s c' c ch, c2ch (delete_consumer s c') c = Some ch -> c2ch s c = Some ch.
Proof.
  intros s c' c ch. unfold delete_consumer.
  destruct (negb (phase s c' =? PH_STOPPED)); auto.
  unfold delete_consumer_client. cbn. destruct (c2ch s c'); cbn; auto.
  destruct (has (chans s) z && negb (closed s z)); cbn; intros H; apply del_some in H; tauto.
Qed.

Lemma c2ch_fold_delete : forall l s c ch, c2ch (fold_left delete_consumer l s) c = Some ch -> c2ch s c = Some ch.
Proof.
  induction l as [|c' l IH]; cbn; intros s c ch H; auto. apply IH in H. eapply c2ch_delete; eauto.
Qed.

(* how a consumer -> channel entry can arise in one step *)
Lemma c2ch_step : forall s o c ch, c2ch (fst (pstep s o)) c = Some ch ->
  c2ch s c = Some ch \/
  (o = PConfirm ch /\ c2ch s c = None /\ snd (chan_open_confirm s ch) = OK /\
   exists conn x, chans s ch = Some conn /\ conns s conn = Some x /\ clients s x <> None /\ rev s x = Some c).
Proof.
  intros s o c ch H. destruct o; cbn in H; auto.
  - destruct (has (conns s) conn); cbn in H; auto.
  - destruct (has (chans s) ch0); cbn in H; auto.
  - unfold launch in H. destruct (negb _); cbn in H; auto.
    destruct conn as [k|]; cbn in H; auto.
    destruct (launch_on_connection s c0 chain k) as [s1|] eqn:HL; cbn in H; auto.
    unfold launch_on_connection in HL.
    destruct (conns s k); [|discriminate]. destruct (clients s z); [|discriminate].
    destruct (negb (z0 =? chain)); [discriminate|].
    destruct (match rev s z with Some other => negb (other =? c0) | None => false end); [discriminate|].
    inv_pair. cbn in H. auto.
  - unfold chan_open_confirm, underlying in *.
    destruct (chans s ch0) as [conn|] eqn:Hch; cbn in H; auto.
    destruct (conns s conn) as [x|] eqn:Hc; cbn in H; auto.
    destruct (clients s x) as [xc|] eqn:Hx; cbn in H; auto.
    destruct (rev s x) as [c0|] eqn:Hr; cbn in H; auto.
    destruct (c2ch s c0) as [p|] eqn:Hcc; cbn in H; auto.
    unfold upd in H. destruct (c =? c0) eqn:E.
    + apply Z.eqb_eq in E. subst c0. inv_pair. right.
      split; [reflexivity|]. split; [assumption|].
      split; [rewrite Hch, Hc, Hx, Hr, Hcc; reflexivity|].
      exists conn, x. split; [assumption|]. split; [assumption|]. split; [rewrite Hx; discriminate|assumption].
    + auto.
  - destruct (phase s c0 =? PH_LAUNCHED); cbn in H; auto.
  - left. unfold purge in H. cbn in H. eapply c2ch_fold_delete; eauto.
  - destruct (attribute s ch0); cbn in H; auto.
  - destruct (attribute s ch0); cbn in H; auto.
  - destruct (attribute s ch0); cbn in H; auto.
  - destruct (has (chans s) ch0); cbn in H; auto.
Qed.

(* ---------------------------------------------------------------- world stability *)

Lemma world_step : forall s o,
  (forall ch conn, chans s ch = Some conn -> chans (fst (pstep s o)) ch = Some conn) /\
  (forall conn x, conns s conn = Some x -> conns (fst (pstep s o)) conn = Some x).
Proof.
  intros s o. assert (Hd : forall l s0, chans (fold_left delete_consumer l s0) = chans s0 /\
                                        conns (fold_left delete_consumer l s0) = conns s0).
  { induction l as [|c l IH]; cbn; intros s0; auto. destruct (IH (delete_consumer s0 c)) as [H1 H2].
    rewrite H1, H2. unfold delete_consumer. destruct (negb _); auto.
    unfold delete_consumer_client. cbn. destruct (c2ch s0 c); cbn; auto.
    destruct (has (chans s0) z && negb (closed s0 z)); cbn; auto. }
  destruct o; cbn; auto.
  - destruct (has (conns s) conn) eqn:Hh; cbn; auto. split; auto.
    intros k y H. unfold upd. zeq; auto. subst. unfold has in Hh. rewrite H in Hh. discriminate.
  - destruct (has (chans s) ch) eqn:Hh; cbn; auto. split; auto.
    intros k y H. unfold upd. zeq; auto. subst. unfold has in Hh. rewrite H in Hh. discriminate.
  - unfold launch. destruct (negb _); cbn; auto. destruct conn as [k|]; cbn; auto.
    destruct (launch_on_connection s c chain k) as [s1|] eqn:HL; cbn; auto.
    unfold launch_on_connection in HL.
    destruct (conns s k); [|discriminate]. destruct (clients s z); [|discriminate].
    destruct (negb (z0 =? chain)); [discriminate|].
    destruct (match rev s z with Some other => negb (other =? c) | None => false end); [discriminate|].
    inv_pair. cbn. auto.
  - unfold chan_open_confirm. destruct (chans s ch); cbn; auto. destruct (underlying s z); cbn; auto.
    destruct (rev s z0); cbn; auto. destruct (c2ch s z1); cbn; auto.
  - destruct (phase s c =? PH_LAUNCHED); cbn; auto.
  - destruct (Hd (to_remove s) s) as [H1 H2]. rewrite H1, H2. auto.
  - destruct (attribute s ch); cbn; auto.
  - destruct (attribute s ch); cbn; auto.
  - destruct (attribute s ch); cbn; auto.
  - destruct (has (chans s) ch); cbn; auto.
Qed.

(* ---------------------------------------------------------------- launch log *)

Lemma log_delete : forall l s, launch_log (fold_left delete_consumer l s) = launch_log s.
Proof.
  induction l as [|c l IH]; cbn; intros s; auto. rewrite IH. unfold delete_consumer.
  destruct (negb _); auto. unfold delete_consumer_client. cbn. destruct (c2ch s c); cbn; auto.
  destruct (has (chans s) z && negb (closed s z)); cbn; auto.
Qed.

Lemma log_step : forall s o c x, In (c, x) (launch_log (fst (pstep s o))) ->
  In (c, x) (launch_log s) \/
  exists chain conn, o = PLaunch c chain conn /\ fst (snd (pstep s o)) = OK /\ fwd (fst (pstep s o)) c = Some x /\
                     match conn with Some k => conns s k = Some x | None => x = next_client s end.
Proof.
  intros s o c x H. destruct o; cbn in *; auto.
  - destruct (has (conns s) conn); cbn in H; auto.
  - destruct (has (chans s) ch); cbn in H; auto.
  - unfold launch in *. destruct (negb _); cbn in *; auto.
    destruct conn as [k|]; cbn in *.
    + destruct (launch_on_connection s c0 chain k) as [s1|] eqn:HL; cbn in *; auto.
      unfold launch_on_connection in HL.
      destruct (conns s k) as [y|] eqn:Hk; [|discriminate]. destruct (clients s y); [|discriminate].
      destruct (negb (z =? chain)); [discriminate|].
      destruct (match rev s y with Some other => negb (other =? c0) | None => false end); [discriminate|].
      inv_pair. cbn in *. destruct H as [H | H]; auto. inv_pair.
      right. exists chain, (Some k). repeat split; auto. apply upd_same.
    + destruct H as [H | H]; auto. inv_pair.
      right. exists chain, None. repeat split; auto. apply upd_same.
  - unfold chan_open_confirm in *. destruct (chans s ch); cbn in *; auto. destruct (underlying s z); cbn in *; auto.
    destruct (rev s z0); cbn in *; auto. destruct (c2ch s z1); cbn in *; auto.
  - destruct (phase s c0 =? PH_LAUNCHED); cbn in *; auto.
  - rewrite log_delete in H. auto.
  - destruct (attribute s ch); cbn in *; auto.
  - destruct (attribute s ch); cbn in *; auto.
  - destruct (attribute s ch); cbn in *; auto.
  - destruct (has (chans s) ch); cbn in *; auto.
Qed.

(* ---------------------------------------------------------------- the pre-fix behaviour breaks the bijection *)

Definition witness_before : pstate :=
  prun [PAddClient 7; PAddConn 0 0; PLaunch 0 7 (Some 0)].

Lemma unchecked_breaks_bijection :
  exists s1, launch_on_connection_unchecked witness_before 1 7 0 = Some s1 /\
             fwd s1 0 = Some 0 /\ fwd s1 1 = Some 0 /\ rev s1 0 = Some 1 /\
             launch_on_connection witness_before 1 7 0 = None.
Proof. eexists. split; [reflexivity|]. repeat split; reflexivity. Qed.

(* =====================================================================  consumer *)

Lemma c_open_init_iff : forall s order port version cpport hops,
  c_open_init s order port version cpport hops = OK <->
  (pchan s = None /\ order = ORDERED /\ port = PORT_CONSUMER /\ (version = VERSION_OK \/ version = VERSION_EMPTY) /\
   cpport = PORT_PROVIDER /\ exists conn x, hops = [conn] /\ cconns s conn = Some x /\ pclient s = Some x).
Proof.
  intros s order port version cpport hops. unfold c_open_init, verify_provider_chain. split.
  - intros H. destruct (pchan s); [discriminate|].
    destruct (order =? ORDERED) eqn:E1; cbn in H; [|discriminate].
    destruct (port =? PORT_CONSUMER) eqn:E2; cbn in H; [|discriminate].
    destruct ((if version =? VERSION_EMPTY then VERSION_OK else version) =? VERSION_OK) eqn:E3; cbn in H; [|discriminate].
    destruct (cpport =? PORT_PROVIDER) eqn:E4; cbn in H; [|discriminate].
    apply Z.eqb_eq in E1, E2, E4. repeat (split; auto).
    + destruct (version =? VERSION_EMPTY) eqn:E5; [right; apply Z.eqb_eq; auto | left; apply Z.eqb_eq; auto].
    + destruct hops as [|conn [|h2 rest]]; try discriminate.
      destruct (cconns s conn) as [x|] eqn:Hc; [|discriminate].
      destruct (pclient s) as [e|] eqn:Hp; [|discriminate].
      destruct (e =? x) eqn:E6; cbn in H; [|discriminate]. apply Z.eqb_eq in E6. subst.
      exists conn, x. auto.
  - intros (-> & -> & -> & Hv & -> & conn & x & -> & -> & ->). cbn.
    destruct Hv as [-> | ->]; cbn; rewrite Z.eqb_refl; reflexivity.
Qed.

Lemma pclient_step : forall s o, pclient (fst (cstep s o)) = pclient s.
Proof.
  intros s o. destruct o; cbn; auto.
  - destruct (has (cconns s) conn); auto.
  - unfold c_open_ack. destruct (pchan s); auto. destruct (md =? 1); auto. destruct (negb (md =? 0)); auto.
    destruct transfer_exists; auto. destruct (negb chan_exists); auto.
  - unfold c_recv_vsc. destruct (pchan s); auto. destruct (negb (z =? ch)); auto.
Qed.

Lemma pclient_run : forall ops s, pclient (crun s ops) = pclient s.
Proof.
  unfold crun. induction ops as [|o ops IH]; cbn; intros s; auto. rewrite IH. apply pclient_step.
Qed.

Lemma pchan_step_keep : forall s o ch, pchan s = Some ch -> pchan (fst (cstep s o)) = Some ch.
Proof.
  intros s o ch H. destruct o; cbn; auto.
  - destruct (has (cconns s) conn); auto.
  - unfold c_open_ack. rewrite H. auto.
  - unfold c_recv_vsc. rewrite H. destruct (negb (ch =? ch0)); auto.
Qed.

Lemma pchan_run_keep : forall ops s ch, pchan s = Some ch -> pchan (crun s ops) = Some ch.
Proof.
  unfold crun. induction ops as [|o ops IH]; cbn; intros s ch H; auto. apply IH. apply pchan_step_keep. auto.
Qed.

Lemma crun_app : forall s a b, crun s (a ++ b) = crun (crun s a) b.
Proof. intros. unfold crun. apply fold_left_app. Qed.

Lemma pchan_step_set : forall s o ch, pchan s = None -> pchan (fst (cstep s o)) = Some ch -> o = CRecvVSC ch.
Proof.
  intros s o ch Hn H. destruct o; cbn in H; try congruence.
  - destruct (has (cconns s) conn); cbn in H; congruence.
  - unfold c_open_ack in H. rewrite Hn in H. destruct (md =? 1); cbn in H; try congruence.
    destruct (negb (md =? 0)); cbn in H; try congruence.
    destruct transfer_exists; cbn in H; try congruence. destruct (negb chan_exists); cbn in H; congruence.
  - unfold c_recv_vsc in H. rewrite Hn in H. cbn in H. congruence.
Qed.

Lemma recv_vsc_other : forall s ch ch', pchan s = Some ch -> ch' <> ch -> cstep s (CRecvVSC ch') = (s, E_PANIC).
Proof.
  intros s ch ch' H Hne. cbn. unfold c_recv_vsc. rewrite H.
  destruct (ch =? ch') eqn:E; [apply Z.eqb_eq in E; congruence | reflexivity].
Qed.

Lemma recv_vsc_first : forall s ch, pchan s = None ->
  snd (cstep s (CRecvVSC ch)) = OK /\ pchan (fst (cstep s (CRecvVSC ch))) = Some ch.
Proof. intros s ch H. cbn. unfold c_recv_vsc. rewrite H. auto. Qed.

Lemma recv_vsc_same : forall s ch, pchan s = Some ch -> cstep s (CRecvVSC ch) = (s, OK).
Proof. intros s ch H. cbn. unfold c_recv_vsc. rewrite H, Z.eqb_refl. reflexivity. Qed.

Lemma close_init_iff : forall s ch, c_close_init s ch = OK <-> exists p, pchan s = Some p /\ p <> ch.
Proof.
  intros s ch. unfold c_close_init. split.
  - destruct (pchan s) as [p|]; [|discriminate]. destruct (p =? ch) eqn:E; cbn; [discriminate|].
    apply Z.eqb_neq in E. eauto.
  - intros (p & -> & Hne). apply Z.eqb_neq in Hne. rewrite Hne. reflexivity.
Qed.

(* =====================================================================  final forms used by Props/C17.v *)

Definition reachable (s : pstate) : Prop := exists ops, s = prun ops.

Lemma reachable_inv : forall s, reachable s -> Inv s.
Proof. intros s [ops ->]. apply inv_reach. Qed.

Lemma thm_try_accept_iff : forall s order port cpport version hops,
  exists r, pstep s (PTry order port cpport version hops) = (s, (r, -1)) /\
  (r = OK <->
   order = ORDERED /\ port = PORT_PROVIDER /\ cpport = PORT_CONSUMER /\ version = VERSION_OK /\
   exists conn x c, hops = [conn] /\ conns s conn = Some x /\ clients s x <> None /\
                    rev s x = Some c /\ fwd s c = Some x /\ c2ch s c = None).
Proof.
  intros. eexists. split; [reflexivity|]. apply try_accept_iff.
Qed.

Lemma thm_confirm_binds_once : forall ops, let s := prun ops in
  (* accepted iff the channel's connection is over the client of a consumer (both indices) without channel *)
  (forall ch, snd (chan_open_confirm s ch) = OK <->
     exists conn x c, chans s ch = Some conn /\ conns s conn = Some x /\ clients s x <> None /\
                      rev s x = Some c /\ fwd s c = Some x /\ c2ch s c = None) /\
  (* an accepted confirm binds exactly that consumer and that channel *)
  (forall ch conn x c, chans s ch = Some conn -> conns s conn = Some x -> clients s x <> None ->
     rev s x = Some c -> c2ch s c = None ->
     c2ch (fst (chan_open_confirm s ch)) c = Some ch /\ ch2c (fst (chan_open_confirm s ch)) ch = Some c) /\
  (* a rejected confirm changes nothing *)
  (forall ch, snd (chan_open_confirm s ch) <> OK -> fst (chan_open_confirm s ch) = s) /\
  (* a second confirm for a consumer that has a channel is rejected and changes nothing *)
  (forall ch conn x c ch0, chans s ch = Some conn -> conns s conn = Some x -> rev s x = Some c ->
     c2ch s c = Some ch0 -> pstep s (PConfirm ch) = (s, (E_DUP, -1))) /\
  (* a consumer gets a channel only by an accepted confirm of a channel over ITS client *)
  (forall o c ch, c2ch s c = None -> c2ch (fst (pstep s o)) c = Some ch ->
     o = PConfirm ch /\ exists conn x, chans s ch = Some conn /\ conns s conn = Some x /\
                                       fwd s c = Some x /\ rev s x = Some c) /\
  (* and at most once: while bound, the channel of a consumer is never replaced *)
  (forall o c ch ch', c2ch s c = Some ch -> c2ch (fst (pstep s o)) c = Some ch' -> ch' = ch).
Proof.
  intros ops s. pose proof (inv_reach ops) as HI. fold s in HI.
  split; [intros ch; apply confirm_accept_iff; auto|].
  split; [intros ch conn x c H1 H2 H3 H4 H5; eapply confirm_binds; eauto|].
  split; [apply confirm_rejected_unchanged|].
  split.
  { intros ch conn x c ch0 H1 H2 H3 H4. cbn. erewrite confirm_second_rejected; eauto. }
  split.
  { intros o c ch Hn H. apply c2ch_step in H. destruct H as [H | (Ho & _ & _ & conn & x & H1 & H2 & _ & H4)].
    - congruence.
    - split; auto. exists conn, x. repeat split; auto. apply (inv_client s HI). auto. }
  intros o c ch ch' Hc H. apply c2ch_step in H. destruct H as [H | (_ & Hn & _)]; congruence.
Qed.

Lemma thm_channel_bijection : forall ops, let s := prun ops in
  (forall c ch, c2ch s c = Some ch <-> ch2c s ch = Some c) /\
  (forall c1 c2 ch, c2ch s c1 = Some ch -> c2ch s c2 = Some ch -> c1 = c2) /\
  (forall ch1 ch2 c, ch2c s ch1 = Some c -> ch2c s ch2 = Some c -> ch1 = ch2).
Proof.
  intros ops s. pose proof (inv_reach ops) as HI. fold s in HI. split; [apply (inv_chan s HI)|]. split.
  - intros c1 c2 ch H1 H2. apply (inv_chan s HI) in H1, H2. congruence.
  - intros ch1 ch2 c H1 H2. apply (inv_chan s HI) in H1, H2. congruence.
Qed.

Lemma thm_client_bijection : forall ops, let s := prun ops in
  (forall c x, fwd s c = Some x <-> rev s x = Some c) /\
  (forall c1 c2 x, fwd s c1 = Some x -> fwd s c2 = Some x -> c1 = c2) /\
  (forall x1 x2 c, rev s x1 = Some c -> rev s x2 = Some c -> x1 = x2).
Proof.
  intros ops s. pose proof (inv_reach ops) as HI. fold s in HI. split; [apply (inv_client s HI)|]. split.
  - intros c1 c2 x H1 H2. apply (inv_client s HI) in H1, H2. congruence.
  - intros x1 x2 c H1 H2. apply (inv_client s HI) in H1, H2. congruence.
Qed.

Lemma thm_attribution : forall ops, let s := prun ops in
  (* the consumer a packet on ch is attributed to is the one bound to (and launched with) ch's underlying client *)
  (forall ch c, attribute s ch = Some c ->
     exists conn x, chans s ch = Some conn /\ conns s conn = Some x /\
                    fwd s c = Some x /\ rev s x = Some c /\ In (c, x) (launch_log s)) /\
  (* the three packet callbacks use exactly this attribution *)
  (forall ch, snd (snd (pstep s (PRecvSlash ch))) = oz (attribute s ch) /\
              snd (snd (pstep s (PTimeout ch))) = oz (attribute s ch) /\
              snd (snd (pstep s (PAckErr ch))) = oz (attribute s ch)) /\
  (* a launch-log entry is written only by a successful launch of that consumer on that client *)
  (forall o c x, In (c, x) (launch_log (fst (pstep s o))) ->
     In (c, x) (launch_log s) \/
     exists chain conn, o = PLaunch c chain conn /\ fst (snd (pstep s o)) = OK /\ fwd (fst (pstep s o)) c = Some x /\
                        match conn with Some k => conns s k = Some x | None => x = next_client s end) /\
  (* the underlying client of a channel never changes *)
  (forall o, (forall ch conn, chans s ch = Some conn -> chans (fst (pstep s o)) ch = Some conn) /\
             (forall conn x, conns s conn = Some x -> conns (fst (pstep s o)) conn = Some x)).
Proof.
  intros ops s. pose proof (inv_reach ops) as HI. fold s in HI. split.
  { intros ch c H. unfold attribute in H. destruct (inv_attr s HI _ _ H) as (conn & x & H1 & H2 & H3).
    exists conn, x. repeat split; auto. apply (inv_client s HI); auto. apply (inv_log s HI); auto. }
  split.
  { intros ch. cbn. destruct (attribute s ch); cbn; auto. }
  split; [apply log_step | apply world_step].
Qed.

Lemma thm_init_ack_rejected : forall s,
  pstep s POpenInit = (s, (E_FLOW, -1)) /\ pstep s POpenAck = (s, (E_FLOW, -1)) /\ E_FLOW <> OK /\
  pstep s PCloseInit = (s, (E_CLOSE, -1)) /\ E_CLOSE <> OK.
Proof. intros s. repeat split; discriminate. Qed.

Lemma thm_client_bijection_needs_check :
  exists s c1 c2 chain conn s1,
    reachable s /\ c1 <> c2 /\
    launch_on_connection_unchecked s c2 chain conn = Some s1 /\
    fwd s1 c1 = fwd s1 c2 /\ fwd s1 c1 <> None /\ rev s1 0 = Some c2 /\
    (* the repaired function refuses the same launch and the step leaves the first binding intact *)
    launch_on_connection s c2 chain conn = None /\
    (let s2 := fst (pstep s (PLaunch c2 chain (Some conn))) in
     fwd s2 c1 = Some 0 /\ rev s2 0 = Some c1 /\ fwd s2 c2 = None /\ phase s2 c2 = PH_REGISTERED).
Proof.
  exists witness_before, 0, 1, 7, 0. eexists.
  split; [exists [PAddClient 7; PAddConn 0 0; PLaunch 0 7 (Some 0)]; reflexivity|].
  split; [discriminate|]. split; [reflexivity|].
  repeat split; try reflexivity. discriminate.
Qed.

(* ---- deleted consumers are unbound, for ever *)

Lemma deleted_unbound_inv : forall s c, Inv s -> phase s c = PH_DELETED ->
  fwd s c = None /\ c2ch s c = None /\ (forall ch, ch2c s ch <> Some c) /\ (forall x, rev s x <> Some c).
Proof.
  intros s c HI Hp.
  assert (Hf : fwd s c = None).
  { destruct (fwd s c) as [x|] eqn:Hf; auto.
    destruct (inv_phase s HI _ _ Hf) as [H | H]; rewrite H in Hp; discriminate. }
  assert (Hch : forall ch, ch2c s ch <> Some c).
  { intros ch H. destruct (inv_attr s HI _ _ H) as (k & y & _ & _ & Hfy). congruence. }
  split; auto. split.
  - destruct (c2ch s c) as [ch|] eqn:Hc; auto. apply (inv_chan s HI) in Hc. exfalso. eapply Hch; eauto.
  - split; auto. intros x H. apply (inv_client s HI) in H. congruence.
Qed.

(* DeleteConsumerChain removes both channel entries whatever the state of the channel end (no invariant needed) *)
Lemma delete_removes_both : forall s c ch, phase s c = PH_STOPPED -> c2ch s c = Some ch ->
  c2ch (delete_consumer s c) c = None /\ ch2c (delete_consumer s c) ch = None /\
  phase (delete_consumer s c) c = PH_DELETED /\
  (chans s ch <> None -> closed (delete_consumer s c) ch = true).
Proof.
  intros s c ch Hp Hc. unfold delete_consumer. rewrite Hp. cbn [Z.eqb negb PH_STOPPED Pos.eqb].
  unfold delete_consumer_client. cbn [c2ch fwd rev ch2c phase to_remove clients conns chans closed next_client launch_log].
  rewrite Hc. unfold has. destruct (chans s ch) as [k|] eqn:Hk; cbn [andb].
  - destruct (closed s ch) eqn:Hcl; cbn; rewrite ?del_same, ?Z.eqb_refl; repeat split; auto.
  - cbn. rewrite ?del_same, ?Z.eqb_refl. repeat split; auto; try (intros H; congruence).
Qed.

Lemma phase_delete_keep : forall s c' c, phase s c = PH_DELETED -> phase (delete_consumer s c') c = PH_DELETED.
Proof.
  intros s c' c Hp. unfold delete_consumer.
  destruct (phase s c' =? PH_STOPPED) eqn:E; cbn [negb]; auto.
  apply Z.eqb_eq in E.
  assert (Hne : c <> c') by (intros ->; rewrite E in Hp; discriminate).
  apply Z.eqb_neq in Hne.
  unfold delete_consumer_client. cbn. destruct (c2ch s c'); cbn.
  - destruct (has (chans s) z && negb (closed s z)); cbn; rewrite Hne; auto.
  - rewrite Hne. auto.
Qed.

Lemma phase_fold_delete_keep : forall l s c, phase s c = PH_DELETED -> phase (fold_left delete_consumer l s) c = PH_DELETED.
Proof. induction l as [|c' l IH]; cbn; intros s c H; auto. apply IH. apply phase_delete_keep. auto. Qed.

Lemma deleted_forever : forall s o c, Inv s -> phase s c = PH_DELETED -> phase (fst (pstep s o)) c = PH_DELETED.
Proof.
  intros s o c HI Hp. destruct (deleted_unbound_inv s c HI Hp) as (_ & _ & Hch & _).
  destruct o; cbn; auto.
  - destruct (has (conns s) conn); cbn; auto.
  - destruct (has (chans s) ch); cbn; auto.
  - unfold launch. destruct (Z.eq_dec c0 c) as [-> | Hne].
    + rewrite Hp. cbn. auto.
    + assert (Hb : (c =? c0) = false) by (apply Z.eqb_neq; auto).
      destruct (negb _); cbn; auto. destruct conn as [k|]; cbn.
      * destruct (launch_on_connection s c0 chain k) as [s1|] eqn:HL; cbn; rewrite Hb; auto.
        unfold launch_on_connection in HL.
        destruct (conns s k); [|discriminate]. destruct (clients s z); [|discriminate].
        destruct (negb (z0 =? chain)); [discriminate|].
        destruct (match rev s z with Some other => negb (other =? c0) | None => false end); [discriminate|].
        inv_pair. cbn. auto.
      * rewrite Hb. auto.
  - unfold chan_open_confirm. destruct (chans s ch); cbn; auto. destruct (underlying s z); cbn; auto.
    destruct (rev s z0); cbn; auto. destruct (c2ch s z1); cbn; auto.
  - destruct (phase s c0 =? PH_LAUNCHED) eqn:E; cbn; auto. apply Z.eqb_eq in E.
    destruct (c =? c0) eqn:E2; auto. apply Z.eqb_eq in E2. subst. rewrite E in Hp. discriminate.
  - apply phase_fold_delete_keep. auto.
  - destruct (attribute s ch) as [c0|] eqn:Ha; cbn; auto.
    destruct (c =? c0) eqn:E2; auto. apply Z.eqb_eq in E2. subst. exfalso. eapply Hch; eauto.
  - destruct (attribute s ch) as [c0|] eqn:Ha; cbn; auto.
    destruct (c =? c0) eqn:E2; auto. apply Z.eqb_eq in E2. subst. exfalso. eapply Hch; eauto.
  - destruct (attribute s ch); cbn; auto.
  - destruct (has (chans s) ch); cbn; auto.
Qed.

Lemma closed_delete_keep : forall s c ch, closed s ch = true -> closed (delete_consumer s c) ch = true.
Proof.
  intros s c ch H. unfold delete_consumer. destruct (negb _); auto.
  unfold delete_consumer_client. cbn. destruct (c2ch s c); cbn; auto.
  destruct (has (chans s) z && negb (closed s z)); cbn; auto. destruct (ch =? z); auto.
Qed.

Lemma closed_fold_delete_keep : forall l s ch, closed s ch = true -> closed (fold_left delete_consumer l s) ch = true.
Proof. induction l as [|c l IH]; cbn; intros s ch H; auto. apply IH. apply closed_delete_keep. auto. Qed.

Lemma closed_step_keep : forall s o ch, closed s ch = true -> closed (fst (pstep s o)) ch = true.
Proof.
  intros s o ch H. destruct o; cbn; auto.
  - destruct (has (conns s) conn); cbn; auto.
  - destruct (has (chans s) ch0); cbn; auto.
  - unfold launch. destruct (negb _); cbn; auto. destruct conn as [k|]; cbn; auto.
    destruct (launch_on_connection s c chain k) as [s1|] eqn:HL; cbn; auto.
    unfold launch_on_connection in HL.
    destruct (conns s k); [|discriminate]. destruct (clients s z); [|discriminate].
    destruct (negb (z0 =? chain)); [discriminate|].
    destruct (match rev s z with Some other => negb (other =? c) | None => false end); [discriminate|].
    inv_pair. cbn. auto.
  - unfold chan_open_confirm. destruct (chans s ch0); cbn; auto. destruct (underlying s z); cbn; auto.
    destruct (rev s z0); cbn; auto. destruct (c2ch s z1); cbn; auto.
  - destruct (phase s c =? PH_LAUNCHED); cbn; auto.
  - apply closed_fold_delete_keep. auto.
  - destruct (attribute s ch0); cbn; auto. destruct (ch =? ch0); auto.
  - destruct (attribute s ch0); cbn; auto.
  - destruct (attribute s ch0); cbn; auto.
  - destruct (has (chans s) ch0); cbn; auto. destruct (ch =? ch0); auto.
Qed.

Lemma thm_deleted_unbound : forall ops, let s := prun ops in
  (* a deleted consumer has no entry in any index and no packet is attributed to it *)
  (forall c, phase s c = PH_DELETED ->
     fwd s c = None /\ c2ch s c = None /\ (forall ch, ch2c s ch <> Some c) /\ (forall x, rev s x <> Some c) /\
     (forall ch, attribute s ch <> Some c)) /\
  (* the deletion itself removes BOTH channel entries whatever the state of the channel end, and closes the end *)
  (forall c ch, phase s c = PH_STOPPED -> c2ch s c = Some ch ->
     c2ch (delete_consumer s c) c = None /\ ch2c (delete_consumer s c) ch = None /\
     phase (delete_consumer s c) c = PH_DELETED /\ (chans s ch <> None -> closed (delete_consumer s c) ch = true)) /\
  (* deleted is final: no operation (in particular no late packet callback) changes the phase again *)
  (forall o c, phase s c = PH_DELETED -> phase (fst (pstep s o)) c = PH_DELETED) /\
  (* a timeout closes the (ordered) channel; a closed channel end stays closed *)
  (forall ch c, attribute s ch = Some c -> closed (fst (pstep s (PTimeout ch))) ch = true) /\
  (forall o ch, closed s ch = true -> closed (fst (pstep s o)) ch = true).
Proof.
  intros ops s. pose proof (inv_reach ops) as HI. fold s in HI.
  split.
  { intros c Hp. destruct (deleted_unbound_inv s c HI Hp) as (H1 & H2 & H3 & H4). repeat split; auto. }
  split; [intros c ch Hp Hc; apply delete_removes_both; auto|].
  split; [intros o c Hp; apply deleted_forever; auto|].
  split; [|apply closed_step_keep].
  intros ch c Ha. cbn. rewrite Ha. cbn. rewrite Z.eqb_refl. reflexivity.
Qed.

(* ---- consumer *)

Lemma thm_consumer_open_only_over_provider_client :
  (forall s order port version cpport hops,
     exists r, cstep s (COpenInit order port version cpport hops) = (s, r) /\
     (r = OK <->
      pchan s = None /\ order = ORDERED /\ port = PORT_CONSUMER /\ (version = VERSION_OK \/ version = VERSION_EMPTY) /\
      cpport = PORT_PROVIDER /\ exists conn x, hops = [conn] /\ cconns s conn = Some x /\ pclient s = Some x)) /\
  (forall s, cstep s COpenTry = (s, E_FLOW) /\ cstep s COpenConfirm = (s, E_FLOW) /\ E_FLOW <> OK) /\
  (forall s0 ops, pclient (crun s0 ops) = pclient s0).
Proof.
  split.
  { intros. eexists. split; [reflexivity|]. apply c_open_init_iff. }
  split.
  { intros s. repeat split. discriminate. }
  intros. apply pclient_run.
Qed.

Lemma thm_consumer_channel_unique :
  (* once adopted, the provider channel never changes *)
  (forall s0 ops ops' ch, pchan (crun s0 ops) = Some ch -> pchan (crun s0 (ops ++ ops')) = Some ch) /\
  (* it is set only by a VSC packet, on the channel the packet arrived on *)
  (forall s o ch, pchan s = None -> pchan (fst (cstep s o)) = Some ch -> o = CRecvVSC ch) /\
  (* the first VSC packet is accepted and fixes it *)
  (forall s ch, pchan s = None ->
     snd (cstep s (CRecvVSC ch)) = OK /\ pchan (fst (cstep s (CRecvVSC ch))) = Some ch) /\
  (* later packets: accepted on the same channel, rejected (panic, nothing changes) on any other *)
  (forall s ch, pchan s = Some ch -> cstep s (CRecvVSC ch) = (s, OK)) /\
  (forall s ch ch', pchan s = Some ch -> ch' <> ch -> cstep s (CRecvVSC ch') = (s, E_PANIC)) /\
  (* only duplicates of the adopted channel may be closed *)
  (forall s ch, exists r, cstep s (CCloseInit ch) = (s, r) /\ (r = OK <-> exists p, pchan s = Some p /\ p <> ch)).
Proof.
  split.
  { intros s0 ops ops' ch H. rewrite crun_app. apply pchan_run_keep. auto. }
  split; [apply pchan_step_set|]. split; [apply recv_vsc_first|]. split; [apply recv_vsc_same|].
  split; [apply recv_vsc_other|].
  intros s ch. eexists. split; [reflexivity|]. apply close_init_iff.
Qed.
