(* Lemmas about Model/Evidence.v (property C07).  The theorems of Props/C07.v are exact copies of
   lemmas proved here. *)
From Coq Require Import ZArith List Bool Lia.
From ICS Require Import Base.Dec Base.Tree Model.Evidence.
Import ListNotations.
Open Scope Z_scope.

Ltac dm :=
  match goal with
  | |- context [match ?x with _ => _ end] => destruct x eqn:?
  end.
Ltac dmh H :=
  match type of H with
  | context [match ?x with _ => _ end] => destruct x eqn:?
  end.

(* ---------------------------------------------------------------- lists and the validator table *)

Lemma nth_error_upd_same : forall {A} (l : list A) n x y,
  nth_error l n = Some y -> nth_error (upd n x l) n = Some x.
Proof.
  induction l as [|a l IH]; intros n x y H; destruct n; simpl in *; try discriminate; auto.
  eapply IH; eauto.
Qed.

Lemma nth_error_upd_other : forall {A} (l : list A) n m x,
  n <> m -> nth_error (upd n x l) m = nth_error l m.
Proof.
  induction l as [|a l IH]; intros n m x H; destruct n, m; simpl; auto; try congruence.
Qed.

Lemma length_upd : forall {A} (l : list A) n x, length (upd n x l) = length l.
Proof. induction l; intros [|n] x; simpl; auto. Qed.

Lemma getv_setv_same : forall s p v v0, getv s p = Some v0 -> getv (setv s p v) p = Some v.
Proof.
  unfold getv, setv; intros s p v v0 H. destruct (p <? 0) eqn:Hp; [discriminate|].
  simpl. eapply nth_error_upd_same; eauto.
Qed.

Lemma getv_setv_other : forall s p v i, i <> p -> getv (setv s p v) i = getv s i.
Proof.
  unfold getv, setv; intros s p v i H. destruct (p <? 0) eqn:Hp; auto.
  simpl. destruct (i <? 0) eqn:Hi; auto.
  apply nth_error_upd_other. apply Z.ltb_ge in Hp, Hi. lia.
Qed.

Lemma setv_time : forall s p v, s_time (setv s p v) = s_time s.
Proof. unfold setv; intros; destruct (p <? 0); auto. Qed.
Lemma setv_cons : forall s p v, s_cons (setv s p v) = s_cons s.
Proof. unfold setv; intros; destruct (p <? 0); auto. Qed.
Lemma setv_len : forall s p v, length (s_vals (setv s p v)) = length (s_vals s).
Proof. unfold setv; intros; destruct (p <? 0); simpl; auto using length_upd. Qed.
Lemma getc_setv : forall s p v c, getc (setv s p v) c = getc s c.
Proof. unfold getc; intros; rewrite setv_cons; auto. Qed.

Lemma memz_In : forall x l, memz x l = true <-> In x l.
Proof.
  induction l as [|y l IH]; simpl; [split; [discriminate|tauto]|].
  rewrite orb_true_iff, IH, Z.eqb_eq. tauto.
Qed.

(* ---------------------------------------------------------------- one punishment *)

Lemma guard_slashed : forall ds v, guard_rec (slashed_rec ds v) = guard_rec v.
Proof. reflexivity. Qed.

Definition gpass (s : state) (p : Z) : Prop := exists v, getv s p = Some v /\ guard_rec v = 0.

Lemma guard_rec_0 : forall v, guard_rec v = 0 <-> v_status v <> UNBONDED /\ v_tomb v = false.
Proof.
  intro v; unfold guard_rec, E_UNBONDED, E_TOMB.
  destruct (v_status v =? UNBONDED) eqn:E; [apply Z.eqb_eq in E | apply Z.eqb_neq in E];
    destruct (v_tomb v); split; intros; try lia; try tauto; try (destruct H; congruence).
Qed.

Lemma guards_ok : forall s p v, guards s p = Ok v <-> getv s p = Some v /\ guard_rec v = 0.
Proof.
  unfold guards; intros s p v. destruct (getv s p) as [w|]; [|split; [discriminate|intros [H _]; discriminate]].
  destruct (guard_rec w =? 0) eqn:E.
  - apply Z.eqb_eq in E. split; [intros H; inversion H; subst; auto | intros [H _]; inversion H; auto].
  - apply Z.eqb_neq in E. split; [discriminate | intros [H G]; inversion H; subst; contradiction].
Qed.

Lemma guards_err : forall s p x, guards s p = Err x -> ~ gpass s p.
Proof.
  unfold guards, gpass; intros s p x H [v [Hv G]]. rewrite Hv in H.
  rewrite G in H. simpl in H. discriminate.
Qed.

(* SlashValidator followed by JailAndTombstoneValidator on the same address *)
Definition punish_one (s : state) (p : Z) (ds : dsparams) (v : vrec) : state :=
  setv (setv s p (slashed_rec ds v)) p (punished_rec (s_time s) ds v).

Lemma slash_then_jail : forall s p ds s1,
  slash_validator s p ds = Ok s1 ->
  exists v, getv s p = Some v /\ guard_rec v = 0 /\ s1 = setv s p (slashed_rec ds v) /\
    jail_and_tombstone s1 p ds =
      if negb (v_sinfo v) then Err E_JAIL else Ok (punish_one s p ds v).
Proof.
  unfold slash_validator; intros s p ds s1 H.
  destruct (guards s p) as [v|] eqn:G; [|discriminate]. inversion H; subst s1; clear H.
  apply guards_ok in G. destruct G as [Hv G]. exists v. repeat split; auto.
  unfold jail_and_tombstone.
  assert (G1 : guards (setv s p (slashed_rec ds v)) p = Ok (slashed_rec ds v)).
  { apply guards_ok. split; [eapply getv_setv_same; eauto | rewrite guard_slashed; auto]. }
  rewrite G1. simpl v_sinfo. destruct (v_sinfo v); simpl; auto.
  unfold punish_one, punished_rec. rewrite setv_time. reflexivity.
Qed.

Lemma slash_err : forall s p ds x, slash_validator s p ds = Err x -> ~ gpass s p.
Proof.
  unfold slash_validator; intros s p ds x H. destruct (guards s p) eqn:G; [discriminate|].
  eapply guards_err; eauto.
Qed.

Lemma slash_ok_of_gpass : forall s p ds v, getv s p = Some v -> guard_rec v = 0 ->
  slash_validator s p ds = Ok (setv s p (slashed_rec ds v)).
Proof.
  intros s p ds v Hv G. unfold slash_validator.
  assert (H : guards s p = Ok v) by (apply guards_ok; auto). rewrite H. reflexivity.
Qed.

Lemma punish_one_getv_same : forall s p ds v, getv s p = Some v ->
  getv (punish_one s p ds v) p = Some (punished_rec (s_time s) ds v).
Proof.
  intros. unfold punish_one. eapply getv_setv_same. eapply getv_setv_same; eauto.
Qed.
Lemma punish_one_getv_other : forall s p ds v i, i <> p -> getv (punish_one s p ds v) i = getv s i.
Proof. intros. unfold punish_one. rewrite !getv_setv_other; auto. Qed.
Lemma punish_one_time : forall s p ds v, s_time (punish_one s p ds v) = s_time s.
Proof. intros. unfold punish_one. rewrite !setv_time; auto. Qed.
Lemma punish_one_cons : forall s p ds v, s_cons (punish_one s p ds v) = s_cons s.
Proof. intros. unfold punish_one. rewrite !setv_cons; auto. Qed.
Lemma punish_one_len : forall s p ds v, length (s_vals (punish_one s p ds v)) = length (s_vals s).
Proof. intros. unfold punish_one. rewrite !setv_len; auto. Qed.

(* ---------------------------------------------------------------- double voting *)

Definition dv_conditions (s : state) (entry : Z) (e : dv) : Prop :=
  exists c cl chain ds,
    getc s (dv_cons e) = Some c /\ c_client c = Some cl /\ c_minh c <= dv_height e /\
    c_chain c = Some chain /\
    (entry = 0 -> dv_vb_ok e = true /\ dv_bid_cmp e < 0 /\ dv_valset_ok e = true /\ dv_key_in_valset e = true) /\
    (entry <> 0 -> dv_key_present e = true) /\
    dv_key_addr_ok e = true /\ dv_hrt_eq e = true /\ dv_addr_eq e = true /\ dv_bid_cmp e <> 0 /\
    In chain (dv_sigA e) /\ In chain (dv_sigB e) /\ c_ds c = Some ds.

Definition punishable_at (s : state) (p : Z) : Prop :=
  exists v, getv s p = Some v /\ v_status v <> UNBONDED /\ v_tomb v = false /\ v_sinfo v = true.

Lemma verify_dv_0 : forall kp e chain,
  verify_dv kp e chain = 0 <->
  kp = true /\ dv_key_addr_ok e = true /\ dv_hrt_eq e = true /\ dv_addr_eq e = true /\ dv_bid_cmp e <> 0 /\
  In chain (dv_sigA e) /\ In chain (dv_sigB e).
Proof.
  intros kp e chain. unfold verify_dv. rewrite <- !memz_In.
  destruct kp, (dv_key_addr_ok e), (dv_hrt_eq e), (dv_addr_eq e); simpl;
    try (split; [intro H; discriminate H | intros H; decompose [and] H; discriminate]).
  destruct (dv_bid_cmp e =? 0) eqn:B; [apply Z.eqb_eq in B | apply Z.eqb_neq in B].
  { split; [intro H; discriminate H | intros H; decompose [and] H; contradiction]. }
  destruct (memz chain (dv_sigA e)), (memz chain (dv_sigB e)); simpl;
    try (split; [intro H; discriminate H | intros H; decompose [and] H; discriminate]).
  split; auto. intros _. repeat split; auto.
Qed.

Lemma dv_check_0 : forall s kp e,
  dv_check s kp e = 0 <->
  exists c cl chain ds,
    getc s (dv_cons e) = Some c /\ c_client c = Some cl /\ c_minh c <= dv_height e /\
    c_chain c = Some chain /\ verify_dv kp e chain = 0 /\ c_ds c = Some ds.
Proof.
  intros s kp e. unfold dv_check. split.
  - intro H. destruct (getc s (dv_cons e)) as [c|]; [|discriminate H].
    destruct (c_client c) as [cl|] eqn:Hcl; [|discriminate H].
    destruct (dv_height e <? c_minh c) eqn:Hh; [discriminate H|]. apply Z.ltb_ge in Hh.
    destruct (c_chain c) as [chain|] eqn:Hch; [|discriminate H].
    destruct (verify_dv kp e chain =? 0) eqn:Hv; simpl in H.
    + apply Z.eqb_eq in Hv. destruct (c_ds c) as [ds|] eqn:Hds; [|discriminate H].
      exists c, cl, chain, ds. repeat split; auto.
    + apply Z.eqb_neq in Hv. contradiction.
  - intros [c [cl [chain [ds [Hc [Hcl [Hh [Hch [Hv Hds]]]]]]]]].
    rewrite Hc, Hcl. apply Z.ltb_ge in Hh. rewrite Hh, Hch, Hv, Hds. reflexivity.
Qed.

Lemma handle_dv_spec : forall s kp e,
  let p := dv_target s e in
  let ds := ds_of s (dv_cons e) in
  (snd (fst (handle_dv s kp e)) = 0 <-> dv_check s kp e = 0 /\ punishable_at s p) /\
  (snd (fst (handle_dv s kp e)) = 0 ->
     exists v, getv s p = Some v /\ fst (fst (handle_dv s kp e)) = punish_one s p ds v) /\
  (snd (fst (handle_dv s kp e)) <> 0 -> fst (fst (handle_dv s kp e)) = s).
Proof.
  intros s kp e p ds. unfold handle_dv. fold p. fold ds.
  destruct (dv_check s kp e =? 0) eqn:C; simpl negb; cbv iota.
  2:{ apply Z.eqb_neq in C. simpl. repeat split; auto; intros; try tauto; try contradiction. }
  apply Z.eqb_eq in C.
  destruct (slash_validator s p ds) as [s1|x] eqn:SV.
  - destruct (slash_then_jail _ _ _ _ SV) as [v [Hv [G [Hs1 J]]]]. rewrite J.
    destruct (v_sinfo v) eqn:SI; simpl.
    + split; [|split].
      * split; auto. intros _. split; auto. exists v. apply guard_rec_0 in G. tauto.
      * intros _. exists v. auto.
      * intro H; contradiction.
    + split; [|split].
      * split; [unfold E_JAIL; intro H; discriminate H|].
        intros [_ [w [Hw [_ [_ Hsi]]]]]. rewrite Hv in Hw. inversion Hw; subst. congruence.
      * unfold E_JAIL; intro H; discriminate H.
      * auto.
  - simpl. assert (NG := slash_err _ _ _ _ SV).
    assert (Hx : x <> 0).
    { unfold slash_validator, guards in SV. destruct (getv s p) as [w|]; [|inversion SV; unfold E_NOTFOUND; lia].
      destruct (guard_rec w =? 0) eqn:E; [discriminate|]. apply Z.eqb_neq in E. inversion SV; subst; auto. }
    split; [|split].
    + split; [intro; contradiction|].
      intros [_ [w [Hw [A [B _]]]]]. exfalso. apply NG. exists w. split; auto. apply guard_rec_0; auto.
    + intro; contradiction.
    + auto.
Qed.

Lemma dv_conditions_iff : forall s entry e,
  dv_conditions s entry e <->
  (entry = 0 -> dv_vb_ok e = true /\ dv_bid_cmp e < 0 /\ dv_valset_ok e = true /\ dv_key_in_valset e = true) /\
  dv_check s (if entry =? 0 then true else dv_key_present e) e = 0.
Proof.
  intros s entry e. rewrite dv_check_0. unfold dv_conditions. split.
  - intros [c [cl [chain [ds [Hc [Hcl [Hh [Hch [M [K [A1 [A2 [A3 [A4 [A5 [A6 A7]]]]]]]]]]]]]]]]. split; auto.
    exists c, cl, chain, ds. repeat split; auto. apply verify_dv_0. repeat split; auto.
    destruct (entry =? 0) eqn:E; auto. apply Z.eqb_neq in E. auto.
  - intros [M [c [cl [chain [ds [Hc [Hcl [Hh [Hch [Hv Hds]]]]]]]]]].
    apply verify_dv_0 in Hv. destruct Hv as [K [A1 [A2 [A3 [A4 [A5 A6]]]]]].
    exists c, cl, chain, ds. repeat split; auto; try (apply M; auto).
    intro N. apply Z.eqb_neq in N. rewrite N in K. auto.
Qed.

Lemma submit_dv_spec : forall s entry e,
  let r := submit_dv s entry e in
  let p := dv_target s e in
  let ds := ds_of s (dv_cons e) in
  (snd (fst r) = 0 <-> dv_conditions s entry e /\ punishable_at s p) /\
  (snd (fst r) = 0 -> exists v, getv s p = Some v /\ fst (fst r) = punish_one s p ds v) /\
  (snd (fst r) <> 0 -> fst (fst r) = s).
Proof.
  intros s entry e r p ds. subst r. unfold submit_dv. rewrite dv_conditions_iff.
  destruct (entry =? 0) eqn:E; [apply Z.eqb_eq in E | apply Z.eqb_neq in E].
  - destruct (dv_vb_ok e) eqn:VB; simpl.
    2:{ unfold E_VB. split; [split; [intro H; discriminate H|] | split; [intro H; discriminate H | auto]].
        intros [[M _] _]. destruct (M E) as [X _]. discriminate X. }
    destruct (0 <=? dv_bid_cmp e) eqn:B; simpl.
    { apply Z.leb_le in B. unfold E_VB.
      split; [split; [intro H; discriminate H|] | split; [intro H; discriminate H | auto]].
      intros [[M _] _]. destruct (M E) as [_ [X _]]. lia. }
    apply Z.leb_gt in B.
    destruct (dv_valset_ok e) eqn:VS; simpl.
    2:{ unfold E_VALSET. split; [split; [intro H; discriminate H|] | split; [intro H; discriminate H | auto]].
        intros [[M _] _]. destruct (M E) as [_ [_ [X _]]]. discriminate X. }
    destruct (dv_key_in_valset e) eqn:KV; simpl.
    2:{ unfold E_NOKEY. split; [split; [intro H; discriminate H|] | split; [intro H; discriminate H | auto]].
        intros [[M _] _]. destruct (M E) as [_ [_ [_ X]]]. discriminate X. }
    destruct (handle_dv_spec s true e) as [A [B' C]]. fold p in A, B', C. fold ds in B'.
    split; [|split; auto].
    split.
    + intro H. apply A in H. destruct H as [H1 H2]. split; auto.
    + intros [[_ H1] H2]. apply A. auto.
  - destruct (handle_dv_spec s (dv_key_present e) e) as [A [B' C]]. fold p in A, B', C. fold ds in B'.
    split; [|split; auto].
    split.
    + intro H. apply A in H. destruct H as [H1 H2]. split; auto. split; auto. intro; contradiction.
    + intros [[_ H1] H2]. apply A. auto.
Qed.

(* ---------------------------------------------------------------- GetByzantineValidators *)

Lemma last_signer_some : forall a l e, last_signer a l = Some e -> In e l /\ signed e = true /\ g_addr e = a.
Proof.
  induction l as [|x l IH]; simpl; intros e H; [discriminate|].
  destruct (last_signer a l) as [y|] eqn:L.
  - inversion H; subst. destruct (IH e eq_refl) as [A [B C]]. auto.
  - destruct (signed x && (g_addr x =? a)) eqn:SG; [|discriminate]. inversion H; subst.
    apply andb_true_iff in SG. destruct SG as [S1 S2]. apply Z.eqb_eq in S2. auto.
Qed.

Lemma last_signer_none : forall a l, last_signer a l = None <-> forall e, In e l -> signed e = true -> g_addr e <> a.
Proof.
  induction l as [|x l IH]; simpl; [split; auto; intros _ e []|].
  destruct (last_signer a l) as [y|] eqn:L.
  - split; [discriminate|]. intros H. exfalso.
    destruct (last_signer_some _ _ _ L) as [A [B C]]. eapply H; eauto.
  - destruct (signed x && (g_addr x =? a)) eqn:SV.
    + split; [discriminate|]. intro H. apply andb_true_iff in SV. destruct SV as [S1 S2]. apply Z.eqb_eq in S2.
      exfalso. eapply H; eauto.
    + split; auto. intros _ e [He|He] Sg.
      * subst. rewrite Sg in SV. simpl in SV. apply Z.eqb_neq in SV. auto.
      * apply (proj1 IH eq_refl); auto.
Qed.

(* e signed header 2 and somebody with its address signed header 1 *)
Definition common (s1 : list sigent) (e : sigent) : bool :=
  signed e && match last_signer (g_addr e) s1 with Some _ => true | None => false end.

Lemma byz_loop_ok : forall s1 l2 l, byz_loop s1 l2 = Ok l -> l = map g_addr (filter (common s1) l2).
Proof.
  induction l2 as [|e t IH]; simpl; intros l H; [inversion H; auto|].
  unfold common at 1. destruct (signed e); simpl in *; auto.
  destruct (last_signer (g_addr e) s1) as [e1|]; simpl; auto.
  destruct (g_ok e1); simpl in H; [|discriminate]. destruct (g_ok e); simpl in H; [|discriminate].
  destruct (byz_loop s1 t) as [r|]; [|discriminate]. inversion H; subst. simpl. f_equal. auto.
Qed.

Lemma byz_loop_ok_iff : forall s1 l2,
  (exists l, byz_loop s1 l2 = Ok l) <->
  (forall e2 e1, In e2 l2 -> signed e2 = true -> last_signer (g_addr e2) s1 = Some e1 ->
                 g_ok e1 = true /\ g_ok e2 = true).
Proof.
  induction l2 as [|e t IH]; simpl.
  - split; [intros _ e2 e1 [] | eauto].
  - destruct (signed e) eqn:Sg; simpl.
    + destruct (last_signer (g_addr e) s1) as [e1|] eqn:L.
      * destruct (g_ok e1) eqn:O1; simpl.
        -- destruct (g_ok e) eqn:O2; simpl.
           ++ split.
              ** intros [l H]. destruct (byz_loop s1 t) as [r|] eqn:B; [|discriminate].
                 intros e2 e1' [He|He] S2 L2.
                 { subst e2. rewrite L in L2. inversion L2; subst. auto. }
                 { apply (proj1 IH (ex_intro _ r eq_refl) e2 e1'); auto. }
              ** intros H. destruct (proj2 IH) as [r Hr]; [intros; eapply H; eauto|]. rewrite Hr. eauto.
           ++ split; [intros [l H]; discriminate|]. intros H.
              destruct (H e e1 (or_introl eq_refl) Sg L) as [_ X]. congruence.
        -- split; [intros [l H]; discriminate|]. intros H.
           destruct (H e e1 (or_introl eq_refl) Sg L) as [X _]. congruence.
      * rewrite IH. split; intros H e2 e1; [intros [He|He]|intros He]; intros; try (eapply H; eauto; fail).
        subst. congruence.
    + rewrite IH. split; intros H e2 e1; [intros [He|He]|intros He]; intros; try (eapply H; eauto; fail).
      subst. congruence.
Qed.

Lemma byz_loop_err : forall s1 l2 x, byz_loop s1 l2 = Err x -> x = E_SIG.
Proof.
  induction l2 as [|e t IH]; simpl; intros x H; [discriminate|].
  destruct (signed e); simpl in H; auto. destruct (last_signer (g_addr e) s1) as [e1|]; auto.
  destruct (g_ok e1); simpl in H; [|inversion H; auto]. destruct (g_ok e); simpl in H; [|inversion H; auto].
  destruct (byz_loop s1 t) eqn:B; [discriminate|]. inversion H; subst. auto.
Qed.

Lemma common_In : forall s1 l2 a,
  In a (map g_addr (filter (common s1) l2)) <->
  (exists e2, In e2 l2 /\ signed e2 = true /\ g_addr e2 = a) /\
  (exists e1, In e1 s1 /\ signed e1 = true /\ g_addr e1 = a).
Proof.
  intros s1 l2 a. rewrite in_map_iff. split.
  - intros [e [Ha He]]. apply filter_In in He. destruct He as [He C]. unfold common in C.
    apply andb_true_iff in C. destruct C as [Sg C].
    destruct (last_signer (g_addr e) s1) as [e1|] eqn:L; [|discriminate].
    destruct (last_signer_some _ _ _ L) as [A [B D]]. split; [exists e | exists e1]; repeat split; auto. congruence.
  - intros [[e2 [I2 [S2 A2]]] [e1 [I1 [S1 A1]]]]. exists e2. split; auto. apply filter_In. split; auto.
    unfold common. rewrite S2. simpl. destruct (last_signer (g_addr e2) s1) eqn:L; auto.
    exfalso. eapply (proj1 (last_signer_none _ _) L); eauto. congruence.
Qed.

Lemma get_byzantine_spec : forall m l,
  get_byzantine m = Ok l ->
  mb_lb_ok m = true /\
  (mb_conflict m = false /\ mb_rounds_eq m = false -> l = []) /\
  (mb_conflict m = true \/ mb_rounds_eq m = true ->
     l = map g_addr (filter (common (mb_sigs1 m)) (mb_sigs2 m)) /\
     forall e2 e1, In e2 (mb_sigs2 m) -> signed e2 = true -> last_signer (g_addr e2) (mb_sigs1 m) = Some e1 ->
                   g_ok e1 = true /\ g_ok e2 = true).
Proof.
  unfold get_byzantine. intros m l H. destruct (mb_lb_ok m); simpl in H; [|discriminate]. split; auto.
  destruct (mb_conflict m), (mb_rounds_eq m); simpl in H; split;
    try (intros [A B]; discriminate); try (intros [A|A]; discriminate A);
    try (intros _; split; [apply byz_loop_ok; auto | apply byz_loop_ok_iff; eauto]).
  intros _. inversion H; auto.
Qed.

(* ---------------------------------------------------------------- the punish loop *)

Lemma punish_n_not_punishable : forall now ds k v, punishable v = false -> punish_n now ds k v = v.
Proof. intros now ds [|k] v H; simpl; auto. rewrite H. auto. Qed.

Lemma count_res_cons : forall c i a t,
  count_res c i (a :: t) = if resolve c a =? i then S (count_res c i t) else count_res c i t.
Proof. intros. unfold count_res. simpl. destruct (resolve c a =? i); auto. Qed.

Lemma punishable_gpass : forall s p v, getv s p = Some v -> (punishable v = true <-> gpass s p).
Proof.
  intros s p v H. unfold punishable, gpass. rewrite Z.eqb_eq. split.
  - intro G. exists v. auto.
  - intros [w [Hw G]]. congruence.
Qed.

Lemma punish_spec : forall c ds l s n s' n',
  punish s c ds l n = Ok (s', n') ->
  s_time s' = s_time s /\ s_cons s' = s_cons s /\ length (s_vals s') = length (s_vals s) /\
  (forall i, getv s' i = option_map (punish_n (s_time s) ds (count_res c i l)) (getv s i)) /\
  n <= n' /\ (n' = n -> s' = s) /\
  (n < n' <-> exists a, In a l /\ gpass s (resolve c a)).
Proof.
  induction l as [|a t IH]; intros s n s' n' H; simpl in H.
  - inversion H; subst. repeat split; auto; try lia.
    + intro i. unfold count_res. simpl. destruct (getv s' i); auto.
    + intros [a [[] _]].
  - set (p := resolve c a) in *.
    destruct (slash_validator s p ds) as [s1|x] eqn:SV.
    + destruct (slash_then_jail _ _ _ _ SV) as [v [Hv [G [Hs1 J]]]]. rewrite J in H.
      destruct (v_sinfo v) eqn:SI; simpl in H; [|discriminate].
      destruct (IH _ _ _ _ H) as [T [C [L [V [N [E X]]]]]].
      rewrite punish_one_time in T. rewrite punish_one_cons in C. rewrite punish_one_len in L.
      repeat split; auto; try lia.
      * intro i. rewrite V, punish_one_time, count_res_cons. fold p.
        destruct (p =? i) eqn:Ei; [apply Z.eqb_eq in Ei | apply Z.eqb_neq in Ei].
        -- subst i. rewrite (punish_one_getv_same _ _ _ _ Hv), Hv. simpl.
           unfold punishable. rewrite G. reflexivity.
        -- rewrite punish_one_getv_other; auto.
      * intros _. exists a. split; [left; auto|]. exists v. auto.
    + assert (NG := slash_err _ _ _ _ SV).
      destruct (IH _ _ _ _ H) as [T [C [L [V [N [E X]]]]]].
      repeat split; auto.
      * intro i. rewrite V, count_res_cons. fold p.
        destruct (p =? i) eqn:Ei; [apply Z.eqb_eq in Ei | auto].
        subst i. destruct (getv s p) as [v|] eqn:Hv; cbn [option_map]; auto.
        assert (P : punishable v = false).
        { destruct (punishable v) eqn:P; auto. exfalso. apply NG. eapply punishable_gpass; eauto. }
        rewrite (punish_n_not_punishable _ _ (count_res c p t) v P).
        rewrite (punish_n_not_punishable _ _ (S (count_res c p t)) v P). reflexivity.
      * intro Hn. apply X in Hn. destruct Hn as [b [Hb Gb]]. exists b. split; [right|]; auto.
      * intros [b [[Hb|Hb] Gb]]; [subst b; contradiction|]. apply X. eauto.
Qed.

Definition bad (s : state) (p : Z) : Prop :=
  exists v, getv s p = Some v /\ guard_rec v = 0 /\ v_sinfo v = false.

Lemma punish_err : forall c ds l s n,
  (exists x, punish s c ds l n = Err x) <-> exists a, In a l /\ bad s (resolve c a).
Proof.
  induction l as [|a t IH]; intros s n; simpl.
  - split; [intros [x H]; discriminate | intros [a [[] _]]].
  - set (p := resolve c a).
    destruct (slash_validator s p ds) as [s1|x] eqn:SV.
    + destruct (slash_then_jail _ _ _ _ SV) as [v [Hv [G [Hs1 J]]]]. rewrite J.
      destruct (v_sinfo v) eqn:SI; simpl.
      * rewrite IH. split; intros [b [Hb [w [Hw [Gw Sw]]]]].
        -- exists b. split; auto. exists w.
           destruct (Z.eq_dec (resolve c b) p) as [E|E].
           ++ rewrite E in Hw. rewrite (punish_one_getv_same _ _ _ _ Hv) in Hw. inversion Hw; subst w.
              simpl in Sw. congruence.
           ++ rewrite punish_one_getv_other in Hw; auto.
        -- destruct Hb as [Hb|Hb].
           ++ subst b. fold p in Hw. congruence.
           ++ exists b. split; auto. exists w.
              destruct (Z.eq_dec (resolve c b) p) as [E|E]; [rewrite E in Hw; congruence|].
              rewrite punish_one_getv_other; auto.
      * split; [|eauto]. intros _. exists a. split; auto. exists v. auto.
    + assert (NG := slash_err _ _ _ _ SV). rewrite IH.
      split; intros [b [Hb Bb]]; [exists b; auto|].
      destruct Hb as [Hb|Hb]; [|eauto]. subst b. exfalso. apply NG.
      destruct Bb as [w [Hw [Gw _]]]. exists w. auto.
Qed.

(* ---------------------------------------------------------------- misbehaviour *)

Definition mb_conditions (s : state) (entry : Z) (m : mb) (c : cons) (ds : dsparams) (l : list Z) : Prop :=
  exists chain cl,
    getc s (mb_cons m) = Some c /\ c_chain c = Some chain /\ chain = mb_chain m /\
    c_client c = Some cl /\ cl = mb_client m /\ mb_heights_eq m = true /\ c_minh c <= mb_height m /\
    mb_cfm m = true /\ mb_vcm m = true /\ (entry = 0 -> mb_vb_ok m = true) /\
    get_byzantine m = Ok l /\ c_ds c = Some ds.

Lemma mb_check_0 : forall s m,
  mb_check s m = 0 <->
  exists c chain cl,
    getc s (mb_cons m) = Some c /\ c_chain c = Some chain /\ chain = mb_chain m /\
    c_client c = Some cl /\ cl = mb_client m /\ mb_heights_eq m = true /\ c_minh c <= mb_height m /\
    mb_cfm m = true /\ mb_vcm m = true.
Proof.
  intros s m. unfold mb_check. split.
  - intro H. destruct (getc s (mb_cons m)) as [c|]; [|discriminate H].
    destruct (c_chain c) as [chain|] eqn:Hch; [|discriminate H].
    destruct (chain =? mb_chain m) eqn:E1; simpl in H; [apply Z.eqb_eq in E1|discriminate H].
    destruct (c_client c) as [cl|] eqn:Hcl; [|discriminate H].
    destruct (cl =? mb_client m) eqn:E2; simpl in H; [apply Z.eqb_eq in E2|discriminate H].
    destruct (mb_heights_eq m) eqn:E3; simpl in H; [|discriminate H].
    destruct (mb_height m <? c_minh c) eqn:E4; [discriminate H|]. apply Z.ltb_ge in E4.
    destruct (mb_cfm m) eqn:E5; simpl in H; [|discriminate H].
    destruct (mb_vcm m) eqn:E6; simpl in H; [|discriminate H].
    exists c, chain, cl. repeat split; auto.
  - intros [c [chain [cl [Hc [Hch [E1 [Hcl [E2 [E3 [E4 [E5 E6]]]]]]]]]]]. subst.
    rewrite Hc, Hch, Z.eqb_refl, Hcl, Z.eqb_refl, E3, E5, E6. simpl.
    apply Z.ltb_ge in E4. rewrite E4. reflexivity.
Qed.

Lemma handle_mb_spec : forall s m,
  let r := handle_mb s m in
  (snd (fst r) = 0 <->
     exists c ds l, mb_conditions s 1 m c ds l /\
       (exists a, In a l /\ gpass s (resolve c a)) /\
       (forall a, In a l -> ~ bad s (resolve c a))) /\
  (snd (fst r) = 0 ->
     forall c ds l, mb_conditions s 1 m c ds l ->
       s_time (fst (fst r)) = s_time s /\ s_cons (fst (fst r)) = s_cons s /\
       length (s_vals (fst (fst r))) = length (s_vals s) /\
       forall i, getv (fst (fst r)) i = option_map (punish_n (s_time s) ds (count_res c i l)) (getv s i)) /\
  (snd (fst r) <> 0 -> fst (fst r) = s).
Proof.
  intros s m r. subst r. unfold handle_mb.
  assert (NC : forall c ds l, mb_conditions s 1 m c ds l -> mb_check s m = 0).
  { intros c ds l [chain [cl H]]. decompose [and] H; clear H. apply mb_check_0.
    exists c, chain, cl. repeat split; auto. }
  destruct (mb_check s m =? 0) eqn:C; simpl negb; cbv iota.
  2:{ apply Z.eqb_neq in C. simpl. repeat split; auto; try contradiction.
      intros [c [ds [l [H _]]]]. exfalso. apply C. eauto. }
  apply Z.eqb_eq in C. destruct (proj1 (mb_check_0 _ _) C) as [c [chain [cl H]]].
  decompose [and] H; clear H.
  destruct (get_byzantine m) as [l|x] eqn:B.
  2:{ simpl. assert (x <> 0).
      { unfold get_byzantine in B. destruct (mb_lb_ok m); simpl in B; [|inversion B; unfold E_LB; lia].
        destruct (negb (mb_conflict m) && negb (mb_rounds_eq m)); [discriminate|].
        apply byz_loop_err in B. subst. unfold E_SIG. lia. }
      repeat split; auto; try contradiction.
      intros [c' [ds [l [[ch' [cl' Hc]] _]]]]. decompose [and] Hc. congruence. }
  rewrite H0.
  destruct (c_ds c) as [ds|] eqn:D.
  2:{ simpl. unfold E_NOPARAMS. repeat split; auto; try (intro X; discriminate X).
      intros [c' [ds [l' [[ch' [cl' Hc]] _]]]]. decompose [and] Hc. congruence. }
  assert (MC : mb_conditions s 1 m c ds l).
  { exists chain, cl. repeat split; auto. intro X; discriminate X. }
  assert (U : forall c' ds' l', mb_conditions s 1 m c' ds' l' -> c' = c /\ ds' = ds /\ l' = l).
  { intros c' ds' l' [ch' [cl' Hc]]. decompose [and] Hc. repeat split; congruence. }
  destruct (punish s c ds l 0) as [[s' n]|x] eqn:P.
  - destruct (punish_spec _ _ _ _ _ _ _ P) as [T [Cs [L [V [N [E X]]]]]].
    assert (NB : forall a, In a l -> ~ bad s (resolve c a)).
    { intros a Ha Ba. destruct (proj2 (punish_err c ds l s 0)) as [y Hy]; [eauto|]. congruence. }
    destruct (n =? 0) eqn:En; [apply Z.eqb_eq in En | apply Z.eqb_neq in En]; simpl.
    + subst n. unfold E_NOBODY. repeat split; auto; try (intro Y; discriminate Y).
      intros [c' [ds' [l' [Hc [Ex _]]]]]. destruct (U _ _ _ Hc) as [? [? ?]]; subst.
      apply X in Ex. lia.
    + repeat split; auto; try contradiction.
      * intros _. exists c, ds, l. repeat split; auto. apply X. lia.
      * destruct (U _ _ _ H) as [? [? ?]]; subst; auto.
      * destruct (U _ _ _ H) as [? [? ?]]; subst; auto.
      * destruct (U _ _ _ H) as [? [? ?]]; subst; auto.
      * destruct (U _ _ _ H) as [? [? ?]]; subst; auto.
  - simpl. assert (Hx : x <> 0).
    { clear - P. revert P. generalize 0 at 1. generalize s. induction l as [|a t IH]; simpl; intros s0 n0 P; [discriminate|].
      destruct (slash_validator s0 (resolve c a) ds); [|eauto].
      destruct (jail_and_tombstone s1 (resolve c a) ds); [eauto|]. inversion P. unfold E_PANIC. lia. }
    repeat split; auto; try contradiction.
    intros [c' [ds' [l' [Hc [_ NB]]]]]. destruct (U _ _ _ Hc) as [? [? ?]]; subst.
    destruct (proj1 (punish_err c ds l s 0)) as [a [Ha Ba]]; [eauto|]. exfalso. eapply NB; eauto.
Qed.
