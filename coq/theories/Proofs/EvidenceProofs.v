(* Lemmas about Model/Evidence.v (property C07).  The theorems of Props/C07.v are exact copies of
   lemmas proved here. *)
From Coq Require Import ZArith List Bool Lia.
From ICS Require Import Base.Dec Base.Tree Model.Evidence.
Import ListNotations.
Open Scope Z_scope.

Ltac dm :=
  match goal with
  | |- context [match ?x with _ => _ end] => destruct x eqn:?
  end.
Ltac dmh H :=
  match type of H with
  | context [match ?x with _ => _ end] => destruct x eqn:?
  end.

(* ---------------------------------------------------------------- lists and the validator table *)

Lemma nth_error_upd_same : forall {A} (l : list A) n x y,
  nth_error l n = Some y -> nth_error (upd n x l) n = Some x.
Proof.
  induction l as [|a l IH]; intros n x y H; destruct n; simpl in *; try discriminate; auto.
  eapply IH; eauto.
Qed.

Lemma nth_error_upd_other : forall {A} (l : list A) n m x,
  n <> m -> nth_error (upd n x l) m = nth_error l m.
Proof.
  induction l as [|a l IH]; intros n m x H; destruct n, m; simpl; auto; try congruence.
Qed.

Lemma length_upd : forall {A} (l : list A) n x, length (upd n x l) = length l.
Proof. induction l; intros [|n] x; simpl; auto. Qed.

Lemma getv_setv_same : forall s p v v0, getv s p = Some v0 -> getv (setv s p v) p = Some v.
Proof.
  unfold getv, setv; intros s p v v0 H. destruct (p <? 0) eqn:Hp; [discriminate|].
  simpl. eapply nth_error_upd_same; eauto.
Qed.

Lemma getv_setv_other : forall s p v i, i <> p -> getv (setv s p v) i = getv s i.
Proof.
  unfold getv, setv; intros s p v i H. destruct (p <? 0) eqn:Hp; auto.
  simpl. destruct (i <? 0) eqn:Hi; auto.
  apply nth_error_upd_other. apply Z.ltb_ge in Hp, Hi. lia.
Qed.

Lemma setv_time : forall s p v, s_time (setv s p v) = s_time s.
Proof. unfold setv; intros; destruct (p <? 0); auto. Qed.
Lemma setv_cons : forall s p v, s_cons (setv s p v) = s_cons s.
Proof. unfold setv; intros; destruct (p <? 0); auto. Qed.
Lemma setv_len : forall s p v, length (s_vals (setv s p v)) = length (s_vals s).
Proof. unfold setv; intros; destruct (p <? 0); simpl; auto using length_upd. Qed.
Lemma getc_setv : forall s p v c, getc (setv s p v) c = getc s c.
Proof. unfold getc; intros; rewrite setv_cons; auto. Qed.

Lemma memz_In : forall x l, memz x l = true <-> In x l.
Proof.
  induction l as [|y l IH]; simpl; [split; [discriminate|tauto]|].
  rewrite orb_true_iff, IH, Z.eqb_eq. tauto.
Qed.

(* ---------------------------------------------------------------- one punishment *)

Lemma guard_slashed : forall ds v, guard_rec (slashed_rec ds v) = guard_rec v.
Proof. reflexivity. Qed.

Definition gpass (s : state) (p : Z) : Prop := exists v, getv s p = Some v /\ guard_rec v = 0.

Lemma guard_rec_0 : forall v, guard_rec v = 0 <-> v_status v <> UNBONDED /\ v_tomb v = false.
Proof.
  intro v; unfold guard_rec, E_UNBONDED, E_TOMB.
  destruct (v_status v =? UNBONDED) eqn:E; [apply Z.eqb_eq in E | apply Z.eqb_neq in E];
    destruct (v_tomb v); split; intros; try lia; try tauto; try (destruct H; congruence).
Qed.

Lemma guards_ok : forall s p v, guards s p = Ok v <-> getv s p = Some v /\ guard_rec v = 0.
Proof.
  unfold guards; intros s p v. destruct (getv s p) as [w|]; [|split; [discriminate|intros [H _]; discriminate]].
  destruct (guard_rec w =? 0) eqn:E.
  - apply Z.eqb_eq in E. split; [intros H; inversion H; subst; auto | intros [H _]; inversion H; auto].
  - apply Z.eqb_neq in E. split; [discriminate | intros [H G]; inversion H; subst; contradiction].
Qed.

Lemma guards_err : forall s p x, guards s p = Err x -> ~ gpass s p.
Proof.
  unfold guards, gpass; intros s p x H [v [Hv G]]. rewrite Hv in H.
  rewrite G in H. simpl in H. discriminate.
Qed.

(* SlashValidator followed by JailAndTombstoneValidator on the same address *)
Definition punish_one (s : state) (p : Z) (ds : dsparams) (v : vrec) : state :=
  setv (setv s p (slashed_rec ds v)) p (punished_rec (s_time s) ds v).

Lemma slash_then_jail : forall s p ds s1,
  slash_validator s p ds = Ok s1 ->
  exists v, getv s p = Some v /\ guard_rec v = 0 /\ s1 = setv s p (slashed_rec ds v) /\
    jail_and_tombstone s1 p ds =
      if negb (v_sinfo v) then Err E_JAIL else Ok (punish_one s p ds v).
Proof.
  unfold slash_validator; intros s p ds s1 H.
  destruct (guards s p) as [v|] eqn:G; [|discriminate]. inversion H; subst s1; clear H.
  apply guards_ok in G. destruct G as [Hv G]. exists v. repeat split; auto.
  unfold jail_and_tombstone.
  assert (G1 : guards (setv s p (slashed_rec ds v)) p = Ok (slashed_rec ds v)).
  { apply guards_ok. split; [eapply getv_setv_same; eauto | rewrite guard_slashed; auto]. }
  rewrite G1. simpl v_sinfo. destruct (v_sinfo v); simpl; auto.
  unfold punish_one, punished_rec. rewrite setv_time. reflexivity.
Qed.

Lemma slash_err : forall s p ds x, slash_validator s p ds = Err x -> ~ gpass s p.
Proof.
  unfold slash_validator; intros s p ds x H. destruct (guards s p) eqn:G; [discriminate|].
  eapply guards_err; eauto.
Qed.

Lemma slash_ok_of_gpass : forall s p ds v, getv s p = Some v -> guard_rec v = 0 ->
  slash_validator s p ds = Ok (setv s p (slashed_rec ds v)).
Proof.
  intros s p ds v Hv G. unfold slash_validator.
  assert (H : guards s p = Ok v) by (apply guards_ok; auto). rewrite H. reflexivity.
Qed.

Lemma punish_one_getv_same : forall s p ds v, getv s p = Some v ->
  getv (punish_one s p ds v) p = Some (punished_rec (s_time s) ds v).
Proof.
  intros. unfold punish_one. eapply getv_setv_same. eapply getv_setv_same; eauto.
Qed.
Lemma punish_one_getv_other : forall s p ds v i, i <> p -> getv (punish_one s p ds v) i = getv s i.
Proof. intros. unfold punish_one. rewrite !getv_setv_other; auto. Qed.
Lemma punish_one_time : forall s p ds v, s_time (punish_one s p ds v) = s_time s.
Proof. intros. unfold punish_one. rewrite !setv_time; auto. Qed.
Lemma punish_one_cons : forall s p ds v, s_cons (punish_one s p ds v) = s_cons s.
Proof. intros. unfold punish_one. rewrite !setv_cons; auto. Qed.
Lemma punish_one_len : forall s p ds v, length (s_vals (punish_one s p ds v)) = length (s_vals s).
Proof. intros. unfold punish_one. rewrite !setv_len; auto. Qed.

(* ---------------------------------------------------------------- double voting *)

Definition dv_conditions (s : state) (entry : Z) (e : dv) : Prop :=
  exists c cl chain ds,
    getc s (dv_cons e) = Some c /\ c_client c = Some cl /\ c_minh c <= dv_height e /\
    c_chain c = Some chain /\
    (entry = 0 -> dv_vb_ok e = true /\ dv_bid_cmp e < 0 /\ dv_valset_ok e = true /\ dv_key_in_valset e = true) /\
    (entry <> 0 -> dv_key_present e = true) /\
    dv_key_addr_ok e = true /\ dv_hrt_eq e = true /\ dv_addr_eq e = true /\ dv_bid_cmp e <> 0 /\
    In chain (dv_sigA e) /\ In chain (dv_sigB e) /\ c_ds c = Some ds.

Definition punishable_at (s : state) (p : Z) : Prop :=
  exists v, getv s p = Some v /\ v_status v <> UNBONDED /\ v_tomb v = false /\ v_sinfo v = true.

Lemma verify_dv_0 : forall kp e chain,
  verify_dv kp e chain = 0 <->
  kp = true /\ dv_key_addr_ok e = true /\ dv_hrt_eq e = true /\ dv_addr_eq e = true /\ dv_bid_cmp e <> 0 /\
  In chain (dv_sigA e) /\ In chain (dv_sigB e).
Proof.
  intros kp e chain. unfold verify_dv. rewrite <- !memz_In.
  destruct kp, (dv_key_addr_ok e), (dv_hrt_eq e), (dv_addr_eq e); simpl;
    try (split; [intro H; discriminate H | intros H; decompose [and] H; discriminate]).
  destruct (dv_bid_cmp e =? 0) eqn:B; [apply Z.eqb_eq in B | apply Z.eqb_neq in B].
  { split; [intro H; discriminate H | intros H; decompose [and] H; contradiction]. }
  destruct (memz chain (dv_sigA e)), (memz chain (dv_sigB e)); simpl;
    try (split; [intro H; discriminate H | intros H; decompose [and] H; discriminate]).
  split; auto. intros _. repeat split; auto.
Qed.

Lemma dv_check_0 : forall s kp e,
  dv_check s kp e = 0 <->
  exists c cl chain ds,
    getc s (dv_cons e) = Some c /\ c_client c = Some cl /\ c_minh c <= dv_height e /\
    c_chain c = Some chain /\ verify_dv kp e chain = 0 /\ c_ds c = Some ds.
Proof.
  intros s kp e. unfold dv_check. split.
  - intro H. destruct (getc s (dv_cons e)) as [c|]; [|discriminate H].
    destruct (c_client c) as [cl|] eqn:Hcl; [|discriminate H].
    destruct (dv_height e <? c_minh c) eqn:Hh; [discriminate H|]. apply Z.ltb_ge in Hh.
    destruct (c_chain c) as [chain|] eqn:Hch; [|discriminate H].
    destruct (verify_dv kp e chain =? 0) eqn:Hv; simpl in H.
    + apply Z.eqb_eq in Hv. destruct (c_ds c) as [ds|] eqn:Hds; [|discriminate H].
      exists c, cl, chain, ds. repeat split; auto.
    + apply Z.eqb_neq in Hv. contradiction.
  - intros [c [cl [chain [ds [Hc [Hcl [Hh [Hch [Hv Hds]]]]]]]]].
    rewrite Hc, Hcl. apply Z.ltb_ge in Hh. rewrite Hh, Hch, Hv, Hds. reflexivity.
Qed.

Lemma handle_dv_spec : forall s kp e,
  let p := dv_target s e in
  let ds := ds_of s (dv_cons e) in
  (snd (fst (handle_dv s kp e)) = 0 <-> dv_check s kp e = 0 /\ punishable_at s p) /\
  (snd (fst (handle_dv s kp e)) = 0 ->
     exists v, getv s p = Some v /\ fst (fst (handle_dv s kp e)) = punish_one s p ds v) /\
  (snd (fst (handle_dv s kp e)) <> 0 -> fst (fst (handle_dv s kp e)) = s).
Proof.
  intros s kp e p ds. unfold handle_dv. fold p. fold ds.
  destruct (dv_check s kp e =? 0) eqn:C; simpl negb; cbv iota.
  2:{ apply Z.eqb_neq in C. simpl. repeat split; auto; intros; try tauto; try contradiction. }
  apply Z.eqb_eq in C.
  destruct (slash_validator s p ds) as [s1|x] eqn:SV.
  - destruct (slash_then_jail _ _ _ _ SV) as [v [Hv [G [Hs1 J]]]]. rewrite J.
    destruct (v_sinfo v) eqn:SI; simpl.
    + split; [|split].
      * split; auto. intros _. split; auto. exists v. apply guard_rec_0 in G. tauto.
      * intros _. exists v. auto.
      * intro H; contradiction.
    + split; [|split].
      * split; [unfold E_JAIL; intro H; discriminate H|].
        intros [_ [w [Hw [_ [_ Hsi]]]]]. rewrite Hv in Hw. inversion Hw; subst. congruence.
      * unfold E_JAIL; intro H; discriminate H.
      * auto.
  - simpl. assert (NG := slash_err _ _ _ _ SV).
    assert (Hx : x <> 0).
    { unfold slash_validator, guards in SV. destruct (getv s p) as [w|]; [|inversion SV; unfold E_NOTFOUND; lia].
      destruct (guard_rec w =? 0) eqn:E; [discriminate|]. apply Z.eqb_neq in E. inversion SV; subst; auto. }
    split; [|split].
    + split; [intro; contradiction|].
      intros [_ [w [Hw [A [B _]]]]]. exfalso. apply NG. exists w. split; auto. apply guard_rec_0; auto.
    + intro; contradiction.
    + auto.
Qed.

Lemma dv_conditions_iff : forall s entry e,
  dv_conditions s entry e <->
  (entry = 0 -> dv_vb_ok e = true /\ dv_bid_cmp e < 0 /\ dv_valset_ok e = true /\ dv_key_in_valset e = true) /\
  dv_check s (if entry =? 0 then true else dv_key_present e) e = 0.
Proof.
  intros s entry e. rewrite dv_check_0. unfold dv_conditions. split.
  - intros [c [cl [chain [ds [Hc [Hcl [Hh [Hch [M [K [A1 [A2 [A3 [A4 [A5 [A6 A7]]]]]]]]]]]]]]]]. split; auto.
    exists c, cl, chain, ds. repeat split; auto. apply verify_dv_0. repeat split; auto.
    destruct (entry =? 0) eqn:E; auto. apply Z.eqb_neq in E. auto.
  - intros [M [c [cl [chain [ds [Hc [Hcl [Hh [Hch [Hv Hds]]]]]]]]]].
    apply verify_dv_0 in Hv. destruct Hv as [K [A1 [A2 [A3 [A4 [A5 A6]]]]]].
    exists c, cl, chain, ds. repeat split; auto; try (apply M; auto).
    intro N. apply Z.eqb_neq in N. rewrite N in K. auto.
Qed.

Lemma submit_dv_spec : forall s entry e,
  let r := submit_dv s entry e in
  let p := dv_target s e in
  let ds := ds_of s (dv_cons e) in
  (snd (fst r) = 0 <-> dv_conditions s entry e /\ punishable_at s p) /\
  (snd (fst r) = 0 -> exists v, getv s p = Some v /\ fst (fst r) = punish_one s p ds v) /\
  (snd (fst r) <> 0 -> fst (fst r) = s).
Proof.
  intros s entry e r p ds. subst r. unfold submit_dv. rewrite dv_conditions_iff.
  destruct (entry =? 0) eqn:E; [apply Z.eqb_eq in E | apply Z.eqb_neq in E].
  - destruct (dv_vb_ok e) eqn:VB; simpl.
    2:{ unfold E_VB. split; [split; [intro H; discriminate H|] | split; [intro H; discriminate H | auto]].
        intros [[M _] _]. destruct (M E) as [X _]. discriminate X. }
    destruct (0 <=? dv_bid_cmp e) eqn:B; simpl.
    { apply Z.leb_le in B. unfold E_VB.
      split; [split; [intro H; discriminate H|] | split; [intro H; discriminate H | auto]].
      intros [[M _] _]. destruct (M E) as [_ [X _]]. lia. }
    apply Z.leb_gt in B.
    destruct (dv_valset_ok e) eqn:VS; simpl.
    2:{ unfold E_VALSET. split; [split; [intro H; discriminate H|] | split; [intro H; discriminate H | auto]].
        intros [[M _] _]. destruct (M E) as [_ [_ [X _]]]. discriminate X. }
    destruct (dv_key_in_valset e) eqn:KV; simpl.
    2:{ unfold E_NOKEY. split; [split; [intro H; discriminate H|] | split; [intro H; discriminate H | auto]].
        intros [[M _] _]. destruct (M E) as [_ [_ [_ X]]]. discriminate X. }
    destruct (handle_dv_spec s true e) as [A [B' C]]. fold p in A, B', C. fold ds in B'.
    split; [|split; auto].
    split.
    + intro H. apply A in H. destruct H as [H1 H2]. split; auto.
    + intros [[_ H1] H2]. apply A. auto.
  - destruct (handle_dv_spec s (dv_key_present e) e) as [A [B' C]]. fold p in A, B', C. fold ds in B'.
    split; [|split; auto].
    split.
    + intro H. apply A in H. destruct H as [H1 H2]. split; auto. split; auto. intro; contradiction.
    + intros [[_ H1] H2]. apply A. auto.
Qed.

(* ---------------------------------------------------------------- GetByzantineValidators *)

Lemma last_signer_some : forall a l e, last_signer a l = Some e -> In e l /\ signed e = true /\ g_addr e = a.
Proof.
  induction l as [|x l IH]; simpl; intros e H; [discriminate|].
  destruct (last_signer a l) as [y|] eqn:L.
  - inversion H; subst. destruct (IH e eq_refl) as [A [B C]]. auto.
  - destruct (signed x && (g_addr x =? a)) eqn:SG; [|discriminate]. inversion H; subst.
    apply andb_true_iff in SG. destruct SG as [S1 S2]. apply Z.eqb_eq in S2. auto.
Qed.

Lemma last_signer_none : forall a l, last_signer a l = None <-> forall e, In e l -> signed e = true -> g_addr e <> a.
Proof.
  induction l as [|x l IH]; simpl; [split; auto; intros _ e []|].
  destruct (last_signer a l) as [y|] eqn:L.
  - split; [discriminate|]. intros H. exfalso.
    destruct (last_signer_some _ _ _ L) as [A [B C]]. eapply H; eauto.
  - destruct (signed x && (g_addr x =? a)) eqn:SV.
    + split; [discriminate|]. intro H. apply andb_true_iff in SV. destruct SV as [S1 S2]. apply Z.eqb_eq in S2.
      exfalso. eapply H; eauto.
    + split; auto. intros _ e [He|He] Sg.
      * subst. rewrite Sg in SV. simpl in SV. apply Z.eqb_neq in SV. auto.
      * apply (proj1 IH eq_refl); auto.
Qed.

(* e signed header 2 and somebody with its address signed header 1 *)
Definition common (s1 : list sigent) (e : sigent) : bool :=
  signed e && match last_signer (g_addr e) s1 with Some _ => true | None => false end.

Lemma byz_loop_ok : forall s1 l2 l, byz_loop s1 l2 = Ok l -> l = map g_addr (filter (common s1) l2).
Proof.
  induction l2 as [|e t IH]; simpl; intros l H; [inversion H; auto|].
  unfold common at 1. destruct (signed e); simpl in *; auto.
  destruct (last_signer (g_addr e) s1) as [e1|]; simpl; auto.
  destruct (g_ok e1); simpl in H; [|discriminate]. destruct (g_ok e); simpl in H; [|discriminate].
  destruct (byz_loop s1 t) as [r|]; [|discriminate]. inversion H; subst. simpl. f_equal. auto.
Qed.

Lemma byz_loop_ok_iff : forall s1 l2,
  (exists l, byz_loop s1 l2 = Ok l) <->
  (forall e2 e1, In e2 l2 -> signed e2 = true -> last_signer (g_addr e2) s1 = Some e1 ->
                 g_ok e1 = true /\ g_ok e2 = true).
Proof.
  induction l2 as [|e t IH]; simpl.
  - split; [intros _ e2 e1 [] | eauto].
  - destruct (signed e) eqn:Sg; simpl.
    + destruct (last_signer (g_addr e) s1) as [e1|] eqn:L.
      * destruct (g_ok e1) eqn:O1; simpl.
        -- destruct (g_ok e) eqn:O2; simpl.
           ++ split.
              ** intros [l H]. destruct (byz_loop s1 t) as [r|] eqn:B; [|discriminate].
                 intros e2 e1' [He|He] S2 L2.
                 { subst e2. rewrite L in L2. inversion L2; subst. auto. }
                 { apply (proj1 IH (ex_intro _ r eq_refl) e2 e1'); auto. }
              ** intros H. destruct (proj2 IH) as [r Hr]; [intros; eapply H; eauto|]. rewrite Hr. eauto.
           ++ split; [intros [l H]; discriminate|]. intros H.
              destruct (H e e1 (or_introl eq_refl) Sg L) as [_ X]. congruence.
        -- split; [intros [l H]; discriminate|]. intros H.
           destruct (H e e1 (or_introl eq_refl) Sg L) as [X _]. congruence.
      * rewrite IH. split; intros H e2 e1; [intros [He|He]|intros He]; intros; try (eapply H; eauto; fail).
        subst. congruence.
    + rewrite IH. split; intros H e2 e1; [intros [He|He]|intros He]; intros; try (eapply H; eauto; fail).
      subst. congruence.
Qed.

Lemma byz_loop_err : forall s1 l2 x, byz_loop s1 l2 = Err x -> x = E_SIG.
Proof.
  induction l2 as [|e t IH]; simpl; intros x H; [discriminate|].
  destruct (signed e); simpl in H; auto. destruct (last_signer (g_addr e) s1) as [e1|]; auto.
  destruct (g_ok e1); simpl in H; [|inversion H; auto]. destruct (g_ok e); simpl in H; [|inversion H; auto].
  destruct (byz_loop s1 t) eqn:B; [discriminate|]. inversion H; subst. auto.
Qed.

Lemma common_In : forall s1 l2 a,
  In a (map g_addr (filter (common s1) l2)) <->
  (exists e2, In e2 l2 /\ signed e2 = true /\ g_addr e2 = a) /\
  (exists e1, In e1 s1 /\ signed e1 = true /\ g_addr e1 = a).
Proof.
  intros s1 l2 a. rewrite in_map_iff. split.
  - intros [e [Ha He]]. apply filter_In in He. destruct He as [He C]. unfold common in C.
    apply andb_true_iff in C. destruct C as [Sg C].
    destruct (last_signer (g_addr e) s1) as [e1|] eqn:L; [|discriminate].
    destruct (last_signer_some _ _ _ L) as [A [B D]]. split; [exists e | exists e1]; repeat split; auto. congruence.
  - intros [[e2 [I2 [S2 A2]]] [e1 [I1 [S1 A1]]]]. exists e2. split; auto. apply filter_In. split; auto.
    unfold common. rewrite S2. simpl. destruct (last_signer (g_addr e2) s1) eqn:L; auto.
    exfalso. eapply (proj1 (last_signer_none _ _) L); eauto. congruence.
Qed.

Lemma get_byzantine_spec : forall m l,
  get_byzantine m = Ok l ->
  mb_lb_ok m = true /\
  (mb_conflict m = false /\ mb_rounds_eq m = false -> l = []) /\
  (mb_conflict m = true \/ mb_rounds_eq m = true ->
     l = map g_addr (filter (common (mb_sigs1 m)) (mb_sigs2 m)) /\
     forall e2 e1, In e2 (mb_sigs2 m) -> signed e2 = true -> last_signer (g_addr e2) (mb_sigs1 m) = Some e1 ->
                   g_ok e1 = true /\ g_ok e2 = true).
Proof.
  unfold get_byzantine. intros m l H. destruct (mb_lb_ok m); simpl in H; [|discriminate]. split; auto.
  destruct (mb_conflict m), (mb_rounds_eq m); simpl in H; split;
    try (intros [A B]; discriminate); try (intros [A|A]; discriminate A);
    try (intros _; split; [apply byz_loop_ok; auto | apply byz_loop_ok_iff; eauto]).
  intros _. inversion H; auto.
Qed.

(* ---------------------------------------------------------------- the punish loop *)

Lemma punish_n_not_punishable : forall now ds k v, punishable v = false -> punish_n now ds k v = v.
Proof. intros now ds [|k] v H; simpl; auto. rewrite H. auto. Qed.

Lemma count_res_cons : forall c i a t,
  count_res c i (a :: t) = if resolve c a =? i then S (count_res c i t) else count_res c i t.
Proof. intros. unfold count_res. simpl. destruct (resolve c a =? i); auto. Qed.

Lemma punishable_gpass : forall s p v, getv s p = Some v -> (punishable v = true <-> gpass s p).
Proof.
  intros s p v H. unfold punishable, gpass. rewrite Z.eqb_eq. split.
  - intro G. exists v. auto.
  - intros [w [Hw G]]. congruence.
Qed.

Lemma punish_spec : forall c ds l s n s' n',
  punish s c ds l n = Ok (s', n') ->
  s_time s' = s_time s /\ s_cons s' = s_cons s /\ length (s_vals s') = length (s_vals s) /\
  (forall i, getv s' i = option_map (punish_n (s_time s) ds (count_res c i l)) (getv s i)) /\
  n <= n' /\ (n' = n -> s' = s) /\
  (n < n' <-> exists a, In a l /\ gpass s (resolve c a)).
Proof.
  induction l as [|a t IH]; intros s n s' n' H; simpl in H.
  - inversion H; subst. repeat split; auto; try lia.
    + intro i. unfold count_res. simpl. destruct (getv s' i); auto.
    + intros [a [[] _]].
  - set (p := resolve c a) in *.
    destruct (slash_validator s p ds) as [s1|x] eqn:SV.
    + destruct (slash_then_jail _ _ _ _ SV) as [v [Hv [G [Hs1 J]]]]. rewrite J in H.
      destruct (v_sinfo v) eqn:SI; simpl in H; [|discriminate].
      destruct (IH _ _ _ _ H) as [T [C [L [V [N [E X]]]]]].
      rewrite punish_one_time in T. rewrite punish_one_cons in C. rewrite punish_one_len in L.
      repeat split; auto; try lia.
      * intro i. rewrite V, punish_one_time, count_res_cons. fold p.
        destruct (p =? i) eqn:Ei; [apply Z.eqb_eq in Ei | apply Z.eqb_neq in Ei].
        -- subst i. rewrite (punish_one_getv_same _ _ _ _ Hv), Hv. simpl.
           unfold punishable. rewrite G. reflexivity.
        -- rewrite punish_one_getv_other; auto.
      * intros _. exists a. split; [left; auto|]. exists v. auto.
    + assert (NG := slash_err _ _ _ _ SV).
      destruct (IH _ _ _ _ H) as [T [C [L [V [N [E X]]]]]].
      repeat split; auto.
      * intro i. rewrite V, count_res_cons. fold p.
        destruct (p =? i) eqn:Ei; [apply Z.eqb_eq in Ei | auto].
        subst i. destruct (getv s p) as [v|] eqn:Hv; cbn [option_map]; auto.
        assert (P : punishable v = false).
        { destruct (punishable v) eqn:P; auto. exfalso. apply NG. eapply punishable_gpass; eauto. }
        rewrite (punish_n_not_punishable _ _ (count_res c p t) v P).
        rewrite (punish_n_not_punishable _ _ (S (count_res c p t)) v P). reflexivity.
      * intro Hn. apply X in Hn. destruct Hn as [b [Hb Gb]]. exists b. split; [right|]; auto.
      * intros [b [[Hb|Hb] Gb]]; [subst b; contradiction|]. apply X. eauto.
Qed.

Definition bad (s : state) (p : Z) : Prop :=
  exists v, getv s p = Some v /\ guard_rec v = 0 /\ v_sinfo v = false.

Lemma punish_err : forall c ds l s n,
  (exists x, punish s c ds l n = Err x) <-> exists a, In a l /\ bad s (resolve c a).
Proof.
  induction l as [|a t IH]; intros s n; simpl.
  - split; [intros [x H]; discriminate | intros [a [[] _]]].
  - set (p := resolve c a).
    destruct (slash_validator s p ds) as [s1|x] eqn:SV.
    + destruct (slash_then_jail _ _ _ _ SV) as [v [Hv [G [Hs1 J]]]]. rewrite J.
      destruct (v_sinfo v) eqn:SI; simpl.
      * rewrite IH. split; intros [b [Hb [w [Hw [Gw Sw]]]]].
        -- exists b. split; auto. exists w.
           destruct (Z.eq_dec (resolve c b) p) as [E|E].
           ++ rewrite E in Hw. rewrite (punish_one_getv_same _ _ _ _ Hv) in Hw. inversion Hw; subst w.
              simpl in Sw. congruence.
           ++ rewrite punish_one_getv_other in Hw; auto.
        -- destruct Hb as [Hb|Hb].
           ++ subst b. fold p in Hw. congruence.
           ++ exists b. split; auto. exists w.
              destruct (Z.eq_dec (resolve c b) p) as [E|E]; [rewrite E in Hw; congruence|].
              rewrite punish_one_getv_other; auto.
      * split; [|eauto]. intros _. exists a. split; auto. exists v. auto.
    + assert (NG := slash_err _ _ _ _ SV). rewrite IH.
      split; intros [b [Hb Bb]]; [exists b; auto|].
      destruct Hb as [Hb|Hb]; [|eauto]. subst b. exfalso. apply NG.
      destruct Bb as [w [Hw [Gw _]]]. exists w. auto.
Qed.

(* ---------------------------------------------------------------- misbehaviour *)

Definition mb_conditions (s : state) (entry : Z) (m : mb) (c : cons) (ds : dsparams) (l : list Z) : Prop :=
  exists chain cl,
    getc s (mb_cons m) = Some c /\ c_chain c = Some chain /\ chain = mb_chain m /\
    c_client c = Some cl /\ cl = mb_client m /\ mb_heights_eq m = true /\ c_minh c <= mb_height m /\
    mb_cfm m = true /\ mb_vcm m = true /\ (entry = 0 -> mb_vb_ok m = true) /\
    get_byzantine m = Ok l /\ c_ds c = Some ds.

Lemma mb_check_0 : forall s m,
  mb_check s m = 0 <->
  exists c chain cl,
    getc s (mb_cons m) = Some c /\ c_chain c = Some chain /\ chain = mb_chain m /\
    c_client c = Some cl /\ cl = mb_client m /\ mb_heights_eq m = true /\ c_minh c <= mb_height m /\
    mb_cfm m = true /\ mb_vcm m = true.
Proof.
  intros s m. unfold mb_check. split.
  - intro H. destruct (getc s (mb_cons m)) as [c|]; [|discriminate H].
    destruct (c_chain c) as [chain|] eqn:Hch; [|discriminate H].
    destruct (chain =? mb_chain m) eqn:E1; simpl in H; [apply Z.eqb_eq in E1|discriminate H].
    destruct (c_client c) as [cl|] eqn:Hcl; [|discriminate H].
    destruct (cl =? mb_client m) eqn:E2; simpl in H; [apply Z.eqb_eq in E2|discriminate H].
    destruct (mb_heights_eq m) eqn:E3; simpl in H; [|discriminate H].
    destruct (mb_height m <? c_minh c) eqn:E4; [discriminate H|]. apply Z.ltb_ge in E4.
    destruct (mb_cfm m) eqn:E5; simpl in H; [|discriminate H].
    destruct (mb_vcm m) eqn:E6; simpl in H; [|discriminate H].
    exists c, chain, cl. repeat split; auto.
  - intros [c [chain [cl [Hc [Hch [E1 [Hcl [E2 [E3 [E4 [E5 E6]]]]]]]]]]]. subst.
    rewrite Hc, Hch, Z.eqb_refl, Hcl, Z.eqb_refl, E3, E5, E6. simpl.
    apply Z.ltb_ge in E4. rewrite E4. reflexivity.
Qed.

Lemma mb_conditions_inv : forall s entry m c ds l,
  mb_conditions s entry m c ds l ->
  getc s (mb_cons m) = Some c /\ get_byzantine m = Ok l /\ c_ds c = Some ds.
Proof.
  intros s entry m c ds l [chain [cl [A1 [A2 [A3 [A4 [A5 [A6 [A7 [A8 [A9 [A10 [A11 A12]]]]]]]]]]]]]. auto.
Qed.

Lemma handle_mb_spec : forall s m,
  let r := handle_mb s m in
  (snd (fst r) = 0 <->
     exists c ds l, mb_conditions s 1 m c ds l /\
       (exists a, In a l /\ gpass s (resolve c a)) /\
       (forall a, In a l -> ~ bad s (resolve c a))) /\
  (snd (fst r) = 0 ->
     forall c ds l, mb_conditions s 1 m c ds l ->
       s_time (fst (fst r)) = s_time s /\ s_cons (fst (fst r)) = s_cons s /\
       length (s_vals (fst (fst r))) = length (s_vals s) /\
       forall i, getv (fst (fst r)) i = option_map (punish_n (s_time s) ds (count_res c i l)) (getv s i)) /\
  (snd (fst r) <> 0 -> fst (fst r) = s).
Proof.
  intros s m r. subst r. unfold handle_mb.
  assert (NC : forall c ds l, mb_conditions s 1 m c ds l -> mb_check s m = 0).
  { intros c ds l [chain [cl [Hc [Hch [E1 [Hcl [E2 [E3 [E4 [E5 [E6 _]]]]]]]]]]]. apply mb_check_0.
    exists c, chain, cl. repeat split; auto. }
  destruct (mb_check s m =? 0) eqn:C; simpl negb; cbv iota.
  2:{ apply Z.eqb_neq in C. simpl. split; [|split; auto].
      - split; [intro; contradiction|]. intros [c [ds [l [H _]]]]. exfalso. apply C. eauto.
      - intro; contradiction. }
  apply Z.eqb_eq in C.
  destruct (proj1 (mb_check_0 _ _) C) as [c [chain [cl [Hc [Hch [E1 [Hcl [E2 [E3 [E4 [E5 E6]]]]]]]]]]].
  destruct (get_byzantine m) as [l|x] eqn:B.
  2:{ simpl. assert (Hx : x <> 0).
      { unfold get_byzantine in B. destruct (mb_lb_ok m); simpl in B; [|inversion B; unfold E_LB; lia].
        destruct (negb (mb_conflict m) && negb (mb_rounds_eq m)); [discriminate|].
        apply byz_loop_err in B. subst. unfold E_SIG. lia. }
      split; [|split; auto].
      - split; [intro; contradiction|].
        intros [c' [ds [l [MC _]]]]. apply mb_conditions_inv in MC. destruct MC as [_ [X _]]. congruence.
      - intro; contradiction. }
  rewrite Hc.
  destruct (c_ds c) as [ds|] eqn:D.
  2:{ simpl. unfold E_NOPARAMS. split; [|split; auto].
      - split; [intro X; discriminate X|].
        intros [c' [ds [l' [MC _]]]]. apply mb_conditions_inv in MC. destruct MC as [Y [_ X]]. congruence.
      - intro X; discriminate X. }
  assert (MC : mb_conditions s 1 m c ds l).
  { exists chain, cl. repeat split; auto. intro X; discriminate X. }
  assert (U : forall c' ds' l', mb_conditions s 1 m c' ds' l' -> c' = c /\ ds' = ds /\ l' = l).
  { intros c' ds' l' MC'. apply mb_conditions_inv in MC'. destruct MC' as [Y [Z1 Z2]].
    assert (c' = c) by congruence. subst c'. repeat split; congruence. }
  destruct (punish s c ds l 0) as [[s' n]|x] eqn:P.
  - destruct (punish_spec _ _ _ _ _ _ _ P) as [T [Cs [L [V [N [E X]]]]]].
    assert (NB : forall a, In a l -> ~ bad s (resolve c a)).
    { intros a Ha Ba. destruct (proj2 (punish_err c ds l s 0)) as [y Hy]; [eauto|]. congruence. }
    destruct (n =? 0) eqn:En; [apply Z.eqb_eq in En | apply Z.eqb_neq in En]; simpl.
    + subst n. unfold E_NOBODY. split; [|split; auto].
      * split; [intro Y; discriminate Y|].
        intros [c' [ds' [l' [Hc' [Ex _]]]]]. destruct (U _ _ _ Hc') as [? [? ?]]; subst.
        apply X in Ex. lia.
      * intro Y; discriminate Y.
    + split; [|split].
      * split; auto. intros _. exists c, ds, l. repeat split; auto. apply X. lia.
      * intros _ c' ds' l' Hc'. destruct (U _ _ _ Hc') as [? [? ?]]; subst. auto.
      * intro; contradiction.
  - simpl. assert (Hx : x <> 0).
    { clear - P. revert P. generalize 0 at 1. generalize s. induction l as [|a t IH]; simpl; intros s0 n0 P; [discriminate|].
      destruct (slash_validator s0 (resolve c a) ds) as [s1|]; [|eauto].
      destruct (jail_and_tombstone s1 (resolve c a) ds); [eauto|]. inversion P. unfold E_PANIC. lia. }
    split; [|split; auto].
    + split; [intro; contradiction|].
      intros [c' [ds' [l' [Hc' [_ NB]]]]]. destruct (U _ _ _ Hc') as [? [? ?]]; subst.
      destruct (proj1 (punish_err c ds l s 0)) as [a [Ha Ba]]; [eauto|]. exfalso. eapply NB; eauto.
    + intro; contradiction.
Qed.

(* ---------------------------------------------------------------- statements about [step] *)

Lemma step_dv_proj : forall s entry e,
  code (step s (ODV entry e)) = snd (fst (submit_dv s entry e)) /\
  st (step s (ODV entry e)) = fst (fst (submit_dv s entry e)).
Proof. intros. unfold code, st. simpl. destruct (submit_dv s entry e) as [[a b] d]. auto. Qed.

Lemma step_mb_proj : forall s entry m,
  code (step s (OMB entry m)) = snd (fst (submit_mb s entry m)) /\
  st (step s (OMB entry m)) = fst (fst (submit_mb s entry m)).
Proof. intros. unfold code, st. simpl. destruct (submit_mb s entry m) as [[a b] d]. auto. Qed.

Lemma punished_rec_fields : forall now ds v,
  punished_rec now ds v =
  mkV (v_status v) true (now + ds_jail ds) (v_tomb v || ds_tomb ds)
      (slash_tokens (ds_frac ds) (v_lastpow v + Z.quot (v_unb v + v_red v) PR) (v_tokens v))
      (v_lastpow v) (v_unb v) (v_red v) (v_sinfo v)
      (v_log v ++ [(v_lastpow v + Z.quot (v_unb v + v_red v) PR, ds_frac ds)]).
Proof. reflexivity. Qed.

(* --- double voting --- *)

Lemma dv_accept_iff : forall s entry e,
  code (step s (ODV entry e)) = 0 <-> dv_conditions s entry e /\ punishable_at s (dv_target s e).
Proof. intros. rewrite (proj1 (step_dv_proj s entry e)). apply submit_dv_spec. Qed.

Lemma dv_exact_signer : forall s entry e,
  code (step s (ODV entry e)) = 0 ->
  let s' := st (step s (ODV entry e)) in
  s_time s' = s_time s /\ s_cons s' = s_cons s /\ length (s_vals s') = length (s_vals s) /\
  forall i, i <> dv_target s e -> getv s' i = getv s i.
Proof.
  intros s entry e H s'. subst s'. destruct (step_dv_proj s entry e) as [P1 P2]. rewrite P1 in H. rewrite P2.
  destruct (submit_dv_spec s entry e) as [_ [B _]]. destruct (B H) as [v [Hv Hs]]. rewrite Hs.
  rewrite punish_one_time, punish_one_cons, punish_one_len. repeat split; auto.
  intros i Hi. apply punish_one_getv_other; auto.
Qed.

Lemma dv_power : forall s entry e,
  code (step s (ODV entry e)) = 0 ->
  exists c ds v,
    getc s (dv_cons e) = Some c /\ c_ds c = Some ds /\ dv_target s e = resolve c (dv_addr e) /\
    getv s (dv_target s e) = Some v /\
    getv (st (step s (ODV entry e))) (dv_target s e) =
      Some (mkV (v_status v) true (s_time s + ds_jail ds) (ds_tomb ds)
                (slash_tokens (ds_frac ds) (v_lastpow v + Z.quot (v_unb v + v_red v) PR) (v_tokens v))
                (v_lastpow v) (v_unb v) (v_red v) (v_sinfo v)
                (v_log v ++ [(v_lastpow v + Z.quot (v_unb v + v_red v) PR, ds_frac ds)])).
Proof.
  intros s entry e H. destruct (step_dv_proj s entry e) as [P1 P2]. rewrite P1 in H. rewrite P2.
  destruct (submit_dv_spec s entry e) as [A [B _]]. destruct (B H) as [v [Hv Hs]]. rewrite Hs.
  apply A in H. destruct H as [[c [cl [chain [ds [Hc [_ [_ [_ [_ [_ [_ [_ [_ [_ [_ [_ Hds]]]]]]]]]]]]]]]] [w [Hw [_ [Tw _]]]]].
  rewrite Hv in Hw. inversion Hw; subst w.
  exists c, ds, v. repeat split; auto.
  - unfold dv_target. rewrite Hc. auto.
  - rewrite (punish_one_getv_same _ _ _ _ Hv). rewrite punished_rec_fields.
    unfold ds_of. rewrite Hc, Hds, Tw. reflexivity.
Qed.

Lemma reject_unchanged : forall s o, code (step s o) <> 0 -> st (step s o) = s.
Proof.
  intros s o H. destruct o as [t|i v|c x|entry e|entry m|m].
  - unfold code in H; simpl in H. contradiction.
  - unfold code, st in *. simpl in *. destruct (getv s i); simpl in *; contradiction || auto.
  - unfold code, st in *. simpl in *. destruct (c <? 0); simpl in *; contradiction || auto.
  - destruct (step_dv_proj s entry e) as [P1 P2]. rewrite P1 in H. rewrite P2.
    apply submit_dv_spec; auto.
  - destruct (step_mb_proj s entry m) as [P1 P2]. rewrite P1 in H. rewrite P2.
    unfold submit_mb in *. destruct ((entry =? 0) && negb (mb_vb_ok m)); auto.
    apply handle_mb_spec; auto.
  - unfold st. simpl. destruct (get_byzantine m); auto.
Qed.

Lemma gbv_unchanged : forall s m, st (step s (OGBV m)) = s.
Proof. intros. unfold st. simpl. destruct (get_byzantine m); auto. Qed.

(* --- misbehaviour --- *)

Lemma mb_conditions_entry : forall s entry m c ds l,
  mb_conditions s entry m c ds l <-> mb_conditions s 1 m c ds l /\ (entry = 0 -> mb_vb_ok m = true).
Proof.
  intros. unfold mb_conditions. split.
  - intros [chain [cl [A1 [A2 [A3 [A4 [A5 [A6 [A7 [A8 [A9 [A10 [A11 A12]]]]]]]]]]]]]. split; auto.
    exists chain, cl. repeat split; auto. intro X; discriminate X.
  - intros [[chain [cl [A1 [A2 [A3 [A4 [A5 [A6 [A7 [A8 [A9 [A10 [A11 A12]]]]]]]]]]]]] V].
    exists chain, cl. repeat split; auto.
Qed.

Lemma submit_mb_code : forall s entry m,
  snd (fst (submit_mb s entry m)) = 0 <->
  (entry = 0 -> mb_vb_ok m = true) /\ snd (fst (handle_mb s m)) = 0.
Proof.
  intros. unfold submit_mb.
  destruct (entry =? 0) eqn:E; [apply Z.eqb_eq in E | apply Z.eqb_neq in E]; simpl.
  - destruct (mb_vb_ok m); simpl.
    + tauto.
    + unfold E_VB. split; [intro X; discriminate X | intros [X _]; specialize (X E); discriminate X].
  - split; auto. intros [_ X]; auto.
Qed.

Lemma submit_mb_state : forall s entry m,
  snd (fst (submit_mb s entry m)) = 0 -> fst (fst (submit_mb s entry m)) = fst (fst (handle_mb s m)).
Proof.
  intros s entry m. unfold submit_mb. destruct ((entry =? 0) && negb (mb_vb_ok m)); auto.
  simpl. unfold E_VB. intro X; discriminate X.
Qed.

Lemma mb_accept_iff : forall s entry m,
  code (step s (OMB entry m)) = 0 <->
  exists c ds l, mb_conditions s entry m c ds l /\
    (exists a, In a l /\ gpass s (resolve c a)) /\
    (forall a, In a l -> ~ bad s (resolve c a)).
Proof.
  intros. rewrite (proj1 (step_mb_proj s entry m)), submit_mb_code.
  destruct (handle_mb_spec s m) as [A _]. rewrite A. split.
  - intros [V [c [ds [l [MC R]]]]]. exists c, ds, l. split; auto. apply mb_conditions_entry; auto.
  - intros [c [ds [l [MC R]]]]. apply mb_conditions_entry in MC. destruct MC as [MC V]. split; auto.
    exists c, ds, l. auto.
Qed.

Lemma mb_exact : forall s entry m c ds l,
  code (step s (OMB entry m)) = 0 -> mb_conditions s entry m c ds l ->
  let s' := st (step s (OMB entry m)) in
  s_time s' = s_time s /\ s_cons s' = s_cons s /\ length (s_vals s') = length (s_vals s) /\
  forall i, getv s' i = option_map (punish_n (s_time s) ds (count_res c i l)) (getv s i).
Proof.
  intros s entry m c ds l H MC s'. subst s'. destruct (step_mb_proj s entry m) as [P1 P2].
  rewrite P1 in H. rewrite P2. rewrite (submit_mb_state _ _ _ H).
  apply submit_mb_code in H. destruct H as [_ H].
  destruct (handle_mb_spec s m) as [_ [B _]]. apply (B H). apply mb_conditions_entry in MC. tauto.
Qed.

Lemma count_res_0 : forall c i l, (forall a, In a l -> resolve c a <> i) -> count_res c i l = O.
Proof.
  induction l as [|a t IH]; intros H; auto. rewrite count_res_cons.
  destruct (resolve c a =? i) eqn:E; [apply Z.eqb_eq in E; exfalso; eapply H; eauto; left; auto|].
  apply IH. intros b Hb. apply H. right; auto.
Qed.

Lemma count_res_pos : forall c i l a, In a l -> resolve c a = i -> (1 <= count_res c i l)%nat.
Proof.
  induction l as [|b t IH]; intros a Ha E; [destruct Ha|]. destruct Ha as [Ha|Ha]; rewrite count_res_cons.
  - subst b. rewrite E, Z.eqb_refl. lia.
  - destruct (resolve c b =? i); [lia | eapply IH; eauto].
Qed.

(* frame: a validator to which no byzantine key resolves, or whose guards fail, keeps its record *)
Lemma mb_frame : forall s entry m c ds l i,
  code (step s (OMB entry m)) = 0 -> mb_conditions s entry m c ds l ->
  ~ (exists a, In a l /\ resolve c a = i /\ gpass s i) ->
  getv (st (step s (OMB entry m))) i = getv s i.
Proof.
  intros s entry m c ds l i H MC N. destruct (mb_exact _ _ _ _ _ _ H MC) as [_ [_ [_ V]]]. rewrite V.
  destruct (getv s i) as [v|] eqn:Hv; simpl; auto. f_equal.
  destruct (punishable v) eqn:P.
  - rewrite count_res_0; auto. intros a Ha E. apply N. exists a. repeat split; auto.
    eapply punishable_gpass; eauto.
  - apply punish_n_not_punishable; auto.
Qed.

Lemma punish_n_tomb : forall now ds k v,
  ds_tomb ds = true -> punishable v = true -> (1 <= k)%nat -> punish_n now ds k v = punished_rec now ds v.
Proof.
  intros now ds [|k] v T P K; [lia|]. simpl. rewrite P. apply punish_n_not_punishable.
  unfold punishable, guard_rec. simpl. rewrite T, orb_true_r.
  destruct (v_status v =? UNBONDED); reflexivity.
Qed.

Lemma punish_n_first : forall now ds k v,
  punishable v = true -> (1 <= k)%nat ->
  punish_n now ds k v = punish_n now ds (k - 1) (punished_rec now ds v).
Proof. intros now ds [|k] v P K; [lia|]. simpl. rewrite P. f_equal. lia. Qed.

Lemma punish_n_log : forall now ds k v, exists more, v_log (punish_n now ds k v) = v_log v ++ more.
Proof.
  induction k as [|k IH]; intros v; simpl; [exists []; rewrite app_nil_r; auto|].
  destruct (punishable v); [|exists []; rewrite app_nil_r; auto].
  destruct (IH (punished_rec now ds v)) as [more Hm]. rewrite Hm. simpl.
  rewrite <- app_assoc. eauto.
Qed.

Lemma punish_n_jailed : forall now ds k v, v_jailed v = true -> v_jailed (punish_n now ds k v) = true.
Proof.
  induction k as [|k IH]; intros v J; simpl; auto. destruct (punishable v); auto.
Qed.

(* a validator to which a byzantine key resolves and whose guards pass IS punished, with the consumer's parameters *)
Lemma mb_punished : forall s entry m c ds l i a v,
  code (step s (OMB entry m)) = 0 -> mb_conditions s entry m c ds l ->
  In a l -> resolve c a = i -> getv s i = Some v -> guard_rec v = 0 ->
  exists v' more,
    getv (st (step s (OMB entry m))) i = Some v' /\ v_jailed v' = true /\
    v_log v' = v_log v ++ (v_lastpow v + Z.quot (v_unb v + v_red v) PR, ds_frac ds) :: more /\
    (ds_tomb ds = true ->
       v' = mkV (v_status v) true (s_time s + ds_jail ds) true
                (slash_tokens (ds_frac ds) (v_lastpow v + Z.quot (v_unb v + v_red v) PR) (v_tokens v))
                (v_lastpow v) (v_unb v) (v_red v) (v_sinfo v)
                (v_log v ++ [(v_lastpow v + Z.quot (v_unb v + v_red v) PR, ds_frac ds)])).
Proof.
  intros s entry m c ds l i a v H MC Ha E Hv G. destruct (mb_exact _ _ _ _ _ _ H MC) as [_ [_ [_ V]]].
  assert (K := count_res_pos c i l a Ha E).
  assert (P : punishable v = true) by (unfold punishable; rewrite G; reflexivity).
  destruct (punish_n_log (s_time s) ds (count_res c i l - 1) (punished_rec (s_time s) ds v)) as [more Hm].
  exists (punish_n (s_time s) ds (count_res c i l) v), more. rewrite V, Hv. simpl. split; auto.
  rewrite (punish_n_first _ _ _ _ P K). split; [apply punish_n_jailed; reflexivity|]. split.
  - rewrite Hm. simpl. rewrite <- app_assoc. reflexivity.
  - intro T. rewrite <- (punish_n_first _ _ _ _ P K). rewrite (punish_n_tomb _ _ _ _ T P K).
    rewrite punished_rec_fields, T, orb_true_r. reflexivity.
Qed.

(* --- GetByzantineValidators --- *)

Lemma byzantine_set : forall m l,
  get_byzantine m = Ok l ->
  (mb_conflict m = false /\ mb_rounds_eq m = false -> l = []) /\
  (mb_conflict m = true \/ mb_rounds_eq m = true ->
     (forall a, In a l <->
        (exists e2, In e2 (mb_sigs2 m) /\ signed e2 = true /\ g_addr e2 = a) /\
        (exists e1, In e1 (mb_sigs1 m) /\ signed e1 = true /\ g_addr e1 = a)) /\
     (forall e2 e1, In e2 (mb_sigs2 m) -> signed e2 = true -> last_signer (g_addr e2) (mb_sigs1 m) = Some e1 ->
                    g_ok e1 = true /\ g_ok e2 = true)).
Proof.
  intros m l H. destruct (get_byzantine_spec _ _ H) as [_ [A B]]. split; auto.
  intro C. destruct (B C) as [E F]. split; auto. intro a. rewrite E. apply common_In.
Qed.

Lemma byzantine_reject : forall m,
  mb_lb_ok m = true -> (mb_conflict m = true \/ mb_rounds_eq m = true) ->
  ((exists x, get_byzantine m = Err x) <->
   exists e2 e1, In e2 (mb_sigs2 m) /\ signed e2 = true /\ last_signer (g_addr e2) (mb_sigs1 m) = Some e1 /\
                 (g_ok e1 = false \/ g_ok e2 = false)).
Proof.
  intros m LB C. unfold get_byzantine. rewrite LB. simpl.
  assert (AM : negb (mb_conflict m) && negb (mb_rounds_eq m) = false).
  { destruct C as [C|C]; rewrite C; simpl; auto. destruct (mb_conflict m); auto. }
  rewrite AM. split.
  - intros [x Hx].
    destruct (byz_loop_ok_iff (mb_sigs1 m) (mb_sigs2 m)) as [_ B].
    (* classical-free: decide by computation on the finite list *)
    assert (D : forall l2, (exists x, byz_loop (mb_sigs1 m) l2 = Err x) ->
              exists e2 e1, In e2 l2 /\ signed e2 = true /\ last_signer (g_addr e2) (mb_sigs1 m) = Some e1 /\
                            (g_ok e1 = false \/ g_ok e2 = false)).
    { induction l2 as [|e t IH]; simpl; intros [y Hy]; [discriminate|].
      destruct (signed e) eqn:Sg; simpl in Hy.
      - destruct (last_signer (g_addr e) (mb_sigs1 m)) as [e1|] eqn:L.
        + destruct (g_ok e1) eqn:O1; simpl in Hy.
          * destruct (g_ok e) eqn:O2; simpl in Hy.
            -- destruct (byz_loop (mb_sigs1 m) t) eqn:BL; [discriminate|].
               destruct IH as [e2 [e1' [I R]]]; [eauto|]. exists e2, e1'. split; auto.
            -- exists e, e1. repeat split; auto.
          * exists e, e1. repeat split; auto.
        + destruct IH as [e2 [e1' [I R]]]; [eauto|]. exists e2, e1'. split; auto.
      - destruct IH as [e2 [e1' [I R]]]; [eauto|]. exists e2, e1'. split; auto. }
    apply D. eauto.
  - intros [e2 [e1 [I [Sg [L O]]]]].
    destruct (byz_loop (mb_sigs1 m) (mb_sigs2 m)) as [l|x] eqn:BL; [|eauto].
    exfalso. destruct (proj1 (byz_loop_ok_iff _ _) (ex_intro _ l BL) e2 e1 I Sg L) as [O1 O2].
    destruct O; congruence.
Qed.

(* --- at most once --- *)

Definition tombstoned (s : state) (p : Z) : Prop := exists v, getv s p = Some v /\ v_tomb v = true.
Definition is_evidence (o : op) : Prop :=
  match o with ODV _ _ | OMB _ _ | OGBV _ => True | _ => False end.

Lemma tomb_not_punishable : forall v, v_tomb v = true -> punishable v = false.
Proof.
  intros v T. unfold punishable, guard_rec. rewrite T. destruct (v_status v =? UNBONDED); reflexivity.
Qed.

Lemma tomb_frame : forall s o p, tombstoned s p -> is_evidence o -> getv (st (step s o)) p = getv s p.
Proof.
  intros s o p [v [Hv T]] Ev. destruct o as [t|i w|c x|entry e|entry m|m]; simpl in Ev; try contradiction.
  - destruct (Z.eq_dec (code (step s (ODV entry e))) 0) as [H|H].
    + destruct (dv_exact_signer _ _ _ H) as [_ [_ [_ F]]]. apply F. intro E.
      apply dv_accept_iff in H. destruct H as [_ [w [Hw [_ [Tw _]]]]]. rewrite <- E in Hw. congruence.
    + rewrite reject_unchanged; auto.
  - destruct (Z.eq_dec (code (step s (OMB entry m))) 0) as [H|H].
    + destruct (proj1 (mb_accept_iff _ _ _) H) as [c [ds [l [MC _]]]].
      eapply mb_frame; eauto. intros [a [_ [_ [w [Hw G]]]]]. rewrite Hv in Hw. inversion Hw; subst w.
      apply guard_rec_0 in G. destruct G; congruence.
    + rewrite reject_unchanged; auto.
  - rewrite gbv_unchanged. auto.
Qed.

Lemma step_keeps_tomb : forall s o p, tombstoned s p -> tombstoned (st (step s o)) p.
Proof.
  intros s o p T. destruct o as [t|i w|c x|entry e|entry m|m];
    try (destruct T as [v [Hv Tv]]; exists v; split; auto; rewrite tomb_frame; simpl; auto; exists v; auto; fail).
  - destruct T as [v [Hv Tv]]. unfold st; simpl. destruct (getv s i) as [old|] eqn:Ho; simpl; [|exists v; auto].
    destruct (Z.eq_dec p i) as [E|E].
    + subst i. exists (ext_rec old w). split; [eapply getv_setv_same; eauto|].
      rewrite Hv in Ho. inversion Ho; subst old. simpl. rewrite Tv. reflexivity.
    + exists v. rewrite getv_setv_other; auto.
  - destruct T as [v [Hv Tv]]. unfold st; simpl. destruct (c <? 0); simpl; exists v; auto.
Qed.

Lemma run_keeps_tomb : forall ops s p, tombstoned s p -> tombstoned (run_ops ops s) p.
Proof.
  induction ops as [|o t IH]; intros s p T; simpl; auto. apply IH. apply step_keeps_tomb; auto.
Qed.

Lemma once : forall s p ops,
  tombstoned s p ->
  let s2 := run_ops ops s in
  (forall o, is_evidence o -> getv (st (step s2 o)) p = getv s2 p) /\
  (forall entry e, dv_target s2 e = p -> code (step s2 (ODV entry e)) <> 0 /\ st (step s2 (ODV entry e)) = s2).
Proof.
  intros s p ops T s2. assert (T2 := run_keeps_tomb ops s p T). fold s2 in T2. split.
  - intros o Ev. apply tomb_frame; auto.
  - intros entry e E.
    assert (N : code (step s2 (ODV entry e)) <> 0).
    { intro H. apply dv_accept_iff in H. destruct H as [_ [w [Hw [_ [Tw _]]]]].
      destruct T2 as [v [Hv Tv]]. rewrite E in Hw. congruence. }
    split; auto. apply reject_unchanged; auto.
Qed.

Lemma dv_tombstones : forall s entry e,
  code (step s (ODV entry e)) = 0 -> ds_tomb (ds_of s (dv_cons e)) = true ->
  tombstoned (st (step s (ODV entry e))) (dv_target s e).
Proof.
  intros s entry e H T. destruct (dv_power _ _ _ H) as [c [ds [v [Hc [Hds [_ [_ Hp]]]]]]].
  unfold ds_of in T. rewrite Hc, Hds in T. eexists. split; [exact Hp|]. simpl. auto.
Qed.

Lemma mb_tombstones : forall s entry m c ds l a v,
  code (step s (OMB entry m)) = 0 -> mb_conditions s entry m c ds l -> ds_tomb ds = true ->
  In a l -> getv s (resolve c a) = Some v -> guard_rec v = 0 ->
  tombstoned (st (step s (OMB entry m))) (resolve c a).
Proof.
  intros s entry m c ds l a v H MC T Ha Hv G.
  destruct (mb_punished _ _ _ _ _ _ _ _ _ H MC Ha eq_refl Hv G) as [v' [more [Hv' [_ [_ X]]]]].
  exists v'. split; auto. rewrite (X T). reflexivity.
Qed.

(* --- SlashValidator succeeded => JailAndTombstoneValidator succeeds, given signing infos --- *)

Lemma jail_after_slash : forall s p ds s1,
  (forall v, getv s p = Some v -> v_sinfo v = true) ->
  slash_validator s p ds = Ok s1 -> exists s2, jail_and_tombstone s1 p ds = Ok s2.
Proof.
  intros s p ds s1 SI H. destruct (slash_then_jail _ _ _ _ H) as [v [Hv [_ [_ J]]]].
  rewrite J, (SI v Hv). simpl. eauto.
Qed.

(* with signing infos for everybody a rejected submission never wrote anything (nothing to roll back) *)
Lemma never_dirty : forall s o,
  (forall p v, getv s p = Some v -> v_sinfo v = true) -> dirty (step s o) = false.
Proof.
  intros s o SI. destruct o as [t|i w|c x|entry e|entry m|m]; unfold dirty; simpl; auto.
  - destruct (getv s i); auto.
  - destruct (c <? 0); auto.
  - assert (D : forall kp, snd (handle_dv s kp e) = false).
    { intro kp. unfold handle_dv. destruct (negb (dv_check s kp e =? 0)); auto.
      destruct (slash_validator s (dv_target s e) (ds_of s (dv_cons e))) as [s1|] eqn:SV; auto.
      destruct (jail_after_slash _ _ _ _ (SI _) SV) as [s2 J]. rewrite J. auto. }
    unfold submit_dv. destruct (entry =? 0).
    + destruct (negb (dv_vb_ok e) || (0 <=? dv_bid_cmp e)); simpl; auto.
      destruct (negb (dv_valset_ok e)); simpl; auto. destruct (negb (dv_key_in_valset e)); simpl; auto.
      specialize (D true). destruct (handle_dv s true e) as [[a b] d]. auto.
    + specialize (D (dv_key_present e)). destruct (handle_dv s (dv_key_present e) e) as [[a b] d]. auto.
  - unfold submit_mb. destruct ((entry =? 0) && negb (mb_vb_ok m)); simpl; auto.
    assert (D : snd (handle_mb s m) = false).
    { unfold handle_mb. destruct (negb (mb_check s m =? 0)); auto. destruct (get_byzantine m) as [l|]; auto.
      destruct (getc s (mb_cons m)) as [c|]; auto. destruct (c_ds c) as [ds|]; auto.
      destruct (punish s c ds l 0) as [[s' n]|x] eqn:P.
      - destruct (n =? 0); auto.
      - exfalso. destruct (proj1 (punish_err c ds l s 0)) as [a [_ [v [Hv [_ B]]]]]; eauto.
        rewrite (SI _ _ Hv) in B. discriminate. }
    destruct (handle_mb s m) as [[a b] d]. auto.
  - destruct (get_byzantine m); auto.
Qed.

(* ---------------------------------------------------------------- clauses the faithful model refutes *)

Definition vbonded (tokens lastpow : Z) : vrec := mkV 3 false 0 false tokens lastpow 0 0 true [].
Definition vunbonded (tokens : Z) : vrec := mkV 1 false 0 false tokens 0 0 0 true [].
Definition ds5 : dsparams := mkDS 50000000000000000 1000 true.       (* 5 %, 1000 ns, tombstone *)
Definition ds100 : dsparams := mkDS 1000000000000000000 9000 true.   (* 100 % *)
Definition cons_a : cons := mkC (Some 0) (Some 5) 10 (Some ds5) [].
Definition cons_b : cons := mkC (Some 1) (Some 5) 3 (Some ds100) []. (* same chain id, other parameters *)
Definition st2 : state := mkS 100 [vbonded 4000000 4; vunbonded 3000000] [cons_a; cons_b].

Definition dv_ok (c addr height : Z) : dv :=
  mkDV c true (-1) true true true true true true height [5] [5] addr.
Definition dv_for (e : dv) (c : Z) : dv :=
  mkDV c (dv_vb_ok e) (dv_bid_cmp e) (dv_valset_ok e) (dv_key_in_valset e) (dv_key_present e) (dv_key_addr_ok e)
       (dv_hrt_eq e) (dv_addr_eq e) (dv_height e) (dv_sigA e) (dv_sigB e) (dv_addr e).
Definition mb_ok (c chain client height : Z) (s1 s2 : list sigent) : mb :=
  mkMB c true chain client true height true true true false true s1 s2.

(* (1) every byzantine validator that staking knows is punished by an accepted misbehaviour *)
Definition mb_all_signers_full : Prop :=
  forall s entry m c ds l a v,
    code (step s (OMB entry m)) = 0 -> mb_conditions s entry m c ds l -> In a l ->
    getv s (resolve c a) = Some v ->
    exists v', getv (st (step s (OMB entry m))) (resolve c a) = Some v' /\ v_jailed v' = true.

Lemma mb_all_signers_refuted : ~ mb_all_signers_full.
Proof.
  intro F.
  set (m := mb_ok 0 5 0 10 [mkSig 0 2 true; mkSig 1 2 true] [mkSig 0 2 true; mkSig 1 2 true]).
  assert (MC : mb_conditions st2 0 m cons_a ds5 [0; 1]).
  { exists 5, 0. repeat split; auto; vm_compute; congruence. }
  assert (C0 : code (step st2 (OMB 0 m)) = 0) by (vm_compute; reflexivity).
  assert (I1 : In 1 [0; 1]) by (simpl; auto).
  assert (G1 : getv st2 (resolve cons_a 1) = Some (vunbonded 3000000)) by (vm_compute; reflexivity).
  destruct (F st2 0 m cons_a ds5 [0; 1] 1 (vunbonded 3000000) C0 MC I1 G1) as [v' [Hv J]].
  vm_compute in Hv. inversion Hv; subst v'. discriminate J.
Qed.

(* (2) every byzantine validator has a BlockIDFlagCommit signature in BOTH commits.  This clause was REFUTED by the
   code before the repair "only validators that committed to both headers are byzantine" (finding
   C07-nil-precommit-framing); with the repaired code it is a theorem. *)
Lemma byz_committed_both : forall m l a,
  get_byzantine m = Ok l -> In a l ->
  exists e1 e2, In e1 (mb_sigs1 m) /\ In e2 (mb_sigs2 m) /\ g_addr e1 = a /\ g_addr e2 = a /\
                g_flag e1 = F_COMMIT /\ g_flag e2 = F_COMMIT.
Proof.
  intros m l a H Ha. destruct (byzantine_set _ _ H) as [AM B].
  destruct (mb_conflict m) eqn:C; [|destruct (mb_rounds_eq m) eqn:R].
  - destruct (B (or_introl eq_refl)) as [I _]. apply I in Ha.
    destruct Ha as [[e2 [I2 [S2 A2]]] [e1 [I1 [S1 A1]]]]. exists e1, e2.
    unfold signed in S1, S2. apply Z.eqb_eq in S1, S2. auto 10.
  - destruct (B (or_intror eq_refl)) as [I _]. apply I in Ha.
    destruct Ha as [[e2 [I2 [S2 A2]]] [e1 [I1 [S1 A1]]]]. exists e1, e2.
    unfold signed in S1, S2. apply Z.eqb_eq in S1, S2. auto 10.
  - rewrite (AM (conj eq_refl eq_refl)) in Ha. destruct Ha.
Qed.

(* a validator none of whose keys committed to both headers keeps its record in an accepted misbehaviour *)
Lemma mb_nil_absent_untouched : forall s entry m c ds l i,
  code (step s (OMB entry m)) = 0 -> mb_conditions s entry m c ds l ->
  (forall a, resolve c a = i ->
     ~ ((exists e1, In e1 (mb_sigs1 m) /\ g_addr e1 = a /\ g_flag e1 = F_COMMIT) /\
        (exists e2, In e2 (mb_sigs2 m) /\ g_addr e2 = a /\ g_flag e2 = F_COMMIT))) ->
  getv (st (step s (OMB entry m))) i = getv s i.
Proof.
  intros s entry m c ds l i H MC N. eapply mb_frame; eauto.
  intros [a [Ha [R _]]]. destruct (mb_conditions_inv _ _ _ _ _ _ MC) as [_ [B _]].
  destruct (byz_committed_both _ _ _ B Ha) as [e1 [e2 [I1 [I2 [A1 [A2 [F1 F2]]]]]]].
  apply (N a R). split; [exists e1 | exists e2]; auto.
Qed.

(* ---- PRE-FIX COPY (NOT used by run / step): GetByzantineValidators as it was before the repair, where every
   signature that is not BlockIDFlagAbsent counted as "signed the header" ---- *)
Definition signed_prefix (e : sigent) : bool := negb (g_flag e =? F_ABSENT).
Fixpoint last_signer_prefix (a : Z) (l : list sigent) : option sigent :=
  match l with
  | [] => None
  | e :: t =>
    match last_signer_prefix a t with
    | Some x => Some x
    | None => if signed_prefix e && (g_addr e =? a) then Some e else None
    end
  end.
Fixpoint byz_loop_prefix (s1 l2 : list sigent) : res (list Z) :=
  match l2 with
  | [] => Ok []
  | e :: t =>
    if negb (signed_prefix e) then byz_loop_prefix s1 t
    else match last_signer_prefix (g_addr e) s1 with
    | None => byz_loop_prefix s1 t
    | Some e1 =>
      if negb (g_ok e1) then Err E_SIG
      else if negb (g_ok e) then Err E_SIG
      else match byz_loop_prefix s1 t with
           | Ok r => Ok (g_addr e :: r)
           | Err x => Err x
           end
    end
  end.
Definition get_byzantine_prefix (m : mb) : res (list Z) :=
  if negb (mb_lb_ok m) then Err E_LB
  else if negb (mb_conflict m) && negb (mb_rounds_eq m) then Ok []
  else byz_loop_prefix (mb_sigs1 m) (mb_sigs2 m).

(* the witness of finding C07-nil-precommit-framing: header 1 = the real block of round 1 committed by validators
   0..3; header 2 = a lunatic block of round 0 with validator set {0, 3}, committed by attacker 0 and carrying
   validator 3's honest NIL precommit of round 0 *)
Definition framing_witness : mb :=
  mkMB 0 true 5 0 true 10 true true true true false
       [mkSig 0 2 true; mkSig 1 2 true; mkSig 2 2 true; mkSig 3 2 true] [mkSig 0 2 true; mkSig 3 3 true].

Definition byz_committed_both_prefix_full : Prop :=
  forall m l a, get_byzantine_prefix m = Ok l -> In a l ->
    exists e1 e2, In e1 (mb_sigs1 m) /\ In e2 (mb_sigs2 m) /\ g_addr e1 = a /\ g_addr e2 = a /\
                  g_flag e1 = F_COMMIT /\ g_flag e2 = F_COMMIT.

Lemma byz_committed_both_prefix_refuted : ~ byz_committed_both_prefix_full.
Proof.
  intro F.
  assert (B : get_byzantine_prefix framing_witness = Ok [0; 3]) by (vm_compute; reflexivity).
  assert (I3 : In 3 [0; 3]) by (simpl; auto).
  destruct (F framing_witness [0; 3] 3 B I3) as [e1 [e2 [_ [I2 [_ [A2 [_ C2]]]]]]].
  simpl in I2. destruct I2 as [I2|[I2|[]]]; subst e2; vm_compute in A2, C2; congruence.
Qed.

(* (3) JailAndTombstoneValidator cannot fail once SlashValidator has succeeded (comment in HandleConsumerMisbehaviour) *)
Definition jail_after_slash_full : Prop :=
  forall s p ds s1, slash_validator s p ds = Ok s1 -> exists s2, jail_and_tombstone s1 p ds = Ok s2.

Lemma jail_after_slash_refuted : ~ jail_after_slash_full.
Proof.
  intro F.
  set (s := mkS 0 [mkV 3 false 0 false 1000000 1 0 0 false []] []).
  destruct (F s 0 ds5 _ eq_refl) as [s2 J]. vm_compute in J. discriminate J.
Qed.

(* (4) the parameters applied are determined by the evidence (the chain on which the infraction happened) *)
Definition params_of_infraction_chain_full : Prop :=
  forall s entry e c2,
    code (step s (ODV entry e)) = 0 -> code (step s (ODV entry (dv_for e c2))) = 0 ->
    ds_of s (dv_cons e) = ds_of s c2.

Lemma params_of_infraction_chain_refuted : ~ params_of_infraction_chain_full.
Proof.
  intro F. assert (H := F st2 0 (dv_ok 0 0 10) 1 eq_refl eq_refl). vm_compute in H. discriminate H.
Qed.

(* (5) an accepted submission never shortens a jail period *)
Definition jail_not_shortened_full : Prop :=
  forall s entry e v v',
    code (step s (ODV entry e)) = 0 -> getv s (dv_target s e) = Some v ->
    getv (st (step s (ODV entry e))) (dv_target s e) = Some v' -> v_until v <= v_until v'.

Lemma jail_not_shortened_refuted : ~ jail_not_shortened_full.
Proof.
  intro F.
  set (s := mkS 100 [mkV 3 true 999999 false 4000000 4 0 0 true []] [mkC (Some 0) (Some 5) 10 (Some (mkDS 0 1000 false)) []]).
  assert (H := F s 0 (dv_ok 0 0 10) _ _ eq_refl eq_refl eq_refl). vm_compute in H. apply H. reflexivity.
Qed.
