(* Lemmas for C18: a list has at most one sorted permutation under a total antisymmetric order,
   hence AccumulateChanges' result depends neither on the map iteration order nor on the sort algorithm. *)
From Coq Require Import ZArith List Bool Lia Permutation Sorted.
From ICS Require Import Base.Tree Model.Determinism.
Import ListNotations.
Open Scope Z_scope.

(* ---- uniqueness of sorted permutations, generic ---- *)
Section Unique.
  Context {A : Type} (le : A -> A -> Prop).
  Hypothesis le_antisym : forall a b, le a b -> le b a -> a = b.

  Lemma sorted_perm_unique : forall l1 l2,
    StronglySorted le l1 -> StronglySorted le l2 -> Permutation l1 l2 -> l1 = l2.
  Proof.
    induction l1 as [|a t1 IH]; intros l2 H1 H2 HP.
    - apply Permutation_nil in HP. now subst.
    - destruct l2 as [|b t2].
      + apply Permutation_sym, Permutation_nil in HP. discriminate.
      + inversion H1 as [|? ? Hs1 Hall1]; subst. inversion H2 as [|? ? Hs2 Hall2]; subst.
        assert (Hab : a = b).
        { assert (Hina : In a (b :: t2)) by (eapply Permutation_in; [exact HP | now left]).
          assert (Hinb : In b (a :: t1)) by (eapply Permutation_in; [apply Permutation_sym; exact HP | now left]).
          destruct Hina as [->|Hina]; [reflexivity|].
          destruct Hinb as [->|Hinb]; [reflexivity|].
          rewrite Forall_forall in Hall1, Hall2.
          apply le_antisym; [apply Hall1, Hinb | apply Hall2, Hina]. }
        subst b. f_equal. apply IH; try assumption.
        eapply Permutation_cons_inv; exact HP.
  Qed.
End Unique.

(* ---- the order of the sort.Slice comparator ---- *)
Definition ule (a b : upd) : Prop := less a b = true \/ a = b.

Lemma less_spec a b : less a b = true <-> (upow b < upow a \/ (upow a = upow b /\ ukey b < ukey a)).
Proof.
  unfold less. destruct (Z.eqb_spec (upow a) (upow b)) as [E|E].
  - rewrite Z.ltb_lt. lia.
  - rewrite Z.ltb_lt. lia.
Qed.

Lemma ule_antisym a b : ule a b -> ule b a -> a = b.
Proof.
  unfold ule. intros [H1|H1] [H2|H2]; auto.
  apply less_spec in H1. apply less_spec in H2. lia.
Qed.

Lemma less_total a b : less a b = true \/ less b a = true \/ a = b.
Proof.
  rewrite !less_spec. destruct a as [ka pa], b as [kb pb]. unfold ukey, upow; simpl.
  destruct (Z.lt_trichotomy pa pb) as [H|[H|H]]; [lia| |lia].
  destruct (Z.lt_trichotomy ka kb) as [K|[K|K]]; [lia| |lia].
  right; right. now subst.
Qed.

Lemma ule_trans a b c : ule a b -> ule b c -> ule a c.
Proof.
  unfold ule. intros [H1| -> ] [H2| -> ]; auto.
  left. apply less_spec in H1. apply less_spec in H2. apply less_spec. lia.
Qed.

Lemma ule_total a b : ule a b \/ ule b a.
Proof. unfold ule. destruct (less_total a b) as [H|[H|H]]; auto. Qed.

(* ---- insertion sort under [less] ---- *)
Lemma insert_by_perm u l : Permutation (insert_by u l) (u :: l).
Proof.
  induction l as [|x t IH]; simpl; [reflexivity|].
  destruct (less u x); [reflexivity|]. rewrite IH. apply perm_swap.
Qed.

Lemma sort_by_perm l : Permutation (sort_by l) l.
Proof.
  induction l as [|x t IH]; simpl; [reflexivity|]. rewrite insert_by_perm. now constructor.
Qed.

Lemma insert_by_sorted u l : StronglySorted ule l -> StronglySorted ule (insert_by u l).
Proof.
  induction l as [|x t IH]; simpl; intros Hs.
  - constructor; constructor.
  - inversion Hs as [|? ? Hst Hall]; subst.
    destruct (less u x) eqn:E.
    + constructor; [assumption|]. constructor; [now left|].
      rewrite Forall_forall in *. intros y Hy. apply ule_trans with x; [now left | auto].
    + constructor; [now apply IH|].
      rewrite Forall_forall in *. intros y Hy.
      apply (Permutation_in _ (insert_by_perm u t)) in Hy. destruct Hy as [<-|Hy]; [|auto].
      destruct (ule_total x u) as [H|[H|H]]; [assumption | congruence | subst; now right].
  Qed.

Lemma sort_by_sorted l : StronglySorted ule (sort_by l).
Proof. induction l as [|x t IH]; simpl; [constructor | now apply insert_by_sorted]. Qed.

(* Any sorted permutation of l is sort_by l: whatever algorithm sort.Slice runs. *)
Lemma any_sort_is_sort_by l s :
  Permutation s l -> StronglySorted ule s -> s = sort_by l.
Proof.
  intros HP Hs. apply (sorted_perm_unique ule ule_antisym); [assumption | apply sort_by_sorted |].
  rewrite HP. symmetry. apply sort_by_perm.
Qed.

(* AccumulateChanges is independent of the map iteration order and of the sort algorithm. *)
Lemma accumulate_order_free cur new (perm : list upd -> list upd) s :
  (forall l, Permutation (perm l) l) ->
  Permutation s (perm (accumulate_map cur new)) -> StronglySorted ule s ->
  s = accumulate cur new.
Proof.
  intros Hperm HP Hs. unfold accumulate, accumulate_with.
  apply any_sort_is_sort_by; [|assumption]. rewrite HP. apply Hperm.
Qed.

Lemma accumulate_with_indep cur new p1 p2 :
  (forall l, Permutation (p1 l) l) -> (forall l, Permutation (p2 l) l) ->
  accumulate_with p1 cur new = accumulate_with p2 cur new.
Proof.
  intros H1 H2. unfold accumulate_with.
  apply (sorted_perm_unique ule ule_antisym); try apply sort_by_sorted.
  rewrite !sort_by_perm, H1, H2. reflexivity.
Qed.

(* ---- the map step: unique keys, last writer wins ---- *)
Lemma map_set_keys u m k :
  In k (map ukey (map_set u m)) <-> k = ukey u \/ In k (map ukey m).
Proof.
  induction m as [|x t IH]; simpl; [intuition|].
  destruct (Z.eqb_spec (ukey x) (ukey u)) as [E|E]; simpl.
  - rewrite E. intuition.
  - rewrite IH. intuition.
Qed.

Lemma map_set_nodup u m : NoDup (map ukey m) -> NoDup (map ukey (map_set u m)).
Proof.
  induction m as [|x t IH]; simpl; intros H.
  - constructor; [intros []|constructor].
  - inversion H as [|? ? Hnin Hnd]; subst.
    destruct (Z.eqb_spec (ukey x) (ukey u)) as [E|E]; simpl.
    + constructor; [now rewrite <- E|assumption].
    + constructor; [|now apply IH]. rewrite map_set_keys. intros [K|K]; [congruence|contradiction].
Qed.

Lemma lookup_map_set u m k : NoDup (map ukey m) ->
  lookup k (map_set u m) = if k =? ukey u then Some (upow u) else lookup k m.
Proof.
  unfold lookup. induction m as [|x t IH]; simpl; intros Hnd.
  - rewrite (Z.eqb_sym (ukey u) k). destruct (k =? ukey u); reflexivity.
  - inversion Hnd as [|? ? Hnin Hnd']; subst.
    destruct (Z.eqb_spec (ukey x) (ukey u)) as [E|E]; simpl.
    + rewrite (Z.eqb_sym (ukey u) k). destruct (Z.eqb_spec k (ukey u)) as [K|K]; [reflexivity|].
      rewrite E. destruct (Z.eqb_spec (ukey u) k); [congruence|reflexivity].
    + destruct (Z.eqb_spec (ukey x) k) as [K|K].
      * subst k. destruct (Z.eqb_spec (ukey x) (ukey u)); [congruence|reflexivity].
      * apply IH. assumption.
Qed.

Lemma fold_map_set_nodup l m :
  NoDup (map ukey m) -> NoDup (map ukey (fold_left (fun m u => map_set u m) l m)).
Proof. revert m. induction l as [|u t IH]; simpl; intros m H; [assumption|]. apply IH. now apply map_set_nodup. Qed.

Lemma accumulate_map_nodup cur new : NoDup (map ukey (accumulate_map cur new)).
Proof. unfold accumulate_map. apply fold_map_set_nodup, fold_map_set_nodup. constructor. Qed.

Lemma find_app_ {A} (f : A -> bool) l1 l2 :
  find f (l1 ++ l2) = match find f l1 with Some x => Some x | None => find f l2 end.
Proof. induction l1 as [|x t IH]; simpl; [reflexivity|]. destruct (f x); [reflexivity|exact IH]. Qed.

Lemma lookup_fold_map_set l : forall m k, NoDup (map ukey m) ->
  lookup k (fold_left (fun m u => map_set u m) l m) =
  match lookup_last k l with Some p => Some p | None => lookup k m end.
Proof.
  unfold lookup_last. induction l as [|u t IH]; intros m k Hnd; simpl; [reflexivity|].
  rewrite IH by now apply map_set_nodup.
  rewrite lookup_map_set by assumption.
  unfold lookup at 1 3. rewrite find_app_.
  destruct (find (fun x => ukey x =? k) (rev t)) as [x|] eqn:F; [reflexivity|].
  simpl. rewrite (Z.eqb_sym (ukey u) k). destruct (k =? ukey u); reflexivity.
Qed.

(* last writer wins: a key's power in the merged map is its last occurrence in the new changes,
   else its last occurrence in the current changes *)
Lemma accumulate_map_lookup cur new k :
  lookup k (accumulate_map cur new) =
  match lookup_last k new with Some p => Some p | None => lookup_last k cur end.
Proof.
  unfold accumulate_map. rewrite lookup_fold_map_set by (apply fold_map_set_nodup; constructor).
  rewrite lookup_fold_map_set by constructor.
  destruct (lookup_last k new); [reflexivity|]. destruct (lookup_last k cur); reflexivity.
Qed.

Lemma accumulate_perm cur new : Permutation (accumulate cur new) (accumulate_map cur new).
Proof. unfold accumulate, accumulate_with. apply sort_by_perm. Qed.

Lemma accumulate_sorted cur new : StronglySorted ule (accumulate cur new).
Proof. unfold accumulate, accumulate_with. apply sort_by_sorted. Qed.

(* ---- standalone -> consumer changeover: the returned updates hand the consensus set over to the provider's set ---- *)
Lemma find_app_first {A} (f : A -> bool) l1 l2 :
  find f (l1 ++ l2) = match find f l1 with Some x => Some x | None => find f l2 end.
Proof. induction l1 as [|a t IH]; cbn [app find]; [reflexivity|]. destruct (f a); [reflexivity | exact IH]. Qed.

Lemma find_none_intro {A} (f : A -> bool) l : (forall x, In x l -> f x = false) -> find f l = None.
Proof.
  induction l as [|a t IH]; intros H; cbn [find]; [reflexivity|].
  rewrite (H a (or_introl eq_refl)). apply IH. intros x Hx. apply H. now right.
Qed.

Lemma lookup_remove_key k k' m :
  lookup k (remove_key k' m) = if k' =? k then None else lookup k m.
Proof.
  unfold lookup, remove_key. induction m as [|x t IH]; cbn [filter find].
  - now destruct (k' =? k).
  - destruct (ukey x =? k') eqn:E1; cbn [negb].
    + rewrite IH. apply Z.eqb_eq in E1. destruct (k' =? k) eqn:E2; [reflexivity|].
      rewrite E1, E2. reflexivity.
    + cbn [find]. destruct (ukey x =? k) eqn:E3.
      * destruct (k' =? k) eqn:E2; [|reflexivity].
        apply Z.eqb_eq in E2, E3. apply Z.eqb_neq in E1. lia.
      * exact IH.
Qed.

Lemma lookup_map_set_any k u m :
  lookup k (map_set u m) = if ukey u =? k then Some (upow u) else lookup k m.
Proof.
  unfold lookup. induction m as [|x t IH]; cbn [map_set find].
  - destruct (ukey u =? k); reflexivity.
  - destruct (ukey x =? ukey u) eqn:E1; cbn [find].
    + apply Z.eqb_eq in E1. rewrite E1. destruct (ukey u =? k); reflexivity.
    + destruct (ukey x =? k) eqn:E2.
      * destruct (ukey u =? k) eqn:E3; [|reflexivity].
        apply Z.eqb_eq in E2, E3. apply Z.eqb_neq in E1. lia.
      * exact IH.
Qed.

Lemma lookup_tm1 k u m :
  lookup k (tm1 m u) = if ukey u =? k then (if upow u =? 0 then None else Some (upow u)) else lookup k m.
Proof.
  unfold tm1. destruct (upow u =? 0).
  - apply lookup_remove_key.
  - apply lookup_map_set_any.
Qed.

(* last writer wins: the consensus engine's power of k after a batch of updates *)
Lemma lookup_tm_apply k us : forall m,
  lookup k (tm_apply us m) =
  match find (fun x => ukey x =? k) (rev us) with
  | Some u => if upow u =? 0 then None else Some (upow u)
  | None => lookup k m
  end.
Proof.
  unfold tm_apply. induction us as [|u t IH]; intros m; cbn [fold_left rev find]; [reflexivity|].
  rewrite IH, find_app_first.
  destruct (find (fun x => ukey x =? k) (rev t)); [reflexivity|].
  cbn [find]. rewrite lookup_tm1. destruct (ukey u =? k); reflexivity.
Qed.

Lemma has_key_true k l : has_key k l = true <-> exists x, In x l /\ ukey x = k.
Proof.
  unfold has_key. rewrite existsb_exists. split; intros [x [Hx E]]; exists x; split; auto.
  - now apply Z.eqb_eq. - now apply Z.eqb_eq.
Qed.

Lemma zero_part_spec init sa x :
  In x (flat_map (fun s => if has_key (ukey s) init then [] else [(ukey s, 0)]) sa) <->
  exists s, In s sa /\ has_key (ukey s) init = false /\ x = (ukey s, 0).
Proof.
  rewrite in_flat_map. split.
  - intros [s [Hs Hx]]. exists s. destruct (has_key (ukey s) init); [destruct Hx|].
    destruct Hx as [Hx|[]]. auto.
  - intros [s [Hs [Hk Hx]]]. exists s. split; [exact Hs|]. rewrite Hk. now left.
Qed.

Lemma changeover_hands_over init sa k :
  lookup k (tm_apply (changeover_updates init sa) sa) =
  match lookup_last k init with Some p => if p =? 0 then None else Some p | None => None end.
Proof.
  rewrite lookup_tm_apply. unfold changeover_updates. rewrite rev_app_distr, find_app_first.
  unfold lookup_last, lookup. unfold upd in *.
  match goal with |- context [rev (flat_map ?f sa)] => set (Zs := flat_map f sa) end.
  assert (HZ : forall x, In x Zs <-> exists s, In s sa /\ has_key (ukey s) init = false /\ x = (ukey s, 0))
    by (intros x; apply zero_part_spec).
  clearbody Zs.
  match goal with |- context [find ?f (rev init)] => destruct (find f (rev init)) as [u|] eqn:Ei end.
  - (* k is in the initial set: no zero-power update for k was appended *)
    match goal with |- context [find ?f (rev Zs)] => destruct (find f (rev Zs)) as [z|] eqn:Ez end; [|reflexivity].
    exfalso. apply find_some in Ez. destruct Ez as [Hz Ezk]. apply in_rev in Hz. apply HZ in Hz.
    destruct Hz as [s [_ [Hk ->]]]. cbn [ukey fst] in Ezk. apply Z.eqb_eq in Ezk. subst k.
    apply find_some in Ei. destruct Ei as [Hu Eu]. apply in_rev in Hu. apply Z.eqb_eq in Eu.
    assert (has_key (ukey s) init = true) by (apply has_key_true; exists u; auto). congruence.
  - match goal with |- context [find ?f (rev Zs)] => destruct (find f (rev Zs)) as [z|] eqn:Ez end.
    + apply find_some in Ez. destruct Ez as [Hz _]. apply in_rev in Hz. apply HZ in Hz.
      destruct Hz as [s [_ [_ ->]]]. reflexivity.
    + (* k neither in the initial set nor among the appended removals: then it was not a standalone validator *)
      rewrite find_none_intro; [reflexivity|].
      intros s Hs. apply Z.eqb_neq. intros E.
      assert (Hk : has_key (ukey s) init = false).
      { destruct (has_key (ukey s) init) eqn:Hk; [|reflexivity]. apply has_key_true in Hk.
        destruct Hk as [x [Hx Ex]]. pose proof (find_none _ _ Ei x) as Hf. cbv beta in Hf.
        rewrite <- in_rev in Hf. specialize (Hf Hx). apply Z.eqb_neq in Hf. lia. }
      pose proof (find_none _ _ Ez (ukey s, 0)) as Hf. cbv beta in Hf. rewrite <- in_rev in Hf.
      assert (Hin : In (ukey s, 0) Zs) by (apply HZ; exists s; auto).
      specialize (Hf Hin). cbn [ukey fst] in Hf. apply Z.eqb_neq in Hf. lia.
Qed.

Lemma changeover_hands_over_pos init sa k :
  (forall x, In x init -> 0 < upow x) ->
  lookup k (tm_apply (changeover_updates init sa) sa) = lookup_last k init.
Proof.
  intros Hpos. rewrite changeover_hands_over. unfold lookup_last, lookup.
  destruct (find (fun x => ukey x =? k) (rev init)) as [u|] eqn:E; [|reflexivity].
  apply find_some in E. destruct E as [Hu _]. apply in_rev in Hu. specialize (Hpos u Hu).
  destruct (upow u =? 0) eqn:E0; [apply Z.eqb_eq in E0; lia | reflexivity].
Qed.

(* the returned slice starts with the stored initial set, unchanged and in its stored order *)
Lemma changeover_prefix init sa : firstn (length init) (changeover_updates init sa) = init.
Proof. unfold changeover_updates. rewrite firstn_app, Nat.sub_diag, firstn_all. cbn [firstn]. apply app_nil_r. Qed.

(* every appended update removes a standalone validator that the provider set does not contain *)
Lemma changeover_tail init sa x :
  In x (skipn (length init) (changeover_updates init sa)) ->
  upow x = 0 /\ has_key (ukey x) init = false /\ has_key (ukey x) sa = true.
Proof.
  unfold changeover_updates. rewrite skipn_app, Nat.sub_diag, skipn_all. cbn [skipn app].
  intros Hx. apply zero_part_spec in Hx. destruct Hx as [s [Hs [Hk ->]]]. cbn [upow ukey fst snd].
  repeat split; [exact Hk|]. apply has_key_true. exists s. auto.
Qed.

Lemma changeover_complete_spec init_h h : changeover_complete init_h h = true <-> init_h + 2 <= h.
Proof. unfold changeover_complete. apply Z.leb_le. Qed.

(* the cross-chain validator store after ApplyCCValidatorChanges: last writer wins, a power below 1 means absent *)
Lemma lookup_cc_apply k cs : forall m,
  lookup k (cc_apply cs m) =
  match find (fun x => ukey x =? k) (rev cs) with
  | Some u => if upow u <? 1 then None else Some (upow u)
  | None => lookup k m
  end.
Proof.
  induction cs as [|c t IH]; intros m; cbn [cc_apply rev find]; [reflexivity|].
  rewrite find_app_first.
  assert (Hstep : forall m', 
    (forall k', lookup k' m' = if ukey c =? k' then (if upow c <? 1 then None else Some (upow c)) else lookup k' m) ->
    lookup k (cc_apply t m') =
    match find (fun x => ukey x =? k) (rev t) with
    | Some x => if upow x <? 1 then None else Some (upow x)
    | None => match find (fun x => ukey x =? k) [c] with
              | Some u => if upow u <? 1 then None else Some (upow u)
              | None => lookup k m end
    end).
  { intros m' Hm'. rewrite IH. destruct (find (fun x => ukey x =? k) (rev t)); [reflexivity|].
    cbn [find]. rewrite Hm'. destruct (ukey c =? k); reflexivity. }
  destruct (lookup (ukey c) m) as [p|] eqn:El.
  - destruct (upow c <? 1) eqn:Ep.
    + rewrite Hstep.
      * destruct (find (fun x => ukey x =? k) (rev t)); reflexivity.
      * intros k'. rewrite lookup_remove_key. reflexivity.
    + rewrite Hstep.
      * destruct (find (fun x => ukey x =? k) (rev t)); reflexivity.
      * intros k'. rewrite lookup_map_set_any. reflexivity.
  - destruct (0 <? upow c) eqn:Ep.
    + assert (Ep' : upow c <? 1 = false) by (apply Z.ltb_lt in Ep; apply Z.ltb_ge; lia).
      rewrite Hstep.
      * destruct (find (fun x => ukey x =? k) (rev t)); reflexivity.
      * intros k'. rewrite lookup_map_set_any, Ep'. reflexivity.
    + assert (Ep' : upow c <? 1 = true) by (apply Z.ltb_ge in Ep; apply Z.ltb_lt; lia).
      rewrite Hstep.
      * destruct (find (fun x => ukey x =? k) (rev t)); reflexivity.
      * intros k'. rewrite Ep'. destruct (ukey c =? k') eqn:E; [|reflexivity].
        apply Z.eqb_eq in E. subst k'. exact El.
Qed.

Lemma changeover_cc_store init k :
  (forall x, In x init -> 0 < upow x) ->
  lookup k (cc_apply init []) = lookup_last k init.
Proof.
  intros Hpos. rewrite lookup_cc_apply. unfold lookup_last, lookup.
  destruct (find (fun x => ukey x =? k) (rev init)) as [u|] eqn:E; [|reflexivity].
  apply find_some in E. destruct E as [Hu _]. apply in_rev in Hu. specialize (Hpos u Hu).
  destruct (upow u <? 1) eqn:E0; [apply Z.ltb_lt in E0; lia | reflexivity].
Qed.
