(* Lemmas for C18: a list has at most one sorted permutation under a total antisymmetric order,
   hence AccumulateChanges' result depends neither on the map iteration order nor on the sort algorithm. *)
From Coq Require Import ZArith List Bool Lia Permutation Sorted.
From ICS Require Import Base.Tree Model.Determinism.
Import ListNotations.
Open Scope Z_scope.

(* ---- uniqueness of sorted permutations, generic ---- *)
Section Unique.
  Context {A : Type} (le : A -> A -> Prop).
  Hypothesis le_antisym : forall a b, le a b -> le b a -> a = b.

  Lemma sorted_perm_unique : forall l1 l2,
    StronglySorted le l1 -> StronglySorted le l2 -> Permutation l1 l2 -> l1 = l2.
  Proof.
    induction l1 as [|a t1 IH]; intros l2 H1 H2 HP.
    - apply Permutation_nil in HP. now subst.
    - destruct l2 as [|b t2].
      + apply Permutation_sym, Permutation_nil in HP. discriminate.
      + inversion H1 as [|? ? Hs1 Hall1]; subst. inversion H2 as [|? ? Hs2 Hall2]; subst.
        assert (Hab : a = b).
        { assert (Hina : In a (b :: t2)) by (eapply Permutation_in; [exact HP | now left]).
          assert (Hinb : In b (a :: t1)) by (eapply Permutation_in; [apply Permutation_sym; exact HP | now left]).
          destruct Hina as [->|Hina]; [reflexivity|].
          destruct Hinb as [->|Hinb]; [reflexivity|].
          rewrite Forall_forall in Hall1, Hall2.
          apply le_antisym; [apply Hall1, Hinb | apply Hall2, Hina]. }
        subst b. f_equal. apply IH; try assumption.
        eapply Permutation_cons_inv; exact HP.
  Qed.
End Unique.

(* ---- the order of the sort.Slice comparator ---- *)
Definition ule (a b : upd) : Prop := less a b = true \/ a = b.

Lemma less_spec a b : less a b = true <-> (upow b < upow a \/ (upow a = upow b /\ ukey b < ukey a)).
Proof.
  unfold less. destruct (Z.eqb_spec (upow a) (upow b)) as [E|E].
  - rewrite Z.ltb_lt. lia.
  - rewrite Z.ltb_lt. lia.
Qed.

Lemma ule_antisym a b : ule a b -> ule b a -> a = b.
Proof.
  unfold ule. intros [H1|H1] [H2|H2]; auto.
  apply less_spec in H1. apply less_spec in H2. lia.
Qed.

Lemma less_total a b : less a b = true \/ less b a = true \/ a = b.
Proof.
  rewrite !less_spec. destruct a as [ka pa], b as [kb pb]. unfold ukey, upow; simpl.
  destruct (Z.lt_trichotomy pa pb) as [H|[H|H]]; [lia| |lia].
  destruct (Z.lt_trichotomy ka kb) as [K|[K|K]]; [lia| |lia].
  right; right. now subst.
Qed.

Lemma ule_trans a b c : ule a b -> ule b c -> ule a c.
Proof.
  unfold ule. intros [H1| -> ] [H2| -> ]; auto.
  left. apply less_spec in H1. apply less_spec in H2. apply less_spec. lia.
Qed.

Lemma ule_total a b : ule a b \/ ule b a.
Proof. unfold ule. destruct (less_total a b) as [H|[H|H]]; auto. Qed.

(* ---- insertion sort under [less] ---- *)
Lemma insert_by_perm u l : Permutation (insert_by u l) (u :: l).
Proof.
  induction l as [|x t IH]; simpl; [reflexivity|].
  destruct (less u x); [reflexivity|]. rewrite IH. apply perm_swap.
Qed.

Lemma sort_by_perm l : Permutation (sort_by l) l.
Proof.
  induction l as [|x t IH]; simpl; [reflexivity|]. rewrite insert_by_perm. now constructor.
Qed.

Lemma insert_by_sorted u l : StronglySorted ule l -> StronglySorted ule (insert_by u l).
Proof.
  induction l as [|x t IH]; simpl; intros Hs.
  - constructor; constructor.
  - inversion Hs as [|? ? Hst Hall]; subst.
    destruct (less u x) eqn:E.
    + constructor; [assumption|]. constructor; [now left|].
      rewrite Forall_forall in *. intros y Hy. apply ule_trans with x; [now left | auto].
    + constructor; [now apply IH|].
      rewrite Forall_forall in *. intros y Hy.
      apply (Permutation_in _ (insert_by_perm u t)) in Hy. destruct Hy as [<-|Hy]; [|auto].
      destruct (ule_total x u) as [H|[H|H]]; [assumption | congruence | subst; now right].
  Qed.

Lemma sort_by_sorted l : StronglySorted ule (sort_by l).
Proof. induction l as [|x t IH]; simpl; [constructor | now apply insert_by_sorted]. Qed.

(* Any sorted permutation of l is sort_by l: whatever algorithm sort.Slice runs. *)
Lemma any_sort_is_sort_by l s :
  Permutation s l -> StronglySorted ule s -> s = sort_by l.
Proof.
  intros HP Hs. apply (sorted_perm_unique ule ule_antisym); [assumption | apply sort_by_sorted |].
  rewrite HP. symmetry. apply sort_by_perm.
Qed.

(* AccumulateChanges is independent of the map iteration order and of the sort algorithm. *)
Lemma accumulate_order_free cur new (perm : list upd -> list upd) s :
  (forall l, Permutation (perm l) l) ->
  Permutation s (perm (accumulate_map cur new)) -> StronglySorted ule s ->
  s = accumulate cur new.
Proof.
  intros Hperm HP Hs. unfold accumulate, accumulate_with.
  apply any_sort_is_sort_by; [|assumption]. rewrite HP. apply Hperm.
Qed.

Lemma accumulate_with_indep cur new p1 p2 :
  (forall l, Permutation (p1 l) l) -> (forall l, Permutation (p2 l) l) ->
  accumulate_with p1 cur new = accumulate_with p2 cur new.
Proof.
  intros H1 H2. unfold accumulate_with.
  apply (sorted_perm_unique ule ule_antisym); try apply sort_by_sorted.
  rewrite !sort_by_perm, H1, H2. reflexivity.
Qed.

(* ---- the map step: unique keys, last writer wins ---- *)
Lemma map_set_keys u m k :
  In k (map ukey (map_set u m)) <-> k = ukey u \/ In k (map ukey m).
Proof.
  induction m as [|x t IH]; simpl; [intuition|].
  destruct (Z.eqb_spec (ukey x) (ukey u)) as [E|E]; simpl.
  - rewrite E. intuition.
  - rewrite IH. intuition.
Qed.

Lemma map_set_nodup u m : NoDup (map ukey m) -> NoDup (map ukey (map_set u m)).
Proof.
  induction m as [|x t IH]; simpl; intros H.
  - constructor; [intros []|constructor].
  - inversion H as [|? ? Hnin Hnd]; subst.
    destruct (Z.eqb_spec (ukey x) (ukey u)) as [E|E]; simpl.
    + constructor; [now rewrite <- E|assumption].
    + constructor; [|now apply IH]. rewrite map_set_keys. intros [K|K]; [congruence|contradiction].
Qed.

Lemma lookup_map_set u m k : NoDup (map ukey m) ->
  lookup k (map_set u m) = if k =? ukey u then Some (upow u) else lookup k m.
Proof.
  unfold lookup. induction m as [|x t IH]; simpl; intros Hnd.
  - rewrite (Z.eqb_sym (ukey u) k). destruct (k =? ukey u); reflexivity.
  - inversion Hnd as [|? ? Hnin Hnd']; subst.
    destruct (Z.eqb_spec (ukey x) (ukey u)) as [E|E]; simpl.
    + rewrite (Z.eqb_sym (ukey u) k). destruct (Z.eqb_spec k (ukey u)) as [K|K]; [reflexivity|].
      rewrite E. destruct (Z.eqb_spec (ukey u) k); [congruence|reflexivity].
    + destruct (Z.eqb_spec (ukey x) k) as [K|K].
      * subst k. destruct (Z.eqb_spec (ukey x) (ukey u)); [congruence|reflexivity].
      * apply IH. assumption.
Qed.

Lemma fold_map_set_nodup l m :
  NoDup (map ukey m) -> NoDup (map ukey (fold_left (fun m u => map_set u m) l m)).
Proof. revert m. induction l as [|u t IH]; simpl; intros m H; [assumption|]. apply IH. now apply map_set_nodup. Qed.

Lemma accumulate_map_nodup cur new : NoDup (map ukey (accumulate_map cur new)).
Proof. unfold accumulate_map. apply fold_map_set_nodup, fold_map_set_nodup. constructor. Qed.

Lemma find_app_ {A} (f : A -> bool) l1 l2 :
  find f (l1 ++ l2) = match find f l1 with Some x => Some x | None => find f l2 end.
Proof. induction l1 as [|x t IH]; simpl; [reflexivity|]. destruct (f x); [reflexivity|exact IH]. Qed.

Lemma lookup_fold_map_set l : forall m k, NoDup (map ukey m) ->
  lookup k (fold_left (fun m u => map_set u m) l m) =
  match lookup_last k l with Some p => Some p | None => lookup k m end.
Proof.
  unfold lookup_last. induction l as [|u t IH]; intros m k Hnd; simpl; [reflexivity|].
  rewrite IH by now apply map_set_nodup.
  rewrite lookup_map_set by assumption.
  unfold lookup at 1 3. rewrite find_app_.
  destruct (find (fun x => ukey x =? k) (rev t)) as [x|] eqn:F; [reflexivity|].
  simpl. rewrite (Z.eqb_sym (ukey u) k). destruct (k =? ukey u); reflexivity.
Qed.

(* last writer wins: a key's power in the merged map is its last occurrence in the new changes,
   else its last occurrence in the current changes *)
Lemma accumulate_map_lookup cur new k :
  lookup k (accumulate_map cur new) =
  match lookup_last k new with Some p => Some p | None => lookup_last k cur end.
Proof.
  unfold accumulate_map. rewrite lookup_fold_map_set by (apply fold_map_set_nodup; constructor).
  rewrite lookup_fold_map_set by constructor.
  destruct (lookup_last k new); [reflexivity|]. destruct (lookup_last k cur); reflexivity.
Qed.

Lemma accumulate_perm cur new : Permutation (accumulate cur new) (accumulate_map cur new).
Proof. unfold accumulate, accumulate_with. apply sort_by_perm. Qed.

Lemma accumulate_sorted cur new : StronglySorted ule (accumulate cur new).
Proof. unfold accumulate, accumulate_with. apply sort_by_sorted. Qed.
