(* Lemmas behind the theorems of Props/C19.v: totality of the block operations, exact rollback of a failing
   launch / deletion attempt / reward allocation, and independence of the other consumers. *)
From Coq Require Import ZArith List Bool Lia Permutation.
From ICS Require Import Base.Tree Base.Dec Model.Lifecycle Proofs.LifecycleBase Proofs.LifecycleInv Proofs.LifecycleSteps
  Proofs.LifecycleC10 Proofs.LifecycleC11.
From ICS Require Model.Rewards.
Import ListNotations.
Open Scope Z_scope.

(* ------------------------------------------------------------------ totality *)

Lemma c19_endblock_total : forall U ops epoch order ora, result U (reach U ops) (OEnd epoch order ora) = 0.
Proof. intros. unfold result. simpl exec. unfold do_end. destruct epoch; reflexivity. Qed.

Lemma apply_ini_code : forall s c p prev ini code, apply_ini s c p prev ini = inr code ->
  code = r_update \/ code = r_initpar.
Proof.
  intros s c p prev ini code H. unfold apply_ini in H.
  destruct ini as [[[sp hr] cn]|].
  - destruct (negb (is_prelaunched p)); [inversion H; now left|].
    destruct (if (sp =? 0) && (p =? 2)
              then match tq_remove (s_spawnq s) prev c with
                   | Some q => Some (upd (set_spawnq q s) c (set_phase 1))
                   | None => None end
              else Some s) as [s3|]; [|inversion H; now left].
    destruct (negb (hr =? match get s3 c with Some r => d_rev (c_desc r) | None => 0 end)); inversion H. now right.
  - destruct (get s c) as [r|]; [|discriminate].
    destruct (d_hrev (c_desc r) =? d_rev (c_desc r)); inversion H. now left.
Qed.

(* no operation at all reports a block error (code 9) in a reachable state *)
Lemma c19_no_block_error : forall U ops o, result U (reach U ops) o <> r_block.
Proof.
  intros U ops o. set (s := reach U ops). unfold result, r_block.
  destruct o as [owner chain rev ini | c0 sender nc no ini | c0 sender | c0 v k | c0 tag | c0 | now ora
                | epoch order ora | c0 | c0 | ]; simpl exec.
  - unfold do_create. destruct (match ini with Some x => x | None => (0, 1, 0) end) as [[spawn hrev] conn].
    destruct (negb (hrev =? rev)); [simpl; discriminate|].
    destruct (initialize_and_prepare _ (s_next s) 0); simpl; discriminate.
  - unfold do_update. destruct (get s c0) as [r0|]; [|simpl; discriminate].
    destruct (negb (is_active (c_phase r0))); [simpl; discriminate|].
    destruct (negb (d_owner (c_desc r0) =? sender)); [simpl; discriminate|].
    match goal with |- snd (if ?b then _ else _) <> _ => destruct b end; [simpl; discriminate|].
    match goal with |- snd (match ?x with inl _ => _ | inr _ => _ end) <> _ => destruct x as [s4|code] eqn:E end.
    + match goal with |- snd (match ?x with Some _ => _ | None => _ end) <> _ => destruct x end; simpl; discriminate.
    + simpl. destruct (apply_ini_code _ _ _ _ _ _ E) as [->| ->]; discriminate.
  - unfold do_remove. destruct (get s c0) as [r0|]; [|simpl; discriminate].
    destruct (negb (d_owner (c_desc r0) =? sender)); [simpl; discriminate|].
    destruct (negb (c_phase r0 =? 3)); simpl; discriminate.
  - unfold do_optin. destruct (get s c0) as [r0|]; [|simpl; discriminate].
    destruct (negb (is_active (c_phase r0))); simpl; discriminate.
  - unfold do_decorate. destruct (get s c0); simpl; discriminate.
  - unfold do_channel. destruct (get s c0) as [r0|]; [|simpl; discriminate].
    destruct (p_client (c_proto r0) && negb (p_channel (c_proto r0))); simpl; discriminate.
  - rewrite (proj2 (inv_begin s now ora (reach_inv U ops))). discriminate.
  - unfold do_end. destruct epoch; simpl; discriminate.
  - unfold do_packet_failure. destruct (get s c0) as [r0|]; [|simpl; discriminate].
    destruct (p_channel (c_proto r0)); simpl; discriminate.
  - unfold do_packet_failure. destruct (get s c0) as [r0|]; [|simpl; discriminate].
    destruct (p_channel (c_proto r0)); simpl; discriminate.
  - discriminate.
Qed.

Lemma c19_queue_ids_exist : forall U ops c, In c (all_ids (s_spawnq (reach U ops))) ->
  exists r, get (reach U ops) c = Some r /\ c_phase r = 2 /\ d_rev (c_desc r) = d_hrev (c_desc r).
Proof.
  intros U ops c Hin. destruct (c10_queue_consistent U ops) as (_ & He & Hc).
  destruct (He c Hin) as [r Hg]. exists r. split; [exact Hg|]. split.
  - apply (proj1 (Hc c r Hg)). exact Hin.
  - exact (c10_rev_invariant U ops c r Hg).
Qed.

(* ------------------------------------------------------------------ a failing launch is rolled back exactly *)

Lemma c19_launch_rollback : forall U ops now ora c,
  let s := reach U ops in let s' := step U s (OBegin now ora) in
  In c (attempted s now) -> lora_good (lookup no_lora ora c) = false ->
  exists r, get s c = Some r /\ c_phase r = 2 /\
    get s' c = Some (fallback r) /\
    c_phase (fallback r) = 1 /\ d_spawn (c_desc (fallback r)) = 0 /\
    c_proto (fallback r) = c_proto r /\ prelaunch_proto (c_proto r) /\
    c_sent (fallback r) = c_sent r /\ c_id (fallback r) = c_id r /\
    d_owner (c_desc (fallback r)) = d_owner (c_desc r) /\ d_chain (c_desc (fallback r)) = d_chain (c_desc r) /\
    d_rev (c_desc (fallback r)) = d_rev (c_desc r) /\ d_hrev (c_desc (fallback r)) = d_hrev (c_desc r) /\
    d_conn (c_desc (fallback r)) = d_conn (c_desc r).
Proof.
  intros U ops now ora c s s' Hin Hbad.
  destruct (c10_launch_when_due U ops now ora) as (_ & H & _).
  destruct (H c Hin) as (r & Hg & Hp & Hget & _ & _).
  exists r. split; [exact Hg|]. split; [exact Hp|].
  unfold attempt in Hget. rewrite Hbad in Hget. split; [exact Hget|].
  assert (Hc := io_cons _ _ (reach_inv U ops) c r (fun H => H) Hg). cinv_destruct Hc.
  simpl. split; [reflexivity|]. split; [reflexivity|]. split; [reflexivity|].
  split; [apply A5; lia|]. repeat split; reflexivity.
Qed.

(* ------------------------------------------------------------------ the other consumers are processed independently *)

Lemma c19_others_continue : forall U ops now ora ora' c,
  let s := reach U ops in
  lookup no_lora ora c = lookup no_lora ora' c ->
  get (step U s (OBegin now ora)) c = get (step U s (OBegin now ora')) c.
Proof.
  intros U ops now ora ora' c s Hl. assert (Hi := reach_inv U ops). fold s in Hi.
  destruct (get s c) as [r|] eqn:Hg.
  - unfold step. simpl exec. rewrite !(begin_get s now _ c r Hi Hg). rewrite Hl. reflexivity.
  - destruct (step_new U s (OBegin now ora) c Hi Hg) as [H1|(Hc & _)]; [|discriminate].
    destruct (step_new U s (OBegin now ora') c Hi Hg) as [H2|(Hc & _)]; [|discriminate].
    congruence.
Qed.

(* queues, counter and clock after a begin-block do not depend on the failure oracle at all *)
Lemma c19_begin_frame : forall U ops now ora ora',
  let s := reach U ops in
  let a := step U s (OBegin now ora) in let b := step U s (OBegin now ora') in
  s_spawnq a = s_spawnq b /\ s_remq a = s_remq b /\ s_next a = s_next b /\ s_now a = s_now b.
Proof.
  intros U ops now ora ora' s a b. assert (Hi := reach_inv U ops). fold s in Hi.
  unfold a, b, step. simpl exec.
  rewrite !(proj1 (begin_spawnq s now _ Hi)), !(proj2 (begin_spawnq s now _ Hi)).
  split; [reflexivity|]. split; [reflexivity|].
  assert (Hn := fun o => step_next U s (OBegin now o) Hi). unfold step, creates in Hn. simpl in Hn.
  assert (Ht := fun o => step_now U s (OBegin now o) Hi). unfold step in Ht. simpl in Ht.
  rewrite !Hn, !Ht. split; reflexivity.
Qed.

(* the same for the end-block: the outcome of a consumer depends only on its own oracle entry *)
Definition agree (c : Z) (s s' : state) : Prop := get s c = get s' c /\ s_now s = s_now s'.

Lemma queue_one_agree : forall ora ora' c c0 s s', lookup no_eora ora c = lookup no_eora ora' c ->
  agree c s s' -> agree c (queue_one ora s c0) (queue_one ora' s' c0).
Proof.
  intros ora ora' c c0 s s' Hl [Hg Hn].
  assert (Hnow : forall o x, s_now (queue_one o x c0) = s_now x).
  { intros o x. unfold queue_one. destruct (get x c0); [|reflexivity]. destruct (_ && _); reflexivity. }
  split; [|rewrite !Hnow; exact Hn].
  destruct (Z.eq_dec c0 c) as [->|Hne].
  - assert (G' : get s' c = get s c) by (symmetry; exact Hg).
    unfold queue_one. rewrite G'. destruct (get s c) as [r|] eqn:G; [|congruence].
    destruct (p_client (c_proto r) && (c_phase r =? 3)); [|congruence].
    rewrite !get_upd by (intros r0 Hr0; destruct (eo_changes _); exact Hr0).
    rewrite Z.eqb_refl, G', G, Hl. reflexivity.
  - assert (Ho : forall o x, get (queue_one o x c0) c = get x c).
    { intros o x. unfold queue_one. destruct (get x c0); [|reflexivity]. destruct (_ && _); [|reflexivity].
      apply get_upd_other; [intros r0 Hr0; destruct (eo_changes _); exact Hr0 | exact Hne]. }
    rewrite !Ho. exact Hg.
Qed.

Lemma send_one_agree : forall U ora ora' c c0 s s', lookup no_eora ora c = lookup no_eora ora' c ->
  agree c s s' -> agree c (send_one U ora s c0) (send_one U ora' s' c0).
Proof.
  intros U ora ora' c c0 s s' Hl [Hg Hn].
  assert (Hnow : forall o x, s_now (send_one U o x c0) = s_now x).
  { intros o x. exact (proj1 (estep_send_one U o x c0)). }
  split; [|rewrite !Hnow; exact Hn].
  destruct (Z.eq_dec c0 c) as [->|Hne].
  - assert (G' : get s' c = get s c) by (symmetry; exact Hg).
    unfold send_one. rewrite G'. destruct (get s c) as [r|] eqn:G; [|congruence].
    destruct (p_client (c_proto r) && (c_phase r =? 3) && p_channel (c_proto r)); [|congruence].
    destruct (p_pending (c_proto r) =? 0); [congruence|]. rewrite <- Hl.
    destruct (eo_mode (lookup no_eora ora c) =? 0).
    + rewrite !get_upd by (intros r0 Hr0; exact Hr0). rewrite Z.eqb_refl, G', G. reflexivity.
    + destruct (eo_mode (lookup no_eora ora c) =? 1); [congruence|].
      destruct (p_pending (c_proto r) <=? Z.max 0 (eo_mode (lookup no_eora ora c) - 2)).
      * rewrite !get_upd by (intros r0 Hr0; exact Hr0). rewrite Z.eqb_refl, G', G. reflexivity.
      * destruct (eo_stopfail (lookup no_eora ora c)).
        -- rewrite !get_upd by (intros r0 Hr0; exact Hr0). rewrite Z.eqb_refl, G', G. reflexivity.
        -- rewrite !stop_get. rewrite Z.eqb_refl. rewrite !get_upd by (intros r0 Hr0; exact Hr0).
           rewrite Z.eqb_refl, G', G. simpl. rewrite Hn. reflexivity.
  - assert (Ho : forall o x, get (send_one U o x c0) c = get x c).
    { intros o x. unfold send_one. destruct (get x c0) as [r0|]; [|reflexivity].
      destruct (_ && _ && _); [|reflexivity]. destruct (_ =? 0); [reflexivity|].
      destruct (_ =? 0); [apply get_upd_other; [intros r1 Hr1; exact Hr1 | exact Hne]|].
      destruct (_ =? 1); [reflexivity|].
      destruct (_ <=? _); [apply get_upd_other; [intros r1 Hr1; exact Hr1 | exact Hne]|].
      destruct (eo_stopfail _); [apply get_upd_other; [intros r1 Hr1; exact Hr1 | exact Hne]|].
      rewrite stop_get. apply Z.eqb_neq in Hne. rewrite Hne.
      apply Z.eqb_neq in Hne. apply get_upd_other; [intros r1 Hr1; exact Hr1 | exact Hne]. }
    rewrite !Ho. exact Hg.
Qed.

Lemma fold_agree : forall (f f' : state -> Z -> state) c,
  (forall c0 s s', agree c s s' -> agree c (f s c0) (f' s' c0)) ->
  forall l s s', agree c s s' -> agree c (fold_left f l s) (fold_left f' l s').
Proof. intros f f' c Hf. induction l as [|x l IH]; intros s s' H; simpl; [exact H | apply IH; apply Hf; exact H]. Qed.

Lemma c19_end_others_continue : forall U ops epoch order ora ora' c,
  let s := reach U ops in
  lookup no_eora ora c = lookup no_eora ora' c ->
  get (step U s (OEnd epoch order ora)) c = get (step U s (OEnd epoch order ora')) c.
Proof.
  intros U ops epoch order ora ora' c s Hl. unfold step. simpl exec. unfold do_end.
  destruct epoch; simpl fst; [|reflexivity].
  apply (fold_agree (send_one U ora) (send_one U ora') c).
  - intros c0 x y Hxy. apply send_one_agree; assumption.
  - apply (fold_agree (queue_one ora) (queue_one ora') c).
    + intros c0 x y Hxy. apply queue_one_agree; assumption.
    + split; reflexivity.
Qed.

(* ------------------------------------------------------------------ a deletion attempt on a non-stopped consumer is a no-op *)

Lemma c19_delete_rollback : forall U ops now ora c r,
  let s := reach U ops in
  In c (removal_due s now) -> get s c = Some r -> c_phase r <> 4 ->
  get (step U s (OBegin now ora)) c = Some r /\ c_phase r = 5.
Proof.
  intros U ops now ora c r s Hin Hg Hp. assert (Hi := reach_inv U ops). fold s in Hi.
  assert (Hall : In c (all_ids (s_remq s))).
  { unfold removal_due in Hin. apply in_firstn in Hin.
    destruct (due_prefix _ now (io_rq_sorted _ _ Hi)) as [rest Hr]. rewrite Hr. apply in_or_app. now left. }
  destruct (io_rq_sound _ _ Hi c (fun H => H) Hall) as (r' & Hg' & Hp'). rewrite Hg in Hg'. inversion Hg'; subst r'.
  assert (Hc := io_cons _ _ Hi c r (fun H => H) Hg). cinv_destruct Hc.
  split; [|lia].
  unfold step. simpl exec. rewrite (begin_get s now ora c r Hi Hg).
  destruct (mem c (attempted s now)) eqn:Ea.
  { apply mem_in in Ea. destruct (attempted_facts s now c Hi Ea) as (r' & G' & P' & _). rewrite Hg in G'. inversion G'; subst r'. lia. }
  assert (c_phase r =? 4 = false) as -> by (apply Z.eqb_neq; exact Hp). rewrite andb_false_r. reflexivity.
Qed.

(* ------------------------------------------------------------------ reward allocation (model of the C16 slice) *)

Lemma c19_alloc_rollback : forall env f c d m,
  Rewards.alloc_body env f c d m = None -> Rewards.alloc_one env f c m d = m.
Proof. intros env f c d m H. unfold Rewards.alloc_one. rewrite H. reflexivity. Qed.

(* a failing GetCommunityTax (any consumer with eligible voting power and a credit) *)
Lemma c19_alloc_tax_failure : forall env f c d m,
  Rewards.b_fail_tax env = true ->
  Rewards.total_power (Rewards.epochs f * Rewards.bpe f) (Rewards.b_h env) (Rewards.lookup_list c (Rewards.valsets f)) <> 0 ->
  Rewards.alloc_one env f c m d = m.
Proof.
  intros env f c d m Ht Hp. apply c19_alloc_rollback. unfold Rewards.alloc_body.
  destruct (Rewards.get (c, d) (Rewards.alloc m) =? 0); [reflexivity|].
  destruct (negb (Rewards.has_chain c f)); [reflexivity|]. cbv zeta.
  apply Z.eqb_neq in Hp. rewrite Hp. rewrite Ht. reflexivity.
Qed.

(* a failing transfer to the distribution module *)
Lemma c19_alloc_send_failure : forall env f c d m,
  Rewards.memz d (Rewards.b_fail_send env) = true ->
  Rewards.total_power (Rewards.epochs f * Rewards.bpe f) (Rewards.b_h env) (Rewards.lookup_list c (Rewards.valsets f)) <> 0 ->
  dtrunc_int (dmul_trunc (Rewards.get (c, d) (Rewards.alloc m)) (dsub (dec_of_int 1) (Rewards.b_tax env))) <> 0 ->
  Rewards.alloc_one env f c m d = m.
Proof.
  intros env f c d m Hs Hp Hv. apply c19_alloc_rollback. unfold Rewards.alloc_body.
  destruct (Rewards.get (c, d) (Rewards.alloc m) =? 0); [reflexivity|].
  destruct (negb (Rewards.has_chain c f)); [reflexivity|]. cbv zeta.
  apply Z.eqb_neq in Hp. rewrite Hp.
  destruct (Rewards.b_fail_tax env); [reflexivity|].
  apply Z.eqb_neq in Hv. rewrite Hv, Hs. reflexivity.
Qed.

(* the loop continues with the next denom / consumer as if the failing allocation had not been attempted *)
Lemma c19_alloc_others_continue : forall env f c d ds m,
  Rewards.alloc_body env f c d m = None ->
  fold_left (Rewards.alloc_one env f c) (d :: ds) m = fold_left (Rewards.alloc_one env f c) ds m.
Proof. intros env f c d ds m H. simpl. rewrite (c19_alloc_rollback env f c d m H). reflexivity. Qed.
