(* Lemmas about the data-level functions of Model/Vsc.v: integer-keyed stores, Go-map lookups on lists,
   DiffValidators, update application, ApplyCCValidatorChanges, AccumulateChanges. *)
From Coq Require Import ZArith List Bool Lia Permutation Sorted.
From ICS Require Import Base.Tree Model.Vsc.
Import ListNotations.
Open Scope Z_scope.

(* ---------- sorted stores ---------- *)
Definition lb (k : Z) (m : kmap) : Prop := Forall (fun e => k < fst e) m.
Fixpoint msorted (m : kmap) : Prop :=
  match m with
  | [] => True
  | e :: t => lb (fst e) t /\ msorted t
  end.

Lemma lb_weaken k k' m : k' <= k -> lb k m -> lb k' m.
Proof. unfold lb. intros Hle H. eapply Forall_impl; [|exact H]. simpl. intros; lia. Qed.

Lemma mget_lb k k' m : lb k m -> k' <= k -> mget k' m = None.
Proof.
  induction m as [|[a v] t IH]; simpl; intros Hlb Hle; [reflexivity|].
  inversion Hlb as [|? ? Ha Ht]; subst. simpl in Ha.
  destruct (Z.eqb_spec k' a); [lia|]. now apply IH.
Qed.

Lemma mget_mset k v m k' : mget k' (mset k v m) = if k' =? k then Some v else mget k' m.
Proof.
  induction m as [|[a w] t IH]; simpl.
  - reflexivity.
  - destruct (Z.ltb_spec k a) as [Hlt|Hge]; simpl.
    + reflexivity.
    + destruct (Z.eqb_spec k a) as [->|Hne]; simpl.
      * destruct (Z.eqb_spec k' a); reflexivity.
      * rewrite IH. destruct (Z.eqb_spec k' a) as [->|Hne'].
        -- destruct (Z.eqb_spec a k); [congruence|reflexivity].
        -- reflexivity.
Qed.

Lemma mget_mdel_other k m k' : k' <> k -> mget k' (mdel k m) = mget k' m.
Proof.
  intros Hne. induction m as [|[a w] t IH]; simpl; [reflexivity|].
  destruct (Z.eqb_spec k a) as [->|Hka]; simpl.
  - destruct (Z.eqb_spec k' a); [congruence|reflexivity].
  - rewrite IH. reflexivity.
Qed.

Lemma mget_mdel_same k m : msorted m -> mget k (mdel k m) = None.
Proof.
  induction m as [|[a w] t IH]; simpl; intros Hs; [reflexivity|].
  destruct Hs as [Hlb Hs]. simpl in Hlb.
  destruct (Z.eqb_spec k a) as [->|Hka]; simpl.
  - eapply mget_lb; [exact Hlb|lia].
  - destruct (Z.eqb_spec k a); [congruence|]. now apply IH.
Qed.

Lemma mget_mdel k m k' : msorted m -> mget k' (mdel k m) = if k' =? k then None else mget k' m.
Proof.
  intros Hs. destruct (Z.eqb_spec k' k) as [->|Hne].
  - now apply mget_mdel_same.
  - now apply mget_mdel_other.
Qed.

Lemma mdel_absent k m : mget k m = None -> mdel k m = m.
Proof.
  induction m as [|[a w] t IH]; simpl; [reflexivity|].
  destruct (Z.eqb_spec k a); [discriminate|]. intros H. now rewrite IH.
Qed.

Lemma lb_mset k0 k v m : lb k0 m -> k0 < k -> lb k0 (mset k v m).
Proof.
  unfold lb. induction m as [|[a w] t IH]; simpl; intros Hlb Hlt.
  - constructor; [simpl; lia|constructor].
  - inversion Hlb as [|? ? Ha Ht]; subst. simpl in Ha.
    destruct (Z.ltb_spec k a).
    + constructor; [simpl; lia|]. constructor; [simpl; lia|assumption].
    + destruct (Z.eqb_spec k a).
      * constructor; [simpl; lia|assumption].
      * constructor; [simpl; lia|]. now apply IH.
Qed.

Lemma msorted_mset k v m : msorted m -> msorted (mset k v m).
Proof.
  induction m as [|[a w] t IH]; simpl; intros Hs.
  - split; [constructor|exact I].
  - destruct Hs as [Hlb Hs]. simpl in Hlb.
    destruct (Z.ltb_spec k a) as [Hlt|Hge]; simpl.
    + split; [|split; assumption].
      constructor; [simpl; lia|]. eapply lb_weaken; [|exact Hlb]. lia.
    + destruct (Z.eqb_spec k a) as [->|Hne]; simpl.
      * split; assumption.
      * split; [|now apply IH]. apply lb_mset; [assumption|lia].
Qed.

Lemma lb_mdel k0 k m : lb k0 m -> lb k0 (mdel k m).
Proof.
  unfold lb. induction m as [|[a w] t IH]; simpl; intros Hlb; [constructor|].
  inversion Hlb; subst. destruct (k =? a); [assumption|]. constructor; [assumption|now apply IH].
Qed.

Lemma msorted_mdel k m : msorted m -> msorted (mdel k m).
Proof.
  induction m as [|[a w] t IH]; simpl; intros Hs; [exact I|].
  destruct Hs as [Hlb Hs]. destruct (k =? a); [assumption|].
  simpl. split; [now apply lb_mdel|now apply IH].
Qed.

(* two sorted stores with the same lookups are equal *)
Lemma mext a b : msorted a -> msorted b -> (forall k, mget k a = mget k b) -> a = b.
Proof.
  revert b. induction a as [|[k1 v1] ta IH]; intros [|[k2 v2] tb] Ha Hb Hext.
  - reflexivity.
  - specialize (Hext k2). simpl in Hext. rewrite Z.eqb_refl in Hext. discriminate.
  - specialize (Hext k1). simpl in Hext. rewrite Z.eqb_refl in Hext. discriminate.
  - simpl in Ha, Hb. destruct Ha as [Hlba Hsa]. destruct Hb as [Hlbb Hsb]. simpl in Hlba, Hlbb.
    assert (Hk : k1 = k2).
    { destruct (Z.lt_trichotomy k1 k2) as [Hlt|[Heq|Hgt]]; [|assumption|].
      - pose proof (Hext k1) as H. simpl in H. rewrite Z.eqb_refl in H.
        destruct (Z.eqb_spec k1 k2); [lia|].
        rewrite (mget_lb k2 k1 tb) in H by (assumption || lia). discriminate.
      - pose proof (Hext k2) as H. simpl in H. rewrite Z.eqb_refl in H.
        destruct (Z.eqb_spec k2 k1); [lia|].
        rewrite (mget_lb k1 k2 ta) in H by (assumption || lia). discriminate. }
    subst k2.
    assert (Hv : v1 = v2).
    { pose proof (Hext k1) as H. simpl in H. rewrite Z.eqb_refl in H. congruence. }
    subst v2. f_equal. apply IH; try assumption.
    intros k. destruct (Z.eq_dec k k1) as [->|Hne].
    + rewrite (mget_lb k1 k1 ta), (mget_lb k1 k1 tb) by (assumption || lia). reflexivity.
    + pose proof (Hext k) as H. simpl in H. destruct (Z.eqb_spec k k1); [contradiction|assumption].
Qed.

Lemma msorted_nodup m : msorted m -> NoDup (map fst m).
Proof.
  induction m as [|[a w] t IH]; simpl; intros Hs; [constructor|].
  destruct Hs as [Hlb Hs]. constructor; [|now apply IH].
  intros Hin. apply in_map_iff in Hin. destruct Hin as [[a' w'] [Heq Hin]]. simpl in Heq. subst a'.
  unfold lb in Hlb. rewrite Forall_forall in Hlb. specialize (Hlb _ Hin). simpl in Hlb. lia.
Qed.

(* ---------- ulast ---------- *)
Lemma ulast_app k l1 l2 :
  ulast k (l1 ++ l2) = match ulast k l2 with Some q => Some q | None => ulast k l1 end.
Proof.
  induction l1 as [|[a p] t IH]; simpl.
  - destruct (ulast k l2); reflexivity.
  - rewrite IH. destruct (ulast k l2); reflexivity.
Qed.

Lemma ulast_in k p l : ulast k l = Some p -> In (k, p) l.
Proof.
  induction l as [|[a q] t IH]; simpl; [discriminate|].
  destruct (ulast k t) eqn:E.
  - intros H. inversion H; subst. right. now apply IH.
  - destruct (Z.eqb_spec k a) as [->|]; [|discriminate]. intros H. inversion H. now left.
Qed.

Lemma ulast_none k l : ulast k l = None <-> ~ In k (map fst l).
Proof.
  induction l as [|[a q] t IH]; simpl.
  - tauto.
  - destruct (ulast k t) eqn:E.
    + split; [discriminate|]. intros H. exfalso. apply H. right.
      apply ulast_in in E. apply in_map_iff. exists (k, z). auto.
    + destruct (Z.eqb_spec k a) as [->|Hne].
      * split; [discriminate|]. intros H. exfalso. apply H. now left.
      * split; [|reflexivity]. intros _ [H|H]; [congruence|]. now apply IH.
Qed.

Lemma in_ulast k p l : NoDup (map fst l) -> In (k, p) l -> ulast k l = Some p.
Proof.
  induction l as [|[a q] t IH]; simpl; intros Hnd Hin; [contradiction|].
  inversion Hnd as [|? ? Hna Hndt]; subst.
  destruct Hin as [Heq|Hin].
  - inversion Heq; subst. assert (E : ulast k t = None) by now apply ulast_none.
    rewrite E, Z.eqb_refl. reflexivity.
  - rewrite (IH Hndt Hin). reflexivity.
Qed.

Lemma ulast_perm k l l' : NoDup (map fst l) -> Permutation l l' -> ulast k l = ulast k l'.
Proof.
  intros Hnd Hp.
  assert (Hnd' : NoDup (map fst l')).
  { eapply Permutation_NoDup; [|exact Hnd]. now apply Permutation_map. }
  destruct (ulast k l) eqn:E.
  - symmetry. apply in_ulast; [assumption|]. eapply Permutation_in; [exact Hp|]. now apply ulast_in.
  - destruct (ulast k l') eqn:E'; [|reflexivity].
    apply ulast_in in E'. apply (Permutation_in _ (Permutation_sym Hp)) in E'.
    rewrite (in_ulast _ _ _ Hnd E') in E. discriminate.
Qed.

Lemma ulast_mget k m : msorted m -> ulast k m = mget k m.
Proof.
  induction m as [|[a w] t IH]; simpl; intros Hs; [reflexivity|].
  destruct Hs as [Hlb Hs]. simpl in Hlb. rewrite (IH Hs).
  destruct (Z.eqb_spec k a) as [->|Hne].
  - rewrite (mget_lb a a t) by (assumption || lia). reflexivity.
  - destruct (mget k t); reflexivity.
Qed.

Lemma ulast_filter_key (f : Z -> bool) k l :
  ulast k (filter (fun n => f (fst n)) l) = if f k then ulast k l else None.
Proof.
  induction l as [|[a q] t IH]; simpl.
  - destruct (f k); reflexivity.
  - destruct (f a) eqn:Fa; simpl.
    + rewrite IH. destruct (f k) eqn:Fk.
      * reflexivity.
      * destruct (Z.eqb_spec k a); [congruence|reflexivity].
    + rewrite IH. destruct (f k) eqn:Fk; [|reflexivity].
      destruct (ulast k t); [reflexivity|].
      destruct (Z.eqb_spec k a); [congruence|reflexivity].
Qed.

(* ---------- as_map / apply_updates ---------- *)
Definition set1 (m : kmap) (u : upd) : kmap := mset (fst u) (snd u) m.

Lemma fold_set_get k l m :
  mget k (fold_left set1 l m) = match ulast k l with Some p => Some p | None => mget k m end.
Proof.
  revert m. induction l as [|[a q] t IH]; intros m; simpl; [reflexivity|].
  rewrite IH. destruct (ulast k t); [reflexivity|].
  unfold set1. simpl. rewrite mget_mset. destruct (k =? a); reflexivity.
Qed.

Lemma fold_set_sorted l m : msorted m -> msorted (fold_left set1 l m).
Proof.
  revert m. induction l as [|u t IH]; intros m Hs; simpl; [assumption|].
  apply IH. now apply msorted_mset.
Qed.

Lemma as_map_get k l : mget k (as_map l) = ulast k l.
Proof.
  unfold as_map. change (fun m u => mset (fst u) (snd u) m) with set1.
  rewrite fold_set_get. simpl. destruct (ulast k l); reflexivity.
Qed.

Lemma as_map_sorted l : msorted (as_map l).
Proof. unfold as_map. change (fun m u => mset (fst u) (snd u) m) with set1. now apply fold_set_sorted. Qed.

Lemma msorted_apply1 u m : msorted m -> msorted (apply1 u m).
Proof. unfold apply1. destruct (snd u <? 1); [apply msorted_mdel|apply msorted_mset]. Qed.

Lemma apply1_get k u m : msorted m ->
  mget k (apply1 u m) = if k =? fst u then (if snd u <? 1 then None else Some (snd u)) else mget k m.
Proof.
  intros Hs. unfold apply1. destruct (snd u <? 1).
  - now apply mget_mdel.
  - apply mget_mset.
Qed.

Lemma apply_updates_cons u t m : apply_updates (u :: t) m = apply_updates t (apply1 u m).
Proof. reflexivity. Qed.

Lemma apply_updates_app u1 u2 m : apply_updates (u1 ++ u2) m = apply_updates u2 (apply_updates u1 m).
Proof. unfold apply_updates. apply fold_left_app. Qed.

Lemma apply_sorted us m : msorted m -> msorted (apply_updates us m).
Proof.
  revert m. induction us as [|u t IH]; intros m Hs; [assumption|].
  rewrite apply_updates_cons. apply IH. now apply msorted_apply1.
Qed.

Lemma apply_get k us m : msorted m ->
  mget k (apply_updates us m) =
  match ulast k us with
  | Some p => if p <? 1 then None else Some p
  | None => mget k m
  end.
Proof.
  revert m. induction us as [|[a q] t IH]; intros m Hs; [reflexivity|].
  rewrite apply_updates_cons, IH by now apply msorted_apply1.
  simpl ulast. destruct (ulast k t); [reflexivity|].
  rewrite apply1_get by assumption. simpl. destruct (Z.eqb_spec k a); reflexivity.
Qed.

(* ---------- DiffValidators ---------- *)
Definition pos_set (l : list upd) : Prop := Forall (fun u => 1 <= snd u) l.

Lemma pos_set_ulast k p l : pos_set l -> ulast k l = Some p -> 1 <= p.
Proof.
  intros Hp H. apply ulast_in in H. unfold pos_set in Hp. rewrite Forall_forall in Hp.
  apply (Hp _ H).
Qed.

Lemma diff_old_other next c k : k <> fst c -> ulast k (diff_old next c) = None.
Proof.
  intros Hne. unfold diff_old. destruct (ulast (fst c) next).
  - destruct (snd c =? z); simpl; [reflexivity|]. destruct (Z.eqb_spec k (fst c)); [contradiction|reflexivity].
  - simpl. destruct (Z.eqb_spec k (fst c)); [contradiction|reflexivity].
Qed.

Lemma diff_old_spec cur next k :
  match ulast k (flat_map (diff_old next) cur) with
  | Some x => x = match ulast k next with Some pn => pn | None => 0 end /\ In k (map fst cur)
  | None => ulast k cur = None \/ ulast k cur = ulast k next
  end.
Proof.
  induction cur as [|[kc pc] t IH]; simpl.
  - now left.
  - rewrite ulast_app. destruct (ulast k (flat_map (diff_old next) t)) eqn:EB.
    + destruct IH as [Hx Hin]. split; [assumption|now right].
    + destruct (Z.eq_dec k kc) as [->|Hne].
      * rewrite Z.eqb_refl. unfold diff_old. simpl.
        destruct (ulast kc next) as [pn|] eqn:EN.
        -- destruct (Z.eqb_spec pc pn) as [->|Hp]; simpl.
           ++ right. destruct IH as [H|H]; rewrite H; [reflexivity|]. first [rewrite EN; reflexivity | reflexivity].
           ++ rewrite Z.eqb_refl. split; [reflexivity|now left].
        -- simpl. rewrite Z.eqb_refl. split; [reflexivity|now left].
      * rewrite (diff_old_other next (kc, pc) k) by (simpl; assumption).
        destruct (Z.eqb_spec k kc); [contradiction|].
        destruct IH as [H|H]; rewrite H.
        -- now left.
        -- right. destruct (ulast k next); reflexivity.
Qed.

Lemma diff_new_spec cur next k :
  ulast k (filter (diff_new cur) next) = match ulast k cur with None => ulast k next | Some _ => None end.
Proof.
  pose proof (ulast_filter_key (fun a => match ulast a cur with None => true | Some _ => false end) k next) as H.
  etransitivity; [exact H|]. cbv beta. destruct (ulast k cur); reflexivity.
Qed.

Lemma diff_apply_get cur next k : pos_set next ->
  mget k (apply_updates (diff cur next) (as_map cur)) = mget k (as_map next).
Proof.
  intros Hpos. rewrite apply_get by apply as_map_sorted. rewrite !as_map_get.
  unfold diff. rewrite ulast_app, diff_new_spec.
  pose proof (diff_old_spec cur next k) as Hold.
  destruct (ulast k cur) as [pc|] eqn:EC.
  - destruct (ulast k (flat_map (diff_old next) cur)) as [x|] eqn:EO.
    + destruct Hold as [Hx _]. subst x. destruct (ulast k next) as [pn|] eqn:EN.
      * pose proof (pos_set_ulast _ _ _ Hpos EN). destruct (Z.ltb_spec pn 1); [lia|reflexivity].
      * reflexivity.
    + destruct Hold as [H|H]; [discriminate|]. congruence.
  - destruct (ulast k next) as [pn|] eqn:EN.
    + pose proof (pos_set_ulast _ _ _ Hpos EN). destruct (Z.ltb_spec pn 1); [lia|reflexivity].
    + destruct (ulast k (flat_map (diff_old next) cur)) as [x|] eqn:EO; [|reflexivity].
      destruct Hold as [_ Hin]. apply ulast_none in EC. contradiction.
Qed.

Lemma diff_apply cur next : pos_set next ->
  apply_updates (diff cur next) (as_map cur) = as_map next.
Proof.
  intros Hpos. apply mext.
  - apply apply_sorted, as_map_sorted.
  - apply as_map_sorted.
  - intros k. now apply diff_apply_get.
Qed.

(* an empty diff means the two lists are the same key -> power map *)
Lemma diff_nil_same cur next : pos_set next -> diff cur next = [] -> as_map cur = as_map next.
Proof. intros Hpos H. rewrite <- (diff_apply cur next Hpos), H. reflexivity. Qed.

(* ---------- ApplyCCValidatorChanges ---------- *)
Lemma apply_cc_fst us m : msorted m -> fst (apply_cc us m) = apply_updates us m.
Proof.
  revert m. induction us as [|c t IH]; intros m Hs; [reflexivity|].
  rewrite apply_updates_cons. simpl. destruct (mget (fst c) m) eqn:EG.
  - specialize (IH (apply1 c m) (msorted_apply1 c m Hs)). unfold apply1 in IH.
    destruct (apply_cc t (if snd c <? 1 then mdel (fst c) m else mset (fst c) (snd c) m)) as [mf ret].
    simpl in *. exact IH.
  - destruct (Z.ltb_spec 0 (snd c)) as [Hp|Hp].
    + assert (Ha : apply1 c m = mset (fst c) (snd c) m).
      { unfold apply1. destruct (Z.ltb_spec (snd c) 1); [lia|reflexivity]. }
      specialize (IH (mset (fst c) (snd c) m) (msorted_mset _ _ _ Hs)). rewrite Ha.
      destruct (apply_cc t (mset (fst c) (snd c) m)) as [mf ret]. simpl in *. exact IH.
    + assert (Ha : apply1 c m = m).
      { unfold apply1. destruct (Z.ltb_spec (snd c) 1); [|lia]. now apply mdel_absent. }
      rewrite Ha. now apply IH.
Qed.

(* the update list returned to the consensus engine has the same effect on the same set *)
Lemma apply_cc_engine us m : msorted m -> apply_updates (snd (apply_cc us m)) m = fst (apply_cc us m).
Proof.
  revert m. induction us as [|c t IH]; intros m Hs; [reflexivity|].
  simpl. destruct (mget (fst c) m) eqn:EG.
  - specialize (IH (apply1 c m) (msorted_apply1 c m Hs)). unfold apply1 in IH.
    assert (Ha : apply1 c m = if snd c <? 1 then mdel (fst c) m else mset (fst c) (snd c) m) by reflexivity.
    destruct (apply_cc t (if snd c <? 1 then mdel (fst c) m else mset (fst c) (snd c) m)) as [mf ret].
    simpl in *. exact IH.
  - destruct (Z.ltb_spec 0 (snd c)) as [Hp|Hp].
    + assert (Ha : apply1 c m = mset (fst c) (snd c) m).
      { unfold apply1. destruct (Z.ltb_spec (snd c) 1); [lia|reflexivity]. }
      specialize (IH (mset (fst c) (snd c) m) (msorted_mset _ _ _ Hs)).
      destruct (apply_cc t (mset (fst c) (snd c) m)) as [mf ret]. simpl in *.
      rewrite Ha. exact IH.
    + now apply IH.
Qed.

(* ---------- AccumulateChanges ---------- *)
Definition bef (a b : upd) : Prop := before a b = true.

Lemma before_trans a b c : bef a b -> bef b c -> bef a c.
Proof.
  unfold bef, before. intros H1 H2.
  apply orb_true_iff in H1. apply orb_true_iff in H2. apply orb_true_iff.
  rewrite andb_true_iff in *. rewrite !Z.ltb_lt, !Z.eqb_eq in *. lia.
Qed.

Lemma before_asym a b : bef a b -> ~ bef b a.
Proof.
  unfold bef, before. intros H1 H2.
  apply orb_true_iff in H1. apply orb_true_iff in H2.
  rewrite andb_true_iff in *. rewrite !Z.ltb_lt, !Z.eqb_eq in *. lia.
Qed.

Lemma before_total a b : fst a <> fst b -> bef a b \/ bef b a.
Proof.
  unfold bef, before. intros Hne. rewrite !orb_true_iff, !andb_true_iff, !Z.ltb_lt, !Z.eqb_eq. lia.
Qed.

Lemma ins_upd_perm x l : Permutation (ins_upd x l) (x :: l).
Proof.
  induction l as [|y t IH]; simpl; [reflexivity|].
  destruct (before x y); [reflexivity|]. rewrite IH. apply perm_swap.
Qed.

Lemma sort_upd_perm l : Permutation (sort_upd l) l.
Proof.
  induction l as [|x t IH]; simpl; [reflexivity|]. rewrite ins_upd_perm. now constructor.
Qed.

Lemma ins_upd_sorted x l :
  Forall (fun y => fst x <> fst y) l -> StronglySorted bef l -> StronglySorted bef (ins_upd x l).
Proof.
  induction l as [|y t IH]; simpl; intros Hk Hs.
  - constructor; constructor.
  - inversion Hk as [|? ? Hxy Hkt]; subst. inversion Hs as [|? ? Hst Hall]; subst.
    destruct (before x y) eqn:E.
    + constructor; [assumption|]. constructor; [exact E|].
      eapply Forall_impl; [|exact Hall]. intros z Hz. eapply before_trans; [exact E|exact Hz].
    + constructor; [now apply IH|].
      assert (Hyx : bef y x).
      { destruct (before_total x y Hxy) as [H|H]; [unfold bef in H; congruence|assumption]. }
      rewrite Forall_forall in *. intros z Hz.
      apply (Permutation_in _ (ins_upd_perm x t)) in Hz. destruct Hz as [<-|Hz]; [assumption|auto].
Qed.

Lemma sort_upd_sorted l : NoDup (map fst l) -> StronglySorted bef (sort_upd l).
Proof.
  induction l as [|x t IH]; simpl; intros Hnd; [constructor|].
  inversion Hnd as [|? ? Hni Hndt]; subst. apply ins_upd_sorted; [|now apply IH].
  rewrite Forall_forall. intros y Hy Heq.
  apply (Permutation_in _ (sort_upd_perm t)) in Hy. apply Hni. rewrite Heq. now apply in_map.
Qed.

Lemma sorted_perm_unique (l l' : list upd) :
  StronglySorted bef l -> StronglySorted bef l' -> Permutation l l' -> l = l'.
Proof.
  revert l'. induction l as [|a t IH]; intros l' Hs Hs' Hp.
  - apply Permutation_nil in Hp. now subst.
  - destruct l' as [|a' t']; [apply Permutation_sym, Permutation_nil in Hp; discriminate|].
    inversion Hs as [|? ? Hst Hall]; subst. inversion Hs' as [|? ? Hst' Hall']; subst.
    assert (Ha : a = a').
    { assert (Hin : In a (a' :: t')) by (eapply Permutation_in; [exact Hp|now left]).
      assert (Hin' : In a' (a :: t)) by (eapply Permutation_in; [exact (Permutation_sym Hp)|now left]).
      destruct Hin as [->|Hin]; [reflexivity|]. destruct Hin' as [->|Hin']; [reflexivity|].
      rewrite Forall_forall in Hall, Hall'. exfalso.
      exact (before_asym _ _ (Hall _ Hin') (Hall' _ Hin)). }
    subst a'. f_equal. apply IH; try assumption. eapply Permutation_cons_inv; exact Hp.
Qed.

(* the result does not depend on the order in which the Go map is iterated *)
Lemma accumulate_iter_independent (iter : list upd -> list upd) cur new :
  (forall l, Permutation (iter l) l) -> accumulate_with iter cur new = accumulate cur new.
Proof.
  intros Hiter. unfold accumulate, accumulate_with.
  pose proof (msorted_nodup _ (as_map_sorted (cur ++ new))) as Hnd.
  apply sorted_perm_unique.
  - apply sort_upd_sorted. eapply Permutation_NoDup; [|exact Hnd].
    apply Permutation_map, Permutation_sym, Hiter.
  - now apply sort_upd_sorted.
  - rewrite !sort_upd_perm. apply Hiter.
Qed.

Lemma accumulate_ulast k u1 u2 : ulast k (accumulate u1 u2) = ulast k (u1 ++ u2).
Proof.
  unfold accumulate, accumulate_with.
  pose proof (as_map_sorted (u1 ++ u2)) as Hs.
  rewrite <- (ulast_perm k (as_map (u1 ++ u2)) (sort_upd (as_map (u1 ++ u2)))).
  - rewrite ulast_mget by assumption. apply as_map_get.
  - now apply msorted_nodup.
  - apply Permutation_sym, sort_upd_perm.
Qed.

Lemma accumulate_apply u1 u2 m : msorted m ->
  apply_updates (accumulate u1 u2) m = apply_updates u2 (apply_updates u1 m).
Proof.
  intros Hs. rewrite <- apply_updates_app. apply mext.
  - now apply apply_sorted.
  - now apply apply_sorted.
  - intros k. rewrite !apply_get by assumption. rewrite accumulate_ulast. reflexivity.
Qed.

Lemma accumulate_with_apply iter u1 u2 m : (forall l, Permutation (iter l) l) -> msorted m ->
  apply_updates (accumulate_with iter u1 u2) m = apply_updates u2 (apply_updates u1 m).
Proof. intros Hi Hs. rewrite accumulate_iter_independent by assumption. now apply accumulate_apply. Qed.
