(* Lemmas about Model/SlashParams.v (Infraction x Slash): the report facts come from the decision chain of
   Proofs/SlashProofs.v run on the computed consumer row; which parameters are in force comes from the timeline
   lemmas of Proofs/InfractionProofs.v applied to the Infraction component of the composed run. *)
From Coq Require Import ZArith List Bool Lia Arith.
From ICS Require Import Base.Tree Model.Throttle.
From ICS Require Model.Infraction Model.Slash Proofs.InfractionProofs Proofs.SlashProofs.
From ICS Require Import Model.SlashParams.
Import ListNotations.
Open Scope Z_scope.

Module IP := ICS.Proofs.InfractionProofs.
Module SP := ICS.Proofs.SlashProofs.

(* ------------------------------------------------------------------ the composed run performs an Infraction run *)
Lemma exec_app (a b : list I.op) st : I.exec st (a ++ b) = I.exec (I.exec st a) b.
Proof. unfold I.exec. apply fold_left_app. Qed.

Lemma sstep_inf g s a : inf (fst (sstep g s a)) = I.exec (inf s) (to_iop a).
Proof.
  destruct a; cbn [sstep to_iop].
  - destruct (is_block o) eqn:Eb; [reflexivity|]. unfold I.exec. cbn [fold_left]. unfold I.step.
    destruct (I.step_res (inf s) o). reflexivity.
  - unfold I.exec. cbn [fold_left]. unfold I.step. destruct (I.step_res (inf s) (I.OBeginBlock now)). reflexivity.
  - reflexivity.
  - reflexivity.
  - destruct (has_channel s c); [|reflexivity]. destruct (recv s c res infr power h). reflexivity.
Qed.

Lemma srun_inf g ops : forall s, inf (srun g ops s) = I.exec (inf s) (itrace ops).
Proof.
  induction ops as [|a t IH]; intros s; [reflexivity|].
  change (srun g (a :: t) s) with (srun g t (fst (sstep g s a))).
  change (itrace (a :: t)) with (to_iop a ++ itrace t).
  rewrite IH, sstep_inf, exec_app. reflexivity.
Qed.

Lemma srun_app g a b s : srun g (a ++ b) s = srun g b (srun g a s).
Proof. unfold srun. apply fold_left_app. Qed.

Lemma reach_inf g rows m0 c0 ops : inf (srun g ops (init_sys rows m0 c0)) = I.exec I.init (itrace ops).
Proof. rewrite srun_inf. reflexivity. Qed.

Lemma reach_inv g rows m0 c0 ops : IP.Inv (inf (srun g ops (init_sys rows m0 c0))).
Proof. rewrite reach_inf. apply IP.inv_reachable. Qed.

Lemma in_itrace_block now ops : In (I.OBeginBlock now) (itrace ops) -> exists total, In (SBegin now total) ops.
Proof.
  induction ops as [|a t IH]; [intros []|]. change (itrace (a :: t)) with (to_iop a ++ itrace t).
  intros H. apply in_app_or in H. destruct H as [H|H].
  - destruct a; cbn [to_iop] in H; try (destruct H; fail).
    + destruct (is_block o) eqn:Eb; [destruct H|]. destruct H as [H|[]]. subst o. discriminate.
    + destruct H as [H|[]]. inversion H; subst. exists total. left. reflexivity.
  - destruct (IH H) as [total Hin]. exists total. right. exact Hin.
Qed.

(* ------------------------------------------------------------------ the report, in any state *)
Definition frac_of (p : I.params) : Z := I.h_frac (I.p_dt p).
Definition jail_of (p : I.params) : Z := I.h_jail (I.p_dt p).

(* the conclusions about one report on consumer c against validator res in state s, punished with parameters p *)
Definition report_uses (g : cfg) (s : sys) (c res infr power : Z) (h : option Z) (p : I.params) : Prop :=
  let s' := fst (sstep g s (SRecvSlash c res infr power h)) in
  dt_in_force (inf s) c = Some (frac_of p, jail_of p) /\
  inf s' = inf s /\
  (jailed_by s s' res <-> sys_jail_cond s c res infr power h = true) /\
  (jailed_by s s' res -> exists height,
     h = Some height /\
     getv s' res = S.jail_val (getv s res) (frac_of p) (jail_of p) power height (I.clock (inf s)) /\
     S.v_until (getv s' res) = I.clock (inf s) + jail_of p /\
     S.v_tokens (getv s' res) = S.slash_tokens (frac_of p) power (S.v_tokens (getv s res)) /\
     S.v_log (getv s' res) = S.v_log (getv s res) ++ [(height, power, frac_of p)]) /\
  (forall i, i <> res -> getv s' i = getv s i).

Lemma getc_view s c : S.getc (view s c) 0 = Some (consumer_row s c).
Proof. reflexivity. Qed.

Lemma report_any g s c res infr power h p :
  I.aget c (I.cur (inf s)) = Some p -> report_uses g s c res infr power h p.
Proof.
  intros Hcur. unfold report_uses. cbn zeta.
  assert (Hdt : dt_in_force (inf s) c = Some (frac_of p, jail_of p)) by (unfold dt_in_force; rewrite Hcur; reflexivity).
  split; [exact Hdt|]. cbn [sstep]. unfold sys_jail_cond.
  destruct (has_channel s c) eqn:Ech.
  - unfold recv. set (now := I.clock (inf s)).
    pose proof (SP.jail_iff (view s c) 0 res infr true power h res now) as Hiff.
    pose proof (SP.recv_target (view s c) 0 res infr true power h res now) as Htgt.
    pose proof (fun i => SP.recv_frame (view s c) 0 res infr true power h res now i) as Hfr.
    destruct (S.recv_slash (view s c) 0 res infr true power h res now) as [r s'] eqn:Er.
    cbn [fst snd inf] in *. split; [reflexivity|]. cbn [andb].
    assert (Hg : forall i, getv (mkSys (inf s) (S.vals s') (S.thr s') (members s)) i = S.getv s' i) by reflexivity.
    assert (Hg0 : forall i, getv s i = S.getv (view s c) i) by reflexivity.
    unfold jailed_by. rewrite Hg, Hg0. split; [exact Hiff|]. split.
    + intros Hj. apply Hiff in Hj. rewrite Hj in Htgt. rewrite getc_view in Htgt.
      pose proof (SP.recv_vals (view s c) 0 res infr true power h res now) as Hv. rewrite Hj in Hv.
      destruct Hv as (x & fr & dur & height & Ec & Ep & Eh & _). subst h. exists height. split; [reflexivity|].
      cbn [consumer_row S.c_params] in Htgt. rewrite Hdt in Htgt. rewrite Htgt.
      repeat split; reflexivity.
    + intros i Hi. rewrite Hg, Hg0. apply Hfr. exact Hi.
  - cbn [fst andb]. split; [reflexivity|]. unfold jailed_by. split.
    + split; [intros [H1 H2]; congruence|discriminate].
    + split; [intros [H1 H2]; congruence|reflexivity].
Qed.

(* sys_jail_cond spelled out: the phase and the parameters are the Infraction component's, everything else Slash's *)
Lemma sys_jail_cond_spec s c res infr power h :
  sys_jail_cond s c res infr power h = true <->
  I.aget c (I.phases (inf s)) = Some I.Launched /\
  exists p height,
    I.aget c (I.cur (inf s)) = Some p /\ h = Some height /\
    S.validate true power infr = true /\ infr = S.DOWNTIME /\
    In res (members_of s c) /\ 0 <= meter (thr s) /\
    S.v_found (getv s res) = true /\ S.v_status (getv s res) <> S.UNBONDED /\
    S.v_tomb (getv s res) = false /\ S.v_jailed (getv s res) = false.
Proof.
  unfold sys_jail_cond. rewrite andb_true_iff, SP.jail_cond_spec. rewrite getc_view. split.
  - intros [Hch (x & height & Ex & Eh & Hv & Hi & Hp & Hm & Hmet & Hf & Hs & Ht & Hj & Hpar)].
    inversion Ex; subst x. cbn [consumer_row S.c_phase S.c_set S.c_params] in *.
    assert (Hl : I.aget c (I.phases (inf s)) = Some I.Launched).
    { unfold sphase, S.LAUNCHED in Hp. destruct (I.aget c (I.phases (inf s))) as [[]|]; try discriminate; reflexivity. }
    split; [exact Hl|]. unfold dt_in_force in Hpar. destruct (I.aget c (I.cur (inf s))) as [p|] eqn:Ecur; [|congruence].
    exists p, height. repeat split; assumption.
  - intros [Hl (p & height & Ecur & Eh & Hv & Hi & Hm & Hmet & Hf & Hs & Ht & Hj)]. split.
    + unfold has_channel. rewrite Hl. reflexivity.
    + exists (consumer_row s c), height. cbn [consumer_row S.c_phase S.c_set S.c_params]. rewrite Hl.
      repeat split; try assumption; try reflexivity. unfold dt_in_force. rewrite Ecur. discriminate.
Qed.

(* the report reads nothing but consumer c's row: other consumers' parameters and every queued parameter set are irrelevant *)
Definition with_cur (s : sys) (cu : I.amap I.params) : sys :=
  mkSys (I.mkState (I.clock (inf s)) (I.next_id (inf s)) (I.phases (inf s)) cu (I.queued (inf s)) (I.schedule (inf s)))
        (vals s) (thr s) (members s).
Definition with_queued (s : sys) (q : I.amap I.params) (sc : I.sched) : sys :=
  mkSys (I.mkState (I.clock (inf s)) (I.next_id (inf s)) (I.phases (inf s)) (I.cur (inf s)) q sc)
        (vals s) (thr s) (members s).

Lemma report_local g s c res infr power h cu :
  I.aget c cu = I.aget c (I.cur (inf s)) ->
  let a := SRecvSlash c res infr power h in
  vals (fst (sstep g (with_cur s cu) a)) = vals (fst (sstep g s a)) /\
  thr (fst (sstep g (with_cur s cu) a)) = thr (fst (sstep g s a)) /\
  snd (sstep g (with_cur s cu) a) = snd (sstep g s a).
Proof.
  intros Hc. cbn zeta. cbn [sstep].
  assert (Hv : view (with_cur s cu) c = view s c).
  { unfold view, consumer_row, dt_in_force, members_of, with_cur. cbn [inf vals thr members I.cur I.phases]. rewrite Hc. reflexivity. }
  assert (Hch : has_channel (with_cur s cu) c = has_channel s c) by reflexivity.
  rewrite Hch. destruct (has_channel s c); [|repeat split; reflexivity].
  unfold recv. rewrite Hv. cbn [with_cur inf I.clock].
  destruct (S.recv_slash (view s c) 0 res infr true power h res (I.clock (inf s))). repeat split; reflexivity.
Qed.

Lemma report_ignores_queued g s c res infr power h q sc :
  let a := SRecvSlash c res infr power h in
  vals (fst (sstep g (with_queued s q sc) a)) = vals (fst (sstep g s a)) /\
  thr (fst (sstep g (with_queued s q sc) a)) = thr (fst (sstep g s a)) /\
  snd (sstep g (with_queued s q sc) a) = snd (sstep g s a).
Proof.
  cbn zeta. cbn [sstep].
  assert (Hv : view (with_queued s q sc) c = view s c) by reflexivity.
  assert (Hch : has_channel (with_queued s q sc) c = has_channel s c) by reflexivity.
  rewrite Hch. destruct (has_channel s c); [|repeat split; reflexivity].
  unfold recv. rewrite Hv. cbn [with_queued inf I.clock].
  destruct (S.recv_slash (view s c) 0 res infr true power h res (I.clock (inf s))). repeat split; reflexivity.
Qed.

(* ------------------------------------------------------------------ timelines *)
Lemma exists_exec ops : forall st c, IP.Inv st -> I.aget c (I.phases st) <> None -> I.aget c (I.phases (I.exec st ops)) <> None.
Proof.
  induction ops as [|o t IH]; intros st c HI Hex; [exact Hex|].
  change (I.exec st (o :: t)) with (I.exec (I.step st o) t).
  apply IH; [apply IP.inv_step; exact HI|apply IP.exists_step; assumption].
Qed.

Lemma sstep_request_inf (g : cfg) (s : sys) o c np u :
  IP.is_request (inf s) c np u o -> inf (fst (sstep g s (SInf o))) = I.step (inf s) o.
Proof.
  intros Hreq. rewrite sstep_inf. cbn [to_iop].
  assert (Hb : is_block o = false) by (destruct Hreq as [->|(hv & cp & -> & _)]; reflexivity).
  rewrite Hb. reflexivity.
Qed.

(* after a request for np <> cp on a launched consumer, every report on c handled while no further request on c is made
   and c is not deleted is punished with cp until a begin-block applies the change, and with np afterwards *)
Lemma uses_after_request g s1 c cp np u o ops2 res infr power h :
  IP.Inv (inf s1) ->
  I.aget c (I.phases (inf s1)) = Some I.Launched -> I.aget c (I.cur (inf s1)) = Some cp ->
  IP.is_request (inf s1) c np u o -> I.params_eqb cp np = false -> IP.quiet c (itrace ops2) = true ->
  let s3 := srun g ops2 (fst (sstep g s1 (SInf o))) in
  report_uses g s3 c res infr power h (if IP.applied_in c (I.step (inf s1) o) (itrace ops2) then np else cp).
Proof.
  intros HI Hph Hcur Hreq Hne Hqu. cbn zeta. apply report_any.
  rewrite srun_inf, (sstep_request_inf g s1 o c np u Hreq).
  pose proof (IP.request_pending (inf s1) c cp np u o HI Hph Hcur Hreq Hne) as Hp.
  assert (Hex : I.aget c (I.phases (I.step (inf s1) o)) <> None) by (apply IP.exists_step; [exact HI|congruence]).
  pose proof (IP.pending_run (itrace ops2) (I.step (inf s1) o) c cp np (I.clock (inf s1) + u)
                (IP.inv_step _ o HI) Hex Hp Hqu) as H.
  destruct (IP.applied_in c (I.step (inf s1) o) (itrace ops2)).
  - exact (proj1 (proj1 H)).
  - exact (proj1 H).
Qed.

Lemma applied_when (s1 : sys) c cp np u o ops2 :
  IP.Inv (inf s1) ->
  I.aget c (I.phases (inf s1)) = Some I.Launched -> I.aget c (I.cur (inf s1)) = Some cp ->
  IP.is_request (inf s1) c np u o -> I.params_eqb cp np = false -> IP.quiet c (itrace ops2) = true ->
  IP.applied_in c (I.step (inf s1) o) (itrace ops2) = true ->
  exists now total, In (SBegin now total) ops2 /\ I.clock (inf s1) + u <= now.
Proof.
  intros HI Hph Hcur Hreq Hne Hqu Ha.
  pose proof (IP.request_pending (inf s1) c cp np u o HI Hph Hcur Hreq Hne) as Hp.
  assert (Hex : I.aget c (I.phases (I.step (inf s1) o)) <> None) by (apply IP.exists_step; [exact HI|congruence]).
  destruct (IP.applied_in_due (itrace ops2) (I.step (inf s1) o) c cp np (I.clock (inf s1) + u)
              (IP.inv_step _ o HI) Hex Hp Hqu Ha) as [now [Hin Hle]].
  destruct (in_itrace_block now ops2 Hin) as [total Ht]. exists now, total. split; assumption.
Qed.

Lemma itrace_app a b : itrace (a ++ b) = itrace a ++ itrace b.
Proof. unfold itrace. apply flat_map_app. Qed.

Lemma applied_at_due g s1 c cp np u o opsA now total opsB :
  IP.Inv (inf s1) ->
  I.aget c (I.phases (inf s1)) = Some I.Launched -> I.aget c (I.cur (inf s1)) = Some cp ->
  IP.is_request (inf s1) c np u o -> I.params_eqb cp np = false -> IP.quiet c (itrace opsA) = true ->
  IP.applied_in c (I.step (inf s1) o) (itrace opsA) = false ->
  I.clock (inf s1) + u <= now ->
  (length (IP.due_list now (I.schedule (inf (srun g opsA (fst (sstep g s1 (SInf o))))))) <= I.limit)%nat ->
  IP.applied_in c (I.step (inf s1) o) (itrace (opsA ++ SBegin now total :: opsB)) = true.
Proof.
  intros HI Hph Hcur Hreq Hne Hqu HnA Hle Hlen.
  rewrite srun_inf, (sstep_request_inf g s1 o c np u Hreq) in Hlen.
  rewrite itrace_app, IP.applied_in_app, HnA. cbn [orb].
  change (itrace (SBegin now total :: opsB)) with (I.OBeginBlock now :: itrace opsB). cbn [IP.applied_in].
  pose proof (IP.request_pending (inf s1) c cp np u o HI Hph Hcur Hreq Hne) as Hp.
  assert (Hex : I.aget c (I.phases (I.step (inf s1) o)) <> None) by (apply IP.exists_step; [exact HI|congruence]).
  pose proof (IP.pending_run (itrace opsA) (I.step (inf s1) o) c cp np (I.clock (inf s1) + u)
                (IP.inv_step _ o HI) Hex Hp Hqu) as H. rewrite HnA in H.
  assert (HIA : IP.Inv (I.exec (I.step (inf s1) o) (itrace opsA))) by (apply IP.inv_exec; apply IP.inv_step; exact HI).
  rewrite (IP.applied_now_small _ c cp np _ now HIA H Hle Hlen). reflexivity.
Qed.

(* a consumer without a pending change keeps its parameters under quiet ops *)
Lemma uses_settled g s c p ops res infr power h :
  IP.Inv (inf s) -> I.aget c (I.phases (inf s)) <> None ->
  I.aget c (I.cur (inf s)) = Some p -> I.aget c (I.queued (inf s)) = None -> IP.quiet c (itrace ops) = true ->
  report_uses g (srun g ops s) c res infr power h p.
Proof.
  intros HI Hex Hc Hq Hqu. apply report_any. rewrite srun_inf.
  exact (proj1 (proj1 (IP.settled_stable (itrace ops) (inf s) c p HI Hex (conj Hc Hq) Hqu))).
Qed.

(* parameters set before launch (creation, pre-launch update) are used from the first report on *)
Lemma uses_prelaunch g rows m0 c0 ops1 c cp hv u ops2 res infr power h :
  let s1 := srun g ops1 (init_sys rows m0 c0) in
  I.aget c (I.phases (inf s1)) = Some I.Prelaunch -> I.aget c (I.cur (inf s1)) = Some cp ->
  I.valid_req (Some hv) = true -> IP.quiet c (itrace ops2) = true ->
  let s3 := srun g ops2 (fst (sstep g s1 (SInf (I.OUpdate c true (Some hv) u)))) in
  report_uses g s3 c res infr power h (I.merge cp hv).
Proof.
  cbn zeta. intros Hph Hcur Hv Hqu. set (s1 := srun g ops1 (init_sys rows m0 c0)) in *.
  assert (E : inf s1 = I.exec I.init (itrace ops1)) by apply reach_inf.
  rewrite E in Hph, Hcur.
  destruct (IP.c20_prelaunch_immediate (itrace ops1) c cp hv u Hph Hcur Hv) as [_ [H1 [H2 _]]].
  set (s2 := fst (sstep g s1 (SInf (I.OUpdate c true (Some hv) u)))).
  assert (E2 : inf s2 = I.step (I.exec I.init (itrace ops1)) (I.OUpdate c true (Some hv) u)).
  { unfold s2. rewrite sstep_inf, E. reflexivity. }
  apply uses_settled.
  - rewrite E2. apply IP.inv_step. apply IP.inv_reachable.
  - rewrite E2. apply IP.exists_step; [apply IP.inv_reachable|congruence].
  - rewrite E2. exact H1.
  - rewrite E2. exact H2.
  - exact Hqu.
Qed.

Lemma uses_created g rows m0 c0 ops1 d r ops2 res infr power h :
  let s1 := srun g ops1 (init_sys rows m0 c0) in
  I.valid_req r = true -> IP.quiet (I.next_id (inf s1)) (itrace ops2) = true ->
  let s3 := srun g ops2 (fst (sstep g s1 (SInf (I.OCreate d r)))) in
  report_uses g s3 (I.next_id (inf s1)) res infr power h (match r with None => d | Some hv => I.merge d hv end).
Proof.
  cbn zeta. intros Hv Hqu. set (s1 := srun g ops1 (init_sys rows m0 c0)) in *.
  assert (E : inf s1 = I.exec I.init (itrace ops1)) by apply reach_inf.
  rewrite E in *.
  destruct (IP.c20_create_immediate (itrace ops1) d r Hv) as [_ [H1 [H2 H3]]].
  set (s2 := fst (sstep g s1 (SInf (I.OCreate d r)))).
  assert (E2 : inf s2 = I.step (I.exec I.init (itrace ops1)) (I.OCreate d r)).
  { unfold s2. rewrite sstep_inf, E. reflexivity. }
  apply uses_settled.
  - rewrite E2. apply IP.inv_step. apply IP.inv_reachable.
  - rewrite E2. congruence.
  - rewrite E2. exact H1.
  - rewrite E2. exact H2.
  - exact Hqu.
Qed.

(* a cancelled request never influences a jail *)
Lemma uses_after_cancel g s1 c cp np u o ops2 np2 u2 o2 ops3 res infr power h :
  IP.Inv (inf s1) ->
  I.aget c (I.phases (inf s1)) = Some I.Launched -> I.aget c (I.cur (inf s1)) = Some cp ->
  IP.is_request (inf s1) c np u o -> I.params_eqb cp np = false -> IP.quiet c (itrace ops2) = true ->
  IP.applied_in c (I.step (inf s1) o) (itrace ops2) = false ->
  let s3 := srun g ops2 (fst (sstep g s1 (SInf o))) in
  I.aget c (I.phases (inf s3)) = Some I.Launched ->
  IP.is_request (inf s3) c np2 u2 o2 -> I.params_eqb cp np2 = true -> IP.quiet c (itrace ops3) = true ->
  let s5 := srun g ops3 (fst (sstep g s3 (SInf o2))) in
  report_uses g s5 c res infr power h cp /\
  IP.applied_in c (I.step (inf s3) o2) (itrace ops3) = false.
Proof.
  intros HI Hph Hcur Hreq Hne Hqu HnA. cbn zeta. intros Hph3 Hreq2 Heq Hqu3.
  set (s3 := srun g ops2 (fst (sstep g s1 (SInf o)))) in *.
  assert (E3 : inf s3 = I.exec (I.step (inf s1) o) (itrace ops2)).
  { unfold s3. rewrite srun_inf, (sstep_request_inf g s1 o c np u Hreq). reflexivity. }
  assert (HI3 : IP.Inv (inf s3)) by (rewrite E3; apply IP.inv_exec; apply IP.inv_step; exact HI).
  pose proof (IP.request_pending (inf s1) c cp np u o HI Hph Hcur Hreq Hne) as Hp.
  assert (Hex : I.aget c (I.phases (I.step (inf s1) o)) <> None) by (apply IP.exists_step; [exact HI|congruence]).
  pose proof (IP.pending_run (itrace ops2) (I.step (inf s1) o) c cp np (I.clock (inf s1) + u)
                (IP.inv_step _ o HI) Hex Hp Hqu) as H. rewrite HnA in H. rewrite <- E3 in H.
  destruct H as [Hc3 _].
  destruct (IP.request_spec (inf s3) c cp np2 u2 o2 HI3 Hph3 Hc3 Hreq2) as [_ [Hc4 [_ Hres]]]. rewrite Heq in Hres.
  destruct Hres as [Hq4 _].
  set (s4 := fst (sstep g s3 (SInf o2))).
  assert (E4 : inf s4 = I.step (inf s3) o2) by (apply (sstep_request_inf g s3 o2 c np2 u2 Hreq2)).
  assert (HI4 : IP.Inv (inf s4)) by (rewrite E4; apply IP.inv_step; exact HI3).
  assert (Hex4 : I.aget c (I.phases (inf s4)) <> None) by (rewrite E4; apply IP.exists_step; [exact HI3|congruence]).
  split.
  - apply uses_settled; try assumption; rewrite E4; assumption.
  - exact (proj2 (IP.settled_stable (itrace ops3) (I.step (inf s3) o2) c cp (IP.inv_step _ o2 HI3)
                    (IP.exists_step _ o2 c HI3 ltac:(congruence)) (conj Hc4 Hq4) Hqu3)).
Qed.

(* a replaced request never takes effect: after the second request the jail uses cp or the second request's values *)
Lemma uses_after_replace g s1 c cp np u o ops2 np2 u2 o2 ops3 res infr power h :
  IP.Inv (inf s1) ->
  I.aget c (I.phases (inf s1)) = Some I.Launched -> I.aget c (I.cur (inf s1)) = Some cp ->
  IP.is_request (inf s1) c np u o -> I.params_eqb cp np = false -> IP.quiet c (itrace ops2) = true ->
  IP.applied_in c (I.step (inf s1) o) (itrace ops2) = false ->
  let s3 := srun g ops2 (fst (sstep g s1 (SInf o))) in
  I.aget c (I.phases (inf s3)) = Some I.Launched ->
  IP.is_request (inf s3) c np2 u2 o2 -> I.params_eqb cp np2 = false -> IP.quiet c (itrace ops3) = true ->
  let s5 := srun g ops3 (fst (sstep g s3 (SInf o2))) in
  report_uses g s5 c res infr power h (if IP.applied_in c (I.step (inf s3) o2) (itrace ops3) then np2 else cp).
Proof.
  intros HI Hph Hcur Hreq Hne Hqu HnA. cbn zeta. intros Hph3 Hreq2 Hne2 Hqu3.
  set (s3 := srun g ops2 (fst (sstep g s1 (SInf o)))) in *.
  assert (E3 : inf s3 = I.exec (I.step (inf s1) o) (itrace ops2)).
  { unfold s3. rewrite srun_inf, (sstep_request_inf g s1 o c np u Hreq). reflexivity. }
  assert (HI3 : IP.Inv (inf s3)) by (rewrite E3; apply IP.inv_exec; apply IP.inv_step; exact HI).
  pose proof (IP.request_pending (inf s1) c cp np u o HI Hph Hcur Hreq Hne) as Hp.
  assert (Hex : I.aget c (I.phases (I.step (inf s1) o)) <> None) by (apply IP.exists_step; [exact HI|congruence]).
  pose proof (IP.pending_run (itrace ops2) (I.step (inf s1) o) c cp np (I.clock (inf s1) + u)
                (IP.inv_step _ o HI) Hex Hp Hqu) as H. rewrite HnA in H. rewrite <- E3 in H.
  destruct H as [Hc3 _].
  exact (uses_after_request g s3 c cp np2 u2 o2 ops3 res infr power h HI3 Hph3 Hc3 Hreq2 Hne2 Hqu3).
Qed.

(* every report handled before any begin-block with time >= request time + u is punished with the OLD values *)
Lemma uses_old_before_due g s1 c cp np u o ops2 res infr power h :
  IP.Inv (inf s1) ->
  I.aget c (I.phases (inf s1)) = Some I.Launched -> I.aget c (I.cur (inf s1)) = Some cp ->
  IP.is_request (inf s1) c np u o -> I.params_eqb cp np = false -> IP.quiet c (itrace ops2) = true ->
  (forall now total, In (SBegin now total) ops2 -> now < I.clock (inf s1) + u) ->
  report_uses g (srun g ops2 (fst (sstep g s1 (SInf o)))) c res infr power h cp.
Proof.
  intros HI Hph Hcur Hreq Hne Hqu Hearly.
  pose proof (uses_after_request g s1 c cp np u o ops2 res infr power h HI Hph Hcur Hreq Hne Hqu) as H. cbn zeta in H.
  destruct (IP.applied_in c (I.step (inf s1) o) (itrace ops2)) eqn:Ea; [|exact H].
  destruct (applied_when s1 c cp np u o ops2 HI Hph Hcur Hreq Hne Hqu Ea) as (now & total & Hin & Hle).
  specialize (Hearly now total Hin). lia.
Qed.

(* every report handled after the first begin-block at / after the due time (at most [limit] entries due) is punished
   with the NEW values *)
Lemma uses_new_from_due g s1 c cp np u o opsA now total opsB res infr power h :
  IP.Inv (inf s1) ->
  I.aget c (I.phases (inf s1)) = Some I.Launched -> I.aget c (I.cur (inf s1)) = Some cp ->
  IP.is_request (inf s1) c np u o -> I.params_eqb cp np = false ->
  IP.quiet c (itrace (opsA ++ SBegin now total :: opsB)) = true ->
  IP.applied_in c (I.step (inf s1) o) (itrace opsA) = false ->
  I.clock (inf s1) + u <= now ->
  (length (IP.due_list now (I.schedule (inf (srun g opsA (fst (sstep g s1 (SInf o))))))) <= I.limit)%nat ->
  report_uses g (srun g (opsA ++ SBegin now total :: opsB) (fst (sstep g s1 (SInf o)))) c res infr power h np.
Proof.
  intros HI Hph Hcur Hreq Hne Hqu HnA Hle Hlen.
  pose proof (uses_after_request g s1 c cp np u o (opsA ++ SBegin now total :: opsB) res infr power h
                HI Hph Hcur Hreq Hne Hqu) as H. cbn zeta in H.
  assert (HqA : IP.quiet c (itrace opsA) = true).
  { rewrite itrace_app in Hqu. unfold IP.quiet in *. rewrite forallb_app in Hqu. apply andb_prop in Hqu. tauto. }
  rewrite (applied_at_due g s1 c cp np u o opsA now total opsB HI Hph Hcur Hreq Hne HqA HnA Hle Hlen) in H. exact H.
Qed.

(* ------------------------------------------------------------------ the same, for runs from the initial state *)
Section Reach.
  Variables (g : cfg) (rows : list S.val) (m0 c0 : Z) (ops1 : list sop).
  Let s1 := srun g ops1 (init_sys rows m0 c0).
  Let HI : IP.Inv (inf s1) := reach_inv g rows m0 c0 ops1.

  Lemma sys_jail_uses_in_force c cp np u o ops2 res infr power h :
    I.aget c (I.phases (inf s1)) = Some I.Launched -> I.aget c (I.cur (inf s1)) = Some cp ->
    IP.is_request (inf s1) c np u o -> I.params_eqb cp np = false -> IP.quiet c (itrace ops2) = true ->
    let s3 := srun g ops2 (fst (sstep g s1 (SInf o))) in
    report_uses g s3 c res infr power h (if IP.applied_in c (I.step (inf s1) o) (itrace ops2) then np else cp).
  Proof.
    intros A1 A2 A3 A4 A5 s3.
    exact (uses_after_request g s1 c cp np u o ops2 res infr power h HI A1 A2 A3 A4 A5).
  Qed.

  Lemma sys_applied_when c cp np u o ops2 :
    I.aget c (I.phases (inf s1)) = Some I.Launched -> I.aget c (I.cur (inf s1)) = Some cp ->
    IP.is_request (inf s1) c np u o -> I.params_eqb cp np = false -> IP.quiet c (itrace ops2) = true ->
    IP.applied_in c (I.step (inf s1) o) (itrace ops2) = true ->
    exists now total, In (SBegin now total) ops2 /\ I.clock (inf s1) + u <= now.
  Proof. intros A1 A2 A3 A4 A5 A6. exact (applied_when s1 c cp np u o ops2 HI A1 A2 A3 A4 A5 A6). Qed.

  Lemma sys_old_before_due c cp np u o ops2 res infr power h :
    I.aget c (I.phases (inf s1)) = Some I.Launched -> I.aget c (I.cur (inf s1)) = Some cp ->
    IP.is_request (inf s1) c np u o -> I.params_eqb cp np = false -> IP.quiet c (itrace ops2) = true ->
    (forall now total, In (SBegin now total) ops2 -> now < I.clock (inf s1) + u) ->
    report_uses g (srun g ops2 (fst (sstep g s1 (SInf o)))) c res infr power h cp.
  Proof. intros A1 A2 A3 A4 A5 A6. exact (uses_old_before_due g s1 c cp np u o ops2 res infr power h HI A1 A2 A3 A4 A5 A6). Qed.

  Lemma sys_new_from_due c cp np u o opsA now total opsB res infr power h :
    I.aget c (I.phases (inf s1)) = Some I.Launched -> I.aget c (I.cur (inf s1)) = Some cp ->
    IP.is_request (inf s1) c np u o -> I.params_eqb cp np = false ->
    IP.quiet c (itrace (opsA ++ SBegin now total :: opsB)) = true ->
    IP.applied_in c (I.step (inf s1) o) (itrace opsA) = false ->
    I.clock (inf s1) + u <= now ->
    (length (IP.due_list now (I.schedule (inf (srun g opsA (fst (sstep g s1 (SInf o))))))) <= I.limit)%nat ->
    report_uses g (srun g (opsA ++ SBegin now total :: opsB) (fst (sstep g s1 (SInf o)))) c res infr power h np.
  Proof.
    intros A1 A2 A3 A4 A5 A6 A7 A8.
    exact (uses_new_from_due g s1 c cp np u o opsA now total opsB res infr power h HI A1 A2 A3 A4 A5 A6 A7 A8).
  Qed.

  Lemma sys_cancel c cp np u o ops2 np2 u2 o2 ops3 res infr power h :
    I.aget c (I.phases (inf s1)) = Some I.Launched -> I.aget c (I.cur (inf s1)) = Some cp ->
    IP.is_request (inf s1) c np u o -> I.params_eqb cp np = false -> IP.quiet c (itrace ops2) = true ->
    IP.applied_in c (I.step (inf s1) o) (itrace ops2) = false ->
    let s3 := srun g ops2 (fst (sstep g s1 (SInf o))) in
    I.aget c (I.phases (inf s3)) = Some I.Launched ->
    IP.is_request (inf s3) c np2 u2 o2 -> I.params_eqb cp np2 = true -> IP.quiet c (itrace ops3) = true ->
    let s5 := srun g ops3 (fst (sstep g s3 (SInf o2))) in
    report_uses g s5 c res infr power h cp /\
    IP.applied_in c (I.step (inf s3) o2) (itrace ops3) = false.
  Proof.
    intros A1 A2 A3 A4 A5 A6 s3 A7 A8 A9 A10.
    exact (uses_after_cancel g s1 c cp np u o ops2 np2 u2 o2 ops3 res infr power h HI A1 A2 A3 A4 A5 A6 A7 A8 A9 A10).
  Qed.

  Lemma sys_replace c cp np u o ops2 np2 u2 o2 ops3 res infr power h :
    I.aget c (I.phases (inf s1)) = Some I.Launched -> I.aget c (I.cur (inf s1)) = Some cp ->
    IP.is_request (inf s1) c np u o -> I.params_eqb cp np = false -> IP.quiet c (itrace ops2) = true ->
    IP.applied_in c (I.step (inf s1) o) (itrace ops2) = false ->
    let s3 := srun g ops2 (fst (sstep g s1 (SInf o))) in
    I.aget c (I.phases (inf s3)) = Some I.Launched ->
    IP.is_request (inf s3) c np2 u2 o2 -> I.params_eqb cp np2 = false -> IP.quiet c (itrace ops3) = true ->
    let s5 := srun g ops3 (fst (sstep g s3 (SInf o2))) in
    report_uses g s5 c res infr power h (if IP.applied_in c (I.step (inf s3) o2) (itrace ops3) then np2 else cp).
  Proof.
    intros A1 A2 A3 A4 A5 A6 s3 A7 A8 A9 A10.
    exact (uses_after_replace g s1 c cp np u o ops2 np2 u2 o2 ops3 res infr power h HI A1 A2 A3 A4 A5 A6 A7 A8 A9 A10).
  Qed.
End Reach.
