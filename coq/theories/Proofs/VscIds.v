(* Invariants of the VSC state machine (Model/Vsc.v) about update ids and heights (property C12). *)
From Coq Require Import ZArith List Bool Lia Permutation Sorted.
From ICS Require Import Base.Tree Model.Vsc Proofs.VscMaps Proofs.VscProofs.
Import ListNotations.
Open Scope Z_scope.

(* ---------- last_before ---------- *)
Lemma last_before_snoc h log e :
  last_before h (log ++ [e]) = if fst e <? h then snd e else last_before h log.
Proof. unfold last_before. rewrite fold_left_app. reflexivity. Qed.

Lemma last_before_all h1 h2 log :
  Forall (fun e => fst e < h1) log -> h1 <= h2 -> last_before h1 log = last_before h2 log.
Proof.
  intros Hall Hle. induction log as [|e t IH] using rev_ind; [reflexivity|].
  apply Forall_app in Hall. destruct Hall as [Ht He]. inversion He as [|? ? Hlt _]; subst.
  rewrite !last_before_snoc.
  destruct (Z.ltb_spec (fst e) h1); [|lia]. destruct (Z.ltb_spec (fst e) h2); [reflexivity|lia].
Qed.

Lemma last_before_in h log : last_before h log = 0 \/ In (last_before h log) (map snd log).
Proof.
  induction log as [|e t IH] using rev_ind; [now left|].
  rewrite last_before_snoc, map_app. destruct (fst e <? h).
  - right. apply in_or_app. right. now left.
  - destruct IH as [IH|IH]; [now left|]. right. apply in_or_app. now left.
Qed.

Lemma get0_mset h k v m : get0 h (mset k v m) = if h =? k then v else get0 h m.
Proof. unfold get0. rewrite mget_mset. destruct (h =? k); reflexivity. Qed.

(* ---------- invariant ---------- *)
Record inv2 (vid0 : Z) (m0 : kmap) (s : state) : Prop := mk_inv2 {
  j_epochs : Forall (fun e => fst e < p_vscid s /\ mget (fst e) (p_vsc2h s) = Some (snd e + 1)) (g_epochs s);
  j_prodh_incl : incl (g_prodh s) (g_epochs s);
  j_prodh_ids : map fst (g_prodh s) = map pid (g_prod s);
  j_issued : forall i, vid0 <= i < p_vscid s -> In i (map fst (g_epochs s));
  j_vid : vid0 <= p_vscid s;
  j_keys : forall i, mget i (p_vsc2h s) <> None ->
           mget i m0 <> None \/ In i (map fst (g_epochs s)) \/ i = p_vscid s;
  j_log_ids : map snd (g_recvlog s) = map pid (g_deliv s);
  j_log_h : Forall (fun e => fst e <= c_height s /\ (c_inblock s = false -> fst e < c_height s)) (g_recvlog s);
  j_cmap : forall h, h <= c_height s + (if c_inblock s then 1 else 0) ->
           get0 h (c_h2id s) = last_before h (g_recvlog s);
  j_init : p_chan s = true -> exists ho, p_init s = Some ho /\ ho <= p_height s
}.

Lemma inv2_next_pheight v m s : inv2 v m s -> inv2 v m (next_pheight s).
Proof.
  intros [H1 H2 H3 H4 H5 H6 H7 H8 H9 H10]. constructor; simpl; try assumption.
  intros Hc. destruct (H10 Hc) as [ho [Hi Hle]]. exists ho. split; [assumption|lia].
Qed.

Lemma inv2_cis v m s : inv2 v m s -> inv2 v m (cis s).
Proof.
  intros [H1 H2 H3 H4 H5 H6 H7 H8 H9 H10]. constructor; simpl; try assumption.
  - eapply Forall_impl; [|exact H1]. simpl. intros e [Hlt Hg]. split; [assumption|].
    rewrite mget_mset. destruct (Z.eqb_spec (fst e) (p_vscid s)); [lia|assumption].
  - intros i Hi. destruct (Z.eq_dec i (p_vscid s)) as [E|Hne]; [right; now right|].
    apply H6. rewrite mget_mset in Hi. destruct (Z.eqb_spec i (p_vscid s)); [contradiction|assumption].
Qed.

(* QueueVSCPackets right after EndBlockCIS of the same block *)
Lemma inv2_cis_queue v m next s : inv2 v m s -> inv2 v m (queue next (cis s)).
Proof.
  intros H. pose proof (inv2_cis v m s H) as [H1 H2 H3 H4 H5 H6 H7 H8 H9 H10].
  assert (Hcur : mget (p_vscid s) (p_vsc2h (cis s)) = Some (p_height s + 1)).
  { simpl. rewrite mget_mset, Z.eqb_refl. reflexivity. }
  assert (Hep : Forall (fun e => fst e < p_vscid s + 1 /\ mget (fst e) (p_vsc2h (cis s)) = Some (snd e + 1))
                       (g_epochs s ++ [(p_vscid s, p_height s)])).
  { apply Forall_app. split.
    - eapply Forall_impl; [|exact H1]. simpl. intros e [Hlt Hg]. split; [lia|assumption].
    - constructor; [|constructor]. simpl. split; [lia|]. exact Hcur. }
  assert (Hiss : forall i, v <= i < p_vscid s + 1 -> In i (map fst (g_epochs s ++ [(p_vscid s, p_height s)]))).
  { intros i Hi. rewrite map_app. apply in_or_app. destruct (Z.eq_dec i (p_vscid s)) as [->|Hne].
    - right. now left.
    - left. apply H4. simpl. lia. }
  assert (Hkeys : forall i, mget i (p_vsc2h (cis s)) <> None ->
            mget i m <> None \/ In i (map fst (g_epochs s ++ [(p_vscid s, p_height s)])) \/ i = p_vscid s + 1).
  { intros i Hi. destruct (H6 i Hi) as [Hm|[He|He]].
    - now left.
    - right. left. rewrite map_app. apply in_or_app. now left.
    - right. left. rewrite map_app. apply in_or_app. right. simpl in He. subst i. now left. }
  simpl in *. unfold queue. simpl. destruct (p_launched s).
  - destruct (diff (p_stored s) next) as [|u us].
    + constructor; simpl; try assumption.
      * intros x Hx. apply in_or_app. left. now apply H2.
      * lia.
    + constructor; simpl; try assumption.
      * intros x Hx. apply in_app_or in Hx. apply in_or_app. destruct Hx as [Hx|Hx]; [left; now apply H2|now right].
      * rewrite !map_app, H3. reflexivity.
      * lia.
  - constructor; simpl; try assumption.
    + intros x Hx. apply in_or_app. left. now apply H2.
    + lia.
Qed.

Lemma inv2_send v m r s : inv2 v m s -> inv2 v m (send r s).
Proof.
  intros H. unfold send. destruct (p_launched s && p_chan s); [|assumption].
  destruct (send_loop r 0 (p_pending s)) as [sent f].
  destruct H as [H1 H2 H3 H4 H5 H6 H7 H8 H9 H10]. constructor; simpl; assumption.
Qed.

Lemma inv2_chan_open v m s : inv2 v m s -> inv2 v m (chan_open s).
Proof.
  intros H. unfold chan_open. destruct (p_chan s) eqn:EC; [assumption|].
  destruct H as [H1 H2 H3 H4 H5 H6 H7 H8 H9 H10]. constructor; simpl; try assumption.
  intros _. exists (p_height s). split; [reflexivity|lia].
Qed.

Lemma inv2_stop v m s : inv2 v m s -> inv2 v m (stop s).
Proof. intros [H1 H2 H3 H4 H5 H6 H7 H8 H9 H10]. constructor; simpl; assumption. Qed.

Lemma inv2_c_begin_block v m s : inv2 v m s -> inv2 v m (c_begin_block s).
Proof.
  intros H. unfold c_begin_block. destruct (c_inblock s) eqn:EB; [assumption|].
  destruct H as [H1 H2 H3 H4 H5 H6 H7 H8 H9 H10]. rewrite EB in *. constructor; simpl; try assumption.
  - eapply Forall_impl; [|exact H8]. simpl. intros e [Hle Hlt]. split; [assumption|discriminate].
  - intros h Hh. rewrite get0_mset. destruct (Z.eqb_spec h (c_height s + 1)) as [->|Hne].
    + rewrite (H9 (c_height s)) by lia. apply last_before_all; [|lia].
      eapply Forall_impl; [|exact H8]. simpl. intros e [_ Hlt]. now apply Hlt.
    + apply H9. lia.
Qed.

Lemma inv2_deliver v m s : inv2 v m s -> inv2 v m (deliver s).
Proof.
  intros H. unfold deliver. destruct (c_inblock s) eqn:EB; simpl; [|assumption].
  destruct (inflight s) as [|p fl]; [assumption|].
  destruct H as [H1 H2 H3 H4 H5 H6 H7 H8 H9 H10]. rewrite EB in *.
  destruct (pid p =? 0).
  - constructor; simpl; assumption.
  - constructor; simpl; try assumption.
    + rewrite !map_app, H7. reflexivity.
    + apply Forall_app. split; [assumption|]. constructor; [|constructor]. simpl. split; [lia|discriminate].
    + intros h Hh. rewrite get0_mset, last_before_snoc. simpl.
      destruct (Z.eqb_spec h (c_height s + 1)) as [->|Hne].
      * destruct (Z.ltb_spec (c_height s) (c_height s + 1)); [reflexivity|lia].
      * destruct (Z.ltb_spec (c_height s) h); [lia|]. apply H9. lia.
Qed.

Lemma inv2_c_end_block v m s : inv2 v m s -> inv2 v m (c_end_block s).
Proof.
  intros H. unfold c_end_block. destruct (c_inblock s) eqn:EB; simpl; [|assumption].
  destruct H as [H1 H2 H3 H4 H5 H6 H7 H8 H9 H10]. rewrite EB in *.
  destruct (match c_pending s with Some ch0 => apply_cc ch0 (c_ccvals s) | None => (c_ccvals s, []) end) as [cc ret].
  constructor; simpl; try assumption.
  - eapply Forall_impl; [|exact H8]. simpl. intros e [Hle _]. split; lia.
  - intros h Hh. apply H9. lia.
Qed.

Lemma inv2_step v m s o : inv2 v m s -> inv2 v m (step s o).
Proof.
  destruct o as [e next r| | | | | | h | id]; simpl; intros H; try assumption.
  - unfold p_end_block. apply inv2_next_pheight. destruct e; [|now apply inv2_cis].
    apply inv2_send. now apply inv2_cis_queue.
  - now apply inv2_chan_open.
  - now apply inv2_deliver.
  - now apply inv2_c_begin_block.
  - now apply inv2_c_end_block.
  - now apply inv2_stop.
Qed.

Lemma inv2_init ph vid m0 l0 ch : inv2 vid m0 (init_state ph vid m0 l0 ch).
Proof.
  unfold init_state. destruct (apply_cc (diff [] l0) []) as [cc ret].
  constructor; simpl.
  - constructor.
  - intros x Hx. exact Hx.
  - reflexivity.
  - intros i Hi. lia.
  - lia.
  - intros i Hi. now left.
  - reflexivity.
  - constructor.
  - intros h Hh. unfold get0. simpl. destruct (h =? ch); reflexivity.
  - discriminate.
Qed.

Lemma inv2_run v m s ops : inv2 v m s -> inv2 v m (run_ops s ops).
Proof.
  revert s. induction ops as [|o t IH]; intros s H; [assumption|]. simpl. apply IH. now apply inv2_step.
Qed.

Theorem inv2_reach ph vid m0 l0 ch ops : inv2 vid m0 (run_ops (init_state ph vid m0 l0 ch) ops).
Proof. apply inv2_run, inv2_init. Qed.

(* ---------- C12 statements ---------- *)
Lemma vscid_send r s : p_vscid (send r s) = p_vscid s.
Proof.
  unfold send. destruct (p_launched s && p_chan s); [|reflexivity].
  destruct (send_loop r 0 (p_pending s)). reflexivity.
Qed.
Lemma vscid_queue next s : p_vscid (queue next s) = p_vscid s + 1.
Proof. unfold queue. destruct (p_launched s); [destruct (diff (p_stored s) next)|]; reflexivity. Qed.

(* the id grows by exactly one in an epoch block and by zero in every other step (no hypothesis on the state) *)
Theorem id_step s o :
  p_vscid (step s o) = p_vscid s + match o with PEndBlock true _ _ => 1 | _ => 0 end.
Proof.
  destruct o as [e next r| | | | | | h | id]; simpl; try lia.
  - unfold p_end_block. simpl. destruct e; simpl; [|lia]. rewrite vscid_send, vscid_queue. simpl. lia.
  - unfold chan_open. destruct (p_chan s); simpl; lia.
  - unfold deliver. destruct (c_inblock s); simpl; [|lia]. destruct (inflight s); [lia|].
    destruct (pid p =? 0); simpl; lia.
  - unfold c_begin_block. destruct (c_inblock s); simpl; lia.
  - unfold c_end_block. destruct (c_inblock s); simpl; [|lia].
    destruct (match c_pending s with Some ch0 => apply_cc ch0 (c_ccvals s) | None => (c_ccvals s, []) end). simpl. lia.
Qed.

(* every issued id i (vid0 <= i < current id) was stamped in exactly the epoch block recorded for it, and the
   stored height is 1 + the height of that block; the same for the block that produced packet i *)
Theorem id_height ph vid m0 l0 ch ops :
  let s := run_ops (init_state ph vid m0 l0 ch) ops in
  (forall i, vid <= i < p_vscid s -> exists hb, In (i, hb) (g_epochs s)) /\
  (forall i hb, In (i, hb) (g_epochs s) -> vid <= i < p_vscid s /\ mget i (p_vsc2h s) = Some (hb + 1)) /\
  (forall i hb, In (i, hb) (g_prodh s) -> In (i, hb) (g_epochs s)) /\
  map fst (g_prodh s) = map pid (g_prod s).
Proof.
  intros s. pose proof (inv2_reach ph vid m0 l0 ch ops) as H. fold s in H.
  split; [|split; [|split]].
  - intros i Hi. pose proof (j_issued _ _ _ H i Hi) as Hin. apply in_map_iff in Hin.
    destruct Hin as [[i' hb] [Heq Hin]]. simpl in Heq. subst i'. now exists hb.
  - intros i hb Hin. pose proof (j_epochs _ _ _ H) as He. rewrite Forall_forall in He.
    destruct (He _ Hin) as [Hlt Hg]. simpl in *. split; [|assumption]. split; [|assumption].
    (* lower bound: ids recorded are >= vid *)
    clear -Hin. subst s. revert Hin.
    assert (G : forall s0, vid <= p_vscid s0 -> Forall (fun e => vid <= fst e) (g_epochs s0) ->
                forall ops0, Forall (fun e => vid <= fst e) (g_epochs (run_ops s0 ops0)) /\ vid <= p_vscid (run_ops s0 ops0)).
    { intros s0 Hv Hf ops0. revert s0 Hv Hf. induction ops0 as [|o t IH]; intros s0 Hv Hf; [now split|].
      simpl. apply IH.
      - rewrite id_step. destruct o as [[|] ? ?| | | | | | |]; lia.
      - destruct o as [e next r| | | | | | h | id]; simpl; try assumption.
        + unfold p_end_block. simpl. destruct e; simpl; [|assumption].
          unfold send, queue. simpl.
          destruct (p_launched s0); simpl.
          * destruct (diff (p_stored s0) next); simpl.
            -- destruct (p_chan s0); simpl; [destruct (send_loop r 0 (p_pending s0)); simpl|];
               (apply Forall_app; split; [assumption|constructor; [simpl; lia|constructor]]).
            -- destruct (p_chan s0); simpl; [destruct (send_loop r 0 (p_pending s0 ++ [(p_vscid s0, u :: l)])); simpl|];
               (apply Forall_app; split; [assumption|constructor; [simpl; lia|constructor]]).
          * apply Forall_app; split; [assumption|constructor; [simpl; lia|constructor]].
        + unfold chan_open. destruct (p_chan s0); assumption.
        + unfold deliver. destruct (c_inblock s0); simpl; [|assumption]. destruct (inflight s0); [assumption|].
          destruct (pid p =? 0); assumption.
        + unfold c_begin_block. destruct (c_inblock s0); assumption.
        + unfold c_end_block. destruct (c_inblock s0); simpl; [|assumption].
          destruct (match c_pending s0 with Some ch0 => apply_cc ch0 (c_ccvals s0) | None => (c_ccvals s0, []) end). assumption. }
    intros Hin.
    assert (H0 : Forall (fun e => vid <= fst e) (g_epochs (init_state ph vid m0 l0 ch))).
    { unfold init_state. destruct (apply_cc (diff [] l0) []). constructor. }
    assert (Hv0 : vid <= p_vscid (init_state ph vid m0 l0 ch)).
    { unfold init_state. destruct (apply_cc (diff [] l0) []). simpl. lia. }
    destruct (G _ Hv0 H0 ops) as [Hf _]. rewrite Forall_forall in Hf. apply (Hf _ Hin).
  - intros i hb Hin. now apply (j_prodh_incl _ _ _ H).
  - apply (j_prodh_ids _ _ _ H).
Qed.

(* consumer: the id stored for height h is the id of the last packet received in a block < h, 0 if none *)
Theorem consumer_map ph vid m0 l0 ch ops :
  let s := run_ops (init_state ph vid m0 l0 ch) ops in
  forall h, h <= c_height s + (if c_inblock s then 1 else 0) ->
  get0 h (c_h2id s) = last_before h (g_recvlog s).
Proof. intros s. apply (j_cmap _ _ _ (inv2_reach ph vid m0 l0 ch ops)). Qed.

(* the receipt log is what it says: ids of the delivered packets, in order, with the height of the receiving block *)
Theorem recvlog_meaning ph vid m0 l0 ch ops :
  let s := run_ops (init_state ph vid m0 l0 ch) ops in
  map snd (g_recvlog s) = map pid (g_deliv s) /\
  Forall (fun e => fst e <= c_height s /\ (c_inblock s = false -> fst e < c_height s)) (g_recvlog s).
Proof.
  intros s. pose proof (inv2_reach ph vid m0 l0 ch ops) as H. split; [apply (j_log_ids _ _ _ H)|apply (j_log_h _ _ _ H)].
Qed.

(* round trip of a slash packet *)
Theorem slash_roundtrip ph vid m0 l0 ch ops : 1 <= vid -> pos_set l0 -> Forall wf_op ops ->
  let s := run_ops (init_state ph vid m0 l0 ch) ops in
  forall h, h <= c_height s + (if c_inblock s then 1 else 0) ->
  let i := slash_id s h in
  i = last_before h (g_recvlog s) /\
  ((i = 0 /\ (p_chan s = true -> exists ho, recv_slash s i = Some ho /\ p_init s = Some ho /\ ho <= p_height s)) \/
   (1 <= i /\ exists hb, In (i, hb) (g_prodh s) /\ mget i (p_vsc2h s) = Some (hb + 1) /\
               (p_chan s = true -> recv_slash s i = Some (hb + 1)))).
Proof.
  intros Hv Hp Hw s h Hh i.
  pose proof (inv2_reach ph vid m0 l0 ch ops) as H2. fold s in H2.
  pose proof (inv_reach ph vid m0 l0 ch ops Hv Hp Hw) as H1. fold s in H1.
  assert (Hi : i = last_before h (g_recvlog s)) by (apply (j_cmap _ _ _ H2); assumption).
  split; [assumption|].
  destruct (last_before_in h (g_recvlog s)) as [H0|Hin].
  - left. split; [congruence|]. intros Hc. destruct (j_init _ _ _ H2 Hc) as [ho [Hio Hle]].
    exists ho. unfold recv_slash. rewrite Hc. simpl. replace i with 0 by congruence. simpl. auto.
  - right. rewrite <- Hi in Hin. rewrite (j_log_ids _ _ _ H2) in Hin.
    assert (Hprod : In i (map pid (g_prod s))).
    { apply in_map_iff in Hin. destruct Hin as [p [Hpid Hpin]]. apply in_map_iff. exists p. split; [assumption|].
      destruct (i_flow s H1) as [rest [Hpr _]]. rewrite Hpr. apply in_or_app. now left. }
    assert (Hlo : 1 <= i).
    { apply in_map_iff in Hprod. destruct Hprod as [p [Hpid Hpin]]. pose proof (i_ids_lo s H1) as Hl.
      rewrite Forall_forall in Hl. specialize (Hl _ Hpin). lia. }
    split; [assumption|].
    rewrite <- (j_prodh_ids _ _ _ H2) in Hprod. apply in_map_iff in Hprod.
    destruct Hprod as [[i' hb] [Heq Hinp]]. simpl in Heq. subst i'.
    exists hb. split; [assumption|].
    pose proof (j_epochs _ _ _ H2) as He. rewrite Forall_forall in He.
    destruct (He _ (j_prodh_incl _ _ _ H2 _ Hinp)) as [_ Hg]. simpl in Hg.
    split; [assumption|]. intros Hc. unfold recv_slash. rewrite Hc. simpl.
    destruct (Z.eqb_spec i 0); [lia|assumption].
Qed.

(* channel-opening height *)
Theorem init_height_set s : p_chan s = false ->
  p_chan (step s ChanOpen) = true /\ p_init (step s ChanOpen) = Some (p_height s).
Proof. intros Hc. simpl. unfold chan_open. rewrite Hc. split; reflexivity. Qed.

Lemma init_send r s : p_init (send r s) = p_init s /\ p_chan (send r s) = p_chan s.
Proof.
  unfold send. destruct (p_launched s && p_chan s); [|split; reflexivity].
  destruct (send_loop r 0 (p_pending s)). split; reflexivity.
Qed.
Lemma init_queue next s : p_init (queue next s) = p_init s /\ p_chan (queue next s) = p_chan s.
Proof. unfold queue. destruct (p_launched s); [destruct (diff (p_stored s) next)|]; split; reflexivity. Qed.

Theorem init_height_kept s o : p_chan s = true -> p_chan (step s o) = true /\ p_init (step s o) = p_init s.
Proof.
  intros Hc. destruct o as [e next r| | | | | | h | id]; simpl; try (split; [assumption|reflexivity]).
  - unfold p_end_block. simpl. destruct e; simpl; [|split; [assumption|reflexivity]].
    destruct (init_send r (queue next (cis s))) as [E1 E2]. destruct (init_queue next (cis s)) as [E3 E4].
    rewrite E1, E2, E3, E4. simpl. split; [assumption|reflexivity].
  - unfold chan_open. rewrite Hc. split; [assumption|reflexivity].
  - unfold deliver. destruct (c_inblock s); simpl; [|split; [assumption|reflexivity]].
    destruct (inflight s); [split; [assumption|reflexivity]|]. destruct (pid p =? 0); split; assumption || reflexivity.
  - unfold c_begin_block. destruct (c_inblock s); split; assumption || reflexivity.
  - unfold c_end_block. destruct (c_inblock s); simpl; [|split; [assumption|reflexivity]].
    destruct (match c_pending s with Some ch0 => apply_cc ch0 (c_ccvals s) | None => (c_ccvals s, []) end).
    split; assumption || reflexivity.
Qed.

(* unknown ids *)
Definition issued (m0 : kmap) (s : state) (i : Z) : Prop :=
  i = 0 \/ mget i m0 <> None \/ In i (map fst (g_epochs s)).

Definition unknown_id_error_full : Prop :=
  forall ph vid m0 l0 ch ops,
    let s := run_ops (init_state ph vid m0 l0 ch) ops in
    forall i, ~ issued m0 s i -> recv_slash s i = None.

Theorem unknown_id_error_partial ph vid m0 l0 ch ops :
  let s := run_ops (init_state ph vid m0 l0 ch) ops in
  forall i, ~ issued m0 s i -> i <> p_vscid s -> recv_slash s i = None.
Proof.
  intros s i Hni Hcur. pose proof (inv2_reach ph vid m0 l0 ch ops) as H. fold s in H.
  unfold recv_slash. destruct (p_chan s); simpl; [|reflexivity].
  destruct (Z.eqb_spec i 0) as [->|Hne]; [exfalso; apply Hni; now left|].
  destruct (mget i (p_vsc2h s)) eqn:E; [|reflexivity]. exfalso.
  assert (Hnn : mget i (p_vsc2h s) <> None) by congruence.
  destruct (j_keys _ _ _ H i Hnn) as [Hm|[He|He]].
  - apply Hni. right. now left.
  - apply Hni. right. now right.
  - contradiction.
Qed.

(* the provider's CURRENT id has not been stamped on anything yet, but EndBlockCIS has already mapped it *)
Theorem unknown_id_error_refuted : ~ unknown_id_error_full.
Proof.
  intros H. specialize (H 5 3 [] [(1, 10)] 1 [ChanOpen; PEndBlock false [] SOk] 3).
  assert (Hni : ~ issued [] (run_ops (init_state 5 3 [] [(1, 10)] 1) [ChanOpen; PEndBlock false [] SOk]) 3).
  { intros [Hc|[Hc|Hc]]; [discriminate|now apply Hc|]. vm_compute in Hc. exact Hc. }
  specialize (H Hni). vm_compute in H. discriminate.
Qed.

(* ids above the current one are always rejected when nothing in the initial map lies above the initial id *)
Theorem future_id_error ph vid m0 l0 ch ops :
  (forall i, vid < i -> mget i m0 = None) ->
  let s := run_ops (init_state ph vid m0 l0 ch) ops in
  forall i, p_vscid s < i -> 0 < i -> recv_slash s i = None.
Proof.
  intros Hm0 s i Hi Hpos. subst s. pose proof (inv2_reach ph vid m0 l0 ch ops) as H.
  apply unknown_id_error_partial; [|lia].
  intros [Hc|[Hc|Hc]]; [lia| |].
  - apply Hc. apply Hm0. pose proof (j_vid _ _ _ H). lia.
  - apply in_map_iff in Hc. destruct Hc as [[i' hb] [Heq Hin]]. simpl in Heq. subst i'.
    pose proof (j_epochs _ _ _ H) as He. rewrite Forall_forall in He. destruct (He _ Hin) as [Hlt _]. simpl in Hlt. lia.
Qed.

(* packet ids: strictly increasing, each is the id of the epoch block that produced it *)
Theorem packet_ids_increasing ph vid m0 l0 ch ops : 1 <= vid -> pos_set l0 -> Forall wf_op ops ->
  let s := run_ops (init_state ph vid m0 l0 ch) ops in
  StronglySorted Z.lt (map pid (g_prod s)) /\
  StronglySorted Z.lt (map pid (g_deliv s)) /\
  Forall (fun p => vid <= pid p < p_vscid s) (g_prod s).
Proof.
  intros Hv Hp Hw s.
  pose proof (inv_reach ph vid m0 l0 ch ops Hv Hp Hw) as H1. fold s in H1.
  pose proof (id_height ph vid m0 l0 ch ops) as [_ [Hep [Hinc Hids]]]. fold s in Hep, Hinc, Hids.
  split; [apply (i_ids s H1)|]. split.
  - destruct (i_flow s H1) as [rest [Hpr _]]. pose proof (i_ids s H1) as Hs. rewrite Hpr, map_app in Hs.
    clear -Hs. induction (map pid (g_deliv s)) as [|a t IH]; [constructor|].
    simpl in Hs. inversion Hs as [|? ? Hst Hall]; subst. constructor; [now apply IH|].
    apply Forall_app in Hall. tauto.
  - rewrite Forall_forall. intros p Hpin.
    assert (Hin : In (pid p) (map fst (g_prodh s))) by (rewrite Hids; now apply in_map).
    apply in_map_iff in Hin. destruct Hin as [[i hb] [Heq Hin]]. simpl in Heq. subst i.
    destruct (Hep _ _ (Hinc _ _ Hin)) as [Hr _]. exact Hr.
Qed.
