(* Lemmas behind the theorems of Props/C11.v. *)
From Coq Require Import ZArith List Bool Lia Permutation.
From ICS Require Import Base.Tree Model.Lifecycle Proofs.LifecycleBase Proofs.LifecycleInv Proofs.LifecycleSteps
  Proofs.LifecycleC10.
Import ListNotations.
Open Scope Z_scope.

(* ------------------------------------------------------------------ no packets after the stop *)

Definition quiet_rel (r r' : consumer) : Prop :=
  c_sent r' = c_sent r /\ c_phase r <= c_phase r' <= 5 /\
  (p_pending (c_proto r') = p_pending (c_proto r) \/ (c_phase r' = 5 /\ p_pending (c_proto r') = 0)).

Lemma trans_quiet : forall U s o r r', 4 <= c_phase r <= 5 ->
  (c_phase r = 5 -> p_pending (c_proto r) = 0) -> trans U s o r r' -> quiet_rel r r'.
Proof.
  intros U s o r r' Hp H5 T. unfold quiet_rel.
  destruct T as [-> | _ _ _ Q | _ P _ _ _ _ | _ [l ->] | _ _ -> | now ora _ P -> | now ora _ P -> | _ P -> | _ P _].
  - split; [reflexivity|]. split; [lia | now left].
  - exfalso. lia.
  - exfalso. lia.
  - simpl. split; [reflexivity|]. split; [lia | now left].
  - simpl. split; [reflexivity|]. split; [lia | now left].
  - exfalso. lia.
  - simpl. split; [reflexivity|]. split; [lia | right; split; reflexivity].
  - simpl. split; [reflexivity|]. split; [lia | now left].
  - exfalso. lia.
Qed.

Lemma c11_no_packets_step : forall U ops o c r, get (reach U ops) c = Some r -> 4 <= c_phase r ->
  exists r', get (step U (reach U ops) o) c = Some r' /\ quiet_rel r r'.
Proof.
  intros U ops o c r Hg Hp. assert (Hi := reach_inv U ops).
  destruct (step_trans U _ o c r Hi Hg) as (r' & G & _ & T). exists r'. split; [exact G|].
  assert (Hc := io_cons _ _ Hi c r (fun H => H) Hg). cinv_destruct Hc.
  eapply trans_quiet; [lia | | exact T].
  intros H5. specialize (A9 H5). apply proto_empty_core_spec in A9. tauto.
Qed.

Lemma c11_no_packets_after_stop : forall U ops ops' c r, get (reach U ops) c = Some r -> 4 <= c_phase r ->
  exists r', get (reach U (ops ++ ops')) c = Some r' /\ quiet_rel r r'.
Proof.
  intros U ops ops'. revert ops. induction ops' as [|o ops' IH]; intros ops c r Hg Hp.
  - rewrite app_nil_r. exists r. split; [exact Hg|]. unfold quiet_rel.
    assert (Hc := io_cons _ _ (reach_inv U ops) c r (fun H => H) Hg). cinv_destruct Hc.
    repeat split; try lia.
  - replace (ops ++ o :: ops') with ((ops ++ [o]) ++ ops') by (rewrite <- app_assoc; reflexivity).
    destruct (c11_no_packets_step U ops o c r Hg Hp) as (r1 & G1 & S1 & P1 & Q1).
    rewrite <- reach_snoc in G1.
    destruct (IH (ops ++ [o]) c r1 G1 ltac:(lia)) as (r2 & G2 & S2 & P2 & Q2).
    exists r2. split; [exact G2|]. unfold quiet_rel. split; [congruence|]. split; [lia|].
    destruct Q1 as [Q1|[Q1a Q1b]].
    + destruct Q2 as [Q2|Q2]; [left; congruence | right; exact Q2].
    + right. split; [lia|]. destruct Q2 as [Q2|[_ Q2]]; congruence.
Qed.

(* ------------------------------------------------------------------ retained until removal *)

(* everything of the protocol state except the removal time *)
Definition retained (r r' : consumer) : Prop :=
  c_desc r' = c_desc r /\ c_sent r' = c_sent r /\
  p_client (c_proto r') = p_client (c_proto r) /\ p_genesis (c_proto r') = p_genesis (c_proto r) /\
  p_evmin (c_proto r') = p_evmin (c_proto r) /\ p_channel (c_proto r') = p_channel (c_proto r) /\
  p_valset (c_proto r') = p_valset (c_proto r) /\ p_pending (c_proto r') = p_pending (c_proto r) /\
  p_optin (c_proto r') = p_optin (c_proto r) /\ p_extra (c_proto r') = p_extra (c_proto r).

Lemma retained_refl : forall r, retained r r.
Proof. intros r. unfold retained. repeat split. Qed.

Lemma retained_trans : forall a b c, retained a b -> retained b c -> retained a c.
Proof. unfold retained. intros a b c H1 H2. intuition congruence. Qed.

Lemma c11_retained_step : forall U ops o c r r', get (reach U ops) c = Some r -> c_phase r = 4 ->
  get (step U (reach U ops) o) c = Some r' -> c_phase r' = 4 -> targets o c = false -> retained r r'.
Proof.
  intros U ops o c r r' Hg Hp Hg' Hp' Ht. assert (Hi := reach_inv U ops).
  destruct (step_trans U _ o c r Hi Hg) as (r1 & G & _ & T). rewrite Hg' in G. inversion G; subst r1.
  assert (Hid := get_id _ _ _ Hg).
  destruct T as [-> | _ _ _ Q | _ P _ _ _ _ | [tag E] _ | E _ _ | now ora _ P _ | now ora _ P -> | _ P -> | _ P _]; try lia.
  - apply retained_refl.
  - subst o. simpl in Ht. rewrite Hid, Z.eqb_refl in Ht. discriminate.
  - subst o. simpl in Ht. rewrite Hid, Z.eqb_refl in Ht. discriminate.
  - simpl in Hp'. discriminate.
  - unfold retained. simpl. repeat split.
Qed.

Lemma c11_retained_until_removal : forall U ops ops' c r r', get (reach U ops) c = Some r -> c_phase r = 4 ->
  get (reach U (ops ++ ops')) c = Some r' -> c_phase r' = 4 ->
  Forall (fun o => targets o c = false) ops' -> retained r r'.
Proof.
  intros U ops ops'. revert ops. induction ops' as [|o ops' IH]; intros ops c r r' Hg Hp Hg' Hp' Hall.
  - rewrite app_nil_r in Hg'. rewrite Hg in Hg'. inversion Hg'. apply retained_refl.
  - inversion Hall as [|? ? Ho Hall']; subst.
    replace (ops ++ o :: ops') with ((ops ++ [o]) ++ ops') in Hg' by (rewrite <- app_assoc; reflexivity).
    destruct (c11_no_packets_step U ops o c r Hg ltac:(lia)) as (r1 & G1 & _ & P1 & _).
    assert (G1' : get (reach U (ops ++ [o])) c = Some r1) by (rewrite reach_snoc; exact G1).
    (* the phase in between is 4: it cannot decrease afterwards *)
    assert (Hmid : c_phase r1 = 4).
    { assert (Hm := c10_no_return U (ops ++ [o]) ops' c).
      rewrite (phase_of_get _ _ _ G1'), (phase_of_get _ _ _ Hg') in Hm. lia. }
    eapply retained_trans.
    + eapply c11_retained_step; eassumption.
    + eapply IH; eassumption.
Qed.

(* ------------------------------------------------------------------ not before the unbonding period has elapsed *)

Lemma monotone_app : forall a b now, monotone now (a ++ b) -> monotone now a /\ monotone (clock now a) b.
Proof.
  induction a as [|o a IH]; intros b now H; simpl in *; [split; [exact I | exact H]|].
  destruct o; try (apply IH; exact H).
  destruct H as [H1 H2]. destruct (IH b now0 H2) as [H3 H4]. repeat split; assumption.
Qed.

Lemma clock_fold : forall U ops s, inv s -> s_now (fold_left (step U) ops s) = clock (s_now s) ops.
Proof.
  intros U. induction ops as [|o ops IH]; intros s Hi; [reflexivity|].
  simpl fold_left. rewrite IH by (apply inv_step; exact Hi). rewrite (step_now U s o Hi).
  destruct o; reflexivity.
Qed.

Lemma clock_mono : forall ops now, monotone now ops -> now <= clock now ops.
Proof.
  induction ops as [|o ops IH]; intros now H; simpl in *; [lia|].
  destruct o; try (apply IH; exact H). destruct H as [H1 H2]. specialize (IH _ H2). lia.
Qed.

Lemma due_in : forall q T c, tq_sorted q -> In c (due q T) -> exists ts, ts <= T /\ In c (tq_get q ts).
Proof.
  induction q as [|[t ids] r IH]; intros T c Hs H; [destruct H|].
  destruct Hs as [_ [Hlt Hs]].
  assert (Hkey : forall ts, In c (tq_get r ts) -> t =? ts = false).
  { intros ts Hin. apply Z.eqb_neq. intros ->.
    rewrite tq_get_nokey in Hin; [destruct Hin|]. intros e He. specialize (Hlt e He). lia. }
  rewrite due_cons in H. destruct (t <=? T) eqn:E.
  - apply in_app_or in H. destruct H as [H|H].
    + exists t. split; [apply Z.leb_le; exact E|]. simpl. rewrite Z.eqb_refl. exact H.
    + destruct (IH T c Hs H) as (ts & H1 & H2). exists ts. split; [exact H1|]. simpl. rewrite (Hkey ts H2). exact H2.
  - destruct (IH T c Hs H) as (ts & H1 & H2). exists ts. split; [exact H1|]. simpl. rewrite (Hkey ts H2). exact H2.
Qed.

(* all removal-queue entries of c are at least t + U *)
Definition rq_after (t U c : Z) (s : state) : Prop :=
  forall ts, In c (tq_get (s_remq s) ts) -> t + U <= ts.

Lemma rq_after_fold : forall U t c ops s, inv s -> t <= s_now s -> monotone (s_now s) ops -> rq_after t U c s ->
  rq_after t U c (fold_left (step U) ops s) /\ t <= s_now (fold_left (step U) ops s).
Proof.
  intros U t c. induction ops as [|o ops IH]; intros s Hi Ht Hm Hr; [split; assumption|].
  simpl fold_left. apply IH.
  - apply inv_step. exact Hi.
  - rewrite (step_now U s o Hi). destruct o; try exact Ht. simpl in Hm. lia.
  - rewrite (step_now U s o Hi). destruct o; try exact Hm. simpl in Hm. tauto.
  - intros ts Hin. destruct (step_remq U s o ts c Hi Hin) as [H|H]; [apply Hr; exact H | lia].
Qed.

Lemma c11_not_before : forall U pre o mid last c, 0 <= U ->
  monotone 0 (pre ++ o :: mid ++ [last]) ->
  let s0 := reach U pre in let s1 := step U s0 o in
  let s2 := fold_left (step U) mid s1 in let s3 := step U s2 last in
  phase_of s0 c = 3 -> phase_of s1 c = 4 -> phase_of s2 c = 4 -> phase_of s3 c = 5 ->
  exists T ora, last = OBegin T ora /\ s_now s1 + U <= T.
Proof.
  intros U pre o mid last c HU Hm s0 s1 s2 s3 P0 P1 P2 P3.
  assert (Hi0 : inv s0) by apply reach_inv.
  assert (Hi1 : inv s1) by (apply inv_step; exact Hi0).
  assert (Hi2 : inv s2) by (apply inv_fold_steps; exact Hi1).
  (* clocks *)
  assert (Hn0 : s_now s0 = clock 0 pre).
  { unfold s0, reach. rewrite (clock_fold U pre init_state inv_init). reflexivity. }
  destruct (monotone_app pre (o :: mid ++ [last]) 0 Hm) as [_ Hm1]. rewrite <- Hn0 in Hm1.
  (* o is not a begin-block: it takes c from launched to stopped *)
  destruct (get s0 c) as [r0|] eqn:G0; [|unfold phase_of in P0; rewrite G0 in P0; discriminate].
  rewrite (phase_of_get _ _ _ G0) in P0.
  destruct (step_trans U s0 o c r0 Hi0 G0) as (r1 & G1 & _ & T1). fold s1 in G1.
  rewrite (phase_of_get _ _ _ G1) in P1.
  assert (Hnob : s_now s1 = s_now s0 /\ monotone (s_now s1) (mid ++ [last])).
  { unfold s1. rewrite (step_now U s0 o Hi0).
    destruct o; try (split; [reflexivity | exact Hm1]).
    exfalso. destruct T1 as [-> | [sd [nc [no [ini E]]]] _ _ _ | [v [k E]] _ _ _ _ _ | [tag E] _ | E _ _ | now' ora' E P _
                           | now' ora' E P _ | [[sd E]|[E|E]] _ _ | [e [ord [ora' E]]] _ _]; try discriminate; lia. }
  destruct Hnob as [Hn1 Hm2].
  (* at s1 every removal-queue entry of c is at s_now s1 + U *)
  assert (Hr1 : rq_after (s_now s1) U c s1).
  { intros ts Hin. destruct (step_remq U s0 o ts c Hi0 Hin) as [H|H]; [|lia].
    exfalso. assert (Hall : In c (all_ids (s_remq s0))) by (eapply tq_get_in_all; exact H).
    destruct (io_rq_sound _ _ Hi0 c (fun H => H) Hall) as (r' & G' & P'). rewrite G0 in G'. inversion G'; subst r'. lia. }
  destruct (monotone_app mid [last] (s_now s1) Hm2) as [Hm3 _].
  destruct (rq_after_fold U (s_now s1) c mid s1 Hi1 ltac:(lia) Hm3 Hr1) as [Hr2 _]. fold s2 in Hr2.
  (* the deleting step *)
  destruct (get s2 c) as [r2|] eqn:G2; [|unfold phase_of in P2; rewrite G2 in P2; discriminate].
  rewrite (phase_of_get _ _ _ G2) in P2.
  destruct (step_trans U s2 last c r2 Hi2 G2) as (r3 & G3 & _ & T3). fold s3 in G3.
  rewrite (phase_of_get _ _ _ G3) in P3.
  destruct T3 as [-> | _ _ _ Q | _ _ P _ _ _ | _ [l ->] | _ _ -> | now' ora' E P _
                 | now' ora' E P _ | _ _ -> | _ P _]; try (simpl in P3; lia).
  exists now', ora'. split; [exact E|].
  (* c was among the removal-due ids *)
  subst last. unfold s3, step in G3. simpl exec in G3. rewrite (begin_get s2 now' ora' c r2 Hi2 G2) in G3.
  destruct (mem c (attempted s2 now')) eqn:Ea.
  { apply mem_in in Ea. destruct (attempted_facts s2 now' c Hi2 Ea) as (r' & G' & P' & _). rewrite G2 in G'. inversion G'; subst r'. lia. }
  destruct (mem c (removal_due s2 now')) eqn:Er.
  - apply mem_in in Er. unfold removal_due in Er. apply in_firstn in Er.
    destruct (due_in _ _ _ (io_rq_sorted _ _ Hi2) Er) as (ts & Hle & Hin).
    specialize (Hr2 ts Hin). lia.
  - simpl in G3. inversion G3; subst r3. lia.
Qed.

(* ------------------------------------------------------------------ deleted state *)

Lemma c11_deleted_state : forall U ops c r, get (reach U ops) c = Some r -> c_phase r = 5 ->
  p_client (c_proto r) = false /\ p_genesis (c_proto r) = false /\ p_evmin (c_proto r) = false /\
  p_channel (c_proto r) = false /\ p_valset (c_proto r) = 0 /\ p_pending (c_proto r) = 0 /\
  p_removal (c_proto r) = 0 /\ p_optin (c_proto r) = [].
Proof.
  intros U ops c r Hg Hp. assert (Hc := io_cons _ _ (reach_inv U ops) c r (fun H => H) Hg). cinv_destruct Hc.
  apply proto_empty_core_spec. apply A9. exact Hp.
Qed.

Lemma c11_deletion_step : forall U ops o c r r', get (reach U ops) c = Some r -> c_phase r = 4 ->
  get (step U (reach U ops) o) c = Some r' -> c_phase r' = 5 ->
  c_proto r' = empty_proto /\ c_desc r' = c_desc r /\ c_sent r' = c_sent r /\ c_id r' = c_id r /\
  exists T ora, o = OBegin T ora.
Proof.
  intros U ops o c r r' Hg Hp Hg' Hp'. assert (Hi := reach_inv U ops).
  destruct (step_trans U _ o c r Hi Hg) as (r1 & G & _ & T). rewrite Hg' in G. inversion G; subst r1.
  destruct T as [-> | _ _ _ Q | _ P _ _ _ _ | _ [l ->] | _ _ -> | now ora _ P _ | now ora E P -> | _ P -> | _ P _];
    try (simpl in Hp'; lia).
  simpl. repeat split. eauto.
Qed.

(* ------------------------------------------------------------------ removal schedule *)

Lemma c11_many : forall U ops now ora,
  let s := reach U ops in let s' := step U s (OBegin now ora) in let ratt := removal_due s now in
  all_ids (s_remq s') = skipn (length ratt) (all_ids (s_remq s)) /\
  (forall c r, In c ratt -> get s c = Some r -> c_phase r = 4 -> get s' c = Some (delete_consumer r)) /\
  (forall c r, ~ In c ratt -> get s c = Some r -> c_phase r = 4 -> get s' c = Some r).
Proof.
  intros U ops now ora s s' ratt. assert (Hi := reach_inv U ops). fold s in Hi.
  assert (Hs := io_rq_sorted _ _ Hi).
  split; [|split].
  - unfold s', step. simpl exec. rewrite (proj2 (begin_spawnq s now ora Hi)). apply consume_rest. exact Hs.
  - intros c r Hc Hg Hp. unfold s', step. simpl exec. rewrite (begin_get s now ora c r Hi Hg).
    destruct (mem c (attempted s now)) eqn:Ea.
    { apply mem_in in Ea. destruct (attempted_facts s now c Hi Ea) as (r' & G' & P' & _). rewrite Hg in G'. inversion G'; subst r'. lia. }
    assert (mem c (removal_due s now) = true) as -> by (apply mem_in; exact Hc).
    assert (c_phase r =? 4 = true) as -> by (apply Z.eqb_eq; exact Hp). reflexivity.
  - intros c r Hc Hg Hp. unfold s', step. simpl exec. rewrite (begin_get s now ora c r Hi Hg).
    destruct (mem c (attempted s now)) eqn:Ea.
    { apply mem_in in Ea. destruct (attempted_facts s now c Hi Ea) as (r' & G' & P' & _). rewrite Hg in G'. inversion G'; subst r'. lia. }
    assert (mem c (removal_due s now) = false) as ->.
    { destruct (mem c (removal_due s now)) eqn:E; [|reflexivity]. apply mem_in in E. contradiction. }
    reflexivity.
Qed.

Lemma c11_carry_over : forall U ops T bl, Forall (fun b => T <= fst b) bl ->
  let s := reach U ops in let s' := fold_left (step U) (begins bl) s in
  length (due (s_remq s') T) = (length (due (s_remq s) T) - limit * length bl)%nat.
Proof.
  intros U ops T bl Hall s s'. apply (begins_inv_due U s_remq).
  - intros s0 now ora Hi0. unfold step. simpl exec. exact (proj2 (begin_spawnq s0 now ora Hi0)).
  - intros s0 Hi0. exact (io_rq_sorted _ _ Hi0).
  - apply reach_inv.
  - exact Hall.
Qed.

(* a stopped consumer whose removal time has come is deleted by the begin-block (unless more than 200 are due) *)
Lemma c11_removed_when_due : forall U ops now ora c r,
  let s := reach U ops in
  get s c = Some r -> c_phase r = 4 -> p_removal (c_proto r) <= now ->
  (length (due (s_remq s) now) <= limit)%nat ->
  get (step U s (OBegin now ora)) c = Some (delete_consumer r).
Proof.
  intros U ops now ora c r s Hg Hp Hle Hlen. assert (Hi := reach_inv U ops). fold s in Hi.
  destruct (c11_many U ops now ora) as (_ & H & _). apply H; [|exact Hg | exact Hp].
  unfold removal_due. rewrite firstn_all2 by exact Hlen.
  assert (Hc := io_cons _ _ Hi c r (fun H => H) Hg). cinv_destruct Hc.
  specialize (A8 Hp). rewrite (get_id _ _ _ Hg) in A8.
  fold s. clear -A8 Hle Hi. assert (Hs := io_rq_sorted _ _ Hi).
  revert A8 Hs. generalize (s_remq s). induction t as [|[t ids] q IH]; intros Hin Hs; [destruct Hin|].
  destruct Hs as [_ [Hlt Hs]]. rewrite due_cons. simpl in Hin.
  destruct (t =? p_removal (c_proto r)) eqn:E.
  - apply Z.eqb_eq in E. assert (t <=? now = true) as -> by (apply Z.leb_le; lia). apply in_or_app. now left.
  - assert (Hq : In c (due q now)) by (apply IH; assumption).
    destruct (t <=? now); [apply in_or_app; now right | exact Hq].
Qed.

(* every stopped consumer is scheduled for removal at its removal time *)
Lemma c11_scheduled : forall U ops c r, get (reach U ops) c = Some r -> c_phase r = 4 ->
  In c (tq_get (s_remq (reach U ops)) (p_removal (c_proto r))).
Proof.
  intros U ops c r Hg Hp. assert (Hc := io_cons _ _ (reach_inv U ops) c r (fun H => H) Hg). cinv_destruct Hc.
  specialize (A8 Hp). rewrite (get_id _ _ _ Hg) in A8. exact A8.
Qed.
