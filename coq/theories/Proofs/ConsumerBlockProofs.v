(* Lemmas about Model/ConsumerBlock.v (C19, consumer half). *)
From Coq Require Import ZArith List Bool Lia.
From ICS Require Import Base.Dec Base.Tree Model.Throttle Model.ConsumerBlock Proofs.ThrottleProofs.
Import ListNotations.
Open Scope Z_scope.

(* ---------------------------------------------------------------- the FSM's send step inside EndBlock *)
Lemma csend_frame delay cs now sfail :
  let cs1 := cstep delay cs (CSend now sfail) in
  pend cs1 = pend cs /\ ccvals cs1 = ccvals cs /\ outst cs1 = outst cs /\ chan cs1 = chan cs /\ closed cs1 = closed cs.
Proof.
  unfold cstep, cstep_out. destruct (chan cs) eqn:Ec; cbn [negb fst]; [|repeat split; auto].
  destruct (send_loop delay now (closed cs) sfail (srec cs) (queue cs)) as [[sent q'] r']. cbn [fst pend ccvals outst chan closed].
  repeat split; auto.
Qed.

Lemma send_loop_fail0 delay now sf r q : send_loop delay now sf (Some O) r q = ([], q, r).
Proof.
  destruct q as [|p t]; cbn [send_loop]; [reflexivity|].
  destruct (permitted delay now r); cbn [negb]; [|reflexivity].
  rewrite orb_true_r. reflexivity.
Qed.

Lemma csend_fail0 delay cs now :
  cstep_out delay cs (CSend now (Some O)) = (cs, [], 0).
Proof.
  unfold cstep_out. destruct (chan cs) eqn:Ec; cbn [negb]; [|reflexivity].
  rewrite send_loop_fail0. destruct cs as [q0 r0 c0 cl0 o0 cc0 p0]; cbn in *. subst. reflexivity.
Qed.

Lemma csend_queue delay cs now sfail :
  exists pre, queue cs = pre ++ queue (cstep delay cs (CSend now sfail)) /\ nonslash pre /\
    (csent delay cs (CSend now sfail) = pre \/
     exists p t, queue (cstep delay cs (CSend now sfail)) = p :: t /\ is_slash p = true /\
                 csent delay cs (CSend now sfail) = pre ++ [p]).
Proof.
  unfold cstep, csent, cstep_out. destruct (chan cs); cbn [negb fst snd].
  2:{ exists []. repeat split; [constructor | left; reflexivity]. }
  destruct (send_loop delay now (closed cs) sfail (srec cs) (queue cs)) as [[sent q'] r'] eqn:E. cbn [fst snd queue].
  destruct (send_loop_struct _ _ _ _ _ _ _ _ _ E) as (pre & Hq & Hns & Hcase).
  exists pre. split; [assumption|]. split; [assumption|].
  destruct Hcase as [[-> _] | (p & t & -> & Hs & -> & _)]; [left; reflexivity | right; eauto].
Qed.

Lemma cstep_pend delay cs op :
  pend (cstep delay cs op) =
  match op with CRecvVSC _ ch => acc_changes (pend cs) ch | CApply => [] | _ => pend cs end.
Proof.
  unfold cstep, cstep_out.
  destruct op as [a idv dt | idv | now fail | kind res | acks changes | ].
  - destruct (dt && memz a (outst cs)); reflexivity.
  - reflexivity.
  - destruct (chan cs); cbn [negb fst]; [|reflexivity].
    destruct (send_loop delay now (closed cs) fail (srec cs) (queue cs)) as [[sent q'] r']. reflexivity.
  - destruct (res =? 4); [destruct (chan cs && negb (closed cs)); reflexivity|].
    destruct (res =? 6); [reflexivity|]. destruct (kind =? 2); [reflexivity|].
    destruct ((res =? 1) || (res =? 2)); [reflexivity|]. destruct (res =? 3); [|reflexivity].
    destruct (srec cs) as [[w t]|]; reflexivity.
  - reflexivity.
  - destruct (apply_changes (pend cs) (ccvals cs) (outst cs)). reflexivity.
Qed.

Lemma capply_spec delay cs :
  let cs' := cstep delay cs CApply in
  (ccvals cs', outst cs') = apply_changes (pend cs) (ccvals cs) (outst cs) /\ pend cs' = [] /\
  queue cs' = queue cs /\ srec cs' = srec cs.
Proof.
  unfold cstep, cstep_out. destruct (apply_changes (pend cs) (ccvals cs) (outst cs)) as [cc o]. cbn. auto.
Qed.

(* ---------------------------------------------------------------- well-formed keys *)
Lemma keys_wf_acc_one c : forall l, 0 <= fst c -> keys_wf l = true -> keys_wf (acc_one c l) = true.
Proof.
  unfold keys_wf. induction l as [|x t IH]; intros Hc Hl; cbn [acc_one forallb].
  - apply andb_true_iff. split; [now apply Z.leb_le | reflexivity].
  - cbn [forallb] in Hl. apply andb_true_iff in Hl. destruct Hl as [Hx Ht].
    destruct (fst x =? fst c); cbn [forallb]; apply andb_true_iff; split; auto. now apply Z.leb_le.
Qed.

Lemma keys_wf_acc : forall new cur, keys_wf new = true -> keys_wf cur = true -> keys_wf (acc_changes cur new) = true.
Proof.
  unfold acc_changes. induction new as [|c t IH]; intros cur Hn Hc; cbn [fold_left]; [assumption|].
  unfold keys_wf in Hn. cbn [forallb] in Hn. apply andb_true_iff in Hn. destruct Hn as [H1 H2].
  apply IH; [exact H2|]. apply keys_wf_acc_one; [now apply Z.leb_le | assumption].
Qed.

(* ---------------------------------------------------------------- EndBlock *)
Section End.
  Variables (g : cfg) (s : bstate) (now : Z) (sfail bfail tfail : option nat) (topen : bool).
  Let o := BEnd now sfail bfail tfail topen.
  Let cs1 := cstep (g_delay g) (b_cs s) (CSend now sfail).

  Lemma end_unfold :
    bstep_out g s o =
    if bank_panics bfail then (1, s, [])
    else if negb (keys_wf (pend (b_cs s))) then (1, s, [])
    else (0, mkB (cstep (g_delay g) cs1 CApply)
                 (send_rewards g (b_height s) topen tfail (distribute (g_frac g) (b_r s))) (b_height s) (b_h2v s),
          csent (g_delay g) (b_cs s) (CSend now sfail)).
  Proof.
    unfold o, bstep_out, end_block. destruct (bank_panics bfail); [reflexivity|].
    pose proof (csend_frame (g_delay g) (b_cs s) now sfail) as (Hp & _).
    unfold cs1, cstep, csent in *.
    destruct (cstep_out (g_delay g) (b_cs s) (CSend now sfail)) as [[c1 sent] rc]. cbn [fst snd] in *.
    rewrite Hp. destruct (keys_wf (pend (b_cs s))); reflexivity.
  Qed.

  Lemma end_result :
    bres g s o = if bank_panics bfail || negb (keys_wf (pend (b_cs s))) then 1 else 0.
  Proof.
    unfold bres. rewrite end_unfold. destruct (bank_panics bfail); [reflexivity|].
    destruct (keys_wf (pend (b_cs s))); reflexivity.
  Qed.

  Lemma end_total : bank_panics bfail = false -> keys_wf (pend (b_cs s)) = true -> bres g s o = 0.
  Proof. intros H1 H2. rewrite end_result, H1, H2. reflexivity. Qed.

  Lemma end_failed_commits_nothing : bres g s o <> 0 -> bstep g s o = s /\ bsent g s o = [].
  Proof.
    unfold bres, bstep, bsent. rewrite end_unfold. destruct (bank_panics bfail); [auto|].
    destruct (keys_wf (pend (b_cs s))); cbn [negb fst snd]; [congruence | auto].
  Qed.

  Lemma end_ok_state : bres g s o = 0 ->
    bstep g s o = mkB (cstep (g_delay g) cs1 CApply)
                      (send_rewards g (b_height s) topen tfail (distribute (g_frac g) (b_r s))) (b_height s) (b_h2v s)
    /\ bsent g s o = csent (g_delay g) (b_cs s) (CSend now sfail).
  Proof.
    unfold bres, bstep, bsent. rewrite end_unfold. destruct (bank_panics bfail); [discriminate|].
    destruct (keys_wf (pend (b_cs s))); cbn [negb fst snd]; [auto | discriminate].
  Qed.

  (* packets: exactly the FSM's send step; the validator changes do not touch the queue *)
  Lemma end_queue : bres g s o = 0 ->
    queue (b_cs (bstep g s o)) = queue cs1 /\ srec (b_cs (bstep g s o)) = srec cs1.
  Proof.
    intros H. destruct (end_ok_state H) as [E _]. rewrite E. cbn [b_cs].
    destruct (capply_spec (g_delay g) cs1) as (_ & _ & Hq & Hr). auto.
  Qed.

  Lemma end_valset : bres g s o = 0 ->
    (ccvals (b_cs (bstep g s o)), outst (b_cs (bstep g s o))) =
      apply_changes (pend (b_cs s)) (ccvals (b_cs s)) (outst (b_cs s)) /\
    pend (b_cs (bstep g s o)) = [].
  Proof.
    intros H. destruct (end_ok_state H) as [E _]. rewrite E. cbn [b_cs].
    destruct (capply_spec (g_delay g) cs1) as (Ha & Hp & _).
    destruct (csend_frame (g_delay g) (b_cs s) now sfail) as (H1 & H2 & H3 & _). fold cs1 in H1, H2, H3.
    rewrite Ha, H1, H2, H3. auto.
  Qed.

  Lemma end_rewards : bres g s o = 0 ->
    b_r (bstep g s o) = send_rewards g (b_height s) topen tfail (distribute (g_frac g) (b_r s)).
  Proof. intros H. destruct (end_ok_state H) as [E _]. rewrite E. reflexivity. Qed.
End End.

(* a send failing at the first call (or an expired client) leaves queue and record untouched, nothing is handed to IBC *)
Lemma end_send_fail0 g s now bfail tfail topen :
  bres g s (BEnd now (Some O) bfail tfail topen) = 0 ->
  queue (b_cs (bstep g s (BEnd now (Some O) bfail tfail topen))) = queue (b_cs s) /\
  srec (b_cs (bstep g s (BEnd now (Some O) bfail tfail topen))) = srec (b_cs s) /\
  bsent g s (BEnd now (Some O) bfail tfail topen) = [].
Proof.
  intros H. destruct (end_queue g s now (Some O) bfail tfail topen H) as [Hq Hr].
  destruct (end_ok_state g s now (Some O) bfail tfail topen H) as [_ Hs].
  rewrite Hq, Hr, Hs. unfold cstep, csent. rewrite csend_fail0. cbn. auto.
Qed.

Lemma end_send_general g s now sfail bfail tfail topen :
  bres g s (BEnd now sfail bfail tfail topen) = 0 ->
  let s' := bstep g s (BEnd now sfail bfail tfail topen) in
  let sent := bsent g s (BEnd now sfail bfail tfail topen) in
  exists pre, queue (b_cs s) = pre ++ queue (b_cs s') /\ nonslash pre /\
    (sent = pre \/ exists p t, queue (b_cs s') = p :: t /\ is_slash p = true /\ sent = pre ++ [p]).
Proof.
  intros H s' sent. destruct (end_queue g s now sfail bfail tfail topen H) as [Hq _].
  destruct (end_ok_state g s now sfail bfail tfail topen H) as [_ Hs].
  unfold s', sent. rewrite Hq, Hs. apply csend_queue.
Qed.

(* ---------------------------------------------------------------- rewards *)
(* whitelisted balances after a successful transmission *)
Fixpoint keep (white : list bool) (tosend : list Z) : list Z :=
  match white, tosend with
  | w :: wt, x :: xt => (if w then 0 else x) :: keep wt xt
  | _, _ => tosend
  end.

Lemma transfer_loop_some addr_ok : forall white tfail tosend escrow ts es,
  transfer_loop addr_ok tfail white tosend escrow = Some (ts, es) ->
  length escrow = length tosend -> (length tosend <= length white)%nat ->
  ts = keep white tosend /\ vadd ts es = vadd tosend escrow.
Proof.
  induction white as [|w wt IH]; intros tfail tosend escrow ts es H Hl Hw.
  - destruct tosend; [|cbn in Hw; lia]. destruct escrow; [|discriminate]. cbn in H. inversion H; subst. auto.
  - destruct tosend as [|x xt]; [destruct escrow; [|discriminate]; cbn in H; inversion H; subst; auto|].
    destruct escrow as [|e et]; [discriminate|]. cbn [length] in Hl, Hw.
    cbn [transfer_loop] in H.
    destruct (w && negb (x =? 0)) eqn:Ew.
    + destruct (negb addr_ok); [discriminate|].
      assert (Hrec : exists xs es', transfer_loop addr_ok (option_map Nat.pred tfail) wt xt et = Some (xs, es')
                       /\ ts = 0 :: xs /\ es = (e + x) :: es').
      { destruct tfail as [[|k]|]; try discriminate;
          destruct (transfer_loop addr_ok _ wt xt et) as [[xs es']|] eqn:E; try discriminate;
          inversion H; subst; eauto. }
      destruct Hrec as (xs & es' & E & -> & ->).
      destruct (IH _ _ _ _ _ E) as [H1 H2]; [lia | lia |].
      apply andb_true_iff in Ew. destruct Ew as [-> _]. cbn [keep]. split; [now rewrite H1|].
      unfold vadd in *. cbn [map2]. rewrite H2. f_equal. lia.
    + destruct (transfer_loop addr_ok tfail wt xt et) as [[xs es']|] eqn:E; [|discriminate].
      inversion H; subst. destruct (IH _ _ _ _ _ E) as [H1 H2]; [lia | lia |].
      cbn [keep]. split.
      * rewrite H1. f_equal. destruct w; [|reflexivity]. cbn [andb] in Ew. apply negb_false_iff, Z.eqb_eq in Ew. now subst.
      * unfold vadd in *. cbn [map2]. now rewrite H2.
Qed.

Lemma send_rewards_spec g height topen tfail r :
  let r' := send_rewards g height topen tfail r in
  r_fee r' = r_fee r /\ r_redist r' = r_redist r /\
  (if g_bpdt g <=? height - r_ltbh r then
     r_ltbh r' = height /\
     match (if topen then transfer_loop (g_addr_ok g) tfail (g_white g) (r_tosend r) (r_escrow r) else None) with
     | Some (ts, es) => r_tosend r' = ts /\ r_escrow r' = es
     | None => r_tosend r' = r_tosend r /\ r_escrow r' = r_escrow r
     end
   else r' = r).
Proof.
  unfold send_rewards. destruct (g_bpdt g <=? height - r_ltbh r); [|auto].
  destruct topen.
  - destruct (transfer_loop (g_addr_ok g) tfail (g_white g) (r_tosend r) (r_escrow r)) as [[ts es]|]; cbn; auto.
  - cbn. auto.
Qed.

(* a transfer that fails at the first call transfers nothing *)
Lemma transfer_loop_fail_first addr_ok : forall white tosend escrow,
  transfer_loop addr_ok (Some O) white tosend escrow = None \/
  transfer_loop addr_ok (Some O) white tosend escrow = Some (tosend, escrow).
Proof.
  induction white as [|w wt IH]; intros tosend escrow; [right; reflexivity|].
  destruct tosend as [|x xt]; [right; reflexivity|]. destruct escrow as [|e et]; [right; reflexivity|].
  cbn [transfer_loop]. destruct (w && negb (x =? 0)).
  - destruct (negb addr_ok); left; reflexivity.
  - destruct (IH xt et) as [E|E]; rewrite E; [left | right]; reflexivity.
Qed.

(* ---------------------------------------------------------------- BeginBlock *)
Lemma begin_total g s hf :
  bres g s (BBegin hf) = 0 /\
  let s' := bstep g s (BBegin hf) in
  b_height s' = b_height s + 1 /\
  h2v_get (b_h2v s') (b_height s' + 1) = h2v_get (b_h2v s) (b_height s') /\
  b_cs s' = b_cs s /\ b_r s' = b_r s.
Proof.
  unfold bres, bstep, bstep_out. cbn [fst snd b_height b_h2v b_cs b_r]. repeat split.
  unfold h2v_get. cbn [find fst snd]. rewrite Z.eqb_refl. reflexivity.
Qed.

(* ---------------------------------------------------------------- invariant: pending keys are well formed *)
Lemma keys_step g s o :
  op_keys_wf o = true -> keys_wf (pend (b_cs s)) = true -> keys_wf (pend (b_cs (bstep g s o))) = true.
Proof.
  intros Ho Hs. destruct o as [op | vscid acks changes | coins | hf | now sfail bfail tfail topen].
  - unfold bstep, bstep_out.
    pose proof (cstep_pend (g_delay g) (b_cs s) op) as Hp. unfold cstep in Hp.
    destruct (cstep_out (g_delay g) (b_cs s) op) as [[cs sent] rc]. cbn [fst snd b_cs] in *. rewrite Hp.
    destruct op; try assumption. cbn [op_keys_wf] in Ho. now apply keys_wf_acc.
  - unfold bstep, bstep_out. cbn [fst snd b_cs]. rewrite cstep_pend. cbn [op_keys_wf] in Ho. now apply keys_wf_acc.
  - exact Hs.
  - exact Hs.
  - destruct (Z.eq_dec (bres g s (BEnd now sfail bfail tfail topen)) 0) as [E|E].
    + destruct (end_valset g s now sfail bfail tfail topen E) as [_ Hp]. rewrite Hp. reflexivity.
    + destruct (end_failed_commits_nothing g s now sfail bfail tfail topen E) as [Hs' _]. rewrite Hs'. exact Hs.
Qed.

Lemma keys_run g : forall ops s,
  forallb op_keys_wf ops = true -> keys_wf (pend (b_cs s)) = true ->
  keys_wf (pend (b_cs (fold_left (bstep g) ops s))) = true.
Proof.
  induction ops as [|o t IH]; intros s Ho Hs; cbn [fold_left]; [assumption|].
  cbn [forallb] in Ho. apply andb_true_iff in Ho. destruct Ho as [H1 H2].
  apply IH; [assumption|]. now apply keys_step.
Qed.

Lemma endblock_total_run g n ch h0 ops now sfail bfail tfail topen :
  forallb op_keys_wf ops = true -> bank_panics bfail = false ->
  bres g (fold_left (bstep g) ops (binit n ch h0)) (BEnd now sfail bfail tfail topen) = 0.
Proof.
  intros Hk Hb. apply end_total; [assumption|]. apply keys_run; [assumption | reflexivity].
Qed.

Lemma beginblock_total_run g n ch h0 ops hf :
  bres g (fold_left (bstep g) ops (binit n ch h0)) (BBegin hf) = 0.
Proof. apply begin_total. Qed.
