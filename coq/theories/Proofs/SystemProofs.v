(* Lemmas about Model/System.v: the composition of Model/Eligibility.v (C02) with Model/Vsc.v (C01). *)
From Coq Require Import ZArith List Bool Lia Permutation Sorted.
From ICS Require Import Base.SortDesc Base.Tree Model.PowerCap Proofs.PowerCapProofs.
From ICS Require Model.Eligibility Model.Vsc.
From ICS Require Import Proofs.EligibilityProofs Proofs.VscMaps Proofs.VscProofs Model.System.
Import ListNotations.
Open Scope Z_scope.

(* ------------------------------------------------------------------ vocabulary *)

(* what the staking module guarantees about its bonded-by-power list: distinct validators, last powers >= 1 *)
Definition wf_oracle (oracle : list E.sval) : Prop :=
  NoDup (map E.s_id oracle) /\ Forall (fun v => 1 <= E.s_pow v) oracle.

(* the oracles that remain in the composed machine *)
Definition wf_sop (o : sop) : Prop :=
  match o with
  | SEpoch oracle _ _ _ r => wf_oracle oracle /\ wf_res r
  | SVsc (V.PEndBlock _ _ r) => wf_res r
  | _ => True
  end.

Definition src_wf (q : source) : Prop := wf_oracle (src_oracle q).
Definition dsrc : source := mkSrc [] 0 0 0 E.empty_consumer 0.
Definition src_map (q : source) : V.kmap := V.as_map (proj_set (src_next q)).

(* ------------------------------------------------------------------ positivity of computed sets *)

Lemma shape_pos prio tn sc pc el :
  Forall (fun v => 1 <= vpow v) el -> Forall (fun v => 1 <= vpow v) (shape prio tn sc pc el).
Proof.
  intros H. rewrite shape_compose.
  set (ranked := fst (partition_priority prio el) ++ snd (partition_priority prio el)).
  assert (Hr : Forall (fun v => 1 <= vpow v) ranked).
  { rewrite Forall_forall in *. intros x Hx. apply H.
    apply (Permutation_in _ (ranked_perm prio el)). exact Hx. }
  assert (Hc : Forall (fun v => 1 <= vpow v) (cap_validator_set tn sc ranked)).
  { destruct (cap_prefix tn sc ranked) as [[k Hk] _]. rewrite Hk.
    rewrite Forall_forall in *. intros x Hx. apply Hr. now apply firstn_In in Hx. }
  unfold cap_validators_power. destruct (Z.ltb_spec 0 pc) as [Hpc|_]; [|exact Hc].
  apply pc_positive; [exact Hc|lia].
Qed.

Lemma cnv_pos M height c mp slice :
  Forall (fun v => 1 <= E.s_pow v) slice ->
  Forall (fun x => 1 <= E.c_pow x) (fst (E.compute_next_validators M height c mp slice)).
Proof.
  intros Hs. rewrite cnv_unfold. cbv zeta.
  set (filtered := E.filter_validators height c mp (cand_of M c slice)).
  assert (Hf : Forall (fun v => 1 <= vpow v) (map E.to_val filtered)).
  { rewrite Forall_forall in *. intros v Hv. apply in_map_iff in Hv. destruct Hv as [y [<- Hy]].
    apply filtered_in in Hy. destruct Hy as [sv [Hsv [_ ->]]].
    apply cand_in in Hsv. cbn. now apply Hs. }
  pose proof (shape_pos (E.priol (E.cfg c)) (E.top_n (E.cfg c)) (E.set_cap (E.cfg c)) (E.power_cap (E.cfg c)) _ Hf) as Hsh.
  rewrite Forall_forall in *. intros x Hx.
  apply reattach_in in Hx. destruct Hx as [v' [y [Hv' [_ ->]]]]. cbn. now apply Hsh.
Qed.

Lemma next_set_pos oracle maxv M height c mp :
  Forall (fun v => 1 <= E.s_pow v) oracle ->
  Forall (fun x => 1 <= E.c_pow x) (next_set oracle maxv M height c mp).
Proof.
  intros Ho. rewrite next_set_eq. apply cnv_pos.
  rewrite Forall_forall in *. intros v Hv. apply Ho. eapply slice_in_oracle. exact Hv.
Qed.

Lemma src_next_is_next_set q :
  src_next q = next_set (src_oracle q) (src_maxv q) (src_M q) (src_height q) (src_cons q) (src_mp q).
Proof. reflexivity. Qed.

Lemma proj_pos l : Forall (fun x => 1 <= E.c_pow x) l -> pos_set (proj_set l).
Proof.
  intros H. unfold pos_set, proj_set. rewrite Forall_forall in *. intros u Hu.
  apply in_map_iff in Hu. destruct Hu as [x [<- Hx]]. cbn. now apply H.
Qed.

(* ---- C01_system_positive ---- *)
Theorem src_pos q : Forall (fun v => 1 <= E.s_pow v) (src_oracle q) -> pos_set (proj_set (src_next q)).
Proof. intros H. apply proj_pos. rewrite src_next_is_next_set. now apply next_set_pos. Qed.

(* ------------------------------------------------------------------ the Vsc component of a composed run *)

Lemma run_ops_app s a b : V.run_ops s (a ++ b) = V.run_ops (V.run_ops s a) b.
Proof. unfold V.run_ops. apply fold_left_app. Qed.

Lemma vsc_step s o : vsc (sys_step s o) = V.run_ops (vsc s) (to_vop s o).
Proof.
  destruct o as [oracle maxv M mp r|vo|eo]; unfold sys_step.
  - destruct (V.p_launched (vsc s)); reflexivity.
  - destruct vo; reflexivity.
  - reflexivity.
Qed.

(* ---- C01_system_refines ---- *)
Theorem vsc_run ops : forall s, vsc (run_sys s ops) = V.run_ops (vsc s) (vtrace s ops).
Proof.
  induction ops as [|o t IH]; intros s; [reflexivity|].
  cbn [run_sys fold_left vtrace]. change (fold_left sys_step t (sys_step s o)) with (run_sys (sys_step s o) t).
  rewrite IH, run_ops_app, vsc_step. reflexivity.
Qed.

Lemma to_vop_wf s o : wf_sop o -> Forall wf_op (to_vop s o).
Proof.
  destruct o as [oracle maxv M mp r|vo|eo]; cbn [to_vop wf_sop].
  - intros [[_ Hp] Hr]. destruct (V.p_launched (vsc s)); (apply Forall_cons; [|apply Forall_nil]).
    + split; [|exact Hr]. apply src_pos. exact Hp.
    + split; [apply Forall_nil|exact Hr].
  - destruct vo; intros H; (apply Forall_cons; [|apply Forall_nil]); try exact I.
    split; [apply Forall_nil|exact H].
  - intros _. apply Forall_nil.
Qed.

Theorem vtrace_wf ops : forall s, Forall wf_sop ops -> Forall wf_op (vtrace s ops).
Proof.
  induction ops as [|o t IH]; intros s H; [constructor|].
  inversion H; subst. cbn [vtrace]. apply Forall_app. split; [now apply to_vop_wf|now apply IH].
Qed.

(* ------------------------------------------------------------------ the ghost sources follow g_hist *)

Lemma hist_not_launched v e next r :
  V.p_launched v = false -> V.g_hist (V.step v (V.PEndBlock e next r)) = V.g_hist v.
Proof.
  intros Hl. cbn [V.step]. unfold V.p_end_block. cbn. destruct e; [|reflexivity].
  rewrite hist_send. unfold V.queue. cbn. rewrite Hl. reflexivity.
Qed.

Lemma stored_send r v : V.p_stored (V.send r v) = V.p_stored v.
Proof.
  unfold V.send. destruct (V.p_launched v && V.p_chan v); [|reflexivity].
  destruct (V.send_loop r 0 (V.p_pending v)). reflexivity.
Qed.

Lemma stored_queue next v : V.p_stored (V.queue next v) = if V.p_launched v then next else V.p_stored v.
Proof. unfold V.queue. destruct (V.p_launched v); [destruct (V.diff _ _)|]; reflexivity. Qed.
Lemma stored_next_pheight v : V.p_stored (V.next_pheight v) = V.p_stored v.
Proof. reflexivity. Qed.
Lemma stored_cis v : V.p_stored (V.cis v) = V.p_stored v.
Proof. reflexivity. Qed.
Lemma launched_cis v : V.p_launched (V.cis v) = V.p_launched v.
Proof. reflexivity. Qed.

Lemma stored_step v o :
  V.p_stored (V.step v o) =
  match o with
  | V.PEndBlock true next _ => if V.p_launched v then next else V.p_stored v
  | _ => V.p_stored v
  end.
Proof.
  destruct o as [e next r| | | | | | h | id]; cbn [V.step]; try reflexivity.
  - unfold V.p_end_block. cbv zeta. rewrite stored_next_pheight. destruct e; [|apply stored_cis].
    rewrite stored_send, stored_queue, launched_cis, stored_cis. reflexivity.
  - unfold V.chan_open. destruct (V.p_chan v); reflexivity.
  - unfold V.deliver. destruct (V.c_inblock v); cbn; [|reflexivity].
    destruct (V.inflight v); [reflexivity|]. destruct (V.pid p =? 0); reflexivity.
  - unfold V.c_begin_block. destruct (V.c_inblock v); reflexivity.
  - unfold V.c_end_block. destruct (V.c_inblock v); cbn; [|reflexivity].
    destruct (match V.c_pending v with Some ch0 => V.apply_cc ch0 (V.c_ccvals v) | None => (V.c_ccvals v, []) end). reflexivity.
Qed.

Lemma valset_elig_step c eo : E.valset (elig_step c eo) = E.valset c.
Proof. destruct eo; reflexivity. Qed.

Lemma src_after_valset q : E.valset (src_after q) = src_next q.
Proof.
  unfold src_after, src_next, src_result. rewrite ccnv_consumer. reflexivity.
Qed.

Lemma valset_set_launched c b : E.valset (set_launched c b) = E.valset c.
Proof. reflexivity. Qed.

Record inv (s : sys) : Prop := mk_inv {
  j_hist : map src_map (srcs s) = V.g_hist (vsc s);
  j_wf : Forall src_wf (srcs s);
  j_stored : V.p_stored (vsc s) = proj_set (E.valset (elig s))
}.

Lemma inv_launch ph vid m0 ch oracle maxv M mp c0 :
  wf_oracle oracle -> inv (sys_launch ph vid m0 ch oracle maxv M mp c0).
Proof.
  intros Hw. unfold sys_launch. cbv zeta.
  set (q := mkSrc oracle maxv M ph c0 mp).
  constructor; cbn [srcs vsc elig].
  - unfold V.init_state. destruct (V.apply_cc (V.diff [] (proj_set (src_next q))) []). reflexivity.
  - constructor; [exact Hw|constructor].
  - unfold V.init_state. destruct (V.apply_cc (V.diff [] (proj_set (src_next q))) []). cbn [V.p_stored].
    now rewrite valset_set_launched, src_after_valset.
Qed.

Lemma inv_step s o : wf_sop o -> inv s -> inv (sys_step s o).
Proof.
  intros Hw [Hh Hwf Hst].
  destruct o as [oracle maxv M mp r|vo|eo].
  - (* epoch block *)
    unfold sys_step. cbn [to_vop].
    destruct (V.p_launched (vsc s)) eqn:Hl.
    + set (q := mkSrc oracle maxv M (V.p_height (vsc s)) (elig s) mp).
      cbn [V.run_ops fold_left].
      constructor; cbn [srcs vsc elig].
      * destruct (hist_step (vsc s) (V.PEndBlock true (proj_set (src_next q)) r)) as [E0|[next [r' [Eo E0]]]].
        -- rewrite E0, Nat.eqb_refl. exact Hh.
        -- inversion Eo; subst next r'. rewrite E0, app_length.
           destruct (Nat.eqb_spec (length (V.g_hist (vsc s)) + length [V.as_map (proj_set (src_next q))]) (length (V.g_hist (vsc s)))) as [He|_];
             [cbn in He; lia|].
           rewrite map_app, Hh. reflexivity.
      * destruct (Nat.eqb _ _); [exact Hwf|]. apply Forall_app. split; [exact Hwf|].
        constructor; [|constructor]. destruct Hw as [Ho _]. exact Ho.
      * rewrite stored_step, Hl. now rewrite valset_set_launched, src_after_valset.
    + cbn [V.run_ops fold_left]. constructor; cbn [srcs vsc elig].
      * rewrite hist_not_launched by exact Hl. exact Hh.
      * exact Hwf.
      * rewrite stored_step, Hl. exact Hst.
  - (* the other Vsc ops *)
    assert (Hg : forall vo', to_vop s (SVsc vo) = [vo'] ->
                 (forall nx r', vo' <> V.PEndBlock true nx r') ->
                 V.g_hist (V.step (vsc s) vo') = V.g_hist (vsc s) /\ V.p_stored (V.step (vsc s) vo') = V.p_stored (vsc s)).
    { intros vo' _ Hne. split.
      - destruct (hist_step (vsc s) vo') as [E0|[next [r' [Eo _]]]]; [exact E0|]. exfalso. now apply (Hne next r').
      - rewrite stored_step. destruct vo' as [e nx r'| | | | | | |]; try reflexivity.
        destruct e; [exfalso; now apply (Hne nx r')|reflexivity]. }
    destruct vo as [e next r| | | | | | h | id]; unfold sys_step; cbn [to_vop V.run_ops fold_left];
      (edestruct Hg as [G1 G2]; [reflexivity|intros nx r' Hc; discriminate Hc|]);
      constructor; cbn [srcs vsc elig]; try (rewrite G1; exact Hh); try exact Hwf; try (rewrite G2, ?valset_set_launched; exact Hst).
  - (* eligibility ops *)
    unfold sys_step. cbn [to_vop V.run_ops fold_left]. constructor; cbn [srcs vsc elig]; try assumption.
    now rewrite valset_elig_step.
Qed.

Lemma inv_run ops : forall s, Forall wf_sop ops -> inv s -> inv (run_sys s ops).
Proof.
  induction ops as [|o t IH]; intros s Hw Hi; [exact Hi|].
  inversion Hw; subst. cbn [run_sys fold_left]. apply IH; [assumption|now apply inv_step].
Qed.

Lemma dsrc_map : src_map dsrc = [].
Proof. vm_compute. reflexivity. Qed.

Lemma hist_nth s k : inv s -> nth k (V.g_hist (vsc s)) [] = src_map (nth k (srcs s) dsrc).
Proof. intros [Hh _ _]. rewrite <- Hh. rewrite <- dsrc_map at 1. apply map_nth. Qed.

(* ---- C01_system_end_to_end ---- *)
Theorem end_to_end ph vid m0 ch oracle maxv M mp c0 ops :
  1 <= vid -> wf_oracle oracle -> Forall wf_sop ops ->
  let s := run_sys (sys_launch ph vid m0 ch oracle maxv M mp c0) ops in
  let v := vsc s in
  V.c_engine v = V.c_ccvals v /\
  (V.c_pending v = None ->
   V.c_ccvals v = V.as_map (proj_set (src_next (nth (V.g_recv v) (srcs s) dsrc)))) /\
  (V.c_inblock v = false -> V.c_pending v = None) /\
  V.c_pending (vsc (sys_step s (SVsc V.CEndBlock))) = None /\
  V.p_stored v = proj_set (E.valset (elig s)).
Proof.
  intros Hvid Hw Hops s v.
  pose proof (inv_run ops _ Hops (inv_launch ph vid m0 ch oracle maxv M mp c0 Hw)) as Hi. fold s in Hi.
  set (q0 := mkSrc oracle maxv M ph c0 mp).
  assert (Hv : v = V.run_ops (V.init_state ph vid m0 (proj_set (src_next q0)) ch)
                             (vtrace (sys_launch ph vid m0 ch oracle maxv M mp c0) ops)).
  { unfold v, s. rewrite vsc_run. reflexivity. }
  assert (Hpos : pos_set (proj_set (src_next q0))) by (apply src_pos; apply Hw).
  pose proof (replication ph vid m0 (proj_set (src_next q0)) ch _ Hvid Hpos
                (vtrace_wf ops (sys_launch ph vid m0 ch oracle maxv M mp c0) Hops)) as R.
  cbv zeta in R. rewrite <- Hv in R. destruct R as [R1 [R2 [R3 R4]]].
  split; [exact R1|split; [|split; [exact R3|split]]].
  - intros Hp. rewrite (R2 Hp). unfold v. rewrite (hist_nth s _ Hi). reflexivity.
  - rewrite vsc_step. cbn [to_vop V.run_ops fold_left]. exact R4.
  - apply Hi.
Qed.

(* ---- where the sources come from: the launch, or an epoch op of the history, with the provider height and
   the consumer record of the moment that op was executed ---- *)
Definition from_history (s0 : sys) (q0 : source) (done : list sop) (q : source) : Prop :=
  q = q0 \/
  exists pre oracle maxv M mp r rest,
    done = pre ++ SEpoch oracle maxv M mp r :: rest /\
    q = mkSrc oracle maxv M (V.p_height (vsc (run_sys s0 pre))) (elig (run_sys s0 pre)) mp.

Lemma from_history_more s0 q0 done o q : from_history s0 q0 done q -> from_history s0 q0 (done ++ [o]) q.
Proof.
  intros [H|[pre [oracle [maxv [M [mp [r [rest [Hd Hq]]]]]]]]]; [now left|right].
  exists pre, oracle, maxv, M, mp, r, (rest ++ [o]). split; [|exact Hq].
  rewrite Hd, <- app_assoc. reflexivity.
Qed.

Lemma run_sys_app s a b : run_sys s (a ++ b) = run_sys (run_sys s a) b.
Proof. unfold run_sys. apply fold_left_app. Qed.

Lemma srcs_step s o :
  srcs (sys_step s o) = srcs s \/
  exists oracle maxv M mp r, o = SEpoch oracle maxv M mp r /\
    srcs (sys_step s o) = srcs s ++ [mkSrc oracle maxv M (V.p_height (vsc s)) (elig s) mp].
Proof.
  destruct o as [oracle maxv M mp r|vo|eo]; unfold sys_step.
  - destruct (V.p_launched (vsc s)); [|now left]. cbn [srcs].
    destruct (Nat.eqb _ _); [now left|]. right. exists oracle, maxv, M, mp, r. split; reflexivity.
  - destruct vo; now left.
  - now left.
Qed.

Lemma sources_gen s0 q0 ops : forall pre,
  Forall (from_history s0 q0 pre) (srcs (run_sys s0 pre)) ->
  Forall (from_history s0 q0 (pre ++ ops)) (srcs (run_sys s0 (pre ++ ops))).
Proof.
  induction ops as [|o t IH]; intros pre H; [now rewrite app_nil_r|].
  replace (pre ++ o :: t) with ((pre ++ [o]) ++ t) by (rewrite <- app_assoc; reflexivity).
  apply IH. rewrite run_sys_app. cbn [run_sys fold_left].
  assert (Hold : Forall (from_history s0 q0 (pre ++ [o])) (srcs (run_sys s0 pre))).
  { eapply Forall_impl; [|exact H]. intros q. apply from_history_more. }
  destruct (srcs_step (run_sys s0 pre) o) as [E0|[oracle [maxv [M [mp [r [Eo E0]]]]]]]; rewrite E0; [exact Hold|].
  apply Forall_app. split; [exact Hold|]. constructor; [|constructor].
  right. exists pre, oracle, maxv, M, mp, r, []. split; [now rewrite Eo|reflexivity].
Qed.

Theorem sources ph vid m0 ch oracle maxv M mp c0 ops :
  let s0 := sys_launch ph vid m0 ch oracle maxv M mp c0 in
  Forall (from_history s0 (mkSrc oracle maxv M ph c0 mp) ops) (srcs (run_sys s0 ops)).
Proof.
  intros s0. apply (sources_gen s0 _ ops []). cbn. constructor; [now left|constructor].
Qed.

(* ---- C01_system_members_eligible ---- *)
Theorem members_eligible ph vid m0 ch oracle maxv M mp c0 ops :
  1 <= vid -> wf_oracle oracle -> Forall wf_sop ops ->
  let s := run_sys (sys_launch ph vid m0 ch oracle maxv M mp c0) ops in
  let v := vsc s in
  let q := nth (V.g_recv v) (srcs s) dsrc in
  V.c_pending v = None ->
  forall k p, V.mget k (V.c_ccvals v) = Some p ->
  exists x sv,
    In x (src_next q) /\ E.c_key x = k /\ E.c_pow x = p /\
    In sv (src_oracle q) /\ E.s_id sv = E.c_id x /\
    opted_or_topn (src_cons q) (src_mp q) sv /\ lists_ok (src_cons q) sv /\ stake_ok (src_cons q) sv /\
    (E.allow_inactive (E.cfg (src_cons q)) = false -> In sv (firstn (Z.to_nat (src_M q)) (src_oracle q))) /\
    (E.power_cap (E.cfg (src_cons q)) = 0 -> p = E.s_pow sv) /\
    k = expected_key (src_cons q) sv.
Proof.
  intros Hvid Hw Hops s v q Hp k p Hk.
  destruct (end_to_end ph vid m0 ch oracle maxv M mp c0 ops Hvid Hw Hops) as [_ [E2 _]].
  fold s v in E2. specialize (E2 Hp). fold q in E2.
  pose proof (inv_run ops _ Hops (inv_launch ph vid m0 ch oracle maxv M mp c0 Hw)) as Hi. fold s in Hi.
  assert (Hq : src_wf q).
  { unfold q. destruct (Nat.lt_ge_cases (V.g_recv v) (length (srcs s))) as [Hlt|Hge].
    - pose proof (j_wf s Hi) as HF. rewrite Forall_forall in HF. apply HF. now apply nth_In.
    - rewrite nth_overflow by exact Hge. split; [constructor|constructor]. }
  rewrite E2, as_map_get in Hk. apply ulast_in in Hk.
  unfold proj_set in Hk. apply in_map_iff in Hk. destruct Hk as [x [Hx Hin]]. inversion Hx; subst k p.
  destruct Hq as [Hnd _].
  rewrite src_next_is_next_set in Hin.
  destruct (sound _ _ _ _ _ _ x Hnd Hin) as [sv [Hsv [Hid [Ho [Hl [Hs [Hpc [Hkey _]]]]]]]].
  exists x, sv. rewrite src_next_is_next_set.
  repeat split; try assumption; try (apply Hl).
  - intros Hai. destruct (active_only _ _ _ _ _ _ x Hai Hin) as [sv' [Hsv' Hid']].
    assert (sv' = sv).
    { apply (NoDup_map_inj E.s_id (src_oracle q)); try assumption; [now apply firstn_In in Hsv'|congruence]. }
    now subst sv'.
Qed.
