(* Lemmas about Model/Eligibility.v (property C02). *)
From Coq Require Import ZArith List Bool Lia Permutation Sorted.
From ICS Require Import Base.SortDesc Base.Tree Model.PowerCap Proofs.PowerCapProofs Model.Eligibility.
Import ListNotations.
Open Scope Z_scope.

(* ------------------------------------------------------------------ specification vocabulary *)

(* the set computed for consumer [c] from the oracle list, when it is the first (or only) consumer *)
Definition next_set (oracle : list sval) (maxv M height : Z) (c : consumer) (mp : Z) : list cval :=
  snd (fst (compute_consumer_next_valset M height c mp (mk_slices oracle maxv M))).
Definition next_set_prefix_bug (oracle : list sval) (maxv M height : Z) (c : consumer) (mp : Z) : list cval :=
  snd (fst (compute_consumer_next_valset_prefix_bug M height c mp (mk_slices oracle maxv M))).

(* the conditions of the property on a staking validator [v] for consumer [c] (state before the
   computation) and Top-N threshold [mp] *)
Definition opted_or_topn (c : consumer) (mp : Z) (v : sval) : Prop :=
  In (s_id v) (opted c) \/ (0 < top_n (cfg c) /\ mp <= s_pow v).
Definition lists_ok (c : consumer) (v : sval) : Prop :=
  (allowl (cfg c) = [] \/ In (s_id v) (allowl (cfg c))) /\ ~ In (s_id v) (denyl (cfg c)).
Definition stake_ok (c : consumer) (v : sval) : Prop :=
  min_stake (cfg c) = 0 \/ min_stake (cfg c) <= s_tok v.
Definition expected_key (c : consumer) (v : sval) : Z :=
  match assoc (s_id v) (keys c) with Some k => k | None => s_key v end.
Definition expected_height (height : Z) (c : consumer) (v : sval) : Z :=
  match find (fun p => c_id p =? s_id v) (valset c) with Some p => c_height p | None => height end.
(* the candidate list: the provider's active validators, or all bonded ones if the consumer allows inactive ones *)
Definition candidates (oracle : list sval) (maxv M : Z) (c : consumer) : list sval :=
  if allow_inactive (cfg c) then firstn (Z.to_nat maxv) oracle else firstn (Z.to_nat M) oracle.

(* consumers processed before the one of interest, each with its Top-N threshold *)
Definition thread (M height : Z) (cs : list (consumer * Z)) (sl : slices) : slices :=
  fold_left (fun sl cm => snd (compute_consumer_next_valset M height (fst cm) (snd cm) sl)) cs sl.

(* ------------------------------------------------------------------ small facts *)

Lemma mem_In x l : mem x l = true <-> In x l.
Proof.
  unfold mem. rewrite existsb_exists. split.
  - intros [y [Hy He]]. apply Z.eqb_eq in He. now subst.
  - intros Hin. exists x. split; [assumption|apply Z.eqb_refl].
Qed.

Lemma mem_false x l : mem x l = false <-> ~ In x l.
Proof. rewrite <- mem_In. destruct (mem x l); split; congruence. Qed.

Lemma is_nil_true {A} (l : list A) : is_nil l = true <-> l = [].
Proof. destruct l; simpl; split; congruence. Qed.

Lemma take_max_firstn {A} (m : Z) (l : list A) : take_max m l = firstn (Z.to_nat m) l.
Proof.
  unfold take_max. destruct (Z.ltb_spec (Z.of_nat (length l)) m) as [Hlt|Hge]; [|reflexivity].
  symmetry. apply firstn_all2. lia.
Qed.

Lemma firstn_In {A} n (l : list A) x : In x (firstn n l) -> In x l.
Proof. intros H. rewrite <- (firstn_skipn n l). apply in_or_app. now left. Qed.

Lemma NoDup_firstn {A} n (l : list A) : NoDup l -> NoDup (firstn n l).
Proof.
  revert n. induction l as [|a t IH]; intros [|n] Hnd; simpl; try constructor.
  - inversion Hnd; subst. intros Hin. apply firstn_In in Hin. contradiction.
  - inversion Hnd; subst. now apply IH.
Qed.

Lemma NoDup_map_firstn {A B} (f : A -> B) n l : NoDup (map f l) -> NoDup (map f (firstn n l)).
Proof. intros H. rewrite <- firstn_map. now apply NoDup_firstn. Qed.

Lemma NoDup_map_inj {A B} (f : A -> B) l x y :
  NoDup (map f l) -> In x l -> In y l -> f x = f y -> x = y.
Proof.
  induction l as [|a t IH]; simpl; intros Hnd Hx Hy He; [contradiction|].
  inversion Hnd as [|? ? Hna Hnt]; subst.
  destruct Hx as [<-|Hx], Hy as [<-|Hy]; try reflexivity.
  - exfalso. apply Hna. rewrite He. now apply in_map.
  - exfalso. apply Hna. rewrite <- He. now apply in_map.
  - now apply IH.
Qed.

Lemma NoDup_map_filter {A B} (f : A -> B) p l : NoDup (map f l) -> NoDup (map f (filter p l)).
Proof.
  induction l as [|a t IH]; simpl; intros Hnd; [constructor|].
  inversion Hnd as [|? ? Hna Hnt]; subst.
  destruct (p a); simpl; [constructor|]; auto.
  intros Hin. apply Hna. apply in_map_iff in Hin. destruct Hin as [y [He Hy]].
  apply filter_In in Hy. apply in_map_iff. exists y. tauto.
Qed.

Lemma find_some_in {A} (p : A -> bool) l y : find p l = Some y -> In y l /\ p y = true.
Proof. apply find_some. Qed.

Lemma find_exists {A} (p : A -> bool) l x : In x l -> p x = true -> exists y, find p l = Some y.
Proof.
  intros Hin Hp. destruct (find p l) eqn:Hf; [eauto|].
  exfalso. pose proof (find_none _ _ Hf _ Hin) as H. congruence.
Qed.

(* ------------------------------------------------------------------ candidate list of ComputeNextValidators *)

Definition cand_of (M : Z) (c : consumer) (slice : list sval) : list sval :=
  let sorted := sort_desc s_tok slice in
  if allow_inactive (cfg c) then sorted
  else if M <? Z.of_nat (length sorted) then firstn (Z.to_nat M) sorted else sorted.

Lemma cand_in M c slice v : In v (cand_of M c slice) -> In v slice.
Proof.
  unfold cand_of. cbv zeta. intros H.
  apply (Permutation_in _ (sort_desc_perm s_tok slice)).
  destruct (allow_inactive (cfg c)); [assumption|].
  destruct (M <? _); [now apply firstn_In in H|assumption].
Qed.

Lemma cand_nodup M c slice : NoDup (map s_id slice) -> NoDup (map s_id (cand_of M c slice)).
Proof.
  intros Hnd. unfold cand_of. cbv zeta.
  assert (Hs : NoDup (map s_id (sort_desc s_tok slice))).
  { eapply Permutation_NoDup; [|exact Hnd]. apply Permutation_map. symmetry. apply sort_desc_perm. }
  destruct (allow_inactive (cfg c)); [assumption|].
  destruct (M <? _); [now apply NoDup_map_firstn|assumption].
Qed.

(* on a slice that already has at most M elements (the active list) the truncation does nothing *)
Lemma cand_full M c slice v :
  (allow_inactive (cfg c) = false -> Z.of_nat (length slice) <= M) ->
  In v slice -> In v (cand_of M c slice).
Proof.
  intros Hlen Hin. unfold cand_of. cbv zeta.
  assert (Hs : In v (sort_desc s_tok slice))
    by (apply (Permutation_in _ (Permutation_sym (sort_desc_perm s_tok slice))); assumption).
  destruct (allow_inactive (cfg c)); [assumption|].
  rewrite sort_desc_length.
  destruct (Z.ltb_spec M (Z.of_nat (length slice))) as [Hlt|_]; [|assumption].
  specialize (Hlen eq_refl). lia.
Qed.

Lemma firstn_len_le {A} (m : Z) (l : list A) : 0 <= m -> Z.of_nat (length (firstn (Z.to_nat m) l)) <= m.
Proof. intros Hm. rewrite firstn_length. lia. Qed.

(* ------------------------------------------------------------------ FilterValidators *)

Lemma filtered_ids height c mp l :
  map c_id (filter_validators height c mp l) = map s_id (filter (eligible c mp) l).
Proof. unfold filter_validators. rewrite map_map. reflexivity. Qed.

Lemma filtered_in height c mp l y :
  In y (filter_validators height c mp l) ->
  exists v, In v l /\ eligible c mp v = true /\ y = create_consumer_validator height c v.
Proof.
  unfold filter_validators. intros H. apply in_map_iff in H. destruct H as [v [He Hv]].
  apply filter_In in Hv. exists v. intuition.
Qed.

Lemma filtered_nodup height c mp l :
  NoDup (map s_id l) -> NoDup (map c_id (filter_validators height c mp l)).
Proof. intros H. rewrite filtered_ids. now apply NoDup_map_filter. Qed.

(* ------------------------------------------------------------------ PowerCap.shape: membership facts *)

Lemma cvp_ids_perm pc l : Permutation (map vid (cap_validators_power pc l)) (map vid l).
Proof.
  unfold cap_validators_power. destruct (0 <? pc); [apply pc_members_perm|reflexivity].
Qed.

Lemma shape_ids_incl prio tn sc pc el id :
  In id (map vid (shape prio tn sc pc el)) -> In id (map vid el).
Proof.
  rewrite shape_compose. intros H.
  apply (Permutation_in _ (cvp_ids_perm _ _)) in H.
  destruct (cap_prefix tn sc (fst (partition_priority prio el) ++ snd (partition_priority prio el)))
    as [[k Hk] _].
  rewrite Hk in H. rewrite <- firstn_map in H. apply firstn_In in H.
  apply (Permutation_in _ (Permutation_map vid (ranked_perm prio el))). exact H.
Qed.

Lemma shape_in_nocap prio tn sc el v :
  In v (shape prio tn sc 0 el) -> In v el.
Proof.
  rewrite shape_compose. unfold cap_validators_power. change (0 <? 0) with false. cbv iota.
  intros H.
  destruct (cap_prefix tn sc (fst (partition_priority prio el) ++ snd (partition_priority prio el)))
    as [[k Hk] _].
  rewrite Hk in H. apply firstn_In in H.
  apply (Permutation_in _ (ranked_perm prio el)). exact H.
Qed.

Lemma shape_ids_perm prio tn sc pc el :
  sc = 0 \/ 0 < tn -> Permutation (map vid (shape prio tn sc pc el)) (map vid el).
Proof.
  intros Hc. rewrite shape_compose. rewrite cvp_ids_perm.
  destruct (cap_prefix tn sc (fst (partition_priority prio el) ++ snd (partition_priority prio el)))
    as [_ Hid].
  rewrite Hid by tauto. apply Permutation_map, ranked_perm.
Qed.

Lemma shape_ids_nodup prio tn sc pc el :
  NoDup (map vid el) -> NoDup (map vid (shape prio tn sc pc el)).
Proof.
  intros Hnd. rewrite shape_compose.
  eapply Permutation_NoDup; [symmetry; apply cvp_ids_perm|].
  destruct (cap_prefix tn sc (fst (partition_priority prio el) ++ snd (partition_priority prio el)))
    as [[k Hk] _].
  rewrite Hk. apply NoDup_map_firstn.
  eapply Permutation_NoDup; [|exact Hnd].
  apply Permutation_map. symmetry. apply ranked_perm.
Qed.

(* ------------------------------------------------------------------ reattach *)

Lemma reattach_in filtered shaped x :
  In x (flat_map (reattach filtered) shaped) ->
  exists v y, In v shaped /\ find (fun z => c_id z =? vid v) filtered = Some y /\
              x = mkC (c_id y) (c_key y) (vpow v) (c_height y).
Proof.
  intros H. apply in_flat_map in H. destruct H as [v [Hv Hx]].
  unfold reattach in Hx. destruct (find _ filtered) as [y|] eqn:Hf; [|contradiction].
  destruct Hx as [<-|[]]. exists v, y. auto.
Qed.

Lemma reattach_ids_incl filtered shaped id :
  In id (map c_id (flat_map (reattach filtered) shaped)) -> In id (map vid shaped).
Proof.
  intros H. apply in_map_iff in H. destruct H as [x [He Hx]].
  apply reattach_in in Hx. destruct Hx as [v [y [Hv [Hf ->]]]].
  apply find_some in Hf. destruct Hf as [_ Hq]. apply Z.eqb_eq in Hq.
  simpl in He. subst id. rewrite Hq. now apply in_map.
Qed.

Lemma reattach_nodup filtered shaped :
  NoDup (map vid shaped) -> NoDup (map c_id (flat_map (reattach filtered) shaped)).
Proof.
  induction shaped as [|v t IH]; simpl; intros Hnd; [constructor|].
  inversion Hnd as [|? ? Hna Hnt]; subst.
  rewrite map_app. unfold reattach at 1.
  destruct (find _ filtered) as [y|] eqn:Hf; simpl; [|now apply IH].
  constructor; [|now apply IH].
  intros Hin. apply reattach_ids_incl in Hin.
  apply find_some in Hf. destruct Hf as [_ Hq]. apply Z.eqb_eq in Hq. rewrite Hq in Hin. contradiction.
Qed.

(* ------------------------------------------------------------------ ComputeNextValidators *)

Lemma cnv_unfold M height c mp slice :
  fst (compute_next_validators M height c mp slice) =
  let filtered := filter_validators height c mp (cand_of M c slice) in
  flat_map (reattach filtered)
    (shape (priol (cfg c)) (top_n (cfg c)) (set_cap (cfg c)) (power_cap (cfg c)) (map to_val filtered)).
Proof. reflexivity. Qed.

Lemma cnv_slice M height c mp slice :
  snd (compute_next_validators M height c mp slice) = sort_desc s_tok slice.
Proof. reflexivity. Qed.

Lemma to_val_ids l : map vid (map to_val l) = map c_id l.
Proof. rewrite map_map. reflexivity. Qed.

(* every member comes from an eligible candidate; its key and join height are those of
   CreateConsumerValidator; without a power cap so is its power *)
Lemma cnv_sound M height c mp slice x :
  NoDup (map s_id slice) ->
  In x (fst (compute_next_validators M height c mp slice)) ->
  exists v, In v (cand_of M c slice) /\ eligible c mp v = true /\ c_id x = s_id v /\
            c_key x = expected_key c v /\ c_height x = expected_height height c v /\
            (power_cap (cfg c) = 0 -> c_pow x = s_pow v).
Proof.
  intros Hnd Hx. rewrite cnv_unfold in Hx. cbv zeta in Hx.
  set (filtered := filter_validators height c mp (cand_of M c slice)) in *.
  apply reattach_in in Hx. destruct Hx as [v' [y [Hv' [Hf ->]]]].
  apply find_some in Hf. destruct Hf as [Hy Hq]. apply Z.eqb_eq in Hq.
  destruct (filtered_in _ _ _ _ _ Hy) as [v [Hv [Hel ->]]].
  exists v. cbn [c_id c_key c_pow c_height create_consumer_validator].
  repeat split; try assumption; try reflexivity.
  intros Hpc. rewrite Hpc in Hv'. apply shape_in_nocap in Hv'.
  apply in_map_iff in Hv'. destruct Hv' as [y' [He Hy']].
  assert (y' = create_consumer_validator height c v).
  { apply (NoDup_map_inj c_id filtered); try assumption.
    - apply filtered_nodup. now apply cand_nodup.
    - subst v'. cbn [vid to_val fst] in Hq. cbn [c_id create_consumer_validator] in Hq |- *. lia. }
  subst y' v'. reflexivity.
Qed.

Lemma cnv_complete M height c mp slice v :
  set_cap (cfg c) = 0 \/ 0 < top_n (cfg c) ->
  In v (cand_of M c slice) -> eligible c mp v = true ->
  exists x, In x (fst (compute_next_validators M height c mp slice)) /\ c_id x = s_id v.
Proof.
  intros Hcap Hv Hel. rewrite cnv_unfold. cbv zeta.
  set (filtered := filter_validators height c mp (cand_of M c slice)).
  assert (Hy : In (create_consumer_validator height c v) filtered).
  { unfold filtered, filter_validators. apply in_map. apply filter_In. tauto. }
  assert (Hid : In (s_id v) (map vid (map to_val filtered))).
  { rewrite to_val_ids. apply in_map_iff. exists (create_consumer_validator height c v). tauto. }
  apply (Permutation_in _ (Permutation_sym (shape_ids_perm (priol (cfg c)) _ _ (power_cap (cfg c)) _ Hcap))) in Hid.
  apply in_map_iff in Hid. destruct Hid as [v' [He Hv']].
  destruct (find_exists (fun z => c_id z =? vid v') filtered _ Hy) as [y Hf].
  { rewrite He. apply Z.eqb_refl. }
  exists (mkC (c_id y) (c_key y) (vpow v') (c_height y)). split.
  - apply in_flat_map. exists v'. split; [assumption|]. unfold reattach. rewrite Hf. now left.
  - apply find_some in Hf. destruct Hf as [_ Hq]. apply Z.eqb_eq in Hq. cbn [c_id]. lia.
Qed.

Lemma cnv_nodup M height c mp slice :
  NoDup (map s_id slice) -> NoDup (map c_id (fst (compute_next_validators M height c mp slice))).
Proof.
  intros Hnd. rewrite cnv_unfold. cbv zeta. apply reattach_nodup, shape_ids_nodup.
  rewrite to_val_ids. apply filtered_nodup. now apply cand_nodup.
Qed.

(* the computation looks at the consumer only through its parameters, keys, stored set and the
   membership function of its opt-in index *)
Definition same_view (c c' : consumer) : Prop :=
  cfg c = cfg c' /\ keys c = keys c' /\ valset c = valset c' /\ forall x, mem x (opted c) = mem x (opted c').

Lemma eligible_view c c' mp v : same_view c c' -> eligible c mp v = eligible c' mp v.
Proof.
  intros [Hc [_ [_ Hm]]]. unfold eligible, can_validate. rewrite Hc, Hm. reflexivity.
Qed.

Lemma cnv_view M height c c' mp slice :
  same_view c c' -> compute_next_validators M height c mp slice = compute_next_validators M height c' mp slice.
Proof.
  intros Hv. pose proof Hv as [Hc [Hk [Hs _]]].
  unfold compute_next_validators, filter_validators. cbv zeta. rewrite Hc.
  f_equal. f_equal.
  - f_equal. rewrite (filter_ext _ _ (fun v => eligible_view c c' mp v Hv)).
    apply map_ext. intros v. unfold create_consumer_validator. rewrite Hk, Hs. reflexivity.
  - f_equal. f_equal. rewrite (filter_ext _ _ (fun v => eligible_view c c' mp v Hv)).
    apply map_ext. intros v. unfold create_consumer_validator. rewrite Hk, Hs. reflexivity.
Qed.

(* ------------------------------------------------------------------ OptInTopNValidators *)

Lemma mem_add_opt x y l : mem x (add_opt y l) = mem x l || (y =? x).
Proof.
  unfold add_opt. destruct (mem y l) eqn:Hy.
  - destruct (Z.eqb_spec y x) as [->|Hne]; [rewrite Hy; reflexivity|now rewrite orb_false_r].
  - unfold mem. rewrite existsb_app. simpl. rewrite orb_false_r. rewrite (Z.eqb_sym x y). reflexivity.
Qed.

Lemma mem_opt_fold mp x active o :
  mem x (fold_left (fun o v => if mp <=? s_pow v then add_opt (s_id v) o else o) active o) =
  mem x o || existsb (fun v => (mp <=? s_pow v) && (s_id v =? x)) active.
Proof.
  revert o. induction active as [|a t IH]; intros o; simpl; [now rewrite orb_false_r|].
  rewrite IH. destruct (mp <=? s_pow a); simpl.
  - rewrite mem_add_opt. now rewrite orb_assoc.
  - reflexivity.
Qed.

Lemma mem_opt_in_topn c active mp x :
  mem x (opted (opt_in_topn c active mp)) =
  mem x (opted c) || existsb (fun v => (mp <=? s_pow v) && (s_id v =? x)) active.
Proof. apply mem_opt_fold. Qed.

Lemma existsb_perm {A} (p : A -> bool) l l' : Permutation l l' -> existsb p l = existsb p l'.
Proof.
  intros HP. destruct (existsb p l) eqn:H1; symmetry.
  - apply existsb_exists in H1. destruct H1 as [y [Hy Hp]]. apply existsb_exists. exists y. split; [|assumption].
    now apply (Permutation_in _ HP).
  - destruct (existsb p l') eqn:H2; [|reflexivity].
    apply existsb_exists in H2. destruct H2 as [y [Hy Hp]].
    assert (existsb p l = true) by (apply existsb_exists; exists y; split;
      [now apply (Permutation_in _ (Permutation_sym HP))|assumption]). congruence.
Qed.

Lemma opt_in_topn_view c active active' mp :
  Permutation active active' -> same_view (opt_in_topn c active mp) (opt_in_topn c active' mp).
Proof.
  intros HP. repeat split; try reflexivity. intros x.
  rewrite !mem_opt_in_topn. f_equal. now apply existsb_perm.
Qed.

(* ------------------------------------------------------------------ ComputeConsumerNextValSet *)

Definition eff_mp (c : consumer) (mp : Z) : Z := if 0 <? top_n (cfg c) then mp else 0.
Definition after_optin (c : consumer) (active : list sval) (mp : Z) : consumer :=
  if 0 <? top_n (cfg c) then opt_in_topn c active (eff_mp c mp) else c.

Lemma after_optin_cfg c active mp : cfg (after_optin c active mp) = cfg c.
Proof. unfold after_optin. destruct (0 <? top_n (cfg c)); reflexivity. Qed.
Lemma after_optin_keys c active mp : keys (after_optin c active mp) = keys c.
Proof. unfold after_optin. destruct (0 <? top_n (cfg c)); reflexivity. Qed.
Lemma after_optin_valset c active mp : valset (after_optin c active mp) = valset c.
Proof. unfold after_optin. destruct (0 <? top_n (cfg c)); reflexivity. Qed.

Lemma ccnv_next M height c mp sl :
  snd (fst (compute_consumer_next_valset M height c mp sl)) =
  fst (compute_next_validators M height (after_optin c (snd sl) mp) (eff_mp c mp)
         (if allow_inactive (cfg c) then fst sl else snd sl)).
Proof.
  unfold compute_consumer_next_valset, after_optin, eff_mp. cbv zeta.
  destruct (allow_inactive (cfg c)); reflexivity.
Qed.

Lemma ccnv_consumer M height c mp sl :
  fst (fst (compute_consumer_next_valset M height c mp sl)) =
  set_valset (after_optin c (snd sl) mp) (snd (fst (compute_consumer_next_valset M height c mp sl))).
Proof.
  unfold compute_consumer_next_valset, after_optin, eff_mp. cbv zeta.
  destruct (allow_inactive (cfg c)); reflexivity.
Qed.

Lemma ccnv_slices M height c mp sl :
  snd (compute_consumer_next_valset M height c mp sl) =
  if allow_inactive (cfg c) then (sort_desc s_tok (fst sl), snd sl) else (fst sl, sort_desc s_tok (snd sl)).
Proof.
  unfold compute_consumer_next_valset. cbv zeta.
  destruct (allow_inactive (cfg c)); reflexivity.
Qed.

(* eligibility after the automatic Top-N opt-in, in terms of the consumer before it *)
Lemma eligible_after_sound oracle M c mp v :
  NoDup (map s_id oracle) -> In v oracle ->
  eligible (after_optin c (take_max M oracle) mp) (eff_mp c mp) v = true ->
  opted_or_topn c mp v /\ lists_ok c v /\ stake_ok c v.
Proof.
  intros Hnd Hv Hel. unfold eligible, can_validate in Hel. cbv zeta in Hel.
  rewrite after_optin_cfg in Hel.
  apply andb_prop in Hel. destruct Hel as [Hcv Hms].
  apply andb_prop in Hcv. destruct Hcv as [Hcv Hdl].
  apply andb_prop in Hcv. destruct Hcv as [Hop Hal].
  split; [|split].
  - unfold opted_or_topn, after_optin, eff_mp in *.
    destruct (Z.ltb_spec 0 (top_n (cfg c))) as [Htn|Htn].
    + rewrite mem_opt_in_topn in Hop.
      destruct (mem (s_id v) (opted c)) eqn:Hm; [left; now apply mem_In|].
      cbn [orb] in Hop.
      destruct (existsb _ (take_max M oracle)) eqn:Hex.
      * apply existsb_exists in Hex. destruct Hex as [a [Ha Hq]].
        apply andb_prop in Hq. destruct Hq as [Hp Hi]. apply Z.eqb_eq in Hi. apply Z.leb_le in Hp.
        rewrite take_max_firstn in Ha. apply firstn_In in Ha.
        assert (a = v) by (now apply (NoDup_map_inj s_id oracle)). subst a. right. lia.
      * cbn [negb andb] in Hop. unfold has_min_power in Hop. apply Z.leb_le in Hop. right. lia.
    + rewrite andb_false_r in Hop. left. now apply mem_In.
  - unfold lists_ok. split.
    + apply orb_prop in Hal. destruct Hal as [Hal|Hal]; [left; now apply is_nil_true|right; now apply mem_In].
    + apply orb_prop in Hdl. destruct Hdl as [Hdl|Hdl].
      * apply is_nil_true in Hdl. rewrite Hdl. auto.
      * apply negb_true_iff in Hdl. now apply mem_false.
  - unfold stake_ok, fulfills_min_stake in *.
    destruct (Z.eqb_spec (min_stake (cfg c)) 0); [now left|right; now apply Z.leb_le].
Qed.

Lemma eligible_after_complete active c mp v :
  opted_or_topn c mp v -> lists_ok c v -> stake_ok c v ->
  eligible (after_optin c active mp) (eff_mp c mp) v = true.
Proof.
  intros Hop [Hal Hdl] Hms. unfold eligible, can_validate. cbv zeta. rewrite after_optin_cfg.
  apply andb_true_intro. split; [apply andb_true_intro; split; [apply andb_true_intro; split|]|].
  - unfold after_optin, eff_mp.
    destruct (Z.ltb_spec 0 (top_n (cfg c))) as [Htn|Htn].
    + rewrite mem_opt_in_topn. destruct Hop as [Hin|[_ Hp]].
      * apply mem_In in Hin. rewrite Hin. reflexivity.
      * destruct (mem (s_id v) (opted c) || _); cbn [negb andb]; [reflexivity|].
        unfold has_min_power. now apply Z.leb_le.
    + rewrite andb_false_r. destruct Hop as [Hin|[Hlt _]]; [now apply mem_In|lia].
  - destruct Hal as [Hal|Hal]; [rewrite Hal; reflexivity|].
    apply mem_In in Hal. rewrite Hal. apply orb_true_r.
  - apply mem_false in Hdl. rewrite Hdl. apply orb_true_r.
  - unfold fulfills_min_stake. destruct Hms as [Hms|Hms]; [rewrite Hms; reflexivity|].
    destruct (min_stake (cfg c) =? 0); [reflexivity|now apply Z.leb_le].
Qed.

Lemma expected_key_after c active mp v : expected_key (after_optin c active mp) v = expected_key c v.
Proof. unfold expected_key. now rewrite after_optin_keys. Qed.
Lemma expected_height_after h c active mp v :
  expected_height h (after_optin c active mp) v = expected_height h c v.
Proof. unfold expected_height. now rewrite after_optin_valset. Qed.

Lemma next_set_eq oracle maxv M height c mp :
  next_set oracle maxv M height c mp =
  fst (compute_next_validators M height (after_optin c (take_max M oracle) mp) (eff_mp c mp)
         (if allow_inactive (cfg c) then take_max maxv oracle else take_max M oracle)).
Proof. unfold next_set. rewrite ccnv_next. reflexivity. Qed.

Lemma slice_in_oracle (oracle : list sval) maxv M (b : bool) v :
  In v (if b then take_max maxv oracle else take_max M oracle) -> In v oracle.
Proof. destruct b; rewrite take_max_firstn; apply firstn_In. Qed.

Lemma slice_nodup oracle maxv M (b : bool) :
  NoDup (map s_id oracle) -> NoDup (map s_id (if b then take_max maxv oracle else take_max M oracle)).
Proof. intros H. destruct b; rewrite take_max_firstn; now apply NoDup_map_firstn. Qed.

(* ---- C02_sound ---- *)
Theorem sound oracle maxv M height c mp x :
  NoDup (map s_id oracle) ->
  In x (next_set oracle maxv M height c mp) ->
  exists v, In v oracle /\ s_id v = c_id x /\
    opted_or_topn c mp v /\ lists_ok c v /\ stake_ok c v /\
    (power_cap (cfg c) = 0 -> c_pow x = s_pow v) /\
    c_key x = expected_key c v /\
    c_height x = expected_height height c v.
Proof.
  intros Hnd Hx. rewrite next_set_eq in Hx.
  apply cnv_sound in Hx; [|now apply slice_nodup].
  destruct Hx as [v [Hv [Hel [Hid [Hk [Hh Hp]]]]]].
  apply cand_in in Hv. apply slice_in_oracle in Hv.
  destruct (eligible_after_sound _ _ _ _ _ Hnd Hv Hel) as [Ho [Hl Hs]].
  rewrite expected_key_after in Hk. rewrite expected_height_after in Hh. rewrite after_optin_cfg in Hp.
  exists v. repeat split; auto; apply Hl.
Qed.

(* ---- C02_active: no hypothesis on ties, none on distinctness ---- *)
Theorem active_only oracle maxv M height c mp x :
  allow_inactive (cfg c) = false ->
  In x (next_set oracle maxv M height c mp) ->
  exists v, In v (firstn (Z.to_nat M) oracle) /\ s_id v = c_id x.
Proof.
  intros Hai Hx. rewrite next_set_eq in Hx. rewrite Hai in Hx.
  rewrite cnv_unfold in Hx. cbv zeta in Hx.
  apply reattach_in in Hx. destruct Hx as [v' [y [_ [Hf ->]]]].
  apply find_some in Hf. destruct Hf as [Hy _].
  apply filtered_in in Hy. destruct Hy as [v [Hv [_ ->]]].
  apply cand_in in Hv. rewrite take_max_firstn in Hv.
  exists v. split; [assumption|reflexivity].
Qed.

(* ---- C02_complete ---- *)
Theorem complete oracle maxv M height c mp v :
  set_cap (cfg c) = 0 \/ 0 < top_n (cfg c) ->
  In v (candidates oracle maxv M c) ->
  opted_or_topn c mp v -> lists_ok c v -> stake_ok c v ->
  exists x, In x (next_set oracle maxv M height c mp) /\ c_id x = s_id v.
Proof.
  intros Hcap Hv Ho Hl Hs. rewrite next_set_eq.
  apply cnv_complete.
  - now rewrite after_optin_cfg.
  - apply cand_full.
    + rewrite after_optin_cfg. intros Hai. rewrite Hai. rewrite take_max_firstn.
      destruct (Z.le_gt_cases 0 M) as [Hm|Hm]; [now apply firstn_len_le|].
      unfold candidates in Hv. rewrite Hai in Hv.
      replace (Z.to_nat M) with 0%nat in Hv by lia. contradiction.
    + unfold candidates in Hv. rewrite !take_max_firstn. exact Hv.
  - now apply eligible_after_complete.
Qed.

(* ---- C02_no_dup ---- *)
Theorem no_dup oracle maxv M height c mp :
  NoDup (map s_id oracle) -> NoDup (map c_id (next_set oracle maxv M height c mp)).
Proof. intros Hnd. rewrite next_set_eq. apply cnv_nodup. now apply slice_nodup. Qed.

(* ------------------------------------------------------------------ the shared slices *)

(* a slice the consumer sees is the original one or its token-sorted version *)
Definition sorted_or_same (l0 l : list sval) : Prop := l = l0 \/ l = sort_desc s_tok l0.
Definition slices_equiv (sl0 sl : slices) : Prop :=
  sorted_or_same (fst sl0) (fst sl) /\ sorted_or_same (snd sl0) (snd sl).

Lemma sort_idem (l : list sval) : sort_desc s_tok (sort_desc s_tok l) = sort_desc s_tok l.
Proof. apply sort_desc_sorted_id, sort_desc_sorted. Qed.

Lemma sos_sort l0 l : sorted_or_same l0 l -> sort_desc s_tok l = sort_desc s_tok l0.
Proof. intros [->| ->]; [reflexivity|apply sort_idem]. Qed.

Lemma sos_perm l0 l : sorted_or_same l0 l -> Permutation l0 l.
Proof. intros [->| ->]; [reflexivity|symmetry; apply sort_desc_perm]. Qed.

Lemma sos_refl l : sorted_or_same l l.
Proof. now left. Qed.

Lemma cnv_slice_irrelevant M height c mp l0 l :
  sorted_or_same l0 l -> compute_next_validators M height c mp l = compute_next_validators M height c mp l0.
Proof. intros H. unfold compute_next_validators. cbv zeta. rewrite (sos_sort _ _ H). reflexivity. Qed.

Lemma after_optin_view c a a' mp : Permutation a a' -> same_view (after_optin c a mp) (after_optin c a' mp).
Proof.
  intros HP. unfold after_optin. destruct (0 <? top_n (cfg c)); [now apply opt_in_topn_view|].
  repeat split; reflexivity.
Qed.

Lemma ccnv_equiv M height c mp sl0 sl :
  slices_equiv sl0 sl ->
  snd (fst (compute_consumer_next_valset M height c mp sl)) =
  snd (fst (compute_consumer_next_valset M height c mp sl0)) /\
  same_view (fst (fst (compute_consumer_next_valset M height c mp sl)))
            (fst (fst (compute_consumer_next_valset M height c mp sl0))) /\
  slices_equiv sl0 (snd (compute_consumer_next_valset M height c mp sl)).
Proof.
  intros [Hb Ha].
  assert (Hnext : snd (fst (compute_consumer_next_valset M height c mp sl)) =
                  snd (fst (compute_consumer_next_valset M height c mp sl0))).
  { rewrite !ccnv_next.
    rewrite (cnv_view M height _ _ (eff_mp c mp) _ (after_optin_view c _ _ mp (Permutation_sym (sos_perm _ _ Ha)))).
    destruct (allow_inactive (cfg c)).
    - now rewrite (cnv_slice_irrelevant M height _ (eff_mp c mp) _ _ Hb).
    - now rewrite (cnv_slice_irrelevant M height _ (eff_mp c mp) _ _ Ha). }
  split; [exact Hnext|split].
  - rewrite !ccnv_consumer. rewrite Hnext.
    destruct (after_optin_view c _ _ mp (Permutation_sym (sos_perm _ _ Ha))) as [H1 [H2 [_ H4]]].
    repeat split; assumption.
  - rewrite ccnv_slices. unfold slices_equiv. destruct (allow_inactive (cfg c)); cbn [fst snd]; split; try assumption.
    + right. now apply sos_sort.
    + right. now apply sos_sort.
Qed.

Lemma thread_equiv M height cs sl0 sl : slices_equiv sl0 sl -> slices_equiv sl0 (thread M height cs sl).
Proof.
  revert sl. induction cs as [|cm t IH]; intros sl H; [exact H|].
  unfold thread. cbn [fold_left]. apply IH. now apply ccnv_equiv.
Qed.

(* ---- C02_shared_slice ---- *)
Theorem shared_slice M height cs c mp sl :
  snd (fst (compute_consumer_next_valset M height c mp (thread M height cs sl))) =
  snd (fst (compute_consumer_next_valset M height c mp sl)) /\
  same_view (fst (fst (compute_consumer_next_valset M height c mp (thread M height cs sl))))
            (fst (fst (compute_consumer_next_valset M height c mp sl))).
Proof.
  assert (H : slices_equiv sl (thread M height cs sl))
    by (apply thread_equiv; split; apply sos_refl).
  destruct (ccnv_equiv M height c mp sl _ H) as [H1 [H2 _]]. split; assumption.
Qed.

(* ------------------------------------------------------------------ QueueVSCPackets: every launched
   consumer's stored set after an epoch is [next_set] of the oracle list and of its own state before *)

Lemma epoch_loop_valset M height sl0 : forall cs mp sl (i : nat),
  slices_equiv sl0 sl -> (i < length cs)%nat -> launched (nth i cs empty_consumer) = true ->
  valset (nth i (fst (epoch_loop M height cs mp sl)) empty_consumer) =
  snd (fst (compute_consumer_next_valset M height (nth i cs empty_consumer) (nth i mp 0) sl0)).
Proof.
  induction cs as [|c t IH]; intros mp sl i Heq Hi Hl; [simpl in Hi; lia|].
  cbn [epoch_loop].
  destruct (launched c) eqn:Hlc.
  - destruct (compute_consumer_next_valset M height c (hd 0 mp) sl) as [[c' nx] sl'] eqn:Hc.
    destruct (epoch_loop M height t (tl mp) sl') as [t' sl''] eqn:Ht.
    pose proof (ccnv_equiv M height c (hd 0 mp) sl0 sl Heq) as [H1 [_ H3]]. rewrite Hc in H1, H3. cbn [fst snd] in H1, H3.
    destruct i as [|i]; cbn [fst nth].
    + pose proof (ccnv_consumer M height c (hd 0 mp) sl) as Hcc. rewrite Hc in Hcc. cbn [fst snd] in Hcc.
      rewrite Hcc. cbn [valset set_valset]. rewrite H1. destruct mp; reflexivity.
    + simpl in Hi. specialize (IH (tl mp) sl' i H3 ltac:(lia) Hl). rewrite Ht in IH. cbn [fst] in IH.
      rewrite IH. destruct mp; [destruct i|]; reflexivity.
  - destruct (epoch_loop M height t (tl mp) sl) as [t' sl''] eqn:Ht.
    destruct i as [|i]; cbn [fst nth].
    + cbn [nth] in Hl. congruence.
    + simpl in Hi. specialize (IH (tl mp) sl i Heq ltac:(lia) Hl). rewrite Ht in IH. cbn [fst] in IH.
      rewrite IH. destruct mp; [destruct i|]; reflexivity.
Qed.

Theorem epoch_is_next_set (s : state) height oracle maxv M mp (i : nat) :
  (i < length s)%nat -> launched (nth i s empty_consumer) = true ->
  valset (nth i (step s (Epoch height oracle maxv M mp)) empty_consumer) =
  next_set oracle maxv M height (nth i s empty_consumer) (nth i mp 0).
Proof.
  intros Hi Hl. cbn [step]. unfold next_set.
  apply epoch_loop_valset; try assumption. split; apply sos_refl.
Qed.

(* not-launched consumers are left alone by an epoch *)
Lemma epoch_loop_frame M height : forall cs mp sl (i : nat),
  launched (nth i cs empty_consumer) = false ->
  nth i (fst (epoch_loop M height cs mp sl)) empty_consumer = nth i cs empty_consumer.
Proof.
  induction cs as [|c t IH]; intros mp sl i Hl; [reflexivity|].
  cbn [epoch_loop].
  destruct (launched c) eqn:Hlc.
  - destruct (compute_consumer_next_valset M height c (hd 0 mp) sl) as [[c' nx] sl'].
    specialize (IH (tl mp) sl').
    destruct (epoch_loop M height t (tl mp) sl') as [t' sl''].
    destruct i as [|i]; cbn [fst nth] in *; [congruence|now apply IH].
  - specialize (IH (tl mp) sl).
    destruct (epoch_loop M height t (tl mp) sl) as [t' sl''].
    destruct i as [|i]; cbn [fst nth] in *; [reflexivity|now apply IH].
Qed.

Theorem epoch_frame (s : state) height oracle maxv M mp (i : nat) :
  launched (nth i s empty_consumer) = false ->
  nth i (step s (Epoch height oracle maxv M mp)) empty_consumer = nth i s empty_consumer.
Proof. intros Hl. cbn [step]. now apply epoch_loop_frame. Qed.

(* ------------------------------------------------------------------ regression: the pre-fix computation *)

Definition tie_oracle : list sval :=
  [mkS 0 10000000 10 1000; mkS 1 1000000 1 1001; mkS 2 1000000 1 1002; mkS 3 1900000 1 1003].
Definition tie_consumer : consumer := mkCons (mkCfg 0 0 0 0 false [] [] []) [0; 1; 2; 3] [] [] false.

Lemma tie_fixed : map c_id (next_set tie_oracle 100 2 5 tie_consumer 0) = [0; 1].
Proof. vm_compute. reflexivity. Qed.

Lemma tie_prefix_bug : map c_id (next_set_prefix_bug tie_oracle 100 2 5 tie_consumer 0) = [0; 3].
Proof. vm_compute. reflexivity. Qed.

(* the pre-fix computation violates the active clause on the witness: validator 3 is a member but not
   among the first M = 2 of the oracle list *)
Theorem active_refuted_prefix_bug :
  exists oracle maxv M height c mp x,
    NoDup (map s_id oracle) /\ allow_inactive (cfg c) = false /\
    In x (next_set_prefix_bug oracle maxv M height c mp) /\
    ~ exists v, In v (firstn (Z.to_nat M) oracle) /\ s_id v = c_id x.
Proof.
  exists tie_oracle, 100, 2, 5, tie_consumer, 0, (mkC 3 1003 1 5).
  split; [|split; [reflexivity|split]].
  - vm_compute. repeat constructor; simpl; intuition discriminate.
  - vm_compute. right. now left.
  - intros [v [Hv He]]. vm_compute in Hv. cbn [c_id] in He.
    destruct Hv as [<-|[<-|[]]]; vm_compute in He; discriminate.
Qed.

(* ------------------------------------------------------------------ BeginBlockLaunchConsumers: a consumer due in
   this block is launched iff its [next_set] is non-empty and contains an active validator; its stored set is then
   that [next_set], whatever its position in the list of due consumers *)

Lemma nth_set_nth_same (n : nat) c (s : state) d : (n < length s)%nat -> nth n (set_nth n c s) d = c.
Proof. revert n. induction s as [|a t IH]; intros [|n] H; simpl in *; try lia; [reflexivity|]. apply IH. lia. Qed.

Lemma nth_set_nth_other (n m : nat) c (s : state) d : n <> m -> nth n (set_nth m c s) d = nth n s d.
Proof.
  revert n m. induction s as [|a t IH]; intros n m H; [destruct m; reflexivity|].
  destruct m as [|m]; destruct n as [|n]; simpl; try reflexivity; try lia. apply IH. lia.
Qed.

Lemma length_set_nth (n : nat) c (s : state) : length (set_nth n c s) = length s.
Proof. revert n. induction s as [|a t IH]; intros [|n]; simpl; try reflexivity. now rewrite IH. Qed.

Lemma get_upd_same s i c : 0 <= i < Z.of_nat (length s) -> get (upd s i c) i = c.
Proof.
  intros H. unfold get, upd. destruct (Z.ltb_spec i 0); [lia|]. apply nth_set_nth_same. lia.
Qed.

Lemma get_upd_other s i j c : 0 <= i -> i <> j -> get (upd s j c) i = get s i.
Proof.
  intros Hi Hne. unfold get, upd. destruct (Z.ltb_spec j 0); [reflexivity|]. apply nth_set_nth_other. lia.
Qed.

Lemma length_upd s j c : length (upd s j c) = length s.
Proof. unfold upd. destruct (j <? 0); [reflexivity|apply length_set_nth]. Qed.

Lemma has_active_perm next a a' : Permutation a a' -> has_active next a = has_active next a'.
Proof.
  intros HP. unfold has_active. induction next as [|x t IH]; simpl; [reflexivity|].
  rewrite IH. f_equal. now apply existsb_perm.
Qed.

Definition launch_cond (nx : list cval) (c : consumer) (active : list sval) : bool :=
  negb (launched c) && negb (is_nil nx) && has_active nx active.

Lemma launch_cond_perm nx c a a' : Permutation a a' -> launch_cond nx c a = launch_cond nx c a'.
Proof. intros HP. unfold launch_cond. now rewrite (has_active_perm nx a a' HP). Qed.

Lemma launch_one_spec M height s sl d :
  launch_one M height (s, sl) d =
  let r := compute_consumer_next_valset M height (get s (fst d)) (snd d) sl in
  let c' := fst (fst r) in
  (if launch_cond (snd (fst r)) (get s (fst d)) (snd sl)
   then upd s (fst d) (mkCons (cfg c') (opted c') (keys c') (valset c') true) else s, snd r).
Proof.
  unfold launch_one, launch_cond. cbv zeta.
  destruct (compute_consumer_next_valset M height (get s (fst d)) (snd d) sl) as [[c' nx] sl'].
  cbn [fst snd]. destruct (_ && _ && _); reflexivity.
Qed.

Lemma launch_fold_frame M height i : forall due s sl,
  0 <= i -> ~ In i (map fst due) ->
  get (fst (fold_left (launch_one M height) due (s, sl))) i = get s i.
Proof.
  induction due as [|d t IH]; intros s sl Hi Hn; [reflexivity|].
  cbn [fold_left]. rewrite launch_one_spec. cbv zeta.
  rewrite IH by (try assumption; intros H; apply Hn; now right).
  destruct (launch_cond _ _ _); [|reflexivity].
  apply get_upd_other; [assumption|]. intros He. apply Hn. left. now rewrite He.
Qed.

Lemma launch_fold_length M height : forall due s sl,
  length (fst (fold_left (launch_one M height) due (s, sl))) = length s.
Proof.
  induction due as [|d t IH]; intros s sl; [reflexivity|].
  cbn [fold_left]. rewrite launch_one_spec. cbv zeta. rewrite IH.
  destruct (launch_cond _ _ _); [apply length_upd|reflexivity].
Qed.

Lemma launch_fold M height sl0 i mp : forall due s sl,
  slices_equiv sl0 sl -> NoDup (map fst due) -> In (i, mp) due -> 0 <= i < Z.of_nat (length s) ->
  let c := get s i in
  let nx := snd (fst (compute_consumer_next_valset M height c mp sl0)) in
  let c' := get (fst (fold_left (launch_one M height) due (s, sl))) i in
  if launch_cond nx c (snd sl0)
  then launched c' = true /\ valset c' = nx /\ cfg c' = cfg c /\ keys c' = keys c /\
       (forall x, mem x (opted c') = mem x (opted (fst (fst (compute_consumer_next_valset M height c mp sl0)))))
  else c' = c.
Proof.
  induction due as [|d t IH]; intros s sl Heq Hnd Hin Hi; [contradiction|].
  inversion Hnd as [|? ? Hna Hnt]; subst.
  cbn [fold_left]. rewrite launch_one_spec. cbv zeta.
  destruct (ccnv_equiv M height (get s (fst d)) (snd d) sl0 sl Heq) as [H1 [H2 H3]].
  destruct Hin as [->|Hin].
  - cbn [fst snd] in *.
    rewrite launch_fold_frame by (try assumption; lia).
    rewrite H1. rewrite (launch_cond_perm _ _ _ _ (Permutation_sym (sos_perm _ _ (proj2 Heq)))).
    destruct (launch_cond _ _ _) eqn:Hc; [|reflexivity].
    rewrite get_upd_same by assumption. cbn [launched valset cfg keys opted].
    destruct H2 as [Hcfg [Hk [Hv Hm]]].
    pose proof (ccnv_consumer M height (get s i) mp sl) as Hcs.
    pose proof (ccnv_consumer M height (get s i) mp sl0) as Hcs0.
    repeat split.
    + rewrite Hcs. cbn [valset set_valset]. exact H1.
    + rewrite Hcfg, Hcs0. cbn [cfg set_valset]. apply after_optin_cfg.
    + rewrite Hk, Hcs0. cbn [keys set_valset]. apply after_optin_keys.
    + exact Hm.
  - assert (Hne : i <> fst d).
    { intros He. apply Hna. rewrite <- He. change i with (fst (i, mp)). now apply in_map. }
    set (s2 := if launch_cond _ _ _ then upd s (fst d) _ else s).
    assert (Hg : get s2 i = get s i).
    { unfold s2. destruct (launch_cond _ _ _); [|reflexivity]. apply get_upd_other; lia. }
    assert (Hl : length s2 = length s).
    { unfold s2. destruct (launch_cond _ _ _); [apply length_upd|reflexivity]. }
    specialize (IH s2 _ H3 Hnt Hin ltac:(lia)). cbv zeta in IH. rewrite Hg in IH. exact IH.
Qed.

Theorem launch_is_next_set (s : state) height oracle maxv M due i mp :
  NoDup (map fst due) -> In (i, mp) due -> 0 <= i < Z.of_nat (length s) ->
  let c := get s i in
  let nx := next_set oracle maxv M height c mp in
  let c' := get (step s (Launch height oracle maxv M due)) i in
  if launch_cond nx c (firstn (Z.to_nat M) oracle)
  then launched c' = true /\ valset c' = nx /\ cfg c' = cfg c /\ keys c' = keys c
  else c' = c.
Proof.
  intros Hnd Hin Hi. cbv zeta. cbn [step].
  pose proof (launch_fold M height (mk_slices oracle maxv M) i mp due s (mk_slices oracle maxv M)
                (conj (sos_refl _) (sos_refl _)) Hnd Hin Hi) as H.
  cbv zeta in H. unfold next_set. unfold mk_slices in H at 2. cbn [snd] in H.
  rewrite take_max_firstn in H.
  destruct (launch_cond _ _ _); [|exact H]. tauto.
Qed.

Theorem launch_frame (s : state) height oracle maxv M due i :
  0 <= i -> ~ In i (map fst due) -> get (step s (Launch height oracle maxv M due)) i = get s i.
Proof. intros Hi Hn. cbn [step]. now apply launch_fold_frame. Qed.
