(* Lemmas about Model/StoreKeys.v (property C13): injectivity of the encoders, isolation of the
   length-prefixed key spaces under prefix and range iteration, attribution of keys to consumers,
   and the frame property of the per-consumer store operations.  Everything is for arbitrary byte
   strings / unbounded naturals and stores of arbitrary size. *)
From Coq Require Import ZArith NArith PArith List Bool Lia Decimal DecimalN DecimalFacts.
From ICS Require Import Base.Tree Model.StoreKeys.
Import ListNotations.
Open Scope Z_scope.

Definition two64 : Z := 18446744073709551616.

(* ------------------------------------------------------------------ *)
(* 1. byte strings                                                      *)
(* ------------------------------------------------------------------ *)

Lemma bytes_eqb_refl a : bytes_eqb a a = true.
Proof. induction a as [|x a IH]; cbn; [reflexivity|]. now rewrite Z.eqb_refl, IH. Qed.

Lemma bytes_eqb_eq a b : bytes_eqb a b = true <-> a = b.
Proof.
  split.
  - revert b. induction a as [|x a IH]; intros [|y b] H; cbn in H; try discriminate; [reflexivity|].
    apply andb_true_iff in H as [Hxy Hab]. apply Z.eqb_eq in Hxy. f_equal; [exact Hxy|now apply IH].
  - intros ->. apply bytes_eqb_refl.
Qed.

Lemma bytes_eqb_neq a b : bytes_eqb a b = false <-> a <> b.
Proof.
  split.
  - intros H E. apply bytes_eqb_eq in E. congruence.
  - intros H. destruct (bytes_eqb a b) eqn:E; [|reflexivity]. apply bytes_eqb_eq in E. contradiction.
Qed.

Lemma bytes_eqb_sym a b : bytes_eqb a b = bytes_eqb b a.
Proof.
  destruct (bytes_eqb a b) eqn:E.
  - apply bytes_eqb_eq in E. subst. symmetry. apply bytes_eqb_refl.
  - apply bytes_eqb_neq in E. symmetry. apply bytes_eqb_neq. congruence.
Qed.

Lemma is_prefix_app a r : is_prefix a (a ++ r) = true.
Proof. induction a as [|x a IH]; cbn; [reflexivity|]. now rewrite Z.eqb_refl, IH. Qed.

Lemma is_prefix_iff a b : is_prefix a b = true <-> exists r, b = a ++ r.
Proof.
  split.
  - revert b. induction a as [|x a IH]; intros b H.
    + now exists b.
    + destruct b as [|y b]; cbn in H; [discriminate|].
      apply andb_true_iff in H as [Hxy Hab]. apply Z.eqb_eq in Hxy. subst y.
      destruct (IH _ Hab) as [r ->]. now exists r.
  - intros [r ->]. apply is_prefix_app.
Qed.

(* a key between lo and lo ++ s in the iteration order starts with lo *)
Lemma lex_between_prefix lo : forall k s,
  lex_leb lo k = true -> lex_ltb k (lo ++ s) = true -> is_prefix lo k = true.
Proof.
  induction lo as [|x lo IH]; intros k s Hle Hlt; [reflexivity|].
  destruct k as [|y k]; unfold lex_leb in *; cbn in *; [discriminate|].
  destruct (y <? x) eqn:Eyx; [discriminate|].
  destruct (x <? y) eqn:Exy; [discriminate|].
  apply Z.ltb_ge in Eyx. apply Z.ltb_ge in Exy.
  assert (Hxy : x = y) by lia. subst y. rewrite Z.eqb_refl. cbn.
  apply (IH k s); assumption.
Qed.

(* ------------------------------------------------------------------ *)
(* 2. big-endian uint64                                                 *)
(* ------------------------------------------------------------------ *)

Lemma be64_length n : length (be64 n) = 8%nat.
Proof. reflexivity. Qed.

Lemma be_decode_be64 n : 0 <= n < two64 -> be_decode (be64 n) = n.
Proof.
  unfold two64. intros H. unfold be_decode, be64. cbn [fold_left].
  Z.div_mod_to_equations. lia.
Qed.

Lemma be64_injective n m : 0 <= n < two64 -> 0 <= m < two64 -> be64 n = be64 m -> n = m.
Proof.
  intros Hn Hm E. rewrite <- (be_decode_be64 n Hn), <- (be_decode_be64 m Hm). now rewrite E.
Qed.

Lemma len_nonneg b : 0 <= len b.
Proof. unfold len. lia. Qed.

Lemma firstn_8_be64 n r : firstn 8 (be64 n ++ r) = be64 n.
Proof. reflexivity. Qed.

Lemma skipn_8_be64 n r : skipn 8 (be64 n ++ r) = r.
Proof. reflexivity. Qed.

Lemma firstn_len_app (a r : bytes) : firstn (Z.to_nat (len a)) (a ++ r) = a.
Proof.
  unfold len. rewrite Nat2Z.id.
  rewrite firstn_app, Nat.sub_diag, firstn_all. cbn. apply List.app_nil_r.
Qed.

(* ------------------------------------------------------------------ *)
(* 3. decimal rendering                                                 *)
(* ------------------------------------------------------------------ *)

Lemma uint_bytes_inj u : forall v, uint_bytes u = uint_bytes v -> u = v.
Proof.
  induction u as [|u IH|u IH|u IH|u IH|u IH|u IH|u IH|u IH|u IH|u IH];
    intros v E; destruct v; cbn in E; try discriminate; try reflexivity;
    injection E as E; f_equal; now apply IH.
Qed.

Lemma decimal_injective (n m : N) : decimal n = decimal m -> n = m.
Proof.
  unfold decimal. intros E. apply uint_bytes_inj in E. now apply DecimalN.Unsigned.to_uint_inj.
Qed.

Lemma uint_bytes_length u : length (uint_bytes u) = nb_digits u.
Proof. induction u; cbn; congruence. Qed.

Lemma nb_digits_double u :
  (nb_digits (Little.double u) <= S (nb_digits u))%nat /\
  (nb_digits (Little.succ_double u) <= S (nb_digits u))%nat.
Proof.
  induction u as [|u [IH1 IH2]|u [IH1 IH2]|u [IH1 IH2]|u [IH1 IH2]|u [IH1 IH2]
                  |u [IH1 IH2]|u [IH1 IH2]|u [IH1 IH2]|u [IH1 IH2]|u [IH1 IH2]];
    cbn; split; lia.
Qed.

Lemma nb_digits_little p : (nb_digits (Pos.to_little_uint p) <= Pos.size_nat p)%nat.
Proof.
  induction p as [p IH|p IH|]; cbn.
  - pose proof (proj2 (nb_digits_double (Pos.to_little_uint p))). lia.
  - pose proof (proj1 (nb_digits_double (Pos.to_little_uint p))). lia.
  - lia.
Qed.

Lemma size_nat_bound n : forall p, Z.pos p < 2 ^ Z.of_nat n -> (Pos.size_nat p <= n)%nat.
Proof.
  induction n as [|n IH]; intros p Hp.
  - cbn in Hp. lia.
  - rewrite Nat2Z.inj_succ, Z.pow_succ_r in Hp by lia.
    destruct p as [p|p|]; cbn [Pos.size_nat].
    + apply le_n_S, IH. lia.
    + apply le_n_S, IH. lia.
    + lia.
Qed.

(* an id below 2^64 (FetchAndIncrementConsumerId issues uint64 ids) has at most 64 digits *)
Lemma decimal_len_bound n : (n < 18446744073709551616)%N -> len (decimal n) <= 64.
Proof.
  intros Hn. unfold len, decimal. rewrite uint_bytes_length.
  destruct n as [|p]; [cbn; lia|].
  cbn [N.to_uint]. unfold Pos.to_uint. rewrite nb_digits_rev.
  pose proof (nb_digits_little p) as H.
  assert (Hs : (Pos.size_nat p <= 64)%nat).
  { apply size_nat_bound.
    replace (2 ^ Z.of_nat 64) with 18446744073709551616 by (vm_compute; reflexivity). lia. }
  lia.
Qed.

Lemma decimal_len_lt n : (n < 18446744073709551616)%N -> len (decimal n) < two64.
Proof. intros H. apply decimal_len_bound in H. unfold two64. lia. Qed.

(* ------------------------------------------------------------------ *)
(* 4. the prefix table                                                  *)
(* ------------------------------------------------------------------ *)

Lemma nodupb_NoDup l : nodupb l = true -> NoDup l.
Proof.
  induction l as [|x l IH]; intros H; [constructor|].
  cbn in H. apply andb_true_iff in H as [Hx Hl]. constructor; [|now apply IH].
  intros Hin. apply negb_true_iff in Hx.
  assert (Hex : existsb (Z.eqb x) l = true).
  { apply existsb_exists. exists x. split; [exact Hin|apply Z.eqb_refl]. }
  congruence.
Qed.

Lemma prefix_bytes_distinct : NoDup prefix_bytes.
Proof. apply nodupb_NoDup. vm_compute. reflexivity. Qed.

(* a byte has one kind: the legacy and the length-prefixed spaces are disjoint *)
Lemma lenfam_not_legacy p : is_lenfam p = true -> is_legacy p = false.
Proof.
  unfold is_lenfam, is_legacy, KLen, KLenSuf, KLegacy. intros H.
  apply orb_true_iff in H as [H|H]; apply Z.eqb_eq in H; rewrite H; reflexivity.
Qed.

(* ------------------------------------------------------------------ *)
(* 5. isolation of the length-prefixed key spaces                       *)
(* ------------------------------------------------------------------ *)

Lemma app_eq_same_length {A} (a b c d : list A) :
  length a = length b -> a ++ c = b ++ d -> a = b /\ c = d.
Proof.
  revert b. induction a as [|x a IH]; intros [|y b] Hl E; cbn in *; try discriminate.
  - now split.
  - injection E as -> E. destruct (IH b) as [-> ->]; [lia|exact E|]. now split.
Qed.

Lemma len_prefix_isolation p id1 id2 rest :
  len id1 < two64 -> len id2 < two64 ->
  is_prefix (lenkey p id1) (lenkey p id2 ++ rest) = true -> id1 = id2.
Proof.
  intros H1 H2 Hp. apply is_prefix_iff in Hp as [r E].
  unfold lenkey in E.
  assert (L1 : length (be64 (len id1)) = 8%nat) by reflexivity.
  assert (L2 : length (be64 (len id2)) = 8%nat) by reflexivity.
  remember (be64 (len id1)) as b1 eqn:Hb1. remember (be64 (len id2)) as b2 eqn:Hb2.
  rewrite <- !app_comm_cons in E. injection E as E.
  rewrite <- !app_assoc in E. symmetry in E.
  apply app_eq_same_length in E as [E8 E]; [|congruence].
  subst b1 b2.
  apply be64_injective in E8; [|split; [apply len_nonneg|assumption] ..].
  apply app_eq_same_length in E as [E _]; [congruence|].
  unfold len in E8. lia.
Qed.

(* the same with different prefix bytes: nothing is shared across spaces either *)
Lemma len_prefix_isolation_bytes p1 p2 id1 id2 rest :
  len id1 < two64 -> len id2 < two64 ->
  is_prefix (lenkey p1 id1) (lenkey p2 id2 ++ rest) = true -> p1 = p2 /\ id1 = id2.
Proof.
  intros H1 H2 Hp.
  assert (Hpp : p1 = p2).
  { unfold lenkey in Hp. cbn in Hp. apply andb_true_iff in Hp as [Hp _]. now apply Z.eqb_eq in Hp. }
  subst p2. split; [reflexivity|]. eapply len_prefix_isolation; eassumption.
Qed.

(* ------------------------------------------------------------------ *)
(* 6. attribution: decode after encode                                  *)
(* ------------------------------------------------------------------ *)

Lemma decode_legacy p id : is_legacy p = true -> decode_owner (legacy p id) = Some (p, id).
Proof. intros H. unfold decode_owner, legacy. now rewrite H. Qed.

Lemma decode_lenkey p id suf :
  is_lenfam p = true -> len id < two64 -> decode_owner (lenkey p id ++ suf) = Some (p, id).
Proof.
  intros Hf Hl. unfold decode_owner, lenkey. rewrite <- app_comm_cons.
  rewrite (lenfam_not_legacy _ Hf), Hf.
  rewrite <- app_assoc, firstn_8_be64, skipn_8_be64.
  rewrite be_decode_be64 by (split; [apply len_nonneg|exact Hl]).
  assert (H8 : (8 <=? len (be64 (len id) ++ id ++ suf)) = true).
  { apply Z.leb_le. unfold len at 1. rewrite app_length, be64_length. lia. }
  assert (Hb : (len id <=? len (id ++ suf)) = true).
  { apply Z.leb_le. unfold len. rewrite app_length. lia. }
  rewrite H8, Hb. cbn [andb]. now rewrite firstn_len_app.
Qed.

Lemma decode_pc_key p id suf :
  is_legacy p || is_lenfam p = true -> len id < two64 ->
  decode_owner (pc_key p id suf) = Some (p, id).
Proof.
  intros Hk Hl. unfold pc_key. destruct (is_legacy p) eqn:El.
  - now apply decode_legacy.
  - cbn in Hk. destruct (kind_of p =? KLen) eqn:Ek.
    + rewrite <- (List.app_nil_r (lenkey p id)). now apply decode_lenkey.
    + unfold lenkey_suf. now apply decode_lenkey.
Qed.

(* [build] is the constructor table of the driver's "keys" part *)
Lemma decode_build p id suf :
  is_legacy p || is_lenfam p = true -> len id < two64 ->
  decode_owner (build p id suf) = Some (p, id).
Proof.
  intros Hk Hl. rewrite <- (decode_pc_key p id suf Hk Hl). f_equal.
  unfold build, pc_key, is_legacy, is_lenfam in *.
  destruct (kind_of p =? KLegacy) eqn:E2.
  - apply Z.eqb_eq in E2. rewrite E2. reflexivity.
  - cbn in Hk. apply orb_true_iff in Hk as [E|E]; apply Z.eqb_eq in E; rewrite E; reflexivity.
Qed.

(* any key that starts with the iteration prefix of consumer c is attributed to c *)
Lemma decode_of_prefixed p c k :
  is_lenfam p = true -> len c < two64 ->
  is_prefix (lenkey p c) k = true -> decode_owner k = Some (p, c).
Proof.
  intros Hf Hl Hp. apply is_prefix_iff in Hp as [r ->]. now apply decode_lenkey.
Qed.

(* ------------------------------------------------------------------ *)
(* 7. the range of ConsumeConsumerAddrsToPrune                          *)
(* ------------------------------------------------------------------ *)

Lemma range_keys_prefixed p c ts k :
  lex_leb (lenkey p c) k = true -> lex_ltb k (lenkey_suf p c ts ++ [0]) = true ->
  is_prefix (lenkey p c) k = true.
Proof.
  intros Hlo Hhi. unfold lenkey_suf in Hhi. rewrite <- app_assoc in Hhi.
  eapply lex_between_prefix; eassumption.
Qed.

Lemma range_prune p c ts c' ts' :
  len c < two64 -> len c' < two64 ->
  lex_leb (lenkey p c) (lenkey_suf p c' ts') = true ->
  lex_ltb (lenkey_suf p c' ts') (lenkey_suf p c ts ++ [0]) = true ->
  c' = c.
Proof.
  intros Hc Hc' Hlo Hhi. symmetry.
  apply (len_prefix_isolation p c c' ts' Hc Hc').
  eapply range_keys_prefixed; eassumption.
Qed.

(* ------------------------------------------------------------------ *)
(* 8. the abstract store                                                *)
(* ------------------------------------------------------------------ *)

Lemma sget_sset_other k k' v s : k <> k' -> sget k' (sset k v s) = sget k' s.
Proof.
  intros Hne. induction s as [|[k0 v0] t IH]; unfold sget in *; cbn.
  - apply bytes_eqb_neq in Hne. now rewrite Hne.
  - destruct (lex_ltb k k0) eqn:El.
    + cbn. apply bytes_eqb_neq in Hne. now rewrite Hne.
    + destruct (bytes_eqb k k0) eqn:Ee.
      * apply bytes_eqb_eq in Ee. subst k0. cbn.
        apply bytes_eqb_neq in Hne. now rewrite Hne.
      * cbn. destruct (bytes_eqb k0 k'); [reflexivity|exact IH].
Qed.

Lemma sget_sset_same k v s : sget k (sset k v s) = Some v.
Proof.
  induction s as [|[k0 v0] t IH]; unfold sget in *; cbn.
  - now rewrite bytes_eqb_refl.
  - destruct (lex_ltb k k0); [cbn; now rewrite bytes_eqb_refl|].
    destruct (bytes_eqb k k0) eqn:Ee; cbn; [now rewrite bytes_eqb_refl|].
    rewrite bytes_eqb_sym, Ee. exact IH.
Qed.

(* a filter on keys that keeps k does not change what is stored under k *)
Lemma sget_filter_keep (f : bytes -> bool) k s :
  f k = true -> sget k (filter (fun kv => f (fst kv)) s) = sget k s.
Proof.
  intros Hk. induction s as [|[k0 v0] t IH]; unfold sget in *; cbn; [reflexivity|].
  destruct (f k0) eqn:Ef; cbn.
  - destruct (bytes_eqb k0 k); [reflexivity|exact IH].
  - destruct (bytes_eqb k0 k) eqn:Ee; [|exact IH].
    apply bytes_eqb_eq in Ee. congruence.
Qed.

Lemma sget_sdel_other k k' s : k <> k' -> sget k' (sdel k s) = sget k' s.
Proof.
  intros Hne. unfold sdel.
  apply (sget_filter_keep (fun x => negb (bytes_eqb x k)) k' s).
  apply negb_true_iff, bytes_eqb_neq. congruence.
Qed.

Lemma sget_sdel_prefix_other pre k s :
  is_prefix pre k = false -> sget k (sdel_prefix pre s) = sget k s.
Proof.
  intros H. unfold sdel_prefix.
  apply (sget_filter_keep (fun x => negb (is_prefix pre x)) k s). now rewrite H.
Qed.

Lemma sget_sdel_range_other lo hi k s :
  lex_leb lo k && lex_ltb k hi = false -> sget k (sdel_range lo hi s) = sget k s.
Proof.
  intros H. unfold sdel_range.
  apply (sget_filter_keep (fun x => negb (lex_leb lo x && lex_ltb x hi)) k s). now rewrite H.
Qed.

(* ------------------------------------------------------------------ *)
(* 9. frame                                                             *)
(* ------------------------------------------------------------------ *)

Lemma frame_step s o k p c2 :
  len (op_consumer o) < two64 ->
  op_consumer o <> c2 ->
  decode_owner k = Some (p, c2) ->
  sget k (step s o) = sget k s.
Proof.
  intros Hl Hne Hd. destruct o as [q id suf v|q id suf|q id|q id ts]; cbn [op_consumer] in *; cbn [step].
  - destruct (is_legacy q || is_lenfam q) eqn:Hk; [|reflexivity].
    apply sget_sset_other. intros E. subst k. rewrite (decode_pc_key q id suf Hk Hl) in Hd. congruence.
  - destruct (is_legacy q || is_lenfam q) eqn:Hk; [|reflexivity].
    apply sget_sdel_other. intros E. subst k. rewrite (decode_pc_key q id suf Hk Hl) in Hd. congruence.
  - destruct (is_lenfam q) eqn:Hk; [|reflexivity].
    apply sget_sdel_prefix_other.
    destruct (is_prefix (lenkey q id) k) eqn:Ep; [|reflexivity].
    rewrite (decode_of_prefixed q id k Hk Hl Ep) in Hd. congruence.
  - destruct (kind_of q =? KLenSuf) eqn:Hk; [|reflexivity].
    assert (Hf : is_lenfam q = true) by (unfold is_lenfam; rewrite Hk; apply orb_true_r).
    apply sget_sdel_range_other.
    destruct (lex_leb (lenkey q id) k) eqn:Elo; [|reflexivity].
    destruct (lex_ltb k (lenkey_suf q id ts ++ [0])) eqn:Ehi; [|reflexivity].
    pose proof (range_keys_prefixed q id ts k Elo Ehi) as Ep.
    rewrite (decode_of_prefixed q id k Hf Hl Ep) in Hd. congruence.
Qed.

Lemma frame_steps ops : forall s k p c2,
  Forall (fun o => len (op_consumer o) < two64 /\ op_consumer o <> c2) ops ->
  decode_owner k = Some (p, c2) ->
  sget k (fold_left step ops s) = sget k s.
Proof.
  induction ops as [|o ops IH]; intros s k p c2 Hall Hd; [reflexivity|].
  inversion Hall as [|? ? [Hl Hne] Hrest]; subst. cbn [fold_left].
  rewrite (IH (step s o) k p c2 Hrest Hd). eapply frame_step; eassumption.
Qed.

(* the same for numeric consumer ids rendered in decimal *)
Lemma frame_steps_ids ops : forall s k p (n2 : N),
  Forall (fun o => exists n1 : N, (n1 < 18446744073709551616)%N /\ n1 <> n2 /\
                                  op_consumer o = decimal n1) ops ->
  decode_owner k = Some (p, decimal n2) ->
  sget k (fold_left step ops s) = sget k s.
Proof.
  intros s k p n2 Hall Hd. eapply frame_steps; [|exact Hd].
  eapply Forall_impl; [|exact Hall]. cbn. intros o (n1 & Hlt & Hne & ->). split.
  - now apply decimal_len_lt.
  - intros E. apply decimal_injective in E. contradiction.
Qed.

(* ------------------------------------------------------------------ *)
(* 10. legacy keys: exact access is safe, prefix iteration is not       *)
(* ------------------------------------------------------------------ *)

Lemma legacy_exact p1 p2 id1 id2 : legacy p1 id1 = legacy p2 id2 -> p1 = p2 /\ id1 = id2.
Proof. unfold legacy. intros E. injection E as -> ->. now split. Qed.

Lemma legacy_prefix_1_10 p : is_prefix (legacy p (decimal 1)) (legacy p (decimal 10)) = true.
Proof. unfold legacy. cbn. now rewrite Z.eqb_refl. Qed.

(* a raw prefix iteration for consumer "1" over a legacy space destroys the entry of consumer "10" *)
Lemma legacy_prefix_iteration_breaks_isolation :
  exists (s : store) (k v : bytes),
    decode_owner k = Some (5, decimal 10) /\ decimal 1 <> decimal 10 /\
    sget k s = Some v /\ sget k (raw_prefix_delete 5 (decimal 1) s) = None.
Proof.
  exists [(legacy 5 (decimal 10), [7])], (legacy 5 (decimal 10)), [7].
  repeat split; try (vm_compute; reflexivity). vm_compute. discriminate.
Qed.

(* whereas the length-prefixed form of the same iteration leaves it alone *)
Lemma lenkey_not_prefix_1_10 p suf :
  is_prefix (lenkey p (decimal 1)) (lenkey_suf p (decimal 10) suf) = false.
Proof. unfold lenkey, lenkey_suf. cbn. rewrite Z.eqb_refl. reflexivity. Qed.

(* ------------------------------------------------------------------ *)
(* 11. iteration sites accepted by the lint monitor are isolated        *)
(* ------------------------------------------------------------------ *)

Lemma iter_ok_isolated p form c k :
  iter_ok p form = true -> (form = 1 \/ form = 4) -> len c < two64 ->
  is_prefix (lenkey p c) k = true -> decode_owner k = Some (p, c).
Proof.
  intros Hok Hform Hl Hp. apply decode_of_prefixed; try assumption.
  unfold iter_ok in Hok. destruct Hform as [-> | ->]; cbn in Hok; [exact Hok|].
  unfold is_lenfam. rewrite Hok. apply orb_true_r.
Qed.

(* ------------------------------------------------------------------ *)
(* 12. the store monitor is sound: it accepts every step of the model   *)
(* ------------------------------------------------------------------ *)

Lemma opt_eqb_refl a : opt_eqb a a = true.
Proof. destruct a; cbn; [apply bytes_eqb_refl|reflexivity]. Qed.

Lemma frame_ok_step s o :
  len (op_consumer o) < two64 -> frame_ok (op_consumer o) s (step s o) = true.
Proof.
  intros Hl. unfold frame_ok. apply forallb_forall. intros [k v] _. cbn [fst].
  unfold has_owner, owner_is. destruct (decode_owner k) as [[p c]|] eqn:Hd; [|reflexivity].
  cbn [negb orb]. destruct (bytes_eqb c (op_consumer o)) eqn:Ec; [reflexivity|].
  apply bytes_eqb_neq in Ec. cbn [orb].
  rewrite (frame_step s o k p c Hl (fun E => Ec (eq_sym E)) Hd). apply opt_eqb_refl.
Qed.
