(* Lemmas about Model/SlashKeys.v (KeyAssign x Slash): the composed run projects to a KeyAssign run, a slash packet
   touches exactly the validator KeyAssign.resolve names, and the validator table agrees with the staking registry. *)
From Coq Require Import ZArith List Bool Lia.
From ICS Require Import Base.Dec Base.Tree Model.Throttle.
From ICS Require Model.KeyAssign Model.Slash Proofs.KeyAssignProofs Proofs.SlashProofs.
From ICS Require Import Model.SlashKeys.
Import ListNotations.
Open Scope Z_scope.

Module KP := ICS.Proofs.KeyAssignProofs.
Module SP := ICS.Proofs.SlashProofs.

(* ---------- the KeyAssign component of a composed run is a KeyAssign run ---------- *)
Lemma ks_sstep : forall g s a,
  ks (fst (sstep g s a)) = match to_kop s a with Some o => fst (K.step (ks s) o) | None => ks s end.
Proof.
  intros g s a. destruct a as [a|o key tokens pow|o|total|c set|key jailed tomb status tokens lastpow|c k infr power h].
  - destruct a; try reflexivity;
      cbn [sstep to_kop]; destruct (K.step (ks s) _) as [k' e]; reflexivity.
  - cbn [sstep to_kop]. destruct (in_table (sl s) key); cbn [negb]; [|reflexivity].
    destruct (K.step (ks s) (K.OCreateVal o key)) as [k' e] eqn:E. destruct (e =? 0) eqn:Ee; cbn [fst ks]; [reflexivity|].
    symmetry. replace k' with (fst (K.step (ks s) (K.OCreateVal o key))) by (rewrite E; reflexivity).
    apply KP.step_err_unchanged. rewrite E. cbn [snd]. intros ->. discriminate.
  - cbn [sstep to_kop]. destruct (K.reg_by_oper o (K.s_reg (ks s))) eqn:E; cbn [fst ks]; [reflexivity|].
    cbn [K.step]. rewrite E. reflexivity.
  - reflexivity.
  - cbn [sstep to_kop]. destruct (S.getc (sl s) (Z.of_nat c)); reflexivity.
  - cbn [sstep to_kop]. destruct (S.v_found (S.getv (sl s) key)); reflexivity.
  - cbn [sstep to_kop]. destruct (has_channel (ks s) c); [|reflexivity].
    destruct (recv s c k infr power h). reflexivity.
Qed.

Lemma ks_srun : forall g ops s, ks (srun g ops s) = K.exec (ktrace g s ops) (ks s).
Proof.
  intros g ops. induction ops as [|a t IH]; intros s; [reflexivity|].
  cbn [srun fold_left ktrace]. fold (srun g t (fst (sstep g s a))). rewrite IH, ks_sstep.
  destruct (to_kop s a); reflexivity.
Qed.

Lemma ks_init : forall U nk m0 c0, ks (init_sys U nk m0 c0) = K.init U.
Proof. reflexivity. Qed.

Lemma reach_ks : forall g U nk m0 c0 ops,
  ks (srun g ops (init_sys U nk m0 c0)) = K.exec (ktrace g (init_sys U nk m0 c0) ops) (K.init U).
Proof. intros. rewrite ks_srun. reflexivity. Qed.

Lemma reach_sinv : forall g U nk m0 c0 ops, KP.sinv (ks (srun g ops (init_sys U nk m0 c0))).
Proof. intros. rewrite reach_ks. apply KP.reach_sinv. Qed.

(* ---------- the view ---------- *)
Lemma view_from_nth : forall k xs i n,
  nth_error (view_from k i xs) n =
  option_map (fun x => S.mkCo (K.c_phase (K.getc k (i + n))) (S.c_set x) (S.c_params x) (S.c_acks x)) (nth_error xs n).
Proof.
  intros k xs. induction xs as [|x t IH]; intros i n.
  - destruct n; reflexivity.
  - destruct n as [|n]; cbn [view_from nth_error option_map].
    + rewrite Nat.add_0_r. reflexivity.
    + rewrite IH. replace (Datatypes.S i + n)%nat with (i + Datatypes.S n)%nat by lia. reflexivity.
Qed.

Lemma getc_view : forall k s c,
  S.getc (view k s) (Z.of_nat c) =
  option_map (fun x => S.mkCo (K.c_phase (K.getc k c)) (S.c_set x) (S.c_params x) (S.c_acks x)) (S.getc s (Z.of_nat c)).
Proof.
  intros k s c. unfold S.getc, view. cbn [S.conss].
  replace (Z.of_nat c <? 0) with false by (symmetry; apply Z.ltb_ge; lia).
  rewrite Nat2Z.id. apply (view_from_nth k (S.conss s) 0 c).
Qed.

Lemma getv_view : forall k s i, S.getv (view k s) i = S.getv s i.
Proof. reflexivity. Qed.

(* ---------- a slash packet in the composed machine ---------- *)
(* every condition under which the report jails its target *)
Definition sys_jail_cond (s : sys) (c : nat) (infr power : Z) (h : option Z) (P : Z) : bool :=
  has_channel (ks s) c && S.jail_cond (view (ks s) (sl s)) (Z.of_nat c) infr true power h P.

Lemma sys_jail_cond_spec : forall s c infr power h P,
  sys_jail_cond s c infr power h P = true <->
  K.c_phase (K.getc (ks s) c) = 3 /\
  exists x height,
    S.getc (sl s) (Z.of_nat c) = Some x /\ h = Some height /\
    S.validate true power infr = true /\ infr = S.DOWNTIME /\
    In P (S.c_set x) /\ 0 <= meter (S.thr (sl s)) /\
    S.v_found (S.getv (sl s) P) = true /\ S.v_status (S.getv (sl s) P) <> S.UNBONDED /\
    S.v_tomb (S.getv (sl s) P) = false /\ S.v_jailed (S.getv (sl s) P) = false /\
    S.c_params x <> None.
Proof.
  intros s c infr power h P. unfold sys_jail_cond. rewrite andb_true_iff, SP.jail_cond_spec.
  rewrite getc_view. split.
  - intros [Hch (x & height & Hx & Hh & Hv & Hi & Hp & Hm & Hmet & Hrest)].
    destruct (S.getc (sl s) (Z.of_nat c)) as [y|] eqn:Ey; [|discriminate]. cbn [option_map] in Hx.
    inversion Hx; subst x. cbn [S.c_phase S.c_set S.c_params] in *.
    split; [exact Hp|]. exists y, height. repeat split; auto; apply Hrest.
  - intros [Hp (x & height & Hx & Hh & Hv & Hi & Hm & Hmet & Hrest)].
    split; [unfold has_channel; rewrite Hp; reflexivity|].
    rewrite Hx. cbn [option_map]. eexists. exists height. split; [reflexivity|].
    cbn [S.c_phase S.c_set S.c_params]. repeat split; auto; apply Hrest.
Qed.

Lemma recv_step : forall g s c k infr power h,
  fst (sstep g s (SRecvSlash c k infr power h)) =
  if has_channel (ks s) c then mkSys (ks s) (snd (recv s c k infr power h)) else s.
Proof.
  intros. cbn [sstep]. destruct (has_channel (ks s) c); [|reflexivity].
  destruct (recv s c k infr power h). reflexivity.
Qed.

(* exactly the validator [target s c k] can be affected, it is jailed iff all conditions hold, and the
   key-assignment state is untouched *)
Lemma report_exact : forall g s c k infr power h,
  let P := target s c k in
  let s' := fst (sstep g s (SRecvSlash c k infr power h)) in
  (forall i, i <> P -> S.getv (sl s') i = S.getv (sl s) i) /\
  ((S.v_jailed (S.getv (sl s') P) = true /\ S.v_jailed (S.getv (sl s) P) = false)
     <-> sys_jail_cond s c infr power h P = true) /\
  (sys_jail_cond s c infr power h P = false -> S.vals (sl s') = S.vals (sl s)) /\
  S.v_found (S.getv (sl s') P) = S.v_found (S.getv (sl s) P) /\
  ks s' = ks s.
Proof.
  intros g s c k infr power h P s'. unfold s'. rewrite recv_step. unfold sys_jail_cond.
  destruct (has_channel (ks s) c) eqn:Hc; cbn [andb sl ks].
  - unfold recv. fold P.
    pose proof (SP.recv_frame (view (ks s) (sl s)) (Z.of_nat c) k infr true power h P (K.s_now (ks s))) as Hf.
    pose proof (SP.jail_iff (view (ks s) (sl s)) (Z.of_nat c) k infr true power h P (K.s_now (ks s))) as Hj.
    pose proof (SP.recv_vals (view (ks s) (sl s)) (Z.of_nat c) k infr true power h P (K.s_now (ks s))) as Hv.
    pose proof (SP.nobody_else_run 0 0 (view (ks s) (sl s)) []
                  (S.ORecv (Z.of_nat c) k infr true power h P (K.s_now (ks s)))) as Hn.
    cbn [fold_left] in Hn. rewrite SP.step_recv in Hn. destruct Hn as (_ & _ & _ & Hfound & _).
    split; [exact Hf|]. split; [exact Hj|]. split; [|split; [exact Hfound|reflexivity]].
    intros Hc0. rewrite Hc0 in Hv. exact Hv.
  - split; [reflexivity|]. split; [|split; [reflexivity|split; reflexivity]].
    split; [intros [H1 H2]; congruence|discriminate].
Qed.

(* ---------- the validator table agrees with the staking registry ---------- *)
Definition found_ok (s : sys) : Prop :=
  forall key, S.v_found (S.getv (sl s) key) = true <-> K.reg_by_key key (K.s_reg (ks s)) <> None.

Lemma reg_step_other : forall k a,
  match a with K.OCreateVal _ _ | K.ORemoveVal _ => True | _ => K.s_reg (fst (K.step k a)) = K.s_reg k end.
Proof.
  intros k a. destruct a as [c o key sok|c o key sok|o key|o| |c|c|c ok|c| | |dt|c key]; cbn [K.step]; auto.
  - destruct sok; cbn; auto. destruct (K.reg_by_oper o (K.s_reg k)); cbn; auto.
    destruct (K.assign_c _ _ _ _ _ _ _) as [x e]. destruct (e =? 0); reflexivity.
  - destruct sok; cbn; auto. destruct (K.reg_by_oper o (K.s_reg k)); cbn; auto.
    destruct (K.optin_c _ _ _ _ _ _ _) as [x e]. destruct (e =? 0); reflexivity.
  - destruct (K.c_phase (K.getc k c) =? 1); reflexivity.
  - destruct (K.c_phase (K.getc k c) =? 2); reflexivity.
  - destruct (K.c_phase (K.getc k c) =? 0); cbn; auto. destruct ok; cbn; auto.
    destruct (K.c_phase (K.getc k c) =? 3); reflexivity.
  - destruct (K.c_phase (K.getc k c) =? 4); reflexivity.
  - destruct (K.c_phase (K.getc k c) =? 3); cbn; auto.
    destruct (K.reg_by_key _ _); cbn; auto. destruct (K.mem _ _); reflexivity.
Qed.

Lemma getv_setv : forall s i j v,
  S.getv (S.setv s i v) j = if (i =? j) && S.v_found (S.getv s i) then v else
                            if i =? j then S.getv (S.setv s i v) j else S.getv s j.
Proof.
  intros s i j v. destruct (i =? j) eqn:E; cbn [andb].
  - apply Z.eqb_eq in E. subst j. destruct (S.v_found (S.getv s i)) eqn:F; [|reflexivity].
    apply SP.found_in_range in F. destruct F. apply SP.getv_setv_eq; auto.
  - apply Z.eqb_neq in E. apply SP.getv_setv_neq; auto.
Qed.

Lemma rbk_removed : forall reg o P, KP.reg_ok reg -> K.lookup o reg = Some P ->
  K.reg_by_key P (K.remove_key o reg) = None.
Proof.
  intros reg o P [Hf Hs] Ho. destruct (K.reg_by_key P (K.remove_key o reg)) as [o'|] eqn:E; [|reflexivity].
  apply KP.rbk_in in E. apply filter_In in E. destruct E as [Hin Hne]. cbn [fst] in Hne.
  apply KP.lookup_in in Ho.
  pose proof (KP.in_rbk_nd _ _ _ Hs Hin). pose proof (KP.in_rbk_nd _ _ _ Hs Ho).
  assert (o' = o) by congruence. subst o'. rewrite Z.eqb_refl in Hne. discriminate.
Qed.

Lemma rbk_remove_other : forall reg o P key, KP.reg_ok reg -> K.lookup o reg = Some P -> key <> P ->
  (K.reg_by_key key (K.remove_key o reg) <> None <-> K.reg_by_key key reg <> None).
Proof.
  intros reg o P key [Hf Hs] Ho Hne. split; [apply KP.rbk_remove_mono|].
  intros H. destruct (K.reg_by_key key reg) as [o'|] eqn:E; [|congruence].
  apply KP.rbk_in in E. apply (KP.in_rbk key _ o'). apply filter_In. split; auto. cbn [fst].
  destruct (o' =? o) eqn:Eo; [|reflexivity]. apply Z.eqb_eq in Eo. subst o'.
  apply (KP.in_lookup_nd _ _ _ Hf) in E. congruence.
Qed.

Lemma skey_vals : forall g s a, S.vals (sl (fst (sstep g s (SKey a)))) = S.vals (sl s).
Proof.
  intros g s a. destruct a; try reflexivity; cbn [sstep]; destruct (K.step (ks s) _) as [k' e]; reflexivity.
Qed.

Lemma skey_reg : forall g s a, K.s_reg (ks (fst (sstep g s (SKey a)))) = K.s_reg (ks s).
Proof.
  intros g s a. rewrite ks_sstep.
  destruct a; cbn [to_kop]; try reflexivity;
    match goal with |- K.s_reg (fst (K.step ?k ?o)) = _ => exact (reg_step_other k o) end.
Qed.

Lemma found_ok_step : forall g s a, KP.sinv (ks s) -> found_ok s -> found_ok (fst (sstep g s a)).
Proof.
  intros g s a Hs Hok.
  destruct a as [a|o key tokens pow|o|total|c set|key jailed tomb status tokens lastpow|c k infr power h].
  - intros key0. unfold S.getv. rewrite skey_vals, skey_reg. apply Hok.
  - cbn [sstep]. destruct (in_table (sl s) key) eqn:Et; cbn [negb]; [|exact Hok].
    destruct (K.step (ks s) (K.OCreateVal o key)) as [k' e] eqn:E. destruct (e =? 0) eqn:Ee; cbn [fst]; [|exact Hok].
    cbn [K.step] in E. destruct (K.reg_by_oper o (K.s_reg (ks s))); [inversion E; subst; discriminate|].
    destruct (K.reg_by_key key (K.s_reg (ks s))); [inversion E; subst; discriminate|].
    destruct (K.key_in_use key (K.s_cons (ks s))); inversion E; subst; [discriminate|].
    intros key0. cbn [sl ks K.s_reg K.reg_by_key].
    unfold in_table in Et. apply andb_true_iff in Et. destruct Et as [E0 E1]. apply Z.leb_le in E0. apply Z.ltb_lt in E1.
    destruct (Z.eq_dec key key0) as [->|Hne].
    + rewrite SP.getv_setv_eq by (auto; lia). rewrite Z.eqb_refl. cbn. split; [discriminate|reflexivity].
    + rewrite SP.getv_setv_neq by auto. replace (key =? key0) with false by (symmetry; apply Z.eqb_neq; auto). apply Hok.
  - cbn [sstep]. destruct (K.reg_by_oper o (K.s_reg (ks s))) as [P|] eqn:Eo; [|exact Hok].
    cbn [fst sl ks K.step]. rewrite Eo. cbn [fst K.s_reg]. destruct Hs as [Hreg _]. intros key0. cbn [sl ks K.s_reg].
    assert (Hfound : S.v_found (S.getv (sl s) P) = true).
    { apply Hok. apply (KP.in_rbk P _ o). apply KP.lookup_in. exact Eo. }
    destruct (SP.found_in_range _ _ Hfound) as [R0 R1].
    destruct (Z.eq_dec P key0) as [->|Hne].
    + rewrite SP.getv_setv_eq by auto. rewrite (rbk_removed _ o key0 Hreg Eo). cbn. split; [discriminate|congruence].
    + rewrite SP.getv_setv_neq by auto. rewrite (rbk_remove_other _ o P key0 Hreg Eo) by auto. apply Hok.
  - intros key0. pose proof (ks_sstep g s (SBeginBlock total)) as Hk. cbn [to_kop] in Hk. rewrite Hk.
    cbn [K.step fst K.with_cons K.s_reg]. apply Hok.
  - cbn [sstep]. destruct (S.getc (sl s) (Z.of_nat c)); [|exact Hok].
    intros key0. cbn [fst sl ks]. unfold S.getv. rewrite SP.vals_setc. apply Hok.
  - cbn [sstep]. destruct (S.v_found (S.getv (sl s) key)) eqn:F; [|exact Hok].
    intros key0. cbn [fst sl ks]. destruct (SP.found_in_range _ _ F) as [R0 R1].
    destruct (Z.eq_dec key key0) as [->|Hne].
    + rewrite SP.getv_setv_eq by auto. cbn [S.v_found]. split; [intros _; apply Hok; exact F|reflexivity].
    + rewrite SP.getv_setv_neq by auto. apply Hok.
  - pose proof (report_exact g s c k infr power h) as (Hf & _ & _ & Hfound & Hks).
    intros key0. rewrite Hks. destruct (Z.eq_dec key0 (target s c k)) as [->|Hne].
    + rewrite Hfound. apply Hok.
    + rewrite Hf by auto. apply Hok.
Qed.

Lemma found_ok_init : forall U nk m0 c0, found_ok (init_sys U nk m0 c0).
Proof.
  intros U nk m0 c0 key. cbn. split; [|congruence]. unfold S.getv. cbn [S.vals].
  destruct (key <? 0); [discriminate|]. intros H. exfalso.
  assert (A : forall n m, S.v_found (nth m (repeat S.vdflt n) S.vdflt) = false).
  { induction n; destruct m; cbn; auto. }
  rewrite A in H. discriminate.
Qed.

Lemma reach_found_ok : forall g U nk m0 c0 ops, found_ok (srun g ops (init_sys U nk m0 c0)).
Proof.
  intros g U nk m0 c0 ops.
  assert (G : forall ops s, KP.sinv (ks s) -> found_ok s -> found_ok (srun g ops s)).
  { induction ops0 as [|a t IH]; intros s Hs Hok; [exact Hok|].
    cbn [srun fold_left]. apply IH.
    - rewrite ks_sstep. destruct (to_kop s a); [apply KP.step_sinv|]; exact Hs.
    - apply found_ok_step; auto. }
  apply G; [apply KP.sinv_init|apply found_ok_init].
Qed.

Lemma inv_srun : forall g ops s, KP.sinv (ks s) -> found_ok s ->
  KP.sinv (ks (srun g ops s)) /\ found_ok (srun g ops s).
Proof.
  intros g ops. induction ops as [|a t IH]; intros s Hs Hok; [split; assumption|].
  cbn [srun fold_left]. apply IH.
  - rewrite ks_sstep. destruct (to_kop s a); [apply KP.step_sinv|]; exact Hs.
  - apply found_ok_step; auto.
Qed.

Definition report (g : cfg) (s : sys) (c : nat) (k infr power : Z) (h : option Z) : sys :=
  fst (sstep g s (SRecvSlash c k infr power h)).

(* what a report does, in a state whose validator table agrees with the registry *)
Definition report_facts (g : cfg) (s : sys) (c : nat) (k infr power : Z) (h : option Z) (P : Z) : Prop :=
  let s' := report g s c k infr power h in
  (forall i, i <> P -> S.getv (sl s') i = S.getv (sl s) i) /\
  ((S.v_jailed (S.getv (sl s') P) = true /\ S.v_jailed (S.getv (sl s) P) = false)
     <-> sys_jail_cond s c infr power h P = true) /\
  (K.reg_by_key P (K.s_reg (ks s)) = None -> S.vals (sl s') = S.vals (sl s)) /\
  ks s' = ks s.

Lemma report_on_target : forall g s c k infr power h,
  found_ok s -> report_facts g s c k infr power h (target s c k).
Proof.
  intros g s c k infr power h Hok. unfold report_facts, report.
  pose proof (report_exact g s c k infr power h) as (Hf & Hj & Hv & _ & Hks).
  split; [exact Hf|]. split; [exact Hj|]. split; [|exact Hks].
  intros Hnone. apply Hv.
  destruct (sys_jail_cond s c infr power h (target s c k)) eqn:E; [|reflexivity].
  apply sys_jail_cond_spec in E. destruct E as [_ (x & height & _ & _ & _ & _ & _ & _ & Hfound & _)].
  apply Hok in Hfound. congruence.
Qed.

(* every validator associated with key k on an active consumer IS the target of a report for k *)
Lemma assoc_resolve : forall k c key P,
  KP.sinv k -> K.is_active (K.c_phase (K.getc k c)) = true -> KP.assoc k c key P -> K.resolve k c key = P.
Proof.
  intros k c key P Hs Ha Has. pose proof (KP.sinv_getc k c Hs) as Hc.
  unfold K.resolve, K.resolve_c. destruct Has as [H|[H|[He Hr]]].
  - rewrite (KP.J4 _ _ Hc _ _ H). reflexivity.
  - rewrite H. reflexivity.
  - subst key. destruct (K.lookup P (K.c_byaddr (K.getc k c))) as [P'|] eqn:E; [|reflexivity].
    symmetry. apply (KP.J6 _ _ Hc Ha P P' E Hr).
Qed.

Lemma skey_step : forall g s a s1,
  (exists c o k', a = K.OAssign c o k' true \/ a = K.OOptIn c o (Some k') true) ->
  sstep g s (SKey a) = (s1, 0) -> K.step (ks s) a = (ks s1, 0) /\ s1 = fst (sstep g s (SKey a)).
Proof.
  intros g s a s1 (c & o & k' & [-> | ->]) H; cbn [sstep] in *;
    destruct (K.step (ks s) _) as [k1 e] eqn:E; inversion H; subst; cbn [ks fst]; split; reflexivity.
Qed.

Lemma old_key_punished : forall g U nk m0 c0 ops0 c a P k s1 ops infr power h,
  let s0 := srun g ops0 (init_sys U nk m0 c0) in
  K.c_phase (K.getc (ks s0) c) = 3 -> K.lookup P (K.c_assigned (K.getc (ks s0) c)) = Some k ->
  KP.replaces (ks s0) c P a -> sstep g s0 (SKey a) = (s1, 0) ->
  KP.quiet c (K.s_now (ks s0) + U) (ktrace g s1 ops) (ks s1) ->
  let s2 := srun g ops s1 in
  target s2 c k = P /\ report_facts g s2 c k infr power h P.
Proof.
  intros g U nk m0 c0 ops0 c a P k s1 ops infr power h s0 Hph Hl Hr Hstep Hq s2.
  assert (Hform : exists c' o k', a = K.OAssign c' o k' true \/ a = K.OOptIn c' o (Some k') true).
  { destruct Hr as (o & k' & Ha & _). exists c, o, k'. exact Ha. }
  destruct (skey_step g s0 a s1 Hform Hstep) as [Hk Hs1].
  assert (Ht : target s2 c k = P).
  { unfold target, s2. rewrite ks_srun.
    pose proof (KP.attributable U (ktrace g (init_sys U nk m0 c0) ops0) c a P k (ks s1) (ktrace g s1 ops)) as A.
    cbn zeta in A. unfold s0 in Hph, Hl, Hr, Hk, Hq. rewrite reach_ks in Hph, Hl, Hr, Hk, Hq.
    apply (A Hph Hl Hr Hk Hq). }
  split; [exact Ht|]. rewrite <- Ht.
  apply report_on_target.
  pose proof (reach_sinv g U nk m0 c0 ops0) as I0. pose proof (reach_found_ok g U nk m0 c0 ops0) as F0.
  fold s0 in I0, F0.
  assert (I1 : KP.sinv (ks s1)).
  { replace (ks s1) with (fst (K.step (ks s0) a)) by (rewrite Hk; reflexivity). apply KP.step_sinv. exact I0. }
  assert (F1 : found_ok s1) by (rewrite Hs1; apply found_ok_step; auto).
  apply (inv_srun g ops s1 I1 F1).
Qed.

Lemma forgotten_key_harmless : forall g U nk m0 c0 ops0 c a P k s1 ops infr power h,
  let s0 := srun g ops0 (init_sys U nk m0 c0) in
  K.c_phase (K.getc (ks s0) c) = 3 -> K.lookup P (K.c_assigned (K.getc (ks s0) c)) = Some k ->
  KP.replaces (ks s0) c P a -> sstep g s0 (SKey a) = (s1, 0) ->
  KP.quiet c (K.s_now (ks s0) + U) (ktrace g s1 ops) (ks s1) ->
  K.s_now (ks s0) + U <= K.s_now (ks (srun g ops s1)) ->
  let s3 := fst (sstep g (srun g ops s1) (SKey K.OEndBlock)) in
  target s3 c k = k /\ report_facts g s3 c k infr power h k.
Proof.
  intros g U nk m0 c0 ops0 c a P k s1 ops infr power h s0 Hph Hl Hr Hstep Hq Hle s3.
  assert (Hform : exists c' o k', a = K.OAssign c' o k' true \/ a = K.OOptIn c' o (Some k') true).
  { destruct Hr as (o & k' & Ha & _). exists c, o, k'. exact Ha. }
  destruct (skey_step g s0 a s1 Hform Hstep) as [Hk Hs1].
  assert (Ht : target s3 c k = k).
  { unfold target, s3. rewrite ks_sstep. cbn [to_kop]. rewrite ks_srun.
    pose proof (KP.forgotten_after U (ktrace g (init_sys U nk m0 c0) ops0) c a P k (ks s1) (ktrace g s1 ops)) as A.
    cbn zeta in A. unfold s0 in Hph, Hl, Hr, Hk, Hq, Hle. rewrite reach_ks in Hph, Hl, Hr, Hk, Hq, Hle. rewrite ks_srun in Hle.
    destruct (A Hph Hl Hr Hk Hq Hle) as (_ & _ & Hres & _). exact Hres. }
  split; [exact Ht|]. rewrite <- Ht at 2.
  apply report_on_target.
  pose proof (reach_sinv g U nk m0 c0 ops0) as I0. pose proof (reach_found_ok g U nk m0 c0 ops0) as F0.
  fold s0 in I0, F0.
  assert (I1 : KP.sinv (ks s1)).
  { replace (ks s1) with (fst (K.step (ks s0) a)) by (rewrite Hk; reflexivity). apply KP.step_sinv. exact I0. }
  assert (F1 : found_ok s1) by (rewrite Hs1; apply found_ok_step; auto).
  destruct (inv_srun g ops s1 I1 F1) as [I2 F2].
  apply found_ok_step; auto.
Qed.

Lemma unique_target : forall g U nk m0 c0 ops c k P,
  let s := srun g ops (init_sys U nk m0 c0) in
  K.is_active (K.c_phase (K.getc (ks s) c)) = true -> KP.assoc (ks s) c k P -> target s c k = P.
Proof.
  intros g U nk m0 c0 ops c k P s Ha Has. apply assoc_resolve; auto. apply reach_sinv.
Qed.

Lemma never_assigned : forall g U nk m0 c0 ops c k infr power h,
  let s := srun g ops (init_sys U nk m0 c0) in
  (forall a, In a (ktrace g (init_sys U nk m0 c0) ops) -> KP.names a c k = false) ->
  target s c k = k /\ report_facts g s c k infr power h k.
Proof.
  intros g U nk m0 c0 ops c k infr power h s Hn.
  assert (Ht : target s c k = k).
  { unfold target, s. rewrite reach_ks. apply KP.identity_never_assigned. exact Hn. }
  split; [exact Ht|]. rewrite <- Ht at 2. apply report_on_target. apply reach_found_ok.
Qed.
