"""Part "system" of property C11: generator / monitor text for harness/c11sys and the composed model
Model/VscLifecycle.v (Lifecycle x Vsc).  Loaded by tools/props/c11.py.

A case is a harness/lcdrv history {"U", "nvals", "maxprov", "epoch", "ops"} with two more actions:
  [20, c, n]  one block of consumer chain c: BeginBlock, deliver up to n in-flight packets (-1: all), EndBlock
  [21, n]     the (n+1)-th SendPacket call of the provider from now on fails (send failure in the middle of a loop)."""
import json
from check import Part

NVALS, MAXPROV = 4, 2          # validators 0..3 with power 1..4; provider active set = {2, 3}


def gen_history(rng, tier):
    U = rng.choice([40, 60, 100])
    epoch = rng.choice([1, 1, 1, 2])
    ops = []
    now = 1000
    ncons = rng.choice([2, 3, 3, 4])
    info = []                                  # per created consumer: dict(chan_at, mode, lag)
    nblocks = rng.randint(10, 22) if tier == "quick" else rng.randint(10, 40)

    def create(spawn_in):
        c = len(info)
        ops.append([1, 1, c + 1, 1, [now + spawn_in, 1, 0]])
        k = rng.random()
        if k < 0.08:
            vals = []                          # nobody opted in: the launch fails
        elif k < 0.16:
            vals = [rng.choice([0, 1])]        # only an inactive validator: the launch fails
        else:
            vals = [rng.choice([2, 3])] + [v for v in range(4) if rng.random() < 0.5]
        for v in dict.fromkeys(vals):
            ops.append([4, c, v, 1 if rng.random() < 0.3 else 0])
        info.append({"chan_at": rng.choice([1, 1, 2, 3, rng.randint(2, nblocks)]),
                     "mode": rng.choice(["immediate", "immediate", "delayed", "burst", "random"]),
                     "lag": rng.randint(1, 3), "burst": rng.randint(3, nblocks), "born": None, "expired": False})
        return c

    for _ in range(ncons):
        create(rng.choice([1, 1, 1, 2, 4]))
    ops.append([8])
    stops_left = rng.choice([1, 1, 2, 3])
    for b in range(1, nblocks + 1):
        dt = rng.choice([1, 1, 1, 2, 3])
        if rng.random() < 0.08:
            dt = U + rng.choice([-1, 0, 1])    # long enough for a pending removal
        now += dt
        ops.append([7, dt, 0])
        # transactions of the block
        while rng.random() < 0.6:
            k = rng.random()
            if k < 0.55:
                ops.append([11, 1, rng.randrange(4), rng.choice([1, 2, 3, 4, 5, 6, 8])])
            elif k < 0.85:
                ops.append([4, rng.randrange(len(info)), rng.randrange(4), 1 if rng.random() < 0.25 else 0])
            elif k < 0.92:
                ops.append([5, rng.randrange(len(info)), rng.choice([36, 37, 56, 39, 40])])
            else:
                ops.append([2, rng.randrange(len(info)), 1, [], [], []])
        for c, st in enumerate(info):
            if b == st["chan_at"] or (b > st["chan_at"] and rng.random() < 0.03):
                ops.append([6, c])
            if st["expired"]:
                if rng.random() < 0.5:
                    st["expired"] = False
                    ops.append([11, 3, c, 0])
            elif rng.random() < 0.04:
                st["expired"] = True
                ops.append([11, 3, c, 1])
        if stops_left and b >= 3 and rng.random() < 0.22:
            stops_left -= 1
            c = rng.randrange(len(info))
            cause = rng.choice(["owner", "timeout", "ack", "closed", "fault", "timeout"])
            if cause == "owner":
                ops.append([3, c, 1])
            elif cause == "timeout":
                ops.append([9, c])
            elif cause == "ack":
                ops.append([10, c])
            elif cause == "closed":
                ops.append([11, 2, c])         # the next packet of c cannot be sent
            else:
                ops.append([21, rng.randint(0, 2)])
        if rng.random() < 0.05:
            ops.append([rng.choice([9, 10]), rng.randrange(len(info))])   # another in-flight packet fails (also for stopped ones)
        if rng.random() < 0.06 and len(info) < 6:
            create(rng.choice([1, 2, 3]))
        ops.append([8])
        for c, st in enumerate(info):
            for _ in range(rng.choice([1, 1, 0, 2])):
                if st["mode"] == "immediate":
                    nd = -1
                elif st["mode"] == "delayed":
                    nd = 1 if b > st["chan_at"] + st["lag"] else 0
                elif st["mode"] == "burst":
                    nd = -1 if b >= st["burst"] else 0
                else:
                    nd = rng.choice([-1, 0, 0, 1, 2])
                ops.append([20, c, nd])
    # drain: removals fall due, everybody receives what is in flight
    for c in range(len(info)):
        ops.append([20, c, -1])
    for _ in range(2):
        ops.append([7, U + 1, 0])
        ops.append([8])
    return {"U": U, "nvals": NVALS, "maxprov": MAXPROV, "epoch": epoch, "ops": ops}


def timeout_example():
    """the history of Example C11_system_ex: two consumers, the first stopped by a packet timeout mid-history"""
    ops = [[1, 1, 1, 1, [1001, 1, 0]], [4, 0, 3, 0], [4, 0, 1, 0], [1, 1, 2, 1, [1001, 1, 0]], [4, 1, 2, 0], [8],
           [7, 1, 0], [6, 0], [6, 1], [11, 1, 3, 7], [8], [20, 0, -1], [20, 1, -1],
           [7, 1, 0], [11, 1, 1, 5], [9, 0], [8], [20, 0, -1], [20, 1, -1],
           [7, 1, 0], [11, 1, 2, 9], [8], [20, 0, -1], [20, 1, -1],
           [7, 60, 0], [8], [20, 1, -1]]
    return {"U": 50, "nvals": NVALS, "maxprov": MAXPROV, "epoch": 1, "ops": ops}


def gen(rng, tier):
    total = 150 if tier == "quick" else 2500
    yield timeout_example()
    for _ in range(total):
        yield gen_history(rng, tier)


def nontrivial(case, inp, obs):
    """some consumer left the launched phase while another one kept receiving packets afterwards"""
    if not inp or len(inp) < 5 or not isinstance(obs, list):
        return None
    prev = {}
    causes, deleted, after = [], 0, 0
    stopped = False
    for op, ob in zip(inp[4], obs):
        if op[0] == 20 or not ob or not isinstance(ob[0], int):
            continue
        for row in ob[1][0]:
            p = prev.get(row[0], 0)
            if p == 3 and row[1] == 4:
                causes.append(op[0])
                stopped = True
            if p == 4 and row[1] == 5:
                deleted += 1
            prev[row[0]] = row[1]
        if op[0] == 8 and stopped and len(ob) > 2:
            after += sum(len(p[1][4]) for p in ob[2])
    if not causes or after == 0:
        return None
    return json.dumps([causes, min(deleted, 3), min(after, 5), case["epoch"]])


CLAUSES = {
    1: "oracle hypothesis violated: a computed consumer set has duplicate consumer keys or a non-positive power",
    2: "the set handed to the consensus engine differs from the consumer's stored set",
    3: "packets were not delivered in the order produced",
    4: "ids of produced packets are not strictly increasing",
    5: "the provider's stored consumer set changed without a packet being produced",
    6: "more than one packet produced for a consumer in one block",
    7: "a delivered packet is not the next packet sent, or its updates do not lead from the previous provider set to the next one",
    8: "the consumer's set after EndBlock is not the provider set carried by the last packet received (or the launch set)",
    9: "pending changes not deleted by the consumer EndBlock",
    31: "a VSC packet was queued or handed to IBC for a consumer that is not in the launched phase",
    32: "a consumer moved along a forbidden phase edge",
    33: "provider replication state exists for a consumer that is neither launched nor stopped (or is missing for one that is)",
    34: "oracle hypothesis violated: the iteration order is not a duplicate-free enumeration of the consumers with a client",
    35: "BeginBlock / EndBlock returned an error, or an operation panicked",
    36: "launched flag of the replication state disagrees with the lifecycle phase",
    37: "the number of pending VSC packets disagrees between the lifecycle record and the replication state",
}


def describe(codes):
    return "; ".join(CLAUSES.get(c, str(c)) for c in sorted(set(codes)))


PART = Part("system", "c11sys", "vsclifecycle", gen, nontrivial=nontrivial, describe=describe)
