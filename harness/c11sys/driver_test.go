package c11sys

// Correspondence driver of the part "system" of property C11 (model component vsclifecycle =
// Model/VscLifecycle.v, the composition of Model/Lifecycle.v and Model/Vsc.v).
//
// The lifecycle actions (create / update / remove / opt-in / decorate / channel handshake / timeout / error ack /
// world actions) are executed by the shared interpreter harness/lcdrv on the REAL provider keeper; BeginBlock and
// EndBlock are executed here because the composed model wants the computed validator SETS (not only their sizes) as
// oracle values and the VSC packets of every consumer as observations.  Every launched consumer gets a REAL consumer
// keeper (started from the provider-made genesis); the driver is the relayer (engine of harness/c01).

import (
	"encoding/json"
	"fmt"
	"sort"
	"strconv"
	"testing"
	"time"

	clienttypes "github.com/cosmos/ibc-go/v10/modules/core/02-client/types"
	channeltypes "github.com/cosmos/ibc-go/v10/modules/core/04-channel/types"

	sdk "github.com/cosmos/cosmos-sdk/types"

	abci "github.com/cometbft/cometbft/abci/types"

	"verifharness/common"
	"verifharness/lcdrv"

	providertypes "github.com/cosmos/interchain-security/v7/x/ccv/provider/types"
	ccvtypes "github.com/cosmos/interchain-security/v7/x/ccv/types"
)

var (
	keyByPub  = map[string]int64{}
	keyByAddr = map[string]int64{}
)

func init() {
	reg := func(n int) {
		pk := common.Key(n).PubKey()
		keyByPub[string(pk.Bytes())] = int64(n)
		keyByAddr[string(pk.Address())] = int64(n)
	}
	for n := 1000; n < 1040; n++ { // validators' own keys
		reg(n)
	}
	for n := 20001; n <= 20300; n++ { // keys assigned by lcdrv's opt-in with key
		reg(n)
	}
}

func pubID(bz []byte) int64 {
	if id, ok := keyByPub[string(bz)]; ok {
		return id
	}
	return -7
}

func addrID(bz []byte) int64 {
	if id, ok := keyByAddr[string(bz)]; ok {
		return id
	}
	return -7
}

func sortedPairs(m map[int64]int64) common.T {
	keys := make([]int64, 0, len(m))
	for k := range m {
		keys = append(keys, k)
	}
	sort.Slice(keys, func(i, j int) bool { return keys[i] < keys[j] })
	out := make([]common.T, len(keys))
	for i, k := range keys {
		out[i] = common.L(k, m[k])
	}
	return out
}

func updatesMap(us []abci.ValidatorUpdate) map[int64]int64 {
	m := map[int64]int64{}
	for _, u := range us {
		m[pubID(u.PubKey.GetEd25519())] = u.Power
	}
	return m
}

// inst is the driver's side of one consumer that has a client on the provider.
type inst struct {
	c        int64
	cw       *common.World
	cenv     *common.ConsumerEnv
	engine   map[int64]int64
	inflight []common.SentPacket
}

type drv struct {
	t    *testing.T
	d    *lcdrv.Drv
	ins  map[int64]*inst
	ops  []common.T
	obs  []common.T
	nsnt int
}

func (x *drv) emit(op, ob common.T) {
	x.ops = append(x.ops, op)
	x.obs = append(x.obs, ob)
}

func (x *drv) phase(c int64) providertypes.ConsumerPhase {
	return x.d.Env.K.GetConsumerPhase(x.d.Env.Ctx, lcdrv.CID(c))
}

func (x *drv) valset(c int64) (common.T, map[int64]int64) {
	vs, err := x.d.Env.K.GetConsumerValSet(x.d.Env.Ctx, lcdrv.CID(c))
	if err != nil {
		panic(err)
	}
	l := make([]common.T, len(vs))
	m := map[int64]int64{}
	for i, v := range vs {
		k := pubID(v.PublicKey.GetEd25519())
		l[i] = common.L(k, v.Power)
		m[k] = v.Power
	}
	return l, m
}

func (x *drv) pendingIDs(c int64) common.T {
	ps := x.d.Env.K.GetPendingVSCPackets(x.d.Env.Ctx, lcdrv.CID(c))
	out := make([]common.T, len(ps))
	for i, p := range ps {
		out[i] = int64(p.ValsetUpdateId)
	}
	return out
}

func (x *drv) vsc2h() common.T {
	all := x.d.Env.K.GetAllValsetUpdateBlockHeights(x.d.Env.Ctx)
	out := make([]common.T, len(all))
	for i, e := range all {
		out[i] = common.L(int64(e.ValsetUpdateId), int64(e.Height))
	}
	return out
}

// clients lists the consumers that have a client (launched or stopped, not deleted), ascending.
func (x *drv) clients() []int64 {
	var out []int64
	for c := int64(0); c < x.d.NextID(); c++ {
		if _, ok := x.d.Env.K.GetConsumerClientId(x.d.Env.Ctx, lcdrv.CID(c)); ok {
			out = append(out, c)
		}
	}
	return out
}

func (x *drv) snapshot() common.T {
	k, ctx := x.d.Env.K, x.d.Env.Ctx
	n := x.d.NextID()
	phases := make([]common.T, 0, n)
	for c := int64(0); c < n; c++ {
		_, ch := k.GetConsumerIdToChannelId(ctx, lcdrv.CID(c))
		phases = append(phases, common.L(c, int64(x.phase(c)), common.B(ch), int64(len(k.GetPendingVSCPackets(ctx, lcdrv.CID(c))))))
	}
	insts := []common.T{}
	for _, c := range x.clients() {
		_, ch := k.GetConsumerIdToChannelId(ctx, lcdrv.CID(c))
		h := int64(-1)
		if v, ok := k.GetInitChainHeight(ctx, lcdrv.CID(c)); ok {
			h = int64(v)
		}
		_, stored := x.valset(c)
		fl := []common.T{}
		if in := x.ins[c]; in != nil {
			for _, sp := range in.inflight {
				var data ccvtypes.ValidatorSetChangePacketData
				if err := ccvtypes.ModuleCdc.UnmarshalJSON(sp.Data, &data); err != nil {
					panic(err)
				}
				fl = append(fl, int64(data.ValsetUpdateId))
			}
		}
		insts = append(insts, common.L(c, common.B(x.phase(c) == providertypes.CONSUMER_PHASE_LAUNCHED), common.B(ch), h,
			x.pendingIDs(c), sortedPairs(stored), common.L(fl...)))
	}
	return common.L(common.L(phases...), common.L(insts...))
}

func (x *drv) fold(in *inst, us []abci.ValidatorUpdate) {
	for _, u := range us {
		id := pubID(u.PubKey.GetEd25519())
		if u.Power == 0 {
			delete(in.engine, id)
		} else {
			in.engine[id] = u.Power
		}
	}
}

// startConsumer starts the consumer chain of a freshly launched consumer from the provider-made genesis.
func (x *drv) startConsumer(c int64) int64 {
	gen, ok := x.d.Env.K.GetConsumerGenesis(x.d.Env.Ctx, lcdrv.CID(c))
	if !ok {
		panic("launched consumer without genesis")
	}
	clientID, _ := x.d.Env.K.GetConsumerClientId(x.d.Env.Ctx, lcdrv.CID(c))
	in := &inst{c: c, cw: common.NewWorld(0), engine: map[int64]int64{}}
	in.cenv = common.NewConsumerEnv(x.t, in.cw, "consumer-"+lcdrv.CID(c))
	for i := int64(0); i < 2*(c%5); i++ {
		in.cenv.NextBlock(5 * time.Second)
	}
	x.fold(in, in.cenv.InitGenesis(gen))
	in.cw.Connections["connection-0"] = &common.Connection{ID: "connection-0", ClientID: "07-tendermint-0",
		CpConnectionID: fmt.Sprintf("connection-%d", c), CpClientID: clientID}
	in.cw.Channels[ccvtypes.ConsumerPortID+"/channel-0"] = &common.Channel{Port: ccvtypes.ConsumerPortID, ID: "channel-0",
		State: channeltypes.OPEN, Ordering: channeltypes.ORDERED, ConnectionID: "connection-0", CpPort: ccvtypes.ProviderPortID,
		CpID: lcdrv.ChanID(c), Version: ccvtypes.Version}
	x.ins[c] = in
	return in.cenv.Ctx.BlockHeight()
}

func blockCode(r common.Result) int64 {
	if r.Panic != nil {
		return 100
	}
	if r.Err != nil {
		return 9
	}
	return 0
}

func (x *drv) beginBlock(dt int64) {
	env := x.d.Env
	env.NextBlock(time.Duration(dt))
	now := lcdrv.FromTime(env.Ctx.BlockTime())
	ora := x.d.LaunchOracle(false).([]common.T)
	r := common.Tx(env.Ctx, func(ctx sdk.Context) error { return env.Module.BeginBlock(ctx) })
	rows := make([]common.T, 0, len(ora))
	for _, row := range ora {
		rr := row.([]common.T)
		c := rr[0].(int64)
		if x.phase(c) == providertypes.CONSUMER_PHASE_LAUNCHED && x.ins[c] == nil {
			l0, _ := x.valset(c)
			ch := x.startConsumer(c)
			rows = append(rows, common.L(c, l0, rr[2], rr[3], ch))
		} else { // not launched: only the size of the computed set matters
			dummy := make([]common.T, rr[1].(int64))
			for i := range dummy {
				dummy[i] = common.L(int64(0), int64(1))
			}
			rows = append(rows, common.L(c, common.L(dummy...), rr[2], rr[3], int64(0)))
		}
	}
	for c, in := range x.ins { // deleted consumers
		if _, ok := env.K.GetConsumerClientId(env.Ctx, lcdrv.CID(c)); !ok && in != nil {
			delete(x.ins, c)
		}
	}
	x.emit(common.L(int64(7), now, common.L(rows...)), common.L(blockCode(r), x.snapshot()))
}

func (x *drv) endBlock() {
	env, w := x.d.Env, x.d.W
	epoch := env.Ctx.BlockHeight()%x.d.K.Epoch == 0
	order := []common.T{}
	for _, id := range env.K.GetAllConsumersWithIBCClients(env.Ctx) {
		c, _ := strconv.ParseInt(id, 10, 64)
		order = append(order, c)
	}
	cl := x.clients()
	before := map[int64]bool{}
	for _, c := range cl {
		before[c] = x.phase(c) == providertypes.CONSUMER_PHASE_LAUNCHED
	}
	nsent := len(w.Sent)
	_, r := env.EndBlock()
	rows := []common.T{}
	per := []common.T{}
	for _, c := range cl {
		in := x.ins[c]
		var sent []common.T
		nc := int64(0)
		for _, sp := range w.Sent[nsent:] {
			if sp.Channel != lcdrv.ChanID(c) {
				continue
			}
			var data ccvtypes.ValidatorSetChangePacketData
			if err := ccvtypes.ModuleCdc.UnmarshalJSON(sp.Data, &data); err != nil {
				panic(err)
			}
			sent = append(sent, common.L(int64(data.ValsetUpdateId), sortedPairs(updatesMap(data.ValidatorUpdates))))
			if in != nil {
				in.inflight = append(in.inflight, sp)
			}
			nc++
		}
		after := x.phase(c) == providertypes.CONSUMER_PHASE_LAUNCHED
		mode := int64(0)
		_, hasChan := env.K.GetConsumerIdToChannelId(env.Ctx, lcdrv.CID(c))
		clientID, _ := env.K.GetConsumerClientId(env.Ctx, lcdrv.CID(c))
		if before[c] && !after {
			mode = 2 + nc
		} else if clt, ok := w.Clients[clientID]; ok && clt.Expired && hasChan && before[c] {
			mode = 1
		}
		var next common.T = common.L()
		nextList, stored := x.valset(c)
		if epoch && before[c] {
			next = nextList
		}
		rows = append(rows, common.L(c, next, mode))
		per = append(per, common.L(c, common.L(int64(env.K.GetValidatorSetUpdateId(env.Ctx)), common.B(after), sortedPairs(stored),
			x.pendingIDs(c), common.L(sent...), x.vsc2h())))
	}
	x.emit(common.L(int64(8), common.B(epoch), common.L(order...), common.L(rows...)),
		common.L(blockCode(r), x.snapshot(), common.L(per...)))
}

func (x *drv) ccvals(in *inst) map[int64]int64 {
	m := map[int64]int64{}
	for _, v := range in.cenv.K.GetAllCCValidator(in.cenv.Ctx) {
		m[addrID(v.Address)] = v.Power
	}
	return m
}

func (x *drv) consumerBlock(c, n int64) {
	in := x.ins[c]
	if in == nil {
		return
	}
	ce := in.cenv
	sc := func(op ...common.T) common.T { return common.L(int64(20), c, common.L(op...)) }
	if r := ce.BeginBlock(); !r.OK() {
		panic(fmt.Sprintf("consumer BeginBlock failed: %s", r))
	}
	h := ce.Ctx.BlockHeight()
	x.emit(sc(int64(4)), common.L(h, int64(ce.K.GetHeightValsetUpdateID(ce.Ctx, uint64(h+1)))))
	for (n < 0 || n > 0) && len(in.inflight) > 0 {
		sp := in.inflight[0]
		in.inflight = in.inflight[1:]
		var data ccvtypes.ValidatorSetChangePacketData
		if err := ccvtypes.ModuleCdc.UnmarshalJSON(sp.Data, &data); err != nil {
			panic(err)
		}
		packet := channeltypes.NewPacket(sp.Data, sp.Seq, ccvtypes.ProviderPortID, lcdrv.ChanID(c), ccvtypes.ConsumerPortID, "channel-0",
			clienttypes.Height{}, sp.TimeoutTimestamp)
		res := common.Tx(ce.Ctx, func(ctx sdk.Context) error { return ce.K.OnRecvVSCPacket(ctx, packet, data) })
		id := int64(data.ValsetUpdateId)
		if !res.OK() {
			id = -1
		}
		x.emit(sc(int64(3)), common.L(id))
		if n > 0 {
			n--
		}
	}
	upd, r := ce.EndBlock()
	if !r.OK() {
		panic(fmt.Sprintf("consumer EndBlock failed: %s", r))
	}
	x.fold(in, upd)
	_, pend := ce.K.GetPendingChanges(ce.Ctx)
	all := ce.K.GetAllHeightToValsetUpdateIDs(ce.Ctx)
	h2 := make([]common.T, len(all))
	for i, e := range all {
		h2[i] = common.L(int64(e.Height), int64(e.ValsetUpdateId))
	}
	x.emit(sc(int64(5)), common.L(h, sortedPairs(x.ccvals(in)), sortedPairs(in.engine),
		int64(ce.K.GetHeightValsetUpdateID(ce.Ctx, uint64(h+1))), common.L(h2...), common.B(pend)))
	ce.NextBlock(5 * time.Second)
}

func (x *drv) run(k lcdrv.Kase) (common.T, common.T) {
	x.d = lcdrv.New(x.t, k)
	x.ins = map[int64]*inst{}
	env := x.d.Env
	h0, vid0, m0 := env.Ctx.BlockHeight(), int64(env.K.GetValidatorSetUpdateId(env.Ctx)), x.vsc2h()
	for _, raw := range k.Ops {
		var a []json.RawMessage
		if err := json.Unmarshal(raw, &a); err != nil {
			panic(err)
		}
		num := func(i int) int64 {
			var v int64
			if err := json.Unmarshal(a[i], &v); err != nil {
				panic(err)
			}
			return v
		}
		switch num(0) {
		case 7:
			x.beginBlock(num(1))
		case 8:
			x.endBlock()
		case 20:
			x.consumerBlock(num(1), num(2))
		case 21:
			x.d.W.Faults["channel.SendPacket"] = int(num(1))
		default:
			op, code := x.d.Step(raw)
			x.emit(op, common.L(code, x.snapshot()))
		}
	}
	return common.L(k.U, h0, vid0, m0, common.L(x.ops...)), common.L(x.obs...)
}

func TestDriver(t *testing.T) {
	common.RunCases(t, func(c common.Case) (common.T, common.T) {
		var k lcdrv.Kase
		if err := json.Unmarshal(c.Raw, &k); err != nil {
			panic(err)
		}
		x := &drv{t: t}
		return x.run(k)
	})
}
