package c10

// Correspondence driver for C10 (lifecycle phase machine, launch schedule) and C11 (stopped consumers: no updates,
// removal after the unbonding period).  The history interpreter is harness/lcdrv (shared with C19).

import (
	"encoding/json"
	"testing"

	"verifharness/common"
	"verifharness/lcdrv"
)

func TestDriver(t *testing.T) {
	common.RunCases(t, func(c common.Case) (common.T, common.T) {
		var k lcdrv.Kase
		if err := json.Unmarshal(c.Raw, &k); err != nil {
			panic(err)
		}
		d := lcdrv.New(t, k)
		ops, obs := d.Run(k.Ops)
		return common.L(k.U, ops), common.L(obs, d.Residual())
	})
}
