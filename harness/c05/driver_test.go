package c05

// Correspondence driver for C05 / C06 (model component keyassign): interprets a history of
// key assignments, opt-ins, validator creations/removals, lifecycle steps, blocks and slash requests
// on the REAL provider keeper (messages through env.Deliver, staking hooks, module Begin/EndBlock)
// and reports a snapshot of the key-assignment state after every action.
//
// What is real: MsgAssignConsumerKey, MsgOptIn, MsgCreateConsumer, MsgRemoveConsumer, the staking hooks
// AfterValidatorCreated / AfterValidatorRemoved, DeleteConsumerChain, module BeginBlock / EndBlock,
// HandleSlashPacket.  What is scripted: staking itself (fake World; its operator / consensus-key
// uniqueness checks are reproduced here), and the two lifecycle steps registered->initialized->launched,
// which are done with the keeper's setters (SetConsumerPhase, SetConsumerClientId, SetInitChainHeight)
// behind a phase guard of this driver.

import (
	"encoding/base64"
	"encoding/json"
	"errors"
	"fmt"
	"os"
	"strconv"
	"strings"
	"testing"
	"time"

	"verifharness/common"

	sdk "github.com/cosmos/cosmos-sdk/types"
	stakingtypes "github.com/cosmos/cosmos-sdk/x/staking/types"

	abci "github.com/cometbft/cometbft/abci/types"

	providertypes "github.com/cosmos/interchain-security/v7/x/ccv/provider/types"
	ccvtypes "github.com/cosmos/interchain-security/v7/x/ccv/types"
)

type kase struct {
	ID   int64     `json:"id"`
	U    int64     `json:"u"`  // unbonding period, ns
	NK   int       `json:"nk"` // key pool size
	NO   int       `json:"no"` // operator pool size
	NC   int       `json:"nc"` // consumers observed
	Hist [][]int64 `json:"hist"`
}

const (
	eOK        = 0
	ePhase     = 1
	eInUse     = 2
	eDefault   = 3
	eNoVal     = 4
	eHook      = 5
	eStaking   = 6
	eLifecycle = 7
	eBasic     = 8
	eOther     = 9
)

func operAddr(o int64) sdk.ValAddress {
	b := make([]byte, 20)
	b[0] = byte(o + 1)
	b[19] = 0x77
	return sdk.ValAddress(b)
}

const maxKeys = 32

// key material of the pool, derived once (ed25519 key derivation is expensive)
var (
	poolCons [maxKeys]sdk.ConsAddress
	poolJSON [maxKeys]string
)

func init() {
	for k := 0; k < maxKeys; k++ {
		pk := common.Key(1000 + k).PubKey()
		poolCons[k] = sdk.ConsAddress(pk.Address())
		poolJSON[k] = fmt.Sprintf(`{"@type":"/cosmos.crypto.ed25519.PubKey","key":"%s"}`,
			base64.StdEncoding.EncodeToString(pk.Bytes()))
	}
}

func consAddr(k int64) sdk.ConsAddress { return poolCons[k] }

func keyJSON(k int64) string { return poolJSON[k] }

func classify(r common.Result) int64 {
	if r.OK() {
		return eOK
	}
	if r.Panic != nil {
		return eOther
	}
	err := r.Err
	switch {
	case strings.HasPrefix(err.Error(), "validate-basic:"):
		return eBasic
	case errors.Is(err, providertypes.ErrInvalidPhase):
		return ePhase
	case errors.Is(err, providertypes.ErrConsumerKeyInUse):
		return eInUse
	case errors.Is(err, providertypes.ErrCannotAssignDefaultKeyAssignment):
		return eDefault
	case errors.Is(err, stakingtypes.ErrNoValidatorFound):
		return eNoVal
	case errors.Is(err, providertypes.ErrUnauthorized):
		return eBasic
	}
	if os.Getenv("VERIF_DEBUG") != "" {
		fmt.Fprintln(os.Stderr, "unclassified:", err)
	}
	return eOther
}

type drv struct {
	k     kase
	w     *common.World
	env   *common.ProviderEnv
	addr2 map[string]int64 // consensus address -> key id
	owner string
	other string
}

func (d *drv) keyID(a []byte) int64 {
	if id, ok := d.addr2[string(a)]; ok {
		return id
	}
	return -2
}

func (d *drv) mustKeyID(a []byte) int64 {
	id, ok := d.addr2[string(a)]
	if !ok {
		panic(fmt.Sprintf("address outside the key pool in the provider store: %x", a))
	}
	return id
}

func cid(c int64) string { return strconv.FormatInt(c, 10) }

func (d *drv) snapshot(res int64) common.T {
	env, w := d.env, d.w
	reg := make([]common.T, d.k.NO)
	jail := make([]common.T, d.k.NO)
	for o := 0; o < d.k.NO; o++ {
		reg[o], jail[o] = int64(-1), int64(0)
		if v := w.ValByOper(operAddr(int64(o))); v != nil {
			reg[o] = d.keyID(v.ConsAddr())
			jail[o] = common.B(v.Jailed)
		}
	}
	cons := make([]common.T, d.k.NC)
	for c := 0; c < d.k.NC; c++ {
		id := cid(int64(c))
		byaddr := make([]common.T, d.k.NK)
		resolve := make([]common.T, d.k.NK)
		assigned := make([]common.T, d.k.NK)
		optin := make([]common.T, d.k.NK)
		for k := 0; k < d.k.NK; k++ {
			byaddr[k], assigned[k], optin[k] = int64(-1), int64(-1), int64(0)
			// the function slash / evidence handling uses to find the validator to punish (one keyed read each)
			rp := env.K.GetProviderAddrFromConsumerAddr(env.Ctx, id, providertypes.NewConsumerConsAddress(consAddr(int64(k))))
			resolve[k] = d.keyID(rp.ToSdkConsAddr())
		}
		// the three stores are read by prefix iteration (every entry of this consumer, also entries outside the pool)
		for _, e := range env.K.GetAllValidatorsByConsumerAddr(env.Ctx, &id) {
			byaddr[d.mustKeyID(e.ConsumerAddr)] = d.mustKeyID(e.ProviderAddr)
		}
		for _, e := range env.K.GetAllValidatorConsumerPubKeys(env.Ctx, &id) {
			a, err := ccvtypes.TMCryptoPublicKeyToConsAddr(*e.ConsumerKey)
			if err != nil {
				panic(err)
			}
			assigned[d.mustKeyID(e.ProviderAddr)] = d.mustKeyID(a)
		}
		for _, p := range env.K.GetAllOptedIn(env.Ctx, id) {
			optin[d.mustKeyID(p.ToSdkConsAddr())] = int64(1)
		}
		var tp []common.T
		for _, e := range env.K.GetAllConsumerAddrsToPrune(env.Ctx, id) {
			ts := e.PruneTs.Sub(common.T0).Nanoseconds()
			for _, a := range e.ConsumerAddrs.Addresses {
				tp = append(tp, common.L(ts, d.keyID(a)))
			}
		}
		if tp == nil {
			tp = []common.T{}
		}
		_, hasClient := env.K.GetConsumerClientId(env.Ctx, id)
		removal := int64(-1)
		if t, err := env.K.GetConsumerRemovalTime(env.Ctx, id); err == nil {
			removal = t.Sub(common.T0).Nanoseconds()
		}
		cons[c] = common.L(int64(env.K.GetConsumerPhase(env.Ctx, id)), common.B(hasClient),
			byaddr, resolve, assigned, tp, optin, removal)
	}
	return common.L(res, env.Ctx.BlockTime().Sub(common.T0).Nanoseconds(), reg, jail, cons)
}

func (d *drv) signer(o int64, ok bool) string {
	if ok {
		return sdk.AccAddress(operAddr(o)).String()
	}
	return d.other
}

func (d *drv) step(a []int64) int64 {
	env, w := d.env, d.w
	arg := func(i int) int64 {
		if i < len(a) {
			return a[i]
		}
		return 0
	}
	switch a[0] {
	case 0: // Assign c o k sok
		msg := &providertypes.MsgAssignConsumerKey{ConsumerId: cid(arg(1)), ProviderAddr: operAddr(arg(2)).String(),
			ConsumerKey: keyJSON(arg(3)), Signer: d.signer(arg(2), arg(4) != 0)}
		return classify(env.Deliver(msg))
	case 1: // OptIn c o k sok
		key := ""
		if arg(3) >= 0 {
			key = keyJSON(arg(3))
		}
		msg := &providertypes.MsgOptIn{ConsumerId: cid(arg(1)), ProviderAddr: operAddr(arg(2)).String(),
			ConsumerKey: key, Signer: d.signer(arg(2), arg(4) != 0)}
		return classify(env.Deliver(msg))
	case 2: // CreateValidator o key: staking's own checks, then the AfterValidatorCreated hook inside the tx
		oper := operAddr(arg(1))
		if w.ValByOper(oper) != nil || w.ValByCons(consAddr(arg(2))) != nil {
			return eStaking
		}
		v := w.AddVal(5 * common.PowerReduction)
		v.Oper = oper
		v.Priv = common.Key(int(1000 + arg(2)))
		r := common.Tx(env.Ctx, func(ctx sdk.Context) error { return env.K.Hooks().AfterValidatorCreated(ctx, oper) })
		if !r.OK() {
			w.Vals = w.Vals[:len(w.Vals)-1] // the staking tx is aborted: the validator does not exist
			if r.Panic != nil {
				return eHook
			}
			return eOther
		}
		w.StakingEndBlock()
		return eOK
	case 3: // RemoveValidator o
		v := w.ValByOper(operAddr(arg(1)))
		if v == nil {
			return eNoVal
		}
		v.Removed = true
		r := common.Tx(env.Ctx, func(ctx sdk.Context) error {
			return env.K.Hooks().AfterValidatorRemoved(ctx, v.ConsAddr(), v.Oper)
		})
		if !r.OK() {
			return eOther
		}
		return eOK
	case 4: // Register
		n := env.K.GetAllConsumerIds(env.Ctx)
		msg := &providertypes.MsgCreateConsumer{Submitter: d.owner, ChainId: fmt.Sprintf("chain%d-1", len(n)),
			Metadata: providertypes.ConsumerMetadata{Name: "n", Description: "d", Metadata: "m"}}
		return classify(env.Deliver(msg))
	case 5: // Initialize c (setter behind a guard)
		if env.K.GetConsumerPhase(env.Ctx, cid(arg(1))) != providertypes.CONSUMER_PHASE_REGISTERED {
			return eLifecycle
		}
		env.K.SetConsumerPhase(env.Ctx, cid(arg(1)), providertypes.CONSUMER_PHASE_INITIALIZED)
		return eOK
	case 6: // Launch c (setter behind a guard)
		if env.K.GetConsumerPhase(env.Ctx, cid(arg(1))) != providertypes.CONSUMER_PHASE_INITIALIZED {
			return eLifecycle
		}
		env.K.SetConsumerClientId(env.Ctx, cid(arg(1)), "07-tendermint-"+cid(arg(1)))
		env.K.SetInitChainHeight(env.Ctx, cid(arg(1)), 1)
		env.K.SetConsumerPhase(env.Ctx, cid(arg(1)), providertypes.CONSUMER_PHASE_LAUNCHED)
		return eOK
	case 7: // Stop c owner_ok
		owner := d.owner
		if arg(2) == 0 {
			owner = d.other
		}
		return classify(env.Deliver(&providertypes.MsgRemoveConsumer{Owner: owner, ConsumerId: cid(arg(1))}))
	case 8: // Delete c
		r := common.Tx(env.Ctx, func(ctx sdk.Context) error { return env.K.DeleteConsumerChain(ctx, cid(arg(1))) })
		if r.Panic != nil {
			return eOther
		}
		if r.Err != nil {
			return eLifecycle
		}
		return eOK
	case 9: // BeginBlock
		if r := env.BeginBlock(); !r.OK() {
			return eOther
		}
		return eOK
	case 10: // EndBlock
		if _, r := env.EndBlock(); !r.OK() {
			return eOther
		}
		return eOK
	case 11: // Advance dt
		env.NextBlock(time.Duration(arg(1)))
		return eOK
	default: // Slash c k
		if env.K.GetConsumerPhase(env.Ctx, cid(arg(1))) != providertypes.CONSUMER_PHASE_LAUNCHED {
			return eLifecycle
		}
		r := common.Tx(env.Ctx, func(ctx sdk.Context) error {
			env.K.HandleSlashPacket(ctx, cid(arg(1)), ccvtypes.SlashPacketData{
				Validator:      abci.Validator{Address: consAddr(arg(2)), Power: 1},
				ValsetUpdateId: 0,
				Infraction:     stakingtypes.Infraction_INFRACTION_DOWNTIME,
			})
			return nil
		})
		if !r.OK() {
			return eOther
		}
		return eOK
	}
}

func TestDriver(t *testing.T) {
	common.RunCases(t, func(c common.Case) (common.T, common.T) {
		var k kase
		if err := json.Unmarshal(c.Raw, &k); err != nil {
			panic(err)
		}
		w := common.NewWorld(0)
		w.Unbonding = time.Duration(k.U)
		env := common.NewProviderEnv(t, w)
		env.InitGenesis(providertypes.DefaultParams())
		d := &drv{k: k, w: w, env: env, addr2: map[string]int64{},
			owner: sdk.AccAddress([]byte("owner_______________")).String(),
			other: sdk.AccAddress([]byte("somebody_else_______")).String()}
		for i := 0; i < k.NK; i++ {
			d.addr2[string(consAddr(int64(i)))] = int64(i)
		}
		obs := []common.T{d.snapshot(0)}
		ops := make([]common.T, len(k.Hist))
		for i, a := range k.Hist {
			op := make([]common.T, 5)
			for j := 0; j < 5; j++ {
				op[j] = int64(0)
				if j < len(a) {
					op[j] = a[j]
				}
			}
			ops[i] = op
			res := d.step(a)
			obs = append(obs, d.snapshot(res))
		}
		input := common.L(common.L(k.U, int64(k.NK), int64(k.NO), int64(k.NC)), ops)
		return input, obs
	})
}
