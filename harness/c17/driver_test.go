package c17

// Correspondence driver for C17, provider half: consumer <-> light client <-> CCV channel bindings.
// A case is a history of small-integer actions, executed on the REAL provider keeper, message server, module
// BeginBlock and provider.AppModule IBC callbacks over the fake World of harness/common (IBC core = World:
// w.Clients, w.Connections, w.Channels).  The driver returns (1) the input of the model component `handshake`
// (coq/theories/Model/Handshake.v): the actions plus, per action, the world oracle the monitor needs (the client
// under the hop / channel), and (2) after every action: result class, attributed consumer, and the four index
// getters + phase for ALL consumers / clients / channels below the bounds of the case.
//
// actions (see Model/Handshake.v, "wire interface"):
//   [1, chain] [2, conn, x] [3, ch, conn] [4, c, chain, [conn]?] [5, order, port, cpport, version, [hops], chid]
//   [6, ch] [7] [8] [9, c] [10] [11, ch] [12, ch] [13, ch] [14] [15] [16, ch]
// A successful OnTimeoutPacket is followed by what IBC core does for an ORDERED channel: the channel end is CLOSED.

import (
	"encoding/json"
	"errors"
	"fmt"
	"strconv"
	"strings"
	"testing"
	"time"

	clienttypes "github.com/cosmos/ibc-go/v10/modules/core/02-client/types"
	conntypes "github.com/cosmos/ibc-go/v10/modules/core/03-connection/types"
	channeltypes "github.com/cosmos/ibc-go/v10/modules/core/04-channel/types"
	porttypes "github.com/cosmos/ibc-go/v10/modules/core/05-port/types"

	storetypes "cosmossdk.io/store/types"

	sdk "github.com/cosmos/cosmos-sdk/types"
	sdkerrors "github.com/cosmos/cosmos-sdk/types/errors"
	stakingtypes "github.com/cosmos/cosmos-sdk/x/staking/types"

	abci "github.com/cometbft/cometbft/abci/types"

	"verifharness/common"

	providertypes "github.com/cosmos/interchain-security/v7/x/ccv/provider/types"
	ccvtypes "github.com/cosmos/interchain-security/v7/x/ccv/types"
)

type kase struct {
	ID  int64             `json:"id"`
	NC  int64             `json:"nc"`
	NX  int64             `json:"nx"`
	NCH int64             `json:"nch"`
	Ops []json.RawMessage `json:"ops"`
}

func cid(c int64) string      { return strconv.FormatInt(c, 10) }
func clientID(x int64) string { return fmt.Sprintf("07-tendermint-%d", x) }
func connID(k int64) string   { return fmt.Sprintf("connection-%d", k) }
func chanID(c int64) string   { return fmt.Sprintf("channel-%d", c) }
func chainID(s int64) string  { return fmt.Sprintf("cn%d", s) }

func suffix(s, prefix string) int64 {
	if !strings.HasPrefix(s, prefix) {
		return -2
	}
	n, err := strconv.ParseInt(s[len(prefix):], 10, 64)
	if err != nil {
		return -2
	}
	return n
}

func portName(p int64) string {
	switch p {
	case 0:
		return ccvtypes.ProviderPortID
	case 1:
		return ccvtypes.ConsumerPortID
	case 2:
		return "transfer"
	}
	return fmt.Sprintf("port%d", p)
}

func versionName(v int64) string {
	switch v {
	case 0:
		return ccvtypes.Version
	case 2:
		return ""
	}
	return fmt.Sprintf("v%d", v)
}

func owner() string {
	b := make([]byte, 20)
	b[0] = 0xa0
	return sdk.AccAddress(b).String()
}

// classify maps an error to the result classes of Model/Handshake.v.
func classify(r common.Result) int64 {
	switch {
	case r.Panic != nil:
		return 100
	case r.Err == nil:
		return 0
	case errors.Is(r.Err, channeltypes.ErrInvalidChannelOrdering):
		return 1
	case errors.Is(r.Err, porttypes.ErrInvalidPort):
		if strings.Contains(r.Err.Error(), "counterparty") {
			return 3
		}
		return 2
	case errors.Is(r.Err, ccvtypes.ErrInvalidVersion):
		return 4
	case errors.Is(r.Err, channeltypes.ErrTooManyConnectionHops):
		return 5
	case errors.Is(r.Err, conntypes.ErrConnectionNotFound):
		return 6
	case errors.Is(r.Err, clienttypes.ErrClientNotFound):
		return 7
	case errors.Is(r.Err, ccvtypes.ErrConsumerChainNotFound), errors.Is(r.Err, providertypes.ErrNoConsumerId):
		return 8
	case errors.Is(r.Err, ccvtypes.ErrClientNotFound):
		return 9
	case errors.Is(r.Err, providertypes.ErrInvalidConsumerClient):
		return 10
	case errors.Is(r.Err, ccvtypes.ErrDuplicateChannel):
		return 11
	case errors.Is(r.Err, channeltypes.ErrChannelNotFound), errors.Is(r.Err, ccvtypes.ErrChannelNotFound):
		return 12
	case errors.Is(r.Err, ccvtypes.ErrInvalidChannelFlow):
		return 14
	case errors.Is(r.Err, sdkerrors.ErrInvalidRequest):
		return 16
	case errors.Is(r.Err, clienttypes.ErrInvalidClient):
		return 22
	case errors.Is(r.Err, ccvtypes.ErrInvalidHandshakeMetadata):
		return 23
	}
	return 99
}

type drv struct {
	env *common.ProviderEnv
	w   *common.World
	k   kase
}

func (d *drv) nextID() int64 {
	n, _ := d.env.K.GetConsumerId(d.env.Ctx)
	return int64(n)
}

// hopClient resolves connection -> existing client in the world; -1 if the connection or its client is unknown.
func (d *drv) hopClient(conn string) int64 {
	c, ok := d.w.Connections[conn]
	if !ok {
		return -1
	}
	if _, ok := d.w.Clients[c.ClientID]; !ok {
		return -1
	}
	return suffix(c.ClientID, "07-tendermint-")
}

func (d *drv) chanClient(ch int64) int64 {
	c, ok := d.w.Channels[ccvtypes.ProviderPortID+"/"+chanID(ch)]
	if !ok {
		return -1
	}
	return d.hopClient(c.ConnectionID)
}

// removalCounts: how often each consumer occurs in the removal time queue.
func (d *drv) removalCounts() map[string]int {
	out := map[string]int{}
	prefix := providertypes.RemovalTimeToConsumerIdsKeyPrefix()
	it := storetypes.KVStorePrefixIterator(d.env.Ctx.KVStore(d.env.StoreKey), []byte{prefix})
	defer it.Close()
	for ; it.Valid(); it.Next() {
		var ids providertypes.ConsumerIds
		if err := ids.Unmarshal(it.Value()); err != nil {
			panic(err)
		}
		for _, id := range ids.Ids {
			out[id]++
		}
	}
	return out
}

func (d *drv) slashAckCounts() map[string]int {
	out := map[string]int{}
	for c := int64(0); c < d.nextID(); c++ {
		out[cid(c)] = len(d.env.K.GetSlashAcks(d.env.Ctx, cid(c)))
	}
	return out
}

// grown returns the single consumer whose count grew between a and b (-1: none, -3: more than one).
func grown(a, b map[string]int) int64 {
	res := int64(-1)
	for id, n := range b {
		if n > a[id] {
			if res != -1 {
				return -3
			}
			res, _ = strconv.ParseInt(id, 10, 64)
		}
	}
	return res
}

func (d *drv) observe(code, attr int64) common.T {
	ctx, k := d.env.Ctx, d.env.K
	cons := make([]common.T, 0, d.k.NC)
	for c := int64(0); c < d.k.NC; c++ {
		cl, chn := int64(-1), int64(-1)
		if s, ok := k.GetConsumerClientId(ctx, cid(c)); ok {
			cl = suffix(s, "07-tendermint-")
		}
		if s, ok := k.GetConsumerIdToChannelId(ctx, cid(c)); ok {
			chn = suffix(s, "channel-")
		}
		cons = append(cons, common.L(cl, chn, int64(k.GetConsumerPhase(ctx, cid(c)))))
	}
	revs := make([]common.T, 0, d.k.NX)
	for x := int64(0); x < d.k.NX; x++ {
		v := int64(-1)
		if s, ok := k.GetClientIdToConsumerId(ctx, clientID(x)); ok {
			v = suffix(s, "")
		}
		revs = append(revs, v)
	}
	chs := make([]common.T, 0, d.k.NCH)
	for ch := int64(0); ch < d.k.NCH; ch++ {
		v := int64(-1)
		if s, ok := k.GetChannelIdToConsumerId(ctx, chanID(ch)); ok {
			v = suffix(s, "")
		}
		chs = append(chs, v)
	}
	closed := make([]common.T, 0, d.k.NCH)
	for ch := int64(0); ch < d.k.NCH; ch++ {
		c, ok := d.w.Channels[ccvtypes.ProviderPortID+"/"+chanID(ch)]
		closed = append(closed, common.B(ok && c.State == channeltypes.CLOSED))
	}
	return common.L(code, attr, cons, revs, chs, closed)
}

func (d *drv) initParams(conn []int64) *providertypes.ConsumerInitializationParameters {
	c := ""
	if len(conn) == 1 {
		c = connID(conn[0])
	}
	return &providertypes.ConsumerInitializationParameters{
		InitialHeight:                     clienttypes.NewHeight(0, 5),
		GenesisHash:                       []byte("gen_hash"),
		BinaryHash:                        []byte("bin_hash"),
		SpawnTime:                         d.env.Ctx.BlockTime(),
		ConsumerRedistributionFraction:    ccvtypes.DefaultConsumerRedistributeFrac,
		BlocksPerDistributionTransmission: ccvtypes.DefaultBlocksPerDistributionTransmission,
		DistributionTransmissionChannel:   "",
		HistoricalEntries:                 ccvtypes.DefaultHistoricalEntries,
		CcvTimeoutPeriod:                  ccvtypes.DefaultCCVTimeoutPeriod,
		TransferTimeoutPeriod:             ccvtypes.DefaultTransferTimeoutPeriod,
		UnbondingPeriod:                   ccvtypes.DefaultConsumerUnbondingPeriod,
		ConnectionId:                      c,
	}
}

// launch: MsgCreateConsumer (new id) or MsgUpdateConsumer (existing id) with a due spawn time, MsgOptIn of
// validator 0, next block, BeginBlock.  Result: 0 launched, 20 launch failed, 21 message rejected.
func (d *drv) launch(c, chain int64, conn []int64) int64 {
	env := d.env
	n := d.nextID()
	if c > n {
		panic(fmt.Sprintf("generator error: consumer %d does not exist and is not the next id %d", c, n))
	}
	var r common.Result
	if c == n {
		r = env.Deliver(&providertypes.MsgCreateConsumer{Submitter: owner(), ChainId: chainID(chain),
			Metadata:                 providertypes.ConsumerMetadata{Name: "n", Description: "d", Metadata: "m"},
			InitializationParameters: d.initParams(conn),
			PowerShapingParameters:   &providertypes.PowerShapingParameters{AllowInactiveVals: true}})
	} else {
		r = env.Deliver(&providertypes.MsgUpdateConsumer{Owner: owner(), ConsumerId: cid(c), NewChainId: chainID(chain),
			InitializationParameters: d.initParams(conn)})
	}
	if !r.OK() {
		return 21
	}
	val := d.w.Vals[0]
	if !env.K.IsOptedIn(env.Ctx, cid(c), providertypes.NewProviderConsAddress(val.ConsAddr())) {
		if r := env.Deliver(&providertypes.MsgOptIn{ProviderAddr: val.Oper.String(), ConsumerId: cid(c),
			Signer: sdk.AccAddress(val.Oper).String()}); !r.OK() {
			panic("opt-in failed: " + r.String())
		}
	}
	env.NextBlock(time.Second)
	if r := common.Tx(env.Ctx, func(ctx sdk.Context) error { return env.Module.BeginBlock(ctx) }); !r.OK() {
		panic("BeginBlock failed: " + r.String())
	}
	switch env.K.GetConsumerPhase(env.Ctx, cid(c)) {
	case providertypes.CONSUMER_PHASE_LAUNCHED:
		return 0
	case providertypes.CONSUMER_PHASE_REGISTERED:
		return 20
	}
	return 98
}

func ints(raw json.RawMessage) []int64 {
	var x []int64
	if err := json.Unmarshal(raw, &x); err != nil {
		panic(err)
	}
	return x
}

// step executes one action; returns the model op (with oracles), the result class and the attributed consumer.
func (d *drv) step(raw json.RawMessage) (common.T, int64, int64) {
	var parts []json.RawMessage
	if err := json.Unmarshal(raw, &parts); err != nil {
		panic(err)
	}
	num := func(i int) int64 {
		var x int64
		if err := json.Unmarshal(parts[i], &x); err != nil {
			panic(err)
		}
		return x
	}
	env, w := d.env, d.w
	tag := num(0)
	packet := func(ch int64) channeltypes.Packet {
		return channeltypes.Packet{Sequence: 1, SourcePort: ccvtypes.ProviderPortID, SourceChannel: chanID(ch),
			DestinationPort: ccvtypes.ConsumerPortID, DestinationChannel: "channel-77"}
	}
	switch tag {
	case 1: // world: a client created by somebody else
		w.AddClient(chainID(num(1)), 10)
		return common.L(1, num(1)), 0, -1
	case 2: // world: connection over client x (x may not exist)
		k, x := num(1), num(2)
		if _, ok := w.Connections[connID(k)]; !ok {
			w.Connections[connID(k)] = &common.Connection{ID: connID(k), ClientID: clientID(x),
				CpConnectionID: connID(500 + k), CpClientID: clientID(500 + x)}
		}
		return common.L(2, k, x), 0, -1
	case 3: // world: provider-port channel over a connection (as written by IBC core after an accepted Try)
		ch, k := num(1), num(2)
		key := ccvtypes.ProviderPortID + "/" + chanID(ch)
		if _, ok := w.Channels[key]; !ok {
			w.Channels[key] = &common.Channel{Port: ccvtypes.ProviderPortID, ID: chanID(ch), State: channeltypes.TRYOPEN,
				Ordering: channeltypes.ORDERED, ConnectionID: connID(k), CpPort: ccvtypes.ConsumerPortID,
				CpID: chanID(ch), Version: ccvtypes.Version}
		}
		return common.L(3, ch, k), 0, -1
	case 4: // launch
		c, chain, conn := num(1), num(2), ints(parts[3])
		x, chainOK := int64(-1), int64(0)
		if len(conn) == 1 {
			x = d.hopClient(connID(conn[0]))
			if x >= 0 && w.Clients[clientID(x)].ChainID == chainID(chain) {
				chainOK = 1
			}
		}
		code := d.launch(c, chain, conn)
		return common.L(4, c, chain, common.Ints(conn), common.L(x, chainOK)), code, -1
	case 5: // OnChanOpenTry
		order, port, cpport, version, hops, chn := num(1), num(2), num(3), num(4), ints(parts[5]), num(6)
		hs := make([]string, len(hops))
		for i, h := range hops {
			hs[i] = connID(h)
		}
		x := int64(-1)
		if len(hops) == 1 {
			x = d.hopClient(hs[0])
		}
		r := common.Tx(env.Ctx, func(ctx sdk.Context) error {
			_, err := env.Module.OnChanOpenTry(ctx, channeltypes.Order(order), hs, portName(port), chanID(chn),
				channeltypes.NewCounterparty(portName(cpport), "channel-77"), versionName(version))
			return err
		})
		return common.L(5, order, port, cpport, version, common.Ints(hops), x), classify(r), -1
	case 6: // OnChanOpenConfirm
		ch := num(1)
		x := d.chanClient(ch)
		r := common.Tx(env.Ctx, func(ctx sdk.Context) error {
			return env.Module.OnChanOpenConfirm(ctx, ccvtypes.ProviderPortID, chanID(ch))
		})
		if r.OK() {
			// IBC core moves a TRYOPEN end to OPEN; a CLOSED end is never re-opened (core would not even have
			// called the callback for it; the callback itself does not look at the state of the channel end)
			if c, ok := w.Channels[ccvtypes.ProviderPortID+"/"+chanID(ch)]; ok && c.State == channeltypes.TRYOPEN {
				c.State = channeltypes.OPEN
			}
		}
		return common.L(6, ch, x), classify(r), -1
	case 7: // OnChanOpenInit (provider side initiating): always refused
		r := common.Tx(env.Ctx, func(ctx sdk.Context) error {
			_, err := env.Module.OnChanOpenInit(ctx, channeltypes.ORDERED, []string{connID(0)}, ccvtypes.ProviderPortID,
				chanID(90), channeltypes.NewCounterparty(ccvtypes.ConsumerPortID, ""), ccvtypes.Version)
			return err
		})
		return common.L(7), classify(r), -1
	case 8: // OnChanOpenAck
		r := common.Tx(env.Ctx, func(ctx sdk.Context) error {
			return env.Module.OnChanOpenAck(ctx, ccvtypes.ProviderPortID, chanID(90), "channel-77", ccvtypes.Version)
		})
		return common.L(8), classify(r), -1
	case 9: // MsgRemoveConsumer by the owner
		c := num(1)
		r := env.Deliver(&providertypes.MsgRemoveConsumer{Owner: owner(), ConsumerId: cid(c)})
		code := int64(0)
		if !r.OK() {
			code = 21
		}
		return common.L(9, c), code, -1
	case 10: // a block after the unbonding period: every queued removal is due
		env.NextBlock(w.Unbonding + time.Second)
		if r := common.Tx(env.Ctx, func(ctx sdk.Context) error { return env.Module.BeginBlock(ctx) }); !r.OK() {
			panic("BeginBlock failed: " + r.String())
		}
		return common.L(10), 0, -1
	case 11, 12: // packet timeout / error acknowledgement on a channel
		ch := num(1)
		x := d.chanClient(ch)
		before := d.removalCounts()
		r := common.Tx(env.Ctx, func(ctx sdk.Context) error {
			if tag == 11 {
				return env.Module.OnTimeoutPacket(ctx, ccvtypes.Version, packet(ch), nil)
			}
			ack := channeltypes.NewErrorAcknowledgement(fmt.Errorf("bad packet"))
			return env.Module.OnAcknowledgementPacket(ctx, ccvtypes.Version, packet(ch), ccvtypes.ModuleCdc.MustMarshalJSON(&ack), nil)
		})
		code := classify(r)
		if code != 0 && code != 100 {
			code = 15
		}
		if tag == 11 && code == 0 {
			// IBC core (TimeoutExecuted) closes an ORDERED channel once the timeout callback has succeeded
			if c, ok := w.Channels[ccvtypes.ProviderPortID+"/"+chanID(ch)]; ok {
				c.State = channeltypes.CLOSED
			}
		}
		return common.L(tag, ch, x), code, grown(before, d.removalCounts())
	case 13: // slash packet (downtime, unknown validator): the attributed consumer gets a slash ack
		ch := num(1)
		x := d.chanClient(ch)
		before := d.slashAckCounts()
		p := channeltypes.Packet{Sequence: 1, SourcePort: ccvtypes.ConsumerPortID, SourceChannel: "channel-77",
			DestinationPort: ccvtypes.ProviderPortID, DestinationChannel: chanID(ch)}
		addr := make([]byte, 20)
		addr[0], addr[19] = 0xee, byte(ch)
		data := ccvtypes.SlashPacketData{Validator: abci.Validator{Address: addr, Power: 1}, ValsetUpdateId: 0,
			Infraction: stakingtypes.Infraction_INFRACTION_DOWNTIME}
		r := common.Tx(env.Ctx, func(ctx sdk.Context) error {
			_, err := env.K.OnRecvSlashPacket(ctx, p, data)
			return err
		})
		return common.L(13, ch, x), classify(r), grown(before, d.slashAckCounts())
	case 14:
		r := common.Tx(env.Ctx, func(ctx sdk.Context) error {
			return env.Module.OnChanCloseInit(ctx, ccvtypes.ProviderPortID, chanID(0))
		})
		return common.L(14), classify(r), -1
	case 15:
		r := common.Tx(env.Ctx, func(ctx sdk.Context) error {
			return env.Module.OnChanCloseConfirm(ctx, ccvtypes.ProviderPortID, chanID(0))
		})
		return common.L(15), classify(r), -1
	case 16: // world: IBC core closes the channel end (e.g. the counterparty closed it)
		ch := num(1)
		if c, ok := w.Channels[ccvtypes.ProviderPortID+"/"+chanID(ch)]; ok {
			c.State = channeltypes.CLOSED
		}
		return common.L(16, ch), 0, -1
	}
	panic(fmt.Sprintf("unknown action %d", tag))
}

func TestDriver(t *testing.T) {
	common.RunCases(t, func(c common.Case) (common.T, common.T) {
		var k kase
		if err := json.Unmarshal(c.Raw, &k); err != nil {
			panic(err)
		}
		w := common.NewWorld(3)
		env := common.NewProviderEnv(t, w)
		env.InitGenesis(providertypes.DefaultParams())
		d := &drv{env: env, w: w, k: k}
		ops := make([]common.T, 0, len(k.Ops))
		obs := make([]common.T, 0, len(k.Ops))
		for _, raw := range k.Ops {
			op, code, attr := d.step(raw)
			ops = append(ops, op)
			obs = append(obs, d.observe(code, attr))
		}
		return common.L(0, common.L(k.NC, k.NX, k.NCH), ops), obs
	})
}
