package c17

// Correspondence driver for C17, consumer half: the REAL consumer keeper + consumer.AppModule IBC callbacks over
// its own fake World, started with InitGenesis from a genesis state made by the REAL provider
// (MsgCreateConsumer ... BeginBlock -> GetConsumerGenesis), either with a new provider client or over a
// pre-existing connection.
//
// case: {"pre": clients that exist on the consumer before genesis, "kind": 0 new client | 1 named connection,
//        "gconn": [connection, client] of the consumer-side end of the named connection (kind 1),
//        "conns": [[connection, client]...] other consumer-side connections, "ops": [...]}
// actions (Model/Handshake.v, consumer ops):
//   [1, conn, x] [2, order, port, version, cpport, [hops], chid] [3] [4, ch, md] [5] [6, ch] [7, ch] [8]

import (
	"encoding/json"
	"fmt"
	"testing"
	"time"

	channeltypes "github.com/cosmos/ibc-go/v10/modules/core/04-channel/types"

	sdk "github.com/cosmos/cosmos-sdk/types"

	abci "github.com/cometbft/cometbft/abci/types"

	"verifharness/common"

	providertypes "github.com/cosmos/interchain-security/v7/x/ccv/provider/types"
	ccvtypes "github.com/cosmos/interchain-security/v7/x/ccv/types"
)

type ckase struct {
	ID    int64             `json:"id"`
	Pre   int64             `json:"pre"`
	Kind  int64             `json:"kind"`
	GConn []int64           `json:"gconn"`
	Conns [][]int64         `json:"conns"`
	Ops   []json.RawMessage `json:"ops"`
}

// providerGenesis launches consumer "0" on a real provider and returns the genesis state made for it.
func providerGenesis(t *testing.T, k ckase) ccvtypes.ConsumerGenesisState {
	w := common.NewWorld(3)
	env := common.NewProviderEnv(t, w)
	env.InitGenesis(providertypes.DefaultParams())
	d := &drv{env: env, w: w}
	var conn []int64
	if k.Kind == 1 {
		cl := w.AddClient(chainID(1), 10)
		w.Connections[connID(0)] = &common.Connection{ID: connID(0), ClientID: cl.ID,
			CpConnectionID: connID(k.GConn[0]), CpClientID: clientID(k.GConn[1])}
		conn = []int64{0}
	}
	if code := d.launch(0, 1, conn); code != 0 {
		panic(fmt.Sprintf("provider could not launch the consumer: %d", code))
	}
	gs, ok := env.K.GetConsumerGenesis(env.Ctx, "0")
	if !ok {
		panic("no consumer genesis")
	}
	return gs
}

func TestConsumer(t *testing.T) {
	common.RunCases(t, func(c common.Case) (common.T, common.T) {
		var k ckase
		if err := json.Unmarshal(c.Raw, &k); err != nil {
			panic(err)
		}
		gs := providerGenesis(t, k)

		w := common.NewWorld(0)
		for i := int64(0); i < k.Pre; i++ {
			w.AddClient("other", 10)
		}
		addConn := func(conn, x int64) {
			if _, ok := w.Connections[connID(conn)]; !ok {
				w.Connections[connID(conn)] = &common.Connection{ID: connID(conn), ClientID: clientID(x)}
			}
		}
		world := []common.T{}
		if k.Kind == 1 {
			addConn(k.GConn[0], k.GConn[1])
			world = append(world, common.L(k.GConn[0], k.GConn[1]))
		}
		for _, p := range k.Conns {
			addConn(p[0], p[1])
			world = append(world, common.L(p[0], p[1]))
		}
		env := common.NewConsumerEnv(t, w, chainID(1))
		env.InitGenesis(gs)
		env.NextBlock(time.Second)

		pcs, ok := env.K.GetProviderClientID(env.Ctx)
		if !ok {
			panic("no provider client after InitGenesis")
		}
		pc := suffix(pcs, "07-tendermint-")

		observe := func(code int64) common.T {
			pclient, pchan := int64(-1), int64(-1)
			if s, ok := env.K.GetProviderClientID(env.Ctx); ok {
				pclient = suffix(s, "07-tendermint-")
			}
			if s, ok := env.K.GetProviderChannel(env.Ctx); ok {
				pchan = suffix(s, "channel-")
			}
			return common.L(code, pclient, pchan, common.B(env.K.GetDistributionTransmissionChannel(env.Ctx) != ""))
		}

		ops := make([]common.T, 0, len(k.Ops))
		obs := make([]common.T, 0, len(k.Ops))
		for _, raw := range k.Ops {
			var parts []json.RawMessage
			if err := json.Unmarshal(raw, &parts); err != nil {
				panic(err)
			}
			num := func(i int) int64 {
				var x int64
				if err := json.Unmarshal(parts[i], &x); err != nil {
					panic(err)
				}
				return x
			}
			var op common.T
			var code int64
			switch tag := num(0); tag {
			case 1:
				addConn(num(1), num(2))
				op = common.L(1, num(1), num(2))
			case 2: // OnChanOpenInit
				order, port, version, cpport, hops, chn := num(1), num(2), num(3), num(4), ints(parts[5]), num(6)
				hs := make([]string, len(hops))
				for i, h := range hops {
					hs[i] = connID(h)
				}
				x := int64(-1)
				if len(hops) == 1 {
					if cn, ok := w.Connections[hs[0]]; ok {
						x = suffix(cn.ClientID, "07-tendermint-")
					}
				}
				r := common.Tx(env.Ctx, func(ctx sdk.Context) error {
					_, err := env.Module.OnChanOpenInit(ctx, channeltypes.Order(order), hs, portName(port), chanID(chn),
						channeltypes.NewCounterparty(portName(cpport), ""), versionName(version))
					return err
				})
				if r.OK() { // IBC core writes the channel end in state INIT
					key := ccvtypes.ConsumerPortID + "/" + chanID(chn)
					if _, ok := w.Channels[key]; !ok {
						w.Channels[key] = &common.Channel{Port: ccvtypes.ConsumerPortID, ID: chanID(chn), State: channeltypes.INIT,
							Ordering: channeltypes.ORDERED, ConnectionID: hs[0], CpPort: ccvtypes.ProviderPortID, Version: ccvtypes.Version}
					}
				}
				op, code = common.L(2, order, port, version, cpport, common.Ints(hops), x), classify(r)
			case 3:
				r := common.Tx(env.Ctx, func(ctx sdk.Context) error {
					_, err := env.Module.OnChanOpenTry(ctx, channeltypes.ORDERED, []string{connID(0)}, ccvtypes.ConsumerPortID,
						chanID(90), channeltypes.NewCounterparty(ccvtypes.ProviderPortID, "channel-77"), ccvtypes.Version)
					return err
				})
				op, code = common.L(3), classify(r)
			case 4: // OnChanOpenAck
				ch, md := num(1), num(2)
				var bz []byte
				switch md {
				case 0:
					bz, _ = (&ccvtypes.HandshakeMetadata{ProviderFeePoolAddr: "feepool", Version: ccvtypes.Version}).Marshal()
				case 1:
					bz = []byte{0xff, 0xff, 0xff, 0xff}
				default:
					bz, _ = (&ccvtypes.HandshakeMetadata{ProviderFeePoolAddr: "feepool", Version: "2"}).Marshal()
				}
				te := env.K.TransferChannelExists(env.Ctx, env.K.GetDistributionTransmissionChannel(env.Ctx))
				_, ce := w.Channels[ccvtypes.ConsumerPortID+"/"+chanID(ch)]
				r := common.Tx(env.Ctx, func(ctx sdk.Context) error {
					return env.Module.OnChanOpenAck(ctx, ccvtypes.ConsumerPortID, chanID(ch), "channel-77", string(bz))
				})
				op, code = common.L(4, md, common.B(te), common.B(ce)), classify(r)
			case 5:
				r := common.Tx(env.Ctx, func(ctx sdk.Context) error {
					return env.Module.OnChanOpenConfirm(ctx, ccvtypes.ConsumerPortID, chanID(90))
				})
				op, code = common.L(5), classify(r)
			case 6: // first / later VSC packet
				ch := num(1)
				p := channeltypes.Packet{Sequence: 1, SourcePort: ccvtypes.ProviderPortID, SourceChannel: "channel-77",
					DestinationPort: ccvtypes.ConsumerPortID, DestinationChannel: chanID(ch)}
				data := ccvtypes.ValidatorSetChangePacketData{ValidatorUpdates: []abci.ValidatorUpdate{}, ValsetUpdateId: 1}
				r := common.Tx(env.Ctx, func(ctx sdk.Context) error { return env.K.OnRecvVSCPacket(ctx, p, data) })
				op, code = common.L(6, ch), classify(r)
			case 7:
				ch := num(1)
				r := common.Tx(env.Ctx, func(ctx sdk.Context) error {
					return env.Module.OnChanCloseInit(ctx, ccvtypes.ConsumerPortID, chanID(ch))
				})
				op, code = common.L(7, ch), classify(r)
			case 8: // world: the transfer module completes the distribution channel named in the parameters
				if name := env.K.GetDistributionTransmissionChannel(env.Ctx); name != "" {
					w.Channels["transfer/"+name] = &common.Channel{Port: "transfer", ID: name, State: channeltypes.OPEN}
				}
				op = common.L(8)
			default:
				panic(fmt.Sprintf("unknown action %d", tag))
			}
			ops = append(ops, op)
			obs = append(obs, observe(code))
		}
		return common.L(1, common.L(pc, world), ops), obs
	})
}
