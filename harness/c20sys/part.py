"""Part "system" of property C20 (the parameters a downtime jail uses are the ones in force according to the request
history): generator / non-triviality / monitor text for harness/c20sys and the composed model Model/SlashParams.v
(Infraction x Slash).  Loaded by tools/props/c20.py."""
import json
from check import Part

MAXI = (1 << 63) - 1
ONE = 10 ** 18
DOWNTIME, DOUBLE_SIGN = 2, 1
# downtime halves with pairwise different fractions / durations, so that a wrong source is visible
DT = [[600 * 10 ** 9, 0, 0], [7 * 10 ** 9, 3 * 10 ** 16, 0], [5, 10 ** 17, 0], [10 ** 9, 5 * 10 ** 17, 1], [0, ONE, 0],
      [3600 * 10 ** 9, 10 ** 15, 0], [11, 2 * 10 ** 16, 0]]
DS = [[MAXI, 5 * 10 ** 16, 1], [9 * 10 ** 9, 2 * 10 ** 17, 0], [13, 4 * 10 ** 16, 1]]


def req(rng, kind=None):
    x = rng.random() if kind is None else kind
    if x < 0.55:
        return [None, list(rng.choice(DT))]
    if x < 0.70:
        return [list(rng.choice(DS)), None]
    if x < 0.92:
        return [list(rng.choice(DS)), list(rng.choice(DT))]
    if x < 0.97:
        return [None, None]
    return [None, [5, ONE + 1, 0]]          # invalid


class H:
    def __init__(self, rng):
        self.rng = rng
        self.u = rng.choice([1000, 1000, 50, 10 ** 9])
        self.u0 = self.u
        self.nvals = rng.choice([3, 4])
        self.now = 0
        self.acts = []
        self.n = 0
        self.launched = []
        self.dues = []

    def create(self, mode=1, r=None):
        self.acts.append([0, mode, r])
        self.n += 1
        return self.n - 1

    def block(self, dt):
        dt = max(0, int(dt))
        self.acts.append([6, dt])
        self.now += dt

    def aim(self):
        fut = [d for d in self.dues if d + 1 >= self.now]
        if not fut or self.rng.random() < 0.15:
            return self.rng.choice([0, 1, 2, self.u // 2, self.u - 1, self.u, self.u + 1])
        d = self.rng.choice(fut[:2] if self.rng.random() < 0.8 else fut)
        return max(0, d + self.rng.choice([-1, -1, 0, 0, 1, 3]) - self.now)

    def update(self, c, r, sender=0):
        self.acts.append([1, c, sender, r])
        if c in self.launched and sender == 0:
            self.dues.append(self.now + self.u)
            self.dues.sort()

    def report(self, c=None, res=None, infr=DOWNTIME, power=None, vsckind=0):
        rng = self.rng
        if c is None:
            c = rng.choice(self.launched) if self.launched and rng.random() < 0.92 else rng.randrange(self.n + 1)
        if res is None:
            res = rng.randrange(self.nvals) if rng.random() < 0.93 else self.nvals + 2
        if rng.random() < 0.75:          # make the validator punishable again first
            self.acts.append([21, res, 1, 0])
        self.acts.append([22, c, res, infr, power if power is not None else rng.choice([1, 1, 2, 7]), vsckind])


def gen_history(rng, tier):
    h = H(rng)
    k = rng.choice([1, 2, 2, 3])
    for _ in range(k):
        c = h.create(1, req(rng, rng.random() * 0.9) if rng.random() < 0.6 else None)
        if rng.random() < 0.3:       # pre-launch update: must be used from the first report on
            h.update(c, req(rng, rng.random() * 0.9))
    h.block(1)
    h.launched = list(range(k))
    for c in range(k):
        full = list(range(h.nvals))
        h.acts.append([20, c, full if rng.random() < 0.8 else [v for v in full if rng.random() < 0.7]])
    h.report()
    for _ in range(rng.choice([8, 12, 18] if tier == "quick" else [8, 12, 18, 30, 50])):
        x = rng.random()
        if x < 0.24:
            h.update(rng.choice(h.launched), req(rng), 0 if rng.random() < 0.95 else 1)
        elif x < 0.50:
            h.block(h.aim())
        elif x < 0.86:
            y = rng.random()
            if y < 0.88:
                h.report()
            elif y < 0.93:
                h.report(infr=DOUBLE_SIGN)
            elif y < 0.97:
                h.report(vsckind=1)
            else:
                h.report(power=0)
        elif x < 0.89:
            h.acts.append([21, rng.randrange(h.nvals), rng.choice([1, 2, 3]), rng.choice([0, 1, 1, 2, 3])])
        elif x < 0.92:
            c = rng.choice(h.launched)
            h.acts.append([4, c, 0])
            h.dues.append(h.now + h.u); h.dues.sort()
        elif x < 0.95:
            nu = rng.choice([1000, 50, 7])
            h.acts.append([8, nu]); h.u = nu
        elif x < 0.97:
            h.create(rng.choice([0, 1]), req(rng, 0.1))
        else:        # request, report just before, block exactly at the due time, report just after
            c = rng.choice(h.launched)
            h.update(c, req(rng, 0.1))
            h.block(h.u - 1)
            h.report(c=c)
            h.block(1)
            h.report(c=c)
    return {"unbonding": h.u0, "nvals": h.nvals, "frac": rng.choice(["1.0", "1.0", "0.5", "0.05"]),
            "period": rng.choice([1, 1, 1000, 3600 * 10 ** 9]), "actions": h.acts}


def gen(rng, tier):
    for _ in range(250 if tier == "quick" else 6000):
        yield gen_history(rng, tier)


def nontrivial(case, inp, obs):
    """jails observed, classified by whether the consumer had a change pending / applied earlier"""
    jails, used = 0, set()
    prev_rows = [r for r in inp[1]]
    switched = 0
    prev_cons = None
    for g, ob in zip(inp[2], obs):
        rows, (cons, _sched) = ob[1][0], ob[1][1]
        if g and g[-1][0] == 22:
            for i, r in enumerate(rows):
                if i < len(prev_rows) and r[2] and not prev_rows[i][2] and r[7]:
                    jails += 1
                    used.add((r[7][-1][2], r[6]))
        if prev_cons is not None:
            for c, x in enumerate(cons):
                if c < len(prev_cons) and prev_cons[c][0] >= 2 and prev_cons[c][1] != x[1]:
                    switched += 1
        prev_rows, prev_cons = rows, cons
    if jails == 0:
        return None
    return json.dumps([min(jails, 9), len({u[0] for u in used}), min(switched, 4)])


CLAUSES = {
    1: "a slash packet changed a validator other than the reported one",
    2: "the reported validator was not jailed although every condition held (or was jailed although one did not)",
    3: "jail-until differs from block time + the downtime jail duration in force according to the request history",
    4: "the slash fraction handed to staking (or the tokens burnt) is not the downtime fraction in force according to the request history",
    5: "the stored parameters in force of the consumer differ from the ones the request history implies",
    6: "acknowledgement class of the slash packet differs from the one the conditions imply",
    7: "an action other than a slash packet or an external change altered a validator",
    99: "observation count differs from the action count",
}


def describe(codes):
    return "; ".join(CLAUSES.get(c, str(c)) for c in codes)


PART = Part("system", "c20sys", "slashparams", gen, nontrivial=nontrivial, describe=describe)
