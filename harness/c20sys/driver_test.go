package c20sys

// Correspondence driver for the part "system" of C20 (composed model Model/SlashParams.v = Infraction x Slash):
// a history interleaves REAL MsgCreateConsumer / MsgUpdateConsumer with (partial) InfractionParameters, real
// launches (spawn time + MsgOptIn + module BeginBlock), MsgRemoveConsumer, deletions, block-time steps around
// the due times, with REAL downtime/double-sign slash packets delivered through the provider's IBC callback
// AppModule.OnRecvPacket -> OnRecvSlashPacket -> HandleSlashPacket on the consumer's CCV channel (set up as in
// harness/c08 and harness/c06sys).  The model input carries NO parameter oracle and NO phase oracle for a report:
// the slash fraction and jail duration it must use are computed by the model from the infraction-parameter history.
//
// Validator id i = common.World validator i (row i of the model's table); ids >= len(Vals) are unknown addresses.

import (
	"encoding/json"
	"errors"
	"fmt"
	"math/big"
	"strconv"
	"strings"
	"testing"
	"time"

	clienttypes "github.com/cosmos/ibc-go/v10/modules/core/02-client/types"
	channeltypes "github.com/cosmos/ibc-go/v10/modules/core/04-channel/types"

	"cosmossdk.io/math"
	storetypes "cosmossdk.io/store/types"

	sdk "github.com/cosmos/cosmos-sdk/types"
	stakingtypes "github.com/cosmos/cosmos-sdk/x/staking/types"

	abci "github.com/cometbft/cometbft/abci/types"

	"verifharness/common"

	providertypes "github.com/cosmos/interchain-security/v7/x/ccv/provider/types"
	ccvtypes "github.com/cosmos/interchain-security/v7/x/ccv/types"
)

type kase struct {
	ID        int64             `json:"id"`
	Unbonding int64             `json:"unbonding"` // ns
	NVals     int               `json:"nvals"`
	Frac      string            `json:"frac"`   // slash meter replenish fraction
	Period    int64             `json:"period"` // slash meter replenish period, ns
	Actions   []json.RawMessage `json:"actions"`
}

// half = [jail ns, fraction raw (10^18 scale), tombstone]; nil = absent
type half []int64

var (
	owner    = sdk.AccAddress([]byte("owner000000000000001")).String()
	stranger = sdk.AccAddress([]byte("stranger000000000001")).String()
)

func initParams(spawn time.Time) *providertypes.ConsumerInitializationParameters {
	return &providertypes.ConsumerInitializationParameters{
		InitialHeight:                     clienttypes.NewHeight(1, 5),
		GenesisHash:                       []byte("gen_hash"),
		BinaryHash:                        []byte("bin_hash"),
		SpawnTime:                         spawn,
		ConsumerRedistributionFraction:    ccvtypes.DefaultConsumerRedistributeFrac,
		BlocksPerDistributionTransmission: ccvtypes.DefaultBlocksPerDistributionTransmission,
		DistributionTransmissionChannel:   "",
		HistoricalEntries:                 ccvtypes.DefaultHistoricalEntries,
		CcvTimeoutPeriod:                  ccvtypes.DefaultCCVTimeoutPeriod,
		TransferTimeoutPeriod:             ccvtypes.DefaultTransferTimeoutPeriod,
		UnbondingPeriod:                   ccvtypes.DefaultConsumerUnbondingPeriod,
	}
}

func decOfRaw(raw int64) math.LegacyDec {
	return math.LegacyNewDecFromBigIntWithPrec(big.NewInt(raw), math.LegacyPrecision)
}
func rawOfDec(d math.LegacyDec) int64 { return d.BigInt().Int64() }

func mkHalf(h half) *providertypes.SlashJailParameters {
	if h == nil {
		return nil
	}
	return &providertypes.SlashJailParameters{JailDuration: time.Duration(h[0]), SlashFraction: decOfRaw(h[1]), Tombstone: h[2] != 0}
}

func mkReq(r []half) *providertypes.InfractionParameters {
	if r == nil {
		return nil
	}
	return &providertypes.InfractionParameters{DoubleSign: mkHalf(r[0]), Downtime: mkHalf(r[1])}
}

func encHalf(h *providertypes.SlashJailParameters) common.T {
	return common.L(int64(h.JailDuration), rawOfDec(h.SlashFraction), common.B(h.Tombstone))
}
func encParams(p providertypes.InfractionParameters) common.T {
	return common.L(encHalf(p.DoubleSign), encHalf(p.Downtime))
}
func encReqHalf(h half) common.T {
	if h == nil {
		return common.L()
	}
	return common.L(common.L(h[0], h[1], h[2]))
}
func encReq(r []half) common.T {
	if r == nil {
		return common.L()
	}
	return common.L(common.L(encReqHalf(r[0]), encReqHalf(r[1])))
}

func classify(r common.Result) int64 {
	switch {
	case r.OK():
		return 0
	case r.Panic != nil:
		return 7
	case strings.HasPrefix(r.Err.Error(), "validate-basic"):
		return 1
	case errors.Is(r.Err, providertypes.ErrInvalidPhase):
		return 2
	case errors.Is(r.Err, providertypes.ErrUnauthorized):
		return 3
	case errors.Is(r.Err, providertypes.ErrNoOwnerAddress):
		return 4
	}
	return 6
}

func phaseCode(p providertypes.ConsumerPhase) int64 {
	switch p {
	case providertypes.CONSUMER_PHASE_REGISTERED, providertypes.CONSUMER_PHASE_INITIALIZED:
		return 1
	case providertypes.CONSUMER_PHASE_LAUNCHED:
		return 2
	case providertypes.CONSUMER_PHASE_STOPPED:
		return 3
	case providertypes.CONSUMER_PHASE_DELETED:
		return 4
	}
	return 0
}

func cid(c int64) string    { return strconv.FormatInt(c, 10) }
func chanOf(c int64) string { return "channel-" + cid(c) }

func rel(t time.Time) int64 {
	if t.IsZero() {
		return 0
	}
	return t.Sub(common.T0).Nanoseconds()
}

func readSchedule(env *common.ProviderEnv) common.T {
	store := env.Ctx.KVStore(env.StoreKey)
	prefix := providertypes.InfractionScheduledTimeToConsumerIdsKeyPrefix()
	it := storetypes.KVStorePrefixIterator(store, []byte{prefix})
	defer it.Close()
	out := []common.T{}
	for ; it.Valid(); it.Next() {
		ts, err := providertypes.ParseTime(prefix, it.Key())
		if err != nil {
			panic(err)
		}
		var ids providertypes.ConsumerIds
		if err := ids.Unmarshal(it.Value()); err != nil {
			panic(err)
		}
		l := []common.T{}
		for _, s := range ids.Ids {
			n, err := strconv.ParseInt(s, 10, 64)
			if err != nil {
				panic(err)
			}
			l = append(l, n)
		}
		out = append(out, common.L(ts.Sub(common.T0).Nanoseconds(), l))
	}
	return out
}

func rows(w *common.World) common.T {
	out := make([]common.T, len(w.Vals))
	for i, v := range w.Vals {
		log := []common.T{}
		for _, r := range v.SlashLog {
			log = append(log, common.L(r.Height, r.Power, rawOfDec(math.LegacyMustNewDecFromStr(r.Fraction))))
		}
		out[i] = common.L(common.B(!v.Removed), int64(v.Status), common.B(v.Jailed), common.B(v.Tombstoned),
			v.Tokens.Int64(), v.LastPower, rel(v.JailedUntil), log)
	}
	return out
}

func snapshot(env *common.ProviderEnv, n int64) common.T {
	cons := []common.T{}
	for c := int64(0); c < n; c++ {
		var cur, queued common.T = common.L(), common.L()
		if p, err := env.K.GetInfractionParameters(env.Ctx, cid(c)); err == nil {
			cur = common.L(encParams(p))
		}
		if env.K.HasQueuedInfractionParameters(env.Ctx, cid(c)) {
			p, err := env.K.GetQueuedInfractionParameters(env.Ctx, cid(c))
			if err != nil {
				panic(err)
			}
			queued = common.L(encParams(p))
		}
		cons = append(cons, common.L(phaseCode(env.K.GetConsumerPhase(env.Ctx, cid(c))), cur, queued))
	}
	return common.L(rows(env.W), common.L(cons, readSchedule(env)), env.K.GetSlashMeter(env.Ctx).Int64(),
		rel(env.K.GetSlashMeterReplenishTimeCandidate(env.Ctx)))
}

func consAddrOf(w *common.World, i int64) sdk.ConsAddress {
	if i >= 0 && int(i) < len(w.Vals) {
		return w.Vals[i].ConsAddr()
	}
	return sdk.ConsAddress(common.Key(int(2000 + i)).PubKey().Address())
}

func idOfAddr(w *common.World, a []byte) int64 {
	for i, v := range w.Vals {
		if v.ConsAddr().Equals(sdk.ConsAddress(a)) {
			return int64(i)
		}
	}
	return -1
}

func parseHalves(raw json.RawMessage) []half {
	var r []half
	if err := json.Unmarshal(raw, &r); err != nil {
		panic(err)
	}
	return r
}

func TestDriver(t *testing.T) {
	common.RunCases(t, func(c common.Case) (common.T, common.T) {
		var k kase
		if err := json.Unmarshal(c.Raw, &k); err != nil {
			panic(err)
		}
		w := common.NewWorld(k.NVals)
		w.Unbonding = time.Duration(k.Unbonding)
		env := common.NewProviderEnv(t, w)
		p := providertypes.DefaultParams()
		p.BlocksPerEpoch = 1
		p.SlashMeterReplenishFraction = k.Frac
		p.SlashMeterReplenishPeriod = time.Duration(k.Period)
		env.InitGenesis(p)
		// vsc id 1 is known (infraction height 3); any other id used by the histories is unknown
		env.K.SetValsetUpdateBlockHeight(env.Ctx, 1, 3)

		dflt := common.L(
			common.L(int64(1<<63-1), rawOfDec(env.Slashing.FracDoubleSign), int64(1)),
			common.L(int64(env.Slashing.DowntimeJail), int64(0), int64(0)))
		now := func() int64 { return rel(env.Ctx.BlockTime()) }
		totalPower := func() int64 {
			t := int64(0)
			for _, v := range w.Vals {
				if !v.Removed {
					t += v.LastPower
				}
			}
			return t
		}
		cfg := common.L(rawOfDec(math.LegacyMustNewDecFromStr(k.Frac)), k.Period, env.K.GetSlashMeter(env.Ctx).Int64(),
			rel(env.K.GetSlashMeterReplenishTimeCandidate(env.Ctx)))
		rows0 := rows(w)

		var created int64
		groups := []common.T{}
		obs := []common.T{}

		do := func(raw json.RawMessage) (ops []common.T, res int64) {
			var a []json.RawMessage
			if err := json.Unmarshal(raw, &a); err != nil {
				panic(err)
			}
			num := func(i int) int64 {
				var n int64
				if err := json.Unmarshal(a[i], &n); err != nil {
					panic(err)
				}
				return n
			}
			one := func(op common.T, res int64) ([]common.T, int64) { return []common.T{op}, res }
			switch num(0) {
			case 0: // create: [0, mode, req]  mode 0 registered only, 1 spawn now + opt-in (launches at the next block)
				mode, req := num(1), parseHalves(a[2])
				msg := &providertypes.MsgCreateConsumer{Submitter: owner, ChainId: "chain" + cid(created) + "-1",
					Metadata:             providertypes.ConsumerMetadata{Name: "n", Description: "d", Metadata: "m"},
					InfractionParameters: mkReq(req)}
				if mode != 0 {
					msg.InitializationParameters = initParams(env.Ctx.BlockTime().Add(time.Nanosecond))
				}
				r := env.Deliver(msg)
				if r.OK() {
					if mode == 1 {
						if rr := env.Deliver(&providertypes.MsgOptIn{ConsumerId: cid(created), ProviderAddr: w.Vals[0].Oper.String(),
							Signer: sdk.AccAddress(w.Vals[0].Oper).String()}); !rr.OK() {
							panic("opt-in failed: " + rr.String())
						}
					}
					created++
				}
				return one(common.L(int64(0), dflt, encReq(req)), classify(r))
			case 1: // update: [1, c, sender, req]
				cc, sender, req := num(1), num(2), parseHalves(a[3])
				from := owner
				if sender != 0 {
					from = stranger
				}
				r := env.Deliver(&providertypes.MsgUpdateConsumer{Owner: from, ConsumerId: cid(cc), InfractionParameters: mkReq(req)})
				return one(common.L(int64(1), cc, common.B(sender == 0), encReq(req), int64(w.Unbonding)), classify(r))
			case 4: // MsgRemoveConsumer: [4, c, sender]
				cc, sender := num(1), num(2)
				from := owner
				if sender != 0 {
					from = stranger
				}
				r := env.Deliver(&providertypes.MsgRemoveConsumer{Owner: from, ConsumerId: cid(cc)})
				return one(common.L(int64(4), cc, common.B(sender == 0)), classify(r))
			case 6: // next block dt ns later + module BeginBlock: [6, dt]
				before := make([]int64, created)
				for i := range before {
					before[i] = phaseCode(env.K.GetConsumerPhase(env.Ctx, cid(int64(i))))
				}
				env.NextBlock(time.Duration(num(1)))
				r := env.BeginBlock()
				group := []common.T{}
				var dels []common.T
				for i := range before {
					ci := int64(i)
					after := phaseCode(env.K.GetConsumerPhase(env.Ctx, cid(ci)))
					if before[i] == 1 && after == 2 {
						// the CCV channel opens: channel <-> consumer mapping (what SetConsumerChain stores)
						env.K.SetChannelToConsumerId(env.Ctx, chanOf(ci), cid(ci))
						env.K.SetConsumerIdToChannelId(env.Ctx, cid(ci), chanOf(ci))
						group = append(group, common.L(int64(3), ci))
						// the validator set LaunchConsumer stored for the consumer (oracle of the Slash component)
						vs, err := env.K.GetConsumerValSet(env.Ctx, cid(ci))
						if err != nil {
							panic(err)
						}
						set := []common.T{}
						for _, v := range vs {
							set = append(set, idOfAddr(w, v.ProviderConsAddr))
						}
						group = append(group, common.L(int64(20), ci, set))
					}
					if before[i] == 3 && after == 4 {
						dels = append(dels, common.L(int64(5), ci))
					}
				}
				group = append(group, dels...)
				group = append(group, common.L(int64(6), now(), totalPower()))
				code := int64(0)
				if !r.OK() {
					code = 5
				}
				return group, code
			case 8: // the provider's unbonding period changes: [8, ns]
				w.Unbonding = time.Duration(num(1))
				return []common.T{}, 0
			case 20: // [20, c, [validator ids]]: the consumer's stored validator set
				cc := num(1)
				var set []int64
				if err := json.Unmarshal(a[2], &set); err != nil {
					panic(err)
				}
				if env.K.GetConsumerPhase(env.Ctx, cid(cc)) == providertypes.CONSUMER_PHASE_UNSPECIFIED {
					return []common.T{}, 0
				}
				env.K.DeleteConsumerValSet(env.Ctx, cid(cc))
				for _, i := range set {
					if err := env.K.SetConsumerValidator(env.Ctx, cid(cc), providertypes.ConsensusValidator{ProviderConsAddr: consAddrOf(w, i), Power: 1}); err != nil {
						panic(err)
					}
				}
				return one(common.L(int64(20), cc, common.Ints(set)), 0)
			case 21: // [21, i, field, value]: staking / slashing changes validator i from outside (1 jailed, 2 tombstoned, 3 status)
				i, field, val := num(1), num(2), num(3)
				if i >= 0 && int(i) < len(w.Vals) {
					v := w.Vals[i]
					switch field {
					case 1:
						v.Jailed = val != 0
					case 2:
						v.Tombstoned = val != 0
					default:
						v.Status = stakingtypes.BondStatus(val)
						if v.Status != stakingtypes.Bonded {
							v.LastPower = 0
						} else {
							v.LastPower = v.Power()
						}
					}
				}
				return one(common.L(int64(21), rows(w)), 0)
			case 22: // [22, c, res, infraction, power, vsckind]: slash packet on consumer c's channel for validator res
				cc, res, infr, power, vsckind := num(1), num(2), num(3), num(4), num(5)
				vscid := uint64(1)
				var h common.T = common.L(int64(3))
				if vsckind != 0 {
					vscid, h = 999999, common.L()
				}
				data := ccvtypes.NewSlashPacketData(abci.Validator{Address: consAddrOf(w, res), Power: power}, vscid, stakingtypes.Infraction(infr))
				cpd := ccvtypes.NewConsumerPacketData(ccvtypes.SlashPacket, &ccvtypes.ConsumerPacketData_SlashPacketData{SlashPacketData: data})
				pkt := channeltypes.NewPacket(cpd.GetBytes(), 1, ccvtypes.ConsumerPortID, "channel-9", ccvtypes.ProviderPortID, chanOf(cc),
					clienttypes.NewHeight(1, 100000), 0)
				class := int64(0)
				// IBC core semantics: the callback runs on a cached context, written only for a successful acknowledgement
				r := common.Tx(env.Ctx, func(ctx sdk.Context) error {
					ack := env.Module.OnRecvPacket(ctx, "", pkt, nil)
					if !ack.Success() {
						class = 4
						return fmt.Errorf("error acknowledgement")
					}
					ca, ok := ack.(channeltypes.Acknowledgement)
					if !ok || len(ca.GetResult()) != 1 {
						class = 9
						return nil
					}
					class = int64(ca.GetResult()[0])
					return nil
				})
				if r.Panic != nil {
					class = 0
				}
				return one(common.L(int64(22), cc, res, infr, power, h), class)
			}
			panic("unknown action")
		}

		for _, raw := range k.Actions {
			ops, res := do(raw)
			groups = append(groups, common.T(ops))
			obs = append(obs, common.L(res, snapshot(env, created)))
		}
		return common.L(cfg, rows0, groups), obs
	})
}
